(* C46 -- proofs about Model/BenchVerify.v *)
From DF Require Import Base.Prelude Model.BenchVerify.
From Coq Require Import Lia.
Open Scope Z_scope.

(* ------------------------------------------------------------------ equality tests *)
Lemma text_eqb_eq : forall a b : text, text_eqb a b = true <-> a = b.
Proof.
  unfold text_eqb, zlist_eqb.
  induction a as [|x a IH]; destruct b as [|y b]; cbn [list_eqb]; split; intro H; try reflexivity; try discriminate.
  - apply andb_true_iff in H. destruct H as [H1 H2]. apply Z.eqb_eq in H1. apply IH in H2. subst. reflexivity.
  - inversion H; subst. apply andb_true_iff. split. apply Z.eqb_refl. apply IH. reflexivity.
Qed.

Lemma text_eqb_refl : forall a, text_eqb a a = true.
Proof. intro a. apply text_eqb_eq. reflexivity. Qed.

Lemma is_nil_eq : forall A (l : list A), is_nil l = true <-> l = [].
Proof. intros A [|x l]; cbn; split; intro H; try reflexivity; discriminate. Qed.

(* ------------------------------------------------------------------ cell_ok = cell_equiv *)
Lemma cell_ok_iff : forall e a, cell_ok e a = true <-> cell_equiv e a.
Proof.
  intros e a. unfold cell_ok, cell_equiv.
  rewrite !orb_true_iff, !andb_true_iff, !orb_true_iff, !text_eqb_eq, !is_nil_eq.
  tauto.
Qed.

Lemma cell_ok_false_iff : forall e a, cell_ok e a = false <-> ~ cell_equiv e a.
Proof.
  intros e a. rewrite <- cell_ok_iff. destruct (cell_ok e a); split; intro H.
  - discriminate.
  - exfalso. apply H. reflexivity.
  - intro; discriminate.
  - reflexivity.
Qed.

Lemma cell_equiv_refl : forall c, cell_equiv c c.
Proof. intro c. left. reflexivity. Qed.

(* the relation is directional: an expected NULL accepts an actual empty cell, not conversely *)
Lemma cell_equiv_not_symmetric : exists e a, cell_equiv e a /\ ~ cell_equiv a e.
Proof.
  exists t_NULL, []. split.
  - right. left. split; reflexivity.
  - intros [H|[[H _]|[H _]]]; discriminate.
Qed.

(* it is transitive *)
Lemma cell_equiv_transitive : forall a b c, cell_equiv a b -> cell_equiv b c -> cell_equiv a c.
Proof.
  intros a b c H1 H2. unfold cell_equiv in *.
  destruct H1 as [H1|[[H1 H1']|[H1 [H1'|H1']]]]; subst.
  - exact H2.
  - destruct H2 as [H2|[[H2 _]|[H2 _]]]; subst; try discriminate. right. left. split; reflexivity.
  - destruct H2 as [H2|[[H2 _]|[H2 _]]]; subst; try discriminate. right. right. split. reflexivity. left. reflexivity.
  - destruct H2 as [H2|[[H2 H2']|[H2 _]]]; subst; try discriminate.
    + right. right. split. reflexivity. right. reflexivity.
    + right. right. split. reflexivity. left. reflexivity.
Qed.

(* ------------------------------------------------------------------ compare_results *)
Lemma cmp_cells_none_iff : forall cc col e a,
  length a = length e ->
  (cmp_cells cc col e a = None <-> Forall2 cell_equiv (firstn cc e) (firstn cc a)).
Proof.
  induction cc as [|k IH]; intros col e a Hl.
  - cbn. split; intro; [constructor | reflexivity].
  - destruct e as [|ev e]; destruct a as [|av a]; cbn in Hl; try discriminate.
    + cbn. split; intro; [constructor | reflexivity].
    + cbn [cmp_cells firstn]. destruct (cell_ok ev av) eqn:E.
      * rewrite (IH (col + 1) e a) by lia. split; intro H.
        -- constructor. apply cell_ok_iff. exact E. exact H.
        -- inversion H; subst. assumption.
      * split; intro H. discriminate. inversion H; subst.
        apply cell_ok_iff in H3. rewrite H3 in E. discriminate.
Qed.

Lemma cmp_rows_accept_iff : forall cc act exp row,
  length act = length exp ->
  (cmp_rows cc row act exp = Accept <-> results_equiv cc act exp).
Proof.
  unfold results_equiv.
  induction act as [|a act IH]; intros exp row Hl; destruct exp as [|e exp]; cbn in Hl; try discriminate.
  - cbn. split; intro; [constructor | reflexivity].
  - cbn [cmp_rows]. destruct (Nat.eqb (length a) (length e)) eqn:El; cbn [negb].
    + apply Nat.eqb_eq in El.
      destruct (cmp_cells cc 1 e a) as [c|] eqn:Ec.
      * split; intro H. discriminate. inversion H; subst. destruct H3 as [_ H3].
        apply (cmp_cells_none_iff cc 1 e a El) in H3. rewrite H3 in Ec. discriminate.
      * rewrite (IH exp (row + 1)) by lia. split; intro H.
        -- constructor. split. exact El. apply (cmp_cells_none_iff cc 1 e a El). exact Ec. exact H.
        -- inversion H; subst. assumption.
    + apply Nat.eqb_neq in El. split; intro H. discriminate.
      inversion H; subst. destruct H3 as [H3 _]. contradiction.
Qed.

Lemma Forall2_length' : forall A B (R : A -> B -> Prop) l1 l2, Forall2 R l1 l2 -> length l1 = length l2.
Proof. intros A B R l1 l2 H. induction H; cbn; congruence. Qed.

Theorem accept_iff_cellwise_equiv : forall cc act exp,
  compare_results cc act exp = Accept <-> results_equiv cc act exp.
Proof.
  intros cc act exp. unfold compare_results.
  destruct (is_nil act && is_nil exp) eqn:En.
  - apply andb_true_iff in En. destruct En as [E1 E2]. apply is_nil_eq in E1. apply is_nil_eq in E2. subst.
    split; intro; [constructor | reflexivity].
  - destruct (Nat.eqb (length act) (length exp)) eqn:El; cbn [negb].
    + apply Nat.eqb_eq in El. apply cmp_rows_accept_iff. exact El.
    + apply Nat.eqb_neq in El. split; intro H. discriminate.
      apply Forall2_length' in H. contradiction.
Qed.

(* when every expected row has exactly column_count cells (true for every BenchmarkQuery the parser or
   read_query_from_file builds) all cells are compared *)
Theorem accept_iff_all_cells_equiv : forall cc act exp,
  Forall (fun e => length e = cc) exp ->
  (compare_results cc act exp = Accept <-> Forall2 (fun a e => Forall2 cell_equiv e a) act exp).
Proof.
  intros cc act exp Hwf. rewrite accept_iff_cellwise_equiv. unfold results_equiv.
  revert exp Hwf. induction act as [|a act IH]; intros exp Hwf; destruct exp as [|e exp].
  - split; intro; constructor.
  - split; intro H; inversion H.
  - split; intro H; inversion H.
  - inversion Hwf; subst. split; intro H; inversion H; subst; constructor.
    + destruct H4 as [Hl H4]. rewrite firstn_all in H4. rewrite <- Hl in H4. rewrite firstn_all in H4. exact H4.
    + apply IH; assumption.
    + pose proof (Forall2_length' _ _ _ _ _ H4) as Hl. split. symmetry. exact Hl.
      rewrite firstn_all. rewrite Hl. rewrite firstn_all. exact H4.
    + apply IH; assumption.
Qed.

(* Forall2 fails iff the lengths differ or some position fails *)
Lemma Forall2_nth_iff : forall A B (R : A -> B -> Prop) l1 l2,
  Forall2 R l1 l2 <->
  (length l1 = length l2 /\ forall i x y, nth_error l1 i = Some x -> nth_error l2 i = Some y -> R x y).
Proof.
  intros A B R. induction l1 as [|a l1 IH]; intros [|b l2]; split.
  - intro. split. reflexivity. intros [|i] x y H1; discriminate.
  - intro. constructor.
  - intro H; inversion H.
  - intros [H _]; discriminate.
  - intro H; inversion H.
  - intros [H _]; discriminate.
  - intro H. inversion H; subst. apply IH in H5. destruct H5 as [Hl Hn]. split. cbn; congruence.
    intros [|i] x y H1 H2; cbn in H1, H2.
    + inversion H1; inversion H2; subst. assumption.
    + eapply Hn; eassumption.
  - intros [Hl Hn]. constructor.
    + apply (Hn 0%nat); reflexivity.
    + apply IH. split. cbn in Hl; congruence. intros i x y H1 H2. apply (Hn (S i)); assumption.
Qed.

Lemma nth_error_firstn : forall A (l : list A) n i x,
  nth_error (firstn n l) i = Some x <-> (i < n)%nat /\ nth_error l i = Some x.
Proof.
  intros A. induction l as [|a l IH]; intros n i x.
  - rewrite firstn_nil. destruct i; cbn; split; intro H; try discriminate; destruct H; discriminate.
  - destruct n as [|n].
    + cbn. destruct i; cbn; split; intro H; try discriminate; destruct H; lia.
    + destruct i as [|i]; cbn.
      * split; intro H. split. lia. exact H. apply H.
      * rewrite IH. split; intros [H1 H2]; split; try assumption; lia.
Qed.

Lemma not_differs_equiv : forall cc act exp, results_equiv cc act exp -> ~ differs cc act exp.
Proof.
  intros cc act exp H. unfold results_equiv in H. apply Forall2_nth_iff in H. destruct H as [Hl Hn].
  intros [D|[i [a [e [Ha [He D]]]]]].
  - contradiction.
  - destruct (Hn i a e Ha He) as [Hw Hc]. destruct D as [D|[j [ev [av [Hj [Hev [Hav Hne]]]]]]].
    + contradiction.
    + apply Forall2_nth_iff in Hc. destruct Hc as [_ Hc]. apply Hne. apply (Hc j).
      * apply nth_error_firstn. split; assumption.
      * apply nth_error_firstn. split; assumption.
Qed.

(* the verdict names a real difference, and it is the first one *)
Lemma cmp_cells_some : forall cc col e a c,
  cmp_cells cc col e a = Some c ->
  exists j ev av, c = col + Z.of_nat j /\ (j < cc)%nat /\ nth_error e j = Some ev /\ nth_error a j = Some av /\
                  ~ cell_equiv ev av /\ Forall2 cell_equiv (firstn j e) (firstn j a).
Proof.
  induction cc as [|k IH]; intros col e a c H.
  - cbn in H. discriminate.
  - destruct e as [|ev e]; destruct a as [|av a]; cbn [cmp_cells] in H; try discriminate.
    destruct (cell_ok ev av) eqn:E.
    + apply IH in H. destruct H as [j [ev' [av' [Hc [Hj [He [Ha [Hne Hpre]]]]]]]].
      exists (S j), ev', av'. repeat split; try assumption; try lia.
      cbn [firstn]. constructor. apply cell_ok_iff. exact E. exact Hpre.
    + inversion H; subst. exists 0%nat, ev, av. repeat split; try reflexivity; try lia.
      apply cell_ok_false_iff. exact E. cbn. constructor.
Qed.

Definition rows_verdict_spec (cc : nat) (row : Z) (act exp : list (list text)) (v : verdict) : Prop :=
  match v with
  | Accept => True
  | RowCount _ _ => False
  | ColCount x y =>
      exists i a e, nth_error act i = Some a /\ nth_error exp i = Some e /\ x = len e /\ y = len a /\
                    length a <> length e /\ results_equiv cc (firstn i act) (firstn i exp)
  | CellDiff r c =>
      exists i j a e ev av, r = row + Z.of_nat i /\ c = 1 + Z.of_nat j /\ (j < cc)%nat /\
        nth_error act i = Some a /\ nth_error exp i = Some e /\ length a = length e /\
        nth_error e j = Some ev /\ nth_error a j = Some av /\ ~ cell_equiv ev av /\
        results_equiv cc (firstn i act) (firstn i exp) /\ Forall2 cell_equiv (firstn j e) (firstn j a)
  | ReadError => False
  end.

Lemma cmp_rows_spec : forall cc act exp row, rows_verdict_spec cc row act exp (cmp_rows cc row act exp).
Proof.
  induction act as [|a act IH]; intros exp row.
  - cbn. exact I.
  - destruct exp as [|e exp]. cbn. exact I.
    cbn [cmp_rows]. destruct (Nat.eqb (length a) (length e)) eqn:El; cbn [negb].
    + apply Nat.eqb_eq in El. destruct (cmp_cells cc 1 e a) as [c|] eqn:Ec.
      * apply cmp_cells_some in Ec. destruct Ec as [j [ev [av [Hc [Hj [He [Ha [Hne Hpre]]]]]]]].
        cbn. exists 0%nat, j, a, e, ev, av. repeat split; try assumption; try reflexivity; try lia.
        constructor.
      * specialize (IH exp (row + 1)). destruct (cmp_rows cc (row + 1) act exp) eqn:Ev; cbn in IH |- *; try exact IH.
        -- destruct IH as [i [a' [e' [H1 [H2 [H3 [H4 [H5 H6]]]]]]]].
           exists (S i), a', e'. repeat split; try assumption.
           cbn [firstn]. constructor. split. exact El. apply (cmp_cells_none_iff cc 1 e a El). exact Ec. exact H6.
        -- destruct IH as [i [j [a' [e' [ev [av [H1 [H2 [H3 [H4 [H5 [H6 [H7 [H8 [H9 [H10 H11]]]]]]]]]]]]]]]].
           exists (S i), j, a', e', ev, av. repeat split; try assumption; try lia.
           cbn [firstn]. constructor. split. exact El. apply (cmp_cells_none_iff cc 1 e a El). exact Ec. exact H10.
    + apply Nat.eqb_neq in El. cbn. exists 0%nat, a, e. repeat split; try reflexivity; try assumption. constructor.
Qed.

(* the reported position is the first difference *)
Theorem verdict_is_first_difference : forall cc act exp,
  match compare_results cc act exp with
  | Accept => results_equiv cc act exp
  | RowCount x y => x = len exp /\ y = len act /\ length act <> length exp
  | ColCount x y =>
      exists i a e, nth_error act i = Some a /\ nth_error exp i = Some e /\ x = len e /\ y = len a /\
                    length a <> length e /\ results_equiv cc (firstn i act) (firstn i exp)
  | CellDiff r c =>
      exists i j a e ev av, r = 1 + Z.of_nat i /\ c = 1 + Z.of_nat j /\ (j < cc)%nat /\
        nth_error act i = Some a /\ nth_error exp i = Some e /\ length a = length e /\
        nth_error e j = Some ev /\ nth_error a j = Some av /\ ~ cell_equiv ev av /\
        results_equiv cc (firstn i act) (firstn i exp) /\ Forall2 cell_equiv (firstn j e) (firstn j a)
  | ReadError => False
  end.
Proof.
  intros cc act exp.
  destruct (compare_results cc act exp) eqn:E.
  - apply accept_iff_cellwise_equiv. exact E.
  - unfold compare_results in E. destruct (is_nil act && is_nil exp). discriminate.
    destruct (Nat.eqb (length act) (length exp)) eqn:El; cbn [negb] in E.
    + pose proof (cmp_rows_spec cc act exp 1) as S. rewrite E in S. destruct S.
    + inversion E; subst. apply Nat.eqb_neq in El. auto.
  - unfold compare_results in E. destruct (is_nil act && is_nil exp). discriminate.
    destruct (Nat.eqb (length act) (length exp)) eqn:El; cbn [negb] in E; [|discriminate].
    pose proof (cmp_rows_spec cc act exp 1) as S. rewrite E in S. exact S.
  - unfold compare_results in E. destruct (is_nil act && is_nil exp). discriminate.
    destruct (Nat.eqb (length act) (length exp)) eqn:El; cbn [negb] in E; [|discriminate].
    pose proof (cmp_rows_spec cc act exp 1) as S. rewrite E in S. exact S.
  - unfold compare_results in E. destruct (is_nil act && is_nil exp). discriminate.
    destruct (Nat.eqb (length act) (length exp)) eqn:El; cbn [negb] in E; [|discriminate].
    pose proof (cmp_rows_spec cc act exp 1) as S. rewrite E in S. destruct S.
Qed.

Theorem rejects_any_difference : forall cc act exp,
  compare_results cc act exp <> Accept <-> differs cc act exp.
Proof.
  intros cc act exp. split.
  - intro H. pose proof (verdict_is_first_difference cc act exp) as S.
    destruct (compare_results cc act exp) eqn:E.
    + contradiction.
    + left. apply S.
    + destruct S as [i [a [e [H1 [H2 [_ [_ [H5 _]]]]]]]]. right. exists i, a, e. auto.
    + destruct S as [i [j [a [e [ev [av [_ [_ [H3 [H4 [H5 [_ [H7 [H8 [H9 _]]]]]]]]]]]]]]].
      right. exists i, a, e. split. exact H4. split. exact H5. right. exists j, ev, av. auto.
    + destruct S.
  - intros D H. apply accept_iff_cellwise_equiv in H. exact (not_differs_equiv _ _ _ H D).
Qed.

(* ------------------------------------------------------------------ the CSV writer / reader round trip *)
Lemma special_false : forall b, is_special b = false ->
  (b =? 124) = false /\ (b =? 34) = false /\ is_term b = false.
Proof.
  intros b H. unfold is_special in H. unfold is_term.
  apply orb_false_iff in H. destruct H as [H H4]. apply orb_false_iff in H. destruct H as [H H3].
  apply orb_false_iff in H. destruct H as [H1 H2]. rewrite H1, H2, H3, H4. auto.
Qed.

Lemma rd_infield_plain : forall x s fld rcd, existsb is_special x = false ->
  rd (x ++ s) RInField fld rcd = rd s RInField (fld ++ x) rcd.
Proof.
  induction x as [|b x IH]; intros s fld rcd H.
  - cbn [app]. rewrite app_nil_r. reflexivity.
  - cbn [existsb] in H. apply orb_false_iff in H. destruct H as [Hb Hx].
    destruct (special_false b Hb) as [H1 [H2 H3]].
    cbn [app rd]. rewrite H1, H3. rewrite IH by exact Hx. rewrite <- app_assoc. reflexivity.
Qed.

Lemma rd_quoted_body : forall f s fld rcd,
  rd (dq f ++ 34 :: s) RInQuoted fld rcd = rd s RInDQ (fld ++ f) rcd.
Proof.
  induction f as [|b f IH]; intros s fld rcd.
  - cbn [dq app rd]. rewrite Z.eqb_refl. rewrite app_nil_r. reflexivity.
  - cbn [dq]. destruct (b =? 34) eqn:E.
    + apply Z.eqb_eq in E. subst b. cbn [app rd]. rewrite !Z.eqb_refl. rewrite IH. rewrite <- app_assoc. reflexivity.
    + cbn [app rd]. rewrite E. rewrite IH. rewrite <- app_assoc. reflexivity.
Qed.

(* a field followed by the delimiter / by the terminator, read from the start of a field *)
Lemma rd_field_delim : forall f s rcd,
  rd (enc_field f ++ 124 :: s) RStartField [] rcd = rd s RStartField [] (rcd ++ [f]).
Proof.
  intros f s rcd. unfold enc_field. destruct (existsb is_special f) eqn:E.
  - cbn [app]. rewrite <- app_assoc. cbn [app rd]. rewrite Z.eqb_refl. rewrite rd_quoted_body.
    cbn [rd app]. reflexivity.
  - destruct f as [|b f].
    + cbn [app rd]. reflexivity.
    + cbn [existsb] in E. apply orb_false_iff in E. destruct E as [Hb Hx].
      destruct (special_false b Hb) as [H1 [H2 H3]].
      cbn [app rd]. rewrite H1, H2, H3. rewrite rd_infield_plain by exact Hx. cbn [rd app]. reflexivity.
Qed.

Lemma rd_field_term : forall f s rcd,
  rd (enc_field f ++ 10 :: s) RStartField [] rcd = (rcd ++ [f]) :: rd s RStartRecord [] [].
Proof.
  intros f s rcd. unfold enc_field. destruct (existsb is_special f) eqn:E.
  - cbn [app]. rewrite <- app_assoc. cbn [app rd]. rewrite Z.eqb_refl. rewrite rd_quoted_body.
    cbn [rd app]. reflexivity.
  - destruct f as [|b f].
    + cbn [app rd]. reflexivity.
    + cbn [existsb] in E. apply orb_false_iff in E. destruct E as [Hb Hx].
      destruct (special_false b Hb) as [H1 [H2 H3]].
      cbn [app rd]. rewrite H1, H2, H3. rewrite rd_infield_plain by exact Hx. cbn [rd app]. reflexivity.
Qed.

Lemma rd_fields_term : forall fs s rcd, fs <> [] ->
  rd (enc_fields fs ++ 10 :: s) RStartField [] rcd = (rcd ++ fs) :: rd s RStartRecord [] [].
Proof.
  induction fs as [|f fs IH]; intros s rcd Hne. contradiction.
  destruct fs as [|g fs].
  - cbn [enc_fields]. apply rd_field_term.
  - change (enc_fields (f :: g :: fs)) with (enc_field f ++ 124 :: enc_fields (g :: fs)).
    rewrite <- app_assoc. cbn [app]. rewrite rd_field_delim. rewrite IH by discriminate.
    rewrite <- app_assoc. reflexivity.
Qed.

Lemma enc_field_nil : forall f, enc_field f = [] -> f = [].
Proof. intros f. unfold enc_field. destruct (existsb is_special f). discriminate. auto. Qed.

Lemma enc_field_head : forall f c r, enc_field f = c :: r -> is_term c = false.
Proof.
  intros f c r. unfold enc_field. destruct (existsb is_special f) eqn:E.
  - intro H. inversion H. reflexivity.
  - intro H. subst f. cbn [existsb] in E. apply orb_false_iff in E. destruct E as [E _].
    apply special_false in E. apply E.
Qed.

Lemma enc_fields_head : forall fs c r, enc_fields fs = c :: r -> is_term c = false.
Proof.
  intros [|f fs] c r H. discriminate.
  destruct fs as [|g fs].
  - cbn [enc_fields] in H. eapply enc_field_head. exact H.
  - change (enc_fields (f :: g :: fs)) with (enc_field f ++ 124 :: enc_fields (g :: fs)) in H.
    destruct (enc_field f) as [|c' r'] eqn:E.
    + cbn [app] in H. inversion H. reflexivity.
    + cbn [app] in H. inversion H. subst. eapply enc_field_head. exact E.
Qed.

Lemma enc_fields_nil : forall fs, fs <> [] -> enc_fields fs = [] -> fs = [[]].
Proof.
  intros [|f fs] Hne H. contradiction.
  destruct fs as [|g fs].
  - cbn [enc_fields] in H. apply enc_field_nil in H. subst. reflexivity.
  - change (enc_fields (f :: g :: fs)) with (enc_field f ++ 124 :: enc_fields (g :: fs)) in H.
    apply app_eq_nil in H. destruct H as [_ H]. discriminate.
Qed.

Lemma rd_start_record_nonterm : forall c r, is_term c = false ->
  rd (c :: r) RStartRecord [] [] = rd (c :: r) RStartField [] [].
Proof. intros c r H. cbn [rd]. rewrite H. reflexivity. Qed.

Lemma rd_record : forall fs s, fs <> [] ->
  rd (enc_record fs ++ s) RStartRecord [] [] = fs :: rd s RStartRecord [] [].
Proof.
  intros fs s Hne. unfold enc_record. destruct (enc_fields fs) as [|c b] eqn:E.
  - apply enc_fields_nil in E; [|exact Hne]. subst fs. reflexivity.
  - cbn [is_nil]. rewrite <- app_assoc. cbn [app].
    pose proof (enc_fields_head fs c b E) as Hc.
    rewrite rd_start_record_nonterm by exact Hc.
    change (c :: b ++ 10 :: s) with ((c :: b) ++ 10 :: s). rewrite <- E.
    rewrite rd_fields_term by exact Hne. reflexivity.
Qed.

Lemma rd_records : forall rs, Forall (fun r => r <> []) rs ->
  rd (concat (map enc_record rs)) RStartRecord [] [] = rs.
Proof.
  induction rs as [|r rs IH]; intro H.
  - reflexivity.
  - inversion H; subst. cbn [map concat]. rewrite rd_record by assumption. rewrite IH by assumption. reflexivity.
Qed.

Lemma persist_as_records : forall hdr rows,
  persist hdr rows = concat (map enc_record (hdr :: map (map cell_field) rows)).
Proof. intros. unfold persist. cbn [map concat]. rewrite map_map. reflexivity. Qed.

(* reading back what persist wrote gives the header and the written fields, whatever bytes the cells hold *)
Theorem csv_roundtrip : forall hdr rows,
  hdr <> [] -> Forall (fun r => r <> []) rows ->
  csv_records (persist hdr rows) = hdr :: map (map cell_field) rows.
Proof.
  intros hdr rows Hh Hr. unfold csv_records. rewrite persist_as_records. apply rd_records.
  constructor. exact Hh. apply Forall_forall. intros r Hin. apply in_map_iff in Hin.
  destruct Hin as [r0 [Heq Hin]]. subst r. rewrite Forall_forall in Hr. specialize (Hr r0 Hin).
  destruct r0; [contradiction | discriminate].
Qed.

(* what a persisted table stands for as an expected result: NULL and the empty string both read as NULL *)
Definition expected_cell (c : cell) : text :=
  match c with None => t_NULL | Some [] => t_NULL | Some s => s end.
Definition expected_of (rows : list (list cell)) : list (list text) := map (map expected_cell) rows.

Lemma reread_cell : forall c, fmt_cell (parse_cell (cell_field c)) = expected_cell c.
Proof. intros [[|b s]|]; reflexivity. Qed.

Theorem parse_persisted : forall hdr rows,
  hdr <> [] -> Forall (fun r => length r = length hdr) rows ->
  parse_file (persist hdr rows) = Some (length hdr, expected_of rows).
Proof.
  intros hdr rows Hh Hr. unfold parse_file. rewrite csv_roundtrip.
  - destruct hdr as [|h hdr]. contradiction. cbn [is_nil].
    replace (forallb _ (map (map cell_field) rows)) with true.
    + f_equal. f_equal. unfold expected_of. rewrite map_map. apply map_ext. intro r.
      rewrite map_map. apply map_ext. intro c. apply reread_cell.
    + symmetry. apply forallb_forall. intros r Hin. apply in_map_iff in Hin. destruct Hin as [r0 [Heq Hin]].
      subst r. rewrite map_length. rewrite Forall_forall in Hr. rewrite (Hr r0 Hin). apply Nat.eqb_refl.
  - exact Hh.
  - rewrite Forall_forall in *. intros r Hin Hnil. specialize (Hr r Hin). subst r.
    destruct hdr. contradiction. discriminate.
Qed.

(* verify against a persisted table = compare against what the table stands for *)
Theorem verify_persisted : forall hdr rows actual,
  hdr <> [] -> Forall (fun r => length r = length hdr) rows ->
  verify (persist hdr rows) actual = compare_results (length hdr) (fmt_result actual) (expected_of rows).
Proof. intros. unfold verify. rewrite parse_persisted by assumption. reflexivity. Qed.

Lemma own_cell_equiv : forall c, cell_equiv (expected_cell c) (fmt_cell c).
Proof.
  intros [[|b s]|].
  - right. left. split; reflexivity.
  - left. reflexivity.
  - left. reflexivity.
Qed.

Lemma Forall2_map_same : forall A B C (R : B -> C -> Prop) (f : A -> B) (g : A -> C) l,
  (forall x, In x l -> R (f x) (g x)) -> Forall2 R (map f l) (map g l).
Proof.
  induction l as [|x l IH]; intro H; cbn [map]; constructor.
  - apply H. left. reflexivity.
  - apply IH. intros y Hy. apply H. right. exact Hy.
Qed.

Theorem accepts_own_persisted : forall hdr rows,
  hdr <> [] -> Forall (fun r => length r = length hdr) rows ->
  verify (persist hdr rows) rows = Accept.
Proof.
  intros hdr rows Hh Hr. rewrite verify_persisted by assumption.
  apply accept_iff_cellwise_equiv. unfold results_equiv, fmt_result, expected_of.
  apply Forall2_map_same. intros r _. split.
  - rewrite !map_length. reflexivity.
  - rewrite !firstn_map. apply Forall2_map_same. intros c _. apply own_cell_equiv.
Qed.

(* ... and verify accepts another result exactly when it has the persisted shape and every cell is
   equivalent to the persisted one *)
Theorem verify_persisted_accept_iff : forall hdr rows actual,
  hdr <> [] -> Forall (fun r => length r = length hdr) rows ->
  (verify (persist hdr rows) actual = Accept <->
   Forall2 (fun a p => Forall2 (fun pc ac => cell_equiv (expected_cell pc) (fmt_cell ac)) p a) actual rows).
Proof.
  intros hdr rows actual Hh Hr. rewrite verify_persisted by assumption.
  rewrite accept_iff_all_cells_equiv.
  - unfold fmt_result, expected_of. revert rows Hr. induction actual as [|a actual IH]; intros [|p rows] Hr; cbn [map].
    + split; intro; constructor.
    + split; intro H; inversion H.
    + split; intro H; inversion H.
    + inversion Hr; subst. split; intro H; inversion H; subst; constructor.
      * clear - H5. revert a H5. induction p as [|pc p IHp]; intros [|ac a] H5; cbn [map] in H5; inversion H5; subst; constructor.
        assumption. apply IHp. assumption.
      * apply IH; assumption.
      * clear - H5. revert a H5. induction p as [|pc p IHp]; intros [|ac a] H5; inversion H5; subst; cbn [map]; constructor.
        assumption. apply IHp. assumption.
      * apply IH; assumption.
  - unfold expected_of. apply Forall_forall. intros e Hin. apply in_map_iff in Hin. destruct Hin as [r [Heq Hin]].
    subst e. rewrite map_length. rewrite Forall_forall in Hr. apply Hr. exact Hin.
Qed.

(* ------------------------------------------------------------------ placeholders *)
Definition prepend (p : text) (r : res) : res := match r with Ok t => Ok (p ++ t) | e => e end.

Definition dollar_only (f : text -> option (res * nat)) : Prop :=
  forall c r, c <> 36 -> f (c :: r) = None.

Lemma eat_hit : forall a r, eat a (a :: r) = Some r.
Proof. intros. unfold eat. rewrite Z.eqb_refl. reflexivity. Qed.
Lemma eat_miss : forall a b r, b <> a -> eat a (b :: r) = None.
Proof. intros a b r H. unfold eat. apply Z.eqb_neq in H. rewrite H. reflexivity. Qed.
Lemma eat2_hit : forall a b r, eat2 a b (a :: b :: r) = Some r.
Proof. intros. unfold eat2. rewrite eat_hit. apply eat_hit. Qed.
Lemma eat2_miss : forall a b c r, c <> a -> eat2 a b (c :: r) = None.
Proof. intros. unfold eat2. rewrite eat_miss by assumption. reflexivity. Qed.

Lemma repl_var_dollar_only : forall m env, dollar_only (repl_var m env).
Proof. intros m env c r H. unfold repl_var, match_var. rewrite eat2_miss by exact H. reflexivity. Qed.
Lemma repl_tf_dollar_only : forall m env, dollar_only (repl_tf m env).
Proof. intros m env c r H. unfold repl_tf, match_tf. rewrite eat2_miss by exact H. reflexivity. Qed.

Lemma not_b_true : forall c b, not_b c b = true -> b <> c.
Proof. intros c b H. unfold not_b in H. apply negb_true_iff in H. apply Z.eqb_neq. exact H. Qed.

Lemma scan_pre : forall f pre s, dollar_only f -> no_dollar pre = true ->
  scan f (pre ++ s) 0 = prepend pre (scan f s 0).
Proof.
  intros f pre s Hf. induction pre as [|c pre IH]; intro H.
  - cbn [app]. destruct (scan f s 0); reflexivity.
  - unfold no_dollar in H. cbn [forallb] in H. apply andb_true_iff in H. destruct H as [Hc Hp].
    apply not_b_true in Hc. cbn [app scan]. rewrite (Hf c (pre ++ s) Hc). rewrite (IH Hp).
    destruct (scan f s 0); reflexivity.
Qed.

Lemma scan_no_dollar : forall f t, dollar_only f -> no_dollar t = true -> scan f t 0 = Ok t.
Proof.
  intros f t Hf H. rewrite <- (app_nil_r t) at 1. rewrite scan_pre by assumption.
  cbn [scan prepend]. rewrite app_nil_r. reflexivity.
Qed.

Lemma scan_skip : forall f x s, scan f (x ++ s) (length x) = scan f s 0.
Proof. intros f x s. induction x as [|c x IH]. reflexivity. cbn [app length scan]. exact IH. Qed.

Lemma scan_hit : forall f c s v n, f (c :: s) = Some (Ok v, S n) ->
  scan f (c :: s) 0 = prepend v (scan f s n).
Proof. intros f c s v n H. cbn [scan]. rewrite H. cbn [pred]. destruct (scan f s n); reflexivity. Qed.

Lemma scan_hit_err : forall f c s k n, f (c :: s) = Some (MissingKey k, n) -> scan f (c :: s) 0 = MissingKey k.
Proof. intros f c s k n H. cbn [scan]. rewrite H. reflexivity. Qed.

Lemma scan_miss : forall f c s, f (c :: s) = None -> scan f (c :: s) 0 = prepend [c] (scan f s 0).
Proof. intros f c s H. cbn [scan]. rewrite H. destruct (scan f s 0); reflexivity. Qed.

Lemma span_app : forall p x c r, forallb p x = true -> p c = false -> span p (x ++ c :: r) = (x, c :: r).
Proof.
  intros p x c r. induction x as [|b x IH]; intros Hx Hc.
  - cbn [app span]. rewrite Hc. reflexivity.
  - cbn [forallb] in Hx. apply andb_true_iff in Hx. destruct Hx as [Hb Hx].
    cbn [app span]. rewrite Hb. rewrite IH by assumption. reflexivity.
Qed.

Lemma is_key_parts : forall k, is_key k = true -> is_nil k = false /\ forallb is_word k = true.
Proof. intros k H. unfold is_key in H. apply andb_true_iff in H. destruct H as [H1 H2]. apply negb_true_iff in H1. auto. Qed.

Lemma forallb_impl : forall (p q : Z -> bool) l, (forall b, p b = true -> q b = true) -> forallb p l = true -> forallb q l = true.
Proof.
  intros p q l H. induction l as [|b l IH]; intro Hl. reflexivity.
  cbn [forallb] in *. apply andb_true_iff in Hl. destruct Hl as [H1 H2]. rewrite (H b H1). rewrite IH by exact H2. reflexivity.
Qed.

Lemma is_word_range : forall b, is_word b = true -> 48 <= b <= 122.
Proof.
  intros b H. unfold is_word in H. rewrite !orb_true_iff, !andb_true_iff, !Z.leb_le, Z.eqb_eq in H. lia.
Qed.

Lemma key_no_dollar : forall k, forallb is_word k = true -> no_dollar k = true.
Proof.
  intros k. apply forallb_impl. intros b H. apply is_word_range in H. unfold not_b. apply negb_true_iff. apply Z.eqb_neq. lia.
Qed.

Lemma key_not : forall c k, (c < 48 \/ 122 < c) -> forallb is_word k = true -> forallb (not_b c) k = true.
Proof.
  intros c k Hc. apply forallb_impl. intros b H. apply is_word_range in H. unfold not_b. apply negb_true_iff. apply Z.eqb_neq. lia.
Qed.

Lemma plain_parts : forall d, plain_arg d = true ->
  is_nil d = false /\ no_dollar d = true /\ forallb not_bar_brace d = true /\ forallb (not_b 125) d = true /\ forallb (not_b 124) d = true.
Proof.
  intros d H. unfold plain_arg in H. apply andb_true_iff in H. destruct H as [H1 H2]. apply negb_true_iff in H1.
  split. exact H1. repeat split; revert H2; apply forallb_impl; intros b Hb; apply negb_true_iff in Hb;
    apply orb_false_iff in Hb; destruct Hb as [Hb H3]; apply orb_false_iff in Hb; destruct Hb as [Hb1 Hb2].
  - unfold not_b. rewrite Hb1. reflexivity.
  - unfold not_bar_brace. rewrite Hb2, H3. reflexivity.
  - unfold not_b. rewrite H3. reflexivity.
  - unfold not_b. rewrite Hb2. reflexivity.
Qed.

Lemma no_dollar_app : forall a b, no_dollar (a ++ b) = no_dollar a && no_dollar b.
Proof. intros. unfold no_dollar. apply forallb_app. Qed.

(* ---- ${k} *)
Lemma match_var_ph : forall k post, is_key k = true ->
  match_var (ph_var k ++ post) = Some (k, None, (3 + length k)%nat).
Proof.
  intros k post Hk. destruct (is_key_parts k Hk) as [Hn Hw].
  unfold ph_var. cbn [app]. rewrite <- app_assoc. cbn [app]. unfold match_var. rewrite eat2_hit.
  rewrite (span_app is_word k 125 post Hw eq_refl). cbv beta iota. rewrite Hn. rewrite eat_hit. reflexivity.
Qed.

Lemma match_tf_ph_var : forall k post, is_key k = true -> match_tf (ph_var k ++ post) = None.
Proof.
  intros k post Hk. destruct (is_key_parts k Hk) as [Hn Hw].
  unfold ph_var. cbn [app]. rewrite <- app_assoc. cbn [app]. unfold match_tf. rewrite eat2_hit.
  rewrite (span_app is_word k 125 post Hw eq_refl). cbv beta iota. rewrite Hn. reflexivity.
Qed.

Lemma ph_var_tail_no_dollar : forall k, forallb is_word k = true -> no_dollar (123 :: k ++ [125]) = true.
Proof.
  intros k Hw. change (123 :: k ++ [125]) with ([123] ++ k ++ [125]). rewrite !no_dollar_app.
  rewrite (key_no_dollar k Hw). reflexivity.
Qed.

Theorem process_var : forall m env pre post k,
  no_dollar pre = true -> no_dollar post = true -> is_key k = true ->
  process m env (pre ++ ph_var k ++ post) =
  match resolve m env k None with
  | Some v => Ok (pre ++ v ++ post)
  | None => MissingKey k
  end.
Proof.
  intros m env pre post k Hpre Hpost Hk. destruct (is_key_parts k Hk) as [Hn Hw]. unfold process.
  (* pass 1 finds nothing *)
  assert (P1 : scan (repl_tf m env) (pre ++ ph_var k ++ post) 0 = Ok (pre ++ ph_var k ++ post)).
  { rewrite scan_pre by (auto using repl_tf_dollar_only).
    assert (T : scan (repl_tf m env) (ph_var k ++ post) 0 = Ok (ph_var k ++ post)).
    { unfold ph_var at 1. cbn [app]. rewrite scan_miss.
      - rewrite scan_no_dollar. reflexivity. apply repl_tf_dollar_only.
        change (123 :: (k ++ [125]) ++ post) with ((123 :: k ++ [125]) ++ post).
        rewrite no_dollar_app. rewrite ph_var_tail_no_dollar by exact Hw. exact Hpost.
      - unfold repl_tf. change (36 :: 123 :: (k ++ [125]) ++ post) with (ph_var k ++ post).
        rewrite match_tf_ph_var by exact Hk. reflexivity. }
    rewrite T. reflexivity. }
  rewrite P1.
  (* pass 2 *)
  rewrite scan_pre by (auto using repl_var_dollar_only).
  assert (M : repl_var m env (ph_var k ++ post) =
              Some (match resolve m env k None with Some v => Ok v | None => MissingKey k end, S (length (123 :: k ++ [125])))).
  { unfold repl_var. rewrite match_var_ph by exact Hk. unfold resolve, lookup_value.
    f_equal. f_equal.
    - destruct (lookup (map lower k) m); [reflexivity|]. destruct (lookup (map upper k) env); reflexivity.
    - cbn [length]. rewrite app_length. cbn [length]. lia. }
  unfold ph_var in M |- *. cbn [app] in M |- *.
  destruct (resolve m env k None) as [v|].
  - rewrite (scan_hit _ _ _ _ _ M).
    change (123 :: (k ++ [125]) ++ post) with ((123 :: k ++ [125]) ++ post).
    rewrite scan_skip. rewrite scan_no_dollar by (auto using repl_var_dollar_only). reflexivity.
  - rewrite (scan_hit_err _ _ _ _ _ M). reflexivity.
Qed.

(* ---- ${k:-d} *)
Lemma ph_var_d_shape : forall k d post,
  ph_var_d k d ++ post = 36 :: 123 :: k ++ 58 :: 45 :: d ++ 125 :: post.
Proof. intros. unfold ph_var_d. cbn [app]. rewrite <- app_assoc. cbn [app]. rewrite <- app_assoc. reflexivity. Qed.

Lemma match_var_ph_d : forall k d post, is_key k = true -> plain_arg d = true ->
  match_var (ph_var_d k d ++ post) = Some (k, Some d, (5 + length k + length d)%nat).
Proof.
  intros k d post Hk Hd. destruct (is_key_parts k Hk) as [Hn Hw].
  destruct (plain_parts d Hd) as [Hdn [_ [_ [Hd125 _]]]].
  rewrite ph_var_d_shape. unfold match_var. rewrite eat2_hit.
  rewrite (span_app is_word k 58 _ Hw eq_refl). cbv beta iota. rewrite Hn.
  rewrite eat_miss by discriminate. rewrite eat2_hit.
  rewrite (span_app (not_b 125) d 125 post Hd125 eq_refl). cbv beta iota. rewrite Hdn. rewrite eat_hit. reflexivity.
Qed.

Lemma match_tf_ph_var_d : forall k d post, is_key k = true -> plain_arg d = true ->
  match_tf (ph_var_d k d ++ post) = None.
Proof.
  intros k d post Hk Hd. destruct (is_key_parts k Hk) as [Hn Hw].
  destruct (plain_parts d Hd) as [Hdn [_ [Hdbb _]]].
  rewrite ph_var_d_shape. unfold match_tf. rewrite eat2_hit.
  rewrite (span_app is_word k 58 _ Hw eq_refl). cbv beta iota. rewrite Hn. rewrite eat2_hit.
  rewrite (span_app not_bar_brace d 125 post Hdbb eq_refl). cbv beta iota. rewrite Hdn.
  unfold match_branches. rewrite eat_miss by discriminate. reflexivity.
Qed.

Theorem process_var_default : forall m env pre post k d,
  no_dollar pre = true -> no_dollar post = true -> is_key k = true -> plain_arg d = true ->
  process m env (pre ++ ph_var_d k d ++ post) =
  match resolve m env k (Some d) with
  | Some v => Ok (pre ++ v ++ post)
  | None => MissingKey k
  end.
Proof.
  intros m env pre post k d Hpre Hpost Hk Hd. destruct (is_key_parts k Hk) as [Hn Hw].
  destruct (plain_parts d Hd) as [Hdn [Hd36 _]]. unfold process.
  assert (TAIL : no_dollar ((123 :: k ++ 58 :: 45 :: d ++ [125]) ++ post) = true).
  { rewrite no_dollar_app. rewrite Hpost. rewrite andb_true_r.
    change (123 :: k ++ 58 :: 45 :: d ++ [125]) with ([123] ++ k ++ [58; 45] ++ d ++ [125]).
    rewrite !no_dollar_app. rewrite (key_no_dollar k Hw), Hd36. reflexivity. }
  assert (SHAPE : ph_var_d k d ++ post = 36 :: (123 :: k ++ 58 :: 45 :: d ++ [125]) ++ post) by reflexivity.
  assert (P1 : scan (repl_tf m env) (pre ++ ph_var_d k d ++ post) 0 = Ok (pre ++ ph_var_d k d ++ post)).
  { rewrite scan_pre by (auto using repl_tf_dollar_only).
    assert (T : scan (repl_tf m env) (ph_var_d k d ++ post) 0 = Ok (ph_var_d k d ++ post)).
    { rewrite SHAPE. rewrite scan_miss.
      - rewrite scan_no_dollar by (auto using repl_tf_dollar_only). reflexivity.
      - rewrite <- SHAPE. unfold repl_tf. rewrite match_tf_ph_var_d by assumption. reflexivity. }
    rewrite T. reflexivity. }
  rewrite P1.
  rewrite scan_pre by (auto using repl_var_dollar_only).
  assert (M : repl_var m env (ph_var_d k d ++ post) =
              Some (match resolve m env k (Some d) with Some v => Ok v | None => MissingKey k end,
                    S (length (123 :: k ++ 58 :: 45 :: d ++ [125])))).
  { unfold repl_var. rewrite match_var_ph_d by assumption. unfold resolve, lookup_value.
    f_equal. f_equal.
    - destruct (lookup (map lower k) m); [reflexivity|]. destruct (lookup (map upper k) env); reflexivity.
    - cbn [length]. rewrite app_length. cbn [length]. rewrite app_length. cbn [length]. lia. }
  rewrite SHAPE in M |- *.
  destruct (resolve m env k (Some d)) as [v|].
  - rewrite (scan_hit _ _ _ _ _ M). rewrite scan_skip.
    rewrite scan_no_dollar by (auto using repl_var_dollar_only). reflexivity.
  - rewrite (scan_hit_err _ _ _ _ _ M). reflexivity.
Qed.

(* the precedence, spelled out *)
Theorem resolve_explicit : forall m env k d v, lookup (map lower k) m = Some v -> resolve m env k d = Some v.
Proof. intros. unfold resolve. rewrite H. reflexivity. Qed.
Theorem resolve_env : forall m env k d v,
  lookup (map lower k) m = None -> lookup (map upper k) env = Some v -> resolve m env k d = Some v.
Proof. intros. unfold resolve. rewrite H, H0. reflexivity. Qed.
Theorem resolve_default : forall m env k d,
  lookup (map lower k) m = None -> lookup (map upper k) env = None -> resolve m env k d = d.
Proof. intros. unfold resolve. rewrite H, H0. reflexivity. Qed.

Theorem process_no_dollar : forall m env t, no_dollar t = true -> process m env t = Ok t.
Proof.
  intros m env t H. unfold process. rewrite scan_no_dollar by (auto using repl_tf_dollar_only).
  apply scan_no_dollar. apply repl_var_dollar_only. exact H.
Qed.

(* ---- ${k|t|f} and ${k:-d|t|f} *)
Definition opt_d (d : option text) : text := match d with Some dv => 58 :: 45 :: dv | None => [] end.
Definition ph_tf_gen (k : text) (d : option text) (t f : text) : text :=
  36 :: 123 :: k ++ opt_d d ++ 124 :: t ++ 124 :: f ++ [125].

Lemma ph_tf_gen_none : forall k t f, ph_tf_gen k None t f = ph_tf k t f.
Proof. reflexivity. Qed.
Lemma ph_tf_gen_some : forall k d t f, ph_tf_gen k (Some d) t f = ph_tf_d k d t f.
Proof. reflexivity. Qed.

Lemma match_branches_hit : forall t f post,
  is_nil t = false -> forallb (not_b 124) t = true -> is_nil f = false -> forallb (not_b 125) f = true ->
  match_branches (124 :: t ++ 124 :: f ++ 125 :: post) = Some (t, f, (3 + length t + length f)%nat).
Proof.
  intros t f post Ht1 Ht2 Hf1 Hf2. unfold match_branches. rewrite eat_hit.
  rewrite (span_app (not_b 124) t 124 _ Ht2 eq_refl). cbv beta iota. rewrite Ht1. rewrite eat_hit.
  rewrite (span_app (not_b 125) f 125 post Hf2 eq_refl). cbv beta iota. rewrite Hf1. rewrite eat_hit. reflexivity.
Qed.

Definition plain_opt (d : option text) : bool := match d with Some dv => plain_arg dv | None => true end.

Lemma match_tf_hit : forall k d t f post,
  is_key k = true -> plain_opt d = true ->
  is_nil t = false -> forallb (not_b 124) t = true -> is_nil f = false -> forallb (not_b 125) f = true ->
  match_tf (ph_tf_gen k d t f ++ post) =
  Some (k, d, t, f, S (length (123 :: k ++ opt_d d ++ 124 :: t ++ 124 :: f ++ [125]))).
Proof.
  intros k d t f post Hk Hd Ht1 Ht2 Hf1 Hf2. destruct (is_key_parts k Hk) as [Hn Hw].
  assert (SH : ph_tf_gen k d t f ++ post = 36 :: 123 :: k ++ opt_d d ++ 124 :: t ++ 124 :: f ++ 125 :: post).
  { unfold ph_tf_gen. cbn [app]. rewrite <- !app_assoc. cbn [app]. rewrite <- !app_assoc. cbn [app].
    rewrite <- !app_assoc. reflexivity. }
  rewrite SH. unfold match_tf. rewrite eat2_hit. destruct d as [dv|].
  - cbn [plain_opt] in Hd. destruct (plain_parts dv Hd) as [Hdn [_ [Hdbb _]]].
    cbn [opt_d app]. rewrite (span_app is_word k 58 _ Hw eq_refl). cbv beta iota. rewrite Hn. rewrite eat2_hit.
    rewrite (span_app not_bar_brace dv 124 _ Hdbb eq_refl). cbv beta iota. rewrite Hdn.
    rewrite match_branches_hit by assumption. f_equal. f_equal.
    cbn [length]. repeat (rewrite app_length; cbn [length]). lia.
  - cbn [opt_d app]. rewrite (span_app is_word k 124 _ Hw eq_refl). cbv beta iota. rewrite Hn.
    rewrite eat2_miss by discriminate.
    rewrite match_branches_hit by assumption. f_equal. f_equal.
    cbn [length]. repeat (rewrite app_length; cbn [length]). lia.
Qed.

(* the true/false form with plain branches *)
Theorem process_true_false : forall m env pre post k d t f,
  no_dollar pre = true -> no_dollar post = true -> is_key k = true -> plain_opt d = true ->
  plain_arg t = true -> plain_arg f = true ->
  process m env (pre ++ ph_tf_gen k d t f ++ post) =
  match resolve m env k d with
  | Some v => Ok (pre ++ (if is_true v then t else f) ++ post)
  | None => MissingKey k
  end.
Proof.
  intros m env pre post k d t f Hpre Hpost Hk Hd Ht Hf.
  destruct (plain_parts t Ht) as [Htn [Ht36 [_ [_ Ht124]]]].
  destruct (plain_parts f Hf) as [Hfn [Hf36 [_ [Hf125 _]]]].
  unfold process. rewrite scan_pre by (auto using repl_tf_dollar_only).
  assert (M : repl_tf m env (ph_tf_gen k d t f ++ post) =
              Some (match resolve m env k d with Some v => if is_true v then Ok t else Ok f | None => MissingKey k end,
                    S (length (123 :: k ++ opt_d d ++ 124 :: t ++ 124 :: f ++ [125])))).
  { unfold repl_tf. rewrite match_tf_hit by assumption. unfold resolve, lookup_value.
    f_equal. f_equal.
    destruct (lookup (map lower k) m); [reflexivity|]. destruct (lookup (map upper k) env); reflexivity. }
  assert (SHAPE : ph_tf_gen k d t f ++ post = 36 :: (123 :: k ++ opt_d d ++ 124 :: t ++ 124 :: f ++ [125]) ++ post) by reflexivity.
  rewrite SHAPE in M |- *.
  destruct (resolve m env k d) as [v|].
  - assert (OUT : no_dollar (pre ++ (if is_true v then t else f) ++ post) = true).
    { rewrite !no_dollar_app. rewrite Hpre, Hpost. destruct (is_true v); [rewrite Ht36 | rewrite Hf36]; reflexivity. }
    destruct (is_true v).
    + rewrite (scan_hit _ _ _ _ _ M). rewrite scan_skip. rewrite scan_no_dollar by (auto using repl_tf_dollar_only).
      cbn [prepend]. apply scan_no_dollar. apply repl_var_dollar_only. exact OUT.
    + rewrite (scan_hit _ _ _ _ _ M). rewrite scan_skip. rewrite scan_no_dollar by (auto using repl_tf_dollar_only).
      cbn [prepend]. apply scan_no_dollar. apply repl_var_dollar_only. exact OUT.
  - rewrite (scan_hit_err _ _ _ _ _ M). reflexivity.
Qed.

Lemma process_var_alone : forall m env k, is_key k = true ->
  process m env (ph_var k) = match resolve m env k None with Some v => Ok v | None => MissingKey k end.
Proof.
  intros m env k Hk.
  pose proof (process_var m env [] [] k eq_refl eq_refl Hk) as PV. cbn [app] in PV. rewrite app_nil_r in PV.
  rewrite PV. destruct (resolve m env k None); [rewrite app_nil_r|]; reflexivity.
Qed.

(* a variable inside the chosen branch is resolved by the second pass ... *)
Theorem true_branch_rescanned : forall m env k a f v,
  is_key k = true -> is_key a = true -> plain_arg f = true ->
  resolve m env k None = Some v -> is_true v = true ->
  process m env (ph_tf k (ph_var a) f) =
  match resolve m env a None with
  | Some w => Ok w
  | None => MissingKey a
  end.
Proof.
  intros m env k a f v Hk Ha Hf Hr Hv.
  destruct (plain_parts f Hf) as [Hfn [Hf36 [_ [Hf125 _]]]].
  destruct (is_key_parts a Ha) as [Han Haw].
  pose proof (process_var_alone m env a Ha) as PV.
  rewrite <- (app_nil_r (ph_tf k (ph_var a) f)). rewrite <- ph_tf_gen_none.
  unfold process.
  assert (M : repl_tf m env (ph_tf_gen k None (ph_var a) f ++ []) =
              Some (Ok (ph_var a), S (length (123 :: k ++ opt_d None ++ 124 :: ph_var a ++ 124 :: f ++ [125])))).
  { unfold repl_tf. rewrite match_tf_hit; try assumption; try reflexivity.
    - unfold lookup_value. unfold resolve in Hr.
      destruct (lookup (map lower k) m) as [x|].
      + inversion Hr; subst. rewrite Hv. reflexivity.
      + destruct (lookup (map upper k) env) as [x|]; [|discriminate]. inversion Hr; subst. rewrite Hv. reflexivity.
    - unfold ph_var. cbn [forallb]. rewrite forallb_app. assert (H124 : 124 < 48 \/ 122 < 124) by lia. rewrite (key_not 124 a H124 Haw). reflexivity. }
  assert (SHAPE : ph_tf_gen k None (ph_var a) f ++ [] =
                  36 :: (123 :: k ++ opt_d None ++ 124 :: ph_var a ++ 124 :: f ++ [125]) ++ []) by reflexivity.
  rewrite SHAPE in M |- *.
  rewrite (scan_hit _ _ _ _ _ M). rewrite scan_skip. cbn [scan prepend]. rewrite app_nil_r.
  unfold process in PV.
  assert (P1 : scan (repl_tf m env) (ph_var a) 0 = Ok (ph_var a)).
  { unfold ph_var. rewrite scan_miss.
    - rewrite scan_no_dollar. reflexivity. apply repl_tf_dollar_only. apply ph_var_tail_no_dollar. exact Haw.
    - unfold repl_tf. pose proof (match_tf_ph_var a [] Ha) as T. rewrite app_nil_r in T. unfold ph_var in T.
      rewrite T. reflexivity. }
  rewrite P1 in PV. exact PV.
Qed.

(* ... whereas a substituted value is never scanned again *)
Theorem value_not_rescanned : forall m env k v,
  is_key k = true -> resolve m env k None = Some v -> process m env (ph_var k) = Ok v.
Proof.
  intros m env k v Hk Hr.
  rewrite process_var_alone by exact Hk. rewrite Hr. reflexivity.
Qed.

Theorem placeholder_precedence :
  forall m env pre post k d,
    no_dollar pre = true -> no_dollar post = true -> is_key k = true -> plain_arg d = true ->
    process m env (pre ++ ph_var_d k d ++ post) =
      Ok (pre ++ (match lookup (map lower k) m with
                  | Some v => v
                  | None => match lookup (map upper k) env with
                            | Some v => v
                            | None => d
                            end
                  end) ++ post)
    /\
    process m env (pre ++ ph_var k ++ post) =
      match lookup (map lower k) m with
      | Some v => Ok (pre ++ v ++ post)
      | None => match lookup (map upper k) env with
                | Some v => Ok (pre ++ v ++ post)
                | None => MissingKey k
                end
      end.
Proof.
  intros m env pre post k d H1 H2 H3 H4. split.
  - rewrite process_var_default by assumption. unfold resolve.
    destruct (lookup (map lower k) m); [reflexivity|]. destruct (lookup (map upper k) env); reflexivity.
  - rewrite process_var by assumption. unfold resolve.
    destruct (lookup (map lower k) m); [reflexivity|]. destruct (lookup (map upper k) env); reflexivity.
Qed.
