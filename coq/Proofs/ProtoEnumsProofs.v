(* C35 -- the per-table obligations over the GENERATED tables of Gen/ProtoEnums.v (translators/rs_enummap2coq.py --set logical).
   The scripts are generic (`destruct v; reflexivity`): they keep working when the source gains variants and fail when the
   source maps two variants to one tag, forgets a decode arm or swaps two arms -- that failure is a violation of C35 and
   the driver then reports the offending variants from bad_variants_X. *)
From Coq Require Import List ZArith String Bool.
From DF Require Import Model.ProtoCodec Proofs.ProtoCodecProofs Gen.ProtoEnums.
Import ListNotations.
Open Scope Z_scope.

Ltac all_in := repeat (first [left; reflexivity | right]).

Lemma dec_enc_JoinType : forall v : JoinType, dec_JoinType (enc_JoinType v) = Some v.
Proof. destruct v; reflexivity. Qed.
Lemma enc_injective_JoinType : forall a b : JoinType, enc_JoinType a = enc_JoinType b -> a = b.
Proof. exact (dec_enc_injective enc_JoinType dec_JoinType dec_enc_JoinType). Qed.
Lemma all_JoinType_complete : forall v : JoinType, In v all_JoinType.
Proof. destruct v; unfold all_JoinType; all_in. Qed.
Lemma table_ok_JoinType_true : table_ok_JoinType = true.
Proof. vm_compute. reflexivity. Qed.

Lemma dec_enc_JoinConstraint : forall v : JoinConstraint, dec_JoinConstraint (enc_JoinConstraint v) = Some v.
Proof. destruct v; reflexivity. Qed.
Lemma enc_injective_JoinConstraint : forall a b : JoinConstraint, enc_JoinConstraint a = enc_JoinConstraint b -> a = b.
Proof. exact (dec_enc_injective enc_JoinConstraint dec_JoinConstraint dec_enc_JoinConstraint). Qed.
Lemma all_JoinConstraint_complete : forall v : JoinConstraint, In v all_JoinConstraint.
Proof. destruct v; unfold all_JoinConstraint; all_in. Qed.
Lemma table_ok_JoinConstraint_true : table_ok_JoinConstraint = true.
Proof. vm_compute. reflexivity. Qed.

Lemma dec_enc_NullEquality : forall v : NullEquality, dec_NullEquality (enc_NullEquality v) = Some v.
Proof. destruct v; reflexivity. Qed.
Lemma enc_injective_NullEquality : forall a b : NullEquality, enc_NullEquality a = enc_NullEquality b -> a = b.
Proof. exact (dec_enc_injective enc_NullEquality dec_NullEquality dec_enc_NullEquality). Qed.
Lemma all_NullEquality_complete : forall v : NullEquality, In v all_NullEquality.
Proof. destruct v; unfold all_NullEquality; all_in. Qed.
Lemma table_ok_NullEquality_true : table_ok_NullEquality = true.
Proof. vm_compute. reflexivity. Qed.

Lemma dec_enc_NullHandling : forall v : NullHandling, dec_NullHandling (enc_NullHandling v) = Some v.
Proof. destruct v; reflexivity. Qed.
Lemma enc_injective_NullHandling : forall a b : NullHandling, enc_NullHandling a = enc_NullHandling b -> a = b.
Proof. exact (dec_enc_injective enc_NullHandling dec_NullHandling dec_enc_NullHandling). Qed.
Lemma all_NullHandling_complete : forall v : NullHandling, In v all_NullHandling.
Proof. destruct v; unfold all_NullHandling; all_in. Qed.
Lemma table_ok_NullHandling_true : table_ok_NullHandling = true.
Proof. vm_compute. reflexivity. Qed.

Lemma dec_enc_WriteOp : forall v : WriteOp, dec_WriteOp (enc_WriteOp v) = Some v.
Proof. destruct v; reflexivity. Qed.
Lemma enc_injective_WriteOp : forall a b : WriteOp, enc_WriteOp a = enc_WriteOp b -> a = b.
Proof. exact (dec_enc_injective enc_WriteOp dec_WriteOp dec_enc_WriteOp). Qed.
Lemma all_WriteOp_complete : forall v : WriteOp, In v all_WriteOp.
Proof. destruct v; unfold all_WriteOp; all_in. Qed.
Lemma table_ok_WriteOp_true : table_ok_WriteOp = true.
Proof. vm_compute. reflexivity. Qed.

Lemma dec_enc_ExplainFormat_analyze : forall v : ExplainFormat_analyze, dec_ExplainFormat_analyze (enc_ExplainFormat_analyze v) = Some v.
Proof. destruct v; reflexivity. Qed.
Lemma enc_injective_ExplainFormat_analyze : forall a b : ExplainFormat_analyze, enc_ExplainFormat_analyze a = enc_ExplainFormat_analyze b -> a = b.
Proof. exact (dec_enc_injective enc_ExplainFormat_analyze dec_ExplainFormat_analyze dec_enc_ExplainFormat_analyze). Qed.
Lemma all_ExplainFormat_analyze_complete : forall v : ExplainFormat_analyze, In v all_ExplainFormat_analyze.
Proof. destruct v; unfold all_ExplainFormat_analyze; all_in. Qed.
Lemma table_ok_ExplainFormat_analyze_true : table_ok_ExplainFormat_analyze = true.
Proof. vm_compute. reflexivity. Qed.

Lemma dec_enc_ExplainFormat_explain : forall v : ExplainFormat_explain, dec_ExplainFormat_explain (enc_ExplainFormat_explain v) = Some v.
Proof. destruct v; reflexivity. Qed.
Lemma enc_injective_ExplainFormat_explain : forall a b : ExplainFormat_explain, enc_ExplainFormat_explain a = enc_ExplainFormat_explain b -> a = b.
Proof. exact (dec_enc_injective enc_ExplainFormat_explain dec_ExplainFormat_explain dec_enc_ExplainFormat_explain). Qed.
Lemma all_ExplainFormat_explain_complete : forall v : ExplainFormat_explain, In v all_ExplainFormat_explain.
Proof. destruct v; unfold all_ExplainFormat_explain; all_in. Qed.
Lemma table_ok_ExplainFormat_explain_true : table_ok_ExplainFormat_explain = true.
Proof. vm_compute. reflexivity. Qed.

Lemma dec_enc_MetricType : forall v : MetricType, dec_MetricType (enc_MetricType v) = Some v.
Proof. destruct v; reflexivity. Qed.
Lemma enc_injective_MetricType : forall a b : MetricType, enc_MetricType a = enc_MetricType b -> a = b.
Proof. exact (dec_enc_injective enc_MetricType dec_MetricType dec_enc_MetricType). Qed.
Lemma all_MetricType_complete : forall v : MetricType, In v all_MetricType.
Proof. destruct v; unfold all_MetricType; all_in. Qed.
Lemma table_ok_MetricType_true : table_ok_MetricType = true.
Proof. vm_compute. reflexivity. Qed.

Lemma dec_enc_MetricCategory : forall v : MetricCategory, dec_MetricCategory (enc_MetricCategory v) = Some v.
Proof. destruct v; reflexivity. Qed.
Lemma enc_injective_MetricCategory : forall a b : MetricCategory, enc_MetricCategory a = enc_MetricCategory b -> a = b.
Proof. exact (dec_enc_injective enc_MetricCategory dec_MetricCategory dec_enc_MetricCategory). Qed.
Lemma all_MetricCategory_complete : forall v : MetricCategory, In v all_MetricCategory.
Proof. destruct v; unfold all_MetricCategory; all_in. Qed.
Lemma table_ok_MetricCategory_true : table_ok_MetricCategory = true.
Proof. vm_compute. reflexivity. Qed.

Lemma dec_enc_WindowFrameUnits : forall v : WindowFrameUnits, dec_WindowFrameUnits (enc_WindowFrameUnits v) = Some v.
Proof. destruct v; reflexivity. Qed.
Lemma enc_injective_WindowFrameUnits : forall a b : WindowFrameUnits, enc_WindowFrameUnits a = enc_WindowFrameUnits b -> a = b.
Proof. exact (dec_enc_injective enc_WindowFrameUnits dec_WindowFrameUnits dec_enc_WindowFrameUnits). Qed.
Lemma all_WindowFrameUnits_complete : forall v : WindowFrameUnits, In v all_WindowFrameUnits.
Proof. destruct v; unfold all_WindowFrameUnits; all_in. Qed.
Lemma table_ok_WindowFrameUnits_true : table_ok_WindowFrameUnits = true.
Proof. vm_compute. reflexivity. Qed.

Lemma dec_enc_WindowFrameBound : forall v : WindowFrameBound, dec_WindowFrameBound (enc_WindowFrameBound v) = Some v.
Proof. destruct v; reflexivity. Qed.
Lemma enc_injective_WindowFrameBound : forall a b : WindowFrameBound, enc_WindowFrameBound a = enc_WindowFrameBound b -> a = b.
Proof. exact (dec_enc_injective enc_WindowFrameBound dec_WindowFrameBound dec_enc_WindowFrameBound). Qed.
Lemma all_WindowFrameBound_complete : forall v : WindowFrameBound, In v all_WindowFrameBound.
Proof. destruct v; unfold all_WindowFrameBound; all_in. Qed.
Lemma table_ok_WindowFrameBound_true : table_ok_WindowFrameBound = true.
Proof. vm_compute. reflexivity. Qed.

Lemma dec_enc_MergeIntoClauseKind : forall v : MergeIntoClauseKind, dec_MergeIntoClauseKind (enc_MergeIntoClauseKind v) = Some v.
Proof. destruct v; reflexivity. Qed.
Lemma enc_injective_MergeIntoClauseKind : forall a b : MergeIntoClauseKind, enc_MergeIntoClauseKind a = enc_MergeIntoClauseKind b -> a = b.
Proof. exact (dec_enc_injective enc_MergeIntoClauseKind dec_MergeIntoClauseKind dec_enc_MergeIntoClauseKind). Qed.
Lemma all_MergeIntoClauseKind_complete : forall v : MergeIntoClauseKind, In v all_MergeIntoClauseKind.
Proof. destruct v; unfold all_MergeIntoClauseKind; all_in. Qed.
Lemma table_ok_MergeIntoClauseKind_true : table_ok_MergeIntoClauseKind = true.
Proof. vm_compute. reflexivity. Qed.

Lemma dec_enc_NullTreatment : forall v : NullTreatment, dec_NullTreatment (enc_NullTreatment v) = Some v.
Proof. destruct v; reflexivity. Qed.
Lemma enc_injective_NullTreatment : forall a b : NullTreatment, enc_NullTreatment a = enc_NullTreatment b -> a = b.
Proof. exact (dec_enc_injective enc_NullTreatment dec_NullTreatment dec_enc_NullTreatment). Qed.
Lemma all_NullTreatment_complete : forall v : NullTreatment, In v all_NullTreatment.
Proof. destruct v; unfold all_NullTreatment; all_in. Qed.
Lemma table_ok_NullTreatment_true : table_ok_NullTreatment = true.
Proof. vm_compute. reflexivity. Qed.

Lemma dec_enc_TimeUnit : forall v : TimeUnit, dec_TimeUnit (enc_TimeUnit v) = Some v.
Proof. destruct v; reflexivity. Qed.
Lemma enc_injective_TimeUnit : forall a b : TimeUnit, enc_TimeUnit a = enc_TimeUnit b -> a = b.
Proof. exact (dec_enc_injective enc_TimeUnit dec_TimeUnit dec_enc_TimeUnit). Qed.
Lemma all_TimeUnit_complete : forall v : TimeUnit, In v all_TimeUnit.
Proof. destruct v; unfold all_TimeUnit; all_in. Qed.
Lemma table_ok_TimeUnit_true : table_ok_TimeUnit = true.
Proof. vm_compute. reflexivity. Qed.

Lemma dec_enc_IntervalUnit : forall v : IntervalUnit, dec_IntervalUnit (enc_IntervalUnit v) = Some v.
Proof. destruct v; reflexivity. Qed.
Lemma enc_injective_IntervalUnit : forall a b : IntervalUnit, enc_IntervalUnit a = enc_IntervalUnit b -> a = b.
Proof. exact (dec_enc_injective enc_IntervalUnit dec_IntervalUnit dec_enc_IntervalUnit). Qed.
Lemma all_IntervalUnit_complete : forall v : IntervalUnit, In v all_IntervalUnit.
Proof. destruct v; unfold all_IntervalUnit; all_in. Qed.
Lemma table_ok_IntervalUnit_true : table_ok_IntervalUnit = true.
Proof. vm_compute. reflexivity. Qed.

Lemma dec_enc_UnionMode : forall v : UnionMode, dec_UnionMode (enc_UnionMode v) = Some v.
Proof. destruct v; reflexivity. Qed.
Lemma enc_injective_UnionMode : forall a b : UnionMode, enc_UnionMode a = enc_UnionMode b -> a = b.
Proof. exact (dec_enc_injective enc_UnionMode dec_UnionMode dec_enc_UnionMode). Qed.
Lemma all_UnionMode_complete : forall v : UnionMode, In v all_UnionMode.
Proof. destruct v; unfold all_UnionMode; all_in. Qed.
Lemma table_ok_UnionMode_true : table_ok_UnionMode = true.
Proof. vm_compute. reflexivity. Qed.

Lemma dec_enc_JoinSide : forall v : JoinSide, dec_JoinSide (enc_JoinSide v) = Some v.
Proof. destruct v; reflexivity. Qed.
Lemma enc_injective_JoinSide : forall a b : JoinSide, enc_JoinSide a = enc_JoinSide b -> a = b.
Proof. exact (dec_enc_injective enc_JoinSide dec_JoinSide dec_enc_JoinSide). Qed.
Lemma all_JoinSide_complete : forall v : JoinSide, In v all_JoinSide.
Proof. destruct v; unfold all_JoinSide; all_in. Qed.
Lemma table_ok_JoinSide_true : table_ok_JoinSide = true.
Proof. vm_compute. reflexivity. Qed.

Lemma dec_enc_CompressionTypeVariant : forall v : CompressionTypeVariant, dec_CompressionTypeVariant (enc_CompressionTypeVariant v) = Some v.
Proof. destruct v; reflexivity. Qed.
Lemma enc_injective_CompressionTypeVariant : forall a b : CompressionTypeVariant, enc_CompressionTypeVariant a = enc_CompressionTypeVariant b -> a = b.
Proof. exact (dec_enc_injective enc_CompressionTypeVariant dec_CompressionTypeVariant dec_enc_CompressionTypeVariant). Qed.
Lemma all_CompressionTypeVariant_complete : forall v : CompressionTypeVariant, In v all_CompressionTypeVariant.
Proof. destruct v; unfold all_CompressionTypeVariant; all_in. Qed.
Lemma table_ok_CompressionTypeVariant_true : table_ok_CompressionTypeVariant = true.
Proof. vm_compute. reflexivity. Qed.

Lemma dec_enc_CsvQuoteStyle : forall v : CsvQuoteStyle, dec_CsvQuoteStyle (enc_CsvQuoteStyle v) = Some v.
Proof. destruct v; reflexivity. Qed.
Lemma enc_injective_CsvQuoteStyle : forall a b : CsvQuoteStyle, enc_CsvQuoteStyle a = enc_CsvQuoteStyle b -> a = b.
Proof. exact (dec_enc_injective enc_CsvQuoteStyle dec_CsvQuoteStyle dec_enc_CsvQuoteStyle). Qed.
Lemma all_CsvQuoteStyle_complete : forall v : CsvQuoteStyle, In v all_CsvQuoteStyle.
Proof. destruct v; unfold all_CsvQuoteStyle; all_in. Qed.
Lemma table_ok_CsvQuoteStyle_true : table_ok_CsvQuoteStyle = true.
Proof. vm_compute. reflexivity. Qed.

Lemma dec_enc_DataType : forall v : DataType, dec_DataType (enc_DataType v) = Some v.
Proof. destruct v; reflexivity. Qed.
Lemma enc_injective_DataType : forall a b : DataType, enc_DataType a = enc_DataType b -> a = b.
Proof. exact (dec_enc_injective enc_DataType dec_DataType dec_enc_DataType). Qed.
Lemma all_DataType_complete : forall v : DataType, In v all_DataType.
Proof. destruct v; unfold all_DataType; all_in. Qed.
Lemma table_ok_DataType_true : table_ok_DataType = true.
Proof. vm_compute. reflexivity. Qed.

(* Operator: the listed variants (known findings) have no decode arm; every other variant round-trips *)
Lemma dec_enc_Operator : forall v : Operator, good_Operator v = true -> dec_Operator (enc_Operator v) = Some v.
Proof. destruct v; intros H; first [reflexivity | discriminate H]. Qed.
Lemma dec_enc_Operator_refuted : exists v : Operator, dec_Operator (enc_Operator v) = None.
Proof. exists Operator_Arrow. reflexivity. Qed.
Lemma known_bad_Operator_undecodable : forall v : Operator, good_Operator v = false -> dec_Operator (enc_Operator v) = None.
Proof. destruct v; intros H; first [reflexivity | discriminate H]. Qed.
Lemma eqb_Operator_true : forall a b : Operator, eqb_Operator a b = true -> a = b.
Proof. destruct a; destruct b; intros H; first [reflexivity | discriminate H]. Qed.
Lemma enc_injective_Operator : forall a b : Operator, enc_Operator a = enc_Operator b -> a = b.
Proof. destruct a; destruct b; intros H; first [reflexivity | discriminate H]. Qed.
Lemma all_Operator_complete : forall v : Operator, In v all_Operator.
Proof. destruct v; unfold all_Operator; all_in. Qed.
Lemma table_ok_Operator_true : table_ok_Operator = true.
Proof. vm_compute. reflexivity. Qed.

