(* C39 -- proofs about the MemTable DML model (Model/MemTableDML.v). *)
From DF Require Import Base.Prelude Model.MemTableDML.
From Coq Require Import Lia Permutation.
Open Scope Z_scope.

(* ------------------------------------------------------------------ small list facts *)
Lemma zlen_app {A} (l m : list A) : zlen (l ++ m) = zlen l + zlen m.
Proof. unfold zlen. rewrite app_length. lia. Qed.

Lemma zlen_nil {A} : zlen (@nil A) = 0.
Proof. reflexivity. Qed.

Lemma zlen_nonneg {A} (l : list A) : 0 <= zlen l.
Proof. unfold zlen. lia. Qed.

Lemma filter_ext' {A} (f g : A -> bool) l : (forall x, f x = g x) -> filter f l = filter g l.
Proof. intro H. induction l as [|x l IH]; simpl; [reflexivity|]. rewrite H, IH. reflexivity. Qed.

Lemma filter_all {A} (l : list A) : filter (fun _ => true) l = l.
Proof. induction l; simpl; congruence. Qed.

Lemma filter_none {A} (l : list A) : filter (fun _ => false) l = [].
Proof. induction l; simpl; congruence. Qed.

Lemma filter_concat {A} (f : A -> bool) (ll : list (list A)) :
  filter f (concat ll) = concat (map (filter f) ll).
Proof. induction ll as [|l ll IH]; simpl; [reflexivity|]. rewrite filter_app, IH. reflexivity. Qed.

Lemma forallb_map' {A B} (f : B -> bool) (g : A -> B) l : forallb f (map g l) = forallb (fun x => f (g x)) l.
Proof. induction l; simpl; congruence. Qed.

Lemma map2_map {A B C D} (f : B -> C -> D) (g : A -> B) (h : A -> C) l :
  map2 f (map g l) (map h l) = map (fun x => f (g x) (h x)) l.
Proof. induction l; simpl; congruence. Qed.

Lemma map2_map_l {A B C} (f : B -> A -> C) (g : A -> B) l :
  map2 f (map g l) l = map (fun x => f (g x) x) l.
Proof. induction l; simpl; congruence. Qed.

Lemma map2_repeat_l {A B C} (f : B -> A -> C) (c : B) l :
  map2 f (repeat c (length l)) l = map (f c) l.
Proof. induction l; simpl; congruence. Qed.

Lemma filter_by_map {A} (f : A -> bool) l : filter_by (map f l) l = filter f l.
Proof. induction l as [|x l IH]; simpl; [reflexivity|]. rewrite IH. reflexivity. Qed.

Lemma filter_by_false {A} (l : list A) : filter_by (repeat false (length l)) l = [].
Proof. induction l; simpl; auto. Qed.

Lemma filter_map_len {A B} (f : B -> bool) (g : A -> B) l :
  zlen (filter f (map g l)) = zlen (filter (fun x => f (g x)) l).
Proof.
  unfold zlen. f_equal. induction l as [|x l IH]; simpl; [reflexivity|].
  destruct (f (g x)); simpl; congruence.
Qed.

Lemma filter_split_len {A} (f : A -> bool) l :
  zlen (filter f l) + zlen (filter (fun x => negb (f x)) l) = zlen l.
Proof.
  unfold zlen. induction l as [|x l IH]; [reflexivity|].
  cbn [filter]. destruct (f x); cbn [negb length]; lia.
Qed.

Lemma pair_let {A B C} (x : A * B) (f : A -> B -> C) : (let '(a, b) := x in f a b) = f (fst x) (snd x).
Proof. destruct x; reflexivity. Qed.

Lemma mapi_from_ext {A B} (f g : nat -> A -> B) l : forall i,
  (forall k v, nth_error l k = Some v -> f (i + k)%nat v = g (i + k)%nat v) ->
  mapi_from f i l = mapi_from g i l.
Proof.
  induction l as [|x l IH]; intros i H; simpl; [reflexivity|].
  f_equal.
  - specialize (H O x eq_refl). rewrite Nat.add_0_r in H. exact H.
  - apply IH. intros k v Hk. specialize (H (S k) v Hk). rewrite Nat.add_succ_r in H. exact H.
Qed.

Lemma mapi_from_id {A} (l : list A) i : mapi_from (fun _ v => v) i l = l.
Proof. revert i. induction l; intros; simpl; congruence. Qed.

Lemma mapi_from_length {A B} (f : nat -> A -> B) l i : length (mapi_from f i l) = length l.
Proof. revert i. induction l; intros; simpl; auto. Qed.

Lemma mapi_from_nth {A B} (f : nat -> A -> B) l : forall i k da db,
  (k < length l)%nat -> nth k (mapi_from f i l) db = f (i + k)%nat (nth k l da).
Proof.
  induction l as [|x l IH]; intros i k da db Hk; simpl in *; [lia|].
  destruct k.
  - rewrite Nat.add_0_r. reflexivity.
  - rewrite (IH (S i) k da db) by lia. f_equal. lia.
Qed.

Lemma Permutation_filter' {A} (f : A -> bool) l m : Permutation l m -> Permutation (filter f l) (filter f m).
Proof.
  induction 1; simpl.
  - constructor.
  - destruct (f x); auto.
  - destruct (f x), (f y); auto. apply perm_swap.
  - eapply perm_trans; eauto.
Qed.

(* ------------------------------------------------------------------ syntactic equality of filters is sound *)
Lemma cmpop_eqb_eq a b : cmpop_eqb a b = true -> a = b.
Proof. destruct a, b; simpl; congruence. Qed.

Lemma iexpr_eqb_eq : forall a b, iexpr_eqb a b = true -> a = b.
Proof.
  induction a; destruct b; simpl; try discriminate; intros H;
    try (apply andb_true_iff in H; destruct H as [H1 H2]; f_equal; auto).
  - apply Nat.eqb_eq in H. congruence.
  - apply Z.eqb_eq in H. congruence.
  - reflexivity.
Qed.

Lemma bexpr_eqb_eq : forall a b, bexpr_eqb a b = true -> a = b.
Proof.
  induction a as [x| |o a1 a2|p IHp q IHq|p IHp q IHq|p IHp|a1|a1]; intros b'; destruct b'; simpl; try discriminate; intros H.
  - apply Bool.eqb_prop in H. congruence.
  - reflexivity.
  - apply andb_true_iff in H. destruct H as [H H3]. apply andb_true_iff in H. destruct H as [H1 H2].
    apply cmpop_eqb_eq in H1. apply iexpr_eqb_eq in H2. apply iexpr_eqb_eq in H3. congruence.
  - apply andb_true_iff in H. destruct H as [H1 H2]. f_equal; auto.
  - apply andb_true_iff in H. destruct H as [H1 H2]. f_equal; auto.
  - f_equal; auto.
  - apply iexpr_eqb_eq in H. congruence.
  - apply iexpr_eqb_eq in H. congruence.
Qed.

Lemma dedup_incl : forall l seen x, In x (dedup_from seen l) -> In x l.
Proof.
  induction l as [|a l IH]; intros seen x H; simpl in *; [contradiction|].
  destruct (existsb (bexpr_eqb a) seen).
  - right. eapply IH; eauto.
  - destruct H as [->|H]; [left; reflexivity| right; eapply IH; eauto].
Qed.

Lemma dedup_complete : forall l seen x, In x l -> In x (dedup_from seen l) \/ In x seen.
Proof.
  induction l as [|a l IH]; intros seen x H; simpl in *; [contradiction|].
  destruct (existsb (bexpr_eqb a) seen) eqn:E.
  - destruct H as [->|H]; [|apply IH; exact H].
    right. apply existsb_exists in E. destruct E as [y [Hy He]]. apply bexpr_eqb_eq in He. subst. exact Hy.
  - destruct H as [->|H]; [left; left; reflexivity|].
    destruct (IH (a :: seen) x H) as [H1|[->|H1]]; [left; right; exact H1 | left; left; reflexivity | right; exact H1].
Qed.

Lemma forallb_dedup (g : bexpr -> bool) l : forallb g (dedup_from [] l) = forallb g l.
Proof.
  apply Bool.eq_iff_eq_true. rewrite !forallb_forall. split; intros H x Hx.
  - destruct (dedup_complete l [] x Hx) as [H1|[]]. apply H. exact H1.
  - apply H. eapply dedup_incl; eauto.
Qed.

(* ------------------------------------------------------------------ 3-valued logic facts *)
Lemma is_true_and3 x y : is_true (and3 x y) = is_true x && is_true y.
Proof. destruct x as [[]|], y as [[]|]; reflexivity. Qed.

Lemma is_true_and_nk x y : is_true (and_nk x y) = is_true x && is_true y.
Proof. destruct x as [[]|], y as [[]|]; reflexivity. Qed.

Lemma is_true_fold_nk : forall l x, is_true (fold_left and_nk l x) = is_true x && forallb is_true l.
Proof.
  induction l as [|y l IH]; intros x; simpl.
  - rewrite andb_true_r. reflexivity.
  - rewrite IH, is_true_and_nk, andb_assoc. reflexivity.
Qed.

(* a row is selected by a filter list when every filter evaluates to TRUE on it *)
Definition sel (fs : list bexpr) (r : row) : bool := forallb (fun f => is_true (eval_b r f)) fs.

Lemma split_conj_true r : forall p, sel (split_conj p) r = is_true (eval_b r p).
Proof.
  unfold sel. induction p; try (cbn [split_conj forallb]; apply andb_true_r).
  cbn [split_conj eval_b]. rewrite forallb_app, IHp1, IHp2, is_true_and3. reflexivity.
Qed.

Lemma sel_filters_of w r : sel (filters_of w) r = holds w r.
Proof.
  destruct w as [p|]; simpl; [|reflexivity].
  unfold sel. rewrite forallb_dedup. apply split_conj_true.
Qed.

(* ------------------------------------------------------------------ evaluate_filters_to_mask *)
Lemma mask_fold : forall fs (b : batch) (g : row -> option bool),
  fold_left (fun acc f =>
               let col := map (fun r => eval_b r f) b in
               Some (match acc with Some m => map2 and_nk m col | None => col end)) fs (Some (map g b))
  = Some (map (fun r => fold_left and_nk (map (eval_b r) fs) (g r)) b).
Proof.
  induction fs as [|f fs IH]; intros b g; simpl; [reflexivity|].
  rewrite map2_map. apply (IH b (fun r => and_nk (g r) (eval_b r f))).
Qed.

Lemma mask_spec fs b :
  filters_to_mask fs b =
  match fs with
  | [] => None
  | f :: fs' => Some (map (fun r => fold_left and_nk (map (eval_b r) fs') (eval_b r f)) b)
  end.
Proof.
  destruct fs as [|f fs]; unfold filters_to_mask; simpl; [reflexivity|].
  apply (mask_fold fs b (fun r => eval_b r f)).
Qed.

Lemma mask_elt_true f fs r :
  is_true (fold_left and_nk (map (eval_b r) fs) (eval_b r f)) = sel (f :: fs) r.
Proof. rewrite is_true_fold_nk, forallb_map'. reflexivity. Qed.

(* ------------------------------------------------------------------ DELETE *)
Lemma delete_batch_spec fs b :
  delete_batch fs b = (zlen (filter (sel fs) b), filter (fun r => negb (sel fs r)) b).
Proof.
  unfold delete_batch. rewrite mask_spec. destruct fs as [|f fs].
  - rewrite filter_by_false. unfold sel; simpl. rewrite filter_all, filter_none. reflexivity.
  - unfold count_true. rewrite filter_map_len, map_map, filter_by_map. f_equal.
    + f_equal. apply filter_ext'. intro r. apply mask_elt_true.
    + apply filter_ext'. intro r. rewrite mask_elt_true. reflexivity.
Qed.

Lemma delete_part_spec fs : forall p,
  fst (delete_part fs p) = zlen (filter (sel fs) (rows_of_part p)) /\
  rows_of_part (snd (delete_part fs p)) = filter (fun r => negb (sel fs r)) (rows_of_part p) /\
  Forall (fun b => b <> []) (snd (delete_part fs p)).
Proof.
  unfold rows_of_part. induction p as [|b p IH]; simpl.
  - repeat split; constructor.
  - destruct (delete_part fs p) as [c2 r']. simpl in IH. destruct IH as [IH1 [IH2 IH3]].
    destruct b as [|r0 b0]; [simpl; auto|].
    rewrite delete_batch_spec. rewrite !filter_app, zlen_app.
    set (B := r0 :: b0) in *.
    destruct (filter (fun r => negb (sel fs r)) B) as [|x xs] eqn:E; simpl.
    + repeat split; [lia | exact IH2 | exact IH3].
    + repeat split; [lia | rewrite IH2; reflexivity | constructor; [discriminate | exact IH3]].
Qed.

Lemma delete_table_spec fs : forall t,
  fst (delete_table fs t) = zlen (filter (sel fs) (rows_of t)) /\
  rows_of (snd (delete_table fs t)) = filter (fun r => negb (sel fs r)) (rows_of t) /\
  length (snd (delete_table fs t)) = length t /\
  Forall (Forall (fun b => b <> [])) (snd (delete_table fs t)).
Proof.
  unfold rows_of. induction t as [|p t IH]; simpl.
  - repeat split; constructor.
  - destruct (delete_part_spec fs p) as [P1 [P2 P3]].
    destruct (delete_part fs p) as [c1 p']. destruct (delete_table fs t) as [c2 t'].
    simpl in *. destruct IH as [IH1 [IH2 [IH3 IH4]]].
    rewrite !filter_app, zlen_app, P2, IH2.
    repeat split; [lia | lia | constructor; assumption].
Qed.

(* ------------------------------------------------------------------ UPDATE *)
Lemma assoc_first_none j : forall asg, ~ In j (targets asg) -> assoc_first j asg = None.
Proof.
  induction asg as [|[k e] asg IH]; intros H; simpl in *; [reflexivity|].
  destruct (Nat.eqb k j) eqn:E.
  - apply Nat.eqb_eq in E. subst. exfalso. apply H. left. reflexivity.
  - apply IH. intro H1. apply H. right. exact H1.
Qed.

Lemma assoc_last_fold j : forall asg acc, NoDup (targets asg) ->
  fold_left (fun acc ke => if Nat.eqb (fst ke) j then Some (snd ke) else acc) asg acc =
  match assoc_first j asg with Some e => Some e | None => acc end.
Proof.
  induction asg as [|[k e] asg IH]; intros acc H; simpl in *; [reflexivity|].
  inversion H as [|? ? Hn Hd]; subst.
  rewrite IH by exact Hd.
  destruct (Nat.eqb k j) eqn:E; [|reflexivity].
  apply Nat.eqb_eq in E. subst. rewrite assoc_first_none by exact Hn. reflexivity.
Qed.

Lemma assoc_last_first j asg : NoDup (targets asg) -> assoc_last j asg = assoc_first j asg.
Proof. intro H. unfold assoc_last. rewrite assoc_last_fold by exact H. destruct (assoc_first j asg); reflexivity. Qed.

Lemma targets_filter_incl f asg j : In j (targets (filter f asg)) -> In j (targets asg).
Proof.
  unfold targets. rewrite !in_map_iff. intros [x [Hx Hi]]. apply filter_In in Hi. exists x. tauto.
Qed.

Lemma NoDup_targets_filter f : forall asg, NoDup (targets asg) -> NoDup (targets (filter f asg)).
Proof.
  induction asg as [|[k e] asg IH]; intros H; simpl in *; [constructor|].
  inversion H as [|? ? Hn Hd]; subst.
  destruct (f (k, e)); simpl; [constructor|]; auto.
  intro Hi. apply Hn. eapply targets_filter_incl; eauto.
Qed.

(* dropping identity assignments does not change what a row is updated to *)
Lemma assoc_first_assignments_of j (r : row) v : forall asg, NoDup (targets asg) -> nth j r None = v ->
  match assoc_first j (assignments_of asg) with Some e => eval_i r e | None => v end =
  match assoc_first j asg with Some e => eval_i r e | None => v end.
Proof.
  unfold assignments_of.
  induction asg as [|[k e] asg IH]; intros H Hv; simpl in *; [reflexivity|].
  inversion H as [|? ? Hn Hd]; subst.
  destruct (is_identity (k, e)) eqn:Ei; simpl.
  - destruct (Nat.eqb k j) eqn:E.
    + apply Nat.eqb_eq in E. subst k.
      rewrite assoc_first_none.
      * unfold is_identity in Ei. simpl in Ei. destruct e; try discriminate.
        apply Nat.eqb_eq in Ei. subst. reflexivity.
      * intro Hi. apply Hn. eapply targets_filter_incl; eauto.
    + apply IH; auto.
  - destruct (Nat.eqb k j); [reflexivity|]. apply IH; auto.
Qed.

Lemma update_row_spec asg s r : NoDup (targets asg) ->
  update_row (assignments_of asg) s r = if s then ref_update_row asg r else r.
Proof.
  intro H. unfold update_row, ref_update_row. destruct s.
  - apply mapi_from_ext. intros k v Hk. simpl.
    rewrite assoc_last_first by (apply NoDup_targets_filter; exact H).
    apply assoc_first_assignments_of; [exact H|].
    apply nth_error_nth. exact Hk.
  - rewrite <- (mapi_from_id r 0%nat) at 2. apply mapi_from_ext. intros k v _.
    destruct (assoc_last _ _); reflexivity.
Qed.

Lemma map_if_none {A} (f : A -> bool) (g : A -> A) l :
  zlen (filter f l) = 0 -> map (fun x => if f x then g x else x) l = l.
Proof.
  induction l as [|x l IH]; simpl; [reflexivity|]. destruct (f x).
  - unfold zlen. simpl. lia.
  - intro H. rewrite IH by exact H. reflexivity.
Qed.

Definition upd (asg : list (nat * iexpr)) (fs : list bexpr) (r : row) : row :=
  if sel fs r then ref_update_row asg r else r.

Lemma update_batch_spec asg fs b : NoDup (targets asg) ->
  update_batch (assignments_of asg) fs b = (zlen (filter (sel fs) b), map (upd asg fs) b).
Proof.
  intro H. unfold update_batch. rewrite mask_spec.
  assert (G : forall cnt mask,
            cnt = zlen (filter (sel fs) b) ->
            map2 (update_row (assignments_of asg)) mask b = map (upd asg fs) b ->
            (if cnt =? 0 then (cnt, b) else (cnt, map2 (update_row (assignments_of asg)) mask b)) =
            (zlen (filter (sel fs) b), map (upd asg fs) b)).
  { intros cnt mask -> Hm. destruct (Z.eqb_spec (zlen (filter (sel fs) b)) 0) as [E|E].
    - f_equal. unfold upd. symmetry. apply map_if_none. exact E.
    - rewrite Hm. reflexivity. }
  destruct fs as [|f fs].
  - apply G.
    + unfold sel; simpl. rewrite filter_all. reflexivity.
    + rewrite map2_repeat_l. apply map_ext. intro r. rewrite update_row_spec by exact H. reflexivity.
  - apply G.
    + unfold count_true. rewrite filter_map_len. f_equal. apply filter_ext'. intro r. apply mask_elt_true.
    + rewrite map_map, map2_map_l. apply map_ext. intro r.
      rewrite update_row_spec by exact H. unfold upd. rewrite mask_elt_true. reflexivity.
Qed.

Lemma update_part_spec asg fs : NoDup (targets asg) -> forall p,
  fst (update_part (assignments_of asg) fs p) = zlen (filter (sel fs) (rows_of_part p)) /\
  rows_of_part (snd (update_part (assignments_of asg) fs p)) = map (upd asg fs) (rows_of_part p).
Proof.
  intro H. unfold rows_of_part. induction p as [|b p IH]; simpl; [split; reflexivity|].
  destruct (update_part (assignments_of asg) fs p) as [c2 r']. simpl in IH. destruct IH as [IH1 IH2].
  destruct b as [|r0 b0]; [simpl; auto|].
  rewrite update_batch_spec by exact H.
  set (B := r0 :: b0) in *. cbn [fst snd concat].
  rewrite filter_app, zlen_app, map_app, IH2. split; [lia | reflexivity].
Qed.

Lemma update_table_spec asg fs : NoDup (targets asg) -> forall t,
  fst (update_table (assignments_of asg) fs t) = zlen (filter (sel fs) (rows_of t)) /\
  rows_of (snd (update_table (assignments_of asg) fs t)) = map (upd asg fs) (rows_of t) /\
  length (snd (update_table (assignments_of asg) fs t)) = length t.
Proof.
  intro H. unfold rows_of. induction t as [|p t IH]; simpl; [repeat split; reflexivity|].
  destruct (update_part_spec asg fs H p) as [P1 P2].
  destruct (update_part (assignments_of asg) fs p) as [c1 p'].
  destruct (update_table (assignments_of asg) fs t) as [c2 t'].
  simpl in *. destruct IH as [IH1 [IH2 IH3]].
  rewrite filter_app, zlen_app, map_app, P2, IH2. repeat split; lia.
Qed.

(* ------------------------------------------------------------------ INSERT *)
Lemma app_nth_length {A} (x : A) : forall l i, length (app_nth l i x) = length l.
Proof. induction l as [|y l IH]; intros [|i]; simpl; auto. Qed.

Lemma rows_of_cons p t : rows_of (p :: t) = rows_of_part p ++ rows_of t.
Proof. reflexivity. Qed.

Lemma app_nth_rows (b : batch) : forall (acc : table) i, (i < length acc)%nat ->
  Permutation (rows_of (app_nth acc i b)) (rows_of acc ++ b).
Proof.
  induction acc as [|p acc IH]; intros i Hi; simpl in Hi; [lia|].
  destruct i; simpl app_nth; rewrite !rows_of_cons.
  - unfold rows_of_part. rewrite concat_app. simpl. rewrite app_nil_r.
    rewrite <- !app_assoc. apply Permutation_app_head. apply Permutation_app_comm.
  - rewrite <- app_assoc. apply Permutation_app_head. apply IH. lia.
Qed.

Lemma rr_loop_spec n : forall bs i (acc : table), length acc = n -> (i < n)%nat ->
  length (rr_loop n bs i acc) = n /\
  Permutation (rows_of (rr_loop n bs i acc)) (rows_of acc ++ concat bs).
Proof.
  induction bs as [|b bs IH]; intros i acc Hl Hi; simpl.
  - split; [exact Hl|]. rewrite app_nil_r. apply Permutation_refl.
  - assert (H1 : length (app_nth acc i b) = n) by (rewrite app_nth_length; exact Hl).
    assert (H2 : (Nat.modulo (S i) n < n)%nat) by (apply Nat.mod_upper_bound; lia).
    destruct (IH (Nat.modulo (S i) n) (app_nth acc i b) H1 H2) as [L P].
    split; [exact L|]. eapply perm_trans; [exact P|].
      rewrite app_assoc. apply Permutation_app_tail. apply app_nth_rows. lia.
Qed.

Lemma rows_of_repeat_nil n : rows_of (repeat [] n) = [].
Proof. induction n; simpl; auto. Qed.

Lemma map2_app_rows : forall (t nb : table), length t = length nb ->
  length (map2 (fun p x => p ++ x) t nb) = length t /\
  Permutation (rows_of (map2 (fun p x => p ++ x) t nb)) (rows_of t ++ rows_of nb).
Proof.
  induction t as [|p t IH]; intros [|q nb] Hl; simpl in Hl; try discriminate.
  - split; constructor.
  - assert (Hl' : length t = length nb) by lia.
    destruct (IH nb Hl') as [L P]. simpl map2. split; [simpl; lia|].
    rewrite !rows_of_cons. unfold rows_of_part. rewrite concat_app.
    rewrite <- !app_assoc. apply Permutation_app_head.
    eapply perm_trans; [apply Permutation_app_head; exact P|].
    rewrite !app_assoc. apply Permutation_app_tail. apply Permutation_app_comm.
Qed.

Lemma insert_table_spec bs t : t <> [] ->
  fst (insert_table bs t) = zlen (concat bs) /\
  length (snd (insert_table bs t)) = length t /\
  Permutation (rows_of (snd (insert_table bs t))) (rows_of t ++ concat bs).
Proof.
  intro Hne. unfold insert_table. simpl.
  assert (Hn : (0 < length t)%nat) by (destruct t; [congruence | simpl; lia]).
  destruct (rr_loop_spec (length t) bs 0%nat (repeat [] (length t)) (repeat_length _ _) Hn) as [L P].
  destruct (map2_app_rows t (rr_loop (length t) bs 0 (repeat [] (length t))) (eq_sym L)) as [L2 P2].
  repeat split; [exact L2|].
  eapply perm_trans; [exact P2|]. apply Permutation_app_head.
  rewrite rows_of_repeat_nil in P. exact P.
Qed.

(* a single-batch insert (INSERT ... VALUES) lands as one new batch at the end of partition 0 *)
Lemma map2_app_repeat_nil : forall (t : table), map2 (fun p x => p ++ x) t (repeat [] (length t)) = t.
Proof. induction t as [|p t IH]; simpl; [reflexivity|]. rewrite app_nil_r, IH. reflexivity. Qed.

Lemma insert_single_batch b p t :
  insert_table [b] (p :: t) = (zlen b, (p ++ [b]) :: t).
Proof.
  unfold insert_table. simpl. rewrite app_nil_r, map2_app_repeat_nil. reflexivity.
Qed.

(* the column list of INSERT: listed columns take their value, the others NULL *)
Lemma index_of_In i : forall cs, In i cs -> exists j, index_of i cs = Some j /\ nth_error cs j = Some i.
Proof.
  induction cs as [|x cs IH]; intros H; simpl in *; [contradiction|].
  destruct (Nat.eqb x i) eqn:E.
  - apply Nat.eqb_eq in E. subst. exists O. split; reflexivity.
  - destruct H as [->|H]; [rewrite Nat.eqb_refl in E; discriminate|].
    destruct (IH H) as [j [H1 H2]]. exists (S j). rewrite H1. split; [reflexivity | exact H2].
Qed.

Lemma index_of_notin i : forall cs, ~ In i cs -> index_of i cs = None.
Proof.
  induction cs as [|x cs IH]; intros H; simpl in *; [reflexivity|].
  destruct (Nat.eqb x i) eqn:E.
  - apply Nat.eqb_eq in E. subst. exfalso. apply H. left. reflexivity.
  - rewrite IH; [reflexivity|]. intro H1. apply H. right. exact H1.
Qed.

Lemma index_of_NoDup : forall cs j i, NoDup cs -> nth_error cs j = Some i -> index_of i cs = Some j.
Proof.
  induction cs as [|x cs IH]; intros j i Hd Hj; [destruct j; discriminate|].
  inversion Hd as [|? ? Hn Hd']; subst. simpl. destruct j; simpl in Hj.
  - inversion Hj; subst. rewrite Nat.eqb_refl. reflexivity.
  - destruct (Nat.eqb x i) eqn:E.
    + apply Nat.eqb_eq in E. subst. exfalso. apply Hn. eapply nth_error_In; eauto.
    + rewrite (IH j i Hd' Hj). reflexivity.
Qed.

Lemma nth_map_seq {B} (f : nat -> B) n i d : (i < n)%nat -> nth i (map f (seq 0 n)) d = f i.
Proof.
  intro H. rewrite (nth_indep _ d (f 0%nat)) by (rewrite map_length, seq_length; exact H).
  rewrite map_nth. rewrite seq_nth by exact H. reflexivity.
Qed.

Lemma place_spec ncols cs v :
  NoDup cs ->
  length (place ncols (Some cs) v) = ncols /\
  (forall j i, nth_error cs j = Some i -> (i < ncols)%nat -> nth i (place ncols (Some cs) v) None = nth j v None) /\
  (forall i, ~ In i cs -> nth i (place ncols (Some cs) v) None = None).
Proof.
  intro Hd. unfold place. repeat split.
  - rewrite map_length, seq_length. reflexivity.
  - intros j i Hj Hi. rewrite nth_map_seq by exact Hi. rewrite (index_of_NoDup cs j i Hd Hj). reflexivity.
  - intros i Hi. destruct (Nat.lt_ge_cases i ncols) as [Hlt|Hge].
    + rewrite nth_map_seq by exact Hlt. rewrite index_of_notin by exact Hi. reflexivity.
    + apply nth_overflow. rewrite map_length, seq_length. exact Hge.
Qed.

(* ------------------------------------------------------------------ per-statement specifications *)
Theorem delete_spec n t w t' c :
  step n t (SDelete w) = (t', c) ->
  rows_of t' = filter (fun r => negb (holds w r)) (rows_of t) /\
  c = zlen (filter (holds w) (rows_of t)) /\
  c = zlen (rows_of t) - zlen (rows_of t') /\
  length t' = length t /\
  Forall (Forall (fun b => b <> [])) t'.
Proof.
  unfold step. rewrite pair_let. intro H. inversion H; subst; clear H.
  destruct (delete_table_spec (filters_of w) t) as [D1 [D2 [D3 D4]]].
  assert (E1 : filter (sel (filters_of w)) (rows_of t) = filter (holds w) (rows_of t))
    by (apply filter_ext'; intro r; apply sel_filters_of).
  assert (E2 : filter (fun r => negb (sel (filters_of w) r)) (rows_of t) = filter (fun r => negb (holds w r)) (rows_of t))
    by (apply filter_ext'; intro r; rewrite sel_filters_of; reflexivity).
  rewrite D1, D2, E1, E2. repeat split; auto.
  pose proof (filter_split_len (holds w) (rows_of t)). lia.
Qed.

Theorem update_spec n t asg w t' c :
  NoDup (targets asg) ->
  step n t (SUpdate asg w) = (t', c) ->
  rows_of t' = map (fun r => if holds w r then ref_update_row asg r else r) (rows_of t) /\
  c = zlen (filter (holds w) (rows_of t)) /\
  length t' = length t.
Proof.
  intro Hd. unfold step. rewrite pair_let. intro H. inversion H; subst; clear H.
  destruct (update_table_spec asg (filters_of w) Hd t) as [U1 [U2 U3]].
  rewrite U1, U2. repeat split; auto.
  - apply map_ext. intro r. unfold upd. rewrite sel_filters_of. reflexivity.
  - f_equal. apply filter_ext'. intro r. apply sel_filters_of.
Qed.

Theorem insert_spec n t cols vals t' c :
  t <> [] ->
  step n t (SInsert cols vals) = (t', c) ->
  Permutation (rows_of t') (rows_of t ++ map (place n cols) vals) /\
  c = zlen vals /\
  length t' = length t.
Proof.
  intro Hne. unfold step. rewrite pair_let. intro H. inversion H; subst; clear H.
  destruct (insert_table_spec [map (place n cols) vals] t Hne) as [I1 [I2 I3]].
  cbn [concat] in I1, I3. rewrite app_nil_r in I1, I3.
  repeat split; auto. rewrite app_nil_r. unfold zlen. rewrite map_length. reflexivity.
Qed.

Theorem insert_values_lands_in_partition_0 n p t cols vals :
  step n (p :: t) (SInsert cols vals) = ((p ++ [map (place n cols) vals]) :: t, zlen vals).
Proof.
  unfold step. rewrite insert_single_batch. unfold zlen. rewrite map_length. reflexivity.
Qed.

(* what ref_update_row means, column by column *)
Lemma ref_update_row_length asg r : length (ref_update_row asg r) = length r.
Proof. apply mapi_from_length. Qed.

Lemma ref_update_row_nth asg r j : (j < length r)%nat ->
  nth j (ref_update_row asg r) None =
  match assoc_first j asg with Some e => eval_i r e | None => nth j r None end.
Proof. intro H. unfold ref_update_row. rewrite (mapi_from_nth _ r 0%nat j (@None Z) (@None Z) H). reflexivity. Qed.

Lemma assoc_first_In j e : forall asg, NoDup (targets asg) -> In (j, e) asg -> assoc_first j asg = Some e.
Proof.
  induction asg as [|[k e'] asg IH]; intros Hd Hi; simpl in *; [contradiction|].
  inversion Hd as [|? ? Hn Hd']; subst.
  destruct Hi as [Hi|Hi].
  - inversion Hi; subst. rewrite Nat.eqb_refl. reflexivity.
  - destruct (Nat.eqb k j) eqn:E; [|apply IH; auto].
    apply Nat.eqb_eq in E. subst. exfalso. apply Hn. unfold targets. apply in_map_iff. exists (j, e). auto.
Qed.

(* the relation between a row before and after an UPDATE *)
Definition updated_from (asg : list (nat * iexpr)) (w : option bexpr) (old new : row) : Prop :=
  length new = length old /\
  (holds w old = true ->
     (forall j e, In (j, e) asg -> (j < length old)%nat -> nth j new None = eval_i old e) /\
     (forall j, ~ In j (targets asg) -> nth j new None = nth j old None)) /\
  (holds w old = false -> new = old).

Lemma Forall2_map_r {A B} (R : A -> B -> Prop) (f : A -> B) l : (forall x, R x (f x)) -> Forall2 R l (map f l).
Proof. intro H. induction l; simpl; constructor; auto. Qed.

Theorem update_sees_pre_update_row n t asg w t' c :
  NoDup (targets asg) ->
  step n t (SUpdate asg w) = (t', c) ->
  Forall2 (updated_from asg w) (rows_of t) (rows_of t').
Proof.
  intros Hd H. destruct (update_spec n t asg w t' c Hd H) as [U _]. rewrite U.
  apply Forall2_map_r. intro r. unfold updated_from. destruct (holds w r).
  - split; [apply ref_update_row_length|]. split; [|discriminate]. intros _. split.
    + intros j e Hi Hj. rewrite ref_update_row_nth by exact Hj. rewrite (assoc_first_In j e asg Hd Hi). reflexivity.
    + intros j Hn. destruct (Nat.lt_ge_cases j (length r)) as [Hlt|Hge].
      * rewrite ref_update_row_nth by exact Hlt. rewrite assoc_first_none by exact Hn. reflexivity.
      * rewrite !nth_overflow; [reflexivity | exact Hge | rewrite ref_update_row_length; exact Hge].
  - split; [reflexivity|]. split; [discriminate | reflexivity].
Qed.

(* how the table is cut into partitions and batches does not matter for DELETE / UPDATE *)
Theorem batching_irrelevant n t1 t2 s :
  (match s with SInsert _ _ => False | _ => True end) -> stmt_ok s ->
  rows_of t1 = rows_of t2 ->
  rows_of (fst (step n t1 s)) = rows_of (fst (step n t2 s)) /\ snd (step n t1 s) = snd (step n t2 s).
Proof.
  intros Hs Hok E. destruct s as [cols vals|w|asg w]; [contradiction| |].
  - destruct (step n t1 (SDelete w)) as [a1 c1] eqn:S1. destruct (step n t2 (SDelete w)) as [a2 c2] eqn:S2.
    destruct (delete_spec _ _ _ _ _ S1) as [A1 [B1 _]]. destruct (delete_spec _ _ _ _ _ S2) as [A2 [B2 _]].
    simpl. rewrite A1, A2, B1, B2, E. split; reflexivity.
  - simpl in Hok.
    destruct (step n t1 (SUpdate asg w)) as [a1 c1] eqn:S1. destruct (step n t2 (SUpdate asg w)) as [a2 c2] eqn:S2.
    destruct (update_spec _ _ _ _ _ _ Hok S1) as [A1 [B1 _]]. destruct (update_spec _ _ _ _ _ _ Hok S2) as [A2 [B2 _]].
    simpl. rewrite A1, A2, B1, B2, E. split; reflexivity.
Qed.

(* ------------------------------------------------------------------ every statement against the reference *)
Lemma ref_step_perm n s rows1 rows2 : Permutation rows1 rows2 ->
  Permutation (fst (ref_step n rows1 s)) (fst (ref_step n rows2 s)) /\
  snd (ref_step n rows1 s) = snd (ref_step n rows2 s).
Proof.
  intro P. destruct s as [cols vals|w|asg w]; simpl.
  - split; [apply Permutation_app_tail; exact P | reflexivity].
  - split; [apply Permutation_filter'; exact P|].
    unfold zlen. f_equal. apply Permutation_length. apply Permutation_filter'. exact P.
  - split; [apply Permutation_map; exact P|].
    unfold zlen. f_equal. apply Permutation_length. apply Permutation_filter'. exact P.
Qed.

Theorem step_refines_reference n t s :
  t <> [] -> stmt_ok s ->
  Permutation (rows_of (fst (step n t s))) (fst (ref_step n (rows_of t) s)) /\
  snd (step n t s) = snd (ref_step n (rows_of t) s) /\
  length (fst (step n t s)) = length t.
Proof.
  intros Hne Hok. destruct (step n t s) as [t' c] eqn:S. destruct s as [cols vals|w|asg w]; simpl.
  - destruct (insert_spec _ _ _ _ _ _ Hne S) as [A [B C]]. auto.
  - destruct (delete_spec _ _ _ _ _ S) as [A [B [_ [C _]]]]. rewrite A. auto.
  - destruct (update_spec _ _ _ _ _ _ Hok S) as [A [B C]]. rewrite A. auto.
Qed.

Theorem counts_exact n t s :
  t <> [] -> stmt_ok s ->
  let t' := fst (step n t s) in
  let c := snd (step n t s) in
  match s with
  | SInsert _ vals => c = zlen vals /\ zlen (rows_of t') = zlen (rows_of t) + c
  | SDelete w => c = zlen (filter (holds w) (rows_of t)) /\ zlen (rows_of t') = zlen (rows_of t) - c
  | SUpdate _ w => c = zlen (filter (holds w) (rows_of t)) /\ zlen (rows_of t') = zlen (rows_of t)
  end.
Proof.
  intros Hne Hok. destruct (step n t s) as [t' c] eqn:S. destruct s as [cols vals|w|asg w]; simpl.
  - destruct (insert_spec _ _ _ _ _ _ Hne S) as [A [B _]]. split; [exact B|].
    unfold zlen. rewrite (Permutation_length A), app_length, map_length. subst c. unfold zlen. lia.
  - destruct (delete_spec _ _ _ _ _ S) as [_ [B [C _]]]. split; [exact B | lia].
  - destruct (update_spec _ _ _ _ _ _ Hok S) as [A [B _]]. split; [exact B|].
    rewrite A. unfold zlen. rewrite map_length. reflexivity.
Qed.

Lemma history_gen n : forall ss t rows,
  t <> [] -> Forall stmt_ok ss -> Permutation (rows_of t) rows ->
  Permutation (rows_of (fst (run n t ss))) (fst (ref_run n rows ss)) /\
  snd (run n t ss) = snd (ref_run n rows ss) /\
  length (fst (run n t ss)) = length t.
Proof.
  induction ss as [|s ss IH]; intros t rows Hne Hok P; simpl.
  - auto.
  - inversion Hok as [|? ? Hs Hr]; subst.
    destruct (step_refines_reference n t s Hne Hs) as [A [B C]].
    destruct (ref_step_perm n s (rows_of t) rows P) as [D E].
    destruct (step n t s) as [t1 c] eqn:S. destruct (ref_step n rows s) as [rows1 c'] eqn:R.
    simpl in *.
    assert (Hne1 : t1 <> []) by (destruct t1; [destruct t; [congruence | discriminate] | discriminate]).
    destruct (IH t1 rows1 Hne1 Hr (perm_trans A D)) as [F [G H]].
    destruct (run n t1 ss) as [t2 cs]. destruct (ref_run n rows1 ss) as [rows2 cs'].
    simpl in *. repeat split; [exact F | congruence | congruence].
Qed.

Theorem history_refines_reference n t ss :
  t <> [] -> Forall stmt_ok ss ->
  Permutation (rows_of (fst (run n t ss))) (fst (ref_run n (rows_of t) ss)) /\
  snd (run n t ss) = snd (ref_run n (rows_of t) ss).
Proof.
  intros Hne Hok. destruct (history_gen n ss t (rows_of t) Hne Hok (Permutation_refl _)) as [A [B _]]. auto.
Qed.

(* histories without INSERT keep the row order too *)
Definition no_insert (s : stmt) : bool := match s with SInsert _ _ => false | _ => true end.

Theorem history_without_insert_in_order n : forall ss t,
  Forall stmt_ok ss -> forallb no_insert ss = true ->
  rows_of (fst (run n t ss)) = fst (ref_run n (rows_of t) ss) /\
  snd (run n t ss) = snd (ref_run n (rows_of t) ss).
Proof.
  induction ss as [|s ss IH]; intros t Hok Hni; simpl; [auto|].
  inversion Hok as [|? ? Hs Hr]; subst. simpl in Hni. apply andb_true_iff in Hni. destruct Hni as [N1 N2].
  destruct (step n t s) as [t1 c] eqn:S.
  assert (E : ref_step n (rows_of t) s = (rows_of t1, c)).
  { destruct s as [cols vals|w|asg w]; [discriminate| |]; simpl.
    - destruct (delete_spec _ _ _ _ _ S) as [A [B _]]. rewrite A, B. reflexivity.
    - destruct (update_spec _ _ _ _ _ _ Hs S) as [A [B _]]. rewrite A, B. reflexivity. }
  rewrite E. destruct (IH t1 Hr N2) as [F G].
  destruct (run n t1 ss) as [t2 cs]. destruct (ref_run n (rows_of t1) ss) as [rows2 cs'].
  simpl in *. split; congruence.
Qed.

(* ------------------------------------------------------------------ the pipeline at the pinned commit (constant WHERE) *)
Lemma cf2_sound {A B} (f : A -> A -> B) x y vx vy v :
  (forall c, x = Some c -> vx = c) -> (forall c, y = Some c -> vy = c) ->
  cf2 f x y = Some v -> lift2 f vx vy = v.
Proof.
  intros Hx Hy H.
  destruct x as [[a|]|], y as [[b|]|]; simpl in H; inversion H; subst;
    try rewrite (Hx _ eq_refl); try rewrite (Hy _ eq_refl); try reflexivity;
    destruct vx; reflexivity.
Qed.

Lemma cfold_i_sound : forall e v, cfold_i e = Some v -> forall r, eval_i r e = v.
Proof.
  induction e; intros v H r; simpl in *; try discriminate; try (inversion H; reflexivity);
    (eapply cf2_sound; [| | exact H]; intros c Hc; [apply IHe1 | apply IHe2]; exact Hc).
Qed.

Lemma and3_false_r x : and3 x (Some false) = Some false.
Proof. destruct x as [[]|]; reflexivity. Qed.
Lemma or3_true_r x : or3 x (Some true) = Some true.
Proof. destruct x as [[]|]; reflexivity. Qed.

Lemma cfold_b_sound : forall p v, cfold_b p = Some v -> forall r, eval_b r p = v.
Proof.
  induction p; intros v H r; simpl in *.
  - inversion H; reflexivity.
  - inversion H; reflexivity.
  - eapply cf2_sound; [| | exact H]; intros c Hc; apply cfold_i_sound; exact Hc.
  - destruct (cfold_b p1) as [[[]|]|]; destruct (cfold_b p2) as [[[]|]|]; inversion H; subst;
      try rewrite (IHp1 _ eq_refl r); try rewrite (IHp2 _ eq_refl r); try reflexivity;
      apply and3_false_r.
  - destruct (cfold_b p1) as [[[]|]|]; destruct (cfold_b p2) as [[[]|]|]; inversion H; subst;
      try rewrite (IHp1 _ eq_refl r); try rewrite (IHp2 _ eq_refl r); try reflexivity;
      apply or3_true_r.
  - destruct (cfold_b p) as [x|]; simpl in H; inversion H; subst. rewrite (IHp _ eq_refl r). reflexivity.
  - destruct (cfold_i a) as [x|] eqn:E; simpl in H; inversion H; subst. rewrite (cfold_i_sound a x E r). reflexivity.
  - destruct (cfold_i a) as [x|] eqn:E; simpl in H; inversion H; subst. rewrite (cfold_i_sound a x E r). reflexivity.
Qed.

(* a WHERE clause that folds away selects no row at all *)
Theorem folds_away_no_row w : folds_away w = true -> forall r, holds w r = false.
Proof.
  destruct w as [p|]; simpl; [|discriminate]. intros H r.
  destruct (cfold_b p) as [v|] eqn:E; [|discriminate].
  rewrite (cfold_b_sound p v E r). destruct v as [[]|]; [discriminate | reflexivity | reflexivity].
Qed.

(* ... and yet the statement is executed as if it had no WHERE clause *)
Theorem upstream_constant_where_refuted :
  exists t w,
    (forall r, holds w r = false) /\ rows_of t <> [] /\
    rows_of (fst (step_upstream 3 t (SDelete w))) = [] /\
    snd (step_upstream 3 t (SDelete w)) = zlen (rows_of t) /\
    snd (step_upstream 3 t (SUpdate [(0%nat, ILit 9)] w)) = zlen (rows_of t).
Proof.
  exists [[[[Some 1; None; Some 2]; [None; Some 0; Some 3]]]; [[[Some 0; Some 0; Some 0]]]].
  exists (Some (BAnd (BCmp CGt (ICol 0) (ILit 0)) (BLit false))).
  split; [apply folds_away_no_row; reflexivity|].
  split; [discriminate|]. vm_compute. repeat split.
Qed.
