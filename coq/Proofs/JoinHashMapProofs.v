(* C14 -- proofs about the model in Model/JoinHashMap.v.  All statements are for every
   insertion history / probe list / page size (induction over the inserted rows, the chain,
   the probe list and the number of pages). *)
From Coq Require Import List ZArith Bool Lia.
From DF Require Import Base.Prelude Model.JoinHashMap.
Import ListNotations.
Open Scope Z_scope.

(* ================================================================ finite map *)
Lemma find_set_same : forall h v m, map_find h (map_set h v m) = Some v.
Proof.
  induction m as [|[k v'] m IH]; cbn [map_set map_find].
  - now rewrite Z.eqb_refl.
  - destruct (k =? h) eqn:E; cbn [map_find]; rewrite E; auto.
Qed.

Lemma find_set_other : forall h k v m, k <> h -> map_find k (map_set h v m) = map_find k m.
Proof.
  induction m as [|[k' v'] m IH]; intros Hn; cbn [map_set map_find].
  - destruct (h =? k) eqn:E; auto. apply Z.eqb_eq in E. congruence.
  - destruct (k' =? h) eqn:E; cbn [map_find].
    + apply Z.eqb_eq in E. subst k'. destruct (h =? k) eqn:E2; auto.
      apply Z.eqb_eq in E2. congruence.
    + destruct (k' =? k); auto.
Qed.

Lemma keys_set : forall h v m p, map_find h m = Some p -> map fst (map_set h v m) = map fst m.
Proof.
  induction m as [|[k v'] m IH]; intros p; cbn [map_set map_find]; [discriminate|].
  destruct (k =? h) eqn:E; cbn [map fst]; auto.
  intros H. f_equal. eauto.
Qed.

Lemma find_none_iff : forall h m, map_find h m = None <-> ~ In h (map fst m).
Proof.
  induction m as [|[k v] m IH]; cbn [map_find map fst In].
  - tauto.
  - destruct (k =? h) eqn:E.
    + apply Z.eqb_eq in E. split; [discriminate|]. intros H; exfalso; apply H; auto.
    + apply Z.eqb_neq in E. rewrite IH. tauto.
Qed.

Lemma find_app : forall h m m',
  map_find h (m ++ m') = match map_find h m with Some v => Some v | None => map_find h m' end.
Proof.
  induction m as [|[k v] m IH]; intros; cbn [map_find app]; auto.
  destruct (k =? h); auto.
Qed.

Lemma NoDup_app_snoc : forall {A} (l : list A) x, NoDup l -> ~ In x l -> NoDup (l ++ [x]).
Proof.
  induction l; cbn [app]; intros x H Hn.
  - constructor; auto.
  - inversion H; subst. constructor.
    + rewrite in_app_iff. cbn. intros [?|[?|[]]]; auto. subst. apply Hn. left; auto.
    + apply IHl; auto. intros C. apply Hn. right; auto.
Qed.

(* ================================================================ vector update *)
Lemma upd_length : forall l n v, length (upd_nat l n v) = length l.
Proof. induction l; destruct n; cbn [upd_nat length]; auto. Qed.

Lemma nth_upd_same : forall l n v, (n < length l)%nat -> nth_error (upd_nat l n v) n = Some v.
Proof.
  induction l; destruct n; cbn [upd_nat length nth_error]; intros; try lia; auto.
  apply IHl; lia.
Qed.

Lemma nth_upd_other : forall l n m v, n <> m -> nth_error (upd_nat l n v) m = nth_error l m.
Proof.
  induction l; destruct n, m; cbn [upd_nat nth_error]; intros; auto; try congruence.
Qed.

Lemma nthZ_upd_same : forall next i v,
  0 <= i < lenZ next -> nthZ (upd_nat next (Z.to_nat i) v) i = Some v.
Proof.
  unfold nthZ, lenZ; intros. destruct (i <? 0) eqn:E; [apply Z.ltb_lt in E; lia|].
  apply nth_upd_same. lia.
Qed.

Lemma nthZ_upd_other : forall next i j v,
  0 <= i -> i <> j -> nthZ (upd_nat next (Z.to_nat i) v) j = nthZ next j.
Proof.
  unfold nthZ; intros. destruct (j <? 0) eqn:E; auto.
  apply Z.ltb_ge in E. apply nth_upd_other. lia.
Qed.

Lemma nthZ_in_range : forall next i, 0 <= i < lenZ next -> exists v, nthZ next i = Some v.
Proof.
  unfold nthZ, lenZ; intros. destruct (i <? 0) eqn:E; [apply Z.ltb_lt in E; lia|].
  destruct (nth_error next (Z.to_nat i)) eqn:N; eauto.
  apply nth_error_None in N. lia.
Qed.

(* ================================================================ the specification *)
Lemma rows_of_snoc : forall ins r h h',
  rows_of (ins ++ [(r, h)]) h' = if h =? h' then r :: rows_of ins h' else rows_of ins h'.
Proof.
  intros. unfold rows_of. rewrite rev_app_distr. cbn [rev app filter snd].
  destruct (h =? h'); reflexivity.
Qed.

Lemma in_rows_of : forall ins h r, In r (rows_of ins h) <-> In (r, h) ins.
Proof.
  intros. unfold rows_of. rewrite in_map_iff. split.
  - intros [[r' h'] [E H]]. apply filter_In in H. destruct H as [H1 H2].
    cbn in E, H2. apply Z.eqb_eq in H2. subst. now apply in_rev.
  - intros H. exists (r, h). split; auto. apply filter_In. split.
    + now apply in_rev in H.
    + cbn. apply Z.eqb_refl.
Qed.

Lemma rows_of_in_rows : forall ins h r, In r (rows_of ins h) -> In r (map fst ins).
Proof. intros. apply in_rows_of in H. apply in_map_iff. exists (r, h); auto. Qed.

Lemma rows_of_nil_iff : forall ins h, rows_of ins h = [] <-> ~ In h (map snd ins).
Proof.
  intros. split.
  - intros E H. apply in_map_iff in H. destruct H as [[r h'] [E1 H]]. cbn in E1. subst h'.
    apply in_rows_of in H. rewrite E in H. destruct H.
  - intros H. destruct (rows_of ins h) as [|r l] eqn:E; auto.
    exfalso. apply H. assert (I : In r (rows_of ins h)) by (rewrite E; left; auto).
    apply in_rows_of in I. apply in_map_iff. exists (r, h); auto.
Qed.

Lemma NoDup_map_filter : forall {A B} (f : A -> B) (p : A -> bool) l,
  NoDup (map f l) -> NoDup (map f (filter p l)).
Proof.
  induction l; cbn [map filter]; intros H; auto.
  inversion H; subst. destruct (p a); cbn [map]; auto.
  constructor; auto. intros I. apply H2. apply in_map_iff in I. destruct I as [x [E I]].
  apply filter_In in I. apply in_map_iff. exists x; tauto.
Qed.

Lemma rows_of_NoDup : forall ins h, NoDup (map fst ins) -> NoDup (rows_of ins h).
Proof.
  intros. unfold rows_of. apply NoDup_map_filter. rewrite map_rev. now apply NoDup_rev.
Qed.

Lemma filter_length : forall {A} (p : A -> bool) l, (length (filter p l) <= length l)%nat.
Proof. induction l; cbn [filter length]; auto. destruct (p a); cbn [length]; lia. Qed.

Lemma rows_of_length : forall ins h, (length (rows_of ins h) <= length ins)%nat.
Proof.
  intros. unfold rows_of. rewrite map_length.
  etransitivity; [apply filter_length|]. now rewrite rev_length.
Qed.

(* ================================================================ chains *)
(* [encodes next d l start]: following the chain from map value [start] visits exactly the rows l *)
Fixpoint encodes (next : list Z) (d : Z) (l : list Z) (start : Z) : Prop :=
  match l with
  | [] => start = 0
  | r :: l' => start = r + 1 /\ d <= r /\ exists nx, nthZ next (r - d) = Some nx /\ encodes next d l' nx
  end.

Lemma encodes_zero : forall next d l, 0 <= d -> encodes next d l 0 -> l = [].
Proof. destruct l; cbn [encodes]; auto. intros ? [? [? _]]. lia. Qed.

Lemma encodes_upd_other : forall next d v i l start,
  0 <= i -> ~ In (i + d) l -> encodes next d l start ->
  encodes (upd_nat next (Z.to_nat i) v) d l start.
Proof.
  induction l as [|r l IH]; cbn [encodes In]; intros start Hi Hn H; auto.
  destruct H as [E [Hd [nx [N H]]]]. repeat split; auto.
  exists nx. split.
  - rewrite nthZ_upd_other; auto. intros C. apply Hn. left. lia.
  - apply IH; auto.
Qed.

(* ================================================================ the representation invariant *)
Record Inv (d cap : Z) (ins : list (Z * Z)) (s : jhm) : Prop := {
  inv_len : lenZ (jnext s) = cap;
  inv_keys : NoDup (map fst (jmap s));
  inv_keys_in : forall h, In h (map fst (jmap s)) <-> In h (map snd ins);
  inv_chain : forall h,
    encodes (jnext s) d (rows_of ins h) (match map_find h (jmap s) with Some v => v | None => 0 end);
  inv_fresh : forall i, 0 <= i < cap -> ~ In (i + d) (map fst ins) -> nthZ (jnext s) i = Some 0
}.

Lemma repeat_lenZ : forall cap, 0 <= cap -> lenZ (repeat 0 (Z.to_nat cap)) = cap.
Proof. intros. unfold lenZ. rewrite repeat_length. lia. Qed.

Lemma inv_init : forall d cap, 0 <= cap -> Inv d cap [] (with_capacity cap).
Proof.
  intros. unfold with_capacity. constructor; cbn [jmap jnext map].
  - now apply repeat_lenZ.
  - constructor.
  - tauto.
  - intros. cbn. reflexivity.
  - intros. unfold nthZ. destruct (i <? 0) eqn:E; [apply Z.ltb_lt in E; lia|].
    apply nth_error_repeat. lia.
Qed.

Lemma inv_find_none : forall d cap ins s h,
  Inv d cap ins s -> map_find h (jmap s) = None -> rows_of ins h = [].
Proof.
  intros. apply rows_of_nil_iff. rewrite <- (inv_keys_in _ _ _ _ H). now apply find_none_iff.
Qed.

Lemma inv_find_some : forall d cap ins s h v,
  Inv d cap ins s -> map_find h (jmap s) = Some v ->
  rows_of ins h <> [] /\ encodes (jnext s) d (rows_of ins h) v.
Proof.
  intros. split.
  - intros E. apply rows_of_nil_iff in E. rewrite <- (inv_keys_in _ _ _ _ H) in E.
    apply find_none_iff in E. congruence.
  - pose proof (inv_chain _ _ _ _ H h) as C. now rewrite H0 in C.
Qed.

Lemma update_one_inv : forall W d cap ins s r h,
  0 <= d -> Inv d cap ins s -> ~ In r (map fst ins) -> d <= r -> r - d < cap -> r + 1 <= W ->
  exists s', update_one W d r h s = Some s' /\ Inv d cap (ins ++ [(r, h)]) s'.
Proof.
  intros W d cap ins s r h Hd I Hfresh Hr1 Hr2 Hw.
  unfold update_one.
  destruct (W <? r + 1) eqn:EW; [apply Z.ltb_lt in EW; lia|].
  destruct (map_find h (jmap s)) as [prev|] eqn:F.
  - (* Occupied *)
    pose proof (inv_len _ _ _ _ I) as L.
    destruct ((r - d <? 0) || (lenZ (jnext s) <=? r - d)) eqn:EB.
    { apply orb_true_iff in EB. destruct EB as [EB|EB]; [apply Z.ltb_lt in EB|apply Z.leb_le in EB]; lia. }
    eexists; split; [reflexivity|].
    constructor; cbn [jmap jnext].
    + unfold lenZ in *. now rewrite upd_length.
    + rewrite (keys_set _ _ _ _ F). apply (inv_keys _ _ _ _ I).
    + intros h'. rewrite (keys_set _ _ _ _ F). rewrite map_app, in_app_iff.
      rewrite (inv_keys_in _ _ _ _ I). cbn [map snd In]. split; [tauto|].
      intros [?|[<-|[]]]; auto.
      apply (inv_keys_in _ _ _ _ I). destruct (find_none_iff h (jmap s)) as [_ F2].
      destruct (in_dec Z.eq_dec h (map fst (jmap s))); auto. apply F2 in n. congruence.
    + intros h'. rewrite rows_of_snoc. destruct (h =? h') eqn:E.
      * apply Z.eqb_eq in E. subst h'. rewrite find_set_same. cbn [encodes].
        repeat split; auto. exists prev. split.
        -- apply nthZ_upd_same. lia.
        -- apply encodes_upd_other; [lia| |].
           ++ replace (r - d + d) with r by lia. intros C. apply Hfresh. eapply rows_of_in_rows; eauto.
           ++ apply (inv_find_some _ _ _ _ _ _ I F).
      * apply Z.eqb_neq in E. rewrite find_set_other by congruence.
        apply encodes_upd_other; [lia| |apply (inv_chain _ _ _ _ I)].
        replace (r - d + d) with r by lia. intros C. apply Hfresh. eapply rows_of_in_rows; eauto.
    + intros i Hi Hn. rewrite nthZ_upd_other.
      * apply (inv_fresh _ _ _ _ I); auto. intros C. apply Hn. rewrite map_app, in_app_iff. auto.
      * lia.
      * intros C. apply Hn. rewrite map_app, in_app_iff. right. cbn. left. lia.
  - (* Vacant *)
    eexists; split; [reflexivity|].
    assert (Hk : ~ In h (map fst (jmap s))) by now apply find_none_iff.
    constructor; cbn [jmap jnext].
    + apply (inv_len _ _ _ _ I).
    + rewrite map_app. cbn [map fst]. apply NoDup_app_snoc; auto. apply (inv_keys _ _ _ _ I).
    + intros h'. rewrite !map_app, !in_app_iff. rewrite (inv_keys_in _ _ _ _ I). cbn. tauto.
    + intros h'. rewrite rows_of_snoc, find_app. destruct (h =? h') eqn:E.
      * apply Z.eqb_eq in E. subst h'. rewrite F. cbn [map_find]. rewrite Z.eqb_refl.
        rewrite (inv_find_none _ _ _ _ _ I F). cbn [encodes]. repeat split; auto.
        exists 0. split; auto. apply (inv_fresh _ _ _ _ I); [lia|].
        now replace (r - d + d) with r by lia.
      * apply Z.eqb_neq in E. pose proof (inv_chain _ _ _ _ I h') as C.
        destruct (map_find h' (jmap s)); auto. cbn [map_find].
        destruct (h =? h') eqn:E2; [apply Z.eqb_eq in E2; congruence|]. exact C.
    + intros i Hi Hn. apply (inv_fresh _ _ _ _ I); auto.
      intros C. apply Hn. rewrite map_app, in_app_iff. auto.
Qed.

(* ================================================================ building *)
Lemma NoDup_app_l : forall {A} (a b : list A), NoDup (a ++ b) -> NoDup a.
Proof.
  induction a; cbn [app]; intros b H; [constructor|].
  inversion H; subst. constructor; eauto. rewrite in_app_iff in H2. tauto.
Qed.
Lemma wf_ins_app_inv : forall W d cap a b, wf_ins W d cap (a ++ b) -> wf_ins W d cap a.
Proof.
  unfold wf_ins. intros W d cap a b [N F]. rewrite map_app in N. split.
  - eapply NoDup_app_l; eauto.
  - apply Forall_app in F. tauto.
Qed.

Lemma update_from_iter_inv : forall W d cap it ins s,
  0 <= d -> Inv d cap ins s -> wf_ins W d cap (ins ++ it) ->
  exists s', update_from_iter W d it s = Some s' /\ Inv d cap (ins ++ it) s'.
Proof.
  induction it as [|[r h] it IH]; intros ins s Hd I Hwf; cbn [update_from_iter].
  - rewrite app_nil_r. eauto.
  - assert (E : ins ++ (r, h) :: it = (ins ++ [(r, h)]) ++ it) by now rewrite <- app_assoc.
    rewrite E in *.
    pose proof (wf_ins_app_inv _ _ _ _ _ Hwf) as [N F].
    apply Forall_app in F. destruct F as [_ F]. inversion F as [|? ? [F1 [F2 F3]] _]; subst. cbn [fst] in *.
    rewrite map_app in N. cbn [map fst] in N.
    assert (Hfresh : ~ In r (map fst ins)).
    { apply NoDup_remove_2 in N. rewrite app_nil_r in N. exact N. }
    destruct (update_one_inv W d cap ins s r h Hd I Hfresh F1 F2 F3) as [s1 [U I1]].
    rewrite U. apply IH; auto.
Qed.

Lemma update_batches_inv : forall W d cap bs ins s,
  0 <= d -> Inv d cap ins s -> wf_ins W d cap (ins ++ concat bs) ->
  exists s', update_batches W d bs s = Some s' /\ Inv d cap (ins ++ concat bs) s'.
Proof.
  induction bs as [|b bs IH]; intros ins s Hd I Hwf; cbn [update_batches concat] in *.
  - rewrite app_nil_r. eauto.
  - rewrite app_assoc in *.
    destruct (update_from_iter_inv W d cap b ins s Hd I (wf_ins_app_inv _ _ _ _ _ Hwf)) as [s1 [U I1]].
    rewrite U. apply IH; auto.
Qed.

Lemma build_inv : forall W d cap bs,
  0 <= d -> 0 <= cap -> wf_ins W d cap (concat bs) ->
  exists s, build W d cap bs = Some s /\ Inv d cap (concat bs) s.
Proof.
  intros. unfold build.
  apply (update_batches_inv W d cap bs [] (with_capacity cap)); auto. now apply inv_init.
Qed.

(* update_from_iter over several batches = over their concatenation *)
Lemma update_from_iter_app : forall W d a b s,
  update_from_iter W d (a ++ b) s =
  match update_from_iter W d a s with Some s' => update_from_iter W d b s' | None => None end.
Proof.
  induction a as [|[r h] a IH]; intros; cbn [app update_from_iter]; auto.
  destruct (update_one W d r h s); auto.
Qed.

Lemma update_batches_concat : forall W d bs s,
  update_batches W d bs s = update_from_iter W d (concat bs) s.
Proof.
  induction bs as [|b bs IH]; intros; cbn [update_batches concat]; auto.
  rewrite update_from_iter_app. destruct (update_from_iter W d b s); auto.
Qed.

(* ---------------------------------------------------------------- pigeonhole: at most cap rows *)
Lemma NoDup_map_inj_on : forall {A B} (f : A -> B) l,
  (forall x y, In x l -> In y l -> f x = f y -> x = y) -> NoDup l -> NoDup (map f l).
Proof.
  induction l; cbn [map]; intros Hinj N; [constructor|].
  inversion N; subst. constructor.
  - intros C. apply in_map_iff in C. destruct C as [y [E Iy]].
    assert (y = a) by (apply Hinj; cbn; auto). subst. auto.
  - apply IHl; auto. intros. apply Hinj; cbn; auto.
Qed.

Lemma wf_ins_length : forall W d cap ins,
  0 <= cap -> wf_ins W d cap ins -> (length ins <= Z.to_nat cap)%nat.
Proof.
  intros W d cap ins Hc [N F].
  set (f := fun r => Z.to_nat (r - d)).
  assert (R : forall r, In r (map fst ins) -> d <= r /\ r - d < cap).
  { intros r Hr. apply in_map_iff in Hr. destruct Hr as [p [E Hp]].
    rewrite Forall_forall in F. specialize (F p Hp). subst r. tauto. }
  assert (N2 : NoDup (map f (map fst ins))).
  { apply NoDup_map_inj_on; auto. intros x y Hx Hy E. apply R in Hx. apply R in Hy. unfold f in E. lia. }
  assert (Incl : incl (map f (map fst ins)) (seq 0 (Z.to_nat cap))).
  { intros n Hn. apply in_map_iff in Hn. destruct Hn as [r [E Hr]]. apply R in Hr.
    apply in_seq. unfold f in E. lia. }
  pose proof (NoDup_incl_length N2 Incl) as L.
  rewrite !map_length, seq_length in L. exact L.
Qed.

(* ================================================================ get_matched_indices *)
Lemma walk_ok : forall W next d od l start fuel,
  0 <= d <= W -> (od = Some d \/ (od = None /\ d = 0)) ->
  encodes next d l start -> l <> [] -> (length l <= fuel)%nat ->
  walk W next od (start - 1) fuel = Some (map (fun r => r - d) l).
Proof.
  induction l as [|r l IH]; intros start fuel Hd Hod E Hne Hf; [congruence|].
  cbn [encodes] in E. destruct E as [Es [Hr [nx [N E]]]]. subst start.
  destruct fuel as [|f]; [cbn in Hf; lia|]. cbn [length] in Hf.
  replace (r + 1 - 1) with r by lia.
  assert (Step : match nthZ next (r - d) with
                 | None => None
                 | Some nx => if nx =? 0 then Some [r - d]
                              else match walk W next od (nx - 1) f with
                                   | None => None | Some l0 => Some (r - d :: l0) end
                 end = Some (map (fun r => r - d) (r :: l))).
  { rewrite N. destruct (nx =? 0) eqn:Z0.
    - apply Z.eqb_eq in Z0. subst nx. apply encodes_zero in E; [|lia]. subst l. reflexivity.
    - apply Z.eqb_neq in Z0. assert (l <> []) by (intros ->; cbn in E; congruence).
      rewrite (IH nx f); auto; try lia. }
  cbn [walk]. destruct Hod as [->|[-> ->]].
  - destruct (W <? d) eqn:E1; [apply Z.ltb_lt in E1; lia|].
    destruct (r <? d) eqn:E2; [apply Z.ltb_lt in E2; lia|]. exact Step.
  - now rewrite Z.sub_0_r in Step.
Qed.

Lemma matched_ok : forall W d cap ins s probes od,
  0 <= d <= W -> 0 <= cap -> wf_ins W d cap ins -> Inv d cap ins s ->
  (od = Some d \/ (od = None /\ d = 0)) ->
  get_matched_indices W s probes od = Some (matched_spec ins d probes).
Proof.
  intros W d cap ins s probes od Hd Hc Hwf I Hod.
  pose proof (wf_ins_length _ _ _ _ Hc Hwf) as L.
  pose proof (inv_len _ _ _ _ I) as Ln. unfold lenZ in Ln.
  induction probes as [|[ri h] ps IH]; cbn [get_matched_indices matched_spec flat_map fst snd]; auto.
  fold (matched_spec ins d ps). rewrite IH.
  destruct (map_find h (jmap s)) as [idx|] eqn:F.
  - destruct (inv_find_some _ _ _ _ _ _ I F) as [Hne E].
    destruct (rows_of ins h) as [|r l] eqn:R; [congruence|].
    assert (idx = r + 1) by (cbn in E; tauto). subst idx.
    destruct (r + 1 <? 1) eqn:E1; [apply Z.ltb_lt in E1; cbn in E; lia|].
    rewrite (walk_ok W (jnext s) d od (r :: l) (r + 1)); auto.
    + rewrite map_map. reflexivity.
    + pose proof (rows_of_length ins h). rewrite R in H. lia.
  - rewrite (inv_find_none _ _ _ _ _ I F). reflexivity.
Qed.

(* ================================================================ contain_hashes / len *)
Lemma contains_ok : forall d cap ins s hs,
  Inv d cap ins s -> contain_hashes s hs = map (fun h => nonempty (rows_of ins h)) hs.
Proof.
  intros. unfold contain_hashes. apply map_ext. intros h.
  destruct (map_find h (jmap s)) eqn:F.
  - destruct (inv_find_some _ _ _ _ _ _ H F) as [Hne _]. destruct (rows_of ins h); [congruence|reflexivity].
  - now rewrite (inv_find_none _ _ _ _ _ H F).
Qed.

Lemma len_ok : forall d cap ins s,
  Inv d cap ins s -> jlen s = lenZ (nodup Z.eq_dec (map snd ins)).
Proof.
  intros. unfold jlen, lenZ. f_equal. rewrite <- (map_length fst (jmap s)).
  apply Nat.le_antisymm; apply NoDup_incl_length.
  - apply (inv_keys _ _ _ _ H).
  - intros h Hh. apply nodup_In. now apply (inv_keys_in _ _ _ _ H).
  - apply NoDup_nodup.
  - intros h Hh. apply nodup_In in Hh. now apply (inv_keys_in _ _ _ _ H).
Qed.

(* ================================================================ paged lookup *)
Lemma spec_from_app : forall ins a b row,
  spec_from ins (a ++ b) row = spec_from ins a row ++ spec_from ins b (row + lenZ a).
Proof.
  induction a as [|p a IH]; intros; cbn [app spec_from].
  - unfold lenZ. cbn. now rewrite Z.add_0_r.
  - rewrite IH, <- app_assoc. do 3 f_equal. unfold lenZ. cbn [length]. lia.
Qed.

Definition skipZ {A} (i : Z) (l : list A) : list A := skipn (Z.to_nat i) l.

Lemma skipZ_app_len : forall {A} (a b : list A), skipZ (lenZ a) (a ++ b) = b.
Proof.
  intros. unfold skipZ, lenZ. rewrite Nat2Z.id, skipn_app, skipn_all, Nat.sub_diag. reflexivity.
Qed.

Lemma skipZ_succ_app : forall {A} (a : list A) x b, skipZ (lenZ a + 1) (a ++ x :: b) = b.
Proof.
  intros. replace (a ++ x :: b) with ((a ++ [x]) ++ b) by now rewrite <- app_assoc.
  replace (lenZ a + 1) with (lenZ (a ++ [x])); [apply skipZ_app_len|].
  unfold lenZ. rewrite app_length. cbn. lia.
Qed.

Lemma slice_from_ok : forall {A} (l : list A) i, 0 <= i <= lenZ l -> slice_from l i = Some (skipZ i l).
Proof.
  intros. unfold slice_from.
  destruct ((i <? 0) || (lenZ l <? i)) eqn:E; auto.
  apply orb_true_iff in E. destruct E as [E|E]; apply Z.ltb_lt in E; lia.
Qed.

Lemma split_at : forall {A} (l : list A) i, 0 <= i <= lenZ l ->
  l = firstn (Z.to_nat i) l ++ skipZ i l /\ lenZ (firstn (Z.to_nat i) l) = i.
Proof.
  intros. split.
  - unfold skipZ. now rewrite firstn_skipn.
  - unfold lenZ in *. rewrite firstn_length. lia.
Qed.

Section Paged.
  Variable ins : list (Z * Z).
  Variable cap : Z.
  Variable s : jhm.
  Hypothesis I : Inv 0 cap ins s.
  Variable probes : list (Z * bool).

  (* what a resume offset stands for: the part of the result that is still to be produced *)
  Inductive denotes : token -> list (Z * Z) -> Prop :=
    | den_none : forall i, 0 <= i <= lenZ probes ->
        denotes (i, None) (spec_from ins (skipZ i probes) i)
    | den_some : forall i nx l, 0 <= i < lenZ probes -> encodes (jnext s) 0 l nx ->
        denotes (i, Some nx) (map (pair i) l ++ spec_from ins (skipZ (i + 1) probes) (i + 1)).

  Lemma encodes_nil_start : forall next l nx, encodes next 0 l nx -> nx = 0 -> l = [].
  Proof. intros. subst. eapply encodes_zero; eauto. lia. Qed.

  Lemma encodes_start_pos : forall next l nx, encodes next 0 l nx -> l <> [] -> nx <> 0.
  Proof. intros. destruct l; [congruence|]. cbn in H. lia. Qed.

  (* traverse_chain on a well-formed chain *)
  Lemma traverse_ok : forall rem l start pi il,
    encodes (jnext s) 0 l start -> l <> [] -> rem <> O ->
    exists res, traverse (jnext s) pi start rem il = Some (map (pair pi) (firstn rem l), res) /\
      ((rem <= length l)%nat ->
         exists nx, encodes (jnext s) 0 (skipn rem l) nx /\
                    res = TStop (if il && (nx =? 0) then None else Some (pi, Some nx))) /\
      ((length l < rem)%nat -> res = TCont (rem - length l)).
  Proof.
    induction rem as [|rem IH]; intros l start pi il E Hne Hrem; [congruence|].
    destruct l as [|r l]; [congruence|]. cbn [encodes] in E.
    destruct E as [Es [Hr [nx [N E]]]]. subst start. rewrite Z.sub_0_r in N.
    cbn [traverse]. destruct (r + 1 <? 1) eqn:E1; [apply Z.ltb_lt in E1; lia|].
    replace (r + 1 - 1) with r by lia. rewrite N.
    destruct rem as [|rem'].
    - (* limit reached here *)
      eexists. split; [reflexivity|]. split.
      + intros _. exists nx. split; [exact E|reflexivity].
      + cbn [length]. lia.
    - destruct (nx =? 0) eqn:Z0.
      + apply Z.eqb_eq in Z0. pose proof (encodes_nil_start _ _ _ E Z0). subst l.
        eexists. split; [reflexivity|]. cbn [length]. split; [lia|]. intros _. f_equal.
      + apply Z.eqb_neq in Z0. assert (Hl : l <> []) by (intros ->; cbn in E; congruence).
        destruct (IH l nx pi il E Hl) as [res [T [H1 H2]]]; [congruence|].
        rewrite T. eexists. split; [reflexivity|]. cbn [length skipn]. split.
        * intros. apply H1. lia.
        * intros. rewrite H2 by lia. f_equal.
  Qed.

  (* one chain, seen as a piece of the whole result *)
  Lemma traverse_denotes : forall pre p ps l start rem,
    probes = pre ++ p :: ps -> encodes (jnext s) 0 l start -> l <> [] -> rem <> O ->
    let row := lenZ pre in
    exists pg res, traverse (jnext s) row start rem (row =? lenZ probes - 1) = Some (pg, res) /\
      match res with
      | TStop None => pg = map (pair row) l ++ spec_from ins ps (row + 1) /\ (length pg <= rem)%nat
      | TStop (Some t) => exists R', denotes t R' /\
                            map (pair row) l ++ spec_from ins ps (row + 1) = pg ++ R' /\ length pg = rem
      | TCont rem' => pg = map (pair row) l /\ rem' <> O /\ (rem' + length pg = rem)%nat
      end.
  Proof.
    intros pre p ps l start rem Hp E Hne Hrem row.
    assert (Hn : lenZ probes = row + 1 + lenZ ps).
    { subst probes row. unfold lenZ. rewrite app_length. cbn [length]. lia. }
    assert (Hps : 0 <= lenZ ps) by (unfold lenZ; lia).
    assert (Hrow : 0 <= row) by (unfold row, lenZ; lia).
    destruct (traverse_ok rem l start row (row =? lenZ probes - 1) E Hne Hrem) as [res [T [H1 H2]]].
    exists (map (pair row) (firstn rem l)), res. split; [exact T|].
    destruct (le_lt_dec rem (length l)) as [Hle|Hlt].
    - destruct (H1 Hle) as [nx [E2 ->]].
      assert (Lpg : length (map (pair row) (firstn rem l)) = rem) by (rewrite map_length, firstn_length; lia).
      destruct ((row =? lenZ probes - 1) && (nx =? 0)) eqn:B.
      + apply andb_true_iff in B. destruct B as [B1 B2]. apply Z.eqb_eq in B1, B2.
        assert (ps = []) by (destruct ps; auto; unfold lenZ in *; cbn [length] in *; lia). subst ps.
        pose proof (encodes_nil_start _ _ _ E2 B2) as Sk.
        assert (firstn rem l = l).
        { rewrite <- (firstn_skipn rem l) at 2. rewrite Sk. now rewrite app_nil_r. }
        rewrite H. cbn [spec_from]. rewrite app_nil_r. split; auto. rewrite H in Lpg. lia.
      + exists (map (pair row) (skipn rem l) ++ spec_from ins ps (row + 1)). split; [|split; auto].
        * replace ps with (skipZ (row + 1) probes) at 1 by (subst probes; apply skipZ_succ_app).
          apply den_some; auto. lia.
        * rewrite app_assoc, <- map_app, firstn_skipn. reflexivity.
    - rewrite (H2 Hlt). rewrite firstn_all2 by lia. rewrite map_length. repeat split; lia.
  Qed.

  (* the probe loop of the chain path *)
  Lemma probe_loop_ok : forall ps pre rem,
    probes = pre ++ ps -> rem <> O ->
    exists pg ot, probe_loop s ps (lenZ pre) (lenZ probes) rem = Some (pg, ot) /\ (length pg <= rem)%nat /\
      match ot with
      | None => pg = spec_from ins ps (lenZ pre)
      | Some t => exists R', denotes t R' /\ spec_from ins ps (lenZ pre) = pg ++ R' /\ length pg = rem
      end.
  Proof.
    induction ps as [|[h valid] ps IH]; intros pre rem Hp Hrem; cbn [probe_loop spec_from].
    - exists [], None. repeat split; cbn; lia.
    - assert (Hp' : probes = (pre ++ [(h, valid)]) ++ ps) by now rewrite <- app_assoc.
      assert (Hl : lenZ (pre ++ [(h, valid)]) = lenZ pre + 1).
      { unfold lenZ. rewrite app_length. cbn. lia. }
      destruct valid; cbn [negb seg fst snd].
      2:{ cbn [map app]. rewrite <- Hl. apply IH; auto. }
      destruct (map_find h (jmap s)) as [idx|] eqn:F.
      2:{ rewrite (inv_find_none _ _ _ _ _ I F). cbn [map app]. rewrite <- Hl. apply IH; auto. }
      destruct (inv_find_some _ _ _ _ _ _ I F) as [Hne E].
      destruct (traverse_denotes pre (h, true) ps _ idx rem Hp E Hne Hrem) as [pg [res [T R]]].
      cbv zeta in T. rewrite T. destruct res as [[t|]|rem'].
      + destruct R as [R' [D [Eq L]]]. exists pg, (Some t). repeat split; try lia. exists R'. auto.
      + destruct R as [Eq L]. exists pg, None. repeat split; auto.
      + destruct R as [Eq [Hr' L]]. rewrite <- Hl.
        destruct (IH (pre ++ [(h, true)]) rem' Hp' Hr') as [pg' [ot [P [L' R']]]].
        rewrite P. exists (pg ++ pg'), ot. split; [reflexivity|]. rewrite app_length. split; [lia|].
        destruct ot as [t|].
        * destruct R' as [R'' [D [Eq' L'']]]. exists R''. split; auto. split; [|lia].
          rewrite <- Eq, Eq', app_assoc. reflexivity.
        * rewrite <- Eq, R'. reflexivity.
  Qed.

  Definition page_post (limit : Z) (R pg : list (Z * Z)) (ot : option token) : Prop :=
    lenZ pg <= limit /\
    match ot with
    | None => pg = R
    | Some t' => exists R', denotes t' R' /\ R = pg ++ R' /\ (length R' < length R)%nat
    end.

  Lemma continue_ok : forall i rem limit (pre0 : list (Z * Z)),
    0 <= i <= lenZ probes -> rem <> O -> (rem + length pre0 = Z.to_nat limit)%nat -> 1 <= limit ->
    exists pg ot,
      match slice_from probes i with
      | None => None
      | Some ps => match probe_loop s ps i (lenZ probes) rem with
                   | None => None
                   | Some (l, t) => Some (pre0 ++ l, t)
                   end
      end = Some (pg, ot) /\
      page_post limit (pre0 ++ spec_from ins (skipZ i probes) i) pg ot.
  Proof.
    intros i rem limit pre0 Hi Hrem Hsum Hlim.
    rewrite slice_from_ok by auto.
    destruct (split_at probes i Hi) as [Sp Sl].
    destruct (probe_loop_ok (skipZ i probes) (firstn (Z.to_nat i) probes) rem Sp Hrem) as [pg [ot [P [L R]]]].
    rewrite Sl in P, R. rewrite P. exists (pre0 ++ pg), ot. split; [reflexivity|].
    unfold page_post. split.
    - unfold lenZ. rewrite app_length. lia.
    - destruct ot as [t|].
      + destruct R as [R' [D [Eq L2]]]. exists R'. split; auto. split.
        * rewrite Eq, app_assoc. reflexivity.
        * rewrite Eq, !app_length. lia.
      + now rewrite R.
  Qed.

  (* one call on the chain path *)
  Lemma page_chain_ok : forall limit t R,
    lenZ (jmap s) <> lenZ (jnext s) -> 1 <= limit -> denotes t R ->
    exists pg ot, lookup_page s probes limit t = Some (pg, ot) /\ page_post limit R pg ot.
  Proof.
    intros limit t R Hpath Hlim D. unfold lookup_page.
    destruct (lenZ (jmap s) =? lenZ (jnext s)) eqn:EP; [apply Z.eqb_eq in EP; congruence|].
    assert (Hrem : Z.to_nat limit <> O) by lia.
    inversion D as [i Hi|i nx l Hi E]; subst.
    - destruct (continue_ok i (Z.to_nat limit) limit [] Hi Hrem) as [pg [ot [C P]]]; auto; try (cbn; lia).
      exists pg, ot. split; auto.
    - destruct (nx =? 0) eqn:Z0.
      + apply Z.eqb_eq in Z0. rewrite (encodes_nil_start _ _ _ E Z0). cbn [map app].
        destruct (continue_ok (i + 1) (Z.to_nat limit) limit []) as [pg [ot [C P]]]; auto; try (cbn; lia).
        exists pg, ot. split; auto.
      + apply Z.eqb_neq in Z0.
        destruct (lenZ probes <? 1) eqn:E1; [apply Z.ltb_lt in E1; lia|].
        assert (Hne : l <> []) by (intros ->; cbn in E; congruence).
        assert (Hi' : 0 <= i <= lenZ probes) by lia.
        destruct (split_at probes i Hi') as [Sp Sl].
        destruct (skipZ i probes) as [|p ps] eqn:Sk.
        { rewrite app_nil_r in Sp. rewrite <- Sp in Sl. lia. }
        destruct (traverse_denotes _ p ps l nx (Z.to_nat limit) Sp E Hne Hrem) as [pg [res [T Rr]]].
        cbv zeta in T. rewrite Sl in T, Rr. rewrite T.
        assert (Tail : skipZ (i + 1) probes = ps).
        { rewrite Sp at 1. rewrite <- Sl at 1. apply skipZ_succ_app. }
        rewrite Tail.
        destruct res as [[t|]|rem'].
        * destruct Rr as [R' [D' [Eq L]]]. exists pg, (Some t). split; auto. split.
          -- unfold lenZ. lia.
          -- exists R'. split; auto. split; auto. rewrite Eq, app_length. lia.
        * destruct Rr as [Eq L]. exists pg, None. split; auto. split; auto. unfold lenZ. lia.
        * destruct Rr as [Eq [Hr' L]].
          destruct (continue_ok (i + 1) rem' limit pg) as [pg' [ot [C P]]]; auto; try lia.
          rewrite Tail in P. exists pg', ot. split; auto. now rewrite <- Eq.
  Qed.

  Lemma run_chain : forall limit,
    lenZ (jmap s) <> lenZ (jnext s) -> 1 <= limit ->
    forall n R t, (length R <= n)%nat -> denotes t R ->
    exists pgs, paged_run s probes limit t pgs /\ concat pgs = R /\
                Forall (fun pg => lenZ pg <= limit) pgs.
  Proof.
    intros limit Hpath Hlim. induction n as [|n IH]; intros R t Hn D.
    - destruct (page_chain_ok limit t R Hpath Hlim D) as [pg [ot [P [L Q]]]].
      destruct ot as [t'|].
      + destruct Q as [R' [_ [_ Hlt]]]. lia.
      + exists [pg]. subst. repeat split; [now constructor|cbn; now rewrite app_nil_r|repeat constructor; auto].
    - destruct (page_chain_ok limit t R Hpath Hlim D) as [pg [ot [P [L Q]]]].
      destruct ot as [t'|].
      + destruct Q as [R' [D' [Eq Hlt]]].
        destruct (IH R' t') as [pgs [Run [Cc Fa]]]; auto; [lia|].
        exists (pg :: pgs). repeat split.
        * eapply run_more; eauto.
        * cbn [concat]. now rewrite Cc.
        * constructor; auto.
      + exists [pg]. subst. repeat split; [now constructor|cbn; now rewrite app_nil_r|repeat constructor; auto].
  Qed.
End Paged.

(* ================================================================ the unique fast path *)
Lemma hashes_nodup : forall cap ins s,
  Inv 0 cap ins s -> (length ins <= Z.to_nat cap)%nat -> lenZ (jmap s) = lenZ (jnext s) ->
  NoDup (map snd ins).
Proof.
  intros cap ins s I L E.
  apply NoDup_incl_NoDup with (l := map fst (jmap s)).
  - apply (inv_keys _ _ _ _ I).
  - rewrite !map_length. pose proof (inv_len _ _ _ _ I). unfold lenZ in *. lia.
  - intros h Hh. now apply (inv_keys_in _ _ _ _ I).
Qed.

Lemma rows_of_unique : forall ins, NoDup (map snd ins) -> forall h, (length (rows_of ins h) <= 1)%nat.
Proof.
  induction ins as [|[r h'] ins IH] using rev_ind; intros N h.
  - cbn. lia.
  - rewrite map_app in N. cbn [map snd] in N.
    pose proof (NoDup_remove_2 _ _ _ N) as Hn. rewrite app_nil_r in Hn.
    apply NoDup_app_l in N. rewrite rows_of_snoc. destruct (h' =? h) eqn:E.
    + apply Z.eqb_eq in E. subst h'. apply rows_of_nil_iff in Hn. rewrite Hn. cbn. lia.
    + auto.
Qed.

Lemma skipn_skipn' : forall {A} (b a : nat) (l : list A), skipn a (skipn b l) = skipn (b + a) l.
Proof.
  induction b; intros; cbn [skipn Nat.add]; auto.
  destruct l; cbn [skipn]; auto. now rewrite skipn_nil.
Qed.

Section Fast.
  Variable ins : list (Z * Z).
  Variable cap : Z.
  Variable s : jhm.
  Hypothesis I : Inv 0 cap ins s.
  Hypothesis U : forall h, (length (rows_of ins h) <= 1)%nat.
  Hypothesis Hpath : lenZ (jmap s) = lenZ (jnext s).
  Variable probes : list (Z * bool).

  Lemma fast_loop_ok : forall ps row,
    fast_loop s ps row = Some (spec_from ins ps row) /\ (length (spec_from ins ps row) <= length ps)%nat.
  Proof.
    induction ps as [|[h valid] ps IH]; intros row; cbn [fast_loop spec_from seg fst snd length].
    - split; auto.
    - destruct (IH (row + 1)) as [F L]. rewrite F.
      destruct valid; unfold seg; cbn [negb fst snd].
      2:{ cbn [map app]. split; auto. }
      destruct (map_find h (jmap s)) as [idx|] eqn:Fd.
      + destruct (inv_find_some _ _ _ _ _ _ I Fd) as [Hne E]. specialize (U h).
        destruct (rows_of ins h) as [|r [|r2 l]]; [congruence| |cbn [length] in U; lia].
        cbn [encodes] in E. destruct E as [-> [Hr _]].
        destruct (r + 1 <? 1) eqn:E1; [apply Z.ltb_lt in E1; lia|].
        replace (r + 1 - 1) with r by lia. cbn [map app length]. split; [reflexivity|lia].
      + rewrite (inv_find_none _ _ _ _ _ I Fd). cbn [map app]. split; auto.
  Qed.

  Lemma skipZ_length : forall i, 0 <= i <= lenZ probes -> lenZ (skipZ i probes) = lenZ probes - i.
  Proof. intros. unfold skipZ, lenZ in *. rewrite skipn_length. lia. Qed.

  Lemma run_fast : forall limit, 1 <= limit ->
    forall m i x, 0 <= i <= lenZ probes -> (Z.to_nat (lenZ probes - i) <= m)%nat ->
    exists pgs, paged_run s probes limit (i, x) pgs /\
                concat pgs = spec_from ins (skipZ i probes) i /\
                Forall (fun pg => lenZ pg <= limit) pgs.
  Proof.
    intros limit Hlim. induction m as [|m IH]; intros i x Hi Hm.
    - (* i = n *)
      assert (i = lenZ probes) by lia. subst i.
      exists [[]]. split; [|split].
      + apply run_last. unfold lookup_page. apply Z.eqb_eq in Hpath. rewrite Hpath. cbn [fst].
        rewrite Z.min_r by lia.
        destruct ((lenZ probes <? 0) || (lenZ probes <? lenZ probes)) eqn:B.
        { apply orb_true_iff in B. destruct B as [B|B]; apply Z.ltb_lt in B; lia. }
        rewrite Z.sub_diag. cbn [Z.to_nat firstn fast_loop]. now rewrite Z.eqb_refl.
      + cbn [concat app]. unfold skipZ, lenZ. rewrite Nat2Z.id, skipn_all. reflexivity.
      + repeat constructor. cbn. lia.
    - pose proof (skipZ_length i Hi) as Lx.
      set (X := skipZ i probes) in *.
      set (e := Z.min (i + limit) (lenZ probes)).
      assert (P : lookup_page s probes limit (i, x) =
                  Some (spec_from ins (firstn (Z.to_nat (e - i)) X) i,
                        if e =? lenZ probes then None else Some (e, None))).
      { unfold lookup_page. pose proof Hpath as Hp. apply Z.eqb_eq in Hp. rewrite Hp. cbn [fst]. fold e.
        destruct ((i <? 0) || (e <? i)) eqn:B.
        { apply orb_true_iff in B. destruct B as [B|B]; apply Z.ltb_lt in B; unfold e in *; lia. }
        fold (skipZ i probes). fold X.
        destruct (fast_loop_ok (firstn (Z.to_nat (e - i)) X) i) as [F _]. now rewrite F. }
      assert (Lpg : lenZ (spec_from ins (firstn (Z.to_nat (e - i)) X) i) <= limit).
      { destruct (fast_loop_ok (firstn (Z.to_nat (e - i)) X) i) as [_ L]. unfold lenZ.
        rewrite firstn_length in L. unfold e in *. lia. }
      destruct (e =? lenZ probes) eqn:Ee.
      + apply Z.eqb_eq in Ee. exists [spec_from ins (firstn (Z.to_nat (e - i)) X) i].
        split; [|split].
        * now apply run_last.
        * cbn [concat]. rewrite app_nil_r. rewrite firstn_all2; auto. unfold lenZ in *. lia.
        * repeat constructor. exact Lpg.
      + apply Z.eqb_neq in Ee. assert (He : e = i + limit) by (unfold e in *; lia).
        destruct (IH e None) as [pgs [Run [Cc Fa]]]; [lia|lia|].
        exists (spec_from ins (firstn (Z.to_nat (e - i)) X) i :: pgs). split; [|split].
        * eapply run_more; eauto.
        * cbn [concat]. rewrite Cc.
          rewrite <- (firstn_skipn (Z.to_nat (e - i)) X) at 2. rewrite spec_from_app.
          f_equal. f_equal.
          -- unfold X, skipZ. rewrite skipn_skipn'. f_equal. lia.
          -- unfold lenZ in *. rewrite firstn_length. lia.
        * constructor; auto.
  Qed.
End Fast.

(* ================================================================ the property theorems *)
Theorem rows_of_exact : forall ins h,
  (forall r, In r (rows_of ins h) <-> In (r, h) ins) /\
  (NoDup (map fst ins) -> NoDup (rows_of ins h)).
Proof. intros. split; [intros; apply in_rows_of|apply rows_of_NoDup]. Qed.

Theorem rows_of_order : forall ins r h h',
  rows_of [] h' = [] /\
  rows_of (ins ++ [(r, h)]) h' = if h =? h' then r :: rows_of ins h' else rows_of ins h'.
Proof. intros. split; [reflexivity|apply rows_of_snoc]. Qed.

Theorem lookup_exact : forall W d cap bs probes,
  0 <= d <= W -> 0 <= cap -> wf_ins W d cap (concat bs) ->
  exists s, build W d cap bs = Some s /\
    get_matched_indices W s probes (Some d) = Some (matched_spec (concat bs) d probes) /\
    (d = 0 -> get_matched_indices W s probes None = Some (matched_spec (concat bs) 0 probes)).
Proof.
  intros W d cap bs probes Hd Hc Hwf.
  destruct (build_inv W d cap bs) as [s [B I]]; auto; [lia|].
  exists s. split; auto. split.
  - eapply matched_ok; eauto.
  - intros ->. eapply matched_ok; eauto.
Qed.

Theorem paging_concat : forall W cap bs probes limit,
  0 <= cap -> wf_ins W 0 cap (concat bs) -> 1 <= limit ->
  exists s pages, build W 0 cap bs = Some s /\
    paged_run s probes limit (0, None) pages /\
    concat pages = lookup_spec (concat bs) probes /\
    Forall (fun pg => lenZ pg <= limit) pages.
Proof.
  intros W cap bs probes limit Hc Hwf Hlim.
  destruct (build_inv W 0 cap bs) as [s [B I]]; auto; [lia|].
  exists s. assert (H0 : 0 <= 0 <= lenZ probes) by (unfold lenZ; lia).
  destruct (Z.eq_dec (lenZ (jmap s)) (lenZ (jnext s))) as [E|E].
  - pose proof (rows_of_unique _ (hashes_nodup _ _ _ I (wf_ins_length _ _ _ _ Hc Hwf) E)) as U.
    destruct (run_fast (concat bs) cap s I U E probes limit Hlim _ 0 None H0 (le_n _)) as [pgs [R [C F]]].
    exists pgs. repeat split; auto.
  - destruct (run_chain (concat bs) cap s I probes limit E Hlim _ _ (0, None) (le_n _)
                (den_none _ _ _ 0 H0)) as [pgs [R [C F]]].
    exists pgs. repeat split; auto.
Qed.

Theorem contains_iff_lookup_nonempty : forall W d cap bs hs,
  0 <= d -> 0 <= cap -> wf_ins W d cap (concat bs) ->
  exists s, build W d cap bs = Some s /\
    contain_hashes s hs = map (fun h => nonempty (rows_of (concat bs) h)) hs /\
    jlen s = lenZ (nodup Z.eq_dec (map snd (concat bs))).
Proof.
  intros. destruct (build_inv W d cap bs) as [s [B I]]; auto.
  exists s. split; auto. split; [eapply contains_ok|eapply len_ok]; eauto.
Qed.

(* paged_run is a function of the start offset: the pages are THE pages the loop produces *)
Lemma paged_run_det : forall s probes limit t p1, paged_run s probes limit t p1 ->
  forall p2, paged_run s probes limit t p2 -> p1 = p2.
Proof.
  induction 1; intros p2 R2; inversion R2; subst; try congruence.
  match goal with
  | A : lookup_page _ _ _ _ = Some (pg, Some t'), B : lookup_page _ _ _ _ = Some (?q, Some ?u) |- _ =>
      rewrite A in B; inversion B; subst
  end.
  f_equal. auto.
Qed.
