(* C25 -- proofs about Model/WriteDemux.v *)
From Coq Require Import Lia Permutation.
From DF Require Import Base.Prelude Model.ListingPrune Model.CliSplit Model.WriteDemux
  Proofs.ListingPruneProofs.
Open Scope Z_scope.

(* ------------------------------------------------------------------ keys *)
Lemma key_eqb_eq : forall a b : key, key_eqb a b = true <-> a = b.
Proof.
  unfold key_eqb.
  induction a as [|x a IH]; destruct b as [|y b]; cbn [list_eqb]; split; intro H;
    try reflexivity; try discriminate.
  - apply andb_true_iff in H. destruct H as [H1 H2].
    apply text_eqb_eq in H1. apply IH in H2. subst. reflexivity.
  - inversion H; subst. apply andb_true_iff. split; [apply text_eqb_refl|apply IH; reflexivity].
Qed.
Lemma key_eqb_refl : forall a, key_eqb a a = true.
Proof. intro a. apply key_eqb_eq. reflexivity. Qed.
Lemma key_eqb_neq : forall a b, key_eqb a b = false <-> a <> b.
Proof.
  intros a b. split.
  - intros H E. apply key_eqb_eq in E. rewrite E in H. discriminate.
  - intro H. destruct (key_eqb a b) eqn:E; [apply key_eqb_eq in E; contradiction|reflexivity].
Qed.

Section DemuxProofs.
Context {R : Type}.
Notation files := (@files R).

Lemma content_append : forall (fs : files) k rows k',
  content (append_to fs k rows) k' = if key_eqb k k' then content fs k' ++ rows else content fs k'.
Proof.
  induction fs as [|[k0 rs] fs IH]; intros k rows k'; cbn [append_to content].
  - destruct (key_eqb k k'); reflexivity.
  - destruct (key_eqb k0 k) eqn:E0; cbn [content].
    + apply key_eqb_eq in E0. subst k0.
      destruct (key_eqb k k'); reflexivity.
    + destruct (key_eqb k0 k') eqn:E1.
      * apply key_eqb_eq in E1. subst k0. rewrite key_eqb_neq in E0.
        assert (E : key_eqb k k' = false) by (apply key_eqb_neq; congruence).
        rewrite E. reflexivity.
      * apply IH.
Qed.

Lemma keys_append : forall (fs : files) k rows,
  map fst (append_to fs k rows) = if existsb (key_eqb k) (map fst fs) then map fst fs else map fst fs ++ [k].
Proof.
  induction fs as [|[k0 rs] fs IH]; intros k rows; cbn [append_to map fst existsb app]; [reflexivity|].
  destruct (key_eqb k0 k) eqn:E0.
  - apply key_eqb_eq in E0. subst k0. rewrite key_eqb_refl. reflexivity.
  - assert (E : key_eqb k k0 = false) by (apply key_eqb_neq; apply key_eqb_neq in E0; congruence).
    rewrite E. cbn [orb map fst]. rewrite IH. destruct (existsb (key_eqb k) (map fst fs)); reflexivity.
Qed.

Lemma existsb_key_in : forall k (l : list key), existsb (key_eqb k) l = true <-> In k l.
Proof.
  intros k l. rewrite existsb_exists. split.
  - intros [x [Hi He]]. apply key_eqb_eq in He. subst. exact Hi.
  - intro H. exists k. split; [exact H|apply key_eqb_refl].
Qed.

Lemma nodup_append : forall (fs : files) k rows, NoDup (map fst fs) -> NoDup (map fst (append_to fs k rows)).
Proof.
  intros fs k rows H. rewrite keys_append.
  destruct (existsb (key_eqb k) (map fst fs)) eqn:E; [exact H|].
  assert (Hn : ~ In k (map fst fs)).
  { intro Hi. apply existsb_key_in in Hi. rewrite Hi in E. discriminate. }
  apply NoDup_rev in H. rewrite <- (rev_involutive (map fst fs ++ [k])). apply NoDup_rev.
  rewrite rev_app_distr. cbn [rev app]. constructor; [|exact H].
  rewrite <- in_rev. exact Hn.
Qed.

Lemma content_notin : forall (fs : files) k, ~ In k (map fst fs) -> content fs k = [].
Proof.
  induction fs as [|[k0 rs] fs IH]; intros k H; cbn [content]; [reflexivity|].
  cbn [map fst In] in H.
  destruct (key_eqb k0 k) eqn:E; [apply key_eqb_eq in E; subst; exfalso; apply H; left; reflexivity|].
  apply IH. intro Hi. apply H. right. exact Hi.
Qed.

Lemma content_in : forall (fs : files) k rows, NoDup (map fst fs) -> In (k, rows) fs -> content fs k = rows.
Proof.
  induction fs as [|[k0 rs] fs IH]; intros k rows Hn Hi; [destruct Hi|].
  cbn [map fst] in Hn. inversion Hn as [|? ? Hnot Hn']; subst.
  cbn [content]. destruct Hi as [Hi|Hi].
  - inversion Hi; subst. rewrite key_eqb_refl. reflexivity.
  - destruct (key_eqb k0 k) eqn:E.
    + apply key_eqb_eq in E. subst k0. exfalso. apply Hnot.
      change k with (fst (k, rows)). apply in_map. exact Hi.
    + apply IH; assumption.
Qed.

Lemma content_nonempty_in : forall (fs : files) k, content fs k <> [] -> In (k, content fs k) fs.
Proof.
  induction fs as [|[k0 rs] fs IH]; intros k H; cbn [content] in *; [contradiction|].
  destruct (key_eqb k0 k) eqn:E.
  - apply key_eqb_eq in E. subst. left. reflexivity.
  - right. apply IH. exact H.
Qed.

Definition all_nonempty (fs : files) : Prop := Forall (fun f => snd f <> []) fs.

Lemma nonempty_append : forall (fs : files) k rows, rows <> [] -> all_nonempty fs -> all_nonempty (append_to fs k rows).
Proof.
  unfold all_nonempty.
  induction fs as [|[k0 rs] fs IH]; intros k rows Hr H; cbn [append_to].
  - constructor; [exact Hr|constructor].
  - inversion H as [|? ? H1 H2]; subst. destruct (key_eqb k0 k).
    + constructor; [|exact H2]. cbn [snd] in *. intro E. apply app_eq_nil in E. destruct E. contradiction.
    + constructor; [exact H1|apply IH; assumption].
Qed.

Lemma flatten_append : forall (fs : files) k rows,
  Permutation (flatten (append_to fs k rows)) (flatten fs ++ map (fun r => (k, r)) rows).
Proof.
  unfold flatten.
  induction fs as [|[k0 rs] fs IH]; intros k rows; cbn [append_to flat_map fst snd].
  - rewrite app_nil_r. apply Permutation_refl.
  - destruct (key_eqb k0 k) eqn:E; cbn [flat_map fst snd].
    + apply key_eqb_eq in E. subst k0. rewrite map_app, <- !app_assoc.
      apply Permutation_app_head. apply Permutation_app_comm.
    + rewrite <- app_assoc. apply Permutation_app_head. apply IH.
Qed.

(* ---- take_map *)
Lemma rows_of_app : forall k (a b : list (key * R)), rows_of k (a ++ b) = rows_of k a ++ rows_of k b.
Proof. intros. unfold rows_of. rewrite filter_app, map_app. reflexivity. Qed.

Lemma take_fold_content : forall (batch : list (key * R)) (acc : files) k,
  content (fold_left (fun acc kr => append_to acc (fst kr) [snd kr]) batch acc) k = content acc k ++ rows_of k batch.
Proof.
  induction batch as [|[k1 r1] batch IH]; intros acc k; cbn [fold_left].
  - unfold rows_of. cbn. rewrite app_nil_r. reflexivity.
  - rewrite IH, content_append. cbn [fst snd].
    change ((k1, r1) :: batch) with ([(k1, r1)] ++ batch). rewrite rows_of_app.
    unfold rows_of at 2. cbn [filter fst map snd].
    destruct (key_eqb k1 k); cbn [map snd app]; rewrite <- ?app_assoc; reflexivity.
Qed.

Lemma take_fold_nodup : forall (batch : list (key * R)) (acc : files),
  NoDup (map fst acc) -> NoDup (map fst (fold_left (fun acc kr => append_to acc (fst kr) [snd kr]) batch acc)).
Proof.
  induction batch as [|kr batch IH]; intros acc H; cbn [fold_left]; [exact H|].
  apply IH. apply nodup_append. exact H.
Qed.

Lemma take_fold_nonempty : forall (batch : list (key * R)) (acc : files),
  all_nonempty acc -> all_nonempty (fold_left (fun acc kr => append_to acc (fst kr) [snd kr]) batch acc).
Proof.
  induction batch as [|kr batch IH]; intros acc H; cbn [fold_left]; [exact H|].
  apply IH. apply nonempty_append; [discriminate|exact H].
Qed.

Lemma take_fold_perm : forall (batch : list (key * R)) (acc : files),
  Permutation (flatten (fold_left (fun acc kr => append_to acc (fst kr) [snd kr]) batch acc)) (flatten acc ++ batch).
Proof.
  induction batch as [|[k1 r1] batch IH]; intros acc; cbn [fold_left].
  - rewrite app_nil_r. apply Permutation_refl.
  - eapply Permutation_trans; [apply IH|]. cbn [fst snd].
    eapply Permutation_trans; [apply Permutation_app_tail; apply flatten_append|].
    cbn [map]. rewrite <- app_assoc. apply Permutation_refl.
Qed.

(* ---- merging the groups of a batch into the open files *)
Lemma merge_content : forall (g fs : files) k, NoDup (map fst g) ->
  content (fold_left (fun acc g => append_to acc (fst g) (snd g)) g fs) k = content fs k ++ content g k.
Proof.
  induction g as [|[k1 r1] g IH]; intros fs k Hn; cbn [fold_left].
  - cbn [content]. rewrite app_nil_r. reflexivity.
  - cbn [map fst] in Hn. inversion Hn as [|? ? Hnot Hn']; subst.
    rewrite (IH _ _ Hn'), content_append. cbn [fst snd content].
    destruct (key_eqb k1 k) eqn:E.
    + apply key_eqb_eq in E. subst k1. rewrite (content_notin g k Hnot), app_nil_r. reflexivity.
    + reflexivity.
Qed.

Lemma merge_nodup : forall (g fs : files), NoDup (map fst fs) ->
  NoDup (map fst (fold_left (fun acc g => append_to acc (fst g) (snd g)) g fs)).
Proof.
  induction g as [|x g IH]; intros fs H; cbn [fold_left]; [exact H|]. apply IH. apply nodup_append. exact H.
Qed.

Lemma merge_nonempty : forall (g fs : files), all_nonempty g -> all_nonempty fs ->
  all_nonempty (fold_left (fun acc g => append_to acc (fst g) (snd g)) g fs).
Proof.
  induction g as [|x g IH]; intros fs Hg H; cbn [fold_left]; [exact H|].
  inversion Hg as [|? ? H1 H2]; subst. apply IH; [exact H2|]. apply nonempty_append; assumption.
Qed.

Lemma merge_perm : forall (g fs : files),
  Permutation (flatten (fold_left (fun acc g => append_to acc (fst g) (snd g)) g fs)) (flatten fs ++ flatten g).
Proof.
  induction g as [|[k1 r1] g IH]; intros fs; cbn [fold_left].
  - unfold flatten at 3. cbn [flat_map]. rewrite app_nil_r. apply Permutation_refl.
  - eapply Permutation_trans; [apply IH|]. cbn [fst snd].
    eapply Permutation_trans; [apply Permutation_app_tail; apply flatten_append|].
    unfold flatten at 3. cbn [flat_map fst snd]. rewrite <- app_assoc. apply Permutation_refl.
Qed.

(* ---- one batch, all batches *)
Lemma demux_batch_content : forall (fs : files) batch k,
  content (demux_batch fs batch) k = content fs k ++ rows_of k batch.
Proof.
  intros. unfold demux_batch. rewrite merge_content.
  - unfold take_map. rewrite take_fold_content. reflexivity.
  - unfold take_map. apply take_fold_nodup. constructor.
Qed.

Lemma demux_batch_perm : forall (fs : files) batch,
  Permutation (flatten (demux_batch fs batch)) (flatten fs ++ batch).
Proof.
  intros. unfold demux_batch. eapply Permutation_trans; [apply merge_perm|].
  apply Permutation_app_head. unfold take_map.
  eapply Permutation_trans; [apply take_fold_perm|]. apply Permutation_refl.
Qed.

Lemma demux_fold : forall (batches : list (list (key * R))) (fs : files),
  NoDup (map fst fs) -> all_nonempty fs ->
  let out := fold_left demux_batch batches fs in
  NoDup (map fst out) /\ all_nonempty out /\
  (forall k, content out k = content fs k ++ rows_of k (concat batches)) /\
  Permutation (flatten out) (flatten fs ++ concat batches).
Proof.
  induction batches as [|b batches IH]; intros fs Hn He; cbn [fold_left concat].
  - repeat split; try assumption.
    + intro k. unfold rows_of. cbn. rewrite app_nil_r. reflexivity.
    + rewrite app_nil_r. apply Permutation_refl.
  - assert (Hn' : NoDup (map fst (demux_batch fs b))) by (apply merge_nodup; exact Hn).
    assert (He' : all_nonempty (demux_batch fs b)).
    { apply merge_nonempty; [|exact He]. apply take_fold_nonempty. constructor. }
    destruct (IH _ Hn' He') as [A [B [C D]]]. repeat split; try assumption.
    + intro k. rewrite C, demux_batch_content, rows_of_app, app_assoc. reflexivity.
    + eapply Permutation_trans; [exact D|]. rewrite app_assoc. apply Permutation_app_tail.
      apply demux_batch_perm.
Qed.

(* the demultiplexer partitions the input *)
Lemma demux_partition_lemma : forall (batches : list (list (key * R))),
  let fs := demux batches in
  NoDup (map fst fs)
  /\ (forall k rows, In (k, rows) fs -> rows <> [] /\ rows = rows_of k (concat batches))
  /\ (forall k r, In (k, r) (concat batches) -> exists rows, In (k, rows) fs /\ In r rows)
  /\ Permutation (flatten fs) (concat batches).
Proof.
  intro batches. cbv zeta. unfold demux.
  destruct (demux_fold batches [] (NoDup_nil _) (Forall_nil _)) as [A [B [C D]]].
  split; [exact A|]. split; [|split].
  - intros k rows Hi. split.
    + unfold all_nonempty in B. rewrite Forall_forall in B. exact (B _ Hi).
    + rewrite <- (content_in _ _ _ A Hi), C. reflexivity.
  - intros k r Hi.
    assert (Hr : In r (rows_of k (concat batches))).
    { unfold rows_of. change r with (snd (k, r)). apply in_map. apply filter_In.
      split; [exact Hi|]. cbn [fst]. apply key_eqb_refl. }
    exists (content (fold_left demux_batch batches []) k). split.
    + apply content_nonempty_in. rewrite C. cbn [content app]. intro E. rewrite E in Hr. destruct Hr.
    + rewrite C. exact Hr.
  - exact D.
Qed.
End DemuxProofs.

(* ------------------------------------------------------------------ path round trip *)
Definition byte (b : Z) : Prop := 0 <= b < 256.
Definition name_clean (p : text) : Prop := ~ In 61 p /\ os_encode p = p.
Definition utf8_text (v : text) : Prop := Forall byte v /\ utf8_valid v = true.

Lemma os_needs_enc_37 : forall b, os_needs_enc b = false -> b <> 37.
Proof. intros b H E. subst b. vm_compute in H. discriminate. Qed.

Lemma os_decode_encode : forall v, Forall byte v -> pct_decode (os_encode v) = v.
Proof.
  induction v as [|b r IH]; intro H; cbn [os_encode]; [reflexivity|].
  inversion H as [|? ? Hb Hr]; subst. unfold byte in Hb.
  destruct (os_needs_enc b) eqn:En.
  - destruct (nibbles b Hb) as [H1 [H2 H3]].
    rewrite (pct_decode_escape _ _ _ _ _ (unhex_hexd _ H1) (unhex_hexd _ H2)).
    rewrite H3, (IH Hr). reflexivity.
  - rewrite (pct_decode_plain _ _ (os_needs_enc_37 _ En)), (IH Hr). reflexivity.
Qed.

Lemma os_encode_app : forall a b, os_encode (a ++ b) = os_encode a ++ os_encode b.
Proof.
  induction a as [|x a IH]; intro b; cbn [app os_encode]; [reflexivity|].
  rewrite IH. destruct (os_needs_enc x); reflexivity.
Qed.

Lemma decode8_encode : forall v, utf8_text v -> decode_val8 (os_encode v) = v.
Proof.
  intros v [Hb Hu]. unfold decode_val8. rewrite (os_decode_encode v Hb), Hu. reflexivity.
Qed.

Lemma os_part_seg : forall p v, name_clean p -> os_part (p ++ 61 :: v) = p ++ 61 :: os_encode v.
Proof.
  intros p v [Hp He]. unfold os_part.
  assert (N1 : text_eqb (p ++ 61 :: v) [46] = false).
  { apply text_eqb_neq. intro E. assert (Hi : In 61 (p ++ 61 :: v)) by (apply in_or_app; right; left; reflexivity).
    rewrite E in Hi. cbn in Hi. destruct Hi as [Hi|[]]. discriminate. }
  assert (N2 : text_eqb (p ++ 61 :: v) [46; 46] = false).
  { apply text_eqb_neq. intro E. assert (Hi : In 61 (p ++ 61 :: v)) by (apply in_or_app; right; left; reflexivity).
    rewrite E in Hi. cbn in Hi. destruct Hi as [Hi|[Hi|[]]]; discriminate. }
  rewrite N1, N2, os_encode_app. cbn [os_encode]. rewrite He.
  replace (os_needs_enc 61) with false by (vm_compute; reflexivity). reflexivity.
Qed.

Lemma hive_path_roundtrip : forall pby k fname,
  length k = length pby -> Forall name_clean pby -> Forall utf8_text k ->
  parse_dirs8 pby (hive_dirs pby k ++ [fname]) = Some k.
Proof.
  induction pby as [|p pr IH]; intros k fname Hl Hc Hv.
  - destruct k; [reflexivity|discriminate].
  - destruct k as [|v vr]; [discriminate|].
    cbn [length] in Hl. inversion Hc as [|? ? Hp Hcr]; subst. inversion Hv as [|? ? Hv1 Hvr]; subst.
    cbn [hive_dirs app parse_dirs8]. rewrite (os_part_seg p v Hp).
    destruct Hp as [Hp1 Hp2].
    rewrite (split_eq_build p (os_encode v) Hp1), text_eqb_refl.
    rewrite (IH vr fname); [|lia|exact Hcr|exact Hvr].
    rewrite (decode8_encode v Hv1). reflexivity.
Qed.

Lemma key_of_length : forall s pby r k, key_of s pby r = Some k -> length k = length pby.
Proof.
  induction pby as [|p ps IH]; intros r k H; cbn [key_of] in H.
  - inversion H. reflexivity.
  - destruct (lookup s r p) as [[t c]|]; [|discriminate].
    destruct (render t c); [|discriminate]. destruct (key_of s ps r) eqn:E; [|discriminate].
    inversion H; subst. cbn [length]. rewrite (IH _ _ E). reflexivity.
Qed.

Lemma keyed_spec : forall s pby keep batch kb, keyed s pby keep batch = Some kb ->
  Forall2 (fun r kr => key_of s pby r = Some (fst kr) /\ snd kr = if keep then r else drop_cols s pby r) batch kb.
Proof.
  induction batch as [|r rs IH]; intros kb H; cbn [keyed] in H.
  - inversion H. constructor.
  - destruct (key_of s pby r) eqn:E1; [|discriminate]. destruct (keyed s pby keep rs) eqn:E2; [|discriminate].
    inversion H; subst. constructor; [split; [exact E1|reflexivity]|apply IH; reflexivity].
Qed.

Lemma keyed_lengths : forall s pby keep batch kb, keyed s pby keep batch = Some kb ->
  Forall (fun kr => length (fst kr) = length pby) kb.
Proof.
  intros s pby keep batch kb H. apply keyed_spec in H. induction H as [|r kr rs kb [H1 H2] _ IH]; constructor.
  - apply (key_of_length _ _ _ _ H1).
  - exact IH.
Qed.

Lemma keyed_all_lengths : forall s pby keep bs kbs, keyed_all s pby keep bs = Some kbs ->
  Forall (fun kr => length (fst kr) = length pby) (concat kbs).
Proof.
  induction bs as [|b bs IH]; intros kbs H; cbn [keyed_all] in H.
  - inversion H. constructor.
  - destruct (keyed s pby keep b) eqn:E1; [|discriminate]. destruct (keyed_all s pby keep bs) eqn:E2; [|discriminate].
    inversion H; subst. cbn [concat]. apply Forall_app. split; [apply (keyed_lengths _ _ _ _ _ E1)|apply IH; reflexivity].
Qed.

(* reading every written file back *)
Fixpoint read_all (pby : list text) (fname : text) (fs : list (list text * list row)) : option (list (row * list text)) :=
  match fs with
  | [] => Some []
  | f :: r => match read_file pby fname f, read_all pby fname r with
              | Some a, Some b => Some (a ++ b)
              | _, _ => None
              end
  end.

Lemma read_all_files : forall pby fname (fs : @files row),
  Forall name_clean pby ->
  Forall (fun f => length (fst f) = length pby /\ Forall utf8_text (fst f)) fs ->
  read_all pby fname (map (fun f => (hive_dirs pby (fst f), snd f)) fs)
  = Some (map (fun kr => (snd kr, fst kr)) (flatten fs)).
Proof.
  intros pby fname fs Hc. induction fs as [|[k rows] fs IH]; intro H; cbn [map read_all]; [reflexivity|].
  inversion H as [|? ? [H1 H2] H3]; subst. cbn [fst snd] in *.
  unfold read_file at 1. cbn [fst snd]. rewrite (hive_path_roundtrip pby k fname H1 Hc H2).
  rewrite (IH H3). unfold flatten. cbn [flat_map fst snd]. rewrite map_app, map_map. cbn [fst snd]. reflexivity.
Qed.

Lemma hive_readback : forall s pby keep bs kbs fname,
  keyed_all s pby keep bs = Some kbs ->
  Forall name_clean pby ->
  Forall (fun kr => Forall utf8_text (fst kr)) (concat kbs) ->
  exists fs rb, hive_write s pby keep bs = Some fs
    /\ read_all pby fname fs = Some rb
    /\ Permutation rb (map (fun kr => (snd kr, fst kr)) (concat kbs)).
Proof.
  intros s pby keep bs kbs fname Hk Hc Hu.
  unfold hive_write. rewrite Hk.
  destruct (demux_partition_lemma kbs) as [A [B [C D]]].
  eexists. eexists. split; [reflexivity|]. split.
  - apply read_all_files; [exact Hc|].
    rewrite Forall_forall. intros [k rows] Hi. cbn [fst].
    destruct (B k rows Hi) as [Hne Hrows].
    destruct rows as [|r0 rows']; [contradiction|].
    assert (Hin : In (k, r0) (concat kbs)).
    { assert (Hr : In r0 (rows_of k (concat kbs))) by (rewrite <- Hrows; left; reflexivity).
      unfold rows_of in Hr. apply in_map_iff in Hr. destruct Hr as [[k' r'] [E1 E2]]. cbn [snd] in E1. subst r'.
      apply filter_In in E2. destruct E2 as [E2 E3]. cbn [fst] in E3. apply key_eqb_eq in E3. subst k'. exact E2. }
    pose proof (keyed_all_lengths _ _ _ _ _ Hk) as HL. rewrite Forall_forall in HL, Hu.
    split; [exact (HL _ Hin)|exact (Hu _ Hin)].
  - apply Permutation_map. exact D.
Qed.

(* ------------------------------------------------------------------ refutations *)
(* a NULL partition value and the empty string (0 for integers) get the same key: the row cannot be told
   apart after the write *)
Definition wn_schema : schema := [(t_id, TyInt); ([112], TyStr)].
Lemma null_key_conflated :
  key_of wn_schema [[112]] [CInt 0; CNull] = key_of wn_schema [[112]] [CInt 0; CStr []]
  /\ key_of [(t_id, TyInt); ([112], TyInt)] [[112]] [CInt 0; CNull] = key_of [(t_id, TyInt); ([112], TyInt)] [[112]] [CInt 0; CInt 0].
Proof. split; vm_compute; reflexivity. Qed.

(* a partition column whose NAME contains a byte that PathPart encodes (here p + U+00E9): the reader
   compares the raw directory text with the column name and ignores the file *)
Lemma encoded_name_lost :
  parse_dirs8 [[112; 195; 169]] (hive_dirs [[112; 195; 169]] [[97]] ++ [[102]]) = None.
Proof. vm_compute. reflexivity. Qed.

(* ------------------------------------------------------------------ row-count demultiplexer *)
Section RowCountProofs.
Context {B : Type}.
Variable sz : B -> Z.
Notation rc_state := (@rc_state B).

Definition payload (st : rc_state) : list B := concat (map snd (rc_files st)).

Lemma nth_split : forall (l : list (@slot B)) i x, nth_error l i = Some x -> l = firstn i l ++ x :: skipn (S i) l.
Proof.
  induction l as [|y l IH]; intros i x H; destruct i; cbn in H; try discriminate.
  - inversion H; subst. reflexivity.
  - cbn [firstn skipn app]. f_equal. apply IH. exact H.
Qed.

Definition spay (l : list (@slot B)) : list B := concat (map snd (map (fun s : @slot B => (fst (fst s), snd s)) l)).
Lemma spay_app : forall a b, spay (a ++ b) = spay a ++ spay b.
Proof. intros. unfold spay. rewrite !map_app, concat_app. reflexivity. Qed.
Lemma spay_cons : forall i c bs l, spay ((i, c, bs) :: l) = bs ++ spay l.
Proof. reflexivity. Qed.

Lemma payload_eq : forall st, payload st = concat (map snd (rc_closed st)) ++ spay (rc_slots st).
Proof. intro st. unfold payload, rc_files, spay. rewrite map_app, concat_app. reflexivity. Qed.

Lemma send_perm : forall m st b st', rc_send sz m st b = Some st' -> Permutation (payload st') (payload st ++ [b]).
Proof.
  intros m st b st' H. unfold rc_send in H.
  destruct (nth_error (rc_slots st) (rc_next st)) as [[[idx cnt] bs]|] eqn:E; [|discriminate].
  inversion H; subst; clear H. rewrite !payload_eq. cbn [rc_slots rc_closed].
  rewrite (nth_split _ _ _ E) at 2. unfold set_nth. rewrite !spay_app, !spay_cons.
  rewrite <- !app_assoc. apply Permutation_app_head. apply Permutation_app_head.
  apply Permutation_app_head. apply Permutation_app_comm.
Qed.

Lemma step_perm : forall m maxr st b st', rc_step sz m maxr st b = Some st' -> Permutation (payload st') (payload st ++ [b]).
Proof.
  intros m maxr st b st' H. unfold rc_step in H.
  destruct (Nat.ltb (length (rc_slots st)) m).
  - apply send_perm in H. eapply Permutation_trans; [exact H|]. apply Permutation_app_tail.
    rewrite !payload_eq. cbn [rc_slots rc_closed]. rewrite spay_app. unfold spay at 2. cbn. rewrite app_nil_r.
    apply Permutation_refl.
  - destruct (nth_error (rc_slots st) (rc_next st)) as [[[idx cnt] bs]|] eqn:E; [|discriminate].
    destruct (maxr <=? cnt).
    + apply send_perm in H. eapply Permutation_trans; [exact H|]. apply Permutation_app_tail.
      rewrite !payload_eq. cbn [rc_slots rc_closed]. rewrite map_app, concat_app. cbn [map snd concat]. rewrite app_nil_r.
      rewrite (nth_split _ _ _ E) at 2. unfold set_nth. rewrite !spay_app, !spay_cons. cbn [app].
      rewrite <- !app_assoc. apply Permutation_app_head.
      rewrite !app_assoc. apply Permutation_app_tail. apply Permutation_app_comm.
    + apply send_perm in H. exact H.
Qed.

(* every batch goes to exactly one file: the files together hold a permutation of the input batches *)
Lemma run_perm : forall m maxr bs st st', rc_run sz m maxr st bs = Some st' -> Permutation (payload st') (payload st ++ bs).
Proof.
  induction bs as [|b bs IH]; intros st st' H; cbn [rc_run] in H.
  - inversion H; subst. rewrite app_nil_r. apply Permutation_refl.
  - destruct (rc_step sz m maxr st b) as [st1|] eqn:E; [|discriminate].
    eapply Permutation_trans; [apply (IH _ _ H)|].
    change (b :: bs) with ([b] ++ bs). rewrite app_assoc. apply Permutation_app_tail. apply (step_perm _ _ _ _ _ E).
Qed.

(* one stream at a time (minimum_parallel_files = 1): files in creation order, concatenated, are the input *)
Definition seq_inv (st : rc_state) : Prop := (length (rc_slots st) <= 1)%nat /\ rc_next st = O.

Lemma send_seq : forall st b st', seq_inv st -> rc_send sz 1 st b = Some st' -> seq_inv st' /\ payload st' = payload st ++ [b].
Proof.
  intros st b st' [Hl Hn] H. unfold rc_send in H. rewrite Hn in H.
  destruct (rc_slots st) as [|[[idx cnt] bs] [|y l]] eqn:Es; cbn [nth_error] in H; try discriminate.
  - inversion H; subst; clear H. split.
    + split; reflexivity.
    + rewrite !payload_eq. cbn [rc_slots rc_closed]. rewrite Es. unfold set_nth. cbn [firstn skipn app].
      rewrite !spay_cons. unfold spay. cbn. rewrite !app_nil_r, app_assoc. reflexivity.
  - cbn [length] in Hl. lia.
Qed.

Lemma step_seq : forall maxr st b st', seq_inv st -> rc_step sz 1 maxr st b = Some st' -> seq_inv st' /\ payload st' = payload st ++ [b].
Proof.
  intros maxr st b st' [Hl Hn] H. unfold rc_step in H.
  destruct (rc_slots st) as [|[[idx cnt] bs] [|y l]] eqn:Es; cbn [length] in *; try lia.
  - cbn [Nat.ltb Nat.leb] in H.
    apply send_seq in H; [|split; [cbn; lia|exact Hn]].
    destruct H as [A Bq]. split; [exact A|]. rewrite Bq. f_equal.
    rewrite !payload_eq. cbn [rc_slots rc_closed]. rewrite Es. reflexivity.
  - cbn [Nat.ltb Nat.leb] in H. rewrite Hn in H. cbn [nth_error] in H.
    destruct (maxr <=? cnt).
    + apply send_seq in H; [|split; [cbn; lia|reflexivity]].
      destruct H as [A Bq]. split; [exact A|]. rewrite Bq. f_equal.
      rewrite !payload_eq. cbn [rc_slots rc_closed]. rewrite Es. unfold set_nth. cbn [firstn skipn app].
      rewrite map_app, concat_app. unfold spay. cbn. rewrite !app_nil_r. reflexivity.
    + apply send_seq in H; [|split; [rewrite Es; cbn; lia|exact Hn]]. exact H.
Qed.

Lemma run_seq : forall maxr bs st st', seq_inv st -> rc_run sz 1 maxr st bs = Some st' -> payload st' = payload st ++ bs.
Proof.
  induction bs as [|b bs IH]; intros st st' Hi H; cbn [rc_run] in H.
  - inversion H; subst. rewrite app_nil_r. reflexivity.
  - destruct (rc_step sz 1 maxr st b) as [st1|] eqn:E; [|discriminate].
    destruct (step_seq _ _ _ _ Hi E) as [Hi1 Hp]. rewrite (IH _ _ Hi1 H), Hp, <- app_assoc. reflexivity.
Qed.

Lemma row_count_perm : forall single m maxr bs fs,
  row_count_demux sz single m maxr bs = Some fs -> Permutation (concat (map snd fs)) bs.
Proof.
  intros single m maxr bs fs H. unfold row_count_demux in H.
  destruct single.
  - destruct (rc_run sz 1 18446744073709551615 (rc_init true) bs) as [st|] eqn:E; [|discriminate].
    inversion H; subst. apply run_perm in E. exact E.
  - destruct (rc_run sz m maxr (rc_init false) bs) as [st|] eqn:E; [|discriminate].
    inversion H; subst. apply run_perm in E. exact E.
Qed.

Lemma row_count_concat : forall single maxr bs fs,
  row_count_demux sz single 1 maxr bs = Some fs -> concat (map snd fs) = bs.
Proof.
  intros single maxr bs fs H. unfold row_count_demux in H.
  destruct single.
  - destruct (rc_run sz 1 18446744073709551615 (rc_init true) bs) as [st|] eqn:E; [|discriminate].
    inversion H; subst. apply run_seq in E; [exact E|split; cbn; [lia|reflexivity]].
  - destruct (rc_run sz 1 maxr (rc_init false) bs) as [st|] eqn:E; [|discriminate].
    inversion H; subst. apply run_seq in E; [exact E|split; cbn; [lia|reflexivity]].
Qed.
End RowCountProofs.
