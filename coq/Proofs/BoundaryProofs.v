(* C26: the property-level lemmas (restated in Props/C26.v). *)
From Coq Require Import List ZArith Bool Lia.
From DF Require Import Base.Prelude Model.Boundary.
From DF Require Import Proofs.BoundaryLists Proofs.BoundaryStream Proofs.BoundaryLines Proofs.BoundarySplit.
Import ListNotations.
Open Scope Z_scope.

(* A range scan yields, for every chunking of every GET and every lookahead >= 1, exactly the
   records whose first byte lies in the range -- whole records, in file order. *)
Theorem range_owns_lines t L chunker file s e :
  1 <= L -> zlen file < U64MAX -> chunker_ok file chunker -> 0 <= s -> 0 <= e ->
  exists o, stream_run t L chunker (zlen file) s e = ROk o /\
            concat o = concat (owned t file s e).
Proof.
  intros HL Hsz Hck Hs He.
  destruct (stream_run_slice t L chunker file s e HL Hsz Hck Hs He) as (o & E & Co).
  exists o. split; auto. now rewrite owned_slice.
Qed.

Corollary range_bytes_owned t L chunker file s e :
  1 <= L -> zlen file < U64MAX -> chunker_ok file chunker -> 0 <= s -> 0 <= e ->
  range_bytes t L chunker (zlen file) s e = Some (concat (owned t file s e)).
Proof.
  intros HL Hsz Hck Hs He.
  destruct (range_owns_lines t L chunker file s e HL Hsz Hck Hs He) as (o & E & Co).
  unfold range_bytes. now rewrite E, Co.
Qed.

(* the index arithmetic of the state machine never underflows / indexes out of range, and the
   model's fuel is never exhausted *)
Theorem no_underflow t L chunker file s e :
  1 <= L -> zlen file < U64MAX -> chunker_ok file chunker -> 0 <= s -> 0 <= e ->
  stream_run t L chunker (zlen file) s e <> RPanic /\
  stream_run t L chunker (zlen file) s e <> RFuel.
Proof.
  intros HL Hsz Hck Hs He.
  destruct (range_owns_lines t L chunker file s e HL Hsz Hck Hs He) as (o & E & _).
  rewrite E. split; discriminate.
Qed.

(* neither the lookahead window nor the chunking influence what a range yields *)
Theorem lookahead_irrelevant t L1 L2 ck1 ck2 file s e :
  1 <= L1 -> 1 <= L2 -> zlen file < U64MAX -> chunker_ok file ck1 -> chunker_ok file ck2 ->
  0 <= s -> 0 <= e ->
  range_bytes t L1 ck1 (zlen file) s e = range_bytes t L2 ck2 (zlen file) s e.
Proof.
  intros. rewrite !range_bytes_owned; auto.
Qed.

Lemma chain_nonneg a b rs : 0 <= a -> chain a b rs -> Forall (fun r => 0 <= fst r /\ 0 <= snd r) rs.
Proof.
  revert a. induction rs as [|[x y] r IH]; intros a Ha H; cbn [chain] in H; constructor.
  - cbn [fst snd]. lia.
  - destruct H as (-> & Hlt & H). apply (IH y); auto. lia.
Qed.

Lemma concat_map_concat {A} (ll : list (list (list A))) :
  concat (map (@concat A) ll) = concat (concat ll).
Proof. induction ll as [|l ll IH]; cbn; auto. now rewrite concat_app, IH. Qed.

(* Consecutive ranges 0 = b0 < b1 < ... < bn, bn >= size: the ranges' outputs concatenate to the
   file, and at the level of records every record is owned by exactly one range, in order. *)
Theorem ranges_partition_file t L (cks : Z * Z -> Z -> Z -> list (list Z)) file rs b :
  1 <= L -> zlen file < U64MAX -> (forall r, chunker_ok file (cks r)) ->
  chain 0 b rs -> zlen file <= b ->
  exists outs,
    Forall2 (fun r o => range_bytes t L (cks r) (zlen file) (fst r) (snd r) = Some o) rs outs /\
    outs = map (fun r => concat (owned t file (fst r) (snd r))) rs /\
    concat outs = file /\
    concat (map (fun r => owned t file (fst r) (snd r)) rs) = split_lines t file.
Proof.
  intros HL Hsz Hck Hch Hb.
  assert (Hlines : concat (map (fun r => owned t file (fst r) (snd r)) rs) = split_lines t file).
  { rewrite (owned_chain t file 0 b rs Hch).
    rewrite filter_all, number_lines_snd; auto.
    apply Forall_forall. intros pl Hin.
    pose proof (number_lines_ge _ _ _ Hin).
    pose proof (number_lines_lt _ _ _ (split_lines_nonempty t file) Hin) as Hlt.
    rewrite split_lines_concat in Hlt. unfold in_range.
    destruct (Z.leb_spec 0 (fst pl)); destruct (Z.ltb_spec (fst pl) b); auto; lia. }
  exists (map (fun r => concat (owned t file (fst r) (snd r))) rs). repeat split; auto.
  - pose proof (chain_nonneg 0 b rs (Z.le_refl 0) Hch) as Hnn.
    clear Hch Hlines. induction rs as [|r rs IH]; cbn [map]; constructor.
    + inversion Hnn; subst. apply range_bytes_owned; auto; tauto.
    + apply IH. now inversion Hnn.
  - rewrite <- (map_map (fun r => owned t file (fst r) (snd r)) (@concat Z)).
    rewrite concat_map_concat, Hlines. apply split_lines_concat.
Qed.

(* the harness' pattern chunker is a chunker *)
Lemma split_pat_concat : forall fuel pat cur bytes, concat (split_pat fuel pat cur bytes) = bytes.
Proof.
  induction fuel as [|fuel IH]; intros pat cur bytes; cbn [split_pat].
  - cbn. apply app_nil_r.
  - destruct bytes as [|b bs]; auto.
    destruct cur as [|n cur']; [apply IH|].
    cbn [concat]. rewrite IH. apply firstn_skipn.
Qed.

Theorem pat_chunker_ok file pat trail : chunker_ok file (pat_chunker file pat trail).
Proof.
  intros a b _ _. unfold pat_chunker. rewrite concat_app, split_pat_concat.
  destruct trail; cbn; apply app_nil_r.
Qed.

(* the byte-range splitter: every source file is cut into consecutive non-empty ranges covering
   its effective range (in the order the groups list them) *)
Theorem evenly_by_size_partitions n min_size files gs :
  1 <= n -> Forall (fun f => fst f <= snd f) files ->
  repartition_evenly n min_size files = SGroups gs ->
  forall k f, nth_error files k = Some f ->
    chain (fst f) (snd f)
      (map (fun x : Z * Z * Z => (snd (fst x), snd x))
           (filter (fun x : Z * Z * Z => fst (fst x) =? Z.of_nat k) (concat gs))).
Proof. exact (repartition_ranges_chain n min_size files gs). Qed.

(* splitter + stream: scanning the ranges the splitter made for an (unranged) source file, in
   whatever partitions they ended up in, reads the file's records exactly once *)
Theorem repartitioned_scan_reads_file t L (cks : Z * Z -> Z -> Z -> list (list Z)) n min_size files gs k file :
  1 <= L -> zlen file < U64MAX -> (forall r, chunker_ok file (cks r)) ->
  1 <= n -> Forall (fun f => fst f <= snd f) files ->
  repartition_evenly n min_size files = SGroups gs ->
  nth_error files k = Some (0, zlen file) ->
  let rs := map (fun x : Z * Z * Z => (snd (fst x), snd x))
                (filter (fun x : Z * Z * Z => fst (fst x) =? Z.of_nat k) (concat gs)) in
  exists outs,
    Forall2 (fun r o => range_bytes t L (cks r) (zlen file) (fst r) (snd r) = Some o) rs outs /\
    concat outs = file /\
    concat (map (fun r => owned t file (fst r) (snd r)) rs) = split_lines t file.
Proof.
  intros HL Hsz Hck Hn Hwf R Hk rs.
  pose proof (evenly_by_size_partitions n min_size files gs Hn Hwf R k _ Hk) as Hch.
  cbn [fst snd] in Hch. fold rs in Hch.
  destruct (ranges_partition_file t L cks file rs (zlen file) HL Hsz Hck Hch (Z.le_refl _))
    as (outs & H1 & _ & H3 & H4).
  exists outs. auto.
Qed.
