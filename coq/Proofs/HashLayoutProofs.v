(* C12 -- proofs about Model/HashLayout.v: every hashing kernel, run on ANY well-formed physical encoding,
   computes the specification hash of the decoded logical values (refinement); hence hashes are
   independent of the physical layout, and the hash of a row is a fold over its logical key values. *)
From Coq Require Import List ZArith Bool Arith Lia.
From DF Require Import Base.Prelude Model.HashLayout Proofs.HashLayoutLists.
Import ListNotations.
Local Open Scope nat_scope.

Section Proofs.
Variable value : Type.
Variables (h hv : value -> Z) (rh rhv : Z -> value -> Z) (short : value -> bool).

Notation phys := (phys value).
Notation lval := (lval value).
Notation spec := (spec value h hv rh rhv short).
Notation hash_win := (hash_win value h hv rh rhv short).
Notation hash_leaf := (hash_leaf value).
Notation decode := (decode value).
Notation plen := (plen value).
Notation wf := (wf value short).
Notation wfb := (wfb value short).

Definition isnull (x : lval) : bool := match x with LNull => true | _ => false end.

(* ------------------------------------------------------------------ induction principle (struct children) *)
Lemma phys_rect' (P : phys -> Prop)
  (HPrim : forall b, P (Prim b)) (HBytes : forall b, P (Bytes b)) (HView : forall hb b, P (View hb b))
  (HDict : forall k v, P v -> P (Dict k v))
  (HRun : forall re v off len, P v -> P (RunEnd re v off len))
  (HList : forall offs n off len c, P c -> P (PList offs n off len c))
  (HStruct : forall cs n len, Forall P cs -> P (Struct cs n len)) : forall p, P p.
Proof.
  fix IH 1. intros [b|b|hb b|k v|re v off len|offs n off len c|cs n len].
  - apply HPrim. - apply HBytes. - apply HView.
  - apply HDict, IH. - apply HRun, IH. - apply HList, IH.
  - apply HStruct. induction cs as [|c cs IHcs]; constructor; [apply IH | apply IHcs].
Qed.

(* ------------------------------------------------------------------ leaf kernels *)
Lemma leaf_rows (one : value -> Z) (re : Z -> value -> Z) (mk : value -> lval) (rehash : bool) :
  forall oks vs prev,
    Forall (fun v => forall p, spec (mk v) rehash p = if rehash then re p v else one v) vs ->
    length oks = length vs ->
    (if count_false oks =? 0
     then map2 (fun v p => if rehash then re p v else one v) vs prev
     else map3 (fun (ok : bool) v p => if ok then (if rehash then re p v else one v) else p) oks vs prev)
    = map2 (fun x p => spec x rehash p) (map2 (fun (ok : bool) v => if ok then mk v else LNull) oks vs) prev.
Proof.
  intros oks vs prev HF Hlen.
  assert (H3 : map3 (fun (ok : bool) v p => if ok then (if rehash then re p v else one v) else p) oks vs prev
               = map2 (fun x p => spec x rehash p) (map2 (fun (ok : bool) v => if ok then mk v else LNull) oks vs) prev).
  { clear Hlen. revert vs prev HF. induction oks as [|ok oks IH]; intros vs prev HF; [reflexivity|].
    destruct vs as [|v vs]; [reflexivity|]. destruct prev as [|p prev]; [reflexivity|].
    cbn. inversion HF; subst. f_equal; [|apply IH; assumption].
    destruct ok; [symmetry; auto | reflexivity]. }
  destruct (count_false oks =? 0) eqn:E; [|exact H3].
  rewrite <- H3. apply Nat.eqb_eq in E. clear H3 HF.
  revert vs prev Hlen E. induction oks as [|ok oks IH]; intros vs prev Hlen E.
  - destruct vs; [reflexivity | cbn in Hlen; lia].
  - destruct vs as [|v vs]; [reflexivity|]. destruct prev as [|p prev]; [reflexivity|].
    cbn in *. destruct ok; cbn in E; [|lia]. f_equal. apply IH; [lia | assumption].
Qed.

Lemma dec_leaf_win mk (b : buf value) s l : buf_ok b = true -> s + l <= b_len b ->
  win s l (dec_leaf value mk b)
  = map2 (fun (ok : bool) v => if ok then mk v else LNull)
         (vwin (b_nulls b) (b_off b + s) l) (win (b_off b + s) l (b_vals b)).
Proof.
  intros Hb H. destruct (buf_ok_spec _ _ Hb) as [Hv Hn].
  unfold dec_leaf. rewrite win_map2, vwin_win, win_win by assumption. reflexivity.
Qed.

Lemma dec_leaf_length mk (b : buf value) : buf_ok b = true -> length (dec_leaf value mk b) = b_len b.
Proof.
  intros Hb. destruct (buf_ok_spec _ _ Hb) as [Hv Hn]. unfold dec_leaf.
  rewrite map2_length, vwin_length, win_length by assumption. lia.
Qed.

Lemma leaf_refines one re mk (b : buf value) s l rehash prev :
  buf_ok b = true -> s + l <= b_len b ->
  Forall (fun v => forall p, spec (mk v) rehash p = if rehash then re p v else one v)
         (win (b_off b) (b_len b) (b_vals b)) ->
  hash_leaf one re b s l rehash prev = map2 (fun x p => spec x rehash p) (win s l (dec_leaf value mk b)) prev.
Proof.
  intros Hb H HF. destruct (buf_ok_spec _ _ Hb) as [Hv Hn].
  rewrite dec_leaf_win by assumption. unfold hash_leaf. rewrite nullcnt_vwin.
  apply leaf_rows.
  - rewrite <- (win_win _ (b_vals b) (b_off b) (b_len b) s l) by assumption. apply Forall_win. assumption.
  - rewrite vwin_length, win_length; [reflexivity | lia | eapply nulls_ok_le; [eassumption | lia]].
Qed.

(* ------------------------------------------------------------------ the refinement statement *)
(* the kernel run on rows [s, s+l) of p computes the specification hash of the decoded rows *)
Definition refines (p : phys) : Prop :=
  forall s l rehash prev, s + l <= plen p -> length prev = l ->
    hash_win p s l rehash prev = map2 (fun x q => spec x rehash q) (win s l (decode p)) prev.

Lemma Forall_true A (P : A -> Prop) (l : list A) : (forall x, P x) -> Forall P l.
Proof. intros H. induction l; constructor; auto. Qed.

Lemma refines_prim b : buf_ok b = true -> refines (Prim b).
Proof.
  intros Hb s l rehash prev H _. cbn. apply leaf_refines; try assumption.
  apply Forall_true. intros v p. reflexivity.
Qed.

Lemma refines_bytes b : buf_ok b = true -> refines (Bytes b).
Proof.
  intros Hb s l rehash prev H _. cbn. apply leaf_refines; try assumption.
  apply Forall_true. intros v p. reflexivity.
Qed.

Lemma refines_view hb b :
  buf_ok b = true -> (hb || forallb short (win (b_off b) (b_len b) (b_vals b))) = true -> refines (View hb b).
Proof.
  intros Hb Hs s l rehash prev H _. cbn. apply leaf_refines; try assumption.
  destruct hb; cbn in Hs.
  - apply Forall_true. intros v p. cbn. unfold view_one, view_re. cbn. destruct (short v), rehash; reflexivity.
  - rewrite forallb_forall in Hs. apply Forall_forall. intros v Hin p. cbn. unfold view_one, view_re. cbn.
    rewrite (Hs v Hin). reflexivity.
Qed.

(* ------------------------------------------------------------------ shape facts from well-formedness *)
Ltac split_and :=
  repeat match goal with
         | H : _ && _ = true |- _ => apply andb_true_iff in H; destruct H
         end.

Lemma nth_combine_tl (a : list nat) : forall i, S i < length a ->
  nth i (combine a (tl a)) (0, 0) = (nth i a 0, nth (S i) a 0).
Proof.
  induction a as [|x a IH]; intros i H; [cbn in H; lia|].
  destruct a as [|y a]; [cbn in H; lia|]. destruct i; [reflexivity|].
  change (nth i (combine (y :: a) (tl (y :: a))) (0, 0) = (nth i (y :: a) 0, nth (S i) (y :: a) 0)).
  apply IH. cbn in *. lia.
Qed.

Lemma combine_tl_length (a : list nat) : length (combine a (tl a)) = length a - 1.
Proof. rewrite combine_length. destruct a; cbn [tl length]; lia. Qed.

Lemma decode_length strict : forall p, wfb strict p = true -> length (decode p) = plen p.
Proof.
  intros p. destruct p as [b|b|hb b|k v|re v off len|offs n off len c|cs n len]; cbn [wfb decode plen]; intros H; split_and.
  - apply dec_leaf_length; assumption.
  - apply dec_leaf_length; assumption.
  - apply dec_leaf_length; assumption.
  - destruct (buf_ok_spec _ _ H) as [Hv Hn].
    rewrite map2_length, vwin_length, win_length by assumption. lia.
  - rewrite map_length, seq_length. reflexivity.
  - rewrite map2_length, combine_tl_length, vwin_length, win_length.
    + lia.
    + apply Nat.leb_le in H3. lia.
    + destruct n; cbn; [apply Nat.leb_le in H2; assumption | exact I].
  - rewrite map2_length, seq_length, vwin_length; [lia|].
    destruct n; cbn; [apply Nat.eqb_eq in H0; lia | exact I].
Qed.

Lemma pnulls_ok strict p : wfb strict p = true ->
  nulls_ok (fst (pnulls value p)) (snd (pnulls value p) + plen p).
Proof.
  destruct p as [b|b|hb b|k v|re v off len|offs n off len c|cs n len]; cbn [wfb pnulls plen fst snd]; intros H; split_and;
    try (apply buf_ok_spec; assumption); try exact I.
  - destruct n; cbn; [apply Nat.leb_le in H2; assumption | exact I].
  - destruct n; cbn; [apply Nat.eqb_eq in H0; lia | exact I].
Qed.

Lemma isnull_map2 A (F : A -> lval) d : (forall y, isnull (F y) = false) ->
  forall oks ys i, i < length oks -> i < length ys ->
    isnull (nth i (map2 (fun (ok : bool) y => if ok then F y else LNull) oks ys) LNull) = negb (nth i oks d).
Proof.
  intros HF. induction oks as [|ok oks IH]; intros [|y ys] i H1 H2; cbn in *; try lia.
  destruct i; [destruct ok; cbn; auto | apply IH; lia].
Qed.

(* for arrays that are not dictionary / run-end encoded, physical validity = logical non-NULL *)
Lemma plain_valid strict p d : plain value p = true -> wfb strict p = true ->
  forall i, i < plen p ->
    nth i (pvalid value p 0 (plen p)) d = negb (isnull (nth i (decode p) LNull)).
Proof.
  intros Hp H i Hi. unfold pvalid. rewrite Nat.add_0_r.
  destruct p as [b|b|hb b|k v|re v off len|offs n off len c|cs n len]; cbn [plain] in Hp; try discriminate;
    cbn [wfb decode plen pnulls fst snd] in *; split_and.
  - destruct (buf_ok_spec _ _ H) as [Hv Hn]. unfold dec_leaf.
    rewrite (isnull_map2 _ _ d) by (try reflexivity; rewrite ?vwin_length, ?win_length; assumption).
    rewrite negb_involutive. reflexivity.
  - destruct (buf_ok_spec _ _ H) as [Hv Hn]. unfold dec_leaf.
    rewrite (isnull_map2 _ _ d) by (try reflexivity; rewrite ?vwin_length, ?win_length; assumption).
    rewrite negb_involutive. reflexivity.
  - destruct (buf_ok_spec _ _ H) as [Hv Hn]. unfold dec_leaf.
    rewrite (isnull_map2 _ _ d) by (try reflexivity; rewrite ?vwin_length, ?win_length; assumption).
    rewrite negb_involutive. reflexivity.
  - assert (Hn : nulls_ok n (off + len)) by (destruct n; cbn; [apply Nat.leb_le in H2; assumption | exact I]).
    apply Nat.leb_le in H3.
    rewrite (isnull_map2 _ (fun se => LList (win (fst se) (snd se - fst se) (decode c))) d);
      [rewrite negb_involutive; reflexivity | reflexivity | rewrite vwin_length; assumption |].
    rewrite combine_tl_length, win_length; lia.
  - assert (Hn : nulls_ok n (0 + len)) by (destruct n; cbn; [apply Nat.eqb_eq in H0; lia | exact I]).
    rewrite (isnull_map2 _ (fun i => LStruct (map (fun dc => nth i dc LNull) (map decode cs))) d);
      [rewrite negb_involutive; reflexivity | reflexivity | rewrite vwin_length; assumption | rewrite seq_length; assumption].
Qed.

Lemma no_nulls_all_valid strict p d : wfb strict p = true -> pnullcnt value p 0 (plen p) = 0 ->
  forall i, i < plen p -> nth i (pvalid value p 0 (plen p)) d = true.
Proof.
  intros H H0 i Hi. unfold pnullcnt in H0. rewrite nullcnt_vwin in H0. unfold pvalid.
  apply count_false_0; [assumption|]. rewrite vwin_length; [assumption|].
  rewrite Nat.add_0_r. eapply pnulls_ok; eassumption.
Qed.

Lemma win_all A (l : list A) n : n = length l -> win 0 n l = l.
Proof. intros ->. unfold win. cbn. apply firstn_all. Qed.

Lemma nth_repeat0 i n : nth i (repeat 0%Z n) 0%Z = 0%Z.
Proof. revert i. induction n; intros [|i]; cbn; auto. Qed.

(* hashes of all the rows of an array into a zeroed buffer = one-shot specification hashes *)
Lemma refines_zero strict p a n : refines p -> wfb strict p = true -> a + n <= plen p ->
  forall j, j < n ->
    nth j (hash_win p a n false (repeat 0%Z n)) 0%Z = spec (nth (a + j) (decode p) LNull) false 0%Z.
Proof.
  intros R H Hle j Hj. rewrite R by (try assumption; apply repeat_length).
  assert (Hl : length (win a n (decode p)) = n).
  { apply win_length. rewrite (decode_length strict) by assumption. assumption. }
  rewrite (nth_map2 _ _ _ _ LNull 0%Z) by (rewrite ?Hl, ?repeat_length; assumption).
  rewrite nth_win, nth_repeat0 by assumption. reflexivity.
Qed.

Lemma refines_length strict p s l rehash prev : refines p -> wfb strict p = true -> s + l <= plen p -> length prev = l ->
  length (hash_win p s l rehash prev) = l.
Proof.
  intros R H Hle Hp. rewrite R by assumption. rewrite map2_length, win_length; [lia|].
  rewrite (decode_length strict) by assumption. assumption.
Qed.

Lemma forallb2_nth A B (f : A -> B -> bool) da db : forall a b, forallb2 f a b = true ->
  forall i, i < length a -> i < length b -> f (nth i a da) (nth i b db) = true.
Proof.
  induction a as [|x a IH]; intros [|y b] H i Ha Hb; cbn in *; try lia.
  apply andb_true_iff in H. destruct H as [H1 H2]. destruct i; [assumption|]. apply IH; [assumption | lia | lia].
Qed.

(* ------------------------------------------------------------------ dictionary *)
Lemma refines_dict k v : refines v -> wfb true (Dict k v) = true -> refines (Dict k v).
Proof.
  intros R H s l rehash prev Hle Hp. cbn [wfb] in H.
  apply andb_true_iff in H; destruct H as [H Hkeys]. apply andb_true_iff in H; destruct H as [H Hplain].
  apply andb_true_iff in H; destruct H as [Hbuf Hwf]. cbn [negb orb] in Hplain.
  destruct (buf_ok_spec _ _ Hbuf) as [Hv Hn]. cbn [plen] in Hle.
  assert (Hn' : nulls_ok (b_nulls k) (b_off k + s + l)) by (eapply nulls_ok_le; [eassumption | lia]).
  cbn [hash_win decode].
  rewrite win_map2, vwin_win, win_win by assumption.
  set (oks := vwin (b_nulls k) (b_off k + s) l). set (ks := win (b_off k + s) l (b_vals k)).
  assert (Loks : length oks = l) by (apply vwin_length; assumption).
  assert (Lks : length ks = l) by (apply win_length; lia).
  apply nth_ext with (d := 0%Z) (d' := 0%Z).
  { rewrite map3_length, !map2_length. lia. }
  intros i Hi. rewrite map3_length in Hi.
  rewrite (nth_map3 _ _ _ _ _ false 0 0%Z) by lia.
  rewrite (nth_map2 _ _ _ _ LNull 0%Z) by (rewrite ?map2_length; lia).
  rewrite (nth_map2 _ _ _ _ false 0) by lia.
  (* the key is in range when valid *)
  assert (Hrange : nth i oks false = true -> nth i ks 0 < plen v).
  { intros Hok.
    pose proof (forallb2_nth _ _ _ false 0 _ _ Hkeys (s + i)) as Hr.
    rewrite vwin_length, win_length in Hr by assumption. specialize (Hr ltac:(lia) ltac:(lia)).
    unfold oks, ks in *. rewrite nth_vwin in Hok by lia. rewrite nth_win by lia.
    rewrite nth_vwin, nth_win in Hr by lia.
    rewrite !Nat.add_assoc in Hr.
    destruct (b_nulls k); [rewrite Hok in Hr|]; cbn in Hr; apply Nat.ltb_lt in Hr; assumption. }
  (* without NULL keys every key is valid *)
  assert (Hnk : (nullcnt (b_nulls k) (b_off k + s) l =? 0) = true -> nth i oks false = true).
  { intros E. apply Nat.eqb_eq in E. rewrite nullcnt_vwin in E. apply count_false_0; [assumption | lia]. }
  destruct (nth i oks false) eqn:Eok.
  - rewrite orb_true_r. specialize (Hrange eq_refl).
    assert (Hval : (negb (negb (pnullcnt value v 0 (plen v) =? 0)) || nth (nth i ks 0) (pvalid value v 0 (plen v)) false)
                   = negb (isnull (nth (nth i ks 0) (decode v) LNull))).
    { rewrite <- (plain_valid true v false) by assumption.
      destruct (pnullcnt value v 0 (plen v) =? 0) eqn:E; [|reflexivity]. cbn.
      apply Nat.eqb_eq in E. symmetry. eapply no_nulls_all_valid; eassumption. }
    rewrite Hval.
    rewrite (refines_zero true v 0 (plen v)) by (try assumption; lia). cbn [Nat.add].
    destruct (nth (nth i ks 0) (decode v) LNull); cbn; reflexivity.
  - destruct (nullcnt (b_nulls k) (b_off k + s) l =? 0) eqn:E; [specialize (Hnk eq_refl); discriminate|].
    cbn. reflexivity.
Qed.

(* ------------------------------------------------------------------ struct *)
Lemma nth_seq0 i n d : i < n -> nth i (seq 0 n) d = i.
Proof. intros. rewrite seq_nth by assumption. reflexivity. Qed.

Lemma fold_cols_rows (W : phys -> list lval) (hw : phys -> bool -> list Z -> list Z) l :
  forall cs first acc,
    Forall (fun c => length (W c) = l /\
                     forall rehash prev, length prev = l -> hw c rehash prev = map2 (fun x q => spec x rehash q) (W c) prev) cs ->
    length acc = l ->
    fold_cols hw cs first acc
    = map2 (fun i a => spec_fields value spec (map (fun c => nth i (W c) LNull) cs) first a) (seq 0 l) acc.
Proof.
  induction cs as [|c cs IH]; intros first acc HF Hacc.
  - cbn. symmetry. apply map2_id_l. rewrite seq_length. lia.
  - pose proof (Forall_inv HF) as [HW Hc]. pose proof (Forall_inv_tail HF) as HF'.
    change (fold_cols hw (c :: cs) first acc) with (fold_cols hw cs false (hw c (negb first) acc)).
    assert (Lh : length (hw c (negb first) acc) = l).
    { rewrite Hc by assumption. rewrite map2_length. lia. }
    rewrite IH by assumption.
    apply nth_ext with (d := 0%Z) (d' := 0%Z).
    { rewrite !map2_length. lia. }
    intros i Hi. rewrite map2_length, seq_length in Hi.
    rewrite !(nth_map2 _ _ _ _ 0 0%Z) by (rewrite ?seq_length; lia).
    rewrite nth_seq0 by lia. cbn [map spec_fields].
    rewrite Hc by assumption. rewrite (nth_map2 _ _ _ _ LNull 0%Z) by lia. reflexivity.
Qed.

Lemma win_seq s l len : s + l <= len -> win s l (seq 0 len) = seq s l.
Proof.
  intros H. apply nth_ext with (d := 0) (d' := 0).
  - rewrite win_length, seq_length; [reflexivity | rewrite seq_length; assumption].
  - intros i Hi. rewrite win_length in Hi by (rewrite seq_length; assumption).
    rewrite nth_win, !seq_nth by lia. lia.
Qed.

Lemma refines_struct cs n len : Forall refines cs -> wfb true (Struct cs n len) = true -> refines (Struct cs n len).
Proof.
  intros R H s l rehash prev Hle Hp. cbn [wfb] in H. split_and. cbn [plen] in Hle.
  assert (Hn : nulls_ok n (0 + len)) by (destruct n; cbn; [apply Nat.eqb_eq in H0; lia | exact I]).
  cbn [hash_win decode].
  rewrite win_map2, vwin_win, win_seq by assumption. cbn [Nat.add].
  assert (Hvh : fold_cols (fun c => hash_win c s l) cs true (repeat 0%Z l)
                = map2 (fun i a => spec_fields value spec (map (fun c => nth i (win s l (decode c)) LNull) cs) true a)
                       (seq 0 l) (repeat 0%Z l)).
  { apply fold_cols_rows; [|apply repeat_length].
    rewrite forallb_forall in H, H1. rewrite Forall_forall in R. apply Forall_forall. intros c Hin.
    specialize (H c Hin). specialize (H1 c Hin). apply Nat.eqb_eq in H1. split.
    - apply win_length. rewrite (decode_length true) by assumption. lia.
    - intros rh0 pv Hpv. apply R; [assumption | lia | assumption]. }
  rewrite Hvh. clear Hvh.
  assert (Lok : length (vwin n s l) = l) by (apply vwin_length; eapply nulls_ok_le; [eassumption | lia]).
  apply nth_ext with (d := 0%Z) (d' := 0%Z).
  { destruct n; rewrite ?map3_length, !map2_length, ?seq_length, ?repeat_length, ?Lok; cbn in Lok; rewrite ?Lok; lia. }
  intros i Hi.
  assert (Hil : i < l).
  { destruct n; rewrite ?map3_length, !map2_length, ?seq_length, ?repeat_length in Hi; lia. }
  rewrite (nth_map2 _ _ _ _ LNull 0%Z) by (rewrite ?map2_length, ?seq_length; lia).
  rewrite (nth_map2 _ _ _ _ false 0) by (rewrite ?seq_length; lia).
  rewrite seq_nth by assumption.
  assert (Hrow : nth i (map2 (fun i0 a => spec_fields value spec (map (fun c => nth i0 (win s l (decode c)) LNull) cs) true a)
                             (seq 0 l) (repeat 0%Z l)) 0%Z
                 = spec_fields value spec (map (fun dc => nth (s + i) dc LNull) (map decode cs)) true 0%Z).
  { rewrite (nth_map2 _ _ _ _ 0 0%Z) by (rewrite ?seq_length, ?repeat_length; lia).
    rewrite nth_seq0, nth_repeat0 by assumption. rewrite map_map. f_equal.
    apply map_ext. intros c. apply nth_win. assumption. }
  destruct n as [v|].
  - cbn [vwin] in *. rewrite (nth_map3 _ _ _ _ _ false 0%Z 0%Z) by (rewrite ?map2_length, ?seq_length, ?repeat_length; lia).
    rewrite Hrow. destruct (nth i (win s l v) false); reflexivity.
  - rewrite (nth_map2 _ _ _ _ 0%Z 0%Z) by (rewrite ?map2_length, ?seq_length, ?repeat_length; lia).
    rewrite Hrow. rewrite nth_vwin by assumption. reflexivity.
Qed.

(* ------------------------------------------------------------------ list *)
Lemma nondecreasing_nth : forall l a, nondecreasing a l = true ->
  forall i j, i <= j -> j < length l -> a <= nth i l 0 /\ nth i l 0 <= nth j l 0.
Proof.
  induction l as [|e r IH]; intros a H i j Hij Hj; cbn in Hj; [lia|].
  cbn in H. apply andb_true_iff in H. destruct H as [H1 H2]. apply Nat.leb_le in H1.
  destruct j as [|j'].
  - assert (i = 0) by lia. subst. cbn. lia.
  - destruct i as [|i']; cbn [nth].
    + destruct (IH e H2 j' j' (le_n _) ltac:(lia)). lia.
    + destruct (IH e H2 i' j' ltac:(lia) ltac:(lia)). lia.
Qed.

Lemma last_nth' A (l : list A) d : last l d = nth (length l - 1) l d.
Proof.
  induction l as [|x l IH]; [reflexivity|]. destruct l as [|y l]; [reflexivity|].
  change (last (x :: y :: l) d) with (last (y :: l) d). rewrite IH. cbn [length]. 
  replace (S (S (length l)) - 1) with (S (length l)) by lia.
  replace (S (length l) - 1) with (length l) by lia. reflexivity.
Qed.

Lemma fold_left_map A B (f : Z -> B -> Z) (g : A -> B) xs : forall p,
  fold_left f (map g xs) p = fold_left (fun acc e => f acc (g e)) xs p.
Proof. induction xs as [|x xs IH]; intros p; cbn; auto. Qed.

Lemma win_map A B (g : A -> B) s l xs : win s l (map g xs) = map g (win s l xs).
Proof. unfold win. rewrite skipn_map, firstn_map. reflexivity. Qed.

Lemma map2_zero A (F : A -> Z -> Z) : forall X m, length X = m ->
  map2 F X (repeat 0%Z m) = map (fun x => F x 0%Z) X.
Proof. induction X as [|x X IH]; intros m H; subst; cbn; [reflexivity|]. f_equal. apply IH. reflexivity. Qed.

Lemma hd_nth (l : list nat) : hd 0 l = nth 0 l 0.
Proof. destruct l; reflexivity. Qed.

Lemma refines_list offs n off len c :
  refines c -> wfb true (PList offs n off len c) = true -> refines (PList offs n off len c).
Proof.
  intros R H s l rehash prev Hle Hp. cbn [wfb] in H.
  apply andb_true_iff in H; destruct H as [H Hlast]. apply andb_true_iff in H; destruct H as [H Hmono].
  apply andb_true_iff in H; destruct H as [H Hnl]. apply andb_true_iff in H; destruct H as [Hwf Hoffs].
  apply Nat.leb_le in Hoffs, Hlast. cbn [plen] in Hle.
  assert (Hn : nulls_ok n (off + len)) by (destruct n; cbn; [apply Nat.leb_le in Hnl; assumption | exact I]).
  set (O := fun j => nth (off + j) offs 0).
  assert (Lowf : length (win off (S len) offs) = S len) by (apply win_length; lia).
  assert (HO : forall i j, i <= j -> j <= len -> O i <= O j /\ O j <= plen c).
  { intros i j Hij Hj.
    destruct (nondecreasing_nth _ _ Hmono i j Hij ltac:(lia)) as [_ H1].
    destruct (nondecreasing_nth _ _ Hmono j len Hj ltac:(lia)) as [_ H2].
    rewrite !nth_win in H1, H2 by lia. rewrite last_nth', Lowf in Hlast.
    replace (S len - 1) with len in Hlast by lia. rewrite nth_win in Hlast by lia. unfold O. lia. }
  cbn [hash_win].
  set (ow := win (off + s) (S l) offs).
  assert (Low : length ow = S l) by (apply win_length; lia).
  assert (Hnth_ow : forall j, j <= l -> nth j ow 0 = O (s + j)).
  { intros j Hj. unfold ow, O. rewrite nth_win by lia. f_equal. lia. }
  assert (Hfirst : hd 0 ow = O s) by (rewrite hd_nth, Hnth_ow by lia; f_equal; lia).
  assert (Hlst : last ow 0 = O (s + l)).
  { rewrite last_nth', Low. replace (S l - 1) with l by lia. apply Hnth_ow. lia. }
  rewrite Hfirst, Hlst. set (first := O s). set (nn := O (s + l) - first).
  destruct (HO s (s + l) ltac:(lia) ltac:(lia)) as [Hfl Hlp].
  assert (Hvh : hash_win c first nn false (repeat 0%Z nn) = map (fun x => spec x false 0%Z) (win first nn (decode c))).
  { rewrite R by (rewrite ?repeat_length; unfold nn, first; lia).
    apply map2_zero. apply win_length. rewrite (decode_length true) by assumption. unfold nn, first. lia. }
  rewrite Hvh. clear Hvh.
  (* one row *)
  assert (Hrow : forall i p, i < l ->
            fold_left combine_hashes
              (win (fst (nth i (combine ow (tl ow)) (0, 0)) - first)
                   (snd (nth i (combine ow (tl ow)) (0, 0)) - fst (nth i (combine ow (tl ow)) (0, 0)))
                   (map (fun x => spec x false 0%Z) (win first nn (decode c)))) p
            = spec (LList (win (O (s + i)) (O (s + S i) - O (s + i)) (decode c))) rehash p).
  { intros i p Hi. rewrite nth_combine_tl by lia. cbn [fst snd].
    rewrite !Hnth_ow by lia.
    destruct (HO s (s + i) ltac:(lia) ltac:(lia)) as [H1 _].
    destruct (HO (s + i) (s + S i) ltac:(lia) ltac:(lia)) as [H2 _].
    destruct (HO (s + S i) (s + l) ltac:(lia) ltac:(lia)) as [H3 _].
    rewrite win_map, win_win by (unfold nn, first; lia).
    replace (first + (O (s + i) - first)) with (O (s + i)) by (unfold first; lia).
    rewrite fold_left_map. reflexivity. }
  assert (Lpairs : length (combine ow (tl ow)) = l) by (rewrite combine_tl_length; lia).
  assert (Lok : length (vwin n (off + s) l) = l) by (apply vwin_length; eapply nulls_ok_le; [eassumption | lia]).
  assert (Ldec : length (win s l (decode (PList offs n off len c))) = l).
  { apply win_length. cbn [decode]. rewrite map2_length, vwin_length, combine_tl_length, Lowf by assumption. lia. }
  (* the decoded row s+i *)
  assert (Hdec : forall i, i < l ->
            nth i (win s l (decode (PList offs n off len c))) LNull
            = if nth i (vwin n (off + s) l) false
              then LList (win (O (s + i)) (O (s + S i) - O (s + i)) (decode c)) else LNull).
  { intros i Hi. rewrite nth_win by assumption. cbn [decode].
    rewrite (nth_map2 _ _ _ _ false (0, 0)) by (rewrite ?vwin_length, ?combine_tl_length, ?Lowf; try assumption; lia).
    rewrite nth_combine_tl by lia. cbn [fst snd]. rewrite !nth_win by lia.
    rewrite !nth_vwin by lia. replace (off + s + i) with (off + (s + i)) by lia.
    replace (off + S (s + i)) with (off + (s + S i)) by lia. reflexivity. }
  apply nth_ext with (d := 0%Z) (d' := 0%Z).
  { destruct (negb (nullcnt n (off + s) l =? 0)); rewrite ?map3_length, !map2_length, ?Lpairs, ?Lok, ?Ldec; lia. }
  intros i Hi.
  assert (Hil : i < l).
  { destruct (negb (nullcnt n (off + s) l =? 0)); rewrite ?map3_length, ?map2_length, ?Lpairs, ?Lok in Hi; lia. }
  rewrite (nth_map2 _ _ _ _ LNull 0%Z) by lia. rewrite Hdec by assumption.
  destruct (nullcnt n (off + s) l =? 0) eqn:E; cbn [negb].
  - rewrite (nth_map2 _ _ _ _ (0, 0) 0%Z) by lia.
    apply Nat.eqb_eq in E. rewrite nullcnt_vwin in E.
    rewrite (count_false_0 _ E i false) by lia. apply Hrow. assumption.
  - rewrite (nth_map3 _ _ _ _ _ false (0, 0) 0%Z) by lia.
    destruct (nth i (vwin n (off + s) l) false); [apply Hrow; assumption | reflexivity].
Qed.

(* ------------------------------------------------------------------ run-end encoded arrays *)
Lemma count_le_le re x : count_le re x <= length re.
Proof. induction re as [|e r IH]; cbn; [lia|]. destruct (e <=? x); cbn; lia. Qed.

Lemma count_le_spec : forall re x,
  (forall j, j < count_le re x -> nth j re 0 <= x) /\ (count_le re x < length re -> x < nth (count_le re x) re 0).
Proof.
  induction re as [|e r IH]; intros x; cbn [count_le].
  - split; intros; cbn in *; lia.
  - destruct (e <=? x) eqn:E.
    + apply Nat.leb_le in E. destruct (IH x) as [I1 I2]. split.
      * intros [|j] Hj; cbn; [assumption | apply I1; lia].
      * intros Hk. cbn in *. apply I2. lia.
    + apply Nat.leb_gt in E. split; [intros j Hj; lia | intros _; cbn; lia].
Qed.

Lemma count_le_mono re x y : x <= y -> count_le re x <= count_le re y.
Proof.
  intros H. induction re as [|e r IH]; cbn; [lia|].
  destruct (e <=? x) eqn:E1; [|lia]. apply Nat.leb_le in E1.
  assert (E2 : (e <=? y) = true) by (apply Nat.leb_le; lia). rewrite E2. lia.
Qed.

Lemma count_le_lt_length re x : x < last re 0 -> count_le re x < length re.
Proof.
  intros H. pose proof (count_le_le re x) as Hle.
  destruct (Nat.eq_dec (count_le re x) (length re)) as [E|E]; [|lia]. exfalso.
  destruct re as [|e r]; [cbn in H; lia|].
  destruct (count_le_spec (e :: r) x) as [I1 _]. rewrite last_nth' in H.
  specialize (I1 (length (e :: r) - 1)). cbn [length] in *. lia.
Qed.

Lemma count_le_skip : forall k re x, (forall j, j < k -> nth j re 0 <= x) -> k <= length re ->
  count_le re x = k + count_le (skipn k re) x.
Proof.
  induction k as [|k IH]; intros re x H Hk; [reflexivity|].
  destruct re as [|e r]; [cbn in Hk; lia|]. cbn [count_le skipn].
  assert (E : (e <=? x) = true) by (apply Nat.leb_le; apply (H 0); lia). rewrite E.
  rewrite (IH r x); [lia | | cbn in Hk; lia]. intros j Hj. apply (H (S j)). lia.
Qed.

Lemma count_le_firstn : forall r n x, count_le r x < n -> count_le (firstn n r) x = count_le r x.
Proof.
  induction r as [|e r IH]; intros n x H; [rewrite firstn_nil; reflexivity|].
  destruct n; [lia|]. cbn [firstn count_le] in *. destruct (e <=? x); [|reflexivity].
  rewrite IH; [reflexivity | lia].
Qed.

Lemma increasing_gt : forall re a, increasing a re = true -> forall j, j < length re -> a < nth j re 0.
Proof.
  induction re as [|e r IH]; intros a H j Hj; cbn in Hj; [lia|].
  cbn in H. apply andb_true_iff in H. destruct H as [H1 H2]. apply Nat.ltb_lt in H1.
  destruct j; cbn; [assumption|]. specialize (IH e H2 j ltac:(lia)). lia.
Qed.

Lemma inc_skip : forall k re a b, increasing a re = true -> (k < length re -> b < nth k re 0) ->
  increasing b (skipn k re) = true.
Proof.
  induction k as [|k IH]; intros re a b H Hb.
  - destruct re as [|e r]; [reflexivity|]. cbn in *. apply andb_true_iff in H. destruct H as [_ H2].
    apply andb_true_iff. split; [apply Nat.ltb_lt; apply Hb; lia | assumption].
  - destruct re as [|e r]; [reflexivity|]. cbn [skipn]. cbn in H. apply andb_true_iff in H. destruct H as [_ H2].
    apply (IH r e b H2). intros Hk. apply Hb. cbn. lia.
Qed.

Lemma inc_firstn : forall n l b, increasing b l = true -> increasing b (firstn n l) = true.
Proof.
  induction n as [|n IH]; intros l b H; [reflexivity|]. destruct l as [|e r]; [reflexivity|].
  cbn in *. apply andb_true_iff in H. destruct H as [H1 H2]. rewrite H1. cbn. apply IH. assumption.
Qed.

Lemma nth_map_seq A (f : nat -> A) d s l i : i < l -> nth i (map f (seq s l)) d = f (s + i).
Proof.
  intros H. rewrite (nth_indep _ d (f 0)) by (rewrite map_length, seq_length; assumption).
  rewrite map_nth, seq_nth by assumption. reflexivity.
Qed.

Definition ree_upd (rehash hnv : bool) (x : Z) (ok : bool) (p : Z) : Z :=
  if hnv && negb ok then p else if rehash then combine_hashes x p else x.

Lemma ree_loop_length o l rehash hnv : forall ends vh valid st prev,
  length (ree_loop o l rehash hnv ends vh valid st prev) = length prev.
Proof.
  induction ends as [|e ends IH]; intros vh valid st prev; [reflexivity|].
  destruct vh as [|x vh]; [reflexivity|]. destruct valid as [|ok valid]; [reflexivity|].
  cbn [ree_loop]. rewrite app_length, map_length, IH, firstn_length, skipn_length. lia.
Qed.

Lemma ree_loop_nth o l rehash hnv : forall ends vh valid st prev,
  increasing (o + st) ends = true -> length vh = length ends -> length valid = length ends ->
  length prev = l - st ->
  forall i, i < l - st -> count_le ends (o + st + i) < length ends ->
    nth i (ree_loop o l rehash hnv ends vh valid st prev) 0%Z
    = ree_upd rehash hnv (nth (count_le ends (o + st + i)) vh 0%Z) (nth (count_le ends (o + st + i)) valid true)
              (nth i prev 0%Z).
Proof.
  induction ends as [|e ends IH]; intros vh valid st prev Hinc Lvh Lval Lprev i Hi Hk; [cbn in Hk; lia|].
  destruct vh as [|x vh]; [cbn in Lvh; lia|]. destruct valid as [|ok valid]; [cbn in Lval; lia|].
  cbn [increasing] in Hinc. apply andb_true_iff in Hinc. destruct Hinc as [He Hinc]. apply Nat.ltb_lt in He.
  cbn [ree_loop]. set (e' := Nat.min (e - o) l). set (n := e' - st).
  assert (He' : st < e') by (unfold e'; lia).
  destruct (Nat.lt_ge_cases i n) as [Hlt|Hge].
  - (* inside this run *)
    assert (E : (e <=? o + st + i) = false) by (apply Nat.leb_gt; unfold n, e' in *; lia).
    cbn [count_le]. rewrite E. cbn [nth].
    rewrite app_nth1 by (rewrite map_length, firstn_length; lia).
    rewrite (nth_indep _ 0%Z (ree_upd rehash hnv x ok 0%Z)) by (rewrite map_length, firstn_length; lia).
    rewrite map_nth. rewrite nth_firstn' by assumption. reflexivity.
  - (* a later run *)
    assert (Hel : e - o < l) by (unfold n, e' in *; lia).
    assert (Ee' : e' = e - o) by (unfold e'; lia).
    assert (E : (e <=? o + st + i) = true) by (apply Nat.leb_le; unfold n in *; lia).
    cbn [count_le] in *. rewrite E in *. cbn [nth length] in *.
    rewrite app_nth2 by (rewrite map_length, firstn_length; lia).
    rewrite map_length, firstn_length. replace (Nat.min n (length prev)) with n by lia.
    replace (o + st + i) with (o + e' + (i - n)) in * by (unfold n; lia).
    rewrite IH; try lia.
    + rewrite nth_skipn'. replace (n + (i - n)) with i by lia. reflexivity.
    + replace (o + e') with e by lia. assumption.
    + rewrite skipn_length. unfold n. lia.
Qed.

Lemma pvalid_win strict v a n : wfb strict v = true -> a + n <= plen v ->
  pvalid value v a n = win a n (pvalid value v 0 (plen v)).
Proof.
  intros W H. unfold pvalid. rewrite Nat.add_0_r. rewrite vwin_win; [reflexivity | | assumption].
  eapply pnulls_ok. eassumption.
Qed.

Lemma refines_runend re v off len :
  refines v -> wfb true (RunEnd re v off len) = true -> refines (RunEnd re v off len).
Proof.
  intros R H s l rehash prev Hle Hp. cbn [wfb] in H.
  apply andb_true_iff in H; destruct H as [H Hlast]. apply andb_true_iff in H; destruct H as [H Hinc].
  apply andb_true_iff in H; destruct H as [H Hlen]. apply andb_true_iff in H; destruct H as [Hwf Hplain].
  cbn [negb orb] in Hplain. apply Nat.leb_le in Hlast. apply Nat.eqb_eq in Hlen. cbn [plen] in Hle.
  cbn [hash_win decode]. rewrite win_map, win_seq by assumption.
  destruct (l =? 0) eqn:El.
  { apply Nat.eqb_eq in El. rewrite El in *. destruct prev; [reflexivity | cbn in Hp; lia]. }
  apply Nat.eqb_neq in El.
  set (o := off + s). set (start := count_le re o). set (last_k := count_le re (o + l - 1)).
  assert (Hlk : last_k < length re) by (apply count_le_lt_length; unfold o; lia).
  assert (Hsl : start <= last_k) by (apply count_le_mono; lia).
  replace (S last_k - start) with (S (last_k - start)) by lia. set (n := S (last_k - start)).
  assert (Hsn : start + n <= plen v) by (unfold n; lia).
  assert (Lends : length (win start n re) = n) by (apply win_length; lia).
  assert (Lvh : length (hash_win v start n false (repeat 0%Z n)) = n).
  { apply (refines_length true); try assumption. apply repeat_length. }
  assert (Lval : length (pvalid value v start n) = n).
  { rewrite (pvalid_win true) by assumption. apply win_length.
    unfold pvalid. rewrite Nat.add_0_r. rewrite vwin_length; [lia|]. eapply pnulls_ok. eassumption. }
  assert (Hstart : forall j, j < start -> nth j re 0 <= o) by (apply count_le_spec).
  assert (Hincw : increasing (o + 0) (win start n re) = true).
  { unfold win. apply inc_firstn. apply (inc_skip start re 0); [assumption|].
    intros Hs. rewrite Nat.add_0_r. apply count_le_spec. assumption. }
  apply nth_ext with (d := 0%Z) (d' := 0%Z).
  { rewrite ree_loop_length, map2_length, map_length, seq_length. lia. }
  intros i Hi. rewrite ree_loop_length in Hi.
  (* physical run of logical row i, relative to the sliced values *)
  assert (Hrel : count_le (win start n re) (o + 0 + i) = count_le re (off + (s + i)) - start /\
                 count_le re (off + (s + i)) - start < n /\ start <= count_le re (off + (s + i))).
  { replace (o + 0 + i) with (off + (s + i)) by (unfold o; lia).
    assert (M1 : start <= count_le re (off + (s + i))) by (apply count_le_mono; unfold o; lia).
    assert (M2 : count_le re (off + (s + i)) <= last_k) by (apply count_le_mono; unfold o; lia).
    rewrite (count_le_skip start re (off + (s + i))) in * by (try lia; intros j Hj; specialize (Hstart j Hj); unfold o in *; lia).
    unfold win. rewrite count_le_firstn by (unfold n; lia). lia. }
  destruct Hrel as (Hrel & Hrn & Hrs).
  rewrite (ree_loop_nth o l rehash _ _ _ _ 0 prev) by (try assumption; try lia; rewrite ?Lends, ?Hrel; lia).
  rewrite Hrel. set (k := count_le re (off + (s + i))) in *.
  rewrite (refines_zero true v start n) by (try assumption; lia).
  rewrite (pvalid_win true) by assumption. rewrite nth_win by lia.
  replace (start + (k - start)) with k by lia.
  rewrite (nth_map2 _ _ _ _ LNull 0%Z) by (rewrite ?map_length, ?seq_length; lia).
  rewrite nth_map_seq by lia. fold k.
  assert (Hkv : k < plen v) by lia.
  unfold ree_upd.
  assert (Hval : (negb (pnullcnt value v 0 (plen v) =? 0) && negb (nth k (pvalid value v 0 (plen v)) true))
                 = isnull (nth k (decode v) LNull)).
  { rewrite (plain_valid true v true) by assumption. rewrite negb_involutive.
    destruct (pnullcnt value v 0 (plen v) =? 0) eqn:E; [|reflexivity]. cbn.
    apply Nat.eqb_eq in E. pose proof (no_nulls_all_valid true v true Hwf E k Hkv) as Hv.
    rewrite (plain_valid true v true) in Hv by assumption. destruct (isnull (nth k (decode v) LNull)); [discriminate | reflexivity]. }
  rewrite Hval. destruct (nth k (decode v) LNull); cbn; reflexivity.
Qed.

(* ------------------------------------------------------------------ main refinement theorem *)
Notation create_hashes := (create_hashes value h hv rh rhv short).
Notation with_hashes := (with_hashes value h hv rh rhv short).
Notation row_hash := (row_hash value h hv rh rhv short).
Notation col_rows := (col_rows value).

Theorem kernel_refines_spec : forall p, wf p -> refines p.
Proof.
  unfold wf. induction p using phys_rect'; intros W.
  - apply refines_prim. exact W.
  - apply refines_bytes. exact W.
  - cbn [wfb] in W. apply andb_true_iff in W. destruct W. apply refines_view; assumption.
  - apply refines_dict; [|exact W]. cbn [wfb] in W.
    apply andb_true_iff in W; destruct W as [W _]. apply andb_true_iff in W; destruct W as [W _].
    apply andb_true_iff in W; destruct W as [_ W]. apply IHp; assumption.
  - apply refines_runend; [|exact W]. cbn [wfb] in W.
    apply andb_true_iff in W; destruct W as [W _]. apply andb_true_iff in W; destruct W as [W _].
    apply andb_true_iff in W; destruct W as [W _]. apply andb_true_iff in W; destruct W as [W _].
    apply IHp; assumption.
  - apply refines_list; [|exact W]. cbn [wfb] in W.
    apply andb_true_iff in W; destruct W as [W _]. apply andb_true_iff in W; destruct W as [W _].
    apply andb_true_iff in W; destruct W as [W _]. apply andb_true_iff in W; destruct W as [W _].
    apply IHp; assumption.
  - apply refines_struct; [|exact W]. cbn [wfb] in W.
    apply andb_true_iff in W; destruct W as [W _]. apply andb_true_iff in W; destruct W as [W _].
    rewrite forallb_forall in W. rewrite Forall_forall in H. apply Forall_forall.
    intros c Hin. apply H; auto.
Qed.

Definition good (n : nat) (c : phys) : Prop := wf c /\ plen c = n.

(* whole-array form: hashing an array = mapping the specification over its decoded rows *)
Lemma hash_array_spec n c rehash prev : good n c -> length prev = n ->
  hash_win c 0 (plen c) rehash prev = map2 (fun x q => spec x rehash q) (decode c) prev.
Proof.
  intros (W & L) Hp. rewrite kernel_refines_spec by (try assumption; lia).
  rewrite win_all; [reflexivity|]. symmetry. apply (decode_length true). exact W.
Qed.

(* create_hashes: the hash of row i is the fold of the specification over the row's logical key values *)
Theorem create_hashes_rows : forall cols n init, Forall (good n) cols -> length init = n ->
  create_hashes cols init = map2 (fun i a => row_hash (col_rows cols i) a) (seq 0 n) init.
Proof.
  intros cols n init HF Hi. unfold HashLayout.create_hashes, HashLayout.row_hash, HashLayout.col_rows.
  apply (fold_cols_rows decode (fun c => hash_win c 0 (plen c)) n); [|assumption].
  rewrite Forall_forall in HF. apply Forall_forall. intros c Hin. pose proof (HF c Hin) as G.
  split.
  - destruct G as (W & L). rewrite (decode_length true) by exact W. assumption.
  - intros rehash prev Hp. apply (hash_array_spec n); assumption.
Qed.

Lemma create_hashes_length cols n init : Forall (good n) cols -> length init = n ->
  length (create_hashes cols init) = n.
Proof. intros. rewrite (create_hashes_rows cols n) by assumption. rewrite map2_length, seq_length. lia. Qed.

Theorem multi_column_fold : forall cols n init i, Forall (good n) cols -> length init = n -> i < n ->
  nth i (create_hashes cols init) 0%Z = row_hash (col_rows cols i) (nth i init 0%Z).
Proof.
  intros cols n init i HF Hi Hlt. rewrite (create_hashes_rows cols n) by assumption.
  rewrite (nth_map2 _ _ _ _ 0 0%Z) by (rewrite ?seq_length; lia). rewrite seq_nth by assumption. reflexivity.
Qed.

(* two physical encodings of the same logical column hash identically, first or later key column,
   whatever the buffer held before *)
Theorem hash_layout_independent : forall p q rehash prev,
  wf p -> wf q -> decode p = decode q -> length prev = plen p ->
  hash_win p 0 (plen p) rehash prev = hash_win q 0 (plen q) rehash prev.
Proof.
  intros p q rehash prev Wp Wq E Hp.
  assert (L : plen p = plen q).
  { rewrite <- (decode_length true p Wp), <- (decode_length true q Wq), E. reflexivity. }
  rewrite (hash_array_spec (plen p) p), (hash_array_spec (plen p) q), E; try reflexivity; try assumption;
    repeat split; auto.
Qed.

Lemma col_rows_eq cols cols' : Forall2 (fun p q => decode p = decode q) cols cols' ->
  forall i, col_rows cols i = col_rows cols' i.
Proof.
  intros HF i. unfold HashLayout.col_rows. induction HF as [|p q ps qs E _ IH]; cbn; [reflexivity|].
  rewrite E, IH. reflexivity.
Qed.

(* the same for whole key-column lists *)
Theorem create_hashes_layout_independent : forall cols cols' n init,
  Forall (good n) cols -> Forall (good n) cols' -> Forall2 (fun p q => decode p = decode q) cols cols' ->
  length init = n -> create_hashes cols init = create_hashes cols' init.
Proof.
  intros cols cols' n init G G' E Hi. rewrite (create_hashes_rows cols n), (create_hashes_rows cols' n) by assumption.
  apply nth_ext with (d := 0%Z) (d' := 0%Z); [rewrite !map2_length; reflexivity|].
  intros i Hlt. rewrite map2_length, seq_length in Hlt.
  rewrite !(nth_map2 _ _ _ _ 0 0%Z) by (rewrite ?seq_length; lia).
  rewrite (col_rows_eq cols cols' E). reflexivity.
Qed.

(* equal logical rows (possibly in different batches / encodings / positions) get equal hashes *)
Theorem equal_rows_equal_hashes : forall cols cols' n n' init init' i j,
  Forall (good n) cols -> Forall (good n') cols' -> length init = n -> length init' = n' -> i < n -> j < n' ->
  col_rows cols i = col_rows cols' j -> nth i init 0%Z = nth j init' 0%Z ->
  nth i (create_hashes cols init) 0%Z = nth j (create_hashes cols' init') 0%Z.
Proof.
  intros. rewrite (multi_column_fold cols n), (multi_column_fold cols' n') by assumption. congruence.
Qed.

Theorem with_hashes_eq_create_hashes : forall c cols,
  with_hashes (c :: cols) = create_hashes (c :: cols) (repeat 0%Z (plen c)).
Proof. reflexivity. Qed.

End Proofs.

(* ------------------------------------------------------------------ the property fails for encoded values *)
(* combine_hashes(0, prev) never gives prev back *)
Lemma combine_zero_moves prev : combine_hashes 0 prev <> prev.
Proof.
  unfold combine_hashes, M64. intros E.
  assert (0 <= prev < 2 ^ 64)%Z by (rewrite <- E; apply Z.mod_pos_bound; reflexivity).
  change ((17 * 37 + 0) mod 2 ^ 64 * 37)%Z with 23273%Z in E.
  assert (Hc : (prev + 23273 < 2 ^ 64 \/ 2 ^ 64 <= prev + 23273)%Z) by lia.
  destruct Hc as [Hc|Hc].
  - rewrite Z.mod_small in E by lia. lia.
  - replace (23273 + prev)%Z with ((23273 + prev - 2 ^ 64) + 1 * 2 ^ 64)%Z in E by lia.
    rewrite Z.mod_add in E by (intro X; discriminate X). rewrite Z.mod_small in E by lia. lia.
Qed.
