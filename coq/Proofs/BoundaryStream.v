(* C26: the AlignedBoundaryStream model yields, for every chunking of every GET, exactly
   slice file (nls s) (nls e): from the first record start >= s to the first record start >= e. *)
From Coq Require Import List ZArith Bool Lia.
From DF Require Import Base.Prelude Model.Boundary Proofs.BoundaryLists.
Import ListNotations.
Open Scope Z_scope.

Lemma emit_ok c o : emit c (ROk o) = ROk (c :: o).
Proof. reflexivity. Qed.

Lemma emits_ok cs o : emits cs (ROk o) = ROk (cs ++ o).
Proof. reflexivity. Qed.

(* ScanningLastTerminator over one `inner`: yields everything up to and including the first
   terminator, or everything *)
Lemma last_inner_spec t inner : forall consumed,
  match find_term t (concat inner) with
  | Some k => exists o, last_inner t consumed inner = (o, None) /\
                        concat o = firstn (S k) (concat inner)
  | None => exists o, last_inner t consumed inner = (o, Some (consumed + zlen (concat inner))) /\
                      concat o = concat inner
  end.
Proof.
  induction inner as [|c rest IH]; intros consumed.
  - cbn [concat find_term last_inner]. exists []. split; auto. rewrite zlen_nil. do 2 f_equal. lia.
  - cbn [concat last_inner]. rewrite find_term_app.
    destruct (find_term t c) as [p|] eqn:Fc.
    + exists [firstn (S p) c]. split; auto. cbn [concat]. rewrite app_nil_r.
      apply find_term_some in Fc as (Lp & _).
      rewrite firstn_app. replace (S p - length c)%nat with O by lia.
      cbn [firstn]. now rewrite app_nil_r.
    + specialize (IH (consumed + zlen c)).
      destruct (find_term t (concat rest)) as [k|] eqn:Fr; cbn [option_map].
      * destruct IH as (o & E & Co). exists (c :: o). rewrite E. split; auto.
        cbn [concat]. rewrite Co, firstn_app.
        rewrite (firstn_all2 (n := S (length c + k))) by lia.
        f_equal. f_equal. lia.
      * destruct IH as (o & E & Co). exists (c :: o). rewrite E. split.
        -- do 2 f_equal. rewrite zlen_app. lia.
        -- cbn [concat]. now rewrite Co.
Qed.

Lemma pending_of (r : list Z) :
  match (match r with [] => None | _ :: _ => Some r end) with Some p => p | None => [] end = r.
Proof. destruct r; reflexivity. Qed.

Section StreamProofs.
  Variable t : Z.
  Variable L : Z.
  Variable chunker : Z -> Z -> list (list Z).
  Variable file : list Z.
  Hypothesis HL : 1 <= L.
  Hypothesis Hsize : zlen file < U64MAX.
  Hypothesis Hck : chunker_ok file chunker.
  Variable fstart : Z.
  Hypothesis Hfs : 0 <= fstart.

  Notation size := (zlen file).

  (* ScanningLastTerminator with overflow GETs: from pos, yields up to and including the first
     terminator at or after pos (or to the end of the file) *)
  Lemma last_gets_spec : forall fuel consumed inner ge,
    0 <= consumed -> fstart + consumed <= ge -> ge <= size ->
    concat inner = slice file (fstart + consumed) ge ->
    (Z.to_nat (size - ge) < fuel)%nat ->
    exists o, last_gets t L chunker size fstart fuel consumed inner = ROk o /\
              concat o = slice file (fstart + consumed) (eol t file (fstart + consumed)).
  Proof.
    induction fuel as [|fuel IH]; intros consumed inner ge Hc Hge Hge2 Hin Hfuel; [lia|].
    cbn [last_gets]. set (pos := fstart + consumed) in *.
    pose proof (last_inner_spec t inner consumed) as LI. rewrite Hin in LI.
    destruct (find_term t (slice file pos ge)) as [k|] eqn:F.
    - destruct LI as (o & E & Co). rewrite E. exists o. split; auto.
      rewrite Co. rewrite (eol_hit t file pos ge k) by (auto; lia).
      pose proof (find_term_some_z _ _ _ F) as Lk. rewrite slice_len in Lk by lia.
      rewrite firstn_slice by lia. f_equal. lia.
    - destruct LI as (o & E & Co). rewrite E. rewrite slice_len by lia.
      replace (fstart + (consumed + (ge - pos))) with ge by lia.
      rewrite (eol_skip t file pos ge) by (auto; lia).
      destruct (Z.ltb_spec ge size) as [Hlt|Hnlt].
      + set (ge' := Z.min (sat_add ge L) size).
        assert (Hge' : ge < ge' <= size) by (unfold ge', sat_add; lia).
        destruct (IH (consumed + (ge - pos)) (chunker ge ge') ge') as (o' & E' & Co').
        * lia.
        * lia.
        * lia.
        * replace (fstart + (consumed + (ge - pos))) with ge by lia. apply Hck; lia.
        * lia.
        * rewrite E'. rewrite emits_ok. exists (o ++ o'). split; auto.
          rewrite concat_app, Co, Co'.
          replace (fstart + (consumed + (ge - pos))) with ge by lia.
          apply slice_app; [lia|]. apply eol_bounds. lia.
      + exists o. split; auto. rewrite Co. assert (ge = size) by lia. subst ge.
        now rewrite eol_past by lia.
  Qed.

  Variable end_ : Z.
  Variable ge : Z.          (* end of the initial GET *)
  Hypothesis Hge : ge <= size.
  (* the last partition streams to EOF; any other stops at the first record start >= end *)
  Hypothesis Hend : (end_ = U64MAX /\ ge = size) \/ (0 < end_ < size /\ end_ <= ge).
  Variable fuel : nat.
  Hypothesis Hfuel : (Z.to_nat size < fuel)%nat.

  Definition tgt : Z := if end_ =? U64MAX then size else nls t file end_.

  Lemma tgt_bounds : 0 <= tgt <= size.
  Proof.
    unfold tgt. destruct (end_ =? U64MAX). { pose proof (zlen_nonneg file). lia. }
    apply nls_bounds.
  Qed.

  (* one chunk in FetchingChunks; [kc] is what polling on in FetchingChunks would produce *)
  Lemma fetch_step c pb pa rest consumed' kc :
    pa = pb + zlen c -> 0 <= pb < end_ -> pa <= ge -> c = slice file pb pa ->
    0 <= consumed' -> fstart + consumed' = pa -> concat rest = slice file pa ge ->
    (pa < end_ -> exists o', kc = ROk o' /\ concat o' = slice file pa tgt) ->
    exists o,
      match fetch_chunk t end_ pa c with
      | FCont o => emit o kc
      | FDone o => ROk [o]
      | FLast o => emit o (last_gets t L chunker size fstart fuel consumed' rest)
      | FPanic => RPanic
      end = ROk o /\ concat o = slice file pb tgt.
  Proof.
    intros Hpa Hpb Hpage Hc Hc' Hpos Hrest Hkc.
    pose proof (zlen_nonneg c) as Hcl.
    assert (HLG : exists o, last_gets t L chunker size fstart fuel consumed' rest = ROk o /\
                            concat o = slice file pa (eol t file pa)).
    { rewrite <- Hpos. apply (last_gets_spec fuel consumed' rest ge); try lia.
      now rewrite Hpos. }
    unfold fetch_chunk.
    destruct (Z.ltb_spec pa end_) as [Hlt|Hnlt].
    - (* whole chunk before the end boundary *)
      destruct (Hkc Hlt) as (o' & -> & Co'). rewrite emit_ok. exists (c :: o'). split; auto.
      cbn [concat]. rewrite Co', Hc. apply slice_app; [lia|].
      unfold tgt. destruct Hend as [[-> ->]|[H1 H2]].
      + rewrite Z.eqb_refl. lia.
      + destruct (Z.eqb_spec end_ U64MAX); [lia|].
        pose proof (nls_ge t file end_). lia.
    - assert (Hnm : 0 < end_ < size /\ end_ <= ge) by (destruct Hend as [[-> ->]|]; [lia|auto]).
      assert (Htgt : tgt = eol t file (end_ - 1)).
      { unfold tgt. destruct (Z.eqb_spec end_ U64MAX); [lia|]. apply nls_pos. lia. }
      destruct (Z.eqb_spec pa end_) as [Heq|Hne].
      + (* chunk ends exactly at the boundary *)
        assert (Hcne : c <> []) by (intros ->; rewrite zlen_nil in Hpa; lia).
        destruct (nonempty_snoc c Hcne) as (c' & x & Ec).
        assert (Hx : [x] = slice file (end_ - 1) end_).
        { pose proof (zlen_nonneg c').
          assert (Hz : zlen c = zlen c' + 1) by (rewrite Ec, zlen_app; reflexivity).
          assert (Hc2 : c' ++ [x] = slice file pb pa) by (rewrite <- Ec; exact Hc).
          apply app_is_slice in Hc2 as (_ & _ & Hc2); try lia.
          rewrite Hc2. f_equal; lia. }
        destruct (last_is t c) eqn:Hl.
        * exists [c]. split; auto. cbn [concat]. rewrite app_nil_r.
          rewrite Ec in Hl. destruct (Z.eq_dec x t) as [->|Hxt].
          2:{ exfalso. unfold last_is in Hl. rewrite rev_app_distr in Hl. cbn in Hl.
              apply Z.eqb_eq in Hl. contradiction. }
          rewrite Htgt, (eol_hit t file (end_ - 1) end_ O).
          -- rewrite Hc. f_equal. lia.
          -- lia.
          -- rewrite <- Hx. apply find_term_cons_hit.
        * destruct HLG as (o' & -> & Co'). rewrite emit_ok. exists (c :: o'). split; auto.
          cbn [concat]. rewrite Co', Hc. rewrite Htgt.
          rewrite (eol_skip t file (end_ - 1) end_); try lia.
          -- rewrite Heq. apply slice_app; [lia|]. apply eol_bounds. lia.
          -- rewrite <- Hx. rewrite Ec in Hl. apply last_is_false in Hl.
             cbn [find_term]. destruct (Z.eqb_spec x t); [contradiction|reflexivity].
      + (* chunk crosses the boundary *)
        assert (Hgt : end_ < pa) by lia.
        destruct (Z.ltb_spec (pa - zlen c) 0); [lia|].
        destruct (Z.ltb_spec (end_ - (pa - zlen c)) 0); [lia|].
        destruct (Z.ltb_spec (end_ - (pa - zlen c) - 1) 0); [lia|].
        destruct (Z.ltb_spec (zlen c) (end_ - (pa - zlen c) - 1)); [lia|].
        replace (end_ - (pa - zlen c) - 1) with (end_ - 1 - pb) by lia.
        assert (Hsk : skipn (Z.to_nat (end_ - 1 - pb)) c = slice file (end_ - 1) pa).
        { rewrite Hc, skipn_slice_in by lia. f_equal. lia. }
        rewrite Hsk.
        destruct (find_term t (slice file (end_ - 1) pa)) as [rel|] eqn:F.
        * exists [firstn (S (Z.to_nat (end_ - 1 - pb) + rel)) c]. split; auto.
          cbn [concat]. rewrite app_nil_r.
          rewrite Htgt, (eol_hit t file (end_ - 1) pa rel) by (auto; lia).
          pose proof (find_term_some_z _ _ _ F) as Lr. rewrite slice_len in Lr by lia.
          rewrite Hc, firstn_slice by lia. f_equal. lia.
        * destruct HLG as (o' & -> & Co'). rewrite emit_ok. exists (c :: o'). split; auto.
          cbn [concat]. rewrite Co', Hc, Htgt.
          rewrite (eol_skip t file (end_ - 1) pa) by (auto; lia).
          apply slice_app; [lia|]. apply eol_bounds. lia.
  Qed.

  (* FetchingChunks polling `inner` from position pos < end *)
  Lemma fetch_inner_spec : forall inner consumed,
    0 <= consumed -> fstart + consumed <= ge -> fstart + consumed < end_ ->
    concat inner = slice file (fstart + consumed) ge ->
    exists o, fetch_inner t L chunker size fstart end_ fuel consumed inner = ROk o /\
              concat o = slice file (fstart + consumed) tgt.
  Proof.
    induction inner as [|c rest IH]; intros consumed Hc Hle Hlt Hin.
    - cbn [fetch_inner]. exists []. split; auto. cbn [concat] in *.
      assert (Hz : zlen (slice file (fstart + consumed) ge) = 0) by (rewrite <- Hin; reflexivity).
      rewrite slice_len in Hz by lia.
      symmetry. apply slice_empty. unfold tgt.
      destruct Hend as [[-> ->]|[H1 H2]]; [rewrite Z.eqb_refl|]; lia.
    - cbn [fetch_inner]. cbn [concat] in Hin.
      apply app_is_slice in Hin as (H1 & H2 & H3); try lia.
      pose proof (zlen_nonneg c).
      apply (fetch_step c (fstart + consumed) (fstart + (consumed + zlen c)) rest (consumed + zlen c));
        try lia.
      + rewrite H2 at 1. f_equal. lia.
      + rewrite H3. f_equal. lia.
      + intros Hlt'. apply IH; try lia. rewrite H3. f_equal. lia.
  Qed.

  (* FetchingChunks entered with a pending remainder *)
  Lemma fetch_pending_spec pending consumed inner pb :
    0 <= consumed -> fstart + consumed <= ge ->
    pb = fstart + consumed - zlen (match pending with Some p => p | None => [] end) ->
    0 <= pb < end_ ->
    (match pending with Some p => p | None => [] end) ++ concat inner = slice file pb ge ->
    exists o, fetch_pending t L chunker size fstart end_ fuel pending consumed inner = ROk o /\
              concat o = slice file pb tgt.
  Proof.
    intros Hc Hle Hpb Hlt Hin. destruct pending as [p|]; cbn [fetch_pending].
    - pose proof (zlen_nonneg p) as Hp.
      apply app_is_slice in Hin as (H1 & H2 & H3); try lia.
      apply (fetch_step p pb (fstart + consumed) inner consumed); try lia.
      + rewrite H2 at 1. f_equal. lia.
      + rewrite H3. f_equal. lia.
      + intros Hlt'. apply fetch_inner_spec; try lia. rewrite H3. f_equal. lia.
    - rewrite zlen_nil in Hpb. cbn [app] in Hin. replace pb with (fstart + consumed) in * by lia.
      apply fetch_inner_spec; auto; lia.
  Qed.

  (* ScanningFirstTerminator: nothing but non-terminators seen in [fstart, pos) *)
  Lemma first_inner_spec : forall inner consumed,
    fstart + 1 < end_ ->
    0 <= consumed -> fstart + consumed <= ge ->
    concat inner = slice file (fstart + consumed) ge ->
    find_term t (slice file fstart (fstart + consumed)) = None ->
    exists o, first_inner t L chunker size fstart end_ fuel consumed inner = ROk o /\
              concat o = slice file (nls t file (fstart + 1)) tgt.
  Proof.
    induction inner as [|c rest IH]; intros consumed Hse Hc Hle Hin Hno.
    - cbn [first_inner]. exists []. split; auto. cbn [concat] in *.
      assert (Hz : zlen (slice file (fstart + consumed) ge) = 0) by (rewrite <- Hin; reflexivity).
      rewrite slice_len in Hz by lia. assert (Hpos : fstart + consumed = ge) by lia.
      rewrite Hpos in Hno. symmetry. apply slice_empty.
      rewrite nls_pos by lia. replace (fstart + 1 - 1) with fstart by lia.
      unfold tgt. destruct Hend as [[-> ->]|[H1 H2]].
      + rewrite Z.eqb_refl. rewrite (eol_skip t file fstart size) by (auto; lia).
        rewrite eol_past; lia.
      + destruct (Z.eqb_spec end_ U64MAX); [lia|].
        rewrite nls_pos by lia.
        assert (Hno1 : find_term t (slice file fstart (end_ - 1)) = None).
        { rewrite <- (slice_app file fstart (end_ - 1) ge) in Hno by lia.
          now apply find_term_none_app in Hno. }
        rewrite (eol_skip t file fstart (end_ - 1)) by (auto; lia). lia.
    - cbn [first_inner]. cbn [concat] in Hin.
      apply app_is_slice in Hin as (H1 & H2 & H3); try lia.
      pose proof (zlen_nonneg c) as Hcl.
      set (pos := fstart + consumed) in *.
      destruct (find_term t c) as [p|] eqn:F.
      + (* terminator found at file offset pos + p *)
        pose proof (find_term_some_z _ _ _ F) as Lp.
        assert (Hnls : nls t file (fstart + 1) = pos + Z.of_nat p + 1).
        { rewrite nls_pos by lia. replace (fstart + 1 - 1) with fstart by lia.
          rewrite (eol_skip t file fstart pos) by (auto; lia).
          apply (eol_hit t file pos (pos + zlen c)); [lia|]. now rewrite <- H2. }
        assert (Hrem : skipn (S p) c = slice file (pos + Z.of_nat p + 1) (pos + zlen c)).
        { rewrite H2 at 1. rewrite skipn_slice_in by lia. f_equal. lia. }
        assert (Hrl : zlen (skipn (S p) c) = zlen c - Z.of_nat p - 1).
        { unfold zlen. rewrite skipn_length. unfold zlen in *. lia. }
        rewrite Hrl.
        replace (fstart + (consumed + zlen c) - (zlen c - Z.of_nat p - 1)) with (pos + Z.of_nat p + 1) by lia.
        destruct (Z.ltb_spec (pos + Z.of_nat p + 1) 0); [lia|].
        rewrite Hnls.
        destruct (Z.leb_spec end_ (pos + Z.of_nat p + 1)) as [Hpast|Hin_range].
        * (* aligned start at or past the end boundary: nothing *)
          exists []. split; auto. cbn [concat]. symmetry. apply slice_empty.
          unfold tgt. unfold zlen in *.
          destruct Hend as [[-> ->]|[He1 He2]]; [unfold U64MAX in *; lia|].
          destruct (Z.eqb_spec end_ U64MAX); [unfold U64MAX in *; lia|].
          rewrite (nls_same t file (fstart + 1) end_); lia.
        * apply (fetch_pending_spec
                   (match skipn (S p) c with [] => None | _ :: _ => Some (skipn (S p) c) end)
                   (consumed + zlen c) rest (pos + Z.of_nat p + 1)); try lia.
          -- rewrite pending_of, Hrl. lia.
          -- rewrite pending_of, Hrem, H3. apply slice_app; lia.
      + apply IH; try lia.
        * rewrite H3. f_equal. lia.
        * replace (fstart + (consumed + zlen c)) with (pos + zlen c) by lia.
          rewrite <- (slice_app file fstart pos (pos + zlen c)) by lia.
          apply find_term_none_app. split; auto. now rewrite <- H2.
  Qed.
End StreamProofs.

(* AlignedBoundaryStream::new + polling to exhaustion *)
Theorem stream_run_slice t L chunker file s e :
  1 <= L -> zlen file < U64MAX -> chunker_ok file chunker -> 0 <= s -> 0 <= e ->
  exists o, stream_run t L chunker (zlen file) s e = ROk o /\
            concat o = slice file (nls t file s) (nls t file e).
Proof.
  intros HL Hsize Hck Hs He. unfold stream_run.
  pose proof (zlen_nonneg file) as Hz.
  destruct (Z.leb_spec e s) as [Hes|Hse]; cbn [orb].
  { exists []. split; auto. symmetry. apply slice_empty. now apply nls_mono. }
  destruct (Z.leb_spec (zlen file) s) as [Hzs|Hsz]; cbn [orb].
  { exists []. split; auto. symmetry. apply slice_past. rewrite nls_past; lia. }
  remember (Z.min (sat_add e L) (zlen file)) as ge eqn:Ege.
  remember (if zlen file <=? e then U64MAX else e) as end_ eqn:Eend.
  assert (Hge : ge <= zlen file) by lia.
  assert (Hend : end_ = U64MAX /\ ge = zlen file \/ 0 < end_ < zlen file /\ end_ <= ge).
  { subst end_ ge. unfold sat_add. destruct (Z.leb_spec (zlen file) e); cbv iota; [left|right]; lia. }
  assert (Htgt : tgt t file end_ = nls t file e).
  { unfold tgt. subst end_. destruct (Z.leb_spec (zlen file) e); cbv iota.
    - rewrite Z.eqb_refl. symmetry. now apply nls_past.
    - destruct (Z.eqb_spec e U64MAX); [lia|reflexivity]. }
  assert (Hfuel : (Z.to_nat (zlen file) < S (Z.to_nat (zlen file)))%nat) by lia.
  destruct (Z.eqb_spec s 0) as [->|Hs0].
  - destruct (fetch_inner_spec t L chunker file HL Hsize Hck 0 (Z.le_refl 0) end_ ge Hge Hend
                _ Hfuel (chunker 0 ge) 0) as (o & E & Co); try lia.
    + apply Hck; lia.
    + exists o. split; auto. rewrite Co, Htgt, (nls_nonpos t file 0) by lia. reflexivity.
  - destruct (first_inner_spec t L chunker file HL Hsize Hck (s - 1) ltac:(lia) end_ ge Hge Hend
                _ Hfuel (chunker (s - 1) ge) 0) as (o & E & Co); try lia.
    + subst end_. destruct (Z.leb_spec (zlen file) e); cbv iota; lia.
    + subst ge. unfold sat_add. lia.
    + replace (s - 1 + 0) with (s - 1) by lia. apply Hck; subst ge; unfold sat_add; lia.
    + rewrite slice_empty by lia. reflexivity.
    + exists o. split; auto. rewrite Co, Htgt. do 2 f_equal. lia.
Qed.
