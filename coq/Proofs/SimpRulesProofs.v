(* C04 -- soundness of the simplifier's rewrite rules over the reference semantics (Model/SimpRules.v). *)
From Coq Require Import List ZArith Bool Lia.
From DF Require Import Base.Prelude Model.RefSQL Proofs.RefSQLLaws Model.SimpRules.
Import ListNotations.
Open Scope Z_scope.

(* ------------------------------------------------------------------ equations of [sev] for the list forms *)
Lemma sev_inlist : forall en neg a l,
  sev en (EInList neg a l) =
  (x <- sev en a;; vs <- mapM (sev en) l;; Ok (value_of_tv (if neg then not_in3 x vs else in3 x vs))).
Proof.
  intros. cbn [sev]. destruct (sev en a); [|reflexivity]. cbn [bind].
  match goal with |- bind ?x _ = bind ?y _ => assert (E : x = y); [|rewrite E; reflexivity] end.
  induction l as [|e l IH]; [reflexivity|]. cbn [mapM]. rewrite <- IH. reflexivity.
Qed.
Lemma sev_case : forall en ws els, sev en (ECase ws els) = case_eval en ws els.
Proof.
  intros. induction ws as [|[w t] ws IH]; [reflexivity|]. cbn [case_eval]. rewrite <- IH. reflexivity.
Qed.
Lemma sev_coalesce : forall en l, sev en (ECoalesce l) = coal_eval en l.
Proof.
  intros. induction l as [|e l IH]; [reflexivity|]. cbn [coal_eval]. rewrite <- IH. reflexivity.
Qed.

(* ------------------------------------------------------------------ adequacy: [sev] is RefSQL's [eval_expr] without the fuel *)
Lemma list_max_nat_In : forall l x, In x l -> (x <= list_max_nat l)%nat.
Proof.
  induction l as [|y l IH]; intros x H; [contradiction|]. cbn [list_max_nat fold_right] in *.
  destruct H as [->|H]; [lia|]. specialize (IH _ H). unfold list_max_nat in IH. lia.
Qed.
Lemma mapM_ext_in_c04 : forall {A B} (f g : A -> res B) l, (forall x, In x l -> f x = g x) -> mapM f l = mapM g l.
Proof.
  induction l as [|x l IH]; intros H; [reflexivity|]. cbn [mapM]. rewrite (H x (or_introl eq_refl)).
  rewrite IH; [reflexivity|]. intros y Hy. apply H. right. exact Hy.
Qed.

Theorem sev_adequate : forall f e d en,
  subq_free e = true -> (edepth e < f)%nat -> eval_expr f d en e = sev en e.
Proof.
  induction f as [|f IH]; intros e d en SF DP; [lia|].
  destruct e; cbn [subq_free edepth] in SF, DP; try discriminate SF;
    repeat match goal with H : _ && _ = true |- _ => apply andb_true_iff in H; destruct H end.
  - reflexivity.
  - reflexivity.
  - cbn [eval_expr sev]. rewrite !IH by (assumption || lia). reflexivity.
  - cbn [eval_expr sev]. rewrite !IH by (assumption || lia). reflexivity.
  - cbn [eval_expr sev]. rewrite !IH by (assumption || lia). reflexivity.
  - cbn [eval_expr sev]. rewrite !IH by (assumption || lia). reflexivity.
  - cbn [eval_expr sev]. rewrite !IH by (assumption || lia). reflexivity.
  - cbn [eval_expr sev]. rewrite !IH by (assumption || lia). reflexivity.
  - cbn [eval_expr sev]. rewrite !IH by (assumption || lia). reflexivity.
  - cbn [eval_expr sev]. rewrite !IH by (assumption || lia). reflexivity.
  - (* IN list *)
    rewrite sev_inlist. cbn [eval_expr]. rewrite IH by (assumption || lia).
    rewrite (mapM_ext_in_c04 (eval_expr f d en) (sev en) l); [reflexivity|].
    intros x Hx. apply IH.
    + rewrite forallb_forall in H0. apply H0. exact Hx.
    + pose proof (list_max_nat_In (map edepth l) (edepth x) (in_map edepth l x Hx)). lia.
  - (* CASE *)
    rewrite sev_case. cbn [eval_expr].
    assert (EL : match els with Some e => eval_expr f d en e | None => Ok VNull end =
                 match els with Some e => sev en e | None => Ok VNull end).
    { destruct els as [x|]; [|reflexivity]. apply IH; [assumption|lia]. }
    assert (WS : forall w t, In (w, t) ws -> eval_expr f d en w = sev en w /\ eval_expr f d en t = sev en t).
    { intros w t Hin. rewrite forallb_forall in H. specialize (H _ Hin). cbn in H. apply andb_true_iff in H. destruct H.
      pose proof (list_max_nat_In _ _ (in_map (fun wt : expr * expr => let (w, t) := wt in Nat.max (edepth w) (edepth t)) ws _ Hin)) as M.
      cbn in M. split; apply IH; try assumption; lia. }
    clear H H0 DP. induction ws as [|[w t] ws IHws]; [exact EL|].
    cbn [case_eval]. destruct (WS w t (or_introl eq_refl)) as [Ew Et]. unfold sevp. rewrite Ew, Et.
    rewrite IHws; [reflexivity|]. intros w' t' Hin. apply WS. right. exact Hin.
  - (* COALESCE *)
    rewrite sev_coalesce. cbn [eval_expr].
    assert (WS : forall x, In x l -> eval_expr f d en x = sev en x).
    { intros x Hx. apply IH.
      - rewrite forallb_forall in SF. apply SF. exact Hx.
      - pose proof (list_max_nat_In (map edepth l) (edepth x) (in_map edepth l x Hx)). lia. }
    clear SF DP. induction l as [|x l IHl]; [reflexivity|].
    cbn [coal_eval]. rewrite (WS x (or_introl eq_refl)). destruct (sev en x) as [v|]; [|reflexivity]. cbn [bind].
    destruct (is_null v); [|reflexivity]. apply IHl. intros y Hy. apply WS. right. exact Hy.
  - cbn [eval_expr sev]. rewrite !IH by (assumption || lia). reflexivity.
Qed.

(* the rule theorems transfer to RefSQL's evaluator at every sufficient fuel *)
Theorem rw_eval_expr : forall en l r, rw en l r ->
  forall f d v, subq_free l = true -> subq_free r = true -> (edepth l < f)%nat -> (edepth r < f)%nat ->
  eval_expr f d en l = Ok v -> eval_expr f d en r = Ok v.
Proof.
  intros en l r H f d v Sl Sr Dl Dr E. rewrite sev_adequate in * by assumption. apply H. exact E.
Qed.

(* ------------------------------------------------------------------ automation *)
Ltac dsev :=
  repeat match goal with
  | |- context [sev ?en ?e] => is_var e; let x := fresh "x" in
      set (x := sev en e) in *; clearbody x; destruct x as [[| ? | [|] | ? | ? ?]|]
  | H : context [sev ?en ?e] |- _ => is_var e; let x := fresh "x" in
      set (x := sev en e) in *; clearbody x; destruct x as [[| ? | [|] | ? | ? ?]|]
  end.
Ltac use_guards :=
  repeat match goal with
  | H : forall v, Ok ?a = Ok v -> _ |- _ => specialize (H _ eq_refl)
  | H : _ \/ _ |- _ => destruct H
  | H : exists _, _ |- _ => destruct H
  end.
Ltac fin := cbn in *; use_guards; try discriminate; try congruence; try reflexivity; try assumption.
Ltac rule := unfold rw, nonnull_at, bool_at, sevp in *; intros; cbn [sev] in *; dsev; fin.

Lemma vcmp_nn_refl : forall v, vcmp_nn v v = Eq.
Proof.
  destruct v as [| z | [|] | s | n d]; cbn; try reflexivity; try apply Z.compare_refl.
  induction s as [|c s IH]; cbn; [reflexivity|]. rewrite Z.compare_refl. exact IH.
Qed.
Lemma value_tv_id : forall v t, tv_of_value v = Ok t -> value_of_tv t = v.
Proof. destruct v as [| z | [|] | s | n d]; cbn; intros t H; inversion H; reflexivity. Qed.

(* ================================================================== Eq / NotEq *)
Theorem rule_eq_self_sound : forall en A, nonnull_at en A -> rw en (ECmp CEq A A) (ELit (VBool true)).
Proof.
  unfold rw, nonnull_at. intros en A NN v H. cbn [sev] in *. destruct (sev en A) as [x|]; [|discriminate]. cbn [bind] in H.
  specialize (NN _ eq_refl). unfold cmp3, vcompare in H. destruct x; try congruence; rewrite vcmp_nn_refl in H; exact H.
Qed.
Theorem rule_eq_self_nullable_sound : forall en A, rw en (ECmp CEq A A) (EOr (EIsNull true A) (ELit VNull)).
Proof.
  unfold rw. intros en A v H. cbn [sev] in *. destruct (sev en A) as [x|]; [|discriminate]. cbn [bind] in *.
  unfold cmp3, vcompare in H. destruct x; cbn; try exact H; rewrite vcmp_nn_refl in H; exact H.
Qed.
Theorem rule_eq_self_guard_needed : exists en A, sev en (ECmp CEq A A) = Ok VNull.
Proof. exists [[VNull]], (ECol 0 0). reflexivity. Qed.
Theorem rule_ne_self_nullable_sound : forall en A, rw en (ECmp CNe A A) (EAnd (EIsNull false A) (ELit VNull)).
Proof.
  unfold rw. intros en A v H. cbn [sev] in *. destruct (sev en A) as [x|]; [|discriminate]. cbn [bind] in *.
  unfold cmp3, vcompare in H. destruct x; cbn; try exact H; rewrite vcmp_nn_refl in H; exact H.
Qed.

Theorem rule_eq_true_sound : forall en A, bool_at en A -> rw en (ECmp CEq A (ELit (VBool true))) A.
Proof. rule. Qed.
Theorem rule_eq_false_sound : forall en A, bool_at en A -> rw en (ECmp CEq A (ELit (VBool false))) (ENot A).
Proof. rule. Qed.
Theorem rule_eq_null_sound : forall en op A, rw en (ECmp op A (ELit VNull)) (ELit VNull).
Proof. rule. Qed.
Theorem rule_null_eq_sound : forall en op A, rw en (ECmp op (ELit VNull) A) (ELit VNull).
Proof. rule. Qed.
Theorem rule_true_eq_sound : forall en A, bool_at en A -> rw en (ECmp CEq (ELit (VBool true)) A) A.
Proof. rule. Qed.
Theorem rule_false_eq_sound : forall en A, bool_at en A -> rw en (ECmp CEq (ELit (VBool false)) A) (ENot A).
Proof. rule. Qed.
Theorem rule_ne_true_sound : forall en A, bool_at en A -> rw en (ECmp CNe A (ELit (VBool true))) (ENot A).
Proof. rule. Qed.
Theorem rule_ne_false_sound : forall en A, bool_at en A -> rw en (ECmp CNe A (ELit (VBool false))) A.
Proof. rule. Qed.
Theorem rule_true_ne_sound : forall en A, bool_at en A -> rw en (ECmp CNe (ELit (VBool true)) A) (ENot A).
Proof. rule. Qed.
Theorem rule_false_ne_sound : forall en A, bool_at en A -> rw en (ECmp CNe (ELit (VBool false)) A) A.
Proof. rule. Qed.
(* the type guard matters: without it [3 = true] (FALSE in the totalised reference) would become [3] *)
Theorem rule_eq_true_guard_needed : exists en A, ~ rw en (ECmp CEq A (ELit (VBool true))) A.
Proof. exists [], (ELit (VInt 3)). intros H. specialize (H _ eq_refl). discriminate H. Qed.

Theorem rule_arith_null_sound : forall en op A, rw en (EArith op A (ELit VNull)) (ELit VNull).
Proof. rule. Qed.
Theorem rule_null_arith_sound : forall en op A, rw en (EArith op (ELit VNull) A) (ELit VNull).
Proof. rule. Qed.
Theorem rule_null_and_null_sound : forall en, rw en (EAnd (ELit VNull) (ELit VNull)) (ELit VNull).
Proof. rule. Qed.
Theorem rule_null_or_null_sound : forall en, rw en (EOr (ELit VNull) (ELit VNull)) (ELit VNull).
Proof. rule. Qed.

(* ================================================================== OR *)
Theorem rule_true_or_sound : forall en A, rw en (EOr (ELit (VBool true)) A) (ELit (VBool true)).
Proof. rule. Qed.
Theorem rule_false_or_sound : forall en A, rw en (EOr (ELit (VBool false)) A) A.
Proof. rule. Qed.
Theorem rule_or_true_sound : forall en A, rw en (EOr A (ELit (VBool true))) (ELit (VBool true)).
Proof. rule. Qed.
Theorem rule_or_false_sound : forall en A, rw en (EOr A (ELit (VBool false))) A.
Proof. rule. Qed.
Theorem rule_or_not_self_sound : forall en A, nonnull_at en A -> rw en (EOr A (ENot A)) (ELit (VBool true)).
Proof. rule. Qed.
Theorem rule_not_self_or_sound : forall en A, nonnull_at en A -> rw en (EOr (ENot A) A) (ELit (VBool true)).
Proof. rule. Qed.
Theorem rule_or_not_self_guard_needed : exists en A, sev en (EOr A (ENot A)) = Ok VNull.
Proof. exists [[VNull]], (ECol 0 0). reflexivity. Qed.
Theorem rule_or_self_sound : forall en A, rw en (EOr A A) A.
Proof. rule. Qed.
Theorem rule_or_contains_l_sound : forall en A B, rw en (EOr (EOr A B) A) (EOr A B).
Proof. rule. Qed.
Theorem rule_or_contains_l2_sound : forall en A B, rw en (EOr (EOr B A) A) (EOr B A).
Proof. rule. Qed.
Theorem rule_or_contains_r_sound : forall en A B, rw en (EOr A (EOr A B)) (EOr A B).
Proof. rule. Qed.
Theorem rule_or_absorb_r_sound : forall en A B, rw en (EOr A (EAnd A B)) A.
Proof. rule. Qed.
Theorem rule_or_absorb_r2_sound : forall en A B, rw en (EOr A (EAnd B A)) A.
Proof. rule. Qed.
Theorem rule_or_absorb_l_sound : forall en A B, rw en (EOr (EAnd A B) A) A.
Proof. rule. Qed.
Theorem rule_or_common_conjunction_sound : forall en A B C,
  rw en (EOr (EAnd A B) (EAnd A C)) (EAnd A (EOr B C)).
Proof. rule. Qed.
Theorem rule_or_common_conjunction_only_sound : forall en A B, rw en (EOr (EAnd A B) A) A.
Proof. rule. Qed.

(* ================================================================== AND *)
Theorem rule_true_and_sound : forall en A, rw en (EAnd (ELit (VBool true)) A) A.
Proof. rule. Qed.
Theorem rule_false_and_sound : forall en A, rw en (EAnd (ELit (VBool false)) A) (ELit (VBool false)).
Proof. rule. Qed.
Theorem rule_and_true_sound : forall en A, rw en (EAnd A (ELit (VBool true))) A.
Proof. rule. Qed.
Theorem rule_and_false_sound : forall en A, rw en (EAnd A (ELit (VBool false))) (ELit (VBool false)).
Proof. rule. Qed.
Theorem rule_and_not_self_sound : forall en A, nonnull_at en A -> rw en (EAnd A (ENot A)) (ELit (VBool false)).
Proof. rule. Qed.
Theorem rule_not_self_and_sound : forall en A, nonnull_at en A -> rw en (EAnd (ENot A) A) (ELit (VBool false)).
Proof. rule. Qed.
Theorem rule_and_not_self_guard_needed : exists en A, sev en (EAnd A (ENot A)) = Ok VNull.
Proof. exists [[VNull]], (ECol 0 0). reflexivity. Qed.
Theorem rule_and_self_sound : forall en A, rw en (EAnd A A) A.
Proof. rule. Qed.
Theorem rule_and_contains_l_sound : forall en A B, rw en (EAnd (EAnd A B) A) (EAnd A B).
Proof. rule. Qed.
Theorem rule_and_contains_r_sound : forall en A B, rw en (EAnd A (EAnd B A)) (EAnd B A).
Proof. rule. Qed.
Theorem rule_and_absorb_r_sound : forall en A B, rw en (EAnd A (EOr A B)) A.
Proof. rule. Qed.
Theorem rule_and_absorb_l_sound : forall en A B, rw en (EAnd (EOr A B) A) A.
Proof. rule. Qed.
Theorem rule_and_absorb_l2_sound : forall en A B, rw en (EAnd (EOr B A) A) A.
Proof. rule. Qed.

(* ================================================================== comparisons *)
Lemma cmp3_negate : forall op x y, not3 (cmp3 op x y) = cmp3 (negate_op op) x y.
Proof.
  intros op x y. unfold cmp3. destruct (vcompare x y) as [c|]; [|reflexivity]. destruct op, c; reflexivity.
Qed.
Lemma ge_le_is_eq : forall x c, and3 (cmp3 CGe x c) (cmp3 CLe x c) = cmp3 CEq x c.
Proof. intros x c. unfold cmp3. destruct (vcompare x c) as [k|]; [|reflexivity]. destruct k; reflexivity. Qed.
(* A >= B AND A <= B --> A = B   (can_reduce_to_equal_statement: any two operand expressions) *)
Theorem rule_ge_and_le_sound : forall en A B, rw en (EAnd (ECmp CGe A B) (ECmp CLe A B)) (ECmp CEq A B).
Proof.
  unfold rw. intros en A B v H. cbn [sev] in *.
  destruct (sev en A) as [x|]; [|discriminate]. destruct (sev en B) as [y|]; [|discriminate]. cbn [bind] in *.
  rewrite <- ge_le_is_eq.
  destruct (cmp3 CGe x y), (cmp3 CLe x y); cbn in *; exact H.
Qed.
(* A = L1 AND A <> L2 --> A = L1   when the two integer literals differ *)
Theorem rule_eq_and_ne_sound : forall en A z1 z2, z1 <> z2 ->
  (forall v, sev en A = Ok v -> v = VNull \/ exists z, v = VInt z) ->
  rw en (EAnd (ECmp CEq A (ELit (VInt z1))) (ECmp CNe A (ELit (VInt z2)))) (ECmp CEq A (ELit (VInt z1))).
Proof.
  unfold rw. intros en A z1 z2 NE TY v H. cbn [sev] in *. destruct (sev en A) as [x|]; [|discriminate]. cbn [bind] in *.
  destruct (TY _ eq_refl) as [->|[z ->]]; [exact H|].
  unfold cmp3, vcompare, vcmp_nn in *. destruct (Z.compare_spec z z1), (Z.compare_spec z z2); subst; cbn in *; try exact H; lia.
Qed.
Theorem rule_ne_and_eq_sound : forall en A z1 z2, z1 <> z2 ->
  (forall v, sev en A = Ok v -> v = VNull \/ exists z, v = VInt z) ->
  rw en (EAnd (ECmp CNe A (ELit (VInt z2))) (ECmp CEq A (ELit (VInt z1)))) (ECmp CEq A (ELit (VInt z1))).
Proof.
  unfold rw. intros en A z1 z2 NE TY v H. cbn [sev] in *. destruct (sev en A) as [x|]; [|discriminate]. cbn [bind] in *.
  destruct (TY _ eq_refl) as [->|[z ->]]; [exact H|].
  unfold cmp3, vcompare, vcmp_nn in *. destruct (Z.compare_spec z z1), (Z.compare_spec z z2); subst; cbn in *; try exact H; lia.
Qed.
(* equal literals: the rule must not fire (A = 1 AND A <> 1 is FALSE / NULL, not A = 1) *)
Theorem rule_eq_and_ne_guard_needed :
  exists en A z, ~ rw en (EAnd (ECmp CEq A (ELit (VInt z))) (ECmp CNe A (ELit (VInt z)))) (ECmp CEq A (ELit (VInt z))).
Proof. exists [], (ELit (VInt 1)), 1. intros H. specialize (H _ eq_refl). discriminate H. Qed.

(* ================================================================== arithmetic (checked Int64 of the reference) *)
Theorem rule_mul_one_sound : forall en A, rw en (EArith AMul A (ELit (VInt 1))) A.
Proof.
  unfold rw. intros en A v H. cbn [sev] in *. destruct (sev en A) as [x|]; [|discriminate]. cbn [bind] in *.
  destruct x; cbn in H; try discriminate; try exact H. unfold chk64 in H. rewrite Z.mul_1_r in H.
  destruct (in_i64 z); [exact H|discriminate].
Qed.
Theorem rule_one_mul_sound : forall en A, rw en (EArith AMul (ELit (VInt 1)) A) A.
Proof.
  unfold rw. intros en A v H. cbn [sev] in *. destruct (sev en A) as [x|]; [|discriminate]. cbn [bind] in *.
  destruct x; cbn [arith] in H; try discriminate; try exact H. unfold chk64 in H. rewrite Z.mul_1_l in H.
  destruct (in_i64 z); [exact H|discriminate].
Qed.
Theorem rule_mul_zero_sound : forall en A, nonnull_at en A -> rw en (EArith AMul A (ELit (VInt 0))) (ELit (VInt 0)).
Proof.
  unfold rw, nonnull_at. intros en A NN v H. cbn [sev] in *. destruct (sev en A) as [x|]; [|discriminate]. cbn [bind] in *.
  specialize (NN _ eq_refl). destruct x; cbn [arith] in H; try discriminate; try congruence.
  unfold chk64 in H. rewrite Z.mul_0_r in H. exact H.
Qed.
Theorem rule_zero_mul_sound : forall en A, nonnull_at en A -> rw en (EArith AMul (ELit (VInt 0)) A) (ELit (VInt 0)).
Proof.
  unfold rw, nonnull_at. intros en A NN v H. cbn [sev] in *. destruct (sev en A) as [x|]; [|discriminate]. cbn [bind] in *.
  specialize (NN _ eq_refl). destruct x; cbn [arith] in H; try discriminate; try congruence.
  unfold chk64 in H. rewrite Z.mul_0_l in H. exact H.
Qed.
Theorem rule_mul_zero_guard_needed : exists en A, sev en (EArith AMul A (ELit (VInt 0))) = Ok VNull.
Proof. exists [[VNull]], (ECol 0 0). reflexivity. Qed.
Theorem rule_div_one_sound : forall en A, rw en (EArith ADiv A (ELit (VInt 1))) A.
Proof.
  unfold rw. intros en A v H. cbn [sev] in *. destruct (sev en A) as [x|]; [|discriminate]. cbn [bind] in *.
  destruct x; cbn in H; try discriminate; try exact H. unfold chk64 in H. rewrite Z.quot_1_r in H.
  destruct (in_i64 z); [exact H|discriminate].
Qed.
Theorem rule_mod_one_sound : forall en A, nonnull_at en A -> rw en (EArith AMod A (ELit (VInt 1))) (ELit (VInt 0)).
Proof.
  unfold rw, nonnull_at. intros en A NN v H. cbn [sev] in *. destruct (sev en A) as [x|]; [|discriminate]. cbn [bind] in *.
  specialize (NN _ eq_refl). destruct x; cbn in H; try discriminate; try congruence.
  unfold chk64 in H. rewrite Z.rem_1_r in H. exact H.
Qed.
(* division by a zero literal is never folded into a value: it is the error (or NULL for a NULL dividend) *)
Theorem div_by_zero_literal_stays_error : forall en A z op, op = ADiv \/ op = AMod ->
  sev en A = Ok (VInt z) -> sev en (EArith op A (ELit (VInt 0))) = Err EDivZero.
Proof. intros en A z op [->| ->] H; cbn [sev]; rewrite H; reflexivity. Qed.
(* A + 0 and A - 0 are left alone by the simplifier; A - A --> 0 and A / A --> 1 would need guards it does not have
   (NULL; zero), and indeed the simplifier has no such rule *)
Theorem sub_self_would_need_guard : exists en A, sev en (EArith ASub A A) = Ok VNull.
Proof. exists [[VNull]], (ECol 0 0). reflexivity. Qed.
Theorem div_self_would_need_guard : exists en A, sev en (EArith ADiv A A) = Err EDivZero.
Proof. exists [[VInt 0]], (ECol 0 0). reflexivity. Qed.

(* ================================================================== NOT *)
Lemma not3_if : forall (b : bool) t, not3 (if b then not3 t else t) = (if negb b then not3 t else t).
Proof. intros [|] t; cbn; [apply not3_involutive|reflexivity]. Qed.
Lemma sevp_not : forall en e t, sevp en e = Ok t -> sevp en (ENot e) = Ok (not3 t).
Proof. unfold sevp. intros en e t H. cbn [sev]. unfold sevp in *. rewrite H. cbn. destruct t; reflexivity. Qed.
Lemma value_of_tv_inj_tv : forall t, tv_of_value (value_of_tv t) = Ok t.
Proof. destruct t; reflexivity. Qed.

(* Expr::Not(inner) --> negate_clause(inner): De Morgan, operator negation, NOT NOT, IS [NOT] NULL, [NOT] IN, [NOT] BETWEEN *)
Theorem rule_not_negate_clause_sound : forall en e, rw en (ENot e) (negate_clause e).
Proof.
  unfold rw. intros en e. induction e; intros r0 H; cbn [negate_clause]; try exact H.
  - (* comparison *)
    cbn [sev] in *. destruct (sev en e1) as [x|]; [|discriminate]. destruct (sev en e2) as [y|]; [|discriminate]. cbn [bind] in *.
    rewrite value_of_tv_inj_tv in H. cbn [bind] in H. rewrite cmp3_negate in H. exact H.
  - (* AND *)
    cbn [sev] in H. destruct (sev en e1) as [x|] eqn:E1; [|discriminate]. cbn [bind] in H.
    destruct (tv_of_value x) as [tx|] eqn:T1; [|discriminate]. cbn [bind] in H.
    destruct (sev en e2) as [y|] eqn:E2; [|discriminate]. cbn [bind] in H.
    destruct (tv_of_value y) as [ty|] eqn:T2; [|discriminate]. cbn [bind] in H.
    rewrite value_of_tv_inj_tv in H. cbn [bind] in H.
    assert (N1 : sev en (negate_clause e1) = Ok (value_of_tv (not3 tx))).
    { apply IHe1. cbn [sev]. rewrite E1. cbn [bind]. rewrite T1. reflexivity. }
    assert (N2 : sev en (negate_clause e2) = Ok (value_of_tv (not3 ty))).
    { apply IHe2. cbn [sev]. rewrite E2. cbn [bind]. rewrite T2. reflexivity. }
    cbn [sev]. rewrite N1, N2. cbn [bind]. rewrite !value_of_tv_inj_tv. cbn [bind]. rewrite <- de_morgan_and. exact H.
  - (* OR *)
    cbn [sev] in H. destruct (sev en e1) as [x|] eqn:E1; [|discriminate]. cbn [bind] in H.
    destruct (tv_of_value x) as [tx|] eqn:T1; [|discriminate]. cbn [bind] in H.
    destruct (sev en e2) as [y|] eqn:E2; [|discriminate]. cbn [bind] in H.
    destruct (tv_of_value y) as [ty|] eqn:T2; [|discriminate]. cbn [bind] in H.
    rewrite value_of_tv_inj_tv in H. cbn [bind] in H.
    assert (N1 : sev en (negate_clause e1) = Ok (value_of_tv (not3 tx))).
    { apply IHe1. cbn [sev]. rewrite E1. cbn [bind]. rewrite T1. reflexivity. }
    assert (N2 : sev en (negate_clause e2) = Ok (value_of_tv (not3 ty))).
    { apply IHe2. cbn [sev]. rewrite E2. cbn [bind]. rewrite T2. reflexivity. }
    cbn [sev]. rewrite N1, N2. cbn [bind]. rewrite !value_of_tv_inj_tv. cbn [bind]. rewrite <- de_morgan_or. exact H.
  - (* NOT NOT *)
    cbn [sev] in H. destruct (sev en e) as [x|]; [|discriminate]. cbn [bind] in H.
    destruct (tv_of_value x) as [tx|] eqn:T1; [|discriminate]. cbn [bind] in H.
    rewrite value_of_tv_inj_tv in H. cbn [bind] in H. rewrite not3_involutive in H. rewrite (value_tv_id _ _ T1) in H. exact H.
  - (* IS NULL *)
    cbn [sev] in *. destruct (sev en e) as [x|]; [|discriminate]. cbn [bind] in *. destruct neg, (is_null x); exact H.
  - (* IS DISTINCT FROM *)
    cbn [sev] in *. destruct (sev en e1) as [x|]; [|discriminate]. destruct (sev en e2) as [y|]; [|discriminate]. cbn [bind] in *.
    destruct neg, (not_distinct x y); exact H.
  - (* BETWEEN *)
    cbn [sev] in *. destruct (sev en e1) as [x|]; [|discriminate]. destruct (sev en e2) as [y|]; [|discriminate].
    destruct (sev en e3) as [z|]; [|discriminate]. cbn [bind] in *.
    rewrite value_of_tv_inj_tv in H. cbn [bind] in H. rewrite not3_if in H. exact H.
  - (* IN list *)
    rewrite sev_inlist.
    change (sev en (ENot (EInList neg e l)))
      with (x <- (v <- sev en (EInList neg e l);; tv_of_value v);; Ok (value_of_tv (not3 x))) in H.
    rewrite sev_inlist in H.
    destruct (sev en e) as [x|]; [|discriminate]. cbn [bind] in *. destruct (mapM (sev en) l) as [vs|]; [|discriminate]. cbn [bind] in *.
    rewrite value_of_tv_inj_tv in H. cbn [bind] in H. unfold not_in3 in *. rewrite not3_if in H. exact H.
Qed.
Theorem rule_not_not_sound : forall en A, rw en (ENot (ENot A)) A.
Proof. intros. exact (rule_not_negate_clause_sound en (ENot A)). Qed.
Theorem rule_not_and_sound : forall en A B, rw en (ENot (EAnd A B)) (EOr (negate_clause A) (negate_clause B)).
Proof. intros. exact (rule_not_negate_clause_sound en (EAnd A B)). Qed.
Theorem rule_not_or_sound : forall en A B, rw en (ENot (EOr A B)) (EAnd (negate_clause A) (negate_clause B)).
Proof. intros. exact (rule_not_negate_clause_sound en (EOr A B)). Qed.
Theorem rule_not_cmp_sound : forall en op A B, rw en (ENot (ECmp op A B)) (ECmp (negate_op op) A B).
Proof. intros. exact (rule_not_negate_clause_sound en (ECmp op A B)). Qed.

(* ================================================================== CASE *)
Lemma case_fold_eval : forall en ws els,
  case_eval en (fst (case_fold ws els)) (snd (case_fold ws els)) = case_eval en ws els \/
  exists er, case_eval en ws els = Err er.
Proof.
  intros en ws els. induction ws as [|[w t] ws IH]; [left; reflexivity|].
  cbn [case_fold]. destruct (is_true_lit w) eqn:TW.
  - destruct w as [| [| | [|] | |] | | | | | | | | | | | | | | |]; try discriminate TW. left. reflexivity.
  - destruct (is_false_lit w) eqn:FW.
    + destruct w as [| [| | [|] | |] | | | | | | | | | | | | | | |]; try discriminate FW. exact IH.
    + destruct (case_fold ws els) as [ws2 els2] eqn:CF. cbn [fst snd] in *. cbn [case_eval].
      destruct (sevp en w) as [c|er]; [|right; exists er; reflexivity]. cbn [bind].
      destruct c; try (left; reflexivity); exact IH.
Qed.
(* CASE WHEN true THEN A ... / WHEN false THEN ... : drop FALSE branches, cut at the first TRUE branch *)
Theorem rule_case_literal_conditions_sound : forall en ws els, rw en (ECase ws els) (case_fold_expr ws els).
Proof.
  unfold rw, case_fold_expr. intros en ws els v H. rewrite sev_case in H.
  destruct (case_fold_eval en ws els) as [E|[er E]]; [|congruence].
  destruct (case_fold ws els) as [ws2 els2]. cbn [fst snd] in E. rewrite <- E in H.
  destruct ws2 as [|p ws2]; [|rewrite sev_case; exact H].
  cbn [case_eval] in H. destruct els2; [exact H|]. exact H.
Qed.
Theorem rule_case_when_true_sound : forall en A ws els, rw en (ECase ((ELit (VBool true), A) :: ws) els) A.
Proof. intros. exact (rule_case_literal_conditions_sound en ((ELit (VBool true), A) :: ws) els). Qed.
Theorem rule_case_when_false_else_sound : forall en A B, rw en (ECase [(ELit (VBool false), A)] (Some B)) B.
Proof. intros. exact (rule_case_literal_conditions_sound en [(ELit (VBool false), A)] (Some B)). Qed.
Theorem rule_case_when_false_sound : forall en A, rw en (ECase [(ELit (VBool false), A)] None) (ELit VNull).
Proof. intros. exact (rule_case_literal_conditions_sound en [(ELit (VBool false), A)] None). Qed.
(* a NULL condition is never taken (the simplifier has no rule for it; constant folding of the whole CASE uses this) *)
Theorem case_when_null_is_skipped : forall en A ws els, rw en (ECase ((ELit VNull, A) :: ws) els) (ECase ws els).
Proof. unfold rw. intros en A ws els v H. rewrite sev_case in *. exact H. Qed.

(* CASE WHEN X THEN true ELSE false END --> X IS NOT DISTINCT FROM true  (is_exactly_true; X itself when not nullable) *)
Theorem rule_case_true_false_sound : forall en X, bool_at en X ->
  rw en (ECase [(X, ELit (VBool true))] (Some (ELit (VBool false)))) (EDistinct true X (ELit (VBool true))).
Proof. unfold rw, bool_at. intros en X BX v H. rewrite sev_case in H. cbn [case_eval] in H. unfold sevp in H. cbn [sev] in *. dsev; fin. Qed.
Theorem rule_case_true_false_nonnull_sound : forall en X, bool_at en X -> nonnull_at en X ->
  rw en (ECase [(X, ELit (VBool true))] (Some (ELit (VBool false)))) X.
Proof. unfold rw, bool_at, nonnull_at. intros en X BX NX v H. rewrite sev_case in H. cbn [case_eval] in H. unfold sevp in H. cbn [sev] in *. dsev; fin. Qed.
Theorem rule_case_true_false_guard_needed : exists en X,
  ~ rw en (ECase [(X, ELit (VBool true))] (Some (ELit (VBool false)))) X.
Proof. exists [[VNull]], (ECol 0 0). intros H. specialize (H _ eq_refl). discriminate H. Qed.

(* the general boolean expansion of a one-branch CASE:
     CASE WHEN X THEN A ELSE Q END --> (X' AND A) OR (NOT X' AND Q),  X' = X IS NOT DISTINCT FROM true.
   The reference evaluates both operands of AND / OR, so the statement is for rows on which BOTH branches
   evaluate (the CASE itself evaluates only the branch taken). *)
Theorem rule_case_bool_expansion_sound : forall en X A Q a q, bool_at en X ->
  sevp en A = Ok a -> sevp en Q = Ok q ->
  rw en (ECase [(X, A)] (Some Q))
        (EOr (EAnd (EDistinct true X (ELit (VBool true))) A) (EAnd (ENot (EDistinct true X (ELit (VBool true)))) Q)).
Proof.
  unfold rw, bool_at, sevp. intros en X A Q a q BX HA HQ v H. rewrite sev_case in H. cbn [case_eval] in H. unfold sevp in H.
  cbn [sev] in *.
  destruct (sev en X) as [x|]; [|discriminate]. specialize (BX _ eq_refl).
  destruct (sev en A) as [va|]; [|discriminate]. destruct (sev en Q) as [vq|]; [|discriminate]. cbn [bind] in *.
  destruct BX as [->|[[|] ->]]; cbn in *;
    destruct va as [| ? | [|] | ? | ? ?]; try discriminate; destruct vq as [| ? | [|] | ? | ? ?]; try discriminate; cbn in *; congruence.
Qed.
Theorem rule_case_bool_expansion_no_else_sound : forall en X A a, bool_at en X ->
  sevp en A = Ok a ->
  rw en (ECase [(X, A)] None)
        (EOr (EAnd (EDistinct true X (ELit (VBool true))) A) (EAnd (ENot (EDistinct true X (ELit (VBool true)))) (ELit VNull))).
Proof.
  unfold rw, bool_at, sevp. intros en X A a BX HA v H. rewrite sev_case in H. cbn [case_eval] in H. unfold sevp in H.
  cbn [sev] in *.
  destruct (sev en X) as [x|]; [|discriminate]. specialize (BX _ eq_refl).
  destruct (sev en A) as [va|]; [|discriminate]. cbn [bind] in *.
  destruct BX as [->|[[|] ->]]; cbn in *;
    destruct va as [| ? | [|] | ? | ? ?]; try discriminate; cbn in *; congruence.
Qed.

(* CASE ... END op literal --> the comparison pushed into every THEN / ELSE *)
Definition push_cmp (op : cmp_op) (l : value) (wt : expr * expr) : expr * expr := (fst wt, ECmp op (snd wt) (ELit l)).
Theorem rule_case_cmp_literal_sound : forall en op l ws els,
  rw en (ECmp op (ECase ws els) (ELit l))
        (ECase (map (push_cmp op l) ws) (option_map (fun e => ECmp op e (ELit l)) els)).
Proof.
  unfold rw. intros en op l ws els v H.
  change (sev en (ECmp op (ECase ws els) (ELit l))) with (x <- sev en (ECase ws els);; y <- Ok l;; Ok (value_of_tv (cmp3 op x y))) in H.
  rewrite sev_case in *. induction ws as [|[w t] ws IH].
  - cbn [map case_eval] in *. destruct els as [e|]; cbn [option_map]; [exact H|].
    cbn [bind] in H. unfold cmp3, vcompare in H. exact H.
  - cbn [map case_eval push_cmp fst snd] in *. destruct (sevp en w) as [c|]; [|discriminate]. cbn [bind] in *.
    destruct c; [exact H|apply IH; exact H|apply IH; exact H].
Qed.

(* CASE with boolean-literal THENs / ELSE --> NOT (CASE with the negated literals) *)
Definition not_branch (wt : expr * expr) : expr * expr := (fst wt, ENot (snd wt)).
Theorem rule_case_bool_literals_sound : forall en ws els,
  forallb (fun wt => is_bool_lit (snd wt)) ws = true ->
  match els with Some e => is_bool_lit e = true | None => True end ->
  rw en (ECase ws els) (ENot (ECase (map not_branch ws) (option_map ENot els))).
Proof.
  unfold rw. intros en ws els LW LE v H.
  change (sev en (ENot (ECase (map not_branch ws) (option_map ENot els))))
    with (x <- (v <- sev en (ECase (map not_branch ws) (option_map ENot els));; tv_of_value v);; Ok (value_of_tv (not3 x))).
  rewrite sev_case in *. induction ws as [|[w t] ws IH].
  - cbn [map case_eval] in *. destruct els as [e|]; cbn [option_map].
    + destruct e as [| [| | b | |] | | | | | | | | | | | | | | |]; try discriminate LE; cbn in *; inversion H; subst; try destruct b; reflexivity.
    + inversion H. reflexivity.
  - cbn [forallb snd] in LW. apply andb_true_iff in LW. destruct LW as [Lt LW].
    cbn [map case_eval not_branch fst snd] in *. destruct (sevp en w) as [c|]; [|discriminate]. cbn [bind] in *.
    destruct c; try (apply IH; assumption).
    destruct t as [| [| | b | |] | | | | | | | | | | | | | | |]; try discriminate Lt; cbn in *; inversion H; subst; try destruct b; reflexivity.
Qed.

(* ================================================================== BETWEEN, IS NULL *)
Theorem rule_between_sound : forall en A L H, rw en (EBetween false A L H) (EAnd (ECmp CGe A L) (ECmp CLe A H)).
Proof.
  unfold rw. intros en A L H v E. cbn [sev] in *.
  destruct (sev en A) as [x|]; [|discriminate]. destruct (sev en L) as [l|]; [|discriminate]. destruct (sev en H) as [h|]; [|discriminate].
  cbn [bind] in *. rewrite !value_of_tv_inj_tv. exact E.
Qed.
Theorem rule_not_between_sound : forall en A L H, rw en (EBetween true A L H) (EOr (ECmp CLt A L) (ECmp CGt A H)).
Proof.
  unfold rw. intros en A L H v E. cbn [sev] in *.
  destruct (sev en A) as [x|]; [|discriminate]. destruct (sev en L) as [l|]; [|discriminate]. destruct (sev en H) as [h|]; [|discriminate].
  cbn [bind] in *. rewrite !value_of_tv_inj_tv. cbn [bind]. rewrite de_morgan_and, !cmp3_negate in E. exact E.
Qed.
Theorem rule_is_null_nonnull_sound : forall en A, nonnull_at en A -> rw en (EIsNull false A) (ELit (VBool false)).
Proof. rule. Qed.
Theorem rule_is_not_null_nonnull_sound : forall en A, nonnull_at en A -> rw en (EIsNull true A) (ELit (VBool true)).
Proof. rule. Qed.
Theorem rule_is_null_literal_sound : forall en neg v, rw en (EIsNull neg (ELit v)) (ELit (VBool (xorb neg (is_null v)))).
Proof. unfold rw. intros en neg v r H. exact H. Qed.

(* ================================================================== IN lists *)
Theorem rule_in_empty_sound : forall en neg A, rw en (EInList neg A []) (ELit (VBool neg)).
Proof.
  unfold rw. intros en neg A v H. rewrite sev_inlist in H. destruct (sev en A) as [x|]; [|discriminate].
  cbn in H. destruct neg; exact H.
Qed.
Lemma in3_null : forall vs, vs <> [] -> in3 VNull vs = TU.
Proof.
  intros vs NE. unfold in3, any3. destruct vs as [|v vs]; [congruence|]. cbn [map fold_right].
  assert (E : forall l, fold_right or3 TF (map (eq3 VNull) l) = TF \/ fold_right or3 TF (map (eq3 VNull) l) = TU).
  { induction l as [|y l IH]; [left; reflexivity|]. cbn. destruct IH as [-> | ->]; right; reflexivity. }
  destruct (E vs) as [-> | ->]; reflexivity.
Qed.
Theorem rule_null_in_list_sound : forall en neg l, l <> [] -> rw en (EInList neg (ELit VNull) l) (ELit VNull).
Proof.
  unfold rw. intros en neg l NE v H. rewrite sev_inlist in H. cbn [sev bind] in H.
  destruct (mapM (sev en) l) as [vs|] eqn:M; [|discriminate]. cbn [bind] in H.
  assert (vs <> []). { intros ->. apply mapM_length in M. destruct l; [congruence|discriminate M]. }
  unfold not_in3 in H. rewrite in3_null in H by assumption. destruct neg; exact H.
Qed.
Theorem rule_in_null_item_sound : forall en neg A, rw en (EInList neg A [ELit VNull]) (ELit VNull).
Proof.
  unfold rw. intros en neg A v H. rewrite sev_inlist in H. destruct (sev en A) as [x|]; [|discriminate].
  cbn in H. unfold not_in3, in3, any3, eq3, cmp3, vcompare in H. cbn in H. destruct x, neg; exact H.
Qed.

Lemma in3_app : forall x l1 l2, in3 x (l1 ++ l2) = or3 (in3 x l1) (in3 x l2).
Proof.
  intros x l1 l2. unfold in3, any3. induction l1 as [|v l1 IH]; cbn [app map fold_right].
  - destruct (fold_right or3 TF (map (eq3 x) l2)); reflexivity.
  - rewrite IH. apply or3_assoc.
Qed.
Lemma mapM_app : forall {A B} (f : A -> res B) l1 l2 v1 v2,
  mapM f l1 = Ok v1 -> mapM f l2 = Ok v2 -> mapM f (l1 ++ l2) = Ok (v1 ++ v2).
Proof.
  induction l1 as [|x l1 IH]; intros l2 v1 v2 H1 H2; cbn [mapM app] in *.
  - inversion H1. exact H2.
  - destruct (f x) as [y|]; [|discriminate]. cbn [bind] in *. destruct (mapM f l1) as [ys|] eqn:E; [|discriminate].
    cbn [bind] in *. inversion H1; subst. rewrite (IH l2 ys v2 eq_refl H2). reflexivity.
Qed.
(* x IN (l1) OR x IN (l2) --> x IN (l1 ++ l2)    (the OR -> IN merge; [x = a] is the one-element list) *)
Theorem rule_or_inlist_merge_sound : forall en X l1 l2,
  rw en (EOr (EInList false X l1) (EInList false X l2)) (EInList false X (l1 ++ l2)).
Proof.
  unfold rw. intros en X l1 l2 v H.
  change (sev en (EOr (EInList false X l1) (EInList false X l2)))
    with (x <- (v <- sev en (EInList false X l1);; tv_of_value v);; y <- (v <- sev en (EInList false X l2);; tv_of_value v);;
          Ok (value_of_tv (or3 x y))) in H.
  rewrite !sev_inlist in *. destruct (sev en X) as [x|]; [|discriminate]. cbn [bind] in *.
  destruct (mapM (sev en) l1) as [v1|] eqn:M1; [|discriminate]. cbn [bind] in *.
  destruct (mapM (sev en) l2) as [v2|] eqn:M2; [|rewrite value_of_tv_inj_tv in H; discriminate]. cbn [bind] in *.
  rewrite !value_of_tv_inj_tv in H. cbn [bind] in H.
  rewrite (mapM_app _ _ _ _ _ M1 M2). cbn [bind]. rewrite in3_app. exact H.
Qed.
Theorem rule_eq_or_eq_sound : forall en X a b, rw en (EOr (ECmp CEq X a) (ECmp CEq X b)) (EInList false X [a; b]).
Proof.
  unfold rw. intros en X a b v H. rewrite sev_inlist. cbn [sev mapM] in *.
  destruct (sev en X) as [x|]; [|discriminate]. destruct (sev en a) as [va|]; [|discriminate]. cbn [bind] in *.
  rewrite value_of_tv_inj_tv in H. cbn [bind] in H. destruct (sev en b) as [vb|]; [|discriminate]. cbn [bind] in *.
  rewrite value_of_tv_inj_tv in H. cbn [bind] in H. unfold in3, any3. cbn [map fold_right].
  fold (eq3 x va) in H. fold (eq3 x vb) in H. destruct (eq3 x va), (eq3 x vb); exact H.
Qed.
(* duplicates are dropped by the merge: the value of IN does not depend on repetitions *)
Lemma eq3_value_eqb : forall x v w, value_eqb v w = true -> eq3 x v = eq3 x w.
Proof. intros x v w E. apply value_eqb_eq in E. subst. reflexivity. Qed.
Lemma or3_idem_absorb : forall a b, or3 a (or3 a b) = or3 a b.
Proof. intros [| |] [| |]; reflexivity. Qed.
Lemma in3_filter_ne : forall x v l, or3 (eq3 x v) (in3 x (filter (fun w => negb (value_eqb v w)) l)) = or3 (eq3 x v) (in3 x l).
Proof.
  intros x v l. unfold in3, any3. induction l as [|w l IH]; [reflexivity|]. cbn [filter].
  destruct (value_eqb v w) eqn:E; cbn [negb map fold_right].
  - rewrite IH. rewrite <- (eq3_value_eqb x v w E). symmetry. apply or3_idem_absorb.
  - rewrite !or3_assoc. rewrite (or3_comm (eq3 x v) (eq3 x w)). rewrite <- !or3_assoc. f_equal. exact IH.
Qed.
Theorem in3_dedup : forall x l, in3 x (dedup l) = in3 x l.
Proof.
  intros x l. induction l as [|v l IH]; [reflexivity|]. cbn [dedup].
  change (in3 x (v :: filter (fun w => negb (value_eqb v w)) (dedup l))) with
    (or3 (eq3 x v) (in3 x (filter (fun w => negb (value_eqb v w)) (dedup l)))).
  rewrite in3_filter_ne. rewrite IH. reflexivity.
Qed.

(* inlist_simplifier.rs: a short IN list becomes a left-deep chain of = / OR (<> / AND when negated) *)
Theorem rule_shorten_inlist_1_sound : forall en neg X a e', shorten_inlist neg X [a] = Some e' -> rw en (EInList neg X [a]) e'.
Proof.
  unfold rw, shorten_inlist. intros en neg X a e' S v H. inversion S; subst; clear S. rewrite sev_inlist in H. cbn [fold_left mapM] in *.
  destruct (sev en X) as [x|] eqn:EX; [|discriminate]. cbn [bind] in H. destruct (sev en a) as [va|] eqn:EA; [|discriminate]. cbn [bind] in H.
  unfold not_in3, in3, any3 in H. cbn [map fold_right] in H.
  destruct neg; cbn [sev]; rewrite EX, EA; cbn [bind].
  - change (cmp3 CNe x va) with (cmp3 (negate_op CEq) x va). rewrite <- cmp3_negate. fold (eq3 x va). destruct (eq3 x va); exact H.
  - fold (eq3 x va). destruct (eq3 x va); exact H.
Qed.
Theorem rule_shorten_inlist_2_sound : forall en neg X a b e', shorten_inlist neg X [a; b] = Some e' -> rw en (EInList neg X [a; b]) e'.
Proof.
  unfold rw, shorten_inlist. intros en neg X a b e' S v H. inversion S; subst; clear S. rewrite sev_inlist in H. cbn [fold_left mapM] in *.
  destruct (sev en X) as [x|] eqn:EX; [|discriminate]. cbn [bind] in H. destruct (sev en a) as [va|] eqn:EA; [|discriminate]. cbn [bind] in H.
  destruct (sev en b) as [vb|] eqn:EB; [|discriminate]. cbn [bind] in H.
  unfold not_in3, in3, any3 in H. cbn [map fold_right] in H.
  destruct neg; cbn [sev]; rewrite EX, EA, EB; cbn [bind]; rewrite !value_of_tv_inj_tv; cbn [bind].
  - change (cmp3 CNe x va) with (cmp3 (negate_op CEq) x va). change (cmp3 CNe x vb) with (cmp3 (negate_op CEq) x vb).
    rewrite <- !cmp3_negate. fold (eq3 x va). fold (eq3 x vb). destruct (eq3 x va), (eq3 x vb); exact H.
  - fold (eq3 x va). fold (eq3 x vb). destruct (eq3 x va), (eq3 x vb); exact H.
Qed.
Theorem rule_shorten_inlist_3_sound : forall en neg X a b c e',
  shorten_inlist neg X [a; b; c] = Some e' -> rw en (EInList neg X [a; b; c]) e'.
Proof.
  unfold rw, shorten_inlist. intros en neg X a b c e' S v H. inversion S; subst; clear S. rewrite sev_inlist in H. cbn [fold_left mapM] in *.
  destruct (sev en X) as [x|] eqn:EX; [|discriminate]. cbn [bind] in H. destruct (sev en a) as [va|] eqn:EA; [|discriminate]. cbn [bind] in H.
  destruct (sev en b) as [vb|] eqn:EB; [|discriminate]. cbn [bind] in H. destruct (sev en c) as [vc|] eqn:EC; [|discriminate]. cbn [bind] in H.
  unfold not_in3, in3, any3 in H. cbn [map fold_right] in H.
  destruct neg; cbn [sev]; rewrite EX, EA, EB, EC; cbn [bind]; rewrite !value_of_tv_inj_tv; cbn [bind]; rewrite !value_of_tv_inj_tv; cbn [bind].
  - change (cmp3 CNe x va) with (cmp3 (negate_op CEq) x va). change (cmp3 CNe x vb) with (cmp3 (negate_op CEq) x vb).
    change (cmp3 CNe x vc) with (cmp3 (negate_op CEq) x vc).
    rewrite <- !cmp3_negate. fold (eq3 x va). fold (eq3 x vb). fold (eq3 x vc). destruct (eq3 x va), (eq3 x vb), (eq3 x vc); exact H.
  - fold (eq3 x va). fold (eq3 x vb). fold (eq3 x vc). destruct (eq3 x va), (eq3 x vb), (eq3 x vc); exact H.
Qed.

(* ---- intersection / difference / union of two literal lists (value level: vs = the literals' values) *)
Lemma in3_int_TT : forall z l, in3 (VInt z) (map VInt l) = if existsb (Z.eqb z) l then TT else TF.
Proof.
  intros z l. unfold in3, any3. induction l as [|y l IH]; [reflexivity|]. cbn [map fold_right existsb]. rewrite IH.
  unfold eq3, cmp3, vcompare, vcmp_nn. destruct (Z.compare_spec z y) as [E|E|E]; cbn [cmp_holds tv_of_bool].
  - subst. rewrite Z.eqb_refl. reflexivity.
  - replace (z =? y) with false by (symmetry; apply Z.eqb_neq; lia). cbn. destruct (existsb (Z.eqb z) l); reflexivity.
  - replace (z =? y) with false by (symmetry; apply Z.eqb_neq; lia). cbn. destruct (existsb (Z.eqb z) l); reflexivity.
Qed.
Lemma vmem_int : forall z l, vmem (VInt z) (map VInt l) = existsb (Z.eqb z) l.
Proof. intros z l. unfold vmem. induction l as [|y l IH]; [reflexivity|]. cbn [map existsb value_eqb]. rewrite IH. reflexivity. Qed.
Lemma filter_map_int : forall (p : Z -> bool) l, filter (fun v => match v with VInt z => p z | _ => false end) (map VInt l) = map VInt (filter p l).
Proof. intros p l. induction l as [|y l IH]; [reflexivity|]. cbn [map filter]. destruct (p y); cbn [map]; rewrite IH; reflexivity. Qed.
Lemma inter_int : forall l1 l2, inter (map VInt l1) (map VInt l2) = map VInt (filter (fun z => existsb (Z.eqb z) l2) l1).
Proof.
  intros l1 l2. unfold inter. rewrite <- filter_map_int. apply filter_ext_in. intros v Hv.
  apply in_map_iff in Hv. destruct Hv as [z [<- _]]. apply vmem_int.
Qed.
Lemma except_int : forall l1 l2, except (map VInt l1) (map VInt l2) = map VInt (filter (fun z => negb (existsb (Z.eqb z) l2)) l1).
Proof.
  intros l1 l2. unfold except. rewrite <- filter_map_int. apply filter_ext_in. intros v Hv.
  apply in_map_iff in Hv. destruct Hv as [z [<- _]]. rewrite vmem_int. reflexivity.
Qed.
Lemma existsb_filter_and : forall z (p : Z -> bool) l, existsb (Z.eqb z) (filter p l) = existsb (Z.eqb z) l && p z.
Proof.
  intros z p l. induction l as [|y l IH]; [reflexivity|]. cbn [filter existsb].
  destruct (p y) eqn:P; cbn [existsb]; rewrite IH; destruct (Z.eqb_spec z y) as [->|NE]; rewrite ?P; cbn;
    try reflexivity; destruct (existsb (Z.eqb y) l); reflexivity.
Qed.
(* x IN (l1) AND x IN (l2) --> x IN (l1 /\ l2): correct for a NON-NULL x and lists without NULL ... *)
Theorem rule_inlist_intersection_sound : forall z l1 l2,
  and3 (in3 (VInt z) (map VInt l1)) (in3 (VInt z) (map VInt l2)) = in3 (VInt z) (inter (map VInt l1) (map VInt l2)).
Proof.
  intros z l1 l2. rewrite inter_int, !in3_int_TT. rewrite existsb_filter_and.
  destruct (existsb (Z.eqb z) l1), (existsb (Z.eqb z) l2); reflexivity.
Qed.
(* ... but the Rust rule has neither guard: *)
Theorem rule_inlist_intersection_refuted_null_item : exists x l1 l2,
  and3 (in3 x l1) (in3 x l2) <> in3 x (inter l1 l2).
Proof. exists (VInt 2), [VInt 1; VNull], [VInt 2]. cbv. discriminate. Qed.
Theorem rule_inlist_intersection_refuted_null_probe : exists l1 l2,
  and3 (in3 VNull (map VInt l1)) (in3 VNull (map VInt l2)) <> in3 VNull (inter (map VInt l1) (map VInt l2)).
Proof. exists [1], [2]. cbv. discriminate. Qed.
(* x IN (l1) AND x NOT IN (l2) --> x IN (l1 \ l2) *)
Theorem rule_inlist_except_sound : forall z l1 l2,
  and3 (in3 (VInt z) (map VInt l1)) (not_in3 (VInt z) (map VInt l2)) = in3 (VInt z) (except (map VInt l1) (map VInt l2)).
Proof.
  intros z l1 l2. unfold not_in3. rewrite except_int, !in3_int_TT. rewrite existsb_filter_and.
  destruct (existsb (Z.eqb z) l1), (existsb (Z.eqb z) l2); reflexivity.
Qed.
Theorem rule_inlist_except_refuted_null_item : exists x l1 l2,
  and3 (in3 x l1) (not_in3 x l2) = TU /\ in3 x (except l1 l2) = TT.
Proof. exists (VInt 2), [VInt 1; VInt 2], [VInt 1; VNull]. split; reflexivity. Qed.
Theorem rule_inlist_except_refuted_null_probe : exists l1 l2,
  and3 (in3 VNull (map VInt l1)) (not_in3 VNull (map VInt l2)) = TU /\ in3 VNull (except (map VInt l1) (map VInt l2)) = TF.
Proof. exists [1], [1]. split; reflexivity. Qed.
(* x NOT IN (l1) AND x NOT IN (l2) --> x NOT IN (l1 ++ (l2 \ l1)): holds for every x and every list, NULLs included *)
Lemma in3_except_absorb : forall x l1 l2, or3 (in3 x l1) (in3 x (except l2 l1)) = or3 (in3 x l1) (in3 x l2).
Proof.
  intros x l1 l2. induction l2 as [|v l2 IH]; [reflexivity|]. unfold except in *. cbn [filter].
  destruct (vmem v l1) eqn:M; cbn [negb].
  - rewrite IH. change (in3 x (v :: l2)) with (or3 (eq3 x v) (in3 x l2)).
    unfold vmem in M. apply existsb_exists in M. destruct M as [w [Hin E]].
    assert (A : or3 (in3 x l1) (eq3 x v) = in3 x l1).
    { rewrite (eq3_value_eqb x v w E). clear - Hin. unfold in3, any3. induction l1 as [|y l1 IH]; [contradiction|].
      cbn [map fold_right]. destruct Hin as [->|Hin].
      - destruct (eq3 x w), (fold_right or3 TF (map (eq3 x) l1)); reflexivity.
      - rewrite <- or3_assoc. rewrite (IH Hin). reflexivity. }
    rewrite or3_assoc, A. reflexivity.
  - change (in3 x (v :: filter (fun v0 => negb (vmem v0 l1)) l2)) with (or3 (eq3 x v) (in3 x (filter (fun v0 => negb (vmem v0 l1)) l2))).
    change (in3 x (v :: l2)) with (or3 (eq3 x v) (in3 x l2)).
    rewrite !or3_assoc. rewrite (or3_comm (in3 x l1) (eq3 x v)). rewrite <- !or3_assoc. f_equal. exact IH.
Qed.
Theorem rule_inlist_union_sound : forall x l1 l2,
  and3 (not_in3 x l1) (not_in3 x l2) = not_in3 x (union l1 l2).
Proof.
  intros x l1 l2. unfold not_in3, union. rewrite in3_app, in3_except_absorb. symmetry. apply de_morgan_or.
Qed.

(* ================================================================== COALESCE / NULLIF *)
Theorem rule_coalesce_1_sound : forall en a e', coalesce_case [a] = Some e' -> rw en (ECoalesce [a]) e'.
Proof.
  unfold rw. intros en a e' S v H. cbn in S. injection S as <-. rewrite sev_coalesce in H. cbn [coal_eval] in H.
  destruct (sev en a) as [x|]; [|discriminate]. cbn [bind] in H. destruct x; exact H.
Qed.
Theorem rule_coalesce_2_sound : forall en a b e', coalesce_case [a; b] = Some e' -> rw en (ECoalesce [a; b]) e'.
Proof.
  unfold rw. intros en a b e' S v H. inversion S; subst; clear S. rewrite sev_coalesce in H. rewrite sev_case.
  cbn [coal_eval case_eval map] in *. unfold sevp. cbn [sev].
  destruct (sev en a) as [x|]; [|discriminate]. cbn [bind] in *. destruct x; cbn in *; try exact H.
  destruct (sev en b) as [y|]; [|discriminate]. cbn [bind] in *. destruct y; exact H.
Qed.
Theorem rule_coalesce_3_sound : forall en a b c e', coalesce_case [a; b; c] = Some e' -> rw en (ECoalesce [a; b; c]) e'.
Proof.
  unfold rw. intros en a b c e' S v H. inversion S; subst; clear S. rewrite sev_coalesce in H. rewrite sev_case.
  cbn [coal_eval case_eval map] in *. unfold sevp. cbn [sev].
  destruct (sev en a) as [x|]; [|discriminate]. cbn [bind] in *. destruct x; cbn in *; try exact H.
  destruct (sev en b) as [y|]; [|discriminate]. cbn [bind] in *. destruct y; cbn in *; try exact H.
  destruct (sev en c) as [z|]; [|discriminate]. cbn [bind] in *. destruct z; exact H.
Qed.
Theorem nullif_as_case : forall en a b, rw en (ENullif a b) (ECase [(ECmp CEq a b, ELit VNull)] (Some a)).
Proof.
  unfold rw. intros en a b v H. rewrite sev_case. cbn [case_eval]. unfold sevp. cbn [sev] in *.
  destruct (sev en a) as [x|]; [|discriminate]. destruct (sev en b) as [y|]; [|discriminate]. cbn [bind] in *.
  rewrite value_of_tv_inj_tv. cbn [bind]. fold (eq3 x y). destruct (eq3 x y); exact H.
Qed.

(* ================================================================== unwrap_cast: cast(x AS t) op literal  -->  x op literal' *)
Ltac Zify.zify_post_hook ::= Z.div_mod_to_equations.
Lemma fits_iff : forall t z, fits t z = true <-> int_lo t <= z <= int_hi t.
Proof. intros t z. unfold fits. rewrite andb_true_iff, !Z.leb_le. tauto. Qed.
(* For every source type s and target type t among Int8..Int64, UInt8..UInt64, every literal value [lit] of the
   cast's type that try_cast_literal_to_type accepts for s, every column value x of type s (NULL included) and every
   comparison: whenever the ORIGINAL comparison (on the cast value) evaluates, the rewritten comparison on the
   narrow type has the same three-valued result -- provided the cast is a CAST (an out-of-range value is an error,
   not a value) or the cast is widening. *)
Theorem unwrap_cast_sound : forall op safe s t x lit c r,
  has_ty s x ->
  safe = false \/ widening s t = true ->
  cast_int safe t x = Ok c ->
  unwrap_cast_cmp op s x lit = Some r ->
  r = cmp3 op c (VInt lit).
Proof.
  intros op safe s t x lit c r TY G C U. unfold unwrap_cast_cmp, try_cast_int_literal in U.
  destruct (fits s lit) eqn:FL; [|discriminate]. inversion U; subst; clear U.
  destruct TY as [->|[z [-> Fz]]]; cbn [cast_int] in C; [inversion C; reflexivity|].
  destruct (fits t z) eqn:Ft; [inversion C; reflexivity|].
  destruct G as [->|W]; [discriminate C|].
  exfalso. apply fits_iff in Fz. unfold widening in W. apply andb_true_iff in W. rewrite !Z.leb_le in W.
  assert (fits t z = true) by (apply fits_iff; lia). congruence.
Qed.
(* the literal is unchanged by the cast down (exactly representable), and a literal out of the source range is
   never unwrapped (the comparison is left alone) *)
Theorem try_cast_int_literal_exact : forall s lit l, try_cast_int_literal s lit = Some l -> l = lit /\ int_lo s <= lit <= int_hi s.
Proof. unfold try_cast_int_literal. intros s lit l H. destruct (fits s lit) eqn:F; [|discriminate]. inversion H. split; [reflexivity|]. apply fits_iff. congruence. Qed.
Theorem try_cast_int_literal_max : forall s, try_cast_int_literal s (int_hi s) = Some (int_hi s) /\ try_cast_int_literal s (int_hi s + 1) = None.
Proof. destruct s; split; reflexivity. Qed.
Theorem try_cast_int_literal_min : forall s, try_cast_int_literal s (int_lo s) = Some (int_lo s) /\ try_cast_int_literal s (int_lo s - 1) = None.
Proof. destruct s; split; reflexivity. Qed.
(* the rule also fires for a NARROWING TRY_CAST (the Rust guard does not look at the direction of the cast):
   TRY_CAST(x AS t) is NULL when x does not fit, the unwrapped comparison is TRUE / FALSE *)
Theorem unwrap_try_cast_narrowing_refuted : exists op s t x lit c r,
  has_ty s x /\ cast_int true t x = Ok c /\ unwrap_cast_cmp op s x lit = Some r /\ cmp3 op c (VInt lit) = TU /\ r = TT.
Proof.
  exists CNe, I64, I32, (VInt 4294967296), 1, VNull, TT. repeat split. right. exists 4294967296. split; reflexivity.
Qed.

(* ================================================================== bitwise rules (two's complement = Z.land / Z.lor / Z.lxor) *)
Definition int_val (a : value) : Prop := exists z, a = VInt z.
Theorem rule_bitand_zero_sound : forall a, int_val a -> bitop Z.land a (VInt 0) = Ok (VInt 0).
Proof. intros a [z ->]. cbn. rewrite Z.land_0_r. reflexivity. Qed.
Theorem rule_bitand_zero_guard_needed : bitop Z.land VNull (VInt 0) = Ok VNull.
Proof. reflexivity. Qed.
Theorem rule_bitor_zero_sound : forall a, a = VNull \/ int_val a -> bitop Z.lor a (VInt 0) = Ok a.
Proof. intros a [->|[z ->]]; cbn; [reflexivity|]. rewrite Z.lor_0_r. reflexivity. Qed.
Theorem rule_bitxor_zero_sound : forall a, a = VNull \/ int_val a -> bitop Z.lxor a (VInt 0) = Ok a.
Proof. intros a [->|[z ->]]; cbn; [reflexivity|]. rewrite Z.lxor_0_r. reflexivity. Qed.
Theorem rule_shift_zero_sound : forall a, a = VNull \/ int_val a ->
  bitop Z.shiftl a (VInt 0) = Ok a /\ bitop Z.shiftr a (VInt 0) = Ok a.
Proof. intros a [->|[z ->]]; cbn [bitop]; split; rewrite ?Z.shiftl_0_r, ?Z.shiftr_0_r; reflexivity. Qed.
Theorem rule_bitand_self_sound : forall a b r, bitop Z.land a b = Ok r -> (x <- bitop Z.land a b;; bitop Z.land x a) = Ok r.
Proof.
  intros a b r H. destruct a as [| x | | |], b as [| y | | |]; cbn in *; try discriminate; try exact H.
  inversion H; subst. f_equal. f_equal. rewrite <- Z.land_assoc, (Z.land_comm y x), Z.land_assoc, Z.land_diag. reflexivity.
Qed.
Theorem rule_bitor_self_sound : forall a b r, bitop Z.lor a b = Ok r -> (x <- bitop Z.lor a b;; bitop Z.lor x a) = Ok r.
Proof.
  intros a b r H. destruct a as [| x | | |], b as [| y | | |]; cbn in *; try discriminate; try exact H.
  inversion H; subst. f_equal. f_equal. rewrite <- Z.lor_assoc, (Z.lor_comm y x), Z.lor_assoc, Z.lor_diag. reflexivity.
Qed.
(* A & (A | B) --> A  and  A | (A & B) --> A  when B (the rule checks the whole right operand) is not NULL *)
Theorem rule_bitand_absorb_sound : forall x y, (o <- bitop Z.lor (VInt x) (VInt y);; bitop Z.land (VInt x) o) = Ok (VInt x).
Proof. intros x y. cbn. rewrite Z.land_lor_distr_r, Z.land_diag. f_equal. f_equal. apply Z.bits_inj'. intros n Hn.
  rewrite Z.lor_spec, Z.land_spec. destruct (Z.testbit x n), (Z.testbit y n); reflexivity. Qed.
Theorem rule_bitor_absorb_sound : forall x y, (o <- bitop Z.land (VInt x) (VInt y);; bitop Z.lor (VInt x) o) = Ok (VInt x).
Proof. intros x y. cbn. f_equal. f_equal. apply Z.bits_inj'. intros n Hn.
  rewrite Z.lor_spec, Z.land_spec. destruct (Z.testbit x n), (Z.testbit y n); reflexivity. Qed.
Theorem rule_bit_absorb_guard_needed : (o <- bitop Z.lor (VInt 1) VNull;; bitop Z.land (VInt 1) o) = Ok VNull.
Proof. reflexivity. Qed.
(* (A ^ B) ^ A --> B   (delete_xor_in_complex_expr), A ^ A --> 0; guard: A not NULL *)
Theorem rule_bitxor_cancel_sound : forall x b r, bitop Z.lxor (VInt x) b = Ok r -> bitop Z.lxor r (VInt x) = Ok b.
Proof.
  intros x b r H. destruct b as [| y | | |]; cbn in *; try discriminate; inversion H; subst; cbn; [reflexivity|].
  f_equal. f_equal. rewrite (Z.lxor_comm x y), Z.lxor_assoc, Z.lxor_nilpotent, Z.lxor_0_r. reflexivity.
Qed.
Theorem rule_bitxor_self_sound : forall x, bitop Z.lxor (VInt x) (VInt x) = Ok (VInt 0).
Proof. intros x. cbn. rewrite Z.lxor_nilpotent. reflexivity. Qed.
(* "!A & A --> 0, !A | A --> -1, !A ^ A --> -1": true for BITWISE NOT (Z.lnot) ... *)
Theorem bitwise_not_complement : forall x, Z.land (Z.lnot x) x = 0 /\ Z.lor (Z.lnot x) x = -1 /\ Z.lxor (Z.lnot x) x = -1.
Proof.
  intros x. repeat split.
  - rewrite Z.land_comm. apply Z.land_lnot_diag.
  - rewrite Z.lor_comm. apply Z.lor_lnot_diag.
  - apply Z.bits_inj'. intros n Hn. rewrite Z.lxor_spec, Z.lnot_spec, Z.bits_m1 by assumption. destruct (Z.testbit x n); reflexivity.
Qed.
(* ... but the Rust guard [is_negative_of] matches Expr::Negative, which is ARITHMETIC negation: *)
Theorem rule_bitand_negative_refuted : exists x a r, neg_val (VInt x) = Ok a /\ bitop Z.land a (VInt x) = Ok r /\ r <> VInt 0.
Proof. exists 1, (VInt (-1)), (VInt 1). repeat split. discriminate. Qed.
Theorem rule_bitor_negative_refuted : exists x a r, neg_val (VInt x) = Ok a /\ bitop Z.lor a (VInt x) = Ok r /\ r <> VInt (-1).
Proof. exists 2, (VInt (-2)), (VInt (-2)). repeat split. discriminate. Qed.
Theorem rule_bitxor_negative_refuted : exists x a r, neg_val (VInt x) = Ok a /\ bitop Z.lxor a (VInt x) = Ok r /\ r <> VInt (-1).
Proof. exists 1, (VInt (-1)), (VInt (-2)). repeat split. discriminate. Qed.
(* distribute_negation: -(A & B) --> (-A) | (-B) is De Morgan for bitwise NOT, not for unary minus *)
Theorem rule_negative_demorgan_refuted : exists x y, - (Z.land x y) <> Z.lor (- x) (- y).
Proof. exists 2, 3. cbv. discriminate. Qed.
Theorem rule_negative_negative_sound : forall a r, neg_val a = Ok r -> neg_val r = Ok a.
Proof. intros a r H. destruct a; cbn in *; try discriminate; inversion H; cbn; [reflexivity|]. rewrite Z.opp_involutive. reflexivity. Qed.

(* ================================================================== guarantees.rs: a column known to lie in [lo, hi] *)
Theorem rule_guarantee_interval_cmp_sound : forall op lo hi c x b,
  lo <= x <= hi -> interval_cmp op lo hi c = Some b -> cmp3 op (VInt x) (VInt c) = tv_of_bool b.
Proof.
  intros op lo hi c x b R H. unfold cmp3, vcompare, vcmp_nn. unfold interval_cmp in H.
  destruct op; destruct (Z.compare_spec x c) as [E|E|E]; cbn [cmp_holds];
    repeat match type of H with
    | (if ?g then _ else _) = _ => let G := fresh "G" in destruct g eqn:G
    end; inversion H; subst; try reflexivity; exfalso;
    repeat match goal with
    | G : (_ && _) = true |- _ => apply andb_true_iff in G; destruct G
    | G : (_ && _) = false |- _ => apply andb_false_iff in G
    | G : (_ || _) = true |- _ => apply orb_true_iff in G
    | G : (_ || _) = false |- _ => apply orb_false_iff in G; destruct G
    end;
    rewrite ?Z.eqb_eq, ?Z.eqb_neq, ?Z.ltb_lt, ?Z.ltb_ge, ?Z.leb_le, ?Z.leb_gt in *; lia.
Qed.
(* IS [NOT] NULL under a NULL-ness guarantee *)
Theorem rule_guarantee_is_null_sound : forall en A neg, nonnull_at en A -> rw en (EIsNull neg A) (ELit (VBool neg)).
Proof. unfold rw, nonnull_at. intros en A neg NN v H. cbn [sev] in *. destruct (sev en A) as [x|]; [|discriminate]. specialize (NN _ eq_refl).
  cbn [bind] in *. destruct x; try congruence; destruct neg; exact H. Qed.
Theorem rule_guarantee_single_value_sound : forall en A c, (forall v, sev en A = Ok v -> v = c) -> rw en A (ELit c).
Proof. unfold rw. intros en A c G v H. cbn [sev]. rewrite (G _ H). reflexivity. Qed.

(* ================================================================== the nullability analysis behind the guards *)
Fixpoint nullable_firstn (sch : schema) (n : nat) (l : list expr) : bool :=
  match n, l with
  | S n', x :: l' => nullable sch x || nullable_firstn sch n' l'
  | _, _ => false
  end.
Lemma nullable_inlist_eq : forall sch neg a l,
  nullable sch (EInList neg a l) = nullable sch a || nullable_firstn sch 5 l || (6 <? Z.of_nat (length l) + 1).
Proof. reflexivity. Qed.
Lemma nullable_firstn_all : forall sch n l, (length l <= n)%nat -> nullable_firstn sch n l = false ->
  forall x, In x l -> nullable sch x = false.
Proof.
  induction n as [|n IH]; intros l L H x Hin.
  - destruct l; [contradiction|cbn in L; lia].
  - destruct l as [|y l]; [contradiction|]. cbn [nullable_firstn] in H. apply orb_false_iff in H. destruct H as [Hy Hl].
    destruct Hin as [->|Hin]; [exact Hy|]. apply (IH l); [cbn in L; lia|exact Hl|exact Hin].
Qed.
Lemma tv_nonnull : forall v t, v <> VNull -> tv_of_value v = Ok t -> t <> TU.
Proof. intros v t NN H. destruct v as [| ? | [|] | ? | ? ?]; cbn in H; try discriminate; try congruence; inversion H; discriminate. Qed.
Lemma value_of_tv_nonnull : forall t, t <> TU -> value_of_tv t <> VNull.
Proof. destruct t; cbn; congruence. Qed.
Lemma cmp3_nonnull : forall op x y, x <> VNull -> y <> VNull -> cmp3 op x y <> TU.
Proof. intros op x y Hx Hy. unfold cmp3, vcompare. destruct x; try congruence; destruct y; try congruence; destruct (cmp_holds op _); discriminate. Qed.
Lemma in3_nonnull : forall x vs, x <> VNull -> (forall v, In v vs -> v <> VNull) -> in3 x vs <> TU.
Proof.
  intros x vs Hx. unfold in3, any3. induction vs as [|v vs IH]; intros H; [discriminate|]. cbn [map fold_right].
  assert (A : eq3 x v <> TU) by (apply cmp3_nonnull; [exact Hx|apply H; left; reflexivity]).
  assert (B : fold_right or3 TF (map (eq3 x) vs) <> TU) by (apply IH; intros w Hw; apply H; right; exact Hw).
  destruct (eq3 x v), (fold_right or3 TF (map (eq3 x) vs)); cbn; congruence.
Qed.
Lemma mapM_all : forall {A B} (f : A -> res B) l ys, mapM f l = Ok ys ->
  forall y, In y ys -> exists x, In x l /\ f x = Ok y.
Proof.
  induction l as [|x l IH]; intros ys H y Hy; cbn [mapM] in H.
  - inversion H; subst. contradiction.
  - destruct (f x) as [b|] eqn:E; [|discriminate]. cbn [bind] in H. destruct (mapM f l) as [bs|]; [|discriminate].
    cbn [bind] in H. inversion H; subst. destruct Hy as [<-|Hy].
    + exists x. split; [left; reflexivity|exact E].
    + destruct (IH bs eq_refl y Hy) as [x' [Hin Hx]]. exists x'. split; [right; exact Hin|exact Hx].
Qed.

(* [info.nullable(e) = false] implies that e never evaluates to NULL on a row that respects the schema's NOT NULL
   declarations: the syntactic guard of the rules implies the semantic hypothesis [nonnull_at] of the rule theorems *)
Theorem nullable_sound : forall sch r en e,
  conforms sch r -> nullable sch e = false -> nonnull_at (r :: en) e.
Proof.
  intros sch r en e CF. unfold nonnull_at.
  assert (G : forall n e, (edepth e < n)%nat -> nullable sch e = false -> forall v, sev (r :: en) e = Ok v -> v <> VNull);
    [|intros; eapply (G (S (edepth e))); eauto].
  clear e. induction n as [|n IH]; intros e DP NL v H; [lia|].
  destruct e; cbn [edepth nullable] in DP, NL; try discriminate NL;
    repeat match goal with G : _ || _ = false |- _ => apply orb_false_iff in G; destruct G end.
  - (* column *)
    destruct (depth =? 0) eqn:D0; [|discriminate]. apply Z.eqb_eq in D0. subst. cbn [sev] in H. unfold lookup in H. cbn in H.
    destruct (nth_error r (Z.to_nat idx)) as [w|] eqn:E; [|discriminate]. inversion H; subst. apply (CF idx); assumption.
  - cbn [sev] in H. inversion H; subst. destruct v; [discriminate NL|..]; discriminate.
  - (* arithmetic *)
    cbn [sev] in H. destruct (sev (r :: en) e1) as [x|] eqn:E1; [|discriminate]. destruct (sev (r :: en) e2) as [y|] eqn:E2; [|discriminate].
    cbn [bind] in H. assert (x <> VNull) by (eapply (IH e1); eauto; lia). assert (y <> VNull) by (eapply (IH e2); eauto; lia).
    destruct x; try congruence; destruct y; try congruence; cbn in H; try discriminate.
    unfold chk64 in H. destruct op; repeat match type of H with (if ?g then _ else _) = _ => destruct g end; inversion H; discriminate.
  - (* comparison *)
    cbn [sev] in H. destruct (sev (r :: en) e1) as [x|] eqn:E1; [|discriminate]. destruct (sev (r :: en) e2) as [y|] eqn:E2; [|discriminate].
    cbn [bind] in H. inversion H. apply value_of_tv_nonnull. apply cmp3_nonnull; [eapply (IH e1)|eapply (IH e2)]; eauto; lia.
  - (* AND *)
    cbn [sev] in H. destruct (sev (r :: en) e1) as [x|] eqn:E1; [|discriminate]. cbn [bind] in H.
    destruct (tv_of_value x) as [tx|] eqn:T1; [|discriminate]. cbn [bind] in H.
    destruct (sev (r :: en) e2) as [y|] eqn:E2; [|discriminate]. cbn [bind] in H.
    destruct (tv_of_value y) as [ty|] eqn:T2; [|discriminate]. cbn [bind] in H. inversion H.
    assert (tx <> TU) by (eapply tv_nonnull; [eapply (IH e1); eauto; lia|exact T1]).
    assert (ty <> TU) by (eapply tv_nonnull; [eapply (IH e2); eauto; lia|exact T2]).
    destruct tx, ty; cbn; congruence.
  - (* OR *)
    cbn [sev] in H. destruct (sev (r :: en) e1) as [x|] eqn:E1; [|discriminate]. cbn [bind] in H.
    destruct (tv_of_value x) as [tx|] eqn:T1; [|discriminate]. cbn [bind] in H.
    destruct (sev (r :: en) e2) as [y|] eqn:E2; [|discriminate]. cbn [bind] in H.
    destruct (tv_of_value y) as [ty|] eqn:T2; [|discriminate]. cbn [bind] in H. inversion H.
    assert (tx <> TU) by (eapply tv_nonnull; [eapply (IH e1); eauto; lia|exact T1]).
    assert (ty <> TU) by (eapply tv_nonnull; [eapply (IH e2); eauto; lia|exact T2]).
    destruct tx, ty; cbn; congruence.
  - (* NOT *)
    cbn [sev] in H. destruct (sev (r :: en) e) as [x|] eqn:E1; [|discriminate]. cbn [bind] in H.
    destruct (tv_of_value x) as [tx|] eqn:T1; [|discriminate]. cbn [bind] in H. inversion H.
    assert (tx <> TU) by (eapply tv_nonnull; [eapply (IH e); eauto; lia|exact T1]). destruct tx; cbn; congruence.
  - (* IS NULL *)
    cbn [sev] in H. destruct (sev (r :: en) e) as [x|]; [|discriminate]. inversion H. discriminate.
  - (* IS DISTINCT FROM *)
    cbn [sev] in H. destruct (sev (r :: en) e1) as [x|]; [|discriminate]. destruct (sev (r :: en) e2) as [y|]; [|discriminate].
    inversion H. discriminate.
  - (* BETWEEN *)
    cbn [sev] in H. destruct (sev (r :: en) e1) as [x|] eqn:E1; [|discriminate]. destruct (sev (r :: en) e2) as [y|] eqn:E2; [|discriminate].
    destruct (sev (r :: en) e3) as [z|] eqn:E3; [|discriminate]. cbn [bind] in H. inversion H.
    assert (x <> VNull) by (eapply (IH e1); eauto; lia). assert (y <> VNull) by (eapply (IH e2); eauto; lia).
    assert (z <> VNull) by (eapply (IH e3); eauto; lia).
    pose proof (cmp3_nonnull CGe x y ltac:(assumption) ltac:(assumption)). pose proof (cmp3_nonnull CLe x z ltac:(assumption) ltac:(assumption)).
    apply value_of_tv_nonnull. destruct (cmp3 CGe x y), (cmp3 CLe x z), neg; cbn; congruence.
  - (* IN list *)
    fold (nullable_firstn sch 5 l) in *. rewrite sev_inlist in H.
    destruct (sev (r :: en) e) as [x|] eqn:E1; [|discriminate]. cbn [bind] in H.
    destruct (mapM (sev (r :: en)) l) as [vs|] eqn:M; [|discriminate]. cbn [bind] in H. inversion H.
    assert (Hx : x <> VNull) by (eapply (IH e); eauto; lia).
    assert (LEN : (length l <= 5)%nat) by (apply Z.ltb_ge in H1; lia).
    assert (Hvs : forall w, In w vs -> w <> VNull).
    { intros w Hw. destruct (mapM_all _ _ _ M w Hw) as [y [Hin Hy]]. eapply (IH y); eauto.
      - pose proof (list_max_nat_In (map edepth l) (edepth y) (in_map edepth l y Hin)). lia.
      - eapply nullable_firstn_all; eauto. }
    pose proof (in3_nonnull x vs Hx Hvs). apply value_of_tv_nonnull. unfold not_in3. destruct (in3 x vs), neg; cbn; congruence.
  - (* CASE *)
    rewrite sev_case in H. destruct els as [x|]; [|discriminate].
    assert (WS : forall w t, In (w, t) ws -> forall u, sev (r :: en) t = Ok u -> u <> VNull).
    { intros w t Hin u Hu. eapply (IH t); eauto.
      - pose proof (list_max_nat_In _ _ (in_map (fun wt : expr * expr => let (w, t) := wt in Nat.max (edepth w) (edepth t)) ws _ Hin)) as M.
        cbn in M. lia.
      - destruct (nullable sch t) eqn:N; [|reflexivity]. exfalso.
        assert (existsb (fun wt : expr * expr => let (_, t) := wt in nullable sch t) ws = true).
        { apply existsb_exists. exists (w, t). split; [exact Hin|exact N]. }
        congruence. }
    assert (EL : forall u, sev (r :: en) x = Ok u -> u <> VNull) by (intros u Hu; eapply (IH x); eauto; lia).
    clear DP H0 H1. induction ws as [|[w t] ws IHws]; cbn [case_eval] in H; [apply EL; exact H|].
    destruct (sevp (r :: en) w) as [c|]; [|discriminate]. cbn [bind] in H.
    destruct c; [apply (WS w t (or_introl eq_refl)); exact H| |]; (apply IHws; [exact H|intros w' t' Hin; apply (WS w' t'); right; exact Hin]).
Qed.

(* ================================================================== region abstraction *)
Definition same_region (cs : list Z) (x x' : Z) : Prop := forall c, In c cs -> (x ?= c) = (x' ?= c).
Lemma compare_swap_same : forall x x' c, (x ?= c) = (x' ?= c) -> (c ?= x) = (c ?= x').
Proof. intros x x' c H. rewrite (Z.compare_antisym x c), (Z.compare_antisym x' c), H. reflexivity. Qed.
Lemma region_congr : forall cs x x' e, lit_atoms cs e = true -> same_region cs x x' ->
  sev [[VInt x]] e = sev [[VInt x']] e.
Proof.
  intros cs x x' e. induction e; intros LA SR; cbn [lit_atoms] in LA; try discriminate LA.
  - reflexivity.
  - (* comparison, the literal on either side *)
    destruct e1; try discriminate LA.
    + destruct depth; try discriminate LA. destruct idx; try discriminate LA.
      destruct e2; try discriminate LA. destruct v; try discriminate LA.
      apply existsb_exists in LA. destruct LA as [c [Hin E]]. apply Z.eqb_eq in E. subst c.
      cbn. unfold cmp3, vcompare, vcmp_nn. rewrite (SR z Hin). reflexivity.
    + destruct v; try discriminate LA. destruct e2; try discriminate LA.
      destruct depth; try discriminate LA. destruct idx; try discriminate LA.
      apply existsb_exists in LA. destruct LA as [c [Hin E]]. apply Z.eqb_eq in E. subst c.
      cbn. unfold cmp3, vcompare, vcmp_nn. rewrite (compare_swap_same x x' z (SR z Hin)). reflexivity.
  - apply andb_true_iff in LA. destruct LA as [L1 L2]. cbn [sev]. rewrite (IHe1 L1 SR), (IHe2 L2 SR). reflexivity.
  - apply andb_true_iff in LA. destruct LA as [L1 L2]. cbn [sev]. rewrite (IHe1 L1 SR), (IHe2 L2 SR). reflexivity.
  - cbn [sev]. rewrite (IHe LA SR). reflexivity.
  - destruct e; try discriminate LA. destruct depth; try discriminate LA. destruct idx; try discriminate LA. reflexivity.
  - (* BETWEEN two literals *)
    destruct e1; try discriminate LA. destruct depth; try discriminate LA. destruct idx; try discriminate LA.
    destruct e2; try discriminate LA. destruct v; try discriminate LA.
    destruct e3; try discriminate LA. destruct v; try discriminate LA.
    apply andb_true_iff in LA. destruct LA as [L1 L2].
    apply existsb_exists in L1. destruct L1 as [c1 [Hin1 E1]]. apply Z.eqb_eq in E1. subst c1.
    apply existsb_exists in L2. destruct L2 as [c2 [Hin2 E2]]. apply Z.eqb_eq in E2. subst c2.
    cbn. unfold cmp3, vcompare, vcmp_nn. rewrite (SR z Hin1), (SR z0 Hin2). reflexivity.
Qed.

Fixpoint max_below (cs : list Z) (x : Z) : option Z :=
  match cs with
  | [] => None
  | c :: cs' => match max_below cs' x with
                | Some m => if (c <? x) && (m <? c) then Some c else Some m
                | None => if c <? x then Some c else None
                end
  end.
Fixpoint min_above (cs : list Z) (x : Z) : option Z :=
  match cs with
  | [] => None
  | c :: cs' => match min_above cs' x with
                | Some m => if (x <? c) && (c <? m) then Some c else Some m
                | None => if x <? c then Some c else None
                end
  end.
Lemma max_below_spec : forall cs x,
  match max_below cs x with
  | Some m => In m cs /\ m < x /\ forall c, In c cs -> c < x -> c <= m
  | None => forall c, In c cs -> x <= c
  end.
Proof.
  induction cs as [|c cs IH]; intros x; cbn [max_below]; [intros c []|].
  specialize (IH x). destruct (max_below cs x) as [m|].
  - destruct IH as [Hin [Hlt Hmax]]. destruct ((c <? x) && (m <? c)) eqn:G.
    + apply andb_true_iff in G. destruct G as [G1 G2]. apply Z.ltb_lt in G1, G2. repeat split; [left; reflexivity|lia|].
      intros c' [<-|Hc'] L; [lia|]. specialize (Hmax c' Hc' L). lia.
    + apply andb_false_iff in G. repeat split; [right; exact Hin|exact Hlt|].
      intros c' [<-|Hc'] L; [|apply Hmax; assumption]. destruct G as [G|G]; [apply Z.ltb_ge in G; lia|apply Z.ltb_ge in G; lia].
  - destruct (c <? x) eqn:G.
    + apply Z.ltb_lt in G. repeat split; [left; reflexivity|exact G|]. intros c' [<-|Hc'] L; [lia|]. specialize (IH c' Hc'). lia.
    + apply Z.ltb_ge in G. intros c' [<-|Hc']; [exact G|apply IH; exact Hc'].
Qed.
Lemma min_above_spec : forall cs x,
  match min_above cs x with
  | Some m => In m cs /\ x < m /\ forall c, In c cs -> x < c -> m <= c
  | None => forall c, In c cs -> c <= x
  end.
Proof.
  induction cs as [|c cs IH]; intros x; cbn [min_above]; [intros c []|].
  specialize (IH x). destruct (min_above cs x) as [m|].
  - destruct IH as [Hin [Hlt Hmin]]. destruct ((x <? c) && (c <? m)) eqn:G.
    + apply andb_true_iff in G. destruct G as [G1 G2]. apply Z.ltb_lt in G1, G2. repeat split; [left; reflexivity|lia|].
      intros c' [<-|Hc'] L; [lia|]. specialize (Hmin c' Hc' L). lia.
    + apply andb_false_iff in G. repeat split; [right; exact Hin|exact Hlt|].
      intros c' [<-|Hc'] L; [|apply Hmin; assumption]. destruct G as [G|G]; [apply Z.ltb_ge in G; lia|apply Z.ltb_ge in G; lia].
  - destruct (x <? c) eqn:G.
    + apply Z.ltb_lt in G. repeat split; [left; reflexivity|exact G|]. intros c' [<-|Hc'] L; [lia|]. specialize (IH c' Hc'). lia.
    + apply Z.ltb_ge in G. intros c' [<-|Hc']; [exact G|apply IH; exact Hc'].
Qed.
Lemma reps_In : forall cs c k, In c cs -> k = c - 1 \/ k = c \/ k = c + 1 -> In (VInt k) (reps cs).
Proof.
  intros cs c k Hin Hk. unfold reps. right. right. apply in_flat_map. exists c. split; [exact Hin|].
  destruct Hk as [->|[->| ->]]; cbn; auto.
Qed.
Lemma cmp_same : forall a b c, (a < c /\ b < c) \/ (a = c /\ b = c) \/ (c < a /\ c < b) -> (a ?= c) = (b ?= c).
Proof.
  intros a b c [[H1 H2]|[[-> ->]|[H1 H2]]]; [|reflexivity|].
  - apply Z.compare_lt_iff in H1, H2. congruence.
  - apply Z.compare_gt_iff in H1, H2. congruence.
Qed.
(* every integer lies in the region of a representative *)
Lemma rep_exists : forall cs x, exists x', In (VInt x') (reps cs) /\ same_region cs x x'.
Proof.
  intros cs x. pose proof (max_below_spec cs x) as MB. pose proof (min_above_spec cs x) as MA.
  destruct (existsb (Z.eqb x) cs) eqn:EX.
  - apply existsb_exists in EX. destruct EX as [c [Hin E]]. apply Z.eqb_eq in E. subst c.
    exists x. split; [apply (reps_In cs x); auto|]. intros c _. reflexivity.
  - assert (NE : forall c, In c cs -> c <> x).
    { intros c Hc ->. assert (existsb (Z.eqb x) cs = true) by (apply existsb_exists; exists x; split; [exact Hc|apply Z.eqb_refl]). congruence. }
    destruct (max_below cs x) as [m|].
    + destruct MB as [Hin [Hlt Hmax]]. exists (m + 1). split; [apply (reps_In cs m); auto|].
      intros c Hc. apply cmp_same. pose proof (NE c Hc). destruct (Z.lt_trichotomy c x) as [L|[E|G]]; [|congruence|].
      * right. right. specialize (Hmax c Hc L). lia.
      * left. lia.
    + destruct (min_above cs x) as [m|].
      * destruct MA as [Hin [Hlt Hmin]]. exists (m - 1). split; [apply (reps_In cs m); auto|].
        intros c Hc. apply cmp_same. pose proof (NE c Hc). pose proof (MB c Hc). left. specialize (Hmin c Hc). lia.
      * exists 0. split; [right; left; reflexivity|]. intros c Hc. pose proof (NE c Hc). pose proof (MB c Hc). pose proof (MA c Hc). lia.
Qed.
(* the per-program validator restricted to literal-comparison atoms is a PROOF for that program, for all values of the column *)
Theorem equiv_regions_sound : forall e e' cs, equiv_regions e e' cs = true ->
  forall v, v = VNull \/ (exists z, v = VInt z) -> sev [[v]] e = sev [[v]] e'.
Proof.
  intros e e' cs H v Hv. unfold equiv_regions in H. apply andb_true_iff in H. destruct H as [H F].
  apply andb_true_iff in H. destruct H as [L L']. rewrite forallb_forall in F.
  assert (S : forall w, In w (reps cs) -> sev [[w]] e = sev [[w]] e').
  { intros w Hw. specialize (F w Hw). unfold same_on in F. destruct (sev [[w]] e) as [a|]; [|discriminate].
    destruct (sev [[w]] e') as [b|]; [|discriminate]. apply value_eqb_eq in F. subst. reflexivity. }
  destruct Hv as [->|[z ->]]; [apply S; left; reflexivity|].
  destruct (rep_exists cs z) as [z' [Hin SR]].
  rewrite (region_congr cs z z' e L SR), (region_congr cs z z' e' L' SR). apply S. exact Hin.
Qed.
Theorem equiv_regions_example :
  equiv_regions (EAnd (ECmp CGe (ECol 0 0) (ELit (VInt 5))) (ECmp CLe (ECol 0 0) (ELit (VInt 5))))
                (ECmp CEq (ECol 0 0) (ELit (VInt 5))) [5] = true /\
  equiv_regions (ENot (ECmp CLt (ECol 0 0) (ELit (VInt 3)))) (ECmp CGt (ECol 0 0) (ELit (VInt 3))) [3] = false.
Proof. split; vm_compute; reflexivity. Qed.
