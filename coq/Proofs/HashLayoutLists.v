(* C12 -- list / window lemmas used by Proofs/HashLayoutProofs.v *)
From Coq Require Import List ZArith Bool Arith Lia.
From DF Require Import Base.Prelude Model.HashLayout.
Import ListNotations.
Local Open Scope nat_scope.

(* ------------------------------------------------------------------ list tools *)
Lemma nth_firstn' A (l : list A) d : forall n i, i < n -> nth i (firstn n l) d = nth i l d.
Proof.
  induction l as [|x l IH]; intros n i H.
  - rewrite firstn_nil. reflexivity.
  - destruct n; [lia|]. destruct i; cbn; [reflexivity|]. apply IH. lia.
Qed.

Lemma nth_skipn' A (l : list A) d : forall n i, nth i (skipn n l) d = nth (n + i) l d.
Proof.
  induction l as [|x l IH]; intros n i.
  - rewrite skipn_nil. destruct i, n; reflexivity.
  - destruct n; cbn; [reflexivity|]. apply IH.
Qed.

Lemma win_length A off len (l : list A) : off + len <= length l -> length (win off len l) = len.
Proof. intros. unfold win. rewrite firstn_length, skipn_length. lia. Qed.

Lemma nth_win A off len (l : list A) d i : i < len -> nth i (win off len l) d = nth (off + i) l d.
Proof. intros. unfold win. rewrite nth_firstn' by assumption. apply nth_skipn'. Qed.

Lemma skipn_skipn' A (l : list A) : forall a b, skipn a (skipn b l) = skipn (b + a) l.
Proof.
  induction l as [|x l IH]; intros a b.
  - rewrite !skipn_nil. reflexivity.
  - destruct b; cbn; [reflexivity|]. apply IH.
Qed.

Lemma win_win A (xs : list A) o n s l : s + l <= n -> win s l (win o n xs) = win (o + s) l xs.
Proof.
  intros H. unfold win. rewrite skipn_firstn_comm, firstn_firstn, skipn_skipn'.
  f_equal. lia.
Qed.

Lemma map2_length A B C (f : A -> B -> C) a : forall b, length (map2 f a b) = Nat.min (length a) (length b).
Proof. induction a as [|x a IH]; intros [|y b]; cbn; auto. Qed.

Lemma nth_map2 A B C (f : A -> B -> C) da db dc a :
  forall b i, i < length a -> i < length b -> nth i (map2 f a b) dc = f (nth i a da) (nth i b db).
Proof.
  induction a as [|x a IH]; intros [|y b] i Ha Hb; cbn in *; try lia.
  destruct i; [reflexivity|]. apply IH; lia.
Qed.

Lemma map3_length A B C D (f : A -> B -> C -> D) a :
  forall b c, length (map3 f a b c) = Nat.min (length a) (Nat.min (length b) (length c)).
Proof. induction a as [|x a IH]; intros [|y b] [|z c]; cbn; auto. Qed.

Lemma nth_map3 A B C D (f : A -> B -> C -> D) da db dc dd a :
  forall b c i, i < length a -> i < length b -> i < length c ->
    nth i (map3 f a b c) dd = f (nth i a da) (nth i b db) (nth i c dc).
Proof.
  induction a as [|x a IH]; intros [|y b] [|z c] i Ha Hb Hc; cbn in *; try lia.
  destruct i; [reflexivity|]. apply IH; lia.
Qed.

Lemma firstn_map2 A B C (f : A -> B -> C) n : forall a b, firstn n (map2 f a b) = map2 f (firstn n a) (firstn n b).
Proof. induction n; intros [|x a] [|y b]; cbn; try reflexivity. f_equal. apply IHn. Qed.

Lemma skipn_map2 A B C (f : A -> B -> C) n : forall a b, skipn n (map2 f a b) = map2 f (skipn n a) (skipn n b).
Proof.
  induction n; intros [|x a] [|y b]; cbn; try reflexivity.
  - destruct (skipn n a); reflexivity.
  - apply IHn.
Qed.

Lemma win_map2 A B C (f : A -> B -> C) s l a b : win s l (map2 f a b) = map2 f (win s l a) (win s l b).
Proof. unfold win. rewrite skipn_map2, firstn_map2. reflexivity. Qed.

Lemma map2_id_l A (l : list A) : forall (acc : list Z), length l = length acc -> map2 (fun _ a => a) l acc = acc.
Proof. induction l; intros [|z acc] H; cbn in *; try lia; auto. f_equal. apply IHl. lia. Qed.

Lemma Forall_firstn' A (P : A -> Prop) n : forall l, Forall P l -> Forall P (firstn n l).
Proof. induction n; intros l H; cbn; [constructor|]. destruct H; constructor; auto. Qed.
Lemma Forall_skipn' A (P : A -> Prop) n : forall l, Forall P l -> Forall P (skipn n l).
Proof. induction n; intros l H; cbn; [assumption|]. destruct H; auto. Qed.
Lemma Forall_win A (P : A -> Prop) s l xs : Forall P xs -> Forall P (win s l xs).
Proof. intros. unfold win. apply Forall_firstn', Forall_skipn'. assumption. Qed.

(* ------------------------------------------------------------------ validity windows *)
Definition nulls_ok (n : option (list bool)) (bound : nat) : Prop :=
  match n with None => True | Some v => bound <= length v end.

Lemma vwin_length n off len : nulls_ok n (off + len) -> length (vwin n off len) = len.
Proof. destruct n; cbn; intros; [apply win_length; assumption | apply repeat_length]. Qed.

Lemma nth_repeat_true i len d : i < len -> nth i (repeat true len) d = true.
Proof. revert i. induction len; intros i H; [lia|]. destruct i; cbn; [reflexivity|]. apply IHlen. lia. Qed.

Lemma nth_vwin n off len i d : i < len ->
  nth i (vwin n off len) d = match n with None => true | Some v => nth (off + i) v d end.
Proof. intros. destruct n; cbn; [apply nth_win; assumption | apply nth_repeat_true; assumption]. Qed.

Lemma vwin_win n off len s l : nulls_ok n (off + len) -> s + l <= len ->
  win s l (vwin n off len) = vwin n (off + s) l.
Proof.
  intros Hn H. destruct n; cbn in *; [apply win_win; assumption|].
  apply nth_ext with (d := true) (d' := true).
  - rewrite win_length, repeat_length; [reflexivity | rewrite repeat_length; lia].
  - intros i Hi. rewrite win_length in Hi by (rewrite repeat_length; lia).
    rewrite nth_win, !nth_repeat_true by lia. reflexivity.
Qed.

Lemma count_false_repeat len : count_false (repeat true len) = 0.
Proof. induction len; cbn; auto. Qed.

Lemma nullcnt_vwin n off len : nullcnt n off len = count_false (vwin n off len).
Proof. destruct n; cbn; [reflexivity | symmetry; apply count_false_repeat]. Qed.

Lemma count_false_0 l : count_false l = 0 -> forall i d, i < length l -> nth i l d = true.
Proof.
  induction l as [|b l IH]; cbn; intros H i d Hi; [lia|].
  destruct b; cbn in H; [|lia]. destruct i; [reflexivity|]. apply IH; [assumption | lia].
Qed.

Lemma buf_ok_spec A (b : buf A) : buf_ok b = true ->
  b_off b + b_len b <= length (b_vals b) /\ nulls_ok (b_nulls b) (b_off b + b_len b).
Proof.
  unfold buf_ok. rewrite andb_true_iff, Nat.leb_le. intros [H1 H2]. split; [assumption|].
  destruct (b_nulls b); cbn; [apply Nat.leb_le; assumption | exact I].
Qed.

Lemma nulls_ok_le n a b : nulls_ok n b -> a <= b -> nulls_ok n a.
Proof. destruct n; cbn; intros; [lia | exact I]. Qed.

