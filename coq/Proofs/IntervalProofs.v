(* C23 -- proofs about the interval model (Model/Interval.v): soundness of every modelled operation for ALL
   intervals and member values (unbounded quantification over Z), and the refutation witnesses for the inputs
   on which the implementation's integer mul / div / propagation rules are not sound. *)
From DF Require Import Base.Prelude Model.Interval.
From Coq Require Import Lia ZifyBool.
Open Scope Z_scope.

Ltac unf := repeat progress unfold igt, igteq, ilt, ilteq, iequal, intersect, union, contains, contains_value, max_of_bounds, min_of_bounds,
  inI, inB, lb_ok, ub_ok, ole, olt, oge, ogt, oeq, zopt_eqb, opt_eqb, is_null, ieq, beq, B_TRUE, B_FALSE, B_UNC, cmp_sem,
  wfI, wfb, in_range, tmin in *.
Ltac ifs := repeat match goal with
   | |- context[if ?c then _ else _] => let E := fresh "E" in destruct c eqn:E
   | H : context[if ?c then _ else _] |- _ => let E := fresh "E" in destruct c eqn:E
   end.
Ltac fin := cbn in *; try (split; intros); try discriminate; try congruence; try lia.
Ltac dI a := destruct a as [[?|] [?|]].

Lemma add_sound : forall M a b x y, wfI M a -> wfI M b -> inI x a -> inI y b ->
  in_range M (x + y) = true -> inI (x + y) (iadd M a b).
Proof.
  intros M a b x y; dI a; dI b; unfold iadd, add_bounds, checked, handle_overflow, positive_sign; unf; cbn; intros; ifs; fin.
Qed.
Lemma sub_sound : forall M a b x y, wfI M a -> wfI M b -> inI x a -> inI y b ->
  in_range M (x - y) = true -> inI (x - y) (isub M a b).
Proof.
  intros M a b x y; dI a; dI b; unfold isub, sub_bounds, checked, handle_overflow, positive_sign; unf; cbn; intros; ifs; fin.
Qed.

(* endpoint products *)
Lemma mulb_lower : forall M oa ob p, wfb M oa -> wfb M ob -> in_range M p = true ->
  (forall a b, oa = Some a -> ob = Some b -> a * b <= p) -> lb_ok (mul_bounds M false oa ob) p.
Proof.
  intros M [a|] [b|] p Ha Hb Hp H; cbn; auto.
  specialize (H a b eq_refl eq_refl).
  unfold checked, handle_overflow, positive_sign; unf. ifs; cbn; try lia; nia.
Qed.
Lemma mulb_upper : forall M oa ob p, wfb M oa -> wfb M ob -> in_range M p = true ->
  (forall a b, oa = Some a -> ob = Some b -> p <= a * b) -> ub_ok (mul_bounds M true oa ob) p.
Proof.
  intros M [a|] [b|] p Ha Hb Hp H; cbn; auto.
  specialize (H a b eq_refl eq_refl).
  unfold checked, handle_overflow, positive_sign; unf. ifs; cbn; try lia; nia.
Qed.

(* ---------- comparisons, booleans, set operations ---------- *)
Lemma gt_sound : forall a b x y, inI x a -> inI y b -> inB (cmp_sem Gt x y) (igt a b).
Proof. intros a b x y; dI a; dI b; unf; cbn; intros; ifs; fin. Qed.
Lemma gteq_sound : forall a b x y, inI x a -> inI y b -> inB (cmp_sem GtEq x y) (igteq a b).
Proof. intros a b x y; dI a; dI b; unf; cbn; intros; ifs; fin. Qed.
Lemma lt_sound : forall a b x y, inI x a -> inI y b -> inB (cmp_sem Lt x y) (ilt a b).
Proof. intros a b x y; dI a; dI b; unf; cbn; intros; ifs; fin. Qed.
Lemma lteq_sound : forall a b x y, inI x a -> inI y b -> inB (cmp_sem LtEq x y) (ilteq a b).
Proof. intros a b x y; dI a; dI b; unf; cbn; intros; ifs; fin. Qed.
Lemma equal_sound : forall a b x y, inI x a -> inI y b -> inB (cmp_sem Eq x y) (iequal a b).
Proof. intros a b x y; dI a; dI b; unf; cbn; intros; ifs; fin. Qed.
Lemma noteq_sound : forall a b x y, inI x a -> inI y b -> inB (negb (x =? y)) (bnot (iequal a b)).
Proof. intros a b x y; dI a; dI b; unfold bnot; unf; cbn; intros; ifs; fin. Qed.

Lemma and_sound : forall a b p q, inB p a -> inB q b -> inB (p && q) (band a b).
Proof. intros [[] []] [[] []] [] []; unfold inB, band; cbn; intuition congruence. Qed.
Lemma or_sound : forall a b p q, inB p a -> inB q b -> inB (p || q) (bor a b).
Proof. intros [[] []] [[] []] [] []; unfold inB, bor; cbn; intuition congruence. Qed.
Lemma not_sound : forall a p, inB p a -> inB (negb p) (bnot a).
Proof. intros [[] []] []; unfold inB, bnot; cbn; intuition congruence. Qed.

Lemma intersect_sound : forall a b x, inI x a -> inI x b -> exists i, intersect a b = Some i /\ inI x i.
Proof. intros a b x; dI a; dI b; unf; cbn; intros; ifs; try (eexists; split; [reflexivity|]); fin. Qed.
Lemma intersect_exact : forall a b i x, intersect a b = Some i -> inI x i -> inI x a /\ inI x b.
Proof. intros a b i x; dI a; dI b; unf; cbn; intros H; ifs; inversion H; subst; cbn; lia. Qed.
Lemma intersect_none : forall a b x, intersect a b = None -> inI x a -> inI x b -> False.
Proof. intros a b x H Ha Hb. destruct (intersect_sound a b x Ha Hb) as [i [E _]]. congruence. Qed.
Lemma union_sound : forall a b x, inI x a \/ inI x b -> inI x (union a b).
Proof. intros a b x; dI a; dI b; unf; cbn; intros; ifs; fin. Qed.
Lemma contains_value_correct : forall a v, contains_value a v = true <-> inI v a.
Proof. intros a v; dI a; unf; cbn; lia. Qed.
Lemma contains_true : forall a b x, contains a b = B_TRUE -> inI x b -> inI x a.
Proof. intros a b x; dI a; dI b; unf; cbn; intros H; ifs; try discriminate; cbn in *; lia. Qed.
Lemma contains_false : forall a b x, contains a b = B_FALSE -> inI x a -> inI x b -> False.
Proof. intros a b x; dI a; dI b; unf; cbn; intros H; ifs; try discriminate; cbn in *; lia. Qed.
Lemma cardinality_correct : forall l u c, l <= u -> cardinality (Some l, Some u) = Some c ->
  c = u - l + 1 /\ forall x, inI x (Some l, Some u) <-> l <= x < l + c.
Proof.
  intros l u c H; unfold cardinality. destruct (Z.abs (u - l) + 1 <? 2 ^ 64); intros E; inversion E; subst.
  unfold inI, lb_ok, ub_ok; cbn [fst snd]. split; [lia|intros; lia].
Qed.

(* ---------- multiplication ---------- *)
Lemma prod_lower : forall l1 u1 l2 u2 x y, l1 <= x <= u1 -> l2 <= y <= u2 -> l1 <= 0 <= u1 -> l2 <= 0 <= u2 ->
  l1 * u2 <= x * y \/ l2 * u1 <= x * y.
Proof.
  intros. destruct (Z.leb_spec 0 x), (Z.leb_spec 0 y).
  - left. assert (0 <= x * y) by (apply Z.mul_nonneg_nonneg; lia). assert (l1 * u2 <= 0) by (apply Z.mul_nonpos_nonneg; lia). lia.
  - right. assert (0 <= x * (y - l2)) by (apply Z.mul_nonneg_nonneg; lia).
    assert (0 <= (u1 - x) * (- l2)) by (apply Z.mul_nonneg_nonneg; lia). lia.
  - left. assert (0 <= (x - l1) * y) by (apply Z.mul_nonneg_nonneg; lia).
    assert (0 <= (- l1) * (u2 - y)) by (apply Z.mul_nonneg_nonneg; lia). lia.
  - left. assert (0 <= x * y) by (apply Z.mul_nonpos_nonpos; lia). assert (l1 * u2 <= 0) by (apply Z.mul_nonpos_nonneg; lia). lia.
Qed.
Lemma prod_upper : forall l1 u1 l2 u2 x y, l1 <= x <= u1 -> l2 <= y <= u2 -> l1 <= 0 <= u1 -> l2 <= 0 <= u2 ->
  x * y <= u1 * u2 \/ x * y <= l1 * l2.
Proof.
  intros. destruct (Z.leb_spec 0 x), (Z.leb_spec 0 y).
  - left. assert (0 <= (u1 - x) * y) by (apply Z.mul_nonneg_nonneg; lia).
    assert (0 <= u1 * (u2 - y)) by (apply Z.mul_nonneg_nonneg; lia). lia.
  - left. assert (x * y <= 0) by (apply Z.mul_nonneg_nonpos; lia). assert (0 <= u1 * u2) by (apply Z.mul_nonneg_nonneg; lia). lia.
  - left. assert (x * y <= 0) by (apply Z.mul_nonpos_nonneg; lia). assert (0 <= u1 * u2) by (apply Z.mul_nonneg_nonneg; lia). lia.
  - right. assert (0 <= (x - l1) * (- y)) by (apply Z.mul_nonneg_nonneg; lia).
    assert (0 <= (- l1) * (y - l2)) by (apply Z.mul_nonneg_nonneg; lia). lia.
Qed.

Ltac dO := repeat match goal with o : bound |- _ => destruct o end.

Lemma mul_zero_exclusive_sound : forall M a b x y, wfI M a -> wfI M b -> inI x a -> inI y b ->
  in_range M (x * y) = true -> contains_value a 0 = false -> contains_value b 0 = false ->
  inI (x * y) (mul_zero_exclusive M a b).
Proof.
  intros M [al au] [bl bu] x y [Wal Wau] [Wbl Wbu] [Hxl Hxu] [Hyl Hyu] Hp Ca Cb.
  unfold mul_zero_exclusive. cbn [fst snd] in *.
  destruct (nonpos_upper (al, au)) eqn:Na, (nonpos_upper (bl, bu)) eqn:Nb; split; cbn [fst snd];
    (apply mulb_lower || apply mulb_upper); auto; intros ? ? -> ->;
    unfold nonpos_upper in *; unf; dO; cbn in *; try discriminate; try nia.
Qed.

Lemma mul_single_zero_inclusive_sound : forall M a b x y, wfI M a -> wfI M b -> inI x a -> inI y b ->
  in_range M (x * y) = true -> contains_value a 0 = true -> contains_value b 0 = false ->
  inI (x * y) (mul_single_zero_inclusive M a b).
Proof.
  intros M [al au] [bl bu] x y [Wal Wau] [Wbl Wbu] [Hxl Hxu] [Hyl Hyu] Hp Ca Cb.
  unfold mul_single_zero_inclusive. cbn [fst snd] in *.
  destruct (nonpos_upper (bl, bu)) eqn:Nb; split; cbn [fst snd];
    (apply mulb_lower || apply mulb_upper); auto; intros ? ? -> ->;
    unfold nonpos_upper in *; unf; dO; cbn in *; try discriminate; try nia.
Qed.

Lemma mul_multi_zero_inclusive_sound : forall M a b x y, wfI M a -> wfI M b -> inI x a -> inI y b ->
  in_range M (x * y) = true -> contains_value a 0 = true -> contains_value b 0 = true ->
  mul_overflow_both_zero M a b = false ->
  inI (x * y) (mul_multi_zero_inclusive M a b).
Proof.
  intros M [al au] [bl bu] x y [Wal Wau] [Wbl Wbu] [Hxl Hxu] [Hyl Hyu] Hp Ca Cb Hov.
  unfold mul_multi_zero_inclusive, mul_overflow_both_zero in *. rewrite Ca, Cb in Hov.
  dO; cbn [is_null orb]; try (split; exact I).
  cbn [andb negb] in Hov. apply Bool.negb_false_iff in Hov.
  repeat (apply andb_prop in Hov; destruct Hov as [Hov ?]).
  unfold mul_bounds, checked.
  repeat match goal with H : in_range _ _ = true |- _ => rewrite H; revert H end. intros.
  unf; cbn in *. ifs; cbn; split; 
    pose proof (prod_lower z2 z1 z0 z x y); pose proof (prod_upper z2 z1 z0 z x y);
    repeat match goal with H : Some _ = Some _ |- _ => inversion H; clear H; subst end; try discriminate; lia.
Qed.

Theorem mul_sound : forall M a b x y, wfI M a -> wfI M b -> inI x a -> inI y b ->
  in_range M (x * y) = true -> mul_overflow_both_zero M a b = false -> inI (x * y) (imul M a b).
Proof.
  intros M a b x y Wa Wb Hx Hy Hp Hov. unfold imul.
  destruct (contains_value a 0) eqn:Ca, (contains_value b 0) eqn:Cb.
  - now apply mul_multi_zero_inclusive_sound.
  - now apply mul_single_zero_inclusive_sound.
  - rewrite Z.mul_comm in *. now apply mul_single_zero_inclusive_sound.
  - now apply mul_zero_exclusive_sound.
Qed.

(* ---------- satisfy_greater, propagation ---------- *)
Lemma satisfy_greater_sound : forall M l r strict x y, inI x l -> inI y r -> gt_sem strict x y = true ->
  exists l' r', satisfy_greater M l r strict = Some (l', r') /\ inI x l' /\ inI y r'.
Proof.
  intros M l r strict x y; dI l; dI r; destruct strict; unfold satisfy_greater, gt_sem, next_value, prev_value; unf; cbn; intros;
  ifs; try (do 2 eexists; split; [reflexivity|]); fin.
Qed.

Lemma propagate_comparison_sound : forall M op l r x y, inI x l -> inI y r -> cmp_sem op x y = true ->
  exists l' r', propagate_comparison M op B_TRUE l r = Some (l', r') /\ inI x l' /\ inI y r'.
Proof.
  intros M op l r x y Hx Hy Hc. unfold propagate_comparison. cbn [beq B_TRUE fst snd Bool.eqb andb].
  destruct op; cbn [cmp_sem] in Hc.
  - assert (x = y) by lia; subst y. destruct (intersect_sound l r x Hx Hy) as [i [E Hi]].
    rewrite E. cbn. do 2 eexists; split; [reflexivity|split; assumption].
  - apply (satisfy_greater_sound M l r true x y); auto.
  - apply (satisfy_greater_sound M l r false x y); auto.
  - destruct (satisfy_greater_sound M r l true y x) as [r' [l' [E [? ?]]]]; auto.
    rewrite E. cbn. do 2 eexists; split; [reflexivity|split; assumption].
  - destruct (satisfy_greater_sound M r l false y x) as [r' [l' [E [? ?]]]]; auto.
    rewrite E. cbn. do 2 eexists; split; [reflexivity|split; assumption].
Qed.

Lemma wf_iadd : forall M a b, 0 <= M -> wfI M (iadd M a b).
Proof. intros M a b; dI a; dI b; unfold iadd, add_bounds, checked, handle_overflow; unf; cbn; intros; ifs; fin. Qed.
Lemma wf_isub : forall M a b, 0 <= M -> wfI M (isub M a b).
Proof. intros M a b; dI a; dI b; unfold isub, sub_bounds, checked, handle_overflow; unf; cbn; intros; ifs; fin. Qed.
Lemma wf_intersect : forall M a b i, wfI M a -> wfI M b -> intersect a b = Some i -> wfI M i.
Proof. intros M a b i; dI a; dI b; unf; cbn; intros ? ? H; ifs; inversion H; subst; fin. Qed.

Lemma propagate_arithmetic_sound : forall M op parent l r x y p,
  0 <= M -> op = Plus \/ op = Minus ->
  wfI M parent -> wfI M l -> wfI M r -> inI x l -> inI y r ->
  in_range M x = true -> in_range M y = true ->
  arith_sem op x y = Some p -> inI p parent ->
  exists l' r', propagate_arithmetic M op parent l r = Some (l', r') /\ inI x l' /\ inI y r'.
Proof.
  intros M op parent l r x y p HM Hop Wp Wl Wr Hx Hy Rx Ry Hs Hp.
  unfold propagate_arithmetic, propagate_right.
  destruct Hop; subst op; cbn [arith_sem inverse_op apply_arith] in *; inversion Hs; subst p; clear Hs.
  - (* x = (x+y) - y *)
    assert (Hx' : inI x (isub M parent r)).
    { replace x with ((x + y) - y) by lia. apply sub_sound; auto. replace (x + y - y) with x by lia. auto. }
    destruct (intersect_sound _ _ x Hx' Hx) as [v [Ev Hv]]. rewrite Ev.
    assert (Wv : wfI M v) by (eapply wf_intersect; [apply wf_isub; auto | exact Wl | exact Ev]).
    assert (Hy' : inI y (isub M parent v)).
    { replace y with ((x + y) - x) by lia. apply sub_sound; auto. replace (x + y - x) with y by lia. auto. }
    destruct (intersect_sound _ _ y Hy' Hy) as [w [Ew Hw]]. rewrite Ew. do 2 eexists; split; [reflexivity|split; assumption].
  - (* x = (x-y) + y ; y = x - (x-y) *)
    assert (Hx' : inI x (iadd M parent r)).
    { replace x with ((x - y) + y) by lia. apply add_sound; auto. replace (x - y + y) with x by lia. auto. }
    destruct (intersect_sound _ _ x Hx' Hx) as [v [Ev Hv]]. rewrite Ev.
    assert (Wv : wfI M v) by (eapply wf_intersect; [apply wf_iadd; auto | exact Wl | exact Ev]).
    assert (Hy' : inI y (isub M v parent)).
    { replace y with (x - (x - y)) by lia. apply sub_sound; auto. replace (x - (x - y)) with y by lia. auto. }
    destruct (intersect_sound _ _ y Hy' Hy) as [w [Ew Hw]]. rewrite Ew. do 2 eexists; split; [reflexivity|split; assumption].
Qed.

(* ---------- truncating division ---------- *)
Lemma quot_pp : forall x1 x2 y1 y2, 0 <= x1 <= x2 -> 0 < y2 <= y1 -> Z.quot x1 y1 <= Z.quot x2 y2.
Proof.
  intros. transitivity (Z.quot x1 y2).
  - apply Z.quot_le_compat_l; lia.
  - apply Z.quot_le_mono; lia.
Qed.
Lemma quot_neg_l : forall a b, b <> 0 -> Z.quot a b = - Z.quot (- a) b.
Proof. intros. rewrite Z.quot_opp_l by lia. lia. Qed.
Lemma quot_neg_r : forall a b, b <> 0 -> Z.quot a b = - Z.quot a (- b).
Proof. intros. rewrite Z.quot_opp_r by lia. lia. Qed.
Lemma quot_neg_lr : forall a b, b <> 0 -> Z.quot a b = Z.quot (- a) (- b).
Proof. intros. rewrite Z.quot_opp_opp by lia. lia. Qed.
Lemma quot_np : forall x1 x2 y1 y2, x1 <= x2 <= 0 -> 0 < y1 <= y2 -> Z.quot x1 y1 <= Z.quot x2 y2.
Proof.
  intros. rewrite (quot_neg_l x1 y1), (quot_neg_l x2 y2) by lia.
  pose proof (quot_pp (- x2) (- x1) y2 y1). lia.
Qed.
Lemma quot_pn : forall x1 x2 y1 y2, 0 <= x1 <= x2 -> y1 <= y2 < 0 -> Z.quot x2 y2 <= Z.quot x1 y1.
Proof.
  intros. rewrite (quot_neg_r x1 y1), (quot_neg_r x2 y2) by lia.
  pose proof (quot_pp x1 x2 (- y1) (- y2)). lia.
Qed.
Lemma quot_nn : forall x1 x2 y1 y2, x1 <= x2 <= 0 -> y1 <= y2 < 0 -> Z.quot x2 y1 <= Z.quot x1 y2.
Proof.
  intros. rewrite (quot_neg_lr x2 y1), (quot_neg_lr x1 y2) by lia.
  apply quot_pp; lia.
Qed.
Lemma quot_sign_pos : forall a b, (a <= 0 /\ b < 0) \/ (0 <= a /\ 0 < b) -> 0 <= Z.quot a b.
Proof.
  intros a b [[? ?]|[? ?]].
  - rewrite (quot_neg_lr a b) by lia. apply Z.quot_pos; lia.
  - apply Z.quot_pos; lia.
Qed.
Lemma quot_sign_neg : forall a b, (a <= 0 /\ 0 < b) \/ (0 <= a /\ b < 0) -> Z.quot a b <= 0.
Proof.
  intros a b [[? ?]|[? ?]].
  - rewrite (quot_neg_l a b) by lia. pose proof (Z.quot_pos (- a) b). lia.
  - rewrite (quot_neg_r a b) by lia. pose proof (Z.quot_pos a (- b)). lia.
Qed.

Lemma divb_lower : forall M oa ob q, wfb M oa -> wfb M ob -> in_range M q = true ->
  (forall a, oa = Some a -> ob = None -> 0 <= q) ->
  (forall a b, oa = Some a -> ob = Some b -> b <> 0 -> Z.quot a b <= q) ->
  lb_ok (div_bounds M false oa ob) q.
Proof.
  intros M [a|] [b|] q Wa Wb Hq H0 H; cbn [div_bounds lb_ok]; auto.
  - assert (Hb : b <> 0 -> Z.quot a b <= q) by (intros; apply H; auto).
    destruct b; [exact I| |]; (specialize (Hb ltac:(lia));
      unfold checked, handle_overflow, positive_sign; unf;
      match goal with |- context [Z.quot a ?b] => pose proof (quot_sign_pos a b) end;
      ifs; cbn; try exact I; lia).
  - cbn. eapply H0; eauto.
Qed.
Lemma divb_upper : forall M oa ob q, wfb M oa -> wfb M ob -> in_range M q = true ->
  (forall a, oa = Some a -> ob = None -> q <= 0) ->
  (forall a b, oa = Some a -> ob = Some b -> b <> 0 -> q <= Z.quot a b) ->
  ub_ok (div_bounds M true oa ob) q.
Proof.
  intros M [a|] [b|] q Wa Wb Hq H0 H; cbn [div_bounds ub_ok]; auto.
  - assert (Hb : b <> 0 -> q <= Z.quot a b) by (intros; apply H; auto).
    destruct b; [exact I| |]; (specialize (Hb ltac:(lia));
      unfold checked, handle_overflow, positive_sign; unf;
      match goal with |- context [Z.quot a ?b] => pose proof (quot_sign_neg a b) end;
      ifs; cbn; try exact I; lia).
  - cbn. eapply H0; eauto.
Qed.

(* sign classes of an operand of div *)
Definition negI (a : interval) : Prop := exists v, snd a = Some v /\ v <= -1.
Definition posI (a : interval) : Prop := exists v, fst a = Some v /\ 0 <= v.
Definition mixI (a : interval) : Prop := lb_ok (fst a) (-1) /\ ub_ok (snd a) 1.

Lemma neg_upper_true : forall a, neg_upper a = true -> negI a.
Proof. intros [l [u|]]; unfold neg_upper, negI; unf; cbn; intros; [eexists; split; [reflexivity|lia] | discriminate]. Qed.
Lemma contains_zp_true : forall a, beq (contains a zero_point) B_TRUE = true -> mixI a.
Proof. intros a; dI a; unfold zero_point, mixI; unf; cbn; ifs; cbn in *; intros; try discriminate; lia. Qed.
Lemma classify_pos : forall a, beq (contains a zero_point) B_TRUE = false -> neg_upper a = false ->
  zero_topped a = false -> posI a.
Proof.
  intros a; dI a; unfold zero_point, neg_upper, zero_topped, posI; unf; cbn; ifs; cbn in *; intros; try discriminate;
    try (eexists; split; [reflexivity|lia]); try lia.
Qed.

Ltac qs x y :=
  first [ lia
        | apply quot_sign_pos; lia | apply quot_sign_neg; lia
        | apply quot_pp; lia | apply quot_np; lia | apply quot_pn; lia | apply quot_nn; lia
        | destruct (Z.leb_spec 0 x);
          first [ apply quot_pp; lia | apply quot_np; lia | apply quot_pn; lia | apply quot_nn; lia
                | (etransitivity; [ apply quot_sign_neg; lia | apply quot_sign_pos; lia ]) ] ].

Ltac div_goal x y :=
  (apply divb_lower || apply divb_upper); auto; intros;
  repeat match goal with
    | H : Some _ = Some _ |- _ => inversion H; clear H
    | H : Some _ = None |- _ => discriminate H
    | H : None = Some _ |- _ => discriminate H
    | H : ?o = Some _ |- _ => is_var o; subst o
    | H : ?o = None |- _ => is_var o; subst o
    end; subst; cbn [lb_ok ub_ok fst snd wfb] in *;
  qs x y.

Ltac use_class :=
  repeat match goal with
  | H : negI (_, _) |- _ => let v := fresh "v" in let E := fresh "E" in destruct H as [v [E ?]]; cbn [fst snd] in E; subst
  | H : posI (_, _) |- _ => let v := fresh "v" in let E := fresh "E" in destruct H as [v [E ?]]; cbn [fst snd] in E; subst
  | H : mixI (_, _) |- _ => destruct H as [? ?]
  end; cbn [lb_ok ub_ok fst snd wfb] in *.

Lemma div_zero_exclusive_sound : forall M a b x y, wfI M a -> wfI M b -> inI x a -> inI y b -> y <> 0 ->
  in_range M (Z.quot x y) = true ->
  beq (contains b zero_point) B_TRUE = false -> beq (contains a zero_point) B_TRUE = false ->
  zero_topped a = false -> zero_topped b = false ->
  inI (Z.quot x y) (div_zero_exclusive M a b).
Proof.
  intros M [al au] [bl bu] x y [Wal Wau] [Wbl Wbu] [Hxl Hxu] [Hyl Hyu] Hy0 Hq Cb Ca Za Zb.
  unfold div_zero_exclusive.
  destruct (neg_upper (al, au)) eqn:Na, (neg_upper (bl, bu)) eqn:Nb;
    try (apply neg_upper_true in Na); try (apply neg_upper_true in Nb);
    try (pose proof (classify_pos _ Ca Na Za)); try (pose proof (classify_pos _ Cb Nb Zb));
    use_class; split; cbn [fst snd]; div_goal x y.
Qed.

Lemma div_lhs_zero_inclusive_sound : forall M a b x y, wfI M a -> wfI M b -> inI x a -> inI y b -> y <> 0 ->
  in_range M (Z.quot x y) = true ->
  beq (contains b zero_point) B_TRUE = false -> beq (contains a zero_point) B_TRUE = true ->
  zero_topped b = false ->
  inI (Z.quot x y) (div_lhs_zero_inclusive M a b).
Proof.
  intros M [al au] [bl bu] x y [Wal Wau] [Wbl Wbu] [Hxl Hxu] [Hyl Hyu] Hy0 Hq Cb Ca Zb.
  unfold div_lhs_zero_inclusive. apply contains_zp_true in Ca.
  destruct (neg_upper (bl, bu)) eqn:Nb;
    try (apply neg_upper_true in Nb); try (pose proof (classify_pos _ Cb Nb Zb));
    use_class; split; cbn [fst snd]; div_goal x y.
Qed.

Theorem div_sound : forall M a b x y, wfI M a -> wfI M b -> inI x a -> inI y b -> y <> 0 ->
  in_range M (Z.quot x y) = true -> zero_topped a = false -> zero_topped b = false ->
  inI (Z.quot x y) (idiv M a b).
Proof.
  intros M a b x y Wa Wb Hx Hy Hy0 Hq Za Zb. unfold idiv.
  destruct (beq (contains b zero_point) B_TRUE) eqn:Cb; [split; exact I|].
  destruct (beq (contains a zero_point) B_TRUE) eqn:Ca.
  - now apply div_lhs_zero_inclusive_sound.
  - now apply div_zero_exclusive_sound.
Qed.

(* ---------- apply_operator level ---------- *)
Theorem cmp_sound : forall op a b x y, inI x a -> inI y b -> inB (cmp_sem op x y) (apply_cmp op a b).
Proof.
  intros [] a b x y Hx Hy; cbn [apply_cmp].
  - now apply equal_sound.
  - now apply gt_sound.
  - now apply gteq_sound.
  - now apply lt_sound.
  - now apply lteq_sound.
Qed.

Theorem arith_sound : forall M op a b x y v, wfI M a -> wfI M b -> inI x a -> inI y b ->
  arith_sem op x y = Some v -> in_range M v = true -> op_node_ok M op a b ->
  inI v (apply_arith M op a b).
Proof.
  intros M [] a b x y v Wa Wb Hx Hy Hs Hv Hok; cbn [arith_sem apply_arith op_node_ok] in *.
  - inversion Hs; subst. now apply add_sound.
  - inversion Hs; subst. now apply sub_sound.
  - inversion Hs; subst. now apply mul_sound.
  - destruct (Z.eqb_spec y 0); [discriminate|]. inversion Hs; subst. destruct Hok. now apply div_sound.
Qed.

Lemma wf_mul_bounds : forall M u a b, 0 <= M -> wfb M (mul_bounds M u a b).
Proof.
  intros M u [a|] [b|] HM; cbn; auto. unfold checked, handle_overflow; unf. destruct u; ifs; cbn; auto; lia.
Qed.
Lemma wf_div_bounds : forall M u a b, 0 <= M -> wfb M (div_bounds M u a b).
Proof.
  intros M u [a|] [b|] HM; cbn; auto; [|unf; lia].
  destruct b; cbn; auto; unfold checked, handle_overflow; unf; destruct u; ifs; cbn; auto; lia.
Qed.
Lemma wf_min_of_bounds : forall M a b, wfb M a -> wfb M b -> wfb M (min_of_bounds a b).
Proof. intros M a b; unfold min_of_bounds; destruct (_ && _); auto. Qed.
Lemma wf_max_of_bounds : forall M a b, wfb M a -> wfb M b -> wfb M (max_of_bounds a b).
Proof. intros M a b; unfold max_of_bounds; destruct (_ && _); auto. Qed.

Lemma wf_imul : forall M a b, 0 <= M -> wfI M (imul M a b).
Proof.
  intros M [al au] [bl bu] HM. unfold imul, mul_multi_zero_inclusive, mul_single_zero_inclusive, mul_zero_exclusive.
  repeat match goal with |- context [if ?c then _ else _] => destruct c
                    | |- context [match ?c with true => _ | false => _ end] => destruct c end;
  split; cbn [fst snd wfb]; auto using wf_mul_bounds, wf_min_of_bounds, wf_max_of_bounds.
Qed.
Lemma wf_idiv : forall M a b, 0 <= M -> wfI M (idiv M a b).
Proof.
  intros M [al au] [bl bu] HM. unfold idiv, div_lhs_zero_inclusive, div_zero_exclusive.
  repeat match goal with |- context [if ?c then _ else _] => destruct c
                    | |- context [match ?c with true => _ | false => _ end] => destruct c end;
  split; cbn [fst snd wfb]; auto using wf_div_bounds.
Qed.
Lemma wf_apply_arith : forall M op a b, 0 <= M -> wfI M (apply_arith M op a b).
Proof. intros M [] a b HM; cbn [apply_arith]; auto using wf_iadd, wf_isub, wf_imul, wf_idiv. Qed.

(* ---------- bottom-up evaluation over an expression tree ---------- *)
Definition env_ok (M : Z) (ranges : nat -> interval) (env : nat -> Z) : Prop :=
  forall i, wfI M (ranges i) /\ inI (env i) (ranges i).

Lemma wf_abounds : forall M ranges env e, 0 <= M -> env_ok M ranges env -> anode_ok M ranges e ->
  wfI M (abounds M ranges e).
Proof.
  intros M ranges env e HM He. induction e; cbn [abounds anode_ok]; intros Hok.
  - apply He.
  - split; cbn; exact Hok.
  - apply wf_apply_arith; auto.
Qed.

Theorem evaluate_bounds_arith_sound : forall M ranges env e v, 0 <= M -> env_ok M ranges env ->
  anode_ok M ranges e -> aeval M env e = Some v -> inI v (abounds M ranges e).
Proof.
  intros M ranges env e. induction e; intros w0 HM He Hok Hv; cbn [abounds aeval anode_ok] in *.
  - inversion Hv; subst. apply He.
  - inversion Hv; subst. unfold inI; cbn; lia.
  - destruct Hok as [Hl [Hr Hop]].
    destruct (aeval M env e1) as [x|] eqn:E1; [|discriminate].
    destruct (aeval M env e2) as [y|] eqn:E2; [|discriminate].
    destruct (arith_sem op x y) as [w|] eqn:Es; [|discriminate].
    destruct (in_range M w) eqn:Ew; [|discriminate]. inversion Hv; subst w.
    eapply arith_sound; eauto using wf_abounds.
Qed.

Theorem evaluate_bounds_sound : forall M ranges env p t, 0 <= M -> env_ok M ranges env ->
  pnode_ok M ranges p -> peval M env p = Some t -> inB t (pbounds M ranges p).
Proof.
  intros M ranges env p. induction p; intros t HM He Hok Ht; cbn [pbounds peval pnode_ok] in *.
  - destruct Hok as [Hl Hr].
    destruct (aeval M env l) as [x|] eqn:E1; [|discriminate].
    destruct (aeval M env r) as [y|] eqn:E2; [|discriminate].
    inversion Ht; subst. apply cmp_sound; eapply evaluate_bounds_arith_sound; eauto.
  - destruct Hok as [Hl Hr].
    destruct (peval M env p1) as [a|] eqn:E1; [|discriminate].
    destruct (peval M env p2) as [b|] eqn:E2; [|discriminate].
    inversion Ht; subst. apply and_sound; auto.
Qed.

(* ---------- the inputs on which the implementation is NOT sound (faithful model, replayed on the real code) ---------- *)
Definition I8 : Z := 127.
Definition I64 : Z := 9223372036854775807.

Ltac refute := repeat split; cbn; try lia; try reflexivity; try (intros [? ?]; cbn in *; lia).

(* Int8 [-128,1] * [-1,2] = [-1,2] although -64 * 2 = -128 is representable *)
Lemma mul_both_zero_overflow_refuted :
  exists a b x y, wfI I8 a /\ wfI I8 b /\ inI x a /\ inI y b /\ in_range I8 (x * y) = true /\
                  ~ inI (x * y) (imul I8 a b).
Proof. exists (Some (-128), Some 1), (Some (-1), Some 2), (-64), 2. refute. Qed.

(* Int64 [-5,0] / [2,3] = [-1,0] although -5 / 2 = -2;  [10,20] / [-3,0] = [NULL,-6] although 10 / -3 = -3 *)
Lemma div_zero_topped_refuted :
  (exists a b x y, wfI I64 a /\ wfI I64 b /\ inI x a /\ inI y b /\ y <> 0 /\ in_range I64 (Z.quot x y) = true /\
                   idiv I64 a b = (Some (-1), Some 0) /\ ~ inI (Z.quot x y) (idiv I64 a b)) /\
  (exists a b x y, wfI I64 a /\ wfI I64 b /\ inI x a /\ inI y b /\ y <> 0 /\ in_range I64 (Z.quot x y) = true /\
                   idiv I64 a b = (None, Some (-6)) /\ ~ inI (Z.quot x y) (idiv I64 a b)).
Proof.
  split.
  - exists (Some (-5), Some 0), (Some 2, Some 3), (-5), 2. refute.
  - exists (Some 10, Some 20), (Some (-3), Some 0), 10, (-3). refute.
Qed.

(* propagate_arithmetic through integer * and /: 7 / 2 = 3 is declared infeasible; (-5) * 0 = 0 loses x = -5 *)
Lemma propagate_arithmetic_muldiv_refuted :
  propagate_arithmetic I64 Divide (Some 3, Some 3) (Some 7, Some 7) (Some 2, Some 2) = None /\
  arith_sem Divide 7 2 = Some 3 /\
  propagate_arithmetic I64 Multiply (Some 0, Some 10) (Some (-5), Some 5) (Some 0, Some 5)
    = Some ((Some 0, Some 5), (Some 0, Some 5)) /\
  arith_sem Multiply (-5) 0 = Some 0 /\ inI (-5) (Some (-5), Some 5) /\ ~ inI (-5) (Some 0, Some 5).
Proof. refute. Qed.

(* propagate_comparison with a parent other than TRUE: NOT (l > r) hands the children's intervals back swapped,
   an uncertain parent and NOT (l = r) answer "infeasible" *)
Lemma propagate_comparison_not_true_refuted :
  propagate_comparison I64 Gt B_FALSE (Some 0, Some 10) (Some 100, Some 200)
    = Some ((Some 100, Some 200), (Some 0, Some 10)) /\ cmp_sem Gt 0 100 = false /\
  propagate_comparison I64 Gt B_UNC (Some 0, Some 10) (Some 0, Some 10) = None /\
  propagate_comparison I64 Eq B_FALSE (Some 0, Some 10) (Some 0, Some 10) = None.
Proof. refute. Qed.
