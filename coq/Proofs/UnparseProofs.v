(* C38 -- proofs about the unparser / parser model (Model/Unparse.v). *)
From Coq Require Import NArith List Bool Lia Arith.
From DF Require Import Base.Prelude Gen.OperatorPrec Model.Unparse.
Import ListNotations.
Open Scope N_scope.

Section ParserFacts.
  Variable T : ptab.

  (* ---- unfolding equations *)
  Lemma parse_sub_S : forall f p ts,
    parse_sub T (S f) p ts =
    match (match ts with
           | TAtom n :: r => Some (AAtom n, r)
           | TLP :: r => match parse_sub T f 0 r with Some (a, TRP :: r') => Some (ANested a, r') | _ => None end
           | TNot :: r => match parse_sub T f (l_not T) r with Some (a, r') => Some (ANot a, r') | None => None end
           | TInfix o :: r => if is_minus o then match parse_sub T f (l_neg T) r with Some (a, r') => Some (ANeg a, r') | None => None end else None
           | _ => None
           end) with
    | Some (lhs, r) => ploop T f p lhs r
    | None => None
    end.
  Proof. reflexivity. Qed.

  Lemma ploop_S : forall f p lhs ts,
    ploop T (S f) p lhs ts =
    match ts with
    | TInfix o :: r =>
        if p <? tp T o then
          match parse_sub T f (rl T o) r with
          | Some (rhs, r') => ploop T f p (AInfix o lhs rhs) r'
          | None => None
          end
        else Some (lhs, ts)
    | TPost k :: r => if p <? p_is T then ploop T f p (APost k lhs) r else Some (lhs, ts)
    | TIn neg items :: r => if p <? p_in T then ploop T f p (AIn neg lhs items) r else Some (lhs, ts)
    | _ => Some (lhs, ts)
    end.
  Proof. reflexivity. Qed.

  (* ---- more fuel never changes an answer *)
  Lemma fuel_mono_S : forall f,
    (forall p ts r, parse_sub T f p ts = Some r -> parse_sub T (S f) p ts = Some r) /\
    (forall p lhs ts r, ploop T f p lhs ts = Some r -> ploop T (S f) p lhs ts = Some r).
  Proof.
    induction f as [|f [IHs IHl]].
    - split; intros; discriminate.
    - split.
      + intros p ts r H. rewrite parse_sub_S in H. rewrite parse_sub_S.
        destruct ts as [|t ts']; [discriminate|].
        destruct t; try discriminate.
        * apply IHl. exact H.
        * destruct (parse_sub T f 0 ts') as [[a r']|] eqn:E; [|discriminate].
          rewrite (IHs _ _ _ E).
          destruct r' as [|t' r'']; [discriminate|]. destruct t'; try discriminate.
          apply IHl. exact H.
        * destruct (is_minus o); [|discriminate].
          destruct (parse_sub T f (l_neg T) ts') as [[a r']|] eqn:E; [|discriminate].
          rewrite (IHs _ _ _ E). apply IHl. exact H.
        * destruct (parse_sub T f (l_not T) ts') as [[a r']|] eqn:E; [|discriminate].
          rewrite (IHs _ _ _ E). apply IHl. exact H.
      + intros p lhs ts r H. rewrite ploop_S in H. rewrite ploop_S.
        destruct ts as [|t ts']; [exact H|].
        destruct t; try exact H.
        * destruct (p <? tp T o); [|exact H].
          destruct (parse_sub T f (rl T o) ts') as [[rhs r']|] eqn:E; [|discriminate].
          rewrite (IHs _ _ _ E). apply IHl. exact H.
        * destruct (p <? p_is T); [|exact H]. apply IHl. exact H.
        * destruct (p <? p_in T); [|exact H]. apply IHl. exact H.
  Qed.

  Lemma parse_sub_le : forall f f' p ts r, (f <= f')%nat -> parse_sub T f p ts = Some r -> parse_sub T f' p ts = Some r.
  Proof. intros f f' p ts r H; induction H; intro E; [exact E|]. apply (proj1 (fuel_mono_S _)). auto. Qed.
  Lemma ploop_le : forall f f' p lhs ts r, (f <= f')%nat -> ploop T f p lhs ts = Some r -> ploop T f' p lhs ts = Some r.
  Proof. intros f f' p lhs ts r H; induction H; intro E; [exact E|]. apply (proj2 (fuel_mono_S _)). auto. Qed.

  (* ---- the loop stops at a token that does not bind tighter than its level *)
  Lemma ploop_stop : forall f p lhs ts, hd_prec T ts <= p -> ploop T (S f) p lhs ts = Some (lhs, ts).
  Proof.
    intros f p lhs ts H. rewrite ploop_S. destruct ts as [|t ts']; [reflexivity|].
    destruct t; try reflexivity; cbn [hd_prec] in H.
    - replace (p <? tp T o) with false; [reflexivity|]. symmetry. apply N.ltb_ge. exact H.
    - replace (p <? p_is T) with false; [reflexivity|]. symmetry. apply N.ltb_ge. exact H.
    - replace (p <? p_in T) with false; [reflexivity|]. symmetry. apply N.ltb_ge. exact H.
  Qed.

  Lemma opn_ge_0 : forall a, opn_ge T 0 a = true.
  Proof.
    assert (Z0 : forall x, (0 <=? x) = true) by (intro x; apply N.leb_le, N.le_0_l).
    induction a; cbn [opn_ge]; try reflexivity; rewrite ?IHa, ?IHa2, ?Z0; reflexivity.
  Qed.

  Fixpoint cost (a : ast) : nat :=
    match a with
    | AAtom _ => 1
    | ANested x => cost x + 2
    | AInfix _ l r => cost l + cost r + 2
    | ANot x | ANeg x => cost x + 2
    | APost _ x | AIn _ x _ => cost x + 1
    end.

  Lemma cost_le : forall a, (cost a <= 2 * length (show a))%nat.
  Proof.
    induction a; cbn [cost show length]; rewrite ?app_length; cbn [length]; lia.
  Qed.

  (* ---- the main lemma: in the middle of a token stream, at level p, the parser consumes exactly `show a`, builds `a`, and goes on
        with the loop of that level -- provided a is well formed, its left spine binds tighter than p, and the next token is not
        captured by a loop still open inside a *)
  Lemma parse_show_cont : forall a, wf T a = true ->
    forall p ts f res, lsp_gt T p a = true -> opn_ge T (hd_prec T ts) a = true ->
      ploop T f p a ts = Some res ->
      parse_sub T (f + cost a) p (show a ++ ts) = Some res.
  Proof.
    induction a as [n | x IHx | o l IHl r IHr | x IHx | x IHx | k x IHx | neg x IHx items];
      intros Hwf p ts f res Hl Ho Hres; cbn [wf] in Hwf; cbn [show cost].
    - (* atom *)
      rewrite Nat.add_1_r, parse_sub_S. cbn [app]. exact Hres.
    - (* parentheses *)
      apply andb_prop in Hwf. destruct Hwf as [Hwx Hlx].
      replace (f + (cost x + 2))%nat with (S (f + cost x + 1)) by lia.
      rewrite parse_sub_S. cbn [app]. rewrite <- app_assoc. cbn [app].
      assert (E : parse_sub T (f + cost x + 1) 0 (show x ++ TRP :: ts) = Some (x, TRP :: ts)).
      { apply parse_sub_le with (f := (1 + cost x)%nat); [lia|].
        apply IHx; [exact Hwx | exact Hlx | apply opn_ge_0 | reflexivity]. }
      rewrite E. apply ploop_le with (f := f); [lia | exact Hres].
    - (* infix *)
      apply andb_prop in Hwf. destruct Hwf as [Hwf Hlr]. apply andb_prop in Hwf. destruct Hwf as [Hwf Hol].
      apply andb_prop in Hwf. destruct Hwf as [Hwl Hwr].
      cbn [lsp_gt] in Hl. apply andb_prop in Hl. destruct Hl as [Hp Hll].
      cbn [opn_ge] in Ho. apply andb_prop in Ho. destruct Ho as [Hq Hor].
      rewrite <- app_assoc. cbn [app].
      replace (f + (cost l + cost r + 2))%nat with ((S (f + cost r + 1)) + cost l)%nat by lia.
      apply IHl; [exact Hwl | exact Hll | exact Hol |].
      rewrite ploop_S, Hp.
      assert (E : parse_sub T (f + cost r + 1) (rl T o) (show r ++ ts) = Some (r, ts)).
      { apply parse_sub_le with (f := (1 + cost r)%nat); [lia|].
        apply IHr; [exact Hwr | exact Hlr | exact Hor |].
        apply ploop_stop. apply N.leb_le. exact Hq. }
      rewrite E. apply ploop_le with (f := f); [lia | exact Hres].
    - (* NOT *)
      apply andb_prop in Hwf. destruct Hwf as [Hwx Hlx].
      cbn [opn_ge] in Ho. apply andb_prop in Ho. destruct Ho as [Hq Hox].
      replace (f + (cost x + 2))%nat with (S (f + cost x + 1)) by lia.
      rewrite parse_sub_S. cbn [app].
      assert (E : parse_sub T (f + cost x + 1) (l_not T) (show x ++ ts) = Some (x, ts)).
      { apply parse_sub_le with (f := (1 + cost x)%nat); [lia|].
        apply IHx; [exact Hwx | exact Hlx | exact Hox |].
        apply ploop_stop. apply N.leb_le. exact Hq. }
      rewrite E. apply ploop_le with (f := f); [lia | exact Hres].
    - (* unary minus *)
      apply andb_prop in Hwf. destruct Hwf as [Hwx Hlx].
      cbn [opn_ge] in Ho. apply andb_prop in Ho. destruct Ho as [Hq Hox].
      replace (f + (cost x + 2))%nat with (S (f + cost x + 1)) by lia.
      rewrite parse_sub_S. cbn [app is_minus].
      assert (E : parse_sub T (f + cost x + 1) (l_neg T) (show x ++ ts) = Some (x, ts)).
      { apply parse_sub_le with (f := (1 + cost x)%nat); [lia|].
        apply IHx; [exact Hwx | exact Hlx | exact Hox |].
        apply ploop_stop. apply N.leb_le. exact Hq. }
      rewrite E. apply ploop_le with (f := f); [lia | exact Hres].
    - (* IS ... *)
      apply andb_prop in Hwf. destruct Hwf as [Hwx Hox].
      cbn [lsp_gt] in Hl. apply andb_prop in Hl. destruct Hl as [Hp Hlx].
      rewrite <- app_assoc. cbn [app].
      replace (f + (cost x + 1))%nat with (S f + cost x)%nat by lia.
      apply IHx; [exact Hwx | exact Hlx | exact Hox |].
      rewrite ploop_S, Hp. exact Hres.
    - (* IN *)
      apply andb_prop in Hwf. destruct Hwf as [Hwx Hox].
      cbn [lsp_gt] in Hl. apply andb_prop in Hl. destruct Hl as [Hp Hlx].
      rewrite <- app_assoc. cbn [app].
      replace (f + (cost x + 1))%nat with (S f + cost x)%nat by lia.
      apply IHx; [exact Hwx | exact Hlx | exact Hox |].
      rewrite ploop_S, Hp. exact Hres.
  Qed.

  (* the parser inverts Display on well-formed trees, for every precedence table *)
  Theorem parse_show_wf : forall a, wf_top T a = true -> parse T (show a) = Some a.
  Proof.
    intros a H. apply andb_prop in H. destruct H as [Hw Hl].
    unfold parse.
    assert (E : parse_sub T (2 * length (show a) + 2) 0 (show a) = Some (a, [])).
    { apply parse_sub_le with (f := (1 + cost a)%nat); [pose proof (cost_le a); lia|].
      rewrite <- (app_nil_r (show a)) at 1.
      apply parse_show_cont; [exact Hw | exact Hl | apply opn_ge_0 | reflexivity]. }
    rewrite E. reflexivity.
  Qed.

  (* ---- the default unparser on binary expressions: everything is parenthesised, so any table with positive precedences works *)
  Definition closed (a : ast) : bool := match a with AAtom _ | ANested _ => true | _ => false end.
  Lemma closed_lsp : forall a p, closed a = true -> lsp_gt T p a = true.
  Proof. destruct a; intros; try discriminate; reflexivity. Qed.
  Lemma closed_opn : forall a q, closed a = true -> opn_ge T q a = true.
  Proof. destruct a; intros; try discriminate; reflexivity. Qed.

  Lemma bin_pos_wf : forall e, bin_pos T e = true -> wf T (to_ast e) = true /\ closed (to_ast e) = true.
  Proof.
    induction e; intro H; cbn [bin_pos] in H; try discriminate.
    - split; reflexivity.
    - apply andb_prop in H. destruct H as [H H2]. apply andb_prop in H. destruct H as [Hp H1].
      destruct (IHe1 H1) as [W1 C1]. destruct (IHe2 H2) as [W2 C2].
      split; [|reflexivity].
      cbn [to_ast wf lsp_gt]. rewrite W1, W2, Hp.
      rewrite (closed_opn _ _ C1), (closed_lsp _ _ C2), (closed_lsp _ _ C1). reflexivity.
  Qed.
End ParserFacts.

(* ---- the planner's view: removing parentheses, and the parentheses removal of the pretty unparser, keep the tree *)
Lemma strip_iop_of : forall o l r, strip (AInfix (iop_of o) l r) = EBin o (strip l) (strip r).
Proof. destruct o; reflexivity. Qed.

Lemma strip_to_ast : forall e, strip (to_ast e) = e.
Proof.
  induction e; cbn [to_ast]; try (cbn [strip]; congruence).
  change (strip (ANested (AInfix (iop_of o) (to_ast e1) (to_ast e2)))) with (strip (AInfix (iop_of o) (to_ast e1) (to_ast e2))).
  rewrite strip_iop_of. congruence.
Qed.

Lemma strip_rm_nest : forall a lo ro, strip (rm_nest a lo ro) = strip a.
Proof.
  induction a; intros lo ro; cbn [rm_nest]; try reflexivity.
  - destruct ((inner_prec a =? N.max (un_sql_op_prec lo) (un_sql_op_prec ro)) && un_nonassoc lo).
    + cbn [strip]. apply IHa.
    + destruct (N.max (un_sql_op_prec lo) (un_sql_op_prec ro) <=? inner_prec a).
      * cbn [strip]. apply IHa.
      * cbn [strip]. apply IHa.
  - destruct o; try reflexivity. cbn [strip]. rewrite IHa1, IHa2. reflexivity.
  - cbn [strip]. rewrite IHa. reflexivity.
Qed.

Lemma strip_unparse : forall pretty e, strip (unparse pretty e) = e.
Proof. intros [] e; unfold unparse; [rewrite strip_rm_nest|]; apply strip_to_ast. Qed.

Theorem roundtrip_any_table_when_wf : forall T pretty e,
  wf_top T (unparse pretty e) = true -> option_map strip (parse T (show (unparse pretty e))) = Some e.
Proof. intros T pretty e H. rewrite (parse_show_wf T _ H). cbn [option_map]. rewrite strip_unparse. reflexivity. Qed.

Theorem roundtrip_when_wf : forall pretty e, wf_top sq_tab (unparse pretty e) = true -> roundtrip pretty e.
Proof. intros. apply roundtrip_any_table_when_wf. assumption. Qed.

Theorem default_binary_any_table : forall T e, bin_pos T e = true -> option_map strip (parse T (show (unparse false e))) = Some e.
Proof.
  intros T e H. apply roundtrip_any_table_when_wf. unfold unparse, wf_top.
  destruct (bin_pos_wf T e H) as [W C]. rewrite W, (closed_lsp T _ 0 C). reflexivity.
Qed.

Theorem default_binary_roundtrip : forall e, binary_only e = true -> roundtrip false e.
Proof. intros e H. apply default_binary_any_table. exact H. Qed.

(* ---- the candidate repair (every non-atomic form parenthesised) round-trips every expression of the fragment, for every table *)
Lemma paren_wf : forall T e, ops_pos T e = true -> wf T (to_ast_paren e) = true /\ closed (to_ast_paren e) = true.
Proof.
  intros T. induction e; intro H; cbn [ops_pos] in H; cbn [to_ast_paren].
  - split; reflexivity.
  - apply andb_prop in H. destruct H as [H H2]. apply andb_prop in H. destruct H as [Hp H1].
    destruct (IHe1 H1) as [W1 C1]. destruct (IHe2 H2) as [W2 C2]. split; [|reflexivity].
    cbn [wf lsp_gt]. rewrite W1, W2, Hp, (closed_opn T _ _ C1), (closed_lsp T _ _ C2), (closed_lsp T _ _ C1). reflexivity.
  - apply andb_prop in H. destruct H as [H H2]. apply andb_prop in H. destruct H as [Hp H1].
    destruct (IHe1 H1) as [W1 C1]. destruct (IHe2 H2) as [W2 C2]. split; [|reflexivity].
    cbn [wf lsp_gt]. rewrite W1, W2, Hp, (closed_opn T _ _ C1), (closed_lsp T _ _ C2), (closed_lsp T _ _ C1). reflexivity.
  - destruct (IHe H) as [W C]. split; [|reflexivity]. cbn [wf lsp_gt]. rewrite W, (closed_lsp T _ _ C). reflexivity.
  - destruct (IHe H) as [W C]. split; [|reflexivity]. cbn [wf lsp_gt]. rewrite W, (closed_lsp T _ _ C). reflexivity.
  - apply andb_prop in H. destruct H as [Hp H]. destruct (IHe H) as [W C]. split; [|reflexivity].
    cbn [wf lsp_gt]. rewrite W, Hp, (closed_opn T _ _ C), (closed_lsp T _ _ C). reflexivity.
  - apply andb_prop in H. destruct H as [Hp H]. destruct (IHe H) as [W C]. split; [|reflexivity].
    cbn [wf lsp_gt]. rewrite W, Hp, (closed_opn T _ _ C), (closed_lsp T _ _ C). reflexivity.
Qed.

Lemma strip_paren : forall e, strip (to_ast_paren e) = e.
Proof.
  induction e; cbn [to_ast_paren]; try (cbn [strip]; congruence).
  change (strip (ANested (AInfix (iop_of o) (to_ast_paren e1) (to_ast_paren e2)))) with (strip (AInfix (iop_of o) (to_ast_paren e1) (to_ast_paren e2))).
  rewrite strip_iop_of. congruence.
Qed.

Lemma closed_no_minus : forall a, closed a = true -> starts_with_minus (show a) = false.
Proof. destruct a; intro H; try discriminate; reflexivity. Qed.

Lemma paren_closed : forall e, closed (to_ast_paren e) = true.
Proof. destruct e; reflexivity. Qed.

Lemma paren_no_hazard : forall e, hazard (to_ast_paren e) = false.
Proof.
  induction e; cbn [to_ast_paren hazard]; rewrite ?IHe, ?IHe1, ?IHe2; try reflexivity.
  rewrite (closed_no_minus _ (paren_closed e)). reflexivity.
Qed.

Theorem paren_roundtrip : forall T e, ops_pos T e = true ->
  option_map strip (parse T (show (to_ast_paren e))) = Some e /\ hazard (to_ast_paren e) = false.
Proof.
  intros T e H. destruct (paren_wf T e H) as [W C]. split; [|apply paren_no_hazard].
  rewrite (parse_show_wf T (to_ast_paren e)).
  - cbn [option_map]. rewrite strip_paren. reflexivity.
  - unfold wf_top. rewrite W, (closed_lsp T _ 0 C). reflexivity.
Qed.
