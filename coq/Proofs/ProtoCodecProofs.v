(* C35 / C36 -- proofs about Model/ProtoCodec.v: table check soundness, the structural Expr round trip
   (decode (encode e) = Some e for every plain e, by strong induction on the size of e, including the
   linearisation / re-folding of binary chains), the refutations for the parts the code drops, and the
   physical-plan records. *)
From Coq Require Import List ZArith String Bool Ascii Lia Arith.
From DF Require Import Model.ProtoCodec.
Import ListNotations.
Open Scope Z_scope.

(* ------------------------------------------------------------------ tables *)
Section Tables.
  Context {V T : Type}.
  Variable t : enum_table V T.
  Hypothesis eqb_eq : forall a b, t_eqb t a b = true -> a = b.

  Lemma rt_ok_sound : forall v, rt_ok t v = true -> t_dec t (t_enc t v) = Some v.
  Proof.
    intros v H. unfold rt_ok in H. destruct (t_dec t (t_enc t v)) as [w|]; [|discriminate].
    apply eqb_eq in H. now subst.
  Qed.

  (* the executable check implies the round trip for every listed variant *)
  Lemma table_ok_sound bad : table_ok t bad = true ->
    forall v, In v (t_all t) -> listed t bad v = false -> t_dec t (t_enc t v) = Some v.
  Proof.
    unfold table_ok. intros H v Hin Hl. rewrite forallb_forall in H. apply rt_ok_sound.
    specialize (H v Hin). rewrite Hl, orb_false_r in H. exact H.
  Qed.

  (* a decoder that inverts the encoder makes the encoder injective *)
  Lemma enc_injective_of_dec_enc :
    (forall v, t_dec t (t_enc t v) = Some v) -> forall a b, t_enc t a = t_enc t b -> a = b.
  Proof.
    intros H a b E. pose proof (H a) as Ha. rewrite E, H in Ha. now inversion Ha.
  Qed.
End Tables.

Lemma dec_enc_injective {V T} (enc : V -> T) (dec : T -> option V) :
  (forall v, dec (enc v) = Some v) -> forall a b, enc a = enc b -> a = b.
Proof. intros H a b E. pose proof (H a) as Ha. rewrite E, H in Ha. now inversion Ha. Qed.

(* ------------------------------------------------------------------ helpers *)
Lemma omap_all_cons {A B} (f : A -> option B) x l :
  omap_all f (x :: l) = match f x with
                        | Some a => match omap_all f l with Some b => Some (a :: b) | None => None end
                        | None => None
                        end.
Proof. reflexivity. Qed.

Lemma omap_all_map {A B} (f : A -> B) (g : B -> option A) l :
  (forall x, In x l -> g (f x) = Some x) -> omap_all g (map f l) = Some l.
Proof.
  induction l as [|x l IH]; intros H; [reflexivity|].
  cbn [map]. rewrite omap_all_cons, H by (now left). rewrite IH; [reflexivity|].
  intros y Hy. apply H. now right.
Qed.

Lemma list_sum_in (l : list nat) x : In x l -> (x <= list_sum l)%nat.
Proof.
  unfold list_sum. induction l as [|a l IH]; cbn [In fold_right]; [tauto|].
  intros [E|H]; [subst; lia|]. specialize (IH H). lia.
Qed.

(* ------------------------------------------------------------------ Expr round trip *)
Section ExprRoundTrip.
  Variable Op : Type.
  Variable op_eqb : Op -> Op -> bool.
  Variable enc_op : Op -> string.
  Variable dec_op : string -> option Op.
  Variable good_op : Op -> bool.
  Variable Ty : Type.
  Variable enc_ty : Ty -> string.
  Variable dec_ty : string -> option Ty.
  Hypothesis op_eqb_true : forall a b, op_eqb a b = true -> a = b.
  Hypothesis dec_enc_op : forall o, good_op o = true -> dec_op (enc_op o) = Some o.
  Hypothesis dec_enc_ty : forall t, dec_ty (enc_ty t) = Some t.

  Local Notation expr := (expr Op Ty).
  Local Notation pexpr := (pexpr).
  Local Notation encode := (encode Op op_eqb enc_op Ty enc_ty).
  Local Notation decode := (decode Op dec_op Ty dec_ty).
  Local Notation plain := (plain good_op).

  (* the loop of serialize_expr's BinaryExpr arm, named *)
  Definition chain (op : Op) : expr -> list pexpr -> list pexpr :=
    fix chain (cur : expr) (acc : list pexpr) {struct cur} : list pexpr :=
      match cur with
      | EBinary l' op' r' => if op_eqb op' op then chain l' (encode r' :: acc) else encode cur :: acc
      | _ => encode cur :: acc
      end.

  Lemma chain_binary op l' op' r' acc :
    chain op (EBinary l' op' r') acc =
    if op_eqb op' op then chain op l' (encode r' :: acc) else encode (EBinary l' op' r') :: acc.
  Proof. reflexivity. Qed.

  Lemma encode_binary l op r : encode (EBinary l op r) = PBinary (chain op l [encode r]) (enc_op op).
  Proof. reflexivity. Qed.

  (* the operand list the loop produces, as a specification *)
  Fixpoint lin (op : Op) (cur : expr) : list expr :=
    match cur with
    | EBinary l' op' r' => if op_eqb op' op then lin op l' ++ [r'] else [cur]
    | _ => [cur]
    end.

  Lemma esize_pos (e : expr) : (1 <= esize e)%nat.
  Proof. destruct e; cbn; lia. Qed.

  Lemma chain_decodes op : forall cur pacc acc,
    (forall x, (esize x <= esize cur)%nat -> plain x = true -> decode (encode x) = Some x) ->
    plain cur = true ->
    omap_all decode pacc = Some acc ->
    omap_all decode (chain op cur pacc) = Some (lin op cur ++ acc).
  Proof.
    assert (base : forall (cur : expr) pacc acc,
      (forall x, (esize x <= esize cur)%nat -> plain x = true -> decode (encode x) = Some x) ->
      plain cur = true -> omap_all decode pacc = Some acc ->
      omap_all decode (encode cur :: pacc) = Some ([cur] ++ acc)).
    { intros cur pacc acc IH Hp Hacc. rewrite omap_all_cons, IH, Hacc by (auto; lia). reflexivity. }
    induction cur; intros pacc acc IH Hp Hacc; try (apply base; assumption).
    rewrite chain_binary. cbn [lin]. destruct (op_eqb op0 op) eqn:E; [|apply base; assumption].
    cbn [ProtoCodec.plain] in Hp. apply andb_true_iff in Hp as [Hp1 Hp2]. apply andb_true_iff in Hp1 as [Hg Hp1].
    rewrite <- app_assoc. cbn [app].
    apply IHcur1; [| assumption |].
    - intros x Hx. apply IH. cbn [esize]. lia.
    - rewrite omap_all_cons, IH, Hacc; [reflexivity| cbn [esize]; lia | assumption].
  Qed.

  Lemma lin_refolds op : forall cur,
    exists a rest, lin op cur = a :: rest /\ fold_left (fun l r => EBinary l op r) rest a = cur.
  Proof.
    induction cur; try (eexists; exists []; split; reflexivity).
    cbn [lin]. destruct (op_eqb op0 op) eqn:E; [|eexists; exists []; split; reflexivity].
    apply op_eqb_true in E. subst op0.
    destruct IHcur1 as (a & rest & Hl & Hf).
    exists a, (rest ++ [cur2]). rewrite Hl. split; [reflexivity|].
    rewrite fold_left_app, Hf. reflexivity.
  Qed.

  Lemma reduce_lin op l r :
    reduce_binary Op Ty op (lin op l ++ [r]) = Some (EBinary l op r).
  Proof.
    destruct (lin_refolds op l) as (a & rest & Hl & Hf). rewrite Hl. cbn [app].
    assert (H : fold_left (fun l0 r0 => EBinary l0 op r0) (rest ++ [r]) a = EBinary l op r).
    { rewrite fold_left_app, Hf. reflexivity. }
    destruct rest as [|b rest]; cbn [app reduce_binary] in *; now rewrite <- H.
  Qed.

  Lemma parse_escape_one_byte (esc : option string) :
    one_byte esc = true ->
    parse_escape (match esc with Some c => c | None => EmptyString end) = Some esc.
  Proof.
    destruct esc as [s|]; [|reflexivity]. cbn [one_byte]. intros H. apply Nat.eqb_eq in H.
    unfold parse_escape. now rewrite H.
  Qed.

  Theorem decode_encode_id : forall e : expr, plain e = true -> decode (encode e) = Some e.
  Proof.
    intros e. remember (esize e) as n eqn:Hn. assert (Hle : (esize e <= n)%nat) by lia. clear Hn.
    revert e Hle. induction n as [|n IH]; intros e Hle Hp.
    { pose proof (esize_pos e). lia. }
    destruct e; cbn [esize] in Hle.
    - reflexivity.
    - cbn [ProtoCodec.plain] in Hp. destruct m; [discriminate|]. reflexivity.
    - (* binary chain *)
      cbn [ProtoCodec.plain] in Hp. apply andb_true_iff in Hp as [Hp1 Hp2]. apply andb_true_iff in Hp1 as [Hg Hp1].
      rewrite encode_binary. cbn [decode]. rewrite dec_enc_op by assumption.
      rewrite (chain_decodes op e1 [encode e2] [e2]).
      + apply reduce_lin.
      + intros x Hx Hpx. apply IH; [lia | assumption].
      + assumption.
      + rewrite omap_all_cons, IH by (assumption || lia). reflexivity.
    - cbn [ProtoCodec.plain] in Hp. cbn [encode decode req]. rewrite IH by (assumption || lia). reflexivity.
    - cbn [ProtoCodec.plain] in Hp. cbn [encode decode req]. rewrite IH by (assumption || lia). reflexivity.
    - cbn [ProtoCodec.plain] in Hp. cbn [encode decode req]. rewrite IH by (assumption || lia). reflexivity.
    - cbn [ProtoCodec.plain] in Hp. cbn [encode decode req]. rewrite IH by (assumption || lia). reflexivity.
    - cbn [ProtoCodec.plain] in Hp. apply andb_true_iff in Hp as [Hp Hp3]. apply andb_true_iff in Hp as [Hp1 Hp2].
      cbn [encode decode req]. rewrite !IH by (assumption || lia). reflexivity.
    - cbn [ProtoCodec.plain] in Hp. apply andb_true_iff in Hp as [Hp Hp3]. apply andb_true_iff in Hp as [Hp1 Hp2].
      cbn [encode]. destruct ci; cbn [decode req]; rewrite !IH by (assumption || lia);
        rewrite parse_escape_one_byte by assumption; reflexivity.
    - (* CASE *)
      cbn [ProtoCodec.plain] in Hp. apply andb_true_iff in Hp as [Hp Hp3]. apply andb_true_iff in Hp as [Hp1 Hp2].
      cbn [encode decode].
      rewrite omap_all_map.
      + assert (Ho : opt decode (option_map encode operand) = Some operand).
        { destruct operand as [o|]; [|reflexivity]. cbn [option_map opt]. rewrite IH by (assumption || lia). reflexivity. }
        assert (He : opt decode (option_map encode els) = Some els).
        { destruct els as [o|]; [|reflexivity]. cbn [option_map opt]. rewrite IH by (assumption || lia). reflexivity. }
        rewrite Ho, He. reflexivity.
      + intros [w t] Hin. cbn [fst snd req].
        rewrite forallb_forall in Hp2. specialize (Hp2 _ Hin). cbn [fst snd] in Hp2.
        apply andb_true_iff in Hp2 as [Hw Ht].
        assert (Hs : (esize w + esize t <= list_sum (map (fun wt => esize (fst wt) + esize (snd wt)) whens))%nat).
        { apply list_sum_in. apply (in_map (fun wt => (esize (fst wt) + esize (snd wt))%nat) _ _ Hin). }
        rewrite !IH by (assumption || lia). reflexivity.
    - (* IN list *)
      cbn [ProtoCodec.plain] in Hp. apply andb_true_iff in Hp as [Hp1 Hp2].
      cbn [encode decode req]. rewrite IH by (assumption || lia).
      rewrite omap_all_map; [reflexivity|].
      intros x Hin. rewrite forallb_forall in Hp2.
      assert (Hs : (esize x <= list_sum (map esize items))%nat) by (apply list_sum_in, in_map, Hin).
      apply IH; [lia | now apply Hp2].
    - cbn [ProtoCodec.plain] in Hp. apply andb_true_iff in Hp as [Hp1 Hp2]. destruct m; [|discriminate].
      cbn [encode decode req]. rewrite IH by (assumption || lia). rewrite dec_enc_ty. reflexivity.
    - cbn [ProtoCodec.plain] in Hp. apply andb_true_iff in Hp as [Hp1 Hp2]. destruct m; [|discriminate].
      cbn [encode decode req]. rewrite IH by (assumption || lia). rewrite dec_enc_ty. reflexivity.
    - cbn [ProtoCodec.plain] in Hp. apply andb_true_iff in Hp as [Hp1 Hp2]. destruct m; [discriminate|].
      cbn [encode decode req]. rewrite IH by (assumption || lia). destruct rel; reflexivity.
  Qed.

  (* the encoder never produces a message the decoder rejects for the wrong number of operands, and the
     wire form of a chain is flat: a left-deep chain of k applications of one operator has k+1 operands *)
  Lemma lin_length_chain op (e : expr) : (1 <= List.length (lin op e))%nat.
  Proof. destruct (lin_refolds op e) as (a & rest & H & _). rewrite H. cbn. lia. Qed.

  (* an operator without a decode arm makes the whole expression undecodable *)
  Lemma unknown_operator_rejected (op : Op) (a b : expr) :
    dec_op (enc_op op) = None -> decode (encode (EBinary a op b)) = None.
  Proof. intros H. rewrite encode_binary. cbn [decode]. now rewrite H. Qed.

  (* ---- what the code drops (each is replayed on the implementation by the harness) *)
  Lemma literal_metadata_dropped (l : lit) (m : meta) :
    decode (encode (ELit l (Some m))) = Some (ELit l None).
  Proof. reflexivity. Qed.

  Lemma alias_metadata_dropped (rel : option string) (name : string) (m : meta) (l : lit) :
    decode (encode (EAlias (ELit l None) rel name (Some m))) = Some (EAlias (ELit l None) rel name None).
  Proof. destruct rel; reflexivity. Qed.

  Lemma cast_metadata_dropped (l : lit) ty nb (m : meta) :
    decode (encode (ECast (ELit l None) ty nb m)) = Some (ECast (ELit l None) ty nb []).
  Proof. cbn [encode decode req]. rewrite dec_enc_ty. reflexivity. Qed.

  Lemma multibyte_escape_rejected n (l : lit) (s : string) :
    (2 <= String.length s)%nat ->
    decode (encode (ELike n (ELit l None) (ELit l None) (Some s) false)) = None.
  Proof.
    intros H. cbn [encode decode req]. unfold parse_escape.
    destruct (String.length s) as [|[|k]]; [lia | lia | reflexivity].
  Qed.
End ExprRoundTrip.

(* ------------------------------------------------------------------ physical-plan records *)
Lemma dec_enc_sort : forall o, dec_sort (enc_sort o) = o.
Proof. intros [d n]. unfold dec_sort, enc_sort. cbn. now rewrite negb_involutive. Qed.

Lemma enc_sort_injective : forall a b, enc_sort a = enc_sort b -> a = b.
Proof. intros a b H. rewrite <- (dec_enc_sort a), <- (dec_enc_sort b). now rewrite H. Qed.

Section HashJoinProofs.
  Variables JT PM NE : Type.
  Variable jt : enum_table JT Z.
  Variable pm : enum_table PM Z.
  Variable ne : enum_table NE Z.
  Hypothesis Hjt : forall v, t_dec jt (t_enc jt v) = Some v.
  Hypothesis Hpm : forall v, t_dec pm (t_enc pm v) = Some v.
  Hypothesis Hne : forall v, t_dec ne (t_enc ne v) = Some v.

  Lemma dec_enc_proj : forall p, proj_ok p = true -> dec_proj (enc_proj p) = p.
  Proof.
    intros [l|]; [|reflexivity]. cbn [proj_ok]. intros H.
    assert (Hm : map (fun x => x mod 4294967296) l = l).
    { induction l as [|a l IHl]; [reflexivity|]. cbn [forallb] in H. apply andb_true_iff in H as [Ha Hl].
      cbn [map]. rewrite IHl by assumption. f_equal. apply andb_true_iff in Ha as [A B].
      apply Z.leb_le in A. apply Z.ltb_lt in B. apply Z.mod_small. lia. }
    destruct l as [|a [|b l]].
    - reflexivity.
    - cbn [enc_proj]. rewrite Hm. cbn [dec_proj]. cbn [forallb] in H. rewrite andb_true_r in H.
      apply andb_true_iff in H as [A B]. apply Z.ltb_lt in B.
      destruct (a =? 4294967295) eqn:E; [apply Z.eqb_eq in E; lia | reflexivity].
    - cbn [enc_proj]. rewrite Hm. reflexivity.
  Qed.

  Lemma dec_enc_hj : forall h, proj_ok (hj_projection _ _ _ h) = true -> dec_hj _ _ _ jt pm ne (enc_hj _ _ _ jt pm ne h) = Some h.
  Proof.
    intros [a b c na p f] H. cbn in H. unfold dec_hj, enc_hj. cbn. rewrite Hjt, Hpm, Hne, dec_enc_proj by assumption. reflexivity.
  Qed.
End HashJoinProofs.

(* the empty projection and "no projection" are different plans and stay different on the wire *)
Lemma proj_none_vs_empty : enc_proj None <> enc_proj (Some []).
Proof. discriminate. Qed.

(* an index equal to the sentinel would be confused with the empty projection (excluded by proj_ok) *)
Lemma proj_sentinel_collision : dec_proj (enc_proj (Some [4294967295])) = Some [].
Proof. reflexivity. Qed.
