(* Proofs for C27: Model/ListingPrune.v *)
From Coq Require Import Lia.
From DF Require Import Base.Prelude Model.ListingPrune.
Open Scope Z_scope.
Local Ltac Zify.zify_post_hook ::= Z.div_mod_to_equations.

(* ------------------------------------------------------------------ text equality *)
Lemma zlist_eqb_eq : forall a b : list Z, list_eqb Z.eqb a b = true <-> a = b.
Proof.
  induction a as [|x a IH]; intros [|y b]; cbn [list_eqb]; split; intro H;
    try reflexivity; try discriminate.
  - apply andb_true_iff in H. destruct H as [H1 H2].
    apply Z.eqb_eq in H1. apply IH in H2. subst. reflexivity.
  - inversion H; subst. apply andb_true_iff. split.
    + apply Z.eqb_refl.
    + apply IH. reflexivity.
Qed.

Lemma text_eqb_eq : forall a b, text_eqb a b = true <-> a = b.
Proof. exact zlist_eqb_eq. Qed.

Lemma text_eqb_refl : forall a, text_eqb a a = true.
Proof. intro a. apply text_eqb_eq. reflexivity. Qed.

Lemma text_eqb_neq : forall a b, text_eqb a b = false <-> a <> b.
Proof.
  intros a b. split.
  - intros H E. apply text_eqb_eq in E. congruence.
  - intro H. destruct (text_eqb a b) eqn:E; [|reflexivity].
    apply text_eqb_eq in E. contradiction.
Qed.

(* ------------------------------------------------------------------ split_eq *)
Lemma split_eq_some : forall s a b, split_eq s = Some (a, b) -> s = a ++ 61 :: b /\ ~ In 61 a.
Proof.
  induction s as [|c r IH]; intros a b H; cbn [split_eq] in H; [discriminate|].
  destruct (c =? 61) eqn:Ec.
  - inversion H; subst. apply Z.eqb_eq in Ec. subst. split; [reflexivity|]. intros [].
  - destruct (split_eq r) as [[a' b']|] eqn:Er; [|discriminate].
    inversion H; subst. destruct (IH _ _ eq_refl) as [E N]. subst r.
    split; [reflexivity|]. intros [F|F].
    + apply Z.eqb_neq in Ec. congruence.
    + contradiction.
Qed.

Lemma split_eq_build : forall a b, ~ In 61 a -> split_eq (a ++ 61 :: b) = Some (a, b).
Proof.
  induction a as [|c a IH]; intros b N; cbn [app split_eq].
  - reflexivity.
  - destruct (c =? 61) eqn:Ec.
    + apply Z.eqb_eq in Ec. subst. exfalso. apply N. left. reflexivity.
    + rewrite IH; [reflexivity|]. intro F. apply N. right. exact F.
Qed.

Lemma split_eq_spec : forall s a b,
  split_eq s = Some (a, b) <-> s = a ++ 61 :: b /\ ~ In 61 a.
Proof.
  intros s a b. split.
  - apply split_eq_some.
  - intros [E N]. subst. apply split_eq_build. exact N.
Qed.

Lemma split_eq_none : forall s, split_eq s = None <-> ~ In 61 s.
Proof.
  induction s as [|c r IH]; cbn [split_eq].
  - split; [intros _ []|reflexivity].
  - destruct (c =? 61) eqn:Ec.
    + apply Z.eqb_eq in Ec. subst. split; [discriminate|]. intro N. exfalso. apply N. left. reflexivity.
    + apply Z.eqb_neq in Ec. destruct (split_eq r) as [[a b]|].
      * split; [discriminate|]. intro N. exfalso.
        assert (H : ~ In 61 r) by (intro F; apply N; right; exact F).
        apply IH in H. discriminate.
      * split; [|reflexivity]. intros _ [F|F]; [congruence|]. destruct IH as [IH1 _].
        exact (IH1 eq_refl F).
Qed.

(* ------------------------------------------------------------------ the partition-value map *)
Lemma pv_get_set : forall m k v q,
  pv_get (pv_set m k v) q = if text_eqb k q then Some v else pv_get m q.
Proof.
  induction m as [|[k' v'] r IH]; intros k v q; cbn [pv_set pv_get].
  - reflexivity.
  - destruct (text_eqb k' k) eqn:Ek; cbn [pv_get].
    + apply text_eqb_eq in Ek. subst k'.
      destruct (text_eqb k q); reflexivity.
    + rewrite IH. destruct (text_eqb k' q) eqn:E1; destruct (text_eqb k q) eqn:E2; try reflexivity.
      apply text_eqb_eq in E1. apply text_eqb_eq in E2. subst.
      rewrite text_eqb_refl in Ek. discriminate.
Qed.

(* what a Single entry of the populated map means *)
Definition pv_inv (spelling : value -> bool) (all : list atom) (m : pvmap) : Prop :=
  forall p txt, pv_get m p = Some (Some txt) ->
    exists lit, In (p, lit) all /\ spelling lit = true /\ show_lit lit = txt.

Lemma pv_insert_inv : forall spelling all m a,
  In a all -> pv_inv spelling all m -> pv_inv spelling all (pv_insert spelling m a).
Proof.
  intros spelling all m [k lit] Hin Hm p txt Hg. unfold pv_insert in Hg.
  destruct (pv_get m k) as [old|] eqn:Eo; rewrite pv_get_set in Hg.
  - destruct (text_eqb k p) eqn:Ek; [discriminate|]. exact (Hm _ _ Hg).
  - destruct (text_eqb k p) eqn:Ek.
    + apply text_eqb_eq in Ek. subst p.
      destruct (spelling lit) eqn:Es; [|discriminate]. inversion Hg; subst.
      exists lit. split; [exact Hin|]. split; [exact Es|reflexivity].
    + exact (Hm _ _ Hg).
Qed.

Lemma fold_insert_inv : forall spelling all atoms m,
  (forall a, In a atoms -> In a all) -> pv_inv spelling all m ->
  pv_inv spelling all (fold_left (pv_insert spelling) atoms m).
Proof.
  intros spelling all. induction atoms as [|a r IH]; intros m Hsub Hm; cbn [fold_left].
  - exact Hm.
  - apply IH.
    + intros b Hb. apply Hsub. right. exact Hb.
    + apply pv_insert_inv; [apply Hsub; left; reflexivity|exact Hm].
Qed.

Lemma populate_single : forall spelling atoms p txt,
  pv_get (populate spelling atoms) p = Some (Some txt) ->
  exists lit, In (p, lit) atoms /\ spelling lit = true /\ show_lit lit = txt.
Proof.
  intros spelling atoms. unfold populate.
  apply (fold_insert_inv spelling atoms atoms []).
  - intros a H. exact H.
  - intros p txt H. cbn [pv_get] in H. discriminate.
Qed.

Lemma populate_single_str : forall atoms p txt,
  pv_get (populate single_spelling atoms) p = Some (Some txt) -> In (p, VStr txt) atoms.
Proof.
  intros atoms p txt H. apply populate_single in H. destruct H as [lit [Hin [Hs Ht]]].
  destruct lit as [z|t]; cbn [single_spelling] in Hs; [discriminate|].
  cbn [show_lit] in Ht. subst. exact Hin.
Qed.

(* ------------------------------------------------------------------ T1: the prefix is sound *)
Lemma atoms_true_in : forall cols vals atoms p lit,
  atoms_true cols vals atoms = true -> In (p, lit) atoms ->
  exists v, lookup_val cols vals p = Some v /\ value_eqb v lit = true.
Proof.
  intros cols vals atoms p lit H Hin. unfold atoms_true in H.
  rewrite forallb_forall in H. specialize (H _ Hin). cbn [fst snd] in H.
  destruct (lookup_val cols vals p) as [v|]; [|discriminate].
  exists v. split; [reflexivity|exact H].
Qed.

Lemma value_eqb_str : forall v t, value_eqb v (VStr t) = true -> v = VStr t.
Proof.
  intros [z|s] t H; cbn [value_eqb] in H; [discriminate|].
  apply text_eqb_eq in H. subst. reflexivity.
Qed.

Lemma value_eqb_eq : forall a b, value_eqb a b = true <-> a = b.
Proof.
  intros [x|x] [y|y]; cbn [value_eqb]; split; intro H; try discriminate.
  - apply Z.eqb_eq in H. subst. reflexivity.
  - inversion H. apply Z.eqb_refl.
  - apply text_eqb_eq in H. subst. reflexivity.
  - inversion H. apply text_eqb_refl.
Qed.

Lemma prefix_parts_sound : forall m cols file vs vals,
  NoDup (map fst cols) ->
  forallb canonical_seg file = true ->
  parse_path cols file = Some vs ->
  length vs = length cols ->
  typed_vals cols vs = Some vals ->
  (forall p txt, In p (map fst cols) -> pv_get m p = Some (Some txt) ->
                 lookup_val cols vals p = Some (VStr txt)) ->
  has_prefix (prefix_parts cols m) file = true.
Proof.
  intros m. induction cols as [|[p t] cr IH]; intros file vs vals Hnd Hcan Hpp Hlen Htv Hm.
  - reflexivity.
  - cbn [prefix_parts].
    destruct (pv_get m p) as [[val|]|] eqn:Eg; try reflexivity.
    destruct (text_eqb (pct_encode val) val) eqn:Eenc; [|reflexivity].
    apply text_eqb_eq in Eenc.
    destruct file as [|s sr].
    { cbn [parse_path] in Hpp. inversion Hpp; subst. cbn [length] in Hlen. discriminate. }
    cbn [parse_path] in Hpp.
    destruct (split_eq s) as [[name v]|] eqn:Es; [|discriminate].
    destruct (text_eqb name p) eqn:En; [|discriminate].
    apply text_eqb_eq in En. subst name.
    destruct (parse_path cr sr) as [vs'|] eqn:Epp; [|discriminate].
    inversion Hpp; subst vs. clear Hpp.
    cbn [length] in Hlen.
    cbn [typed_vals] in Htv.
    destruct (parse_val t (decode_val v)) as [x|] eqn:Epv; [|discriminate].
    destruct (typed_vals cr vs') as [xs|] eqn:Etv; [|discriminate].
    inversion Htv; subst vals. clear Htv.
    cbn [map fst] in Hnd. inversion Hnd as [|? ? Hnotin Hnd']; subst.
    cbn [forallb] in Hcan. apply andb_true_iff in Hcan. destruct Hcan as [Hcs Hcan].
    (* the value of this segment *)
    assert (Hx : x = VStr val).
    { specialize (Hm p val (or_introl eq_refl) Eg). cbn [lookup_val] in Hm.
      rewrite text_eqb_refl in Hm. inversion Hm. reflexivity. }
    subst x.
    assert (Hdv : decode_val v = val).
    { destruct t; cbn [parse_val] in Epv.
      - destruct (parse_int32 (decode_val v)); discriminate.
      - inversion Epv. reflexivity. }
    unfold canonical_seg in Hcs. rewrite Es in Hcs. apply text_eqb_eq in Hcs.
    rewrite Hdv, Eenc in Hcs. subst v.
    apply split_eq_some in Es. destruct Es as [Es _].
    cbn [has_prefix]. apply andb_true_iff. split.
    + apply text_eqb_eq. unfold seg. symmetry. exact Es.
    + apply (IH sr vs' xs Hnd' Hcan Epp); [lia|exact Etv|].
      intros q txt Hq Hgq.
      assert (Hne : text_eqb p q = false).
      { apply text_eqb_neq. intro E. subst q. contradiction. }
      specialize (Hm q txt (or_intror Hq) Hgq). cbn [lookup_val] in Hm.
      rewrite Hne in Hm. exact Hm.
Qed.

Lemma prefix_sound : forall cols atoms file,
  NoDup (map fst cols) -> canonical_file file = true ->
  file_matches cols atoms file = true ->
  has_prefix (eval_prefix cols atoms) file = true.
Proof.
  intros cols atoms file Hnd Hcan Hfm. unfold file_matches in Hfm.
  destruct (parse_path cols file) as [vs|] eqn:Epp; [|discriminate].
  destruct (Nat.eqb (length vs) (length cols)) eqn:El; [|discriminate].
  apply Nat.eqb_eq in El.
  destruct (typed_vals cols vs) as [vals|] eqn:Etv; [|discriminate].
  unfold eval_prefix, eval_prefix_gen.
  apply (prefix_parts_sound _ cols file vs vals Hnd Hcan Epp El Etv).
  intros p txt _ Hg. apply populate_single_str in Hg.
  destruct (atoms_true_in _ _ _ _ _ Hfm Hg) as [v [Hl Hv]].
  apply value_eqb_str in Hv. subst v. exact Hl.
Qed.

(* ------------------------------------------------------------------ T2 *)
Lemma pruned_eq_scan_all : forall cols atoms files,
  NoDup (map fst cols) -> forallb canonical_file files = true ->
  pruned cols atoms files = scan_all cols atoms files.
Proof.
  intros cols atoms files Hnd. unfold pruned, pruned_gen, scan_all.
  induction files as [|f r IH]; intro Hcan; cbn [filter]; [reflexivity|].
  cbn [forallb] in Hcan. apply andb_true_iff in Hcan. destruct Hcan as [Hf Hr].
  rewrite (IH Hr).
  destruct (file_matches cols atoms f) eqn:Efm.
  - change (eval_prefix_gen single_spelling cols atoms) with (eval_prefix cols atoms).
    rewrite (prefix_sound cols atoms f Hnd Hf Efm). reflexivity.
  - rewrite andb_false_r. reflexivity.
Qed.

Lemma pruned_superset : forall cols atoms files f,
  NoDup (map fst cols) -> forallb canonical_file files = true ->
  In f files -> file_matches cols atoms f = true -> In f (pruned cols atoms files).
Proof.
  intros cols atoms files f Hnd Hcan Hin Hfm.
  rewrite (pruned_eq_scan_all cols atoms files Hnd Hcan).
  unfold scan_all. apply filter_In. split; assumption.
Qed.

(* pruning never invents files, in any version *)
Lemma pruned_gen_subset : forall spelling cols atoms files f,
  In f (pruned_gen spelling cols atoms files) -> In f files /\ file_matches cols atoms f = true.
Proof.
  intros spelling cols atoms files f H. unfold pruned_gen in H. apply filter_In in H.
  destruct H as [H1 H2]. apply andb_true_iff in H2. destruct H2 as [_ H2]. split; assumption.
Qed.

(* ------------------------------------------------------------------ T3 / T4: refutations *)
Definition t_month : text := [109;111;110;116;104].
Definition t_fcsv : text := [102;46;99;115;118].
Definition t_gcsv : text := [103;46;99;115;118].
Definition w_cols : list (text * ty) := [(t_month, TInt32)].
Definition w_atoms : list atom := [(t_month, VInt 1)].
Definition w_file01 : list text := [t_month ++ [61;48;49]; t_fcsv].       (* month=01/f.csv *)
Definition w_file1 : list text := [t_month ++ [61;49]; t_gcsv].           (* month=1/g.csv *)
Definition w_files : list (list text) := [w_file01; w_file1].

Lemma w_cols_nodup : NoDup (map fst w_cols).
Proof. cbn [map fst w_cols]. constructor; [intros []|constructor]. Qed.

Lemma upstream_refuted :
  exists cols atoms files,
    NoDup (map fst cols) /\ forallb canonical_file files = true /\
    pruned_upstream cols atoms files <> scan_all cols atoms files.
Proof.
  exists w_cols, w_atoms, w_files. split; [exact w_cols_nodup|]. split; [vm_compute; reflexivity|].
  intro H. vm_compute in H. discriminate.
Qed.

(* the same witness, spelled out: month=01/f.csv satisfies month = 1 and is dropped *)
Lemma upstream_drops_matching_file :
  NoDup (map fst w_cols) /\ forallb canonical_file w_files = true /\
  In w_file01 w_files /\ file_matches w_cols w_atoms w_file01 = true /\
  pruned_upstream w_cols w_atoms w_files = [w_file1] /\
  pruned w_cols w_atoms w_files = w_files.
Proof.
  split; [exact w_cols_nodup|].
  split; [vm_compute; reflexivity|].
  split; [left; reflexivity|].
  split; [vm_compute; reflexivity|].
  split; vm_compute; reflexivity.
Qed.

Definition w2_cols : list (text * ty) := [([97], TUtf8)].
Definition w2_atoms : list atom := [([97], VStr [102;111;111])].           (* a = 'foo' *)
Definition w2_file : list text := [[97;61;37;54;54;111;111]; t_fcsv].      (* a=%66oo/f.csv *)

Lemma overencoded_refuted :
  exists cols atoms file,
    NoDup (map fst cols) /\ file_matches cols atoms file = true /\
    has_prefix (eval_prefix cols atoms) file = false.
Proof.
  exists w2_cols, w2_atoms, w2_file.
  split; [cbn [map fst w2_cols]; constructor; [intros []|constructor]|].
  split; vm_compute; reflexivity.
Qed.

(* ------------------------------------------------------------------ T5: round trips *)
Definition ascii (b : Z) : Prop := 0 <= b < 128.

Lemma unhex_hexd : forall n, 0 <= n < 16 -> unhex (hexd n) = Some n.
Proof.
  intros n H.
  assert (E : n = 0 \/ n = 1 \/ n = 2 \/ n = 3 \/ n = 4 \/ n = 5 \/ n = 6 \/ n = 7 \/
              n = 8 \/ n = 9 \/ n = 10 \/ n = 11 \/ n = 12 \/ n = 13 \/ n = 14 \/ n = 15) by lia.
  repeat (destruct E as [E|E]; [subst n; vm_compute; reflexivity|]).
  subst n; vm_compute; reflexivity.
Qed.

Lemma nibbles : forall b, 0 <= b < 256 ->
  0 <= b / 16 < 16 /\ 0 <= b mod 16 < 16 /\ b / 16 * 16 + b mod 16 = b.
Proof. intros b H. lia. Qed.

Lemma pct_decode_escape : forall h l x y r,
  unhex h = Some x -> unhex l = Some y ->
  pct_decode (37 :: h :: l :: r) = (x * 16 + y) :: pct_decode r.
Proof.
  intros h l x y r Hh Hl.
  change (pct_decode (37 :: h :: l :: r)) with
    (if 37 =? 37 then
       match unhex h, unhex l with
       | Some x, Some y => (x * 16 + y) :: pct_decode r
       | _, _ => 37 :: pct_decode (h :: l :: r)
       end
     else 37 :: pct_decode (h :: l :: r)).
  rewrite Hh, Hl. reflexivity.
Qed.

Lemma pct_decode_plain : forall b r, b <> 37 -> pct_decode (b :: r) = b :: pct_decode r.
Proof.
  intros b r H.
  change (pct_decode (b :: r)) with
    (if b =? 37 then
       match r with
       | h :: l :: r' =>
           match unhex h, unhex l with
           | Some x, Some y => (x * 16 + y) :: pct_decode r'
           | _, _ => b :: pct_decode r
           end
       | _ => b :: pct_decode r
       end
     else b :: pct_decode r).
  apply Z.eqb_neq in H. rewrite H. reflexivity.
Qed.

Lemma needs_enc_37 : forall b, needs_enc b = false -> b <> 37.
Proof. intros b H E. subst b. vm_compute in H. discriminate. Qed.

(* byte-level: percent-decoding undoes percent-encoding (any byte values 0..255) *)
Lemma pct_decode_encode : forall v, Forall (fun b => 0 <= b < 256) v -> pct_decode (pct_encode v) = v.
Proof.
  induction v as [|b r IH]; intro H; cbn [pct_encode]; [reflexivity|].
  inversion H as [|? ? Hb Hr]; subst.
  destruct (needs_enc b) eqn:En.
  - destruct (nibbles b Hb) as [H1 [H2 H3]].
    rewrite (pct_decode_escape _ _ _ _ _ (unhex_hexd _ H1) (unhex_hexd _ H2)).
    rewrite H3, (IH Hr). reflexivity.
  - rewrite (pct_decode_plain _ _ (needs_enc_37 _ En)), (IH Hr). reflexivity.
Qed.

Lemma ascii_no_high : forall v, Forall ascii v -> existsb (fun b => 128 <=? b) v = false.
Proof.
  induction v as [|b r IH]; intro H; cbn [existsb]; [reflexivity|].
  inversion H as [|? ? Hb Hr]; subst. rewrite (IH Hr). unfold ascii in Hb.
  destruct (128 <=? b) eqn:E; [apply Z.leb_le in E; lia|reflexivity].
Qed.

Lemma ascii_bytes : forall v, Forall ascii v -> Forall (fun b => 0 <= b < 256) v.
Proof. intros v H. eapply Forall_impl; [|exact H]. unfold ascii. cbv beta. intros a Ha. lia. Qed.

Lemma decode_encode_roundtrip : forall v,
  Forall (fun b => 0 <= b < 128) v -> decode_val (pct_encode v) = v.
Proof.
  intros v H. change (Forall ascii v) in H. unfold decode_val.
  rewrite (pct_decode_encode v (ascii_bytes v H)), (ascii_no_high v H). reflexivity.
Qed.

(* building a hive path from column names and values, as the writer does *)
Fixpoint build_dirs (cols : list (text * ty)) (vs : list text) : list text :=
  match cols, vs with
  | (p, _) :: cr, v :: vr => seg p (pct_encode v) :: build_dirs cr vr
  | _, _ => []
  end.
Definition build_path (cols : list (text * ty)) (vs : list text) (fname : text) : list text :=
  build_dirs cols vs ++ [fname].

Lemma parse_build_roundtrip : forall cols vs fname,
  length vs = length cols ->
  Forall (fun c => ~ In 61 (fst c)) cols ->
  Forall (Forall (fun b => 0 <= b < 128)) vs ->
  parse_path cols (build_path cols vs fname) = Some vs.
Proof.
  unfold build_path.
  induction cols as [|[p t] cr IH]; intros vs fname Hlen Hc Hv.
  - destruct vs; [reflexivity|discriminate].
  - destruct vs as [|v vr]; [discriminate|].
    cbn [length] in Hlen. inversion Hc as [|? ? Hp Hcr]; subst. inversion Hv as [|? ? Hv1 Hvr]; subst.
    cbn [fst] in Hp.
    cbn [build_dirs app parse_path]. unfold seg.
    rewrite (split_eq_build p (pct_encode v) Hp), text_eqb_refl.
    rewrite (IH vr fname); [|lia|exact Hcr|exact Hvr].
    rewrite (decode_encode_roundtrip v Hv1). reflexivity.
Qed.

(* ... and such a path is canonically encoded (so T1/T2 apply to every layout the writer produces) *)
Lemma build_dirs_canonical : forall cols vs,
  Forall (fun c => ~ In 61 (fst c)) cols ->
  Forall (Forall (fun b => 0 <= b < 128)) vs ->
  forallb canonical_seg (build_dirs cols vs) = true.
Proof.
  induction cols as [|[p t] cr IH]; intros vs Hc Hv; [reflexivity|].
  destruct vs as [|v vr]; [reflexivity|].
  inversion Hc as [|? ? Hp Hcr]; subst. inversion Hv as [|? ? Hv1 Hvr]; subst. cbn [fst] in Hp.
  cbn [build_dirs forallb]. rewrite (IH vr Hcr Hvr), andb_true_r.
  unfold canonical_seg, seg. rewrite (split_eq_build p (pct_encode v) Hp).
  rewrite (decode_encode_roundtrip v Hv1). apply text_eqb_refl.
Qed.

Lemma build_path_canonical : forall cols vs fname,
  Forall (fun c => ~ In 61 (fst c)) cols ->
  Forall (Forall (fun b => 0 <= b < 128)) vs ->
  ~ In 61 fname ->
  canonical_file (build_path cols vs fname) = true.
Proof.
  intros cols vs fname Hc Hv Hf. unfold canonical_file, build_path.
  rewrite forallb_app, (build_dirs_canonical cols vs Hc Hv). cbn [forallb andb].
  unfold canonical_seg. apply split_eq_none in Hf. rewrite Hf. reflexivity.
Qed.

(* ------------------------------------------------------------------ T7: shape of the prefix *)
Lemma has_prefix_nil : forall f, has_prefix [] f = true.
Proof. intro f. destruct f; reflexivity. Qed.

Lemma prefix_parts_structure : forall m cols,
  Forall2 (fun part col => exists txt,
             pv_get m (fst col) = Some (Some txt) /\ part = seg (fst col) txt /\ pct_encode txt = txt)
          (prefix_parts cols m) (firstn (length (prefix_parts cols m)) cols).
Proof.
  intro m. induction cols as [|[p t] cr IH]; cbn [prefix_parts].
  - constructor.
  - destruct (pv_get m p) as [[val|]|] eqn:Eg; try (cbn [length firstn]; constructor).
    destruct (text_eqb (pct_encode val) val) eqn:Ee; [|cbn [length firstn]; constructor].
    cbn [length firstn]. constructor; [|exact IH].
    exists val. cbn [fst]. apply text_eqb_eq in Ee. split; [exact Eg|]. split; [reflexivity|exact Ee].
Qed.

Lemma Forall2_weaken {A B} (R1 R2 : A -> B -> Prop) :
  (forall a b, R1 a b -> R2 a b) -> forall l1 l2, Forall2 R1 l1 l2 -> Forall2 R2 l1 l2.
Proof. intros H l1 l2 F. induction F; constructor; auto. Qed.

(* the i-th part of the prefix is "p_i=txt" for the i-th partition column p_i, where p_i = 'txt' is a
   string-literal atom of the filter and txt needs no percent-encoding *)
Lemma prefix_parts_are_canonical_segments : forall cols atoms,
  Forall2 (fun part col => exists txt,
             In (fst col, VStr txt) atoms /\ part = seg (fst col) txt /\ pct_encode txt = txt)
          (eval_prefix cols atoms) (firstn (length (eval_prefix cols atoms)) cols).
Proof.
  intros cols atoms. unfold eval_prefix, eval_prefix_gen.
  eapply Forall2_weaken; [|apply prefix_parts_structure].
  cbv beta. intros part col [txt [Hg [Hs He]]]. exists txt.
  split; [exact (populate_single_str _ _ _ Hg)|]. split; assumption.
Qed.

(* distinct partition column names are needed too (a schema never has duplicates) *)
Lemma dup_cols_refuted :
  exists cols atoms file,
    canonical_file file = true /\ file_matches cols atoms file = true /\
    has_prefix (eval_prefix cols atoms) file = false.
Proof.
  exists [([97], TUtf8); ([97], TUtf8)], [([97], VStr [120])], [[97;61;120]; [97;61;121]; t_fcsv].
  split; [|split]; vm_compute; reflexivity.
Qed.
