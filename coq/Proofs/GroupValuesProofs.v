(* C13 -- proofs about Model/GroupValues.v (group-key interning).
   A. declarative meaning of one intern call ([intern_ok]) and its consequences
   B. the relational checker [spec_intern_chk] decides exactly [intern_ok]
   C. the deterministic [spec_intern] is one behaviour allowed by [intern_ok] (first-seen order)
   D. whole histories on the specification
   E. GroupValuesPrimitive / GroupValuesBoolean models refine the specification on all histories
   F. the stale-null_group clear (upstream defect) does not *)
From Coq Require Import List ZArith Bool Lia FinFun.
From DF Require Import Base.Prelude Model.GroupValues.
Import ListNotations.
Open Scope Z_scope.

(* ------------------------------------------------------------------ generic list facts *)
Lemma nodup_nth_inj {A} (l : list A) a b k :
  NoDup l -> nth_error l a = Some k -> nth_error l b = Some k -> a = b.
Proof.
  intros ND Ha Hb. rewrite NoDup_nth_error in ND. apply ND.
  - apply nth_error_Some. congruence.
  - congruence.
Qed.

Lemma nodup_app_disj {A} (a b : list A) x : NoDup (a ++ b) -> In x a -> In x b -> False.
Proof.
  induction a as [|y a IH]; cbn [app In]; intros ND Ha Hb; [exact Ha|].
  inversion ND as [|? ? Hy ND']; subst. destruct Ha as [->|Ha].
  - apply Hy. apply in_or_app. right. exact Hb.
  - exact (IH ND' Ha Hb).
Qed.

Lemma nodup_app_intro {A} (a b : list A) :
  NoDup a -> NoDup b -> (forall x, In x a -> In x b -> False) -> NoDup (a ++ b).
Proof.
  induction a as [|y a IH]; cbn [app]; intros Na Nb D; [exact Nb|].
  inversion Na as [|? ? Hy Na']; subst. constructor.
  - rewrite in_app_iff. intros [H|H]; [exact (Hy H)|]. apply (D y); [left; reflexivity|exact H].
  - apply IH; auto. intros x Hx Hb. apply (D x); [right; exact Hx|exact Hb].
Qed.

Lemma nodup_snoc {A} (l : list A) x : NoDup l -> ~ In x l -> NoDup (l ++ [x]).
Proof.
  intros ND H. apply nodup_app_intro; auto.
  - constructor; [intros []|constructor].
  - intros y Hy [<-|[]]. exact (H Hy).
Qed.

Lemma nodup_app_l {A} (a b : list A) : NoDup (a ++ b) -> NoDup a.
Proof.
  induction a as [|y a IH]; cbn [app]; intros ND; [constructor|].
  inversion ND as [|? ? Hy ND']; subst. constructor; auto.
  intros H. apply Hy. apply in_or_app. left. exact H.
Qed.

Lemma nodup_app_r {A} (a b : list A) : NoDup (a ++ b) -> NoDup b.
Proof.
  induction a as [|y a IH]; cbn [app]; intros ND; [exact ND|].
  inversion ND; subst. auto.
Qed.

Lemma nodup_fst_inj {A B} (l : list (A * B)) k a b :
  NoDup (map fst l) -> In (k, a) l -> In (k, b) l -> a = b.
Proof.
  induction l as [|[k' c] l IH]; cbn [map fst In]; intros ND Ha Hb; [destruct Ha|].
  inversion ND as [|? ? Hk ND']; subst.
  destruct Ha as [Ha|Ha], Hb as [Hb|Hb].
  - congruence.
  - inversion Ha; subst. exfalso. apply Hk. change k with (fst (k, b)). apply in_map. exact Hb.
  - inversion Hb; subst. exfalso. apply Hk. change k with (fst (k, a)). apply in_map. exact Ha.
  - exact (IH ND' Ha Hb).
Qed.

Lemma nodup_snd_inj {A B} (l : list (A * B)) i a b :
  NoDup (map snd l) -> In (a, i) l -> In (b, i) l -> a = b.
Proof.
  induction l as [|[c i'] l IH]; cbn [map snd In]; intros ND Ha Hb; [destruct Ha|].
  inversion ND as [|? ? Hk ND']; subst.
  destruct Ha as [Ha|Ha], Hb as [Hb|Hb].
  - congruence.
  - inversion Ha; subst. exfalso. apply Hk. change i with (snd (b, i)). apply in_map. exact Hb.
  - inversion Hb; subst. exfalso. apply Hk. change i with (snd (a, i)). apply in_map. exact Ha.
  - exact (IH ND' Ha Hb).
Qed.

Lemma nth_error_some_lt {A} (l : list A) i x : nth_error l i = Some x -> (i < length l)%nat.
Proof. intros H. apply nth_error_Some. congruence. Qed.

Lemma nth_error_lt_some {A} (l : list A) i : (i < length l)%nat -> exists x, nth_error l i = Some x.
Proof.
  intros H. destruct (nth_error l i) as [x|] eqn:E; [eauto|].
  apply nth_error_None in E. lia.
Qed.

Lemma nth_error_app_some {A} (a b : list A) i x :
  nth_error a i = Some x -> nth_error (a ++ b) i = Some x.
Proof. intros H. rewrite nth_error_app1; [exact H|]. eapply nth_error_some_lt; eauto. Qed.

Lemma zlen_app {A} (a b : list A) : zlen (a ++ b) = zlen a + zlen b.
Proof. unfold zlen. rewrite app_length. lia. Qed.

Lemma zlen_nonneg {A} (a : list A) : 0 <= zlen a.
Proof. unfold zlen. lia. Qed.

(* ------------------------------------------------------------------ key equality *)
Lemma zopt_eqb_eq a b : zopt_eqb a b = true <-> a = b.
Proof.
  unfold zopt_eqb, opt_eqb. destruct a as [x|], b as [y|]; try (split; congruence).
  rewrite Z.eqb_eq. split; congruence.
Qed.

Lemma list_eqb_eq {A} (eqb : A -> A -> bool) :
  (forall x y, eqb x y = true <-> x = y) -> forall a b, list_eqb eqb a b = true <-> a = b.
Proof.
  intros H a. induction a as [|x a IH]; intros [|y b]; cbn [list_eqb]; try (split; congruence).
  rewrite andb_true_iff, H, IH. split.
  - intros [-> ->]. reflexivity.
  - intros E. inversion E. auto.
Qed.

(* [key_eqb] reflects Leibniz equality on [key = list (option Z)] *)
Lemma key_eqb_eq a b : key_eqb a b = true <-> a = b.
Proof. apply list_eqb_eq. exact zopt_eqb_eq. Qed.

Lemma key_eqb_refl a : key_eqb a a = true.
Proof. apply key_eqb_eq. reflexivity. Qed.

Lemma key_eqb_neq a b : key_eqb a b = false <-> a <> b.
Proof.
  destruct (key_eqb a b) eqn:E.
  - apply key_eqb_eq in E. split; [discriminate|congruence].
  - split; [|reflexivity]. intros _ H. apply key_eqb_eq in H. congruence.
Qed.

Definition key_eq_dec (a b : key) : {a = b} + {a <> b}.
Proof.
  destruct (key_eqb a b) eqn:E.
  - left. apply key_eqb_eq. exact E.
  - right. apply key_eqb_neq. exact E.
Defined.

(* ------------------------------------------------------------------ find_idx *)
Lemma find_idx_some k l : forall i j, find_idx k l i = Some j ->
  i <= j /\ nth_error l (Z.to_nat (j - i)) = Some k.
Proof.
  induction l as [|x r IH]; intros i j H; cbn [find_idx] in H; [discriminate|].
  destruct (key_eqb x k) eqn:E.
  - inversion H; subst. apply key_eqb_eq in E. subst. rewrite Z.sub_diag. split; [lia|reflexivity].
  - apply IH in H. destruct H as [H1 H2]. split; [lia|].
    replace (Z.to_nat (j - i)) with (S (Z.to_nat (j - (i + 1)))) by lia. exact H2.
Qed.

Lemma find_idx_none k l : forall i, find_idx k l i = None <-> ~ In k l.
Proof.
  induction l as [|x r IH]; intros i; cbn [find_idx In].
  - split; auto.
  - destruct (key_eqb x k) eqn:E.
    + apply key_eqb_eq in E. split; [discriminate|]. intros H. exfalso. apply H. left. exact E.
    + apply key_eqb_neq in E. rewrite IH. split; [intros H [H'|H']; auto|intros H H'; apply H; right; exact H'].
Qed.

Lemma find_idx_nodup k l : NoDup l -> forall p i, nth_error l p = Some k ->
  find_idx k l i = Some (i + Z.of_nat p).
Proof.
  intros ND p i Hp. destruct (find_idx k l i) as [j|] eqn:E.
  - apply find_idx_some in E. destruct E as [Hle Hn].
    assert (Z.to_nat (j - i) = p) by (eapply nodup_nth_inj; eauto).
    f_equal. lia.
  - apply find_idx_none in E. exfalso. apply E. eapply nth_error_In; eauto.
Qed.

(* ================================================================== A. one intern call *)
(* [s] = live keys before (position = group id), [ks] = the batch, [ids] = the ids returned,
   [s'] = live keys afterwards. *)
Definition intern_ok (s : spec) (ks : list key) (ids : list Z) (s' : spec) : Prop :=
  length ids = length ks /\
  (exists new, s' = s ++ new /\ (forall k, In k new -> In k ks)) /\
  NoDup s' /\
  (forall i k id, nth_error ks i = Some k -> nth_error ids i = Some id ->
                  0 <= id /\ nth_error s' (Z.to_nat id) = Some k).

(* "k is not live in s" as a boolean, and the distinct not-yet-live keys of a batch *)
Definition is_new (s : spec) (k : key) : bool := negb (existsb (key_eqb k) s).
Definition distinct_new (s : spec) (ks : list key) : list key :=
  nodup key_eq_dec (filter (is_new s) ks).

Lemma is_new_spec s k : is_new s k = true <-> ~ In k s.
Proof.
  unfold is_new. rewrite negb_true_iff. split.
  - intros H Hin. assert (existsb (key_eqb k) s = true); [|congruence].
    apply existsb_exists. exists k. split; [exact Hin|apply key_eqb_refl].
  - intros H. destruct (existsb (key_eqb k) s) eqn:E; [|reflexivity].
    apply existsb_exists in E. destruct E as (x & Hx & Ex). apply key_eqb_eq in Ex. subst. contradiction.
Qed.

Lemma equal_keys_iff_equal_ids s ks ids s' : intern_ok s ks ids s' ->
  (forall i j ki kj idi idj,
     nth_error ks i = Some ki -> nth_error ks j = Some kj ->
     nth_error ids i = Some idi -> nth_error ids j = Some idj ->
     (ki = kj <-> idi = idj)) /\
  (forall p i k id,
     nth_error s p = Some k -> nth_error ks i = Some k -> nth_error ids i = Some id ->
     id = Z.of_nat p).
Proof.
  intros (HL & (new & -> & Hnew) & ND & HR). split.
  - intros i j ki kj idi idj Hki Hkj Hii Hij.
    destruct (HR _ _ _ Hki Hii) as [P1 N1]. destruct (HR _ _ _ Hkj Hij) as [P2 N2].
    split.
    + intros <-. assert (Z.to_nat idi = Z.to_nat idj) by (eapply nodup_nth_inj; eauto). lia.
    + intros <-. congruence.
  - intros p i k id Hp Hk Hi.
    destruct (HR _ _ _ Hk Hi) as [P N].
    assert (nth_error (s ++ new) p = Some k).
    { rewrite nth_error_app1; auto. eapply nth_error_some_lt; eauto. }
    assert (Z.to_nat id = p) by (eapply nodup_nth_inj; eauto). lia.
Qed.

Lemma intern_ok_new_members s ks ids s' : intern_ok s ks ids s' ->
  exists new, s' = s ++ new /\ NoDup new /\ forall k, In k new <-> (In k ks /\ ~ In k s).
Proof.
  intros (HL & (new & -> & Hnew) & ND & HR). exists new. split; [reflexivity|].
  split; [eapply nodup_app_r; eauto|].
  intros k. split.
  - intros H. split; [auto|]. intros Hs. eapply nodup_app_disj; eauto.
  - intros [Hk Hs]. apply In_nth_error in Hk. destruct Hk as [i Hi].
    destruct (nth_error_lt_some ids i) as [id Hid].
    { rewrite HL. eapply nth_error_some_lt; eauto. }
    destruct (HR _ _ _ Hi Hid) as [_ N]. apply nth_error_In in N.
    apply in_app_or in N. destruct N; [contradiction|assumption].
Qed.

Lemma new_ids_exactly_from_len s ks ids s' : intern_ok s ks ids s' ->
  (* every row whose key was not live gets an id in [len s, len s'), live keys get ids below *)
  (forall i k id, nth_error ks i = Some k -> nth_error ids i = Some id ->
     (~ In k s -> zlen s <= id < zlen s') /\ (In k s -> 0 <= id < zlen s)) /\
  (* every id in [len s, len s') is used by some row with a not-yet-live key *)
  (forall id, zlen s <= id < zlen s' ->
     exists i k, nth_error ks i = Some k /\ nth_error ids i = Some id /\ ~ In k s) /\
  (* the number of groups grows by the number of distinct not-yet-live keys in the batch *)
  zlen s' - zlen s = zlen (distinct_new s ks).
Proof.
  intros OK. pose proof OK as (HL & _ & ND & HR).
  destruct (intern_ok_new_members _ _ _ _ OK) as (new & -> & NDn & Hmem).
  split; [|split].
  - intros i k id Hk Hid. destruct (HR _ _ _ Hk Hid) as [P N]. split.
    + intros Hs. pose proof (nth_error_some_lt _ _ _ N) as Hlt.
      assert (~ (Z.to_nat id < length s)%nat).
      { intros Hlt'. rewrite nth_error_app1 in N by exact Hlt'. apply Hs. eapply nth_error_In; eauto. }
      unfold zlen. lia.
    + intros Hs. apply In_nth_error in Hs. destruct Hs as [p Hp].
      destruct (equal_keys_iff_equal_ids _ _ _ _ OK) as [_ Hlive].
      rewrite (Hlive _ _ _ _ Hp Hk Hid). apply nth_error_some_lt in Hp. unfold zlen. lia.
  - intros id Hid. pose proof (zlen_nonneg s) as Hs0.
    destruct (nth_error_lt_some (s ++ new) (Z.to_nat id)) as [k Hk]; [unfold zlen in Hid; lia|].
    assert (Hk' := Hk). rewrite nth_error_app2 in Hk' by (unfold zlen in Hid; lia).
    apply nth_error_In in Hk'. apply Hmem in Hk'. destruct Hk' as [Hks Hns].
    apply In_nth_error in Hks. destruct Hks as [i Hi].
    destruct (nth_error_lt_some ids i) as [id' Hid'].
    { rewrite HL. eapply nth_error_some_lt; eauto. }
    destruct (HR _ _ _ Hi Hid') as [P N].
    assert (Z.to_nat id' = Z.to_nat id) by (exact (nodup_nth_inj _ _ _ _ ND N Hk)).
    exists i, k. split; [exact Hi|]. split; [|exact Hns]. rewrite Hid'. f_equal. lia.
  - rewrite zlen_app. unfold distinct_new, zlen.
    assert (length new = length (nodup key_eq_dec (filter (is_new s) ks))); [|lia].
    apply Nat.le_antisymm; apply NoDup_incl_length; auto using NoDup_nodup.
    + intros k Hk. apply nodup_In. apply filter_In. apply Hmem in Hk. destruct Hk.
      split; [assumption|]. apply is_new_spec. assumption.
    + intros k Hk. apply nodup_In in Hk. apply filter_In in Hk. destruct Hk as [Hk Hn].
      apply Hmem. split; [assumption|]. apply is_new_spec. assumption.
Qed.

(* ================================================================== B. the checker *)
Definition pend_ok (s : spec) (pend : list (key * Z)) : Prop :=
  NoDup (map fst pend) /\ NoDup (map snd pend) /\
  forall k i, In (k, i) pend -> ~ In k s /\ zlen s <= i.

Lemma assoc_find_some k l i : assoc_find k l = Some i -> In (k, i) l.
Proof.
  induction l as [|[k' j] l IH]; cbn [assoc_find In]; [discriminate|].
  destruct (key_eqb k' k) eqn:E.
  - intros H. inversion H; subst. apply key_eqb_eq in E. subst. left. reflexivity.
  - intros H. right. auto.
Qed.

Lemma assoc_find_none k l : assoc_find k l = None -> ~ In k (map fst l).
Proof.
  induction l as [|[k' j] l IH]; cbn [assoc_find map fst In]; [auto|].
  destruct (key_eqb k' k) eqn:E; [discriminate|].
  apply key_eqb_neq in E. intros H [H'|H']; [contradiction|]. exact (IH H H').
Qed.

Lemma id_used_false i l : id_used i l = false -> ~ In i (map snd l).
Proof.
  induction l as [|[k' j] l IH]; cbn [id_used map snd In]; [auto|].
  intros H. apply orb_false_iff in H. destruct H as [H1 H2]. apply Z.eqb_neq in H1.
  intros [H'|H']; [congruence|]. exact (IH H2 H').
Qed.

Lemma key_of_id_some i l k : key_of_id i l = Some k -> In (k, i) l.
Proof.
  induction l as [|[k' j] l IH]; cbn [key_of_id In]; [discriminate|].
  destruct (i =? j) eqn:E.
  - intros H. inversion H; subst. apply Z.eqb_eq in E. subst. left. reflexivity.
  - intros H. right. auto.
Qed.

Lemma pend_ok_snoc s pend k i :
  pend_ok s pend -> ~ In k s -> zlen s <= i -> ~ In k (map fst pend) -> ~ In i (map snd pend) ->
  pend_ok s (pend ++ [(k, i)]).
Proof.
  intros (N1 & N2 & P) Hs Hi Hk Hu. unfold pend_ok. rewrite !map_app. cbn [map fst snd].
  split; [apply nodup_snoc; auto|]. split; [apply nodup_snoc; auto|].
  intros k' i' H. apply in_app_or in H. destruct H as [H|[H|[]]]; [auto|].
  inversion H; subst. auto.
Qed.

Lemma chk_rows_sound s : forall ks ids pend pend',
  pend_ok s pend -> chk_rows s pend ks ids = Some pend' ->
  length ids = length ks /\ pend_ok s pend' /\
  (exists ext, pend' = pend ++ ext /\ forall k i, In (k, i) ext -> In k ks) /\
  (forall r k id, nth_error ks r = Some k -> nth_error ids r = Some id ->
     find_idx k s 0 = Some id \/ (find_idx k s 0 = None /\ In (k, id) pend')).
Proof.
  induction ks as [|k kr IH]; intros [|i ir] pend pend' PO H; cbn [chk_rows] in H; try discriminate.
  - inversion H; subst. split; [reflexivity|]. split; [assumption|]. split.
    + exists []. rewrite app_nil_r. split; [reflexivity|]. intros ? ? [].
    + intros [|r] ? ? Hr; discriminate.
  - destruct (find_idx k s 0) as [j|] eqn:F.
    { destruct (i =? j) eqn:E; [|discriminate]. apply Z.eqb_eq in E. subst j.
      destruct (IH _ _ _ PO H) as (L & P & (ext & -> & X) & R).
      split; [cbn [length]; lia|]. split; [assumption|]. split.
      - exists ext. split; [reflexivity|]. intros ? ? Hin. right. eauto.
      - intros [|r] k' id' Hk Hi; cbn [nth_error] in Hk, Hi.
        + inversion Hk; inversion Hi; subst. left. assumption.
        + eauto. }
    destruct (assoc_find k pend) as [j|] eqn:AF.
    { destruct (i =? j) eqn:E; [|discriminate]. apply Z.eqb_eq in E. subst j.
      destruct (IH _ _ _ PO H) as (L & P & (ext & -> & X) & R).
      split; [cbn [length]; lia|]. split; [assumption|]. split.
      - exists ext. split; [reflexivity|]. intros ? ? Hin. right. eauto.
      - intros [|r] k' id' Hk Hi; cbn [nth_error] in Hk, Hi.
        + inversion Hk; inversion Hi; subst. right. split; [assumption|].
          apply in_or_app. left. apply assoc_find_some. assumption.
        + eauto. }
    destruct ((zlen s <=? i) && negb (id_used i pend)) eqn:C; [|discriminate].
    apply andb_true_iff in C. destruct C as [C1 C2]. apply Z.leb_le in C1.
    apply negb_true_iff in C2.
    assert (PO' : pend_ok s (pend ++ [(k, i)])).
    { apply pend_ok_snoc; auto.
      - apply find_idx_none in F. assumption.
      - apply assoc_find_none. assumption.
      - apply id_used_false. assumption. }
    destruct (IH _ _ _ PO' H) as (L & P & (ext & -> & X) & R).
    split; [cbn [length]; lia|]. split; [assumption|]. split.
    + exists ((k, i) :: ext). split; [rewrite <- app_assoc; reflexivity|].
      intros k' i' [Hin|Hin]; [inversion Hin; subst; left; reflexivity|right; eauto].
    + intros [|r] k' id' Hk Hi; cbn [nth_error] in Hk, Hi.
      * inversion Hk; inversion Hi; subst. right. split; [assumption|].
        apply in_or_app. left. apply in_or_app. right. left. reflexivity.
      * eauto.
Qed.

Lemma layout_sound pend : forall n base new, layout base n pend = Some new ->
  length new = n /\ forall j k, nth_error new j = Some k -> In (k, base + Z.of_nat j) pend.
Proof.
  induction n as [|n IH]; cbn [layout]; intros base new H.
  - inversion H; subst. split; [reflexivity|]. intros [|j] ? Hj; discriminate.
  - destruct (key_of_id base pend) as [k0|] eqn:K; [|discriminate].
    destruct (layout (base + 1) n pend) as [r|] eqn:L; [|discriminate].
    inversion H; subst. apply IH in L. destruct L as [L1 L2]. split; [cbn [length]; lia|].
    intros [|j] k' Hj; cbn [nth_error] in Hj.
    + inversion Hj; subst. rewrite Z.add_0_r. apply key_of_id_some. assumption.
    + apply L2 in Hj. replace (base + Z.of_nat (S j)) with (base + 1 + Z.of_nat j) by lia. assumption.
Qed.

(* the pending (key,id) pairs are laid out at exactly their ids *)
Lemma layout_positions (s : spec) pend new :
  NoDup (map snd pend) -> layout (zlen s) (length pend) pend = Some new ->
  length new = length pend /\
  (forall j k, nth_error new j = Some k -> In (k, zlen s + Z.of_nat j) pend) /\
  (forall k i, In (k, i) pend -> zlen s <= i /\ nth_error new (Z.to_nat (i - zlen s)) = Some k).
Proof.
  intros N2 L. apply layout_sound in L. destruct L as [LL LY].
  split; [assumption|]. split; [assumption|].
  set (f := fun j : nat => zlen s + Z.of_nat j).
  set (range := map f (seq 0 (length pend))).
  assert (NR : NoDup range).
  { apply Injective_map_NoDup; [|apply seq_NoDup]. intros a b. unfold f. lia. }
  assert (I1 : incl range (map snd pend)).
  { intros x Hx. apply in_map_iff in Hx. destruct Hx as (j & <- & Hj). apply in_seq in Hj.
    destruct (nth_error_lt_some new j) as [k' Hk']; [lia|].
    apply LY in Hk'. change (f j) with (snd (k', f j)). apply in_map. exact Hk'. }
  assert (I2 : incl (map snd pend) range).
  { apply NoDup_length_incl; auto. unfold range. rewrite !map_length, seq_length. lia. }
  intros k i Hin.
  assert (Hi : In i range). { apply I2. change i with (snd (k, i)). apply in_map. exact Hin. }
  apply in_map_iff in Hi. destruct Hi as (j & <- & Hj). apply in_seq in Hj. unfold f.
  split; [lia|].
  destruct (nth_error_lt_some new j) as [k' Hk']; [lia|].
  replace (Z.to_nat (zlen s + Z.of_nat j - zlen s)) with j by lia.
  rewrite Hk'. f_equal. apply LY in Hk'. eapply nodup_snd_inj; eauto.
Qed.

Lemma spec_intern_chk_sound s ks ids s' :
  NoDup s -> spec_intern_chk s ks ids = Some s' -> intern_ok s ks ids s'.
Proof.
  intros NDs H. unfold spec_intern_chk in H.
  destruct (chk_rows s [] ks ids) as [pend|] eqn:C; [|discriminate].
  destruct (layout (zlen s) (length pend) pend) as [new|] eqn:L; [|discriminate].
  inversion H; subst s'. clear H.
  assert (PO0 : pend_ok s []).
  { split; [constructor|]. split; [constructor|]. intros ? ? []. }
  destruct (chk_rows_sound _ _ _ _ _ PO0 C) as (HL & (N1 & N2 & PO) & (ext & E & X) & R).
  cbn [app] in E. subst ext.
  destruct (layout_positions _ _ _ N2 L) as (LL & LY & LP).
  split; [assumption|]. split; [|split].
  - exists new. split; [reflexivity|]. intros k Hk. apply In_nth_error in Hk. destruct Hk as [j Hj].
    apply LY in Hj. eauto.
  - apply nodup_app_intro; [assumption| |].
    + apply NoDup_nth_error. intros a b Ha Hab.
      destruct (nth_error_lt_some new a Ha) as [k Hk]. rewrite Hk in Hab. symmetry in Hab.
      apply LY in Hk. apply LY in Hab.
      assert (zlen s + Z.of_nat a = zlen s + Z.of_nat b) by (eapply nodup_fst_inj; eauto). lia.
    + intros x Hs Hn. apply In_nth_error in Hn. destruct Hn as [j Hj]. apply LY in Hj.
      apply PO in Hj. destruct Hj. contradiction.
  - intros i k id Hk Hid. destruct (R _ _ _ Hk Hid) as [F|[_ P]].
    + apply find_idx_some in F. destruct F as [F1 F2]. split; [assumption|].
      rewrite Z.sub_0_r in F2. rewrite nth_error_app1; [assumption|]. eapply nth_error_some_lt; eauto.
    + apply LP in P. destruct P as [P1 P2]. pose proof (zlen_nonneg s). split; [lia|].
      rewrite nth_error_app2 by (unfold zlen in *; lia).
      replace (Z.to_nat id - length s)%nat with (Z.to_nat (id - zlen s)) by (unfold zlen in *; lia).
      assumption.
Qed.

(* ---- completeness: the checker accepts every behaviour allowed by [intern_ok] *)
Lemma assoc_find_in k i l : NoDup (map fst l) -> In (k, i) l -> assoc_find k l = Some i.
Proof.
  intros ND H. destruct (assoc_find k l) as [j|] eqn:E.
  - apply assoc_find_some in E. f_equal. eapply nodup_fst_inj; eauto.
  - apply assoc_find_none in E. exfalso. apply E. change k with (fst (k, i)). apply in_map. exact H.
Qed.

Lemma key_of_id_in k i l : NoDup (map snd l) -> In (k, i) l -> key_of_id i l = Some k.
Proof.
  induction l as [|[k' j] l IH]; cbn [map snd In key_of_id]; intros ND H; [destruct H|].
  inversion ND as [|? ? Hj ND']; subst. destruct H as [H|H].
  - inversion H; subst. rewrite Z.eqb_refl. reflexivity.
  - destruct (i =? j) eqn:E; [|auto]. apply Z.eqb_eq in E. subst j. exfalso. apply Hj.
    change i with (snd (k, i)). apply in_map. exact H.
Qed.

Lemma id_used_true i l : id_used i l = true -> exists k, In (k, i) l.
Proof.
  induction l as [|[k' j] l IH]; cbn [id_used In]; [discriminate|].
  intros H. apply orb_true_iff in H. destruct H as [H|H].
  - apply Z.eqb_eq in H. subst. exists k'. left. reflexivity.
  - destruct (IH H) as [k Hk]. exists k. right. exact Hk.
Qed.

Definition pend_in (s s' : spec) (pend : list (key * Z)) : Prop :=
  forall k i, In (k, i) pend -> 0 <= i /\ nth_error s' (Z.to_nat i) = Some k /\ ~ In k s.

Lemma chk_rows_complete s new : NoDup (s ++ new) ->
  forall ks ids pend, length ids = length ks -> NoDup (map fst pend) -> pend_in s (s ++ new) pend ->
  (forall i k id, nth_error ks i = Some k -> nth_error ids i = Some id ->
     0 <= id /\ nth_error (s ++ new) (Z.to_nat id) = Some k) ->
  exists pend', chk_rows s pend ks ids = Some pend' /\ pend_in s (s ++ new) pend'.
Proof.
  intros ND. induction ks as [|k kr IH]; intros [|i ir] pend HL N1 PI HR; cbn [length] in HL;
    try discriminate; cbn [chk_rows].
  - eauto.
  - destruct (HR 0%nat k i eq_refl eq_refl) as [Hi Hn].
    assert (HR' : forall r k' id, nth_error kr r = Some k' -> nth_error ir r = Some id ->
              0 <= id /\ nth_error (s ++ new) (Z.to_nat id) = Some k').
    { intros r k' id Hk Hid. apply (HR (S r)); assumption. }
    assert (HL' : length ir = length kr) by lia.
    destruct (find_idx k s 0) as [j|] eqn:F.
    { apply find_idx_some in F. destruct F as [F1 F2]. rewrite Z.sub_0_r in F2.
      apply (nth_error_app_some _ new) in F2.
      assert (Z.to_nat i = Z.to_nat j) by (exact (nodup_nth_inj _ _ _ _ ND Hn F2)).
      replace j with i by lia. rewrite Z.eqb_refl. apply IH; assumption. }
    apply find_idx_none in F.
    destruct (assoc_find k pend) as [j|] eqn:AF.
    { apply assoc_find_some in AF. apply PI in AF. destruct AF as (A1 & A2 & _).
      assert (Z.to_nat i = Z.to_nat j) by (exact (nodup_nth_inj _ _ _ _ ND Hn A2)).
      replace j with i by lia. rewrite Z.eqb_refl. apply IH; assumption. }
    apply assoc_find_none in AF.
    assert (C1 : (zlen s <=? i) = true).
    { apply Z.leb_le. destruct (Z_lt_le_dec i (zlen s)) as [Hlt|Hge]; [|assumption].
      exfalso. apply F. rewrite nth_error_app1 in Hn by (unfold zlen in Hlt; lia).
      eapply nth_error_In; eauto. }
    assert (C2 : id_used i pend = false).
    { destruct (id_used i pend) eqn:E; [|reflexivity]. exfalso.
      apply id_used_true in E. destruct E as [k' Hk']. pose proof (PI _ _ Hk') as (_ & P2 & _).
      assert (k' = k) by congruence. subst k'. apply AF. change k with (fst (k, i)).
      apply in_map. exact Hk'. }
    rewrite C1, C2. cbn [andb negb]. apply IH; try assumption.
    + rewrite map_app. cbn [map fst]. apply nodup_snoc; assumption.
    + intros k' i' Hin. apply in_app_or in Hin. destruct Hin as [Hin|[Hin|[]]]; [auto|].
      inversion Hin; subst. auto.
Qed.

Lemma layout_complete pend : forall new base,
  (forall j k, nth_error new j = Some k -> key_of_id (base + Z.of_nat j) pend = Some k) ->
  layout base (length new) pend = Some new.
Proof.
  induction new as [|k r IH]; intros base H; cbn [length layout]; [reflexivity|].
  pose proof (H 0%nat k eq_refl) as H0. cbn [Z.of_nat] in H0. rewrite Z.add_0_r in H0. rewrite H0.
  rewrite IH; [reflexivity|]. intros j k' Hj.
  replace (base + 1 + Z.of_nat j) with (base + Z.of_nat (S j)) by lia. apply H. exact Hj.
Qed.

Lemma spec_intern_chk_complete s ks ids s' :
  NoDup s -> intern_ok s ks ids s' -> spec_intern_chk s ks ids = Some s'.
Proof.
  intros NDs OK. pose proof OK as (HL & _ & ND & HR).
  destruct (intern_ok_new_members _ _ _ _ OK) as (new & -> & NDn & Hmem).
  assert (PI0 : pend_in s (s ++ new) []) by (intros ? ? []).
  destruct (chk_rows_complete s new ND ks ids [] HL (NoDup_nil _) PI0 HR) as (pend & C & PI).
  assert (PO0 : pend_ok s []).
  { split; [constructor|]. split; [constructor|]. intros ? ? []. }
  destruct (chk_rows_sound _ _ _ _ _ PO0 C) as (_ & (N1 & N2 & PO) & _ & R).
  assert (K1 : forall k, In k (map fst pend) -> In k new).
  { intros k Hk. apply in_map_iff in Hk. destruct Hk as ([k' i] & <- & Hin). cbn [fst].
    apply PI in Hin. destruct Hin as (_ & P2 & P3). apply nth_error_In in P2.
    apply in_app_or in P2. destruct P2; [contradiction|assumption]. }
  assert (K2 : forall k, In k new -> In k (map fst pend)).
  { intros k Hk. apply Hmem in Hk. destruct Hk as [Hks Hns].
    apply In_nth_error in Hks. destruct Hks as [r Hr].
    destruct (nth_error_lt_some ids r) as [id Hid].
    { rewrite HL. eapply nth_error_some_lt; eauto. }
    destruct (R _ _ _ Hr Hid) as [F|[_ P]].
    - apply find_idx_some in F. destruct F as [_ F]. apply nth_error_In in F. contradiction.
    - change k with (fst (k, id)). apply in_map. exact P. }
  assert (LEN : length pend = length new).
  { rewrite <- (map_length fst pend). apply Nat.le_antisymm; apply NoDup_incl_length; auto. }
  unfold spec_intern_chk. rewrite C, LEN. rewrite layout_complete; [reflexivity|].
  intros j k Hj. assert (Hin := Hj). apply nth_error_In in Hin. apply K2 in Hin.
  apply in_map_iff in Hin. destruct Hin as ([k' i] & Hk' & Hin). cbn [fst] in Hk'. subst k'.
  pose proof (PI _ _ Hin) as (P1 & P2 & _).
  assert (P3 : nth_error (s ++ new) (length s + j) = Some k).
  { rewrite nth_error_app2 by lia. replace (length s + j - length s)%nat with j by lia. exact Hj. }
  assert (Z.to_nat i = (length s + j)%nat) by (exact (nodup_nth_inj _ _ _ _ ND P2 P3)).
  replace (zlen s + Z.of_nat j) with i by (unfold zlen; lia).
  apply key_of_id_in; assumption.
Qed.

Lemma spec_intern_chk_iff s ks ids s' :
  NoDup s -> (spec_intern_chk s ks ids = Some s' <-> intern_ok s ks ids s').
Proof.
  intros ND. split; [apply spec_intern_chk_sound|apply spec_intern_chk_complete]; assumption.
Qed.

(* ================================================================== C. deterministic behaviour *)
Lemma spec_intern1_ok s k s1 i : NoDup s -> spec_intern1 s k = (s1, i) ->
  NoDup s1 /\ 0 <= i /\ nth_error s1 (Z.to_nat i) = Some k /\
  exists new1, s1 = s ++ new1 /\ (forall x, In x new1 -> x = k) /\
               (~ In k s -> i = zlen s).
Proof.
  unfold spec_intern1. intros ND H. destruct (find_idx k s 0) as [j|] eqn:F; inversion H; subst.
  - apply find_idx_some in F. destruct F as [F1 F2]. rewrite Z.sub_0_r in F2.
    split; [assumption|]. split; [assumption|]. split; [assumption|].
    exists []. rewrite app_nil_r. split; [reflexivity|]. split; [intros ? []|].
    intros Hn. exfalso. apply Hn. eapply nth_error_In; eauto.
  - apply find_idx_none in F. split; [apply nodup_snoc; assumption|].
    split; [apply zlen_nonneg|]. split.
    + unfold zlen. rewrite Nat2Z.id. rewrite nth_error_app2 by lia. rewrite Nat.sub_diag. reflexivity.
    + exists [k]. split; [reflexivity|]. split; [|reflexivity]. intros x [<-|[]]. reflexivity.
Qed.

Lemma spec_intern_ok : forall ks s s' ids,
  NoDup s -> spec_intern s ks = (s', ids) -> intern_ok s ks ids s'.
Proof.
  induction ks as [|k r IH]; intros s s' ids ND H; cbn [spec_intern] in H.
  - inversion H; subst. split; [reflexivity|]. split.
    + exists []. rewrite app_nil_r. split; [reflexivity|]. intros ? [].
    + split; [assumption|]. intros [|] ? ? Hk; discriminate.
  - destruct (spec_intern1 s k) as [s1 i] eqn:E1. destruct (spec_intern s1 r) as [s2 ids'] eqn:E2.
    inversion H; subst. clear H.
    destruct (spec_intern1_ok _ _ _ _ ND E1) as (ND1 & Hi & Hn & new1 & -> & Hnew1 & _).
    destruct (IH _ _ _ ND1 E2) as (HL & (new2 & -> & Hnew2) & ND2 & HR).
    split; [cbn [length]; lia|]. split.
    + exists (new1 ++ new2). split; [rewrite app_assoc; reflexivity|].
      intros x Hx. apply in_app_or in Hx. destruct Hx as [Hx|Hx].
      * left. symmetry. auto.
      * right. auto.
    + split; [assumption|]. intros [|j] k' id Hk Hid; cbn [nth_error] in Hk, Hid.
      * inversion Hk; inversion Hid; subst. split; [assumption|]. apply nth_error_app_some. assumption.
      * eauto.
Qed.

(* first-seen order: among the keys that were not live, the one with the smaller id occurs in the
   batch before every occurrence of the one with the larger id *)
Lemma spec_intern_first_seen : forall ks s s' ids,
  NoDup s -> spec_intern s ks = (s', ids) ->
  forall i j ki kj idi idj,
    nth_error ks i = Some ki -> nth_error ids i = Some idi ->
    nth_error ks j = Some kj -> nth_error ids j = Some idj ->
    ~ In ki s -> ~ In kj s -> idi < idj ->
    exists i', nth_error ks i' = Some ki /\ forall j', nth_error ks j' = Some kj -> (i' < j')%nat.
Proof.
  induction ks as [|k r IH]; intros s s' ids ND H i j ki kj idi idj Hki Hii Hkj Hij Nki Nkj Hlt.
  { destruct i; discriminate. }
  pose proof (spec_intern_ok _ _ _ _ ND H) as OK.
  destruct (equal_keys_iff_equal_ids _ _ _ _ OK) as [Heq _].
  destruct (new_ids_exactly_from_len _ _ _ _ OK) as [Hrange _].
  destruct (key_eq_dec ki k) as [->|Nik].
  - exists 0%nat. split; [reflexivity|]. intros [|j'] Hj'; [|lia].
    cbn [nth_error] in Hj'. inversion Hj'; subst kj.
    assert (idi = idj) by (apply (Heq i j k k idi idj); auto). lia.
  - destruct i as [|i0]; [cbn [nth_error] in Hki; inversion Hki; congruence|].
    cbn [spec_intern] in H.
    destruct (spec_intern1 s k) as [s1 id0] eqn:E1. destruct (spec_intern s1 r) as [s2 ids'] eqn:E2.
    inversion H; subst s' ids. clear H.
    destruct (spec_intern1_ok _ _ _ _ ND E1) as (ND1 & _ & _ & new1 & -> & Hnew1 & Hid0).
    destruct (key_eq_dec kj k) as [->|Njk].
    + exfalso.
      assert (idj = id0) by (apply (Heq j 0%nat k k idj id0); auto).
      rewrite (Hid0 Nkj) in *.
      destruct (Hrange _ _ _ Hki Hii) as [Hr _]. specialize (Hr Nki). lia.
    + destruct j as [|j0]; [cbn [nth_error] in Hkj; inversion Hkj; congruence|].
      cbn [nth_error] in Hki, Hii, Hkj, Hij.
      assert (Nki1 : ~ In ki (s ++ new1)).
      { intros Hin. apply in_app_or in Hin. destruct Hin as [Hin|Hin]; [contradiction|].
        apply Hnew1 in Hin. contradiction. }
      assert (Nkj1 : ~ In kj (s ++ new1)).
      { intros Hin. apply in_app_or in Hin. destruct Hin as [Hin|Hin]; [contradiction|].
        apply Hnew1 in Hin. contradiction. }
      destruct (IH _ _ _ ND1 E2 _ _ _ _ _ _ Hki Hii Hkj Hij Nki1 Nkj1 Hlt) as (i' & Hi' & Hall).
      exists (S i'). split; [exact Hi'|]. intros [|j'] Hj'; cbn [nth_error] in Hj'.
      * inversion Hj'. congruence.
      * apply Hall in Hj'. lia.
Qed.

Lemma spec_intern_allowed s ks : NoDup s ->
  let '(s', ids) := spec_intern s ks in
  intern_ok s ks ids s' /\
  forall i j ki kj idi idj,
    nth_error ks i = Some ki -> nth_error ids i = Some idi ->
    nth_error ks j = Some kj -> nth_error ids j = Some idj ->
    ~ In ki s -> ~ In kj s -> idi < idj ->
    exists i', nth_error ks i' = Some ki /\ forall j', nth_error ks j' = Some kj -> (i' < j')%nat.
Proof.
  intros ND. destruct (spec_intern s ks) as [s' ids] eqn:E. split.
  - eapply spec_intern_ok; eauto.
  - eapply spec_intern_first_seen; eauto.
Qed.

(* ================================================================== D. histories on the spec *)
Definition live_inv (s : spec) : Prop := NoDup s.
Definition out_len (x : out) : Z := match x with OIds _ l => l | OEmit _ l => l | OClear l => l end.

Lemma nodup_skipn {A} n (l : list A) : NoDup l -> NoDup (skipn n l).
Proof. intros H. rewrite <- (firstn_skipn n l) in H. eapply nodup_app_r; eauto. Qed.

Lemma spec_step_inv s o : live_inv s -> live_inv (fst (spec_step s o)).
Proof.
  unfold live_inv. destruct o as [ks| |n|]; cbn [spec_step]; intros ND.
  - destruct (spec_intern s ks) as [s' ids] eqn:E. cbn [fst].
    apply spec_intern_ok in E; [|assumption]. apply E.
  - constructor.
  - cbn [fst]. apply nodup_skipn. assumption.
  - constructor.
Qed.

Lemma spec_run_inv ops : forall s, live_inv s -> live_inv (fst (run spec_step s ops)).
Proof.
  induction ops as [|o r IH]; intros s ND; cbn [run]; [exact ND|].
  pose proof (spec_step_inv s o ND) as H1.
  destruct (spec_step s o) as [s1 x]. cbn [fst] in H1.
  specialize (IH s1 H1). destruct (run spec_step s1 r) as [s2 xs]. exact IH.
Qed.

Lemma emit_first_spec s n s' ks len :
  0 <= n <= zlen s -> spec_step s (EmitFirst n) = (s', OEmit ks len) ->
  s = ks ++ s' /\ zlen ks = n /\
  (forall id, 0 <= id < n -> nth_error ks (Z.to_nat id) = nth_error s (Z.to_nat id)) /\
  (forall id, n <= id -> nth_error s' (Z.to_nat (id - n)) = nth_error s (Z.to_nat id)) /\
  len = zlen s' /\ zlen s' = zlen s - n.
Proof.
  intros Hn H. cbn [spec_step] in H. inversion H; subst. clear H.
  pose proof (firstn_skipn (Z.to_nat n) s) as E.
  assert (La : length (firstn (Z.to_nat n) s) = Z.to_nat n).
  { apply firstn_length_le. unfold zlen in Hn. lia. }
  set (a := firstn (Z.to_nat n) s) in *. set (b := skipn (Z.to_nat n) s) in *.
  split; [symmetry; exact E|]. split; [unfold zlen; lia|]. split; [|split; [|split]].
  - intros id Hid. rewrite <- E. rewrite nth_error_app1 by lia. reflexivity.
  - intros id Hid. rewrite <- E. rewrite nth_error_app2 by lia. f_equal. lia.
  - reflexivity.
  - rewrite <- E. rewrite zlen_app. unfold zlen at 2. lia.
Qed.

Lemma emit_all_spec s : spec_step s EmitAll = ([], OEmit s 0).
Proof. reflexivity. Qed.

Lemma clear_spec s : spec_step s Clear = ([], OClear 0).
Proof. reflexivity. Qed.

Lemma spec_len_reported s o : out_len (snd (spec_step s o)) = zlen (fst (spec_step s o)).
Proof.
  destruct o as [ks| |n|]; cbn [spec_step]; try reflexivity.
  destruct (spec_intern s ks) as [s' ids]. reflexivity.
Qed.

(* after ANY history from the empty store, the next operation leaves a duplicate-free store and
   reports as length the number of distinct live keys *)
Lemma spec_history_len ops o :
  let s := fst (run spec_step [] ops) in
  let s' := fst (spec_step s o) in
  live_inv s /\ live_inv s' /\ out_len (snd (spec_step s o)) = zlen s' /\
  zlen s' = zlen (nodup key_eq_dec s').
Proof.
  intros s s'. assert (ND : live_inv s) by (apply spec_run_inv; constructor).
  assert (ND' : live_inv s') by (apply spec_step_inv; exact ND).
  split; [exact ND|]. split; [exact ND'|]. split; [apply spec_len_reported|].
  rewrite nodup_fixed_point by exact ND'. reflexivity.
Qed.

(* ---- the history checker [spec_chk_run] decides "every step is allowed by the specification" *)
Definition step_allowed (s : spec) (o : op) (x : out) (s' : spec) : Prop :=
  match o with
  | Intern ks => exists ids, x = OIds ids (zlen s') /\ intern_ok s ks ids s'
  | _ => spec_step s o = (s', x)
  end.

Inductive hist_allowed : spec -> list op -> list out -> Prop :=
  | hist_nil s : hist_allowed s [] []
  | hist_cons s o x s' r xr :
      step_allowed s o x s' -> hist_allowed s' r xr -> hist_allowed s (o :: r) (x :: xr).

Lemma keys_eqb_eq a b : list_eqb key_eqb a b = true <-> a = b.
Proof. apply list_eqb_eq. exact key_eqb_eq. Qed.

Lemma spec_chk_step_iff s o x s' :
  NoDup s -> (spec_chk_step s o x = Some s' <-> step_allowed s o x s').
Proof.
  intros ND. destruct o as [ks| |n|]; cbn [spec_chk_step step_allowed spec_step].
  - destruct x as [ids len|keys len|len]; try (split; [discriminate|intros (? & ? & _); discriminate]).
    split.
    + destruct (spec_intern_chk s ks ids) as [s1|] eqn:E; [|discriminate].
      destruct (len =? zlen s1) eqn:El; [|discriminate]. intros H. inversion H; subst s1.
      apply Z.eqb_eq in El. subst len. exists ids. split; [reflexivity|].
      apply spec_intern_chk_sound; assumption.
    + intros (ids' & Hx & OK). inversion Hx; subst ids' len.
      rewrite (spec_intern_chk_complete _ _ _ _ ND OK). rewrite Z.eqb_refl. reflexivity.
  - destruct x as [ids len|keys len|len]; try (split; [discriminate|intros H; inversion H]).
    + destruct (list_eqb key_eqb s keys && (0 =? len)) eqn:E.
      * apply andb_true_iff in E. destruct E as [E1 E2]. apply keys_eqb_eq in E1.
        apply Z.eqb_eq in E2. subst. split; intros H; inversion H; reflexivity.
      * split; [discriminate|]. intros H. inversion H; subst.
        rewrite (proj2 (keys_eqb_eq keys keys) eq_refl) in E. discriminate.
  - destruct x as [ids len|keys len|len]; try (split; [discriminate|intros H; inversion H]).
    + destruct (list_eqb key_eqb (firstn (Z.to_nat n) s) keys &&
                (zlen (skipn (Z.to_nat n) s) =? len)) eqn:E.
      * apply andb_true_iff in E. destruct E as [E1 E2]. apply keys_eqb_eq in E1.
        apply Z.eqb_eq in E2. subst. split; intros H; inversion H; reflexivity.
      * split; [discriminate|]. intros H. inversion H; subst.
        rewrite (proj2 (keys_eqb_eq _ _) eq_refl), Z.eqb_refl in E. discriminate.
  - destruct x as [ids len|keys len|len]; try (split; [discriminate|intros H; inversion H]).
    + destruct (0 =? len) eqn:E.
      * apply Z.eqb_eq in E. subst. split; intros H; inversion H; reflexivity.
      * split; [discriminate|]. intros H. inversion H; subst. discriminate.
Qed.

Lemma step_allowed_inv s o x s' : NoDup s -> step_allowed s o x s' -> NoDup s'.
Proof.
  intros ND H. destruct o as [ks| |n|]; cbn [step_allowed] in H.
  - destruct H as (ids & _ & OK). apply OK.
  - pose proof (spec_step_inv s EmitAll ND) as H1. rewrite H in H1. exact H1.
  - pose proof (spec_step_inv s (EmitFirst n) ND) as H1. rewrite H in H1. exact H1.
  - pose proof (spec_step_inv s Clear ND) as H1. rewrite H in H1. exact H1.
Qed.

Lemma spec_chk_run_iff : forall ops obs s,
  NoDup s -> (spec_chk_run s ops obs = true <-> hist_allowed s ops obs).
Proof.
  induction ops as [|o r IH]; intros [|x xr] s ND; cbn [spec_chk_run].
  - split; [constructor|reflexivity].
  - split; [discriminate|intros H; inversion H].
  - split; [discriminate|intros H; inversion H].
  - split.
    + destruct (spec_chk_step s o x) as [s1|] eqn:E; [|discriminate]. intros H.
      apply spec_chk_step_iff in E; [|assumption].
      econstructor; [exact E|]. apply IH; [|assumption]. eapply step_allowed_inv; eauto.
    + intros H. inversion H as [|? ? ? s1 ? ? SA HA]; subst.
      rewrite (proj2 (spec_chk_step_iff _ _ _ _ ND) SA). apply IH; [|assumption].
      eapply step_allowed_inv; eauto.
Qed.

(* the deterministic specification run is itself accepted by the checker *)
Lemma spec_step_allowed s o : NoDup s ->
  step_allowed s o (snd (spec_step s o)) (fst (spec_step s o)).
Proof.
  intros ND. destruct o as [ks| |n|]; cbn [step_allowed]; try reflexivity.
  cbn [spec_step]. destruct (spec_intern s ks) as [s' ids] eqn:E. cbn [fst snd].
  exists ids. split; [reflexivity|]. eapply spec_intern_ok; eauto.
Qed.

Lemma spec_run_accepted : forall ops s, NoDup s ->
  spec_chk_run s ops (snd (run spec_step s ops)) = true.
Proof.
  induction ops as [|o r IH]; intros s ND; cbn [run]; [reflexivity|].
  pose proof (spec_step_allowed s o ND) as SA. pose proof (spec_step_inv s o ND) as ND1.
  destruct (spec_step s o) as [s1 x]. cbn [fst snd] in *.
  specialize (IH s1 ND1). destruct (run spec_step s1 r) as [s2 xs]. cbn [snd] in *.
  cbn [spec_chk_run]. rewrite (proj2 (spec_chk_step_iff _ _ _ _ ND) SA). exact IH.
Qed.

(* ================================================================== E. refinement *)
(* preconditions on operations *)
Definition emit_pre (len : Z) (o : op) : Prop :=
  match o with EmitFirst n => 0 <= n <= len | _ => True end.
Definition keys_pre (P : key -> Prop) (o : op) : Prop :=
  match o with Intern ks => Forall P ks | _ => True end.
Definition single_col (k : key) : Prop := length k = 1%nat.
Definition bool_key (k : key) : Prop := k = [None] \/ k = [Some 0] \/ k = [Some 1].

Lemma single_col_keys ks : Forall single_col ks -> map (fun v => [v]) (map key1 ks) = ks.
Proof.
  induction 1 as [|k r Hk _ IH]; cbn [map]; [reflexivity|]. rewrite IH. f_equal.
  destruct k as [|v [|w t]]; cbn in Hk; try discriminate. reflexivity.
Qed.

(* ------------------------------------------------------------------ E1. GroupValuesPrimitive *)
Definition prim_abs (p : prim) : spec := build_primitive (pvalues p) (pnull p).
Definition plen (p : prim) : Z := zlen (pvalues p).

Definition prim_inv (p : prim) : Prop :=
  (forall g, pnull p = Some g -> 0 <= g < plen p) /\
  NoDup (pmap p) /\
  (forall g, In g (pmap p) <-> (0 <= g < plen p /\ pnull p <> Some g)) /\
  NoDup (prim_abs p).

Lemma build_from_length vals nu : forall i, length (build_from i vals nu) = length vals.
Proof. induction vals as [|v r IH]; intros i; cbn [build_from length]; auto. Qed.

Lemma build_from_nth vals nu : forall i j,
  nth_error (build_from i vals nu) j =
  match nth_error vals j with
  | Some v => Some (if zopt_eqb nu (Some (i + Z.of_nat j)) then [None] else [Some v])
  | None => None
  end.
Proof.
  induction vals as [|v r IH]; intros i [|j]; cbn [build_from nth_error]; try reflexivity.
  - rewrite Z.add_0_r. reflexivity.
  - rewrite IH. replace (i + 1 + Z.of_nat j) with (i + Z.of_nat (S j)) by lia. reflexivity.
Qed.

Lemma build_from_ext vals : forall i i' nu nu',
  (forall j, (j < length vals)%nat ->
     zopt_eqb nu (Some (i + Z.of_nat j)) = zopt_eqb nu' (Some (i' + Z.of_nat j))) ->
  build_from i vals nu = build_from i' vals nu'.
Proof.
  induction vals as [|v r IH]; intros i i' nu nu' H; cbn [build_from]; [reflexivity|]. f_equal.
  - pose proof (H 0%nat) as H0. cbn [length Z.of_nat] in H0. rewrite !Z.add_0_r in H0.
    rewrite H0 by lia. reflexivity.
  - apply IH. intros j Hj. pose proof (H (S j)) as HS. cbn [length] in HS.
    replace (i + 1 + Z.of_nat j) with (i + Z.of_nat (S j)) by lia.
    replace (i' + 1 + Z.of_nat j) with (i' + Z.of_nat (S j)) by lia.
    apply HS. lia.
Qed.

Lemma build_from_snoc vals x nu : forall i,
  build_from i (vals ++ [x]) nu =
  build_from i vals nu ++ [if zopt_eqb nu (Some (i + zlen vals)) then [None] else [Some x]].
Proof.
  induction vals as [|v r IH]; intros i; cbn [app build_from].
  - unfold zlen. cbn [length Z.of_nat]. rewrite Z.add_0_r. reflexivity.
  - rewrite IH. replace (i + 1 + zlen r) with (i + zlen (v :: r)) by (unfold zlen; cbn [length]; lia).
    reflexivity.
Qed.

Lemma build_from_firstn m : forall vals nu i,
  firstn m (build_from i vals nu) = build_from i (firstn m vals) nu.
Proof.
  induction m as [|m IH]; intros [|v r] nu i; cbn [firstn build_from]; try reflexivity.
  f_equal. apply IH.
Qed.

Lemma build_from_skipn m : forall vals nu i,
  skipn m (build_from i vals nu) = build_from (i + Z.of_nat m) (skipn m vals) nu.
Proof.
  induction m as [|m IH]; intros [|v r] nu i; cbn [skipn build_from]; try reflexivity.
  - rewrite Z.add_0_r. reflexivity.
  - rewrite IH. f_equal. lia.
Qed.

(* the abstraction, position by position *)
Lemma prim_abs_nth p j :
  nth_error (prim_abs p) j =
  match nth_error (pvalues p) j with
  | Some v => Some (if zopt_eqb (pnull p) (Some (Z.of_nat j)) then [None] else [Some v])
  | None => None
  end.
Proof. unfold prim_abs, build_primitive. rewrite build_from_nth. reflexivity. Qed.

Lemma prim_abs_len p : zlen (prim_abs p) = plen p.
Proof. unfold prim_abs, build_primitive, plen, zlen. rewrite build_from_length. reflexivity. Qed.

Lemma zopt_eqb_false a b : a <> b -> zopt_eqb a b = false.
Proof. intros H. destruct (zopt_eqb a b) eqn:E; [|reflexivity]. apply zopt_eqb_eq in E. contradiction. Qed.

Lemma zopt_eqb_refl a : zopt_eqb a a = true.
Proof. apply zopt_eqb_eq. reflexivity. Qed.

Lemma prim_inv_init : prim_inv prim_init.
Proof.
  unfold prim_inv, prim_init, plen, zlen. cbn.
  split; [intros ? H; discriminate|]. split; [constructor|]. split; [|constructor].
  intros g. split; [intros []|]. lia.
Qed.

Lemma retain_shift_in n l g : In g (retain_shift n l) <-> (0 <= g /\ In (g + n) l).
Proof.
  unfold retain_shift. rewrite in_flat_map. split.
  - intros (x & Hx & Hg). destruct (n <=? x) eqn:E; [|destruct Hg]. apply Z.leb_le in E.
    destruct Hg as [<-|[]]. split; [lia|]. replace (x - n + n) with x by lia. exact Hx.
  - intros [H0 Hin]. exists (g + n). split; [exact Hin|].
    destruct (n <=? g + n) eqn:E; [left; lia|]. apply Z.leb_gt in E. lia.
Qed.

Lemma retain_shift_nodup n l : NoDup l -> NoDup (retain_shift n l).
Proof.
  induction l as [|a l IH]; intros ND; [constructor|].
  inversion ND as [|? ? Ha ND']; subst.
  change (retain_shift n (a :: l)) with ((if n <=? a then [a - n] else []) ++ retain_shift n l).
  destruct (n <=? a) eqn:E; cbn [app]; [|auto].
  constructor; [|auto]. intros Hin. apply retain_shift_in in Hin.
  replace (a - n + n) with a in Hin by lia. tauto.
Qed.

(* values at non-null positions are pairwise distinct (consequence of the invariant) *)
Lemma prim_inv_values_distinct p : prim_inv p ->
  forall i j, In i (pmap p) -> In j (pmap p) ->
    znth (pvalues p) i = znth (pvalues p) j -> i = j.
Proof.
  intros (Hnull & NDm & Hmap & NDa) i j Hi Hj E.
  apply Hmap in Hi. apply Hmap in Hj. destruct Hi as [Ri Ni], Hj as [Rj Nj].
  unfold plen, zlen in Ri, Rj. unfold znth in E.
  assert (Z.to_nat i = Z.to_nat j); [|lia].
  eapply (nodup_nth_inj (prim_abs p)); [exact NDa| |].
  - rewrite prim_abs_nth. rewrite (nth_error_nth' _ 0) by lia.
    rewrite zopt_eqb_false; [reflexivity|]. rewrite Z2Nat.id by lia. exact Ni.
  - rewrite prim_abs_nth. rewrite (nth_error_nth' _ 0) by lia.
    rewrite zopt_eqb_false; [|rewrite Z2Nat.id by lia; exact Nj]. rewrite E. reflexivity.
Qed.

Lemma prim_intern1_refines p v p' i : prim_inv p -> prim_intern1 p v = (p', i) ->
  prim_inv p' /\ spec_intern1 (prim_abs p) [v] = (prim_abs p', i).
Proof.
  intros INV H. pose proof INV as (Hnull & NDm & Hmap & NDa).
  pose proof (prim_abs_len p) as HL.
  unfold prim_intern1 in H. destruct v as [k|].
  - (* non-null value *)
    destruct (find (fun g => znth (pvalues p) g =? k) (pmap p)) as [g|] eqn:F.
    + inversion H; subst p' i. clear H. split; [exact INV|].
      apply find_some in F. destruct F as [Hg Hv]. apply Z.eqb_eq in Hv.
      apply Hmap in Hg. destruct Hg as [Rg Ng]. unfold plen, zlen in Rg.
      assert (Hn : nth_error (prim_abs p) (Z.to_nat g) = Some [Some k]).
      { rewrite prim_abs_nth. rewrite (nth_error_nth' _ 0) by lia.
        rewrite zopt_eqb_false; [|rewrite Z2Nat.id by lia; exact Ng].
        unfold znth in Hv. rewrite Hv. reflexivity. }
      unfold spec_intern1. rewrite (find_idx_nodup _ _ NDa _ 0 Hn). f_equal. lia.
    + inversion H; subst p' i. clear H.
      assert (Hnot : ~ In [Some k] (prim_abs p)).
      { intros Hin. apply In_nth_error in Hin. destruct Hin as [j Hj].
        rewrite prim_abs_nth in Hj. destruct (nth_error (pvalues p) j) as [w|] eqn:Ew; [|discriminate].
        pose proof (nth_error_some_lt _ _ _ Ew) as Hlt.
        destruct (zopt_eqb (pnull p) (Some (Z.of_nat j))) eqn:Ez; [discriminate|].
        inversion Hj; subst w.
        assert (Hin : In (Z.of_nat j) (pmap p)).
        { apply Hmap. split; [unfold plen, zlen; lia|]. intros Hc.
          rewrite Hc, zopt_eqb_refl in Ez. discriminate. }
        pose proof (find_none _ _ F _ Hin) as Hf. cbn beta in Hf. apply Z.eqb_neq in Hf.
        apply Hf. unfold znth. rewrite Nat2Z.id. apply nth_error_nth. exact Ew. }
      assert (Hnn : pnull p <> Some (zlen (pvalues p))).
      { intros Hc. apply Hnull in Hc. unfold plen in Hc. lia. }
      assert (Habs : prim_abs {| pvalues := pvalues p ++ [k]; pnull := pnull p;
                                 pmap := pmap p ++ [zlen (pvalues p)] |} = prim_abs p ++ [[Some k]]).
      { unfold prim_abs, build_primitive. cbn [pvalues pnull]. rewrite build_from_snoc.
        rewrite Z.add_0_l. rewrite zopt_eqb_false by exact Hnn. reflexivity. }
      split.
      * unfold prim_inv. rewrite Habs. unfold plen. cbn [pvalues pnull pmap].
        rewrite zlen_app. change (zlen [k]) with 1. fold (plen p).
        split; [intros g Hg; apply Hnull in Hg; lia|].
        split; [apply nodup_snoc; [exact NDm|]; intros Hc; apply Hmap in Hc; unfold plen in Hc; lia|].
        split; [|apply nodup_snoc; assumption].
        intros g. rewrite in_app_iff, Hmap. cbn [In]. unfold plen in *. split.
        -- pose proof (zlen_nonneg (pvalues p)). intros [[R N]|[<-|[]]]; (split; [lia|assumption]).
        -- intros [R N]. destruct (Z.eq_dec g (zlen (pvalues p))); [right; left; lia|left; split; [lia|assumption]].
      * unfold spec_intern1. rewrite (proj2 (find_idx_none _ _ 0) Hnot). rewrite Habs, HL. reflexivity.
  - (* NULL *)
    destruct (pnull p) as [g|] eqn:En.
    + inversion H; subst p' i. clear H. split; [exact INV|].
      pose proof (Hnull _ eq_refl) as Rg. unfold plen, zlen in Rg.
      assert (Hn : nth_error (prim_abs p) (Z.to_nat g) = Some [None]).
      { rewrite prim_abs_nth. rewrite (nth_error_nth' _ 0) by lia.
        rewrite En. rewrite Z2Nat.id by lia. rewrite zopt_eqb_refl. reflexivity. }
      unfold spec_intern1. rewrite (find_idx_nodup _ _ NDa _ 0 Hn). f_equal. lia.
    + inversion H; subst p' i. clear H.
      assert (Hnot : ~ In [None] (prim_abs p)).
      { intros Hin. apply In_nth_error in Hin. destruct Hin as [j Hj].
        rewrite prim_abs_nth in Hj. destruct (nth_error (pvalues p) j) as [w|]; [|discriminate].
        rewrite En in Hj. cbn in Hj. discriminate. }
      assert (Habs : prim_abs {| pvalues := pvalues p ++ [0]; pnull := Some (zlen (pvalues p));
                                 pmap := pmap p |} = prim_abs p ++ [[None]]).
      { unfold prim_abs, build_primitive. cbn [pvalues pnull]. rewrite build_from_snoc.
        rewrite Z.add_0_l, zopt_eqb_refl. f_equal. rewrite En. apply build_from_ext.
        intros j Hj. unfold zopt_eqb, opt_eqb. apply Z.eqb_neq. unfold zlen. lia. }
      split.
      * unfold prim_inv. rewrite Habs. unfold plen. cbn [pvalues pnull pmap].
        rewrite zlen_app. change (zlen [0]) with 1. fold (plen p).
        pose proof (zlen_nonneg (pvalues p)) as H0. fold (plen p) in H0.
        split; [intros g Hg; inversion Hg; subst; unfold plen in *; lia|].
        split; [exact NDm|]. split; [|apply nodup_snoc; assumption].
        intros g. rewrite Hmap. fold (plen p). split.
        -- intros [R N]. split; [lia|]. intros Hc. inversion Hc. lia.
        -- intros [R N]. split; [|discriminate].
           assert (g <> plen p) by (intros ->; apply N; reflexivity). lia.
      * unfold spec_intern1. rewrite (proj2 (find_idx_none _ _ 0) Hnot). rewrite Habs, HL. reflexivity.
Qed.

Lemma prim_intern_refines : forall vs p p' ids, prim_inv p -> prim_intern p vs = (p', ids) ->
  prim_inv p' /\ spec_intern (prim_abs p) (map (fun v => [v]) vs) = (prim_abs p', ids).
Proof.
  induction vs as [|v r IH]; intros p p' ids INV H; cbn [prim_intern map spec_intern] in *.
  - inversion H; subst. split; [assumption|reflexivity].
  - destruct (prim_intern1 p v) as [p1 i] eqn:E1. destruct (prim_intern p1 r) as [p2 ids'] eqn:E2.
    inversion H; subst. clear H.
    destruct (prim_intern1_refines _ _ _ _ INV E1) as [INV1 S1].
    destruct (IH _ _ _ INV1 E2) as [INV2 S2].
    split; [assumption|]. rewrite S1, S2. reflexivity.
Qed.

Lemma prim_step_refines p o p' x :
  prim_inv p -> emit_pre (plen p) o -> keys_pre single_col o -> prim_step p o = (p', x) ->
  prim_inv p' /\ spec_step (prim_abs p) o = (prim_abs p', x).
Proof.
  intros INV PRE KP H. pose proof INV as (Hnull & NDm & Hmap & NDa).
  destruct o as [ks| |n|]; cbn [prim_step spec_step emit_pre keys_pre] in *.
  - destruct (prim_intern p (map key1 ks)) as [p1 ids] eqn:E. inversion H; subst. clear H.
    destruct (prim_intern_refines _ _ _ _ INV E) as [INV1 S1].
    rewrite (single_col_keys _ KP) in S1. split; [assumption|].
    rewrite S1. rewrite prim_abs_len. reflexivity.
  - inversion H; subst. split; [exact prim_inv_init|]. reflexivity.
  - set (m := Z.to_nat n) in *.
    assert (Hm : (m <= length (pvalues p))%nat) by (unfold plen, zlen in PRE; lia).
    assert (Lf : length (firstn m (pvalues p)) = m) by (apply firstn_length_le; exact Hm).
    assert (Ls : zlen (skipn m (pvalues p)) = plen p - n).
    { unfold zlen, plen. rewrite skipn_length. unfold zlen. lia. }
    destruct (pnull p) as [v|] eqn:En.
    + pose proof (Hnull _ eq_refl) as Rv.
      destruct (n <=? v) eqn:Env.
      * apply Z.leb_le in Env. inversion H; subst p' x. clear H.
        assert (Habs : prim_abs {| pvalues := skipn m (pvalues p); pnull := Some (v - n);
                                   pmap := retain_shift n (pmap p) |} = skipn m (prim_abs p)).
        { unfold prim_abs, build_primitive. cbn [pvalues pnull]. rewrite build_from_skipn, En.
          apply build_from_ext. intros j Hj. cbn.
          destruct (v - n =? 0 + Z.of_nat j) eqn:E1; destruct (v =? 0 + Z.of_nat m + Z.of_nat j) eqn:E2;
            try reflexivity; rewrite ?Z.eqb_eq, ?Z.eqb_neq in *; lia. }
        split.
        -- unfold prim_inv. rewrite Habs. unfold plen. cbn [pvalues pnull pmap]. rewrite Ls.
           split; [intros g Hg; inversion Hg; lia|].
           split; [apply retain_shift_nodup; exact NDm|].
           split; [|apply nodup_skipn; exact NDa].
           intros g. rewrite retain_shift_in, Hmap. split.
           ++ intros (G0 & R & N). split; [lia|]. intros Hc. inversion Hc. apply N. f_equal. lia.
           ++ intros (R & N). split; [lia|]. split; [lia|]. intros Hc. inversion Hc. apply N. f_equal. lia.
        -- rewrite Habs. f_equal. f_equal.
           ++ unfold prim_abs, build_primitive. rewrite build_from_firstn, En.
              apply build_from_ext. intros j Hj. rewrite Lf in Hj. cbn.
              apply Z.eqb_neq. lia.
           ++ unfold prim_abs, build_primitive, zlen. rewrite !skipn_length, build_from_length. reflexivity.
      * apply Z.leb_gt in Env. inversion H; subst p' x. clear H.
        assert (Habs : prim_abs {| pvalues := skipn m (pvalues p); pnull := None;
                                   pmap := retain_shift n (pmap p) |} = skipn m (prim_abs p)).
        { unfold prim_abs, build_primitive. cbn [pvalues pnull]. rewrite build_from_skipn, En.
          apply build_from_ext. intros j Hj. cbn. symmetry. apply Z.eqb_neq. lia. }
        split.
        -- unfold prim_inv. rewrite Habs. unfold plen. cbn [pvalues pnull pmap]. rewrite Ls.
           split; [intros g Hg; discriminate|].
           split; [apply retain_shift_nodup; exact NDm|].
           split; [|apply nodup_skipn; exact NDa].
           intros g. rewrite retain_shift_in, Hmap. split.
           ++ intros (G0 & R & N). split; [lia|]. discriminate.
           ++ intros (R & N). split; [lia|]. split; [lia|]. intros Hc. inversion Hc. lia.
        -- rewrite Habs. f_equal. f_equal.
           ++ unfold prim_abs, build_primitive. rewrite build_from_firstn, En. reflexivity.
           ++ unfold prim_abs, build_primitive, zlen. rewrite !skipn_length, build_from_length. reflexivity.
    + inversion H; subst p' x. clear H.
      assert (Habs : prim_abs {| pvalues := skipn m (pvalues p); pnull := None;
                                 pmap := retain_shift n (pmap p) |} = skipn m (prim_abs p)).
      { unfold prim_abs, build_primitive. cbn [pvalues pnull]. rewrite build_from_skipn, En.
        apply build_from_ext. intros j Hj. reflexivity. }
      split.
      * unfold prim_inv. rewrite Habs. unfold plen. cbn [pvalues pnull pmap]. rewrite Ls.
        split; [intros g Hg; discriminate|].
        split; [apply retain_shift_nodup; exact NDm|].
        split; [|apply nodup_skipn; exact NDa].
        intros g. rewrite retain_shift_in, Hmap. split.
        -- intros (G0 & R & N). split; [lia|]. discriminate.
        -- intros (R & N). split; [lia|]. split; [lia|]. discriminate.
      * rewrite Habs. f_equal. f_equal.
        -- unfold prim_abs, build_primitive. rewrite build_from_firstn, En. reflexivity.
        -- unfold prim_abs, build_primitive, zlen. rewrite !skipn_length, build_from_length. reflexivity.
  - inversion H; subst. split; [exact prim_inv_init|]. reflexivity.
Qed.

(* generic lifting of a one-step refinement to histories *)
Section Lift.
  Context {C : Type} (cstep : C -> op -> C * out) (clen : C -> Z)
          (abs : C -> spec) (inv : C -> Prop) (P : key -> Prop).
  Context (len_ok : forall c, inv c -> clen c = zlen (abs c)).
  Context (step_ok : forall c o c' x, inv c -> emit_pre (clen c) o -> keys_pre P o ->
             cstep c o = (c', x) -> inv c' /\ spec_step (abs c) o = (abs c', x)).

  Lemma emit_pre_dec len o :
    (match o with EmitFirst n => (0 <=? n) && (n <=? len) | _ => true end) = true <-> emit_pre len o.
  Proof.
    destruct o; cbn [emit_pre]; try tauto.
    rewrite andb_true_iff, !Z.leb_le. tauto.
  Qed.

  Lemma lift_run : forall ops c, inv c -> Forall (keys_pre P) ops ->
    ops_ok spec_step (@zlen key) (abs c) ops = true ->
    inv (fst (run cstep c ops)) /\
    abs (fst (run cstep c ops)) = fst (run spec_step (abs c) ops) /\
    snd (run cstep c ops) = snd (run spec_step (abs c) ops).
  Proof.
    induction ops as [|o r IH]; intros c INV KP OK; cbn [run ops_ok] in *.
    - auto.
    - apply andb_true_iff in OK. destruct OK as [OK1 OK2]. apply emit_pre_dec in OK1.
      rewrite <- (len_ok _ INV) in OK1. inversion KP as [|? ? KP1 KP2]; subst.
      destruct (cstep c o) as [c1 x] eqn:E1.
      destruct (step_ok _ _ _ _ INV OK1 KP1 E1) as [INV1 S1].
      rewrite S1 in *. cbn [fst] in OK2.
      destruct (IH _ INV1 KP2 OK2) as (I2 & A2 & O2).
      destruct (run cstep c1 r) as [c2 xs]. destruct (run spec_step (abs c1) r) as [s2 ys].
      cbn [fst snd] in *. split; [assumption|]. split; [assumption|]. f_equal. assumption.
  Qed.

  Lemma lift_ops_ok : forall ops c, inv c -> Forall (keys_pre P) ops ->
    ops_ok cstep clen c ops = ops_ok spec_step (@zlen key) (abs c) ops.
  Proof.
    induction ops as [|o r IH]; intros c INV KP; cbn [ops_ok]; [reflexivity|].
    inversion KP as [|? ? KP1 KP2]; subst. rewrite <- (len_ok _ INV).
    destruct (match o with EmitFirst n => (0 <=? n) && (n <=? clen c) | _ => true end) eqn:E;
      [|reflexivity].
    apply emit_pre_dec in E. cbn [andb].
    destruct (cstep c o) as [c1 x] eqn:E1.
    destruct (step_ok _ _ _ _ INV E KP1 E1) as [INV1 S1]. rewrite S1. cbn [fst].
    apply IH; assumption.
  Qed.
End Lift.

Lemma prim_refines_spec_gen ops p : prim_inv p -> Forall (keys_pre single_col) ops ->
  ops_ok spec_step (@zlen key) (prim_abs p) ops = true ->
  prim_inv (fst (run prim_step p ops)) /\
  prim_abs (fst (run prim_step p ops)) = fst (run spec_step (prim_abs p) ops) /\
  snd (run prim_step p ops) = snd (run spec_step (prim_abs p) ops).
Proof.
  apply (lift_run prim_step plen prim_abs prim_inv single_col).
  - intros c _. symmetry. apply prim_abs_len.
  - exact prim_step_refines.
Qed.

Lemma prim_refines_spec ops : Forall (keys_pre single_col) ops ->
  ops_ok spec_step (@zlen key) [] ops = true ->
  snd (run prim_step prim_init ops) = snd (run spec_step [] ops).
Proof.
  intros KP OK. apply (prim_refines_spec_gen ops prim_init prim_inv_init KP OK).
Qed.

(* the precondition may equivalently be checked against the implementation's own len() *)
Lemma prim_ops_ok_iff ops : Forall (keys_pre single_col) ops ->
  ops_ok prim_step plen prim_init ops = ops_ok spec_step (@zlen key) [] ops.
Proof.
  intros KP.
  apply (lift_ops_ok prim_step plen prim_abs prim_inv single_col); auto using prim_inv_init.
  - intros c _. symmetry. apply prim_abs_len.
  - exact prim_step_refines.
Qed.

(* ------------------------------------------------------------------ E2. GroupValuesBoolean *)
(* position i holds NULL / true / false according to which slot records index i *)
Definition bool_abs (b : boolst) : spec :=
  bool_build 0 (Z.to_nat (bool_len b)) (btrue b) (bnull b).

Definition olist (o : option Z) : list Z := match o with Some i => [i] | None => [] end.
Definition bslots (b : boolst) : list Z := olist (bfalse b) ++ olist (btrue b) ++ olist (bnull b).
(* the occupied slots hold pairwise distinct indices, all below the group count
   (hence exactly 0 .. len-1) *)
Definition bool_inv (b : boolst) : Prop :=
  NoDup (bslots b) /\ forall i, In i (bslots b) -> 0 <= i < bool_len b.

Definition mkb (f t n : option Z) : boolst := {| bfalse := f; btrue := t; bnull := n |}.
Definition bool_states : list boolst :=
  [ mkb None None None;
    mkb (Some 0) None None; mkb None (Some 0) None; mkb None None (Some 0);
    mkb (Some 0) (Some 1) None; mkb (Some 1) (Some 0) None;
    mkb (Some 0) None (Some 1); mkb (Some 1) None (Some 0);
    mkb None (Some 0) (Some 1); mkb None (Some 1) (Some 0);
    mkb (Some 0) (Some 1) (Some 2); mkb (Some 0) (Some 2) (Some 1);
    mkb (Some 1) (Some 0) (Some 2); mkb (Some 1) (Some 2) (Some 0);
    mkb (Some 2) (Some 0) (Some 1); mkb (Some 2) (Some 1) (Some 0) ].

Ltac in_states := cbn [In bool_states]; repeat (first [left; reflexivity | right]).
Ltac nodup_false ND :=
  exfalso; repeat rewrite NoDup_cons_iff in ND; cbn [In] in ND; intuition congruence.

Lemma bool_inv_enum b : bool_inv b -> In b bool_states.
Proof.
  destruct b as [[f|] [t|] [n|]]; unfold bool_inv, bslots, bool_len;
    cbn [bfalse btrue bnull olist app b2z]; intros [ND R]; fold (mkb None None None).
  - pose proof (R f ltac:(cbn [In]; tauto)) as Rf. pose proof (R t ltac:(cbn [In]; tauto)) as Rt.
    pose proof (R n ltac:(cbn [In]; tauto)) as Rn.
    assert (Hf : f = 0 \/ f = 1 \/ f = 2) by lia. assert (Ht : t = 0 \/ t = 1 \/ t = 2) by lia.
    assert (Hn : n = 0 \/ n = 1 \/ n = 2) by lia.
    destruct Hf as [->|[->| ->]], Ht as [->|[->| ->]], Hn as [->|[->| ->]];
      first [solve [in_states] | nodup_false ND].
  - pose proof (R f ltac:(cbn [In]; tauto)) as Rf. pose proof (R t ltac:(cbn [In]; tauto)) as Rt.
    assert (Hf : f = 0 \/ f = 1) by lia. assert (Ht : t = 0 \/ t = 1) by lia.
    destruct Hf as [->| ->], Ht as [->| ->]; first [solve [in_states] | nodup_false ND].
  - pose proof (R f ltac:(cbn [In]; tauto)) as Rf. pose proof (R n ltac:(cbn [In]; tauto)) as Rn.
    assert (Hf : f = 0 \/ f = 1) by lia. assert (Hn : n = 0 \/ n = 1) by lia.
    destruct Hf as [->| ->], Hn as [->| ->]; first [solve [in_states] | nodup_false ND].
  - pose proof (R f ltac:(cbn [In]; tauto)) as Rf. assert (f = 0) by lia. subst. in_states.
  - pose proof (R t ltac:(cbn [In]; tauto)) as Rt. pose proof (R n ltac:(cbn [In]; tauto)) as Rn.
    assert (Ht : t = 0 \/ t = 1) by lia. assert (Hn : n = 0 \/ n = 1) by lia.
    destruct Ht as [->| ->], Hn as [->| ->]; first [solve [in_states] | nodup_false ND].
  - pose proof (R t ltac:(cbn [In]; tauto)) as Rt. assert (t = 0) by lia. subst. in_states.
  - pose proof (R n ltac:(cbn [In]; tauto)) as Rn. assert (n = 0) by lia. subst. in_states.
  - in_states.
Qed.

Lemma bool_states_inv b : In b bool_states -> bool_inv b.
Proof.
  intros H. cbn [In bool_states] in H.
  repeat (destruct H as [<-|H]); try contradiction;
    (split; [cbn; repeat constructor; cbn [In]; intuition congruence
            | cbn; intros i Hi; intuition lia]).
Qed.

Lemma bool_inv_init : bool_inv bool_init.
Proof. apply bool_states_inv. in_states. Qed.

Lemma bool_build_length cnt tpos npos : forall i, length (bool_build i cnt tpos npos) = cnt.
Proof. induction cnt as [|c IH]; intros i; cbn [bool_build length]; auto. Qed.

Lemma bool_len_nonneg b : 0 <= bool_len b.
Proof. unfold bool_len, b2z. destruct (bfalse b), (btrue b), (bnull b); lia. Qed.

Lemma bool_abs_len b : zlen (bool_abs b) = bool_len b.
Proof.
  unfold bool_abs, zlen. rewrite bool_build_length. pose proof (bool_len_nonneg b). lia.
Qed.

(* what the abstraction says about each slot *)
Lemma bool_abs_slots b : bool_inv b ->
  (forall i, bfalse b = Some i -> nth_error (bool_abs b) (Z.to_nat i) = Some [Some 0]) /\
  (forall i, btrue b = Some i -> nth_error (bool_abs b) (Z.to_nat i) = Some [Some 1]) /\
  (forall i, bnull b = Some i -> nth_error (bool_abs b) (Z.to_nat i) = Some [None]).
Proof.
  intros INV. apply bool_inv_enum in INV. cbn [In bool_states] in INV.
  repeat (destruct INV as [<-|INV]); try contradiction;
    (split; [|split]); intros i Hi; cbn in Hi; inversion Hi; subst; reflexivity.
Qed.

Lemma bool_intern1_refines b v b' i :
  bool_inv b -> In v [None; Some 0; Some 1] -> bool_intern1 b v = (b', i) ->
  bool_inv b' /\ spec_intern1 (bool_abs b) [v] = (bool_abs b', i).
Proof.
  intros INV Hv H. apply bool_inv_enum in INV. cbn [In bool_states] in INV. cbn [In] in Hv.
  repeat (destruct INV as [<-|INV]); try contradiction;
    repeat (destruct Hv as [<-|Hv]); try contradiction;
    vm_compute in H; inversion H; subst b' i;
    (split; [apply bool_states_inv; in_states | vm_compute; reflexivity]).
Qed.

Lemma bool_key_key1 k : bool_key k -> In (key1 k) [None; Some 0; Some 1] /\ [key1 k] = k.
Proof. intros [->|[->| ->]]; cbn; tauto. Qed.

Lemma bool_intern_refines : forall ks b b' ids,
  bool_inv b -> Forall bool_key ks -> bool_intern b (map key1 ks) = (b', ids) ->
  bool_inv b' /\ spec_intern (bool_abs b) ks = (bool_abs b', ids).
Proof.
  induction ks as [|k r IH]; intros b b' ids INV KP H; cbn [bool_intern map spec_intern] in *.
  - inversion H; subst. split; [assumption|reflexivity].
  - inversion KP as [|? ? K1 K2]; subst. destruct (bool_key_key1 _ K1) as [Kin Keq].
    destruct (bool_intern1 b (key1 k)) as [b1 i] eqn:E1.
    destruct (bool_intern b1 (map key1 r)) as [b2 ids'] eqn:E2.
    inversion H; subst. clear H.
    destruct (bool_intern1_refines _ _ _ _ INV Kin E1) as [INV1 S1]. rewrite Keq in S1.
    destruct (IH _ _ _ INV1 K2 E2) as [INV2 S2].
    split; [assumption|]. rewrite S1, S2. reflexivity.
Qed.

Lemma bool_emit_refines b n b' ks :
  bool_inv b -> 0 <= n <= bool_len b -> bool_emit b n = (b', ks) ->
  bool_inv b' /\ ks = firstn (Z.to_nat n) (bool_abs b) /\
  bool_abs b' = skipn (Z.to_nat n) (bool_abs b).
Proof.
  intros INV Hn H. apply bool_inv_enum in INV. cbn [In bool_states] in INV.
  assert (Hc : n = 0 \/ n = 1 \/ n = 2 \/ n = 3).
  { pose proof (bool_len_nonneg b). assert (bool_len b <= 3); [|lia].
    unfold bool_len, b2z. destruct (bfalse b), (btrue b), (bnull b); lia. }
  repeat (destruct INV as [<-|INV]); try contradiction;
    destruct Hc as [->|[->|[->| ->]]];
    try (exfalso; vm_compute in Hn; destruct Hn as [H1 H2]; apply H2; reflexivity);
    vm_compute in H; inversion H; subst b' ks;
    (split; [apply bool_states_inv; in_states | split; vm_compute; reflexivity]).
Qed.

Lemma bool_step_refines b o b' x :
  bool_inv b -> emit_pre (bool_len b) o -> keys_pre bool_key o -> bool_step b o = (b', x) ->
  bool_inv b' /\ spec_step (bool_abs b) o = (bool_abs b', x).
Proof.
  intros INV PRE KP H.
  destruct o as [ks| |n|]; cbn [bool_step spec_step emit_pre keys_pre] in *.
  - destruct (bool_intern b (map key1 ks)) as [b1 ids] eqn:E. inversion H; subst. clear H.
    destruct (bool_intern_refines _ _ _ _ INV KP E) as [INV1 S1].
    split; [assumption|]. rewrite S1, bool_abs_len. reflexivity.
  - destruct (bool_emit b (bool_len b)) as [b1 ks] eqn:E. inversion H; subst. clear H.
    pose proof (bool_len_nonneg b) as H0.
    destruct (bool_emit_refines _ _ _ _ INV (conj H0 (Z.le_refl _)) E) as (INV1 & K & A).
    assert (Hlen : length (bool_abs b) = Z.to_nat (bool_len b)).
    { unfold bool_abs. apply bool_build_length. }
    rewrite <- Hlen in K, A. rewrite firstn_all in K. rewrite skipn_all in A.
    split; [assumption|]. rewrite A, K. rewrite <- bool_abs_len, A. reflexivity.
  - destruct (bool_emit b n) as [b1 ks] eqn:E. inversion H; subst. clear H.
    destruct (bool_emit_refines _ _ _ _ INV PRE E) as (INV1 & K & A).
    split; [assumption|]. rewrite <- A, <- K, bool_abs_len. reflexivity.
  - inversion H; subst. split; [exact bool_inv_init|]. reflexivity.
Qed.

Lemma bool_refines_spec_gen ops b : bool_inv b -> Forall (keys_pre bool_key) ops ->
  ops_ok spec_step (@zlen key) (bool_abs b) ops = true ->
  bool_inv (fst (run bool_step b ops)) /\
  bool_abs (fst (run bool_step b ops)) = fst (run spec_step (bool_abs b) ops) /\
  snd (run bool_step b ops) = snd (run spec_step (bool_abs b) ops).
Proof.
  apply (lift_run bool_step bool_len bool_abs bool_inv bool_key).
  - intros c _. symmetry. apply bool_abs_len.
  - exact bool_step_refines.
Qed.

Lemma bool_refines_spec ops : Forall (keys_pre bool_key) ops ->
  ops_ok spec_step (@zlen key) [] ops = true ->
  snd (run bool_step bool_init ops) = snd (run spec_step [] ops).
Proof.
  intros KP OK. apply (bool_refines_spec_gen ops bool_init bool_inv_init KP OK).
Qed.

Lemma bool_ops_ok_iff ops : Forall (keys_pre bool_key) ops ->
  ops_ok bool_step bool_len bool_init ops = ops_ok spec_step (@zlen key) [] ops.
Proof.
  intros KP.
  apply (lift_ops_ok bool_step bool_len bool_abs bool_inv bool_key); auto using bool_inv_init.
  - intros c _. symmetry. apply bool_abs_len.
  - exact bool_step_refines.
Qed.

(* ================================================================== F. the upstream defect *)
Definition stale_witness : list op :=
  [Intern [[Some 1]; [None]; [Some 2]]; Clear; Intern [[None]; [Some 7]]].

Lemma stale_clear_refuted :
  exists ops, Forall (keys_pre single_col) ops /\
    ops_ok spec_step (@zlen key) [] ops = true /\
    snd (run prim_step_stale_clear prim_init ops) <> snd (run spec_step [] ops).
Proof.
  exists stale_witness. split; [|split].
  - unfold stale_witness. repeat constructor.
  - vm_compute. reflexivity.
  - vm_compute. intros H. discriminate H.
Qed.
