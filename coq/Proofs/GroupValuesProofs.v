(* C13 -- proofs about Model/GroupValues.v (group-key interning).
   A. declarative meaning of one intern call ([intern_ok]) and its consequences
   B. the relational checker [spec_intern_chk] decides exactly [intern_ok]
   C. the deterministic [spec_intern] is one behaviour allowed by [intern_ok] (first-seen order)
   D. whole histories on the specification
   E. GroupValuesPrimitive / GroupValuesBoolean models refine the specification on all histories
   F. the stale-null_group clear (upstream defect) does not *)
From Coq Require Import List ZArith Bool Lia FinFun.
From DF Require Import Base.Prelude Model.GroupValues.
Import ListNotations.
Open Scope Z_scope.

(* ------------------------------------------------------------------ generic list facts *)
Lemma nodup_nth_inj {A} (l : list A) a b k :
  NoDup l -> nth_error l a = Some k -> nth_error l b = Some k -> a = b.
Proof.
  intros ND Ha Hb. rewrite NoDup_nth_error in ND. apply ND.
  - apply nth_error_Some. congruence.
  - congruence.
Qed.

Lemma nodup_app_disj {A} (a b : list A) x : NoDup (a ++ b) -> In x a -> In x b -> False.
Proof.
  induction a as [|y a IH]; cbn [app In]; intros ND Ha Hb; [exact Ha|].
  inversion ND as [|? ? Hy ND']; subst. destruct Ha as [->|Ha].
  - apply Hy. apply in_or_app. right. exact Hb.
  - exact (IH ND' Ha Hb).
Qed.

Lemma nodup_app_intro {A} (a b : list A) :
  NoDup a -> NoDup b -> (forall x, In x a -> In x b -> False) -> NoDup (a ++ b).
Proof.
  induction a as [|y a IH]; cbn [app]; intros Na Nb D; [exact Nb|].
  inversion Na as [|? ? Hy Na']; subst. constructor.
  - rewrite in_app_iff. intros [H|H]; [exact (Hy H)|]. apply (D y); [left; reflexivity|exact H].
  - apply IH; auto. intros x Hx Hb. apply (D x); [right; exact Hx|exact Hb].
Qed.

Lemma nodup_snoc {A} (l : list A) x : NoDup l -> ~ In x l -> NoDup (l ++ [x]).
Proof.
  intros ND H. apply nodup_app_intro; auto.
  - constructor; [intros []|constructor].
  - intros y Hy [<-|[]]. exact (H Hy).
Qed.

Lemma nodup_app_l {A} (a b : list A) : NoDup (a ++ b) -> NoDup a.
Proof.
  induction a as [|y a IH]; cbn [app]; intros ND; [constructor|].
  inversion ND as [|? ? Hy ND']; subst. constructor; auto.
  intros H. apply Hy. apply in_or_app. left. exact H.
Qed.

Lemma nodup_app_r {A} (a b : list A) : NoDup (a ++ b) -> NoDup b.
Proof.
  induction a as [|y a IH]; cbn [app]; intros ND; [exact ND|].
  inversion ND; subst. auto.
Qed.

Lemma nodup_fst_inj {A B} (l : list (A * B)) k a b :
  NoDup (map fst l) -> In (k, a) l -> In (k, b) l -> a = b.
Proof.
  induction l as [|[k' c] l IH]; cbn [map fst In]; intros ND Ha Hb; [destruct Ha|].
  inversion ND as [|? ? Hk ND']; subst.
  destruct Ha as [Ha|Ha], Hb as [Hb|Hb].
  - congruence.
  - inversion Ha; subst. exfalso. apply Hk. change k with (fst (k, b)). apply in_map. exact Hb.
  - inversion Hb; subst. exfalso. apply Hk. change k with (fst (k, a)). apply in_map. exact Ha.
  - exact (IH ND' Ha Hb).
Qed.

Lemma nodup_snd_inj {A B} (l : list (A * B)) i a b :
  NoDup (map snd l) -> In (a, i) l -> In (b, i) l -> a = b.
Proof.
  induction l as [|[c i'] l IH]; cbn [map snd In]; intros ND Ha Hb; [destruct Ha|].
  inversion ND as [|? ? Hk ND']; subst.
  destruct Ha as [Ha|Ha], Hb as [Hb|Hb].
  - congruence.
  - inversion Ha; subst. exfalso. apply Hk. change i with (snd (b, i)). apply in_map. exact Hb.
  - inversion Hb; subst. exfalso. apply Hk. change i with (snd (a, i)). apply in_map. exact Ha.
  - exact (IH ND' Ha Hb).
Qed.

Lemma nth_error_some_lt {A} (l : list A) i x : nth_error l i = Some x -> (i < length l)%nat.
Proof. intros H. apply nth_error_Some. congruence. Qed.

Lemma nth_error_lt_some {A} (l : list A) i : (i < length l)%nat -> exists x, nth_error l i = Some x.
Proof.
  intros H. destruct (nth_error l i) as [x|] eqn:E; [eauto|].
  apply nth_error_None in E. lia.
Qed.

Lemma zlen_app {A} (a b : list A) : zlen (a ++ b) = zlen a + zlen b.
Proof. unfold zlen. rewrite app_length. lia. Qed.

Lemma zlen_nonneg {A} (a : list A) : 0 <= zlen a.
Proof. unfold zlen. lia. Qed.

(* ------------------------------------------------------------------ key equality *)
Lemma zopt_eqb_eq a b : zopt_eqb a b = true <-> a = b.
Proof.
  unfold zopt_eqb, opt_eqb. destruct a as [x|], b as [y|]; try (split; congruence).
  rewrite Z.eqb_eq. split; congruence.
Qed.

Lemma list_eqb_eq {A} (eqb : A -> A -> bool) :
  (forall x y, eqb x y = true <-> x = y) -> forall a b, list_eqb eqb a b = true <-> a = b.
Proof.
  intros H a. induction a as [|x a IH]; intros [|y b]; cbn [list_eqb]; try (split; congruence).
  rewrite andb_true_iff, H, IH. split.
  - intros [-> ->]. reflexivity.
  - intros E. inversion E. auto.
Qed.

(* [key_eqb] reflects Leibniz equality on [key = list (option Z)] *)
Lemma key_eqb_eq a b : key_eqb a b = true <-> a = b.
Proof. apply list_eqb_eq. exact zopt_eqb_eq. Qed.

Lemma key_eqb_refl a : key_eqb a a = true.
Proof. apply key_eqb_eq. reflexivity. Qed.

Lemma key_eqb_neq a b : key_eqb a b = false <-> a <> b.
Proof.
  destruct (key_eqb a b) eqn:E.
  - apply key_eqb_eq in E. split; [discriminate|congruence].
  - split; [|reflexivity]. intros _ H. apply key_eqb_eq in H. congruence.
Qed.

Definition key_eq_dec (a b : key) : {a = b} + {a <> b}.
Proof.
  destruct (key_eqb a b) eqn:E.
  - left. apply key_eqb_eq. exact E.
  - right. apply key_eqb_neq. exact E.
Defined.

(* ------------------------------------------------------------------ find_idx *)
Lemma find_idx_some k l : forall i j, find_idx k l i = Some j ->
  i <= j /\ nth_error l (Z.to_nat (j - i)) = Some k.
Proof.
  induction l as [|x r IH]; intros i j H; cbn [find_idx] in H; [discriminate|].
  destruct (key_eqb x k) eqn:E.
  - inversion H; subst. apply key_eqb_eq in E. subst. rewrite Z.sub_diag. split; [lia|reflexivity].
  - apply IH in H. destruct H as [H1 H2]. split; [lia|].
    replace (Z.to_nat (j - i)) with (S (Z.to_nat (j - (i + 1)))) by lia. exact H2.
Qed.

Lemma find_idx_none k l : forall i, find_idx k l i = None <-> ~ In k l.
Proof.
  induction l as [|x r IH]; intros i; cbn [find_idx In].
  - split; auto.
  - destruct (key_eqb x k) eqn:E.
    + apply key_eqb_eq in E. split; [discriminate|]. intros H. exfalso. apply H. left. exact E.
    + apply key_eqb_neq in E. rewrite IH. split; [intros H [H'|H']; auto|intros H H'; apply H; right; exact H'].
Qed.

Lemma find_idx_nodup k l : NoDup l -> forall p i, nth_error l p = Some k ->
  find_idx k l i = Some (i + Z.of_nat p).
Proof.
  intros ND p i Hp. destruct (find_idx k l i) as [j|] eqn:E.
  - apply find_idx_some in E. destruct E as [Hle Hn].
    assert (Z.to_nat (j - i) = p) by (eapply nodup_nth_inj; eauto).
    f_equal. lia.
  - apply find_idx_none in E. exfalso. apply E. eapply nth_error_In; eauto.
Qed.

(* ================================================================== A. one intern call *)
(* [s] = live keys before (position = group id), [ks] = the batch, [ids] = the ids returned,
   [s'] = live keys afterwards. *)
Definition intern_ok (s : spec) (ks : list key) (ids : list Z) (s' : spec) : Prop :=
  length ids = length ks /\
  (exists new, s' = s ++ new /\ (forall k, In k new -> In k ks)) /\
  NoDup s' /\
  (forall i k id, nth_error ks i = Some k -> nth_error ids i = Some id ->
                  0 <= id /\ nth_error s' (Z.to_nat id) = Some k).

(* "k is not live in s" as a boolean, and the distinct not-yet-live keys of a batch *)
Definition is_new (s : spec) (k : key) : bool := negb (existsb (key_eqb k) s).
Definition distinct_new (s : spec) (ks : list key) : list key :=
  nodup key_eq_dec (filter (is_new s) ks).

Lemma is_new_spec s k : is_new s k = true <-> ~ In k s.
Proof.
  unfold is_new. rewrite negb_true_iff. split.
  - intros H Hin. assert (existsb (key_eqb k) s = true); [|congruence].
    apply existsb_exists. exists k. split; [exact Hin|apply key_eqb_refl].
  - intros H. destruct (existsb (key_eqb k) s) eqn:E; [|reflexivity].
    apply existsb_exists in E. destruct E as (x & Hx & Ex). apply key_eqb_eq in Ex. subst. contradiction.
Qed.

Lemma equal_keys_iff_equal_ids s ks ids s' : intern_ok s ks ids s' ->
  (forall i j ki kj idi idj,
     nth_error ks i = Some ki -> nth_error ks j = Some kj ->
     nth_error ids i = Some idi -> nth_error ids j = Some idj ->
     (ki = kj <-> idi = idj)) /\
  (forall p i k id,
     nth_error s p = Some k -> nth_error ks i = Some k -> nth_error ids i = Some id ->
     id = Z.of_nat p).
Proof.
  intros (HL & (new & -> & Hnew) & ND & HR). split.
  - intros i j ki kj idi idj Hki Hkj Hii Hij.
    destruct (HR _ _ _ Hki Hii) as [P1 N1]. destruct (HR _ _ _ Hkj Hij) as [P2 N2].
    split.
    + intros <-. assert (Z.to_nat idi = Z.to_nat idj) by (eapply nodup_nth_inj; eauto). lia.
    + intros <-. congruence.
  - intros p i k id Hp Hk Hi.
    destruct (HR _ _ _ Hk Hi) as [P N].
    assert (nth_error (s ++ new) p = Some k).
    { rewrite nth_error_app1; auto. eapply nth_error_some_lt; eauto. }
    assert (Z.to_nat id = p) by (eapply nodup_nth_inj; eauto). lia.
Qed.

Lemma intern_ok_new_members s ks ids s' : intern_ok s ks ids s' ->
  exists new, s' = s ++ new /\ NoDup new /\ forall k, In k new <-> (In k ks /\ ~ In k s).
Proof.
  intros (HL & (new & -> & Hnew) & ND & HR). exists new. split; [reflexivity|].
  split; [eapply nodup_app_r; eauto|].
  intros k. split.
  - intros H. split; [auto|]. intros Hs. eapply nodup_app_disj; eauto.
  - intros [Hk Hs]. apply In_nth_error in Hk. destruct Hk as [i Hi].
    destruct (nth_error_lt_some ids i) as [id Hid].
    { rewrite HL. eapply nth_error_some_lt; eauto. }
    destruct (HR _ _ _ Hi Hid) as [_ N]. apply nth_error_In in N.
    apply in_app_or in N. destruct N; [contradiction|assumption].
Qed.

Lemma new_ids_exactly_from_len s ks ids s' : intern_ok s ks ids s' ->
  (* every row whose key was not live gets an id in [len s, len s'), live keys get ids below *)
  (forall i k id, nth_error ks i = Some k -> nth_error ids i = Some id ->
     (~ In k s -> zlen s <= id < zlen s') /\ (In k s -> 0 <= id < zlen s)) /\
  (* every id in [len s, len s') is used by some row with a not-yet-live key *)
  (forall id, zlen s <= id < zlen s' ->
     exists i k, nth_error ks i = Some k /\ nth_error ids i = Some id /\ ~ In k s) /\
  (* the number of groups grows by the number of distinct not-yet-live keys in the batch *)
  zlen s' - zlen s = zlen (distinct_new s ks).
Proof.
  intros OK. pose proof OK as (HL & _ & ND & HR).
  destruct (intern_ok_new_members _ _ _ _ OK) as (new & -> & NDn & Hmem).
  split; [|split].
  - intros i k id Hk Hid. destruct (HR _ _ _ Hk Hid) as [P N]. split.
    + intros Hs. pose proof (nth_error_some_lt _ _ _ N) as Hlt.
      assert (~ (Z.to_nat id < length s)%nat).
      { intros Hlt'. rewrite nth_error_app1 in N by exact Hlt'. apply Hs. eapply nth_error_In; eauto. }
      unfold zlen. lia.
    + intros Hs. apply In_nth_error in Hs. destruct Hs as [p Hp].
      destruct (equal_keys_iff_equal_ids _ _ _ _ OK) as [_ Hlive].
      rewrite (Hlive _ _ _ _ Hp Hk Hid). apply nth_error_some_lt in Hp. unfold zlen. lia.
  - intros id Hid. pose proof (zlen_nonneg s) as Hs0.
    destruct (nth_error_lt_some (s ++ new) (Z.to_nat id)) as [k Hk]; [unfold zlen in Hid; lia|].
    assert (Hk' := Hk). rewrite nth_error_app2 in Hk' by (unfold zlen in Hid; lia).
    apply nth_error_In in Hk'. apply Hmem in Hk'. destruct Hk' as [Hks Hns].
    apply In_nth_error in Hks. destruct Hks as [i Hi].
    destruct (nth_error_lt_some ids i) as [id' Hid'].
    { rewrite HL. eapply nth_error_some_lt; eauto. }
    destruct (HR _ _ _ Hi Hid') as [P N].
    assert (Z.to_nat id' = Z.to_nat id) by (eapply nodup_nth_inj; eauto).
    exists i, k. split; [exact Hi|]. split; [|exact Hns]. rewrite Hid'. f_equal. lia.
  - rewrite zlen_app. unfold distinct_new, zlen.
    assert (length new = length (nodup key_eq_dec (filter (is_new s) ks))); [|lia].
    apply Nat.le_antisymm; apply NoDup_incl_length; auto using NoDup_nodup.
    + intros k Hk. apply nodup_In. apply filter_In. apply Hmem in Hk. destruct Hk.
      split; [assumption|]. apply is_new_spec. assumption.
    + intros k Hk. apply nodup_In in Hk. apply filter_In in Hk. destruct Hk as [Hk Hn].
      apply Hmem. split; [assumption|]. apply is_new_spec. assumption.
Qed.

(* ================================================================== B. the checker *)
Definition pend_ok (s : spec) (pend : list (key * Z)) : Prop :=
  NoDup (map fst pend) /\ NoDup (map snd pend) /\
  forall k i, In (k, i) pend -> ~ In k s /\ zlen s <= i.

Lemma assoc_find_some k l i : assoc_find k l = Some i -> In (k, i) l.
Proof.
  induction l as [|[k' j] l IH]; cbn [assoc_find In]; [discriminate|].
  destruct (key_eqb k' k) eqn:E.
  - intros H. inversion H; subst. apply key_eqb_eq in E. subst. left. reflexivity.
  - intros H. right. auto.
Qed.

Lemma assoc_find_none k l : assoc_find k l = None -> ~ In k (map fst l).
Proof.
  induction l as [|[k' j] l IH]; cbn [assoc_find map fst In]; [auto|].
  destruct (key_eqb k' k) eqn:E; [discriminate|].
  apply key_eqb_neq in E. intros H [H'|H']; [contradiction|]. exact (IH H H').
Qed.

Lemma id_used_false i l : id_used i l = false -> ~ In i (map snd l).
Proof.
  induction l as [|[k' j] l IH]; cbn [id_used map snd In]; [auto|].
  intros H. apply orb_false_iff in H. destruct H as [H1 H2]. apply Z.eqb_neq in H1.
  intros [H'|H']; [congruence|]. exact (IH H2 H').
Qed.

Lemma key_of_id_some i l k : key_of_id i l = Some k -> In (k, i) l.
Proof.
  induction l as [|[k' j] l IH]; cbn [key_of_id In]; [discriminate|].
  destruct (i =? j) eqn:E.
  - intros H. inversion H; subst. apply Z.eqb_eq in E. subst. left. reflexivity.
  - intros H. right. auto.
Qed.

Lemma pend_ok_snoc s pend k i :
  pend_ok s pend -> ~ In k s -> zlen s <= i -> ~ In k (map fst pend) -> ~ In i (map snd pend) ->
  pend_ok s (pend ++ [(k, i)]).
Proof.
  intros (N1 & N2 & P) Hs Hi Hk Hu. unfold pend_ok. rewrite !map_app. cbn [map fst snd].
  split; [apply nodup_snoc; auto|]. split; [apply nodup_snoc; auto|].
  intros k' i' H. apply in_app_or in H. destruct H as [H|[H|[]]]; [auto|].
  inversion H; subst. auto.
Qed.

Lemma chk_rows_sound s : forall ks ids pend pend',
  pend_ok s pend -> chk_rows s pend ks ids = Some pend' ->
  length ids = length ks /\ pend_ok s pend' /\
  (exists ext, pend' = pend ++ ext /\ forall k i, In (k, i) ext -> In k ks) /\
  (forall r k id, nth_error ks r = Some k -> nth_error ids r = Some id ->
     find_idx k s 0 = Some id \/ (find_idx k s 0 = None /\ In (k, id) pend')).
Proof.
  induction ks as [|k kr IH]; intros [|i ir] pend pend' PO H; cbn [chk_rows] in H; try discriminate.
  - inversion H; subst. split; [reflexivity|]. split; [assumption|]. split.
    + exists []. rewrite app_nil_r. split; [reflexivity|]. intros ? ? [].
    + intros [|r] ? ? Hr; discriminate.
  - destruct (find_idx k s 0) as [j|] eqn:F.
    { destruct (i =? j) eqn:E; [|discriminate]. apply Z.eqb_eq in E. subst j.
      destruct (IH _ _ _ PO H) as (L & P & (ext & -> & X) & R).
      split; [cbn [length]; lia|]. split; [assumption|]. split.
      - exists ext. split; [reflexivity|]. intros ? ? Hin. right. eauto.
      - intros [|r] k' id' Hk Hi; cbn [nth_error] in Hk, Hi.
        + inversion Hk; inversion Hi; subst. left. assumption.
        + eauto. }
    destruct (assoc_find k pend) as [j|] eqn:AF.
    { destruct (i =? j) eqn:E; [|discriminate]. apply Z.eqb_eq in E. subst j.
      destruct (IH _ _ _ PO H) as (L & P & (ext & -> & X) & R).
      split; [cbn [length]; lia|]. split; [assumption|]. split.
      - exists ext. split; [reflexivity|]. intros ? ? Hin. right. eauto.
      - intros [|r] k' id' Hk Hi; cbn [nth_error] in Hk, Hi.
        + inversion Hk; inversion Hi; subst. right. split; [assumption|].
          apply in_or_app. left. apply assoc_find_some. assumption.
        + eauto. }
    destruct ((zlen s <=? i) && negb (id_used i pend)) eqn:C; [|discriminate].
    apply andb_true_iff in C. destruct C as [C1 C2]. apply Z.leb_le in C1.
    apply negb_true_iff in C2.
    assert (PO' : pend_ok s (pend ++ [(k, i)])).
    { apply pend_ok_snoc; auto.
      - apply find_idx_none in F. assumption.
      - apply assoc_find_none. assumption.
      - apply id_used_false. assumption. }
    destruct (IH _ _ _ PO' H) as (L & P & (ext & -> & X) & R).
    split; [cbn [length]; lia|]. split; [assumption|]. split.
    + exists ((k, i) :: ext). split; [rewrite <- app_assoc; reflexivity|].
      intros k' i' [Hin|Hin]; [inversion Hin; subst; left; reflexivity|right; eauto].
    + intros [|r] k' id' Hk Hi; cbn [nth_error] in Hk, Hi.
      * inversion Hk; inversion Hi; subst. right. split; [assumption|].
        apply in_or_app. left. apply in_or_app. right. left. reflexivity.
      * eauto.
Qed.

Lemma layout_sound pend : forall n base new, layout base n pend = Some new ->
  length new = n /\ forall j k, nth_error new j = Some k -> In (k, base + Z.of_nat j) pend.
Proof.
  induction n as [|n IH]; cbn [layout]; intros base new H.
  - inversion H; subst. split; [reflexivity|]. intros [|j] ? Hj; discriminate.
  - destruct (key_of_id base pend) as [k0|] eqn:K; [|discriminate].
    destruct (layout (base + 1) n pend) as [r|] eqn:L; [|discriminate].
    inversion H; subst. apply IH in L. destruct L as [L1 L2]. split; [cbn [length]; lia|].
    intros [|j] k' Hj; cbn [nth_error] in Hj.
    + inversion Hj; subst. rewrite Z.add_0_r. apply key_of_id_some. assumption.
    + apply L2 in Hj. replace (base + Z.of_nat (S j)) with (base + 1 + Z.of_nat j) by lia. assumption.
Qed.

(* the pending (key,id) pairs are laid out at exactly their ids *)
Lemma layout_positions s pend new :
  NoDup (map snd pend) -> layout (zlen s) (length pend) pend = Some new ->
  length new = length pend /\
  (forall j k, nth_error new j = Some k -> In (k, zlen s + Z.of_nat j) pend) /\
  (forall k i, In (k, i) pend -> zlen s <= i /\ nth_error new (Z.to_nat (i - zlen s)) = Some k).
Proof.
  intros N2 L. apply layout_sound in L. destruct L as [LL LY].
  split; [assumption|]. split; [assumption|].
  set (f := fun j : nat => zlen s + Z.of_nat j).
  set (range := map f (seq 0 (length pend))).
  assert (NR : NoDup range).
  { apply Injective_map_NoDup; [|apply seq_NoDup]. intros a b. unfold f. lia. }
  assert (I1 : incl range (map snd pend)).
  { intros x Hx. apply in_map_iff in Hx. destruct Hx as (j & <- & Hj). apply in_seq in Hj.
    destruct (nth_error_lt_some new j) as [k' Hk']; [lia|].
    apply LY in Hk'. change (f j) with (snd (k', f j)). apply in_map. exact Hk'. }
  assert (I2 : incl (map snd pend) range).
  { apply NoDup_length_incl; auto. unfold range. rewrite !map_length, seq_length. lia. }
  intros k i Hin.
  assert (Hi : In i range). { apply I2. change i with (snd (k, i)). apply in_map. exact Hin. }
  apply in_map_iff in Hi. destruct Hi as (j & <- & Hj). apply in_seq in Hj. unfold f.
  split; [lia|].
  destruct (nth_error_lt_some new j) as [k' Hk']; [lia|].
  replace (Z.to_nat (zlen s + Z.of_nat j - zlen s)) with j by lia.
  rewrite Hk'. f_equal. apply LY in Hk'. eapply nodup_snd_inj; eauto.
Qed.

Lemma spec_intern_chk_sound s ks ids s' :
  NoDup s -> spec_intern_chk s ks ids = Some s' -> intern_ok s ks ids s'.
Proof.
  intros NDs H. unfold spec_intern_chk in H.
  destruct (chk_rows s [] ks ids) as [pend|] eqn:C; [|discriminate].
  destruct (layout (zlen s) (length pend) pend) as [new|] eqn:L; [|discriminate].
  inversion H; subst s'. clear H.
  assert (PO0 : pend_ok s []).
  { split; [constructor|]. split; [constructor|]. intros ? ? []. }
  destruct (chk_rows_sound _ _ _ _ _ PO0 C) as (HL & (N1 & N2 & PO) & (ext & E & X) & R).
  cbn [app] in E. subst ext.
  destruct (layout_positions _ _ _ N2 L) as (LL & LY & LP).
  split; [assumption|]. split; [|split].
  - exists new. split; [reflexivity|]. intros k Hk. apply In_nth_error in Hk. destruct Hk as [j Hj].
    apply LY in Hj. eauto.
  - apply nodup_app_intro; [assumption| |].
    + apply NoDup_nth_error. intros a b Ha Hab.
      destruct (nth_error_lt_some new a Ha) as [k Hk]. rewrite Hk in Hab. symmetry in Hab.
      apply LY in Hk. apply LY in Hab.
      assert (zlen s + Z.of_nat a = zlen s + Z.of_nat b) by (eapply nodup_fst_inj; eauto). lia.
    + intros x Hs Hn. apply In_nth_error in Hn. destruct Hn as [j Hj]. apply LY in Hj.
      apply PO in Hj. destruct Hj. contradiction.
  - intros i k id Hk Hid. destruct (R _ _ _ Hk Hid) as [F|[_ P]].
    + apply find_idx_some in F. destruct F as [F1 F2]. split; [assumption|].
      rewrite Z.sub_0_r in F2. rewrite nth_error_app1; [assumption|]. eapply nth_error_some_lt; eauto.
    + apply LP in P. destruct P as [P1 P2]. pose proof (zlen_nonneg s). split; [lia|].
      rewrite nth_error_app2 by (unfold zlen in *; lia).
      replace (Z.to_nat id - length s)%nat with (Z.to_nat (id - zlen s)) by (unfold zlen in *; lia).
      assumption.
Qed.
