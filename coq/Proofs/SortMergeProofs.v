(* C08 -- proofs about the loser tree, the k-way merge, multi-level merging, TopK and the comparator. *)
From Coq Require Import List ZArith Bool Arith Lia Permutation Sorted.
From DF Require Import Base.Prelude Model.SortMerge.
Import ListNotations.
Close Scope Z_scope.
Open Scope nat_scope.

(* ------------------------------------------------------------------ lists *)
Lemma set_nth_length {X} n (v : X) l : length (set_nth n v l) = length l.
Proof. revert n; induction l; intros [|n]; simpl; auto. Qed.

Lemma nth_set_nth_eq {X} n (v d : X) l : n < length l -> nth n (set_nth n v l) d = v.
Proof. revert n; induction l; intros [|n]; simpl; intros; try lia; auto. apply IHl; lia. Qed.

Lemma nth_set_nth_neq {X} n m (v d : X) l : n <> m -> nth m (set_nth n v l) d = nth m l d.
Proof. revert n m; induction l; intros [|n] [|m]; simpl; intros; try lia; auto. Qed.

(* ------------------------------------------------------------------ paths in the implicit tree *)
(* node n is on the path from node l up to the root:  n = l / 2^j *)
Definition onpath (l n : nat) : Prop := exists j, l / 2 ^ j = n.

Lemma pow2_nz j : 2 ^ j <> 0.
Proof. apply Nat.pow_nonzero; lia. Qed.

Lemma onpath_self l : onpath l l.
Proof. exists 0. simpl. apply Nat.div_1_r. Qed.

Lemma onpath_up l m : onpath l m -> onpath l (m / 2).
Proof.
  intros [j H]. exists (S j). rewrite Nat.pow_succ_r', Nat.mul_comm, <- Nat.div_div by (try apply pow2_nz; lia).
  now rewrite H.
Qed.

Lemma pow2_ge2 d : 1 <= d -> 2 <= 2 ^ d.
Proof. destruct d; [lia|]. intros _. rewrite Nat.pow_succ_r'. pose proof (pow2_nz d). lia. Qed.

Lemma onpath_children_excl l n : 1 <= n -> onpath l (2 * n) -> onpath l (2 * n + 1) -> False.
Proof.
  intros Hn [j Hj] [j' Hj'].
  destruct (Nat.lt_trichotomy j j') as [H | [H | H]].
  - replace j' with (j + (j' - j)) in Hj' by lia.
    rewrite Nat.pow_add_r, <- Nat.div_div, Hj in Hj' by apply pow2_nz.
    assert (2 * n / 2 ^ (j' - j) <= 2 * n).
    { apply Nat.div_le_upper_bound; [apply pow2_nz|]. pose proof (pow2_nz (j' - j)). nia. }
    lia.
  - subst. lia.
  - replace j with (j' + (j - j')) in Hj by lia.
    rewrite Nat.pow_add_r, <- Nat.div_div, Hj' in Hj by apply pow2_nz.
    assert ((2 * n + 1) / 2 ^ (j - j') < n + 1).
    { apply Nat.div_lt_upper_bound; [apply pow2_nz|]. pose proof (pow2_ge2 (j - j')). nia. }
    lia.
Qed.

Definition upd {X} (f : nat -> X) (n : nat) (v : X) : nat -> X := fun m => if m =? n then v else f m.

Lemma upd_eq {X} (f : nat -> X) n v : upd f n v n = v.
Proof. unfold upd. now rewrite Nat.eqb_refl. Qed.
Lemma upd_neq {X} (f : nat -> X) n v m : m <> n -> upd f n v m = f m.
Proof. unfold upd. intros H. apply Nat.eqb_neq in H. now rewrite H. Qed.

(* a comparator in the style of Ord::cmp that is a total preorder *)
Definition total_preorder {A} (cmp : A -> A -> comparison) : Prop :=
  (forall x y, cmp y x = CompOpp (cmp x y)) /\
  (forall x y z, cmp x y <> Gt -> cmp y z <> Gt -> cmp x z <> Gt).

Section Proofs.
Context {A : Type} (cmp : A -> A -> comparison).
Hypothesis Hcmp : total_preorder cmp.

Lemma cmp_sym x y : cmp y x = CompOpp (cmp x y).
Proof. apply Hcmp. Qed.
Lemma cmp_trans x y z : cmp x y <> Gt -> cmp y z <> Gt -> cmp x z <> Gt.
Proof. apply Hcmp. Qed.
Lemma cmp_refl x : cmp x x = Eq.
Proof. pose proof (cmp_sym x x). destruct (cmp x x); simpl in *; congruence. Qed.

Lemma cmp_lt_le_trans x y z : cmp x y = Lt -> cmp y z <> Gt -> cmp x z = Lt.
Proof.
  intros H1 H2. destruct (cmp x z) eqn:E; auto.
  - (* x ~ z: then z <= x < y <= z *)
    exfalso. assert (cmp z x <> Gt) by (rewrite (cmp_sym x z), E; simpl; congruence).
    pose proof (cmp_trans y z x H2 H). rewrite (cmp_sym x y), H1 in H0. simpl in H0. congruence.
  - exfalso. apply (cmp_trans x y z); congruence.
Qed.

Lemma cmp_le_lt_trans x y z : cmp x y <> Gt -> cmp y z = Lt -> cmp x z = Lt.
Proof.
  intros H1 H2. destruct (cmp x z) eqn:E; auto.
  - exfalso. assert (cmp z x <> Gt) by (rewrite (cmp_sym x z), E; simpl; congruence).
    pose proof (cmp_trans z x y H H1). rewrite (cmp_sym y z), H2 in H0. simpl in H0. congruence.
  - exfalso. apply (cmp_trans x y z); congruence.
Qed.

Lemma cmp_eq_trans x y z : cmp x y = Eq -> cmp y z = Eq -> cmp x z = Eq.
Proof.
  intros H1 H2. destruct (cmp x z) eqn:E; auto; exfalso.
  - assert (cmp z y <> Gt) by (rewrite (cmp_sym y z), H2; simpl; congruence).
    pose proof (cmp_lt_le_trans x z y E H). congruence.
  - apply (cmp_trans x y z); congruence.
Qed.

Lemma leb_true a b : leb cmp a b = true <-> cmp a b <> Gt.
Proof. unfold leb. destruct (cmp a b); split; congruence. Qed.

(* ------------------------------------------------------------------ the order the tree works with *)
(* stream a is before stream b: by head row, ties by stream index; exhausted streams come last *)
Definition sle (cs : list (list A)) (a b : nat) : Prop :=
  match cur cs a, cur cs b with
  | _, [] => True
  | [], _ :: _ => False
  | x :: _, y :: _ => cmp x y = Lt \/ (cmp x y = Eq /\ a <= b)
  end.

Lemma sle_refl cs a : sle cs a a.
Proof. unfold sle. destruct (cur cs a); auto. right. split; [apply cmp_refl | lia]. Qed.

Lemma sle_trans cs a b c : sle cs a b -> sle cs b c -> sle cs a c.
Proof.
  unfold sle. destruct (cur cs a) as [|x ?], (cur cs b) as [|y ?], (cur cs c) as [|z ?]; auto; try tauto.
  intros [H1 | [H1 L1]] [H2 | [H2 L2]].
  - left. apply (cmp_lt_le_trans x y z); congruence.
  - left. apply (cmp_lt_le_trans x y z); congruence.
  - left. apply (cmp_le_lt_trans x y z); congruence.
  - right. split; [eapply cmp_eq_trans; eauto | lia].
Qed.

Lemma is_gt_true cs a b : is_gt cmp cs a b = true -> sle cs b a.
Proof.
  unfold is_gt, sle. destruct (cur cs a) as [|x ?], (cur cs b) as [|y ?]; auto; try discriminate.
  rewrite (cmp_sym x y). destruct (cmp x y); simpl; try discriminate; auto.
  intros H. apply Nat.ltb_lt in H. right; split; auto; lia.
Qed.

Lemma is_gt_false cs a b : is_gt cmp cs a b = false -> sle cs a b.
Proof.
  unfold is_gt, sle. destruct (cur cs a) as [|x ?], (cur cs b) as [|y ?]; auto; try discriminate.
  destruct (cmp x y); simpl; try discriminate; auto.
  intros H. apply Nat.ltb_ge in H. right; split; auto.
Qed.

Lemma sle_antisym cs a b : cur cs a <> [] -> sle cs a b -> sle cs b a -> a = b.
Proof.
  unfold sle. destruct (cur cs a) as [|x ?], (cur cs b) as [|y ?]; try tauto.
  rewrite (cmp_sym x y). intros _ [H1 | [H1 L1]] [H2 | [H2 L2]]; rewrite H1 in *; simpl in *; try discriminate. lia.
Qed.

(* ------------------------------------------------------------------ the loser-tree invariant *)
(* Nodes 1 .. k-1 are the tree nodes stored in loser_tree[1..k-1]; stream j is the virtual leaf k + j; the parent of
   node n is n / 2; loser_tree[0] holds the overall winner.  W n = the winner of the subtree of n among the streams
   inserted so far, provided ALL leaves below n have been inserted (None otherwise).  loser_tree[n] holds the loser of
   the final at n when both children are complete, the parked winner of the complete child when only one is, and
   <dq>unset<dq> (= k) when none is.  [ins j]: stream j has been inserted. *)
Definition node_ok (cs : list (list A)) (k : nat) (W : nat -> option nat) (tree : list nat) (n : nat) : Prop :=
  match W (2 * n), W (2 * n + 1) with
  | Some a, Some b => exists w l, W n = Some w /\ nth n tree k = l /\
                                  ((w = a /\ l = b) \/ (w = b /\ l = a)) /\ sle cs w l
  | Some a, None => W n = None /\ nth n tree k = a
  | None, Some b => W n = None /\ nth n tree k = b
  | None, None => W n = None /\ nth n tree k = k
  end.

Lemma node_ok_ext cs k W W' tree tree' n :
  W' n = W n -> W' (2 * n) = W (2 * n) -> W' (2 * n + 1) = W (2 * n + 1) -> nth n tree' k = nth n tree k ->
  node_ok cs k W tree n -> node_ok cs k W' tree' n.
Proof. unfold node_ok. intros -> -> -> ->. auto. Qed.

Record Inv (cs : list (list A)) (k : nat) (ins : nat -> bool) (W : nat -> option nat) (tree : list nat) : Prop := {
  inv_len : length tree = k;
  inv_leaf : forall j, j < k -> W (k + j) = if ins j then Some j else None;
  inv_node : forall n, 1 <= n < k -> node_ok cs k W tree n;
  inv_path : forall n x, W n = Some x -> x < k /\ onpath (k + x) n;
  inv_root : forall w, W 1 = Some w -> nth 0 tree k = w
}.

(* loop invariant of a walk from leaf to root: we came from node c carrying [winner] = the new winner of c's
   subtree; the node about to be visited, c / 2, still sees the state in which c was incomplete. *)
Record LI (cs : list (list A)) (k : nat) (ins : nat -> bool) (W : nat -> option nat) (tree : list nat)
          (winner c : nat) : Prop := {
  li_len : length tree = k;
  li_c : 1 <= c < 2 * k;
  li_leaf : forall j, j < k -> W (k + j) = if ins j then Some j else None;
  li_node : forall n, 1 <= n < k -> n <> c / 2 -> node_ok cs k W tree n;
  li_next : 1 <= c / 2 -> node_ok cs k (upd W c None) tree (c / 2);
  li_win : W c = Some winner;
  li_path : forall n x, W n = Some x -> x < k /\ onpath (k + x) n;
  li_root : 1 <= c / 2 -> forall w, W 1 = Some w -> nth 0 tree k = w
}.

Lemma walk_start cs k ins W tree i :
  Inv cs k ins W tree -> i < k -> ins i = false ->
  LI cs k (upd ins i true) (upd W (k + i) (Some i)) tree i (k + i).
Proof.
  intros I Hi Hins. constructor.
  - apply I.
  - lia.
  - intros j Hj. unfold upd. destruct (Nat.eqb_spec j i).
    + subst. now rewrite Nat.eqb_refl.
    + replace (k + j =? k + i) with false by (symmetry; apply Nat.eqb_neq; lia). now apply (inv_leaf _ _ _ _ _ I).
  - intros n Hn Hne. apply (node_ok_ext cs k W _ tree tree n); auto; try (apply upd_neq); try lia.
    + intro E. apply Hne. rewrite <- E. rewrite Nat.mul_comm, Nat.div_mul; lia.
    + intro E. apply Hne. rewrite <- E. replace (2 * n + 1) with (1 + n * 2) by lia.
      rewrite Nat.div_add by lia. simpl. lia.
    + apply I; auto.
  - intros Hc. assert (Hlt : (k + i) / 2 < k) by (apply Nat.div_lt_upper_bound; lia).
    apply (node_ok_ext cs k W _ tree tree); auto.
    + unfold upd. destruct (Nat.eqb_spec ((k + i) / 2) (k + i)); [lia|]. reflexivity.
    + unfold upd. destruct (Nat.eqb_spec (2 * ((k + i) / 2)) (k + i)); auto.
      rewrite e. rewrite (inv_leaf _ _ _ _ _ I) by auto. now rewrite Hins.
    + unfold upd. destruct (Nat.eqb_spec (2 * ((k + i) / 2) + 1) (k + i)); auto.
      rewrite e. rewrite (inv_leaf _ _ _ _ _ I) by auto. now rewrite Hins.
    + apply I. lia.
  - apply upd_eq.
  - intros n x. unfold upd. destruct (Nat.eqb_spec n (k + i)).
    + intros E. inversion E; subst. split; auto. apply onpath_self.
    + apply I.
  - intros Hc w. rewrite upd_neq.
    + apply I.
    + intro E. rewrite <- E in Hc. simpl in Hc. lia.
Qed.

(* the children of c / 2 are c and its sibling *)
Lemma child_cases c : c = 2 * (c / 2) \/ c = 2 * (c / 2) + 1.
Proof. pose proof (Nat.div_mod c 2). pose proof (Nat.mod_upper_bound c 2). lia. Qed.

Lemma node_ok_incomplete cs k W tree n :
  node_ok cs k W tree n -> W (2 * n) = None \/ W (2 * n + 1) = None -> W n = None.
Proof. unfold node_ok. destruct (W (2 * n)), (W (2 * n + 1)); intros N [H | H]; try discriminate; tauto. Qed.

(* the node about to be visited is still incomplete *)
Lemma li_next_none cs k ins W tree winner c :
  LI cs k ins W tree winner c -> 1 <= c / 2 -> W (c / 2) = None.
Proof.
  intros L Hc. pose proof (li_next _ _ _ _ _ _ _ L Hc) as N.
  assert (Hne : c / 2 <> c) by (pose proof (Nat.div_lt c 2); lia).
  rewrite <- (upd_neq W c None (c / 2) Hne).
  apply (node_ok_incomplete _ _ _ _ _ N).
  destruct (child_cases c) as [E | E]; [left | right]; rewrite <- E; apply upd_eq.
Qed.

(* the sibling s of c: loser_tree[c / 2] is its parked winner if it is complete, unset otherwise *)
Lemma li_sibling cs k ins W tree winner c :
  LI cs k ins W tree winner c -> 1 <= c / 2 ->
  exists s, ((c = 2 * (c / 2) /\ s = 2 * (c / 2) + 1) \/ (c = 2 * (c / 2) + 1 /\ s = 2 * (c / 2))) /\
            match W s with Some b => nth (c / 2) tree k = b | None => nth (c / 2) tree k = k end.
Proof.
  intros L Hc. pose proof (li_next _ _ _ _ _ _ _ L Hc) as N. unfold node_ok in N.
  destruct (child_cases c) as [E | E].
  - exists (2 * (c / 2) + 1). split; [left; auto|].
    rewrite <- E in N. rewrite upd_eq in N. rewrite (upd_neq W c None (c + 1)) in N by lia.
    replace (2 * (c / 2) + 1) with (c + 1) by lia.
    destruct (W (c + 1)); tauto.
  - exists (2 * (c / 2)). split; [right; auto|].
    rewrite <- E in N. rewrite upd_eq in N. rewrite (upd_neq W c None (2 * (c / 2))) in N by lia.
    destruct (W (2 * (c / 2))); tauto.
Qed.

(* parking: the node is unset, the walk ends there *)
Lemma walk_park cs k ins W tree winner c :
  LI cs k ins W tree winner c -> 1 <= c / 2 -> nth (c / 2) tree k = k ->
  Inv cs k ins W (set_nth (c / 2) winner tree).
Proof.
  intros L Hc Hunset. pose proof (li_next_none _ _ _ _ _ _ _ L Hc) as HN.
  pose proof (li_c _ _ _ _ _ _ _ L) as Hcr. pose proof (li_len _ _ _ _ _ _ _ L) as Hlen.
  assert (Hlt : c / 2 < k) by (apply Nat.div_lt_upper_bound; lia).
  pose proof (li_win _ _ _ _ _ _ _ L) as Hw.
  destruct (li_sibling _ _ _ _ _ _ _ L Hc) as (s & Hs & Hsib).
  assert (HWs : W s = None).
  { destruct (W s) as [b|] eqn:Eb; auto. exfalso.
    assert (b < k) by (eapply (li_path _ _ _ _ _ _ _ L); eauto). lia. }
  constructor.
  - now rewrite set_nth_length.
  - apply (li_leaf _ _ _ _ _ _ _ L).
  - intros n Hn. destruct (Nat.eq_dec n (c / 2)) as [-> | Hne].
    + unfold node_ok. rewrite nth_set_nth_eq by lia. rewrite HN.
      destruct Hs as [[E ->] | [E ->]].
      * rewrite HWs, <- E, Hw. auto.
      * rewrite HWs, <- E, Hw. auto.
    + apply (node_ok_ext cs k W W tree); auto.
      * apply nth_set_nth_neq; lia.
      * apply (li_node _ _ _ _ _ _ _ L); auto.
  - apply (li_path _ _ _ _ _ _ _ L).
  - intros w Hw1. rewrite nth_set_nth_neq by lia. apply (li_root _ _ _ _ _ _ _ L); auto.
Qed.

(* reaching node 0: loser_tree[0] = winner *)
Lemma walk_root cs k ins W tree winner c :
  LI cs k ins W tree winner c -> c / 2 = 0 -> Inv cs k ins W (set_nth 0 winner tree).
Proof.
  intros L Hc. pose proof (li_c _ _ _ _ _ _ _ L) as Hcr. pose proof (li_len _ _ _ _ _ _ _ L) as Hlen.
  assert (c = 1). { destruct c as [|[|c]]; try lia. exfalso. change (S (S c)) with (1 * 2 + c) in Hc.
    rewrite Nat.add_comm, Nat.div_add in Hc by lia. lia. }
  subst c. constructor.
  - now rewrite set_nth_length.
  - apply (li_leaf _ _ _ _ _ _ _ L).
  - intros n Hn. apply (node_ok_ext cs k W W tree); auto.
    + apply nth_set_nth_neq; lia.
    + apply (li_node _ _ _ _ _ _ _ L); auto. simpl. lia.
  - apply (li_path _ _ _ _ _ _ _ L).
  - intros w Hw. rewrite nth_set_nth_eq by lia. pose proof (li_win _ _ _ _ _ _ _ L). congruence.
Qed.

(* one comparison at a node whose other child is complete *)
Lemma walk_step cs k ins W tree winner c :
  LI cs k ins W tree winner c -> 1 <= c / 2 -> nth (c / 2) tree k <> k ->
  exists W', LI cs k ins W' (fst (cmp_step cmp cs (tree, winner) (c / 2)))
                              (snd (cmp_step cmp cs (tree, winner) (c / 2))) (c / 2).
Proof.
  intros L Hc Hset. pose proof (li_next_none _ _ _ _ _ _ _ L Hc) as HN.
  pose proof (li_c _ _ _ _ _ _ _ L) as Hcr. pose proof (li_len _ _ _ _ _ _ _ L) as Hlen.
  assert (Hlt : c / 2 < k) by (apply Nat.div_lt_upper_bound; lia).
  pose proof (li_win _ _ _ _ _ _ _ L) as Hw.
  assert (Hwp := li_path _ _ _ _ _ _ _ L c winner Hw). destruct Hwp as [Hwk Hwpath].
  set (n := c / 2) in *.
  assert (Hnc : n <> c) by (pose proof (Nat.div_lt c 2); lia).
  (* the sibling s is complete and loser_tree[n] is its winner *)
  assert (Hsib : exists s b, (s = 2 * n \/ s = 2 * n + 1) /\ s <> c /\ (c = 2 * n \/ c = 2 * n + 1) /\
                             W s = Some b /\ nth n tree k = b).
  { destruct (li_sibling _ _ _ _ _ _ _ L Hc) as (s & Hs & Hsib). fold n in Hs, Hsib.
    destruct (W s) as [b|] eqn:Eb; [| contradiction].
    exists s, b. repeat split; auto; lia. }
  destruct Hsib as (s & b & Hs & Hsc & Hcn & HWs & Htn).
  assert (Hbp := li_path _ _ _ _ _ _ _ L s b HWs). destruct Hbp as [Hbk Hbpath].
  assert (Hs2 : s / 2 = n).
  { destruct Hs; subst s; [rewrite Nat.mul_comm, Nat.div_mul; lia|].
    replace (2 * n + 1) with (1 + n * 2) by lia. rewrite Nat.div_add by lia. simpl. lia. }
  assert (Hnth0 : nth n tree 0 = b) by (rewrite <- Htn; apply nth_indep; lia).
  (* the outcome of the comparison *)
  set (w' := snd (cmp_step cmp cs (tree, winner) n)). set (t' := fst (cmp_step cmp cs (tree, winner) n)).
  assert (Hout : nth n t' k <> k /\ length t' = k /\ (forall m, m <> n -> nth m t' k = nth m tree k) /\
                 ((w' = winner /\ nth n t' k = b) \/ (w' = b /\ nth n t' k = winner)) /\ sle cs w' (nth n t' k)).
  { unfold w', t', cmp_step. rewrite Hnth0. destruct (is_gt cmp cs winner b) eqn:G; simpl.
    - rewrite nth_set_nth_eq by lia. rewrite set_nth_length. repeat split; auto; try lia.
      + intros m Hm. apply nth_set_nth_neq; auto.
      + now apply is_gt_true.
    - rewrite Htn. repeat split; auto; try lia. now apply is_gt_false. }
  destruct Hout as (Hset' & Hlen' & Hoth & Hwl & Hsle).
  exists (upd W n (Some w')). constructor; auto.
  - lia.
  - intros j Hj. rewrite upd_neq by lia. now apply (li_leaf _ _ _ _ _ _ _ L).
  - intros m Hm Hmn. destruct (Nat.eq_dec m n) as [-> | Hne].
    + (* the node just played *)
      unfold node_ok. rewrite upd_eq. rewrite !upd_neq by lia.
      destruct Hcn as [Ec | Ec]; destruct Hs as [Es | Es]; try lia.
      * rewrite <- Es, <- Ec, Hw, HWs. exists w', (nth n t' k). repeat split; auto; try tauto.
      * rewrite <- Ec, <- Es, Hw, HWs. exists w', (nth n t' k). repeat split; auto; try tauto.
    + apply (node_ok_ext cs k W _ tree); auto; try apply upd_neq; try lia.
      * intro E. apply Hmn. rewrite <- E. rewrite Nat.mul_comm, Nat.div_mul; lia.
      * intro E. apply Hmn. rewrite <- E. replace (2 * m + 1) with (1 + m * 2) by lia.
        rewrite Nat.div_add by lia. simpl. lia.
      * apply (li_node _ _ _ _ _ _ _ L); auto.
  - intros Hn2. assert (Hn2n : n / 2 <> n) by (pose proof (Nat.div_lt n 2); lia).
    assert (Hn2k : n / 2 < k) by (pose proof (Nat.div_lt n 2); lia).
    apply (node_ok_ext cs k W _ tree); auto.
    + unfold upd. destruct (Nat.eqb_spec (n / 2) n); try lia. destruct (Nat.eqb_spec (n / 2) n); try lia. auto.
    + unfold upd. destruct (Nat.eqb_spec (2 * (n / 2)) n); auto. now rewrite e, HN.
    + unfold upd. destruct (Nat.eqb_spec (2 * (n / 2) + 1) n); auto. now rewrite e, HN.
    + apply (li_node _ _ _ _ _ _ _ L); [lia|]. fold n. auto.
  - apply upd_eq.
  - intros m x. unfold upd. destruct (Nat.eqb_spec m n).
    + intros E. inversion E; subst x. subst m.
      destruct Hwl as [[-> _] | [-> _]]; split; auto.
      * apply onpath_up in Hwpath. exact Hwpath.
      * apply onpath_up in Hbpath. now rewrite Hs2 in Hbpath.
    + apply (li_path _ _ _ _ _ _ _ L).
  - intros Hn2 w. rewrite upd_neq by (intro E; rewrite <- E in Hn2; simpl in Hn2; lia).
    rewrite Hoth by lia. apply (li_root _ _ _ _ _ _ _ L); auto.
Qed.

(* ---------------- init_loser_tree: inserting one stream ---------------- *)
Lemma init_walk_inv cs k ins fuel : forall W tree winner c,
  LI cs k ins W tree winner c -> c / 2 < fuel ->
  exists W', Inv cs k ins W' (init_walk cmp fuel cs k tree winner (c / 2)).
Proof.
  induction fuel; intros W tree winner c L Hf; [lia|].
  cbn [init_walk]. destruct (Nat.eqb_spec (c / 2) 0) as [E0 | E0]; cbn [orb].
  - exists W. rewrite E0. now apply (walk_root cs k ins W tree winner c).
  - destruct (Nat.eqb_spec (nth (c / 2) tree k) k) as [Eu | Eu].
    + exists W. apply (walk_park cs k ins W tree winner c); auto. lia.
    + destruct (walk_step cs k ins W tree winner c L) as [W' L']; auto; [lia|].
      destruct (cmp_step cmp cs (tree, winner) (c / 2)) as [t' w'] eqn:Ecs. simpl in L'.
      apply (IHfuel W' t' w' (c / 2) L').
      pose proof (Nat.div_lt (c / 2) 2). lia.
Qed.

Lemma insert_inv cs k ins W tree i :
  Inv cs k ins W tree -> i < k -> ins i = false ->
  exists W', Inv cs k (upd ins i true) W' (init_walk cmp k cs k tree i (leaf_node k i)).
Proof.
  intros I Hi Hins. pose proof (walk_start cs k ins W tree i I Hi Hins) as L.
  unfold leaf_node. apply (init_walk_inv cs k _ k _ tree i (k + i) L).
  apply Nat.div_lt_upper_bound; lia.
Qed.

Lemma init_from_inv cs k n : forall i W tree,
  Inv cs k (fun j => j <? i) W tree -> i + n = k ->
  exists W', Inv cs k (fun j => j <? k) W' (init_from cmp n cs k tree i).
Proof.
  induction n; intros i W tree I Hn; simpl.
  - exists W. assert (E : i = k) by lia. subst i. auto.
  - destruct (insert_inv cs k _ W tree i I) as [W' I']; [lia | apply Nat.ltb_irrefl |].
    apply (IHn (S i) W'); [|lia].
    destruct I'. constructor; auto.
    intros j Hj. rewrite (inv_leaf0 j Hj). unfold upd.
    destruct (Nat.eqb_spec j i), (Nat.ltb_spec j (S i)), (Nat.ltb_spec j i); auto; lia.
Qed.

Lemma nth_repeat_same {X} (x : X) m n : nth n (repeat x m) x = x.
Proof. revert n; induction m; intros [|n]; simpl; auto. Qed.
Lemma nth_repeat_k k n : nth n (repeat k k) k = k.
Proof. apply nth_repeat_same. Qed.

Lemma init_empty_inv cs k : Inv cs k (fun j => j <? 0) (fun _ => None) (repeat k k).
Proof.
  constructor; try discriminate.
  - apply repeat_length.
  - auto.
  - intros n Hn. unfold node_ok. split; auto. apply nth_repeat_k.
Qed.

Definition all_ins (k : nat) : nat -> bool := fun j => j <? k.

Lemma init_inv cs : exists W, Inv cs (length cs) (all_ins (length cs)) W (init_loser_tree cmp cs).
Proof. unfold init_loser_tree. apply (init_from_inv cs (length cs) (length cs) 0 _ _ (init_empty_inv cs _)). lia. Qed.

(* ---------------- what the invariant gives when every stream is inserted ---------------- *)
Lemma all_complete cs k W tree : Inv cs k (all_ins k) W tree ->
  forall d n, 2 * k - n <= d -> 1 <= n < 2 * k -> exists x, W n = Some x.
Proof.
  intros I. induction d; intros n Hd Hn; [lia|].
  destruct (le_lt_dec k n).
  - replace n with (k + (n - k)) by lia. rewrite (inv_leaf _ _ _ _ _ I) by lia.
    unfold all_ins. destruct (Nat.ltb_spec (n - k) k); [eauto | lia].
  - destruct (IHd (2 * n)) as [a Ha]; [lia | lia|]. destruct (IHd (2 * n + 1)) as [b Hb]; [lia | lia|].
    pose proof (inv_node _ _ _ _ _ I n) as N. unfold node_ok in N. rewrite Ha, Hb in N.
    destruct N as (w & _ & Hw & _); [lia|]. eauto.
Qed.

Lemma root_beats_all cs k W tree r : Inv cs k (all_ins k) W tree -> W 1 = Some r ->
  forall d n v, n <= d -> 1 <= n < 2 * k -> W n = Some v -> sle cs r v.
Proof.
  intros I Hr. induction d; intros n v Hd Hn Hv; [lia|].
  destruct (Nat.eq_dec n 1) as [-> | Hn1].
  - rewrite Hr in Hv. inversion Hv. apply sle_refl.
  - assert (Hp : 1 <= n / 2 < k).
    { split; [apply Nat.div_le_lower_bound; lia | apply Nat.div_lt_upper_bound; lia]. }
    destruct (all_complete cs k W tree I (2 * k) (n / 2)) as [u Hu]; [lia | lia |].
    assert (sle cs r u). { apply (IHd (n / 2) u); auto; try lia. pose proof (Nat.div_lt n 2). lia. }
    apply (sle_trans cs r u v); auto.
    pose proof (inv_node _ _ _ _ _ I (n / 2) Hp) as N. unfold node_ok in N.
    destruct (child_cases n) as [E | E]; rewrite <- E in N.
    + rewrite Hv in N. destruct (W (n + 1)); [| destruct N; congruence].
      destruct N as (w & l & Hw & _ & [[-> ->] | [-> ->]] & Hs); rewrite Hu in Hw; inversion Hw; subst; auto.
      apply sle_refl.
    + rewrite Hv in N. destruct (W (2 * (n / 2))); [| destruct N; congruence].
      destruct N as (w & l & Hw & _ & [[-> ->] | [-> ->]] & Hs); rewrite Hu in Hw; inversion Hw; subst; auto.
      apply sle_refl.
Qed.

(* loser_tree[0] is a least stream: its head is minimal among the non-exhausted streams, and among the streams with
   an equal head it has the smallest index; it is exhausted only if all streams are. *)
Lemma inv_winner_min cs k W tree : 1 <= k -> Inv cs k (all_ins k) W tree ->
  nth 0 tree k < k /\ forall j, j < k -> sle cs (nth 0 tree k) j.
Proof.
  intros Hk I. destruct (all_complete cs k W tree I (2 * k) 1) as [r Hr]; [lia | lia|].
  rewrite (inv_root _ _ _ _ _ I r Hr). split.
  - apply (inv_path _ _ _ _ _ I 1 r Hr).
  - intros j Hj. apply (root_beats_all cs k W tree r I Hr (k + j) (k + j) j); auto; try lia.
    rewrite (inv_leaf _ _ _ _ _ I j Hj). unfold all_ins. destruct (Nat.ltb_spec j k); auto; lia.
Qed.


(* ---------------- update_loser_tree ---------------- *)
Lemma Inv_ins_ext cs k ins ins' W tree :
  (forall j, j < k -> ins' j = ins j) -> Inv cs k ins W tree -> Inv cs k ins' W tree.
Proof. intros E I. destruct I. constructor; auto. intros j Hj. rewrite E; auto. Qed.

Lemma sle_agree cs cs' a b : cur cs' a = cur cs a -> cur cs' b = cur cs b -> sle cs a b -> sle cs' a b.
Proof. unfold sle. intros -> ->. auto. Qed.

Lemma inv_all_set cs k W tree : Inv cs k (all_ins k) W tree -> forall m, 1 <= m < k -> nth m tree k <> k.
Proof.
  intros I m Hm. destruct (all_complete cs k W tree I (2 * k) (2 * m)) as [a Ha]; [lia | lia |].
  destruct (all_complete cs k W tree I (2 * k) (2 * m + 1)) as [b Hb]; [lia | lia |].
  pose proof (inv_node _ _ _ _ _ I m Hm) as N. unfold node_ok in N. rewrite Ha, Hb in N.
  destruct N as (w & l & _ & Hl & Hwl & _).
  pose proof (inv_path _ _ _ _ _ I _ _ Ha). pose proof (inv_path _ _ _ _ _ I _ _ Hb).
  destruct Hwl as [[_ ->] | [_ ->]]; lia.
Qed.

(* forget the winner: the same array is a valid tree for the remaining streams, whatever the winner's cursor becomes *)
Definition drop_w (W : nat -> option nat) (w : nat) : nat -> option nat :=
  fun m => match W m with Some x => if x =? w then None else Some x | None => None end.

Lemma remove_winner cs cs' k W tree w :
  1 <= k -> Inv cs k (all_ins k) W tree -> w = nth 0 tree k -> cur cs w <> [] ->
  (forall j, j <> w -> cur cs' j = cur cs j) ->
  Inv cs' k (fun j => (j <? k) && negb (j =? w)) (drop_w W w) tree.
Proof.
  intros Hk I Hw Hne Hag. destruct (inv_winner_min cs k W tree Hk I) as [Hwk Hmin]. rewrite <- Hw in *.
  constructor.
  - apply (inv_len _ _ _ _ _ I).
  - intros j Hj. unfold drop_w. rewrite (inv_leaf _ _ _ _ _ I j Hj). unfold all_ins.
    destruct (Nat.ltb_spec j k); [|lia]. simpl. destruct (j =? w); auto.
  - intros n Hn. destruct (all_complete cs k W tree I (2 * k) (2 * n)) as [a Ha]; [lia | lia |].
    destruct (all_complete cs k W tree I (2 * k) (2 * n + 1)) as [b Hb]; [lia | lia |].
    pose proof (inv_node _ _ _ _ _ I n Hn) as N. unfold node_ok in N. rewrite Ha, Hb in N.
    destruct N as (x & l & Hx & Hl & Hxl & Hs).
    destruct (inv_path _ _ _ _ _ I _ _ Ha) as [Hak Hap]. destruct (inv_path _ _ _ _ _ I _ _ Hb) as [Hbk Hbp].
    unfold node_ok, drop_w. rewrite Ha, Hb, Hx.
    destruct (Nat.eqb_spec a w) as [Ea | Ea]; destruct (Nat.eqb_spec b w) as [Eb | Eb].
    + exfalso. subst a b. apply (onpath_children_excl (k + w) n); auto. lia.
    + subst a. destruct Hxl as [[-> ->] | [-> ->]].
      * rewrite Nat.eqb_refl. auto.
      * exfalso. apply Eb. symmetry. apply (sle_antisym cs w b); auto.
    + subst b. destruct Hxl as [[-> ->] | [-> ->]].
      * exfalso. apply Ea. symmetry. apply (sle_antisym cs w a); auto.
      * rewrite Nat.eqb_refl. auto.
    + assert (x <> w /\ l <> w) as [Hxw Hlw] by (destruct Hxl as [[-> ->] | [-> ->]]; auto).
      destruct (Nat.eqb_spec x w); [contradiction|].
      exists x, l. repeat split; auto. apply (sle_agree cs cs'); auto.
  - intros n x. unfold drop_w. destruct (W n) as [y|] eqn:E; [|discriminate].
    destruct (y =? w); [discriminate|]. intros E'. inversion E'; subst. apply (inv_path _ _ _ _ _ I _ _ E).
  - intros v. unfold drop_w. destruct (W 1) as [y|] eqn:E; [|discriminate].
    destruct (Nat.eqb_spec y w); [discriminate|]. intros E'. inversion E'; subst.
    pose proof (inv_root _ _ _ _ _ I _ E). congruence.
Qed.

Lemma cmp_step_set cs k tree winner n :
  length tree = k -> winner < k -> (forall m, 1 <= m < k -> nth m tree k <> k) ->
  forall m, 1 <= m < k -> nth m (fst (cmp_step cmp cs (tree, winner) n)) k <> k.
Proof.
  intros Hl Hw Hset m Hm. unfold cmp_step. destruct (is_gt cmp cs winner (nth n tree 0)); simpl; auto.
  destruct (Nat.eq_dec n m) as [-> | Hne].
  - rewrite nth_set_nth_eq by lia. lia.
  - rewrite nth_set_nth_neq by auto. auto.
Qed.

Lemma update_walk_inv cs k ins fuel : forall W tree winner c,
  LI cs k ins W tree winner c -> c / 2 < fuel -> (forall m, 1 <= m < k -> nth m tree k <> k) ->
  exists W' c', let r := update_walk cmp fuel cs (tree, winner) (c / 2) in
    LI cs k ins W' (fst (fst r)) (snd (fst r)) c' /\ snd r = c' / 2 /\ c' / 2 <= 1 /\
    (forall m, 1 <= m < k -> nth m (fst (fst r)) k <> k).
Proof.
  induction fuel; intros W tree winner c L Hf Hset; [lia|].
  cbn [update_walk]. destruct (Nat.leb_spec (c / 2) 1) as [Hle | Hgt].
  - exists W, c. simpl. auto.
  - pose proof (li_c _ _ _ _ _ _ _ L) as Hcr.
    assert (Hlt : c / 2 < k) by (apply Nat.div_lt_upper_bound; lia).
    destruct (walk_step cs k ins W tree winner c L) as [W' L']; [lia | apply Hset; lia |].
    assert (Hset' := cmp_step_set cs k tree winner (c / 2) (li_len _ _ _ _ _ _ _ L)
                       (proj1 (li_path _ _ _ _ _ _ _ L c winner (li_win _ _ _ _ _ _ _ L))) Hset).
    destruct (cmp_step cmp cs (tree, winner) (c / 2)) as [t' w'] eqn:Ecs. simpl in L', Hset'.
    apply (IHfuel W' t' w' (c / 2) L'); auto.
    pose proof (Nat.div_lt (c / 2) 2). lia.
Qed.

Lemma update_inv cs cs' k W tree :
  1 <= k -> length cs' = k -> Inv cs k (all_ins k) W tree -> cur cs (nth 0 tree k) <> [] ->
  (forall j, j <> nth 0 tree k -> cur cs' j = cur cs j) ->
  exists W', Inv cs' k (all_ins k) W' (update_loser_tree cmp cs' tree).
Proof.
  intros Hk Hlen I Hne Hag. set (w := nth 0 tree k) in *.
  destruct (inv_winner_min cs k W tree Hk I) as [Hwk _]. fold w in Hwk.
  pose proof (inv_len _ _ _ _ _ I) as Htl.
  pose proof (remove_winner cs cs' k W tree w Hk I eq_refl Hne Hag) as I1.
  assert (Hins : (fun j => (j <? k) && negb (j =? w)) w = false) by (simpl; rewrite Nat.eqb_refl; apply andb_false_r).
  pose proof (walk_start cs' k _ _ tree w I1 Hwk Hins) as L0.
  pose proof (inv_all_set cs k W tree I) as Hset.
  unfold update_loser_tree. rewrite Hlen.
  replace (nth 0 tree 0) with w by (apply nth_indep; lia).
  unfold leaf_node.
  destruct (update_walk_inv cs' k _ k _ tree w (k + w) L0) as (W1 & c1 & HR); auto.
  { apply Nat.div_lt_upper_bound; lia. }
  destruct (update_walk cmp k cs' (tree, w) ((k + w) / 2)) as [[t1 w1] cn] eqn:EU.
  cbv zeta in HR. cbn [fst snd] in HR. destruct HR as (L1 & Hcn & Hc1 & Hset1).
  assert (Hfin : forall W2 t2 w2 c2, LI cs' k (upd (fun j => (j <? k) && negb (j =? w)) w true) W2 t2 w2 c2 -> c2 / 2 = 0 ->
                 exists W', Inv cs' k (all_ins k) W' (set_nth 0 w2 t2)).
  { intros W2 t2 w2 c2 L2 H0. exists W2. apply (Inv_ins_ext cs' k _ _ W2 _) with (2 := walk_root cs' k _ W2 t2 w2 c2 L2 H0).
    intros j Hj. unfold all_ins, upd. destruct (Nat.eqb_spec j w); destruct (Nat.ltb_spec j k); simpl; auto; lia. }
  destruct (Nat.eqb_spec cn 1) as [E1 | E1].
  - pose proof (li_c _ _ _ _ _ _ _ L1) as Hcr.
    assert (Hlt : c1 / 2 < k) by (apply Nat.div_lt_upper_bound; lia).
    destruct (walk_step cs' k _ W1 t1 w1 c1 L1) as [W2 L2]; [lia | apply Hset1; lia |].
    rewrite <- Hcn, E1 in L2.
    destruct (cmp_step cmp cs' (t1, w1) 1) as [t2 w2]. simpl in L2.
    apply (Hfin W2 t2 w2 1 L2). reflexivity.
  - apply (Hfin W1 t1 w1 c1 L1). lia.
Qed.

(* loser_tree_min *)
Lemma sle_is_stream_le cs a b : sle cs a b = stream_le cmp cs a b.
Proof. reflexivity. Qed.

Lemma reach_inv cs tree : lt_reach cmp cs tree -> 1 <= length cs ->
  exists W, Inv cs (length cs) (all_ins (length cs)) W tree.
Proof.
  induction 1 as [cs | cs cs' tree R IH Hlen Hne Hag]; intros Hk.
  - apply init_inv.
  - destruct IH as [W I]; [lia|]. rewrite Hlen.
    assert (E : nth 0 tree 0 = nth 0 tree (length cs)) by (apply nth_indep; rewrite (inv_len _ _ _ _ _ I); lia).
    rewrite E in *. apply (update_inv cs cs' (length cs) W tree); auto. lia.
Qed.

Theorem loser_tree_min cs tree : lt_reach cmp cs tree -> 1 <= length cs ->
  nth 0 tree 0 < length cs /\ forall j, j < length cs -> stream_le cmp cs (nth 0 tree 0) j.
Proof.
  intros R Hk. destruct (reach_inv cs tree R Hk) as [W I].
  assert (E : nth 0 tree 0 = nth 0 tree (length cs)) by (apply nth_indep; rewrite (inv_len _ _ _ _ _ I); lia).
  rewrite E. apply (inv_winner_min cs (length cs) W tree Hk I).
Qed.

(* ------------------------------------------------------------------ the merge *)
Definition cle (x y : A) : Prop := cmp x y <> Gt.

(* output order: by key, ties by stream index *)
Definition tle (p q : nat * A) : Prop :=
  cmp (snd p) (snd q) = Lt \/ (cmp (snd p) (snd q) = Eq /\ fst p <= fst q).

(* the rows of stream i in the output, in output order *)
Definition proj (i : nat) (out : list (nat * A)) : list A := map snd (filter (fun p => fst p =? i) out).

Lemma concat_nil_nth (cs : list (list A)) : concat cs = [] -> forall i, nth i cs [] = [].
Proof.
  induction cs; intros H i; destruct i; simpl in *; auto.
  - apply app_eq_nil in H. tauto.
  - apply app_eq_nil in H. apply IHcs. tauto.
Qed.

Lemma nth_nil_concat (cs : list (list A)) : (forall i, i < length cs -> nth i cs [] = []) -> concat cs = [].
Proof.
  induction cs; intros H; simpl; auto.
  assert (H0 : nth 0 (a :: cs) [] = []) by (apply H; simpl; lia). simpl in H0. subst a. simpl. apply IHcs. intros i Hi. apply (H (S i)). simpl; lia.
Qed.

Lemma concat_set_nth (cs : list (list A)) : forall w x rest, nth w cs [] = x :: rest ->
  Permutation (concat cs) (x :: concat (set_nth w rest cs)).
Proof.
  induction cs; intros w x rest H.
  - destruct w; discriminate.
  - destruct w; simpl in *.
    + subst a. reflexivity.
    + rewrite (IHcs w x rest H). apply Permutation_sym, Permutation_middle.
Qed.

Lemma Forall_set_nth {X} (P : X -> Prop) n v l : Forall P l -> P v -> Forall P (set_nth n v l).
Proof.
  intros H Hv. revert n. induction H; intros [|n]; simpl; auto.
Qed.

Lemma tle_extend x h y w i :
  (cmp x h = Lt \/ (cmp x h = Eq /\ w <= i)) -> cmp h y <> Gt -> cmp x y = Lt \/ (cmp x y = Eq /\ w <= i).
Proof.
  intros [H | [H L]] Hy.
  - left. apply (cmp_lt_le_trans x h y); auto.
  - destruct (cmp h y) eqn:E; try congruence.
    + right. split; auto. apply (cmp_eq_trans x h y); auto.
    + left. apply (cmp_le_lt_trans x h y); congruence.
Qed.

Lemma in_proj i y out : In (i, y) out -> In y (proj i out).
Proof.
  intros H. unfold proj. apply in_map_iff. exists (i, y). split; auto.
  apply filter_In. split; auto. simpl. apply Nat.eqb_refl.
Qed.

Lemma merge_loop_correct : forall fuel cs tree W,
  1 <= length cs -> Inv cs (length cs) (all_ins (length cs)) W tree ->
  Forall (StronglySorted cle) cs -> total cs <= fuel ->
  let out := merge_loop cmp fuel cs tree in
  StronglySorted tle out /\ (forall i, proj i out = cur cs i) /\ Permutation (map snd out) (concat cs).
Proof.
  induction fuel; intros cs tree W Hk I Hsorted Hfuel.
  - assert (E : concat cs = []) by (unfold total in Hfuel; destruct (concat cs); simpl in *; auto; lia).
    simpl. repeat split; [constructor | | rewrite E; constructor].
    intros i. unfold cur. now rewrite concat_nil_nth.
  - destruct (inv_winner_min cs _ W tree Hk I) as [Hwk Hmin].
    pose proof (inv_len _ _ _ _ _ I) as Htl.
    cbn [merge_loop]. replace (nth 0 tree 0) with (nth 0 tree (length cs)) by (apply nth_indep; lia).
    set (w := nth 0 tree (length cs)) in *.
    destruct (cur cs w) as [|x rest] eqn:Ew.
    + (* the winner is exhausted: so is every stream *)
      assert (Hall : forall j, j < length cs -> nth j cs [] = []).
      { intros j Hj. pose proof (Hmin j Hj) as S. unfold sle in S. rewrite Ew in S.
        unfold cur in S. destruct (nth j cs []); auto. contradiction. }
      repeat split; [constructor | | rewrite (nth_nil_concat cs Hall); constructor].
      intros i. unfold cur. simpl. destruct (Nat.lt_ge_cases i (length cs)); [now rewrite Hall | now rewrite nth_overflow].
    + remember (set_nth w rest cs) as cs' eqn:Ecs'.
      assert (Hlen' : length cs' = length cs) by (rewrite Ecs'; apply set_nth_length).
      assert (Hag : forall j, j <> w -> cur cs' j = cur cs j).
      { intros j Hj. unfold cur. rewrite Ecs'. apply nth_set_nth_neq. auto. }
      assert (Hcw : cur cs' w = rest) by (unfold cur; rewrite Ecs'; apply nth_set_nth_eq; auto).
      destruct (update_inv cs cs' (length cs) W tree Hk Hlen' I) as [W' I']; auto.
      { fold w. rewrite Ew. discriminate. }
      assert (Hxs : StronglySorted cle (x :: rest)).
      { rewrite <- Ew. unfold cur. apply (proj1 (Forall_forall _ _) Hsorted). apply nth_In. auto. }
      assert (Hsorted' : Forall (StronglySorted cle) cs').
      { rewrite Ecs'. apply Forall_set_nth; auto. now inversion Hxs. }
      pose proof (concat_set_nth cs w x rest Ew) as Hperm.
      assert (Hfuel' : total cs' <= fuel).
      { unfold total in *. apply Permutation_length in Hperm. simpl in Hperm. rewrite <- Ecs' in Hperm. lia. }
      rewrite <- Hlen' in I'.
      assert (Hk' : 1 <= length cs') by lia.
      pose proof (IHfuel cs' (update_loser_tree cmp cs' tree) W' Hk' I' Hsorted' Hfuel') as IH.
      cbv zeta in IH. destruct IH as (S1 & P1 & M1).
      repeat split.
      * constructor; auto. apply Forall_forall. intros [i y] Hin.
        apply in_proj in Hin. rewrite P1 in Hin. unfold tle. simpl.
        destruct (Nat.eq_dec i w) as [-> | Hiw].
        -- rewrite Hcw in Hin. inversion Hxs; subst.
           pose proof (proj1 (Forall_forall _ _) H2 y Hin) as Hle. unfold cle in Hle.
           destruct (cmp x y); auto; congruence.
        -- rewrite (Hag i Hiw) in Hin.
           assert (Hik : i < length cs).
           { destruct (Nat.lt_ge_cases i (length cs)); auto. unfold cur in Hin. rewrite nth_overflow in Hin by auto. contradiction. }
           pose proof (Hmin i Hik) as S. unfold sle in S. rewrite Ew in S.
           assert (Hsi : StronglySorted cle (cur cs i)).
           { unfold cur. apply (proj1 (Forall_forall _ _) Hsorted). apply nth_In. auto. }
           destruct (cur cs i) as [|h t]; [contradiction|].
           destruct Hin as [<- | Hin]; auto.
           inversion Hsi; subst. apply (tle_extend x h y w i S).
           apply (proj1 (Forall_forall _ _) H2 y Hin).
      * intros i. unfold proj. cbn [filter fst]. destruct (Nat.eqb_spec w i) as [<- | Hne].
        -- cbn [map snd]. fold (proj w (merge_loop cmp fuel cs' (update_loser_tree cmp cs' tree))).
           rewrite P1, Hcw. auto.
        -- fold (proj i (merge_loop cmp fuel cs' (update_loser_tree cmp cs' tree))). rewrite P1. apply Hag. auto.
      * cbn [map snd]. rewrite Hperm. rewrite <- Ecs'. apply perm_skip. exact M1.
Qed.

Lemma Sorted_SS (l : list A) : Sorted cle l -> StronglySorted cle l.
Proof. apply Sorted_StronglySorted. intros x y z. unfold cle. apply cmp_trans. Qed.

(* merge_sorted_perm *)
Theorem merge_correct (cs : list (list A)) :
  Forall (Sorted cle) cs ->
  let out := lt_merge_idx cmp cs None in
  StronglySorted tle out /\ (forall i, proj i out = cur cs i) /\ Permutation (map snd out) (concat cs).
Proof.
  intros Hs. unfold lt_merge_idx. destruct cs as [|c0 cs0] eqn:Ecs.
  - simpl. repeat split; try constructor. intros [|i]; reflexivity.
  - rewrite <- Ecs in *. destruct (init_inv cs) as [W I].
    apply (merge_loop_correct (total cs) cs _ W); auto.
    + subst cs. simpl. lia.
    + apply Forall_forall. intros l Hl. apply Sorted_SS. apply (proj1 (Forall_forall _ _) Hs l Hl).
Qed.

Lemma tle_le_map out : StronglySorted tle out -> StronglySorted cle (map snd out).
Proof.
  induction 1; simpl; constructor; auto.
  apply Forall_forall. intros y Hy. apply in_map_iff in Hy. destruct Hy as (q & <- & Hq).
  pose proof (proj1 (Forall_forall _ _) H0 q Hq) as T. unfold tle, cle in *. destruct T as [-> | [-> _]]; discriminate.
Qed.

Theorem lt_merge_sorted_perm (cs : list (list A)) :
  Forall (Sorted cle) cs ->
  StronglySorted cle (lt_merge cmp cs None) /\ Permutation (lt_merge cmp cs None) (concat cs).
Proof.
  intros Hs. destruct (merge_correct cs Hs) as (S1 & _ & P1). split; auto. now apply tle_le_map.
Qed.

Lemma merge_loop_firstn : forall f F cs tree,
  merge_loop cmp (Nat.min f F) cs tree = firstn f (merge_loop cmp F cs tree).
Proof.
  induction f; intros F cs tree; [reflexivity|].
  destruct F; [reflexivity|].
  cbn [Nat.min merge_loop]. destruct (cur cs (nth 0 tree 0)); [reflexivity|].
  cbn [firstn]. f_equal. apply IHf.
Qed.

(* a fetch limit cuts the merged sequence and nothing else *)
Theorem lt_merge_fetch cs f : lt_merge cmp cs (Some f) = firstn f (lt_merge cmp cs None).
Proof. unfold lt_merge, lt_merge_idx. rewrite merge_loop_firstn. symmetry. apply firstn_map. Qed.

End Proofs.

(* ------------------------------------------------------------------ lists again *)
Lemma SSorted_app_inv {X} (R : X -> X -> Prop) l1 l2 :
  StronglySorted R (l1 ++ l2) ->
  StronglySorted R l1 /\ StronglySorted R l2 /\ forall a b, In a l1 -> In b l2 -> R a b.
Proof.
  induction l1; simpl; intros H.
  - repeat split; auto. constructor. intros a b [].
  - inversion H; subst. destruct (IHl1 H2) as (S1 & S2 & S3). repeat split; auto.
    + constructor; auto. apply Forall_forall. intros y Hy. apply (proj1 (Forall_forall _ _) H3). apply in_or_app; auto.
    + intros x b [<- | Hx] Hb; auto. apply (proj1 (Forall_forall _ _) H3). apply in_or_app; auto.
Qed.

Lemma Forall_firstn_skipn {X} (P : X -> Prop) n l : Forall P l -> Forall P (firstn n l) /\ Forall P (skipn n l).
Proof. intros H. rewrite <- (firstn_skipn n l) in H. now apply Forall_app in H. Qed.

Section Proofs2.
Context {A : Type} (cmp : A -> A -> comparison).
Hypothesis Hcmp : total_preorder cmp.

(* ---------------- sorted runs merged in groups ---------------- *)
Theorem multi_level_sorted_perm : forall gs queue,
  Forall (Sorted (cle cmp)) queue ->
  StronglySorted (cle cmp) (multi_level cmp gs queue) /\ Permutation (multi_level cmp gs queue) (concat queue).
Proof.
  induction gs as [|g gs IH]; intros queue Hq; cbn [multi_level].
  - now apply lt_merge_sorted_perm.
  - destruct (length queue <=? Nat.max 2 g); [now apply lt_merge_sorted_perm|].
    set (g' := Nat.max 2 g).
    destruct (Forall_firstn_skipn _ g' queue Hq) as [Hf Hs].
    destruct (lt_merge_sorted_perm cmp Hcmp (firstn g' queue) Hf) as [S1 P1].
    destruct (IH (skipn g' queue ++ [lt_merge cmp (firstn g' queue) None])) as [S2 P2].
    + apply Forall_app. split; auto. constructor; auto. now apply StronglySorted_Sorted.
    + split; auto. rewrite P2, concat_app. simpl. rewrite app_nil_r, P1.
      rewrite Permutation_app_comm, <- concat_app, firstn_skipn. reflexivity.
Qed.

(* external_sort_eq_sort *)
Theorem external_sort_sorted_perm (srt : list A -> list A) :
  (forall l, Sorted (cle cmp) (srt l) /\ Permutation (srt l) l) ->
  forall gs chunks,
    StronglySorted (cle cmp) (external_sort cmp srt gs chunks) /\
    Permutation (external_sort cmp srt gs chunks) (concat chunks).
Proof.
  intros Hsrt gs chunks. unfold external_sort.
  destruct (multi_level_sorted_perm gs (map srt chunks)) as [S P].
  - apply Forall_forall. intros l Hl. apply in_map_iff in Hl. destruct Hl as (c & <- & _). apply Hsrt.
  - split; auto. rewrite P. clear - Hsrt. induction chunks; simpl; auto. apply Permutation_app; auto. apply Hsrt.
Qed.

(* ---------------- TopK ---------------- *)
Lemma ins_sorted_perm x l : Permutation (ins_sorted cmp x l) (x :: l).
Proof.
  induction l as [|y r IH]; simpl; auto.
  destruct (cmp x y); auto; rewrite IH; apply perm_swap.
Qed.

Lemma ins_sorted_sorted x l : StronglySorted (cle cmp) l -> StronglySorted (cle cmp) (ins_sorted cmp x l).
Proof.
  induction 1 as [|y r Hr IH Hy]; simpl.
  - constructor; constructor.
  - destruct (cmp x y) eqn:E.
    + constructor; auto. apply Forall_forall. intros z Hz.
      apply (Permutation_in _ (ins_sorted_perm x r)) in Hz. destruct Hz as [<- | Hz].
      * unfold cle. rewrite (cmp_sym cmp Hcmp x y), E. discriminate.
      * apply (proj1 (Forall_forall _ _) Hy z Hz).
    + constructor; [constructor; auto|]. constructor.
      * unfold cle. rewrite E. discriminate.
      * apply Forall_forall. intros z Hz. pose proof (proj1 (Forall_forall _ _) Hy z Hz) as Hyz.
        unfold cle in *. apply (cmp_trans cmp Hcmp x y z); auto. rewrite E. discriminate.
    + constructor; auto. apply Forall_forall. intros z Hz.
      apply (Permutation_in _ (ins_sorted_perm x r)) in Hz. destruct Hz as [<- | Hz].
      * unfold cle. rewrite (cmp_sym cmp Hcmp x y), E. discriminate.
      * apply (proj1 (Forall_forall _ _) Hy z Hz).
Qed.

(* h is a valid top-k of the rows seen so far *)
Definition topk_valid (k : nat) (seen h : list A) : Prop :=
  StronglySorted (cle cmp) h /\ length h = Nat.min k (length seen) /\
  exists rest, Permutation (h ++ rest) seen /\ forall x y, In x h -> In y rest -> (cle cmp) x y.

Lemma topk_valid_perm k s s' h : Permutation s s' -> topk_valid k s h -> topk_valid k s' h.
Proof.
  intros P (S & L & rest & PR & B). repeat split; auto.
  - now rewrite <- (Permutation_length P).
  - exists rest. split; auto. now rewrite PR.
Qed.

Lemma topk_add_valid k seen h x : 1 <= k -> topk_valid k seen h -> topk_valid k (x :: seen) (topk_add cmp k h x).
Proof.
  intros Hk (S & L & rest & PR & B). unfold topk_add.
  pose proof (Permutation_length PR) as PL. rewrite app_length in PL.
  destruct (Nat.ltb_spec (length h) k) as [Hlt | Hge].
  - (* the heap is not full: nothing was excluded so far *)
    assert (rest = []) by (destruct rest; auto; simpl in *; lia). subst rest. rewrite app_nil_r in PR.
    repeat split.
    + now apply ins_sorted_sorted.
    + rewrite (Permutation_length (ins_sorted_perm x h)). simpl. lia.
    + exists []. split; [| intros ? ? _ []]. rewrite app_nil_r, ins_sorted_perm. now apply perm_skip.
  - assert (Hhk : length h = k) by lia.
    destruct (rev h) as [|m r'] eqn:Er.
    { apply (f_equal (@length A)) in Er. rewrite rev_length in Er. simpl in Er. lia. }
    assert (Eh : h = rev r' ++ [m]) by (rewrite <- (rev_involutive h), Er; reflexivity).
    rewrite Eh in S. destruct (SSorted_app_inv _ _ _ S) as (S1 & _ & S3).
    assert (Hmax : forall z, In z h -> (cle cmp) z m).
    { intros z Hz. rewrite Eh in Hz. apply in_app_or in Hz. destruct Hz as [Hz | [<- | []]].
      - apply S3; simpl; auto.
      - unfold cle. rewrite (cmp_refl cmp Hcmp). discriminate. }
    destruct (cmp x m) eqn:E.
    + (* x = max: rejected *)
      repeat split; try (rewrite <- Eh in S; auto); try (simpl; lia).
      exists (x :: rest). split.
      * rewrite <- Permutation_middle. now apply perm_skip.
      * intros z y Hz [Hy | Hy]; [subst y | now apply B].
        pose proof (Hmax z Hz) as Hzm. unfold cle in *. apply (cmp_trans cmp Hcmp z m x); auto.
        rewrite (cmp_sym cmp Hcmp x m), E. discriminate.
    + (* x < max: the max is evicted *)
      repeat split.
      * now apply ins_sorted_sorted.
      * rewrite (Permutation_length (ins_sorted_perm x (rev r'))). simpl.
        rewrite Eh, app_length in Hhk. simpl in Hhk. lia.
      * exists (m :: rest). split.
        -- rewrite ins_sorted_perm. simpl. apply perm_skip. rewrite <- PR, Eh, <- app_assoc. reflexivity.
        -- intros z y Hz Hy. apply (Permutation_in _ (ins_sorted_perm x (rev r'))) in Hz.
           assert (Hzm : (cle cmp) z m).
           { destruct Hz as [<- | Hz]; [unfold cle; rewrite E; discriminate|].
             apply Hmax. rewrite Eh. apply in_or_app; auto. }
           destruct Hy as [<- | Hy]; auto.
           assert (Hmy : (cle cmp) m y) by (apply B; auto; rewrite Eh; apply in_or_app; simpl; auto).
           unfold cle in *. apply (cmp_trans cmp Hcmp z m y); auto.
    + (* x > max: rejected *)
      repeat split; try (rewrite <- Eh in S; auto); try (simpl; lia).
      exists (x :: rest). split.
      * rewrite <- Permutation_middle. now apply perm_skip.
      * intros z y Hz [Hy | Hy]; [subst y | now apply B].
        pose proof (Hmax z Hz) as Hzm. unfold cle in *. apply (cmp_trans cmp Hcmp z m x); auto.
        rewrite (cmp_sym cmp Hcmp x m), E. discriminate.
Qed.

Lemma topk_fold_valid k : 1 <= k -> forall l seen h,
  topk_valid k seen h -> topk_valid k (rev l ++ seen) (fold_left (topk_add cmp k) l h).
Proof.
  intros Hk. induction l; intros seen h V; simpl; auto.
  rewrite <- app_assoc. simpl. apply IHl. now apply topk_add_valid.
Qed.

Lemma topk_batches_valid k : 1 <= k -> forall bs seen h,
  topk_valid k seen h ->
  exists seen', Permutation seen' (concat bs ++ seen) /\
    topk_valid k seen' (fold_left (fun h b => fold_left (topk_add cmp k) b h) bs h).
Proof.
  intros Hk. induction bs as [|b bs IH]; intros seen h V; simpl.
  - exists seen. split; auto.
  - destruct (IH (rev b ++ seen) _ (topk_fold_valid k Hk b seen h V)) as (s' & P & V').
    exists s'. split; auto. rewrite P, <- (Permutation_rev b), !app_assoc.
    apply Permutation_app_tail. apply Permutation_app_comm.
Qed.

(* topk_eq_firstn_sort *)
Theorem topk_is_valid k batches : 1 <= k -> topk_valid k (concat batches) (topk cmp k batches).
Proof.
  intros Hk. unfold topk.
  destruct (topk_batches_valid k Hk batches [] []) as (s' & P & V).
  - split; [constructor|]. split; [simpl; lia|]. exists []. split; auto. intros ? ? [].
  - rewrite app_nil_r in P. now apply (topk_valid_perm k s').
Qed.

(* ---------------- the sortedness checker ---------------- *)
Lemma sortedb_Sorted l : sortedb cmp l = true <-> Sorted (cle cmp) l.
Proof.
  induction l as [|x r IH]; simpl.
  - split; auto.
  - destruct r as [|y r'].
    + split; auto.
    + rewrite andb_true_iff, IH, (leb_true cmp). split.
      * intros [H1 H2]. constructor; auto.
      * intros H. inversion H; subst. inversion H3; subst. auto.
Qed.

End Proofs2.

(* ------------------------------------------------------------------ the comparator of cursor.rs *)
Lemma cmp_val_total_preorder o : total_preorder (cmp_val o).
Proof.
  split.
  - intros [x|] [y|]; unfold cmp_val; destruct (s_nulls_first o), (s_desc o); simpl; auto; apply Z.compare_antisym.
  - intros [x|] [y|] [z|]; unfold cmp_val; destruct (s_nulls_first o), (s_desc o); simpl; try congruence;
      rewrite !Z.compare_le_iff; lia.
Qed.

Lemma cmp_val_eq o a b : cmp_val o a b = Eq <-> a = b.
Proof.
  destruct a as [x|], b as [y|]; unfold cmp_val; destruct (s_nulls_first o), (s_desc o); simpl;
    split; try congruence; try (rewrite Z.compare_eq_iff; congruence); intros E; inversion E; apply Z.compare_refl.
Qed.

(* comparator_total_preorder *)
Theorem cmp_key_total_preorder os : total_preorder (cmp_key os).
Proof.
  induction os as [|o os IH].
  - split; simpl; intros; congruence.
  - destruct IH as [IHs IHt]. pose proof (cmp_val_total_preorder o) as Hv. split.
    + intros a b. simpl. rewrite (cmp_sym _ Hv (hd None a) (hd None b)).
      destruct (cmp_val o (hd None a) (hd None b)); simpl; auto.
    + intros a b c. simpl.
      destruct (cmp_val o (hd None a) (hd None b)) eqn:E1; destruct (cmp_val o (hd None b) (hd None c)) eqn:E2;
        try congruence.
      * rewrite (cmp_eq_trans _ Hv _ _ _ E1 E2). apply IHt.
      * rewrite (cmp_le_lt_trans _ Hv (hd None a) (hd None b) (hd None c)); congruence.
      * rewrite (cmp_lt_le_trans _ Hv (hd None a) (hd None b) (hd None c)); congruence.
      * rewrite (cmp_lt_le_trans _ Hv (hd None a) (hd None b) (hd None c)); congruence.
Qed.

(* equal under the comparator = equal on the sort columns *)
Theorem cmp_key_eq os : forall a b,
  cmp_key os a b = Eq <-> forall i, i < length os -> nth i a None = nth i b None.
Proof.
  induction os as [|o os IH]; intros a b; simpl.
  - split; auto. intros _ i Hi. lia.
  - assert (Hhd : forall l : list (option Z), hd None l = nth 0 l None) by (intros [|? ?]; reflexivity).
    assert (Htl : forall (l : list (option Z)) i, nth i (tl l) None = nth (S i) l None) by (intros [|? ?] [|?]; reflexivity).
    destruct (cmp_val o (hd None a) (hd None b)) eqn:E.
    + apply cmp_val_eq in E. rewrite IH. split.
      * intros H [|i] Hi; [now rewrite <- !Hhd | rewrite <- !Htl; apply H; lia].
      * intros H i Hi. rewrite !Htl. apply H. lia.
    + split; [discriminate|]. intros H. specialize (H 0 ltac:(lia)). rewrite <- !Hhd in H.
      apply (proj2 (cmp_val_eq o _ _)) in H. congruence.
    + split; [discriminate|]. intros H. specialize (H 0 ltac:(lia)). rewrite <- !Hhd in H.
      apply (proj2 (cmp_val_eq o _ _)) in H. congruence.
Qed.

Lemma cmp_row_total_preorder os : total_preorder (cmp_row os).
Proof.
  destruct (cmp_key_total_preorder os) as [S T]. split; unfold cmp_row; intros; [apply S | eapply T; eauto].
Qed.

(* ------------------------------------------------------------------ the checker used on observed outputs *)
Lemma oz_eqb_eq a b : oz_eqb a b = true -> a = b.
Proof. destruct a, b; simpl; try discriminate; auto. intros H. apply Z.eqb_eq in H. congruence. Qed.

Lemma list_eqb_eq {X} (e : X -> X -> bool) : (forall a b, e a b = true -> a = b) ->
  forall l1 l2, list_eqb e l1 l2 = true -> l1 = l2.
Proof.
  intros He. induction l1; destruct l2; simpl; try discriminate; auto.
  intros H. apply andb_true_iff in H. destruct H as [H1 H2]. f_equal; auto.
Qed.

Lemma row_eqb_eq a b : row_eqb a b = true -> a = b.
Proof.
  unfold row_eqb. intros H. apply andb_true_iff in H. destruct H as [H1 H2].
  apply (list_eqb_eq _ oz_eqb_eq) in H1. apply Z.eqb_eq in H2. destruct a, b; simpl in *; congruence.
Qed.

Lemma remove_first_perm x : forall l r, remove_first x l = Some r -> Permutation l (x :: r).
Proof.
  induction l as [|y l IH]; simpl; intros r H; [discriminate|].
  destruct (row_eqb x y) eqn:E.
  - apply row_eqb_eq in E. inversion H; subst. reflexivity.
  - destruct (remove_first x l) as [r'|]; [|discriminate]. inversion H; subst.
    rewrite (IH r' eq_refl). apply perm_swap.
Qed.

Lemma remove_all_perm : forall l1 l2 rest, remove_all l1 l2 = Some rest -> Permutation l2 (l1 ++ rest).
Proof.
  induction l1 as [|x l1 IH]; simpl; intros l2 rest H.
  - inversion H; reflexivity.
  - destruct (remove_first x l2) as [l2'|] eqn:E; [|discriminate].
    rewrite (remove_first_perm x l2 l2' E). apply perm_skip. now apply IH.
Qed.

(* the declarative statement: [out] is a correct answer of ORDER BY os [LIMIT f] over [input] *)
Definition sort_spec (os : list sopt) (input : list row) (fetch : option nat) (out : list row) : Prop :=
  StronglySorted (cle (cmp_row os)) out /\
  match fetch with
  | None => Permutation out input
  | Some f => length out = Nat.min f (length input) /\
              exists rest, Permutation (out ++ rest) input /\
                           forall x y, In x out -> In y rest -> cle (cmp_row os) x y
  end.

(* is_sorted_perm_check_sound *)
Theorem sort_check_sound os input fetch out : sort_check os input fetch out = true -> sort_spec os input fetch out.
Proof.
  unfold sort_check, sort_spec. intros H. apply andb_true_iff in H. destruct H as [H1 H2].
  split.
  - apply (Sorted_SS _ (cmp_row_total_preorder os)). now apply sortedb_Sorted.
  - destruct (remove_all out input) as [rest|] eqn:E; [|discriminate].
    apply remove_all_perm in E. destruct fetch as [f|].
    + apply andb_true_iff in H2. destruct H2 as [H2 H3]. apply Nat.eqb_eq in H2. split; auto.
      exists rest. split; [now symmetry|]. intros x y Hx Hy.
      rewrite forallb_forall in H3. specialize (H3 y Hy). rewrite forallb_forall in H3.
      apply (leb_true (cmp_row os)). now apply H3.
    + destruct rest; [|discriminate]. rewrite app_nil_r in E. now symmetry.
Qed.
