(* C53 -- proofs about the counting wrapper and the monitor. *)
From Coq Require Import ZArith List Bool Lia.
From DF Require Import Base.Prelude Model.MetricsCount.
Import ListNotations.
Open Scope Z_scope.

(* ---------------------------------------------------------------- record_poll *)
Lemma record_poll_passthrough : forall s p, snd (record_poll s p) = p.
Proof. intros s p; destruct p; reflexivity. Qed.

Lemma record_poll_step : forall s p,
  let s' := fst (record_poll s p) in
  out_rows s' = out_rows s + rows_of p /\
  out_batches s' = out_batches s + (if is_batch p then 1 else 0) /\
  done s' = done s || is_end p.
Proof.
  intros s p; destruct p; cbn; repeat split; try lia;
    try (now rewrite orb_false_r); now rewrite orb_true_r.
Qed.

Lemma delivered_batches_cons : forall p h,
  delivered_batches (p :: h) = (if is_batch p then 1 else 0) + delivered_batches h.
Proof.
  intros p h; unfold delivered_batches; cbn [filter].
  destruct (is_batch p); cbn [length]; lia.
Qed.

(* after ANY poll history: the outputs are the inner stream's poll results, unchanged; the counter
   is the sum of the rows of the batches delivered; end time set iff an end/err was delivered *)
Theorem run_wrapped_exact : forall h s,
  snd (run_wrapped s h) = h /\
  out_rows (fst (run_wrapped s h)) = out_rows s + delivered_rows h /\
  out_batches (fst (run_wrapped s h)) = out_batches s + delivered_batches h /\
  done (fst (run_wrapped s h)) = done s || finished h.
Proof.
  induction h as [|p r IH]; intros s.
  - cbn. repeat split; try lia. now rewrite orb_false_r.
  - cbn [run_wrapped].
    pose proof (record_poll_passthrough s p) as Hp.
    pose proof (record_poll_step s p) as Hs. cbv zeta in Hs.
    destruct (record_poll s p) as [s1 o] eqn:E. cbn [fst snd] in *.
    specialize (IH s1). destruct (run_wrapped s1 r) as [s2 os] eqn:E2. cbn [fst snd] in *.
    destruct IH as (I1 & I2 & I3 & I4). destruct Hs as (H1 & H2 & H3).
    rewrite delivered_batches_cons.
    repeat split.
    + subst; reflexivity.
    + cbn [delivered_rows fold_right]. fold (delivered_rows r). lia.
    + lia.
    + rewrite I4, H3. cbn [finished existsb]. fold (finished r). now rewrite orb_assoc.
Qed.

Corollary record_poll_counts_exactly : forall h,
  snd (run_wrapped bm0 h) = h /\ out_rows (fst (run_wrapped bm0 h)) = delivered_rows h.
Proof.
  intros h. destruct (run_wrapped_exact h bm0) as (A & B & _). split; [exact A|]. rewrite B. reflexivity.
Qed.

(* the count after a prefix of the history never exceeds ... is exactly the prefix's delivery: histories compose *)
Lemma run_wrapped_app : forall h1 h2 s,
  run_wrapped s (h1 ++ h2) =
  let '(s1, o1) := run_wrapped s h1 in let '(s2, o2) := run_wrapped s1 h2 in (s2, o1 ++ o2).
Proof.
  induction h1 as [|p r IH]; intros h2 s; cbn [run_wrapped app].
  - destruct (run_wrapped s h2); reflexivity.
  - destruct (record_poll s p) as [s1 o]. rewrite IH.
    destruct (run_wrapped s1 r) as [s2 os]. destruct (run_wrapped s2 h2); reflexivity.
Qed.

(* once finished, further end-of-stream / pending polls change nothing *)
Theorem record_poll_idempotent_done : forall s p,
  done s = true -> (p = ReadyNone \/ p = ReadyErr \/ p = Pending) -> fst (record_poll s p) = s.
Proof.
  intros [r b d] p Hd Hp; cbn in Hd; subst d.
  destruct Hp as [Hp|[Hp|Hp]]; subst p; reflexivity.
Qed.

Theorem repeated_none_stable : forall k s,
  done s = true -> fst (run_wrapped s (repeat ReadyNone k)) = s.
Proof.
  induction k as [|k IH]; intros s Hd; cbn [repeat run_wrapped].
  - reflexivity.
  - pose proof (record_poll_idempotent_done s ReadyNone Hd (or_introl eq_refl)) as E.
    destruct (record_poll s ReadyNone) as [s1 o]. cbn [fst] in E. subst s1.
    specialize (IH s Hd). destruct (run_wrapped s (repeat ReadyNone k)). cbn [fst] in *. exact IH.
Qed.

Lemma drop_sets_done : forall s, done (drop_bm s) = true /\ out_rows (drop_bm s) = out_rows s.
Proof. intros [r b d]; unfold drop_bm; cbn; destruct d; cbn; auto. Qed.

(* ---------------------------------------------------------------- wrappers in series *)
Lemma run_series_length : forall ss h, length (fst (run_series ss h)) = length ss.
Proof.
  induction ss as [|s r IH]; intros h; cbn [run_series]; [reflexivity|].
  destruct (run_wrapped s h) as [s' o]. specialize (IH o). destruct (run_series r o). cbn in *. lia.
Qed.

(* every wrapper of a series counts exactly the delivered rows in ITS OWN counter, and the stream is unchanged *)
Theorem no_double_count_under_composition : forall ss h,
  snd (run_series ss h) = h /\
  Forall2 (fun s s' => out_rows s' = out_rows s + delivered_rows h) ss (fst (run_series ss h)).
Proof.
  induction ss as [|s r IH]; intros h; cbn [run_series].
  - split; [reflexivity|constructor].
  - destruct (run_wrapped_exact h s) as (A & B & _).
    destruct (run_wrapped s h) as [s' o]. cbn [fst snd] in *. subst o.
    specialize (IH h). destruct (run_series r h) as [r' o']. cbn [fst snd] in *.
    destruct IH as [I1 I2]. split; [exact I1|]. constructor; assumption.
Qed.

(* but a node that registers k wrappers of the same stream in its metrics set reports k times the rows *)
Theorem series_registered_together_reports_k_times : forall k h,
  reported_sum (fst (run_series (repeat bm0 k) h)) = Z.of_nat k * delivered_rows h.
Proof.
  induction k as [|k IH]; intros h.
  - cbn. lia.
  - cbn [repeat run_series].
    destruct (run_wrapped_exact h bm0) as (A & B & _).
    destruct (run_wrapped bm0 h) as [s' o]. cbn [fst snd] in *. subst o.
    specialize (IH h). destruct (run_series (repeat bm0 k) h) as [r' o']. cbn [fst] in *.
    cbn [reported_sum fold_right]. fold (reported_sum r'). rewrite IH, B. cbn [out_rows bm0]. lia.
Qed.

Corollary double_registration_detected : forall h,
  delivered_rows h <> 0 -> reported_sum (fst (run_series [bm0; bm0] h)) <> delivered_rows h.
Proof.
  intros h Hn. change [bm0; bm0] with (repeat bm0 2).
  rewrite series_registered_together_reports_k_times. lia.
Qed.

(* ---------------------------------------------------------------- monitor *)
Lemma node_ok_iff : forall t, node_ok t = true <-> node_exact t.
Proof.
  intros [r p f k]; unfold node_ok, node_exact; cbn.
  destruct r as [r|]; [|split; [intros _ r' H; discriminate|reflexivity]].
  destruct f.
  - rewrite Z.eqb_eq. split.
    + intros E r' H _. injection H as <-. exact E.
    + intros H. apply H; reflexivity.
  - split; [intros _ r' _ H; discriminate|reflexivity].
Qed.

(* induction principle for the nested inductive *)
Fixpoint obs_rect' (P : obs -> Prop)
  (H : forall r p f kids, Forall P kids -> P (Node r p f kids)) (t : obs) {struct t} : P t :=
  match t with
  | Node r p f kids =>
      H r p f kids ((fix go (l : list obs) : Forall P l :=
                       match l with
                       | [] => Forall_nil P
                       | x :: xs => Forall_cons x (obs_rect' P H x) (go xs)
                       end) kids)
  end.

Theorem monitor_sound : forall t, monitor_ok t = true <-> metrics_exact t.
Proof.
  intros t. induction t as [r p f kids IH] using obs_rect'.
  cbn [monitor_ok]. rewrite andb_true_iff, forallb_forall, node_ok_iff.
  unfold metrics_exact. split.
  - intros [Hn Hk] n Hs. inversion Hs; subst.
    + exact Hn.
    + cbn in H. rewrite Forall_forall in IH.
      apply (proj1 (IH k H) (Hk k H)). assumption.
  - intros H. split.
    + apply H. constructor.
    + intros k Hin. rewrite Forall_forall in IH. apply (IH k Hin).
      intros n Hs. apply H. econstructor 2; [exact Hin|exact Hs].
Qed.

(* what a passing monitor says about the totals: reported equals the sum over partitions *)
Corollary sum_partitions_eq : forall t n r,
  monitor_ok t = true -> subnode n t -> o_reported n = Some r -> o_full n = true ->
  r = zsum (o_produced n).
Proof. intros t n r H Hs Hr Hf. apply (proj1 (monitor_sound t) H n Hs r Hr Hf). Qed.

(* the wrapper theorem stated on an observation: a leaf whose single partition is a wrapped stream
   read to its end satisfies the monitor *)
Corollary wrapped_leaf_passes : forall h,
  monitor_ok (Node (Some (out_rows (fst (run_wrapped bm0 h)))) [delivered_rows h] true []) = true.
Proof.
  intros h. destruct (record_poll_counts_exactly h) as [_ E]. rewrite E.
  cbn. rewrite Z.add_0_r, Z.eqb_refl. reflexivity.
Qed.
