(* C10 -- index vectors, partition_grouped_take, the hash router, round robin *)
From Coq Require Import List ZArith Bool Arith Lia Sorted Permutation.
From DF Require Import Base.Prelude Base.Bits Gen.StrengthReduced Proofs.StrengthReducedProofs
  Model.Repartition Proofs.RepartitionProofs.
Import ListNotations.
Close Scope Z_scope.
Open Scope nat_scope.

(* ================================================================== C. index vectors *)
(* indices (starting at i) of the entries of parts equal to p *)
Fixpoint sel (i : nat) (parts : list nat) (p : nat) : list nat :=
  match parts with
  | [] => []
  | q :: r => if q =? p then i :: sel (S i) r p else sel (S i) r p
  end.

Lemma push_at_length : forall ind p i, length (push_at p i ind) = length ind.
Proof. induction ind as [|v r IH]; intros [|p] i; simpl; auto. Qed.

Lemma push_at_nth : forall ind p i q, q < length ind ->
  nth q (push_at p i ind) [] = if q =? p then nth q ind [] ++ [i] else nth q ind [].
Proof.
  induction ind as [|v r IH]; intros p i q H; simpl in H; [lia|].
  destruct p as [|p]; destruct q as [|q]; simpl; auto.
  apply IH. lia.
Qed.

Lemma route_from_length : forall parts i ind, length (route_from i parts ind) = length ind.
Proof. induction parts as [|p r IH]; intros; simpl; auto. rewrite IH. apply push_at_length. Qed.

Lemma route_from_nth : forall parts i ind q, q < length ind ->
  nth q (route_from i parts ind) [] = nth q ind [] ++ sel i parts q.
Proof.
  induction parts as [|p r IH]; intros i ind q H; simpl.
  - now rewrite app_nil_r.
  - rewrite IH by (now rewrite push_at_length). rewrite push_at_nth by assumption.
    rewrite (Nat.eqb_sym p q). destruct (q =? p); auto. now rewrite <- app_assoc.
Qed.

Lemma sel_filter n : forall parts i p,
  sel i parts p = filter (fun j => nth (j - i) parts n =? p) (seq i (length parts)).
Proof.
  induction parts as [|q r IH]; intros i p; simpl; auto.
  rewrite Nat.sub_diag. rewrite IH.
  assert (filter (fun j => nth (j - S i) r n =? p) (seq (S i) (length r)) =
          filter (fun j => match j - i with 0 => q | S m => nth m r n end =? p) (seq (S i) (length r))) as E.
  { apply filter_ext_in. intros j Hj. apply in_seq in Hj. replace (j - i) with (S (j - S i)) by lia. reflexivity. }
  rewrite E. reflexivity.
Qed.

Lemma sel_rows_of_part parts n p : sel 0 parts p = rows_of_part parts n p.
Proof.
  unfold rows_of_part. rewrite (sel_filter n). apply filter_ext. intros j. now rewrite Nat.sub_0_r.
Qed.

Lemma nth_repeat_nil {X} n q : nth q (repeat (@nil X) n) [] = [].
Proof. revert q. induction n; destruct q; simpl; auto. Qed.

Lemma route_indices_length n parts : length (route_indices n parts) = n.
Proof. unfold route_indices. rewrite route_from_length. apply repeat_length. Qed.

Lemma route_indices_nth n parts p : p < n ->
  nth p (route_indices n parts) [] = rows_of_part parts n p.
Proof.
  intros H. unfold route_indices. rewrite route_from_nth by (now rewrite repeat_length).
  rewrite nth_repeat_nil. simpl. apply sel_rows_of_part.
Qed.

Lemma rows_of_part_In parts n p i : In i (rows_of_part parts n p) <-> i < length parts /\ nth i parts n = p.
Proof.
  unfold rows_of_part. rewrite filter_In, in_seq, Nat.eqb_eq. intuition lia.
Qed.

Lemma StronglySorted_filter {X} (R : X -> X -> Prop) f : forall l, StronglySorted R l -> StronglySorted R (filter f l).
Proof.
  induction l as [|a l IH]; intros H; simpl; [constructor|].
  inversion H; subst. destruct (f a); auto. constructor; auto.
  apply Forall_forall. intros x Hx. apply filter_In in Hx as [Hx _]. rewrite Forall_forall in H3. auto.
Qed.

Lemma seq_sorted : forall len a, StronglySorted lt (seq a len).
Proof.
  induction len as [|len IH]; intros a; simpl; constructor; auto.
  apply Forall_forall. intros x Hx. apply in_seq in Hx. lia.
Qed.

Lemma rows_of_part_sorted parts n p : StronglySorted lt (rows_of_part parts n p).
Proof. unfold rows_of_part. apply StronglySorted_filter, seq_sorted. Qed.

Lemma sorted_lt_NoDup : forall l, StronglySorted lt l -> NoDup l.
Proof.
  induction l as [|a l IH]; intros H; constructor; inversion H; subst; auto.
  intros I. rewrite Forall_forall in H3. specialize (H3 a I). lia.
Qed.

(* routing_partition, for any per-row partition list with entries below n *)
Theorem route_indices_partition : forall n parts, Forall (fun p => p < n) parts ->
  let ind := route_indices n parts in
  length ind = n /\
  (forall p, p < n -> nth p ind [] = rows_of_part parts n p) /\
  (forall i, i < length parts -> exists p, p < n /\ In i (nth p ind []) /\
                                  forall q, q < n -> In i (nth q ind []) -> q = p) /\
  (forall p, p < n -> StronglySorted lt (nth p ind []) /\ NoDup (nth p ind []) /\
                      forall i, In i (nth p ind []) -> i < length parts).
Proof.
  intros n parts F ind. subst ind. split; [apply route_indices_length|]. split; [intros; now apply route_indices_nth|]. split.
  - intros i Hi. exists (nth i parts n). rewrite Forall_forall in F.
    assert (nth i parts n < n) as B by (apply F, nth_In, Hi). split; auto. split.
    + rewrite route_indices_nth by assumption. apply rows_of_part_In. auto.
    + intros q Hq I. rewrite route_indices_nth in I by assumption. apply rows_of_part_In in I. lia.
  - intros p Hp. rewrite route_indices_nth by assumption. split; [apply rows_of_part_sorted|]. split.
    + apply sorted_lt_NoDup, rows_of_part_sorted.
    + intros i I. apply rows_of_part_In in I. lia.
Qed.

(* ================================================================== D. partition_grouped_take *)
Section GroupedTake.
  Context {R : Type}.
  Variable d : R.
  Variable batch : list R.
  Let f := fun i => nth i batch d.

  Definition slices (taken : list R) (rg : list (nat * nat * nat)) : list (nat * list R) :=
    map (fun r : nat * nat * nat => let '(p, start, len) := r in (p, firstn len (skipn start taken))) rg.
  Definition spec_entry (pp : nat * list nat) : list (nat * list R) :=
    match snd pp with [] => [] | _ => [(fst pp, map f (snd pp))] end.
  Definition rg_ok (ro : list nat) (rg : list (nat * nat * nat)) : Prop :=
    Forall (fun r : nat * nat * nat => let '(_, start, len) := r in start + len <= length ro) rg.

  Lemma slice_stable (A B : list R) s len : s + len <= length A ->
    firstn len (skipn s (A ++ B)) = firstn len (skipn s A).
  Proof.
    intros H. rewrite skipn_app, firstn_app. rewrite skipn_length.
    replace (len - (length A - s)) with 0 by lia. simpl. now rewrite app_nil_r.
  Qed.

  Lemma slices_stable ro extra rg : rg_ok ro rg -> slices (map f (ro ++ extra)) rg = slices (map f ro) rg.
  Proof.
    unfold rg_ok, slices. intros H. apply map_ext_in. intros [[p s] len] I.
    rewrite Forall_forall in H. specialize (H _ I). simpl in H.
    rewrite map_app. rewrite slice_stable; auto. now rewrite map_length.
  Qed.

  Lemma gt_fold : forall l rg ro, rg_ok ro rg -> (ro = [] -> rg = []) ->
    let '(rg', ro') := fold_left gt_step l (rg, ro) in
    rg_ok ro' rg' /\ (ro' = [] -> rg' = []) /\
    slices (map f ro') rg' = slices (map f ro) rg ++ flat_map spec_entry l.
  Proof.
    induction l as [|[p pi] l IH]; intros rg ro OK E; simpl fold_left.
    - simpl. rewrite app_nil_r. auto.
    - destruct pi as [|i0 pi'].
      + simpl gt_step. specialize (IH rg ro OK E). destruct (fold_left gt_step l (rg, ro)) as [rg' ro'].
        destruct IH as (A & B & C). repeat split; auto.
      + set (pi := i0 :: pi') in *. change (gt_step (rg, ro) (p, pi)) with (rg ++ [(p, length ro, length pi)], ro ++ pi).
        assert (rg_ok (ro ++ pi) (rg ++ [(p, length ro, length pi)])) as OK'.
        { unfold rg_ok. apply Forall_app. split.
          - eapply Forall_impl; [|exact OK]. intros [[? s] len]. rewrite app_length. lia.
          - constructor; [|constructor]. rewrite app_length. lia. }
        assert (ro ++ pi = [] -> rg ++ [(p, length ro, length pi)] = []) as E'.
        { intros Z. apply app_eq_nil in Z as [_ Z]. discriminate. }
        specialize (IH _ _ OK' E'). destruct (fold_left gt_step l _) as [rg' ro'].
        destruct IH as (A & B & C). repeat split; auto. rewrite C.
        unfold slices at 1. rewrite map_app. fold (slices (map f (ro ++ pi)) rg).
        rewrite slices_stable by assumption. rewrite <- app_assoc. f_equal.
        simpl. f_equal. unfold spec_entry. simpl snd. simpl fst. f_equal. f_equal.
        rewrite map_app. rewrite skipn_app. rewrite map_length, Nat.sub_diag.
        rewrite skipn_all2 by (rewrite map_length; lia). simpl.
        f_equal. rewrite <- (map_length f pi'). apply firstn_all.
  Qed.

  Theorem grouped_take_eq_spec : forall ind, grouped_take d batch ind = take_spec d batch ind.
  Proof.
    intros ind. unfold grouped_take, gt_pass1, take_spec.
    pose proof (gt_fold (combine (seq 0 (length ind)) ind) [] [] (Forall_nil _) (fun _ => eq_refl)) as H.
    destruct (fold_left gt_step _ ([], [])) as [rg ro]. destruct H as (A & B & C).
    simpl in C. fold f. change (fun pp : nat * list nat => match snd pp with [] => [] | _ :: _ => [(fst pp, map f (snd pp))] end) with spec_entry.
    rewrite <- C. destruct ro as [|r0 ro'].
    - rewrite (B eq_refl). reflexivity.
    - reflexivity.
  Qed.
End GroupedTake.

(* flat_map over (index, element) pairs as a flat_map over indices *)

Lemma flat_map_ext_in' {X Y} (g h : X -> list Y) l : (forall x, In x l -> g x = h x) -> flat_map g l = flat_map h l.
Proof. induction l as [|a l IH]; intros H; simpl; auto. rewrite H by (now left). rewrite IH; auto. intros; apply H; now right. Qed.

Lemma flat_map_combine_seq {X Y} (g : nat * X -> list Y) (dx : X) : forall l a,
  flat_map g (combine (seq a (length l)) l) = flat_map (fun p => g (p, nth (p - a) l dx)) (seq a (length l)).
Proof.
  induction l as [|x l IH]; intros a; simpl; auto.
  rewrite Nat.sub_diag. f_equal. rewrite IH. apply flat_map_ext_in'.
  intros p Hp. apply in_seq in Hp. replace (p - a) with (S (p - S a)) by lia. reflexivity.
Qed.

(* taking the rows at the indices of partition p = the sub-sequence of rows routed to p *)
Lemma map_sel_sub_rows {R} (d : R) p : forall parts batch pre,
  length parts = length batch ->
  map (fun j => nth j (pre ++ batch) d) (sel (length pre) parts p) = sub_rows parts batch p.
Proof.
  induction parts as [|q parts IH]; intros batch pre L; destruct batch as [|r batch]; simpl in L; try discriminate; auto.
  injection L as L. simpl.
  specialize (IH batch (pre ++ [r]) L). rewrite <- app_assoc in IH. simpl in IH.
  rewrite app_length in IH. simpl in IH. rewrite Nat.add_1_r in IH.
  destruct (q =? p); simpl; rewrite IH; auto.
  f_equal. rewrite app_nth2 by lia. now rewrite Nat.sub_diag.
Qed.

(* grouped_take_eq_filter: what partition_iter yields for a batch whose row i has partition parts[i]:
   one (p, rows) pair per partition that received rows, in increasing p, rows = the rows routed to p in input order *)
Theorem grouped_take_route : forall {R} (d : R) n parts batch, length parts = length batch ->
  grouped_take d batch (route_indices n parts) =
  flat_map (fun p => match sub_rows parts batch p with [] => [] | rows => [(p, rows)] end) (seq 0 n).
Proof.
  intros R d n parts batch L. rewrite grouped_take_eq_spec. unfold take_spec.
  rewrite (flat_map_combine_seq _ []). rewrite route_indices_length.
  apply flat_map_ext_in'. intros p Hp. apply in_seq in Hp. simpl fst. simpl snd.
  rewrite Nat.sub_0_r. rewrite route_indices_nth by lia. rewrite <- sel_rows_of_part.
  pose proof (map_sel_sub_rows d p parts batch [] L) as M. simpl in M. rewrite <- M.
  destruct (sel 0 parts p); reflexivity.
Qed.

Lemma rows_for_flat_map_single {R} (g : nat -> list R) p : forall l, NoDup l ->
  rows_for p (flat_map (fun q => match g q with [] => [] | rows => [(q, rows)] end) l) = if in_dec Nat.eq_dec p l then g p else [].
Proof.
  unfold rows_for. induction l as [|a l IH]; intros ND; simpl; auto.
  inversion ND; subst. rewrite flat_map_app. rewrite IH by assumption.
  destruct (Nat.eq_dec a p) as [E|E].
  - subst a. destruct (in_dec Nat.eq_dec p l); [contradiction|].
    destruct (g p) eqn:G; simpl; auto. rewrite Nat.eqb_refl. now rewrite !app_nil_r.
  - assert ((a =? p) = false) as F by (now apply Nat.eqb_neq).
    destruct (g a); simpl; [|rewrite F; simpl]; destruct (in_dec Nat.eq_dec p l); auto.
Qed.

Corollary rows_for_grouped_take : forall {R} (d : R) n parts batch p, length parts = length batch -> p < n ->
  rows_for p (grouped_take d batch (route_indices n parts)) = sub_rows parts batch p.
Proof.
  intros R d n parts batch p L Hp. rewrite grouped_take_route by assumption.
  rewrite (rows_for_flat_map_single (sub_rows parts batch) p) by apply seq_NoDup.
  destruct (in_dec Nat.eq_dec p (seq 0 n)) as [I|N]; auto. exfalso. apply N. apply in_seq. lia.
Qed.

(* ================================================================== F. the hash router *)
Lemma hash_parts_spec : forall n hashes, (1 <= n < 2 ^ 64)%Z ->
  Forall (fun h => (0 <= h < 2 ^ 64)%Z) hashes ->
  hash_parts n hashes = Some (map (fun h => Z.to_nat (h mod n)) hashes).
Proof.
  intros n hashes Hn. induction 1 as [|h r Hh F IH]; simpl; auto.
  rewrite (remainder_exact h n Hh Hn), IH. reflexivity.
Qed.

Lemma hash_indices_spec : forall n hashes, 1 <= n -> (Z.of_nat n < 2 ^ 64)%Z ->
  Forall (fun h => (0 <= h < 2 ^ 64)%Z) hashes ->
  hash_indices n hashes = Some (route_indices n (map (fun h => Z.to_nat (h mod Z.of_nat n)) hashes)).
Proof.
  intros n hashes H1 H2 F. unfold hash_indices. rewrite hash_parts_spec; auto. lia.
Qed.

Lemma hash_mod_below n hashes : 1 <= n ->
  Forall (fun p => p < n) (map (fun h => Z.to_nat (h mod Z.of_nat n)) hashes).
Proof.
  intros H. apply Forall_forall. intros p I. apply in_map_iff in I as (h & <- & _).
  assert (0 <= h mod Z.of_nat n < Z.of_nat n)%Z by (apply Z.mod_pos_bound; lia). lia.
Qed.

(* ================================================================== range router *)
Lemma range_parts_below os sps keys : Forall (fun p => p < S (length sps)) (range_parts os sps keys).
Proof.
  apply Forall_forall. intros p I. apply in_map_iff in I as (k & <- & _).
  pose proof (range_partition_id_bound k sps os). lia.
Qed.

(* ================================================================== G. round robin *)
Open Scope Z_scope.
Lemma rr_start_range i n m : 0 <= i < m -> 0 < n -> 0 <= rr_start i n m < n.
Proof.
  intros Hi Hn. unfold rr_start. split.
  - apply Z.div_pos; nia.
  - apply Z.div_lt_upper_bound; nia.
Qed.

Lemma rr_targets_length n s k : length (rr_targets n s k) = k.
Proof. revert s. induction k; intros; simpl; auto. Qed.

Lemma rr_targets_nth n : 0 < n -> forall k s j, 0 <= s < n -> (j < k)%nat ->
  nth j (rr_targets n s k) (-1) = (s + Z.of_nat j) mod n.
Proof.
  intros Hn. induction k as [|k IH]; intros s j Hs Hj; [lia|].
  simpl. destruct j as [|j].
  - rewrite Z.add_0_r. now rewrite Z.mod_small.
  - rewrite IH by (unfold rr_advance; try apply Z.mod_pos_bound; lia).
    unfold rr_advance. rewrite Zplus_mod_idemp_l. f_equal. lia.
Qed.

(* number of batches among the first k that went to partition p *)
Definition rr_count (n s : Z) (k : nat) (p : Z) : Z :=
  Z.of_nat (length (filter (Z.eqb p) (rr_targets n s k))).

Lemma rr_targets_snoc n : forall k s, rr_targets n s (S k) = rr_targets n s k ++ [nth k (rr_targets n s (S k)) (-1)].
Proof.
  induction k as [|k IH]; intros s; [reflexivity|].
  change (rr_targets n s (S (S k))) with (s :: rr_targets n (rr_advance n s) (S k)).
  rewrite (IH (rr_advance n s)) at 1. reflexivity.
Qed.

Lemma div_step a n : 0 < n -> 0 <= a -> (a + 1) / n = a / n + (if (a + 1) mod n =? 0 then 1 else 0).
Proof.
  intros Hn Ha.
  pose proof (Z.div_mod a n ltac:(lia)) as D1. pose proof (Z.mod_pos_bound a n Hn) as B1.
  pose proof (Z.div_mod (a + 1) n ltac:(lia)) as D2. pose proof (Z.mod_pos_bound (a + 1) n Hn) as B2.
  destruct (Z.eqb_spec ((a + 1) mod n) 0) as [E|E].
  - rewrite E in D2. assert (n * ((a + 1) / n - a / n) = a mod n + 1) as Q by lia.
    assert ((a + 1) / n - a / n = 1) by nia. lia.
  - assert (n * ((a + 1) / n - a / n) = a mod n + 1 - (a + 1) mod n) as Q by lia.
    assert ((a + 1) / n - a / n = 0) by nia. lia.
Qed.

(* round_robin_balanced: exact count; d = distance of p from the start index *)
Theorem rr_count_formula n s p : 0 < n -> 0 <= s < n -> 0 <= p < n -> forall k,
  rr_count n s k p = (Z.of_nat k + n - 1 - (p - s) mod n) / n.
Proof.
  intros Hn Hs Hp. pose proof (Z.mod_pos_bound (p - s) n Hn) as Bd. set (d := (p - s) mod n) in *.
  induction k as [|k IH].
  - unfold rr_count. simpl. symmetry. apply Z.div_small. lia.
  - unfold rr_count in *. rewrite rr_targets_snoc, filter_app, app_length, Nat2Z.inj_add, IH.
    rewrite rr_targets_nth by lia.
    replace (Z.of_nat (S k) + n - 1 - d) with ((Z.of_nat k + n - 1 - d) + 1) by lia.
    rewrite div_step by lia. f_equal.
    replace (Z.of_nat k + n - 1 - d + 1) with (Z.of_nat k - d + 1 * n) by lia. rewrite Z_mod_plus_full.
    simpl filter.
    assert (((s + Z.of_nat k) mod n = p) <-> ((Z.of_nat k - d) mod n = 0)) as EQV.
    { unfold d. split; intros H.
      - rewrite <- H. rewrite Zminus_mod_idemp_r.
        replace (Z.of_nat k - ((s + Z.of_nat k) mod n - s)) with ((s + Z.of_nat k) - (s + Z.of_nat k) mod n) by lia.
        rewrite Zminus_mod_idemp_r. rewrite Z.sub_diag. apply Z.mod_0_l. lia.
      - rewrite Zminus_mod_idemp_r in H. 
        replace (s + Z.of_nat k) with ((Z.of_nat k - (p - s)) + p) by lia.
        rewrite <- Zplus_mod_idemp_l, H. simpl. apply Z.mod_small. lia. }
    destruct (Z.eqb_spec p ((s + Z.of_nat k) mod n)) as [E|E]; destruct (Z.eqb_spec ((Z.of_nat k - d) mod n) 0) as [E2|E2];
      simpl; auto; exfalso.
    + apply E2, EQV. auto.
    + apply E. symmetry. apply EQV. auto.
Qed.

Corollary rr_balanced n s p q : 0 < n -> 0 <= s < n -> 0 <= p < n -> 0 <= q < n -> forall k,
  Z.of_nat k / n <= rr_count n s k p <= Z.of_nat k / n + 1 /\ Z.abs (rr_count n s k p - rr_count n s k q) <= 1.
Proof.
  intros Hn Hs Hp Hq k. rewrite !rr_count_formula by assumption.
  pose proof (Z.mod_pos_bound (p - s) n Hn). pose proof (Z.mod_pos_bound (q - s) n Hn).
  assert (forall d, 0 <= d < n -> Z.of_nat k / n <= (Z.of_nat k + n - 1 - d) / n <= Z.of_nat k / n + 1) as B.
  { intros d Hd. split.
    - apply Z.div_le_mono; lia.
    - replace (Z.of_nat k / n + 1) with ((Z.of_nat k + 1 * n) / n) by (rewrite Z.div_add; lia).
      apply Z.div_le_mono; lia. }
  pose proof (B _ H). pose proof (B _ H0). lia.
Qed.
Close Scope Z_scope.
