(* C36 -- physical-plan records instantiated with the generated tables *)
From Coq Require Import List ZArith String Bool.
From DF Require Import Model.ProtoCodec Gen.ProtoEnumsPhys Model.C36Corr Proofs.ProtoCodecProofs Proofs.ProtoEnumsPhysProofs.
Import ListNotations.
Open Scope Z_scope.

Lemma generated_tables_physical_checked :
  forallb (fun r => snd (fst (fst r))) generated_tables_physical = true /\
  forallb (fun r => match snd r with [] => true | _ => false end) generated_tables_physical = true.
Proof. split; vm_compute; reflexivity. Qed.

Lemma c36_dec_enc_hj : forall h : c36_hj, proj_ok (hj_projection _ _ _ h) = true -> c36_dec_hj (c36_enc_hj h) = Some h.
Proof.
  exact (dec_enc_hj PJoinType PartitionMode PNullEquality table_PJoinType table_PartitionMode table_PNullEquality
           dec_enc_PJoinType dec_enc_PartitionMode dec_enc_PNullEquality).
Qed.

Lemma c36_enc_hj_injective : forall a b : c36_hj,
  proj_ok (hj_projection _ _ _ a) = true -> proj_ok (hj_projection _ _ _ b) = true -> c36_enc_hj a = c36_enc_hj b -> a = b.
Proof.
  intros a b Ha Hb E. pose proof (c36_dec_enc_hj a Ha) as A. rewrite E, (c36_dec_enc_hj b Hb) in A. now inversion A.
Qed.
