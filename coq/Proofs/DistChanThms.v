(* C15 -- the property theorems about Model/DistChan.v, derived from the invariant (Proofs/DistChanSteps.v). *)
From DF Require Import Base.Prelude Model.DistChan Proofs.DistChanProofs Proofs.DistChanSteps.
From Coq Require Import Lia.
Open Scope Z_scope.

Lemma set_nth_length : forall A (l : list A) n x, length (set_nth n x l) = length l.
Proof. induction l; destruct n; simpl; intros; auto. Qed.

Lemma step_length : forall s o s' ou, step s o = Some (s', ou) -> length (chans s') = length (chans s).
Proof.
  intros s o s' ou H. destruct o; simpl in H;
    [unfold send_poll in H | unfold recv_poll in H | unfold clone_s in H | unfold drop_s in H | unfold drop_r in H];
    repeat match type of H with
           | context [match ?x with _ => _ end] => destruct x eqn:?; try discriminate
           end; inversion H; subst; simpl; rewrite ?set_nth_length; auto.
Qed.

Lemma run_from_length : forall ops s rtr s' rtr', run_from s rtr ops = Some (s', rtr') -> length (chans s') = length (chans s).
Proof.
  induction ops as [|o ops IH]; simpl; intros s rtr s' rtr' H.
  - inversion H; subst; auto.
  - destruct (step s o) as [[s1 ou]|] eqn:E; [|discriminate].
    rewrite (IH _ _ _ _ H). eapply step_length; eauto.
Qed.

Lemma run_length : forall n ops s rtr, run n ops = Some (s, rtr) -> length (chans s) = n.
Proof. intros. unfold run in H. apply run_from_length in H. rewrite H. simpl. apply repeat_length. Qed.

(* ------------------------------------------------------------------ gate *)
Theorem gate_inv : forall n ops s rtr, run n ops = Some (s, rtr) ->
  empty s = count_oe (chans s) /\ 0 <= empty s /\
  (forall l, swk s = Some l -> empty s = 0) /\
  (empty s = 0 -> swk s <> None \/ n = 0%nat) /\
  (forall c ch, nth_error (chans s) c = Some ch ->
     (rwk ch = None <-> nsend ch = 0%nat) /\ (nsend ch + sdrops rtr c = 1 + clones rtr c)%nat /\
     (data ch = None <-> rdropped rtr c = true)).
Proof.
  intros n ops s rtr H. pose proof (run_inv _ _ _ _ H) as (HC & (G1 & G2 & G3 & G4 & G5) & HP).
  split; auto. split; [rewrite G1; apply count_nonneg|]. split; auto. split.
  - intros E. destruct (G3 E); auto. right. apply run_length in H. rewrite H0 in H. simpl in H. auto.
  - intros c ch Hn. destruct (HC _ _ Hn) as (K1 & K2 & K3 & K4 & K5 & K6). auto.
Qed.

(* ------------------------------------------------------------------ FIFO, exactly once *)
Theorem fifo_exactly_once : forall n ops s rtr, run n ops = Some (s, rtr) ->
  forall c ch, nth_error (chans s) c = Some ch ->
    match data ch with
    | Some q => received rtr c ++ q = sent_ok rtr c
    | None => exists q, received rtr c ++ q = sent_ok rtr c
    end.
Proof.
  intros n ops s rtr H c ch Hn. pose proof (run_inv _ _ _ _ H) as (HC & _).
  destruct (HC _ _ Hn) as (K1 & K2 & K3 & K4 & K5 & K6). auto.
Qed.

(* ------------------------------------------------------------------ close *)
Theorem eos_only_after_close_and_drain : forall n ops s rtr, run n ops = Some (s, rtr) ->
  forall c w s' wk, step s (RecvPoll c w) = Some (s', (RNone, wk)) ->
    received rtr c = sent_ok rtr c /\ sdrops rtr c = (1 + clones rtr c)%nat /\ wk = [] /\ s' = s.
Proof.
  intros n ops s rtr H c w s' wk Hs. pose proof (run_inv _ _ _ _ H) as (HC & _).
  simpl in Hs. unfold recv_poll in Hs.
  destruct (nth_error (chans s) c) as [ch|] eqn:Hn; [|discriminate].
  destruct (HC _ _ Hn) as (K1 & K2 & K3 & K4 & K5 & K6).
  destruct (data ch) as [[|x q]|] eqn:Hd; try discriminate.
  - destruct (rwk ch) eqn:Hr; [discriminate|]. inversion Hs; subst.
    rewrite app_nil_r in K3. assert (nsend ch = 0%nat) by tauto. repeat split; auto. lia.
  - repeat match type of Hs with
           | context [if ?x then _ else _] => destruct x; try discriminate
           end.
Qed.

Theorem send_err_iff_receiver_gone : forall n ops s rtr, run n ops = Some (s, rtr) ->
  forall c w x s' ou, step s (SendPoll c w x) = Some (s', ou) ->
    (forall y, fst ou = RErr y -> y = x /\ rdropped rtr c = true /\ s' = s) /\
    (rdropped rtr c = true -> ou = (RErr x, [])).
Proof.
  intros n ops s rtr H c w x s' ou Hs. pose proof (run_inv _ _ _ _ H) as (HC & _).
  simpl in Hs. unfold send_poll in Hs.
  destruct (nth_error (chans s) c) as [ch|] eqn:Hn; [|discriminate].
  destruct (HC _ _ Hn) as (K1 & K2 & K3 & K4 & K5 & K6).
  destruct (nsend ch =? 0)%nat; [discriminate|].
  destruct (data ch) as [q|] eqn:Hd.
  - assert (Hnd : rdropped rtr c <> true) by (intro Hr; apply K5 in Hr; discriminate).
    split; [|intros; contradiction].
    intros y Hy. exfalso.
    destruct (if empty s =? 0 then swk s else None); [inversion Hs; subst; discriminate|].
    destruct (is_nil q); [destruct (rwk ch)|]; inversion Hs; subst; discriminate.
  - inversion Hs; subst. split; auto. intros y Hy. simpl in Hy. inversion Hy; subst. repeat split; tauto.
Qed.

(* ------------------------------------------------------------------ wake-ups *)
Theorem parked_send_still_pending : forall n ops s rtr, run n ops = Some (s, rtr) ->
  forall c w0, In (w0, c) (parked_send rtr) ->
  forall w x s' ou, step s (SendPoll c w x) = Some (s', ou) -> fst ou = RPending.
Proof.
  intros n ops s rtr H c w0 Hp w x s' ou Hs.
  pose proof (run_inv _ _ _ _ H) as (HC & (G1 & G2 & G3 & G4 & G5) & HP).
  destruct (G5 _ _ Hp) as (l & Hl & Hi). pose proof (G2 _ Hl) as He.
  destruct (G4 _ _ _ Hl Hi) as (ch & Hn & Hd).
  simpl in Hs. unfold send_poll in Hs. rewrite Hn in Hs.
  destruct (nsend ch =? 0)%nat; [discriminate|].
  destruct (data ch); [|congruence].
  rewrite He, Hl in Hs. simpl in Hs. inversion Hs; subst. reflexivity.
Qed.

Theorem parked_recv_still_pending : forall n ops s rtr, run n ops = Some (s, rtr) ->
  forall c w0, In w0 (parked_recv rtr c) ->
  forall w s' ou, step s (RecvPoll c w) = Some (s', ou) -> fst ou = RPending.
Proof.
  intros n ops s rtr H c w0 Hp w s' ou Hs.
  pose proof (run_inv _ _ _ _ H) as (HC & _).
  simpl in Hs. unfold recv_poll in Hs.
  destruct (nth_error (chans s) c) as [ch|] eqn:Hn; [|discriminate].
  destruct (HC _ _ Hn) as (K1 & K2 & K3 & K4 & K5 & K6).
  destruct (K6 _ Hp) as (rl & Hr & Hi).
  destruct (K2 _ _ Hr Hi) as [Hd|Hd]; rewrite Hd in Hs; [|discriminate].
  rewrite Hr in Hs. inversion Hs; subst. reflexivity.
Qed.

(* dropping the receiver wakes every sender parked on that channel *)
Theorem receiver_drop_wakes_its_senders : forall n ops s rtr, run n ops = Some (s, rtr) ->
  forall c s' ou, step s (DropR c) = Some (s', ou) ->
  forall w0, In (w0, c) (parked_send rtr) -> In w0 (snd ou).
Proof.
  intros n ops s rtr H c s' ou Hs w0 Hp.
  pose proof (run_inv _ _ _ _ H) as HI. pose proof HI as (HC & HG & HP).
  pose proof HG as (G1 & G2 & G3 & G4 & G5).
  destruct (G5 _ _ Hp) as (l & Hl & Hi).
  simpl in Hs. unfold drop_r in Hs.
  destruct (nth_error (chans s) c) as [ch|] eqn:Hn; [|discriminate].
  destruct (HC _ _ Hn) as (K1 & K2 & K3 & K4 & K5 & K6).
  destruct (data ch) as [q|] eqn:Hd; [|discriminate].
  destruct (is_nil q && negb (nsend ch =? 0)%nat) eqn:Hdec.
  - exfalso. apply andb_prop in Hdec. destruct Hdec as [Hq Hns]. destruct q; [|discriminate].
    apply Bool.negb_true_iff in Hns. apply Nat.eqb_neq in Hns.
    assert (Hoe : open_empty ch = true).
    { unfold open_empty. rewrite Hd. destruct (rwk ch) eqn:E; auto. exfalso. apply Hns. tauto. }
    destruct (open_empty_gate _ _ _ _ HI Hn Hoe). congruence.
  - simpl in Hs. rewrite Hl in Hs. inversion Hs; subst. simpl.
    change w0 with (fst (w0, c)). apply in_map. apply filter_In. split; auto. simpl. apply Nat.eqb_refl.
Qed.

(* a receiver parked on a channel whose receiver handle still exists is never kept waiting by the gate:
   a send on its channel completes at once and wakes it; so does the drop of the last sender *)
Theorem parked_recv_is_woken : forall n ops s rtr, run n ops = Some (s, rtr) ->
  forall c w0, In w0 (parked_recv rtr c) -> rdropped rtr c = false ->
  (forall w x s' ou, step s (SendPoll c w x) = Some (s', ou) -> fst ou = ROk /\ In w0 (snd ou)) /\
  (forall ch s' ou, nth_error (chans s) c = Some ch -> nsend ch = 1%nat ->
     step s (DropS c) = Some (s', ou) -> In w0 (snd ou)).
Proof.
  intros n ops s rtr H c w0 Hp Hnd.
  pose proof (run_inv _ _ _ _ H) as HI. pose proof HI as (HC & HG & HP).
  split.
  - intros w x s' ou Hs. simpl in Hs. unfold send_poll in Hs.
    destruct (nth_error (chans s) c) as [ch|] eqn:Hn; [|discriminate].
    destruct (HC _ _ Hn) as (K1 & K2 & K3 & K4 & K5 & K6).
    destruct (K6 _ Hp) as (rl & Hr & Hi).
    destruct (K2 _ _ Hr Hi) as [Hd|Hd]; [|apply K5 in Hd; congruence].
    assert (Hoe : open_empty ch = true) by (unfold open_empty; rewrite Hd, Hr; auto).
    destruct (open_empty_gate _ _ _ _ HI Hn Hoe) as [He Hsw].
    destruct (nsend ch =? 0)%nat; [discriminate|]. rewrite Hd, Hsw, Hr in Hs.
    destruct (empty s =? 0); simpl in Hs; inversion Hs; subst; auto.
  - intros ch s' ou Hn Hns Hs. simpl in Hs. unfold drop_s in Hs. rewrite Hn, Hns in Hs.
    destruct (HC _ _ Hn) as (K1 & K2 & K3 & K4 & K5 & K6).
    destruct (K6 _ Hp) as (rl & Hr & Hi). rewrite Hr in Hs. inversion Hs; subst. auto.
Qed.

(* ------------------------------------------------------------------ progress *)
Lemma drain : forall q s rtr c ch rl l,
  Inv s rtr -> nth_error (chans s) c = Some ch -> data ch = Some q -> q <> [] ->
  rwk ch = Some rl -> swk s = Some l ->
  forall ws, length ws = length q ->
  exists s' rtr', run_from s rtr (map (RecvPoll c) ws) = Some (s', rtr') /\
    swk s' = None /\ 0 < empty s' /\ parked_send rtr' = [] /\
    received rtr' c = received rtr c ++ q /\
    nth_error (chans s') c = Some (mkChan (Some []) (nsend ch) (Some rl)).
Proof.
  induction q as [|x q IH]; intros s rtr c ch rl l HI Hn Hd Hq Hr Hl ws Hlen; [congruence|].
  destruct ws as [|w ws]; [discriminate|]. simpl in Hlen. injection Hlen as Hlen.
  pose proof HI as (HC & HG & HP). pose proof HG as (G1 & G2 & G3 & G4 & G5).
  pose proof (G2 _ Hl) as He.
  destruct (step s (RecvPoll c w)) as [[s1 ou]|] eqn:Hs.
  2:{ exfalso. simpl in Hs. unfold recv_poll in Hs. rewrite Hn, Hd in Hs.
      repeat match type of Hs with
             | context [if ?x then _ else _] => destruct x; try discriminate
             end. }
  pose proof (step_inv _ _ _ _ _ HI Hs) as HI1.
  cbn [map run_from]. rewrite Hs.
  simpl in Hs. unfold recv_poll in Hs. rewrite Hn, Hd, Hr in Hs.
  destruct q as [|y q].
  - (* last value: the channel becomes empty, the gate opens *)
    simpl in Hs. rewrite He in Hs. simpl in Hs. inversion Hs; subst s1 ou; clear Hs.
    destruct ws; [|discriminate]. simpl.
    eexists. eexists. split; [reflexivity|]. simpl.
    split; [reflexivity|]. split; [lia|]. split.
    + destruct HI1 as (_ & HG1 & _). apply (swk_none_parked _ _ HG1). reflexivity.
    + split.
      * unfold on_chan, recv_ev. simpl. rewrite Nat.eqb_refl. reflexivity.
      * eapply nth_error_set_eq; eauto.
  - simpl in Hs. inversion Hs; subst s1 ou; clear Hs.
    assert (Hn1 : nth_error (set_nth c (mkChan (Some (y :: q)) (nsend ch) (Some rl)) (chans s)) c
                  = Some (mkChan (Some (y :: q)) (nsend ch) (Some rl))) by (eapply nth_error_set_eq; eauto).
    assert (Hq1 : y :: q <> []) by discriminate.
    destruct (IH _ _ c _ rl l HI1 Hn1 eq_refl Hq1 eq_refl Hl ws Hlen) as (s' & rtr' & R1 & R2 & R3 & R4 & R5 & R6).
    exists s', rtr'. split; [exact R1|]. split; auto. split; auto. split; auto. split; auto.
    rewrite R5. simpl. unfold on_chan, recv_ev. simpl. rewrite Nat.eqb_refl. rewrite <- app_assoc. reflexivity.
Qed.

(* A sender blocked by the gate whose handle still exists: the receiver of ITS channel is alive and has values to
   receive; when that receiver takes them (whatever wakers it polls with), every value is delivered, the gate opens,
   every blocked sender of the gate has been woken, and a retry of the send completes. *)
Theorem no_deadlock : forall n ops s rtr, run n ops = Some (s, rtr) ->
  forall c w0 ch, In (w0, c) (parked_send rtr) -> nth_error (chans s) c = Some ch -> nsend ch <> 0%nat ->
  exists q, data ch = Some q /\ q <> [] /\
    forall ws, length ws = length q ->
    exists s' rtr', run_from s rtr (map (RecvPoll c) ws) = Some (s', rtr') /\
      received rtr' c = received rtr c ++ q /\
      parked_send rtr' = [] /\ swk s' = None /\ 0 < empty s' /\
      forall w x, exists s'' wk, step s' (SendPoll c w x) = Some (s'', (ROk, wk)).
Proof.
  intros n ops s rtr H c w0 ch Hp Hn Hns.
  pose proof (run_inv _ _ _ _ H) as HI. pose proof HI as (HC & HG & HP).
  pose proof HG as (G1 & G2 & G3 & G4 & G5).
  destruct (G5 _ _ Hp) as (l & Hl & Hi). pose proof (G2 _ Hl) as He.
  destruct (G4 _ _ _ Hl Hi) as (ch0 & Hn0 & Hd0). rewrite Hn in Hn0. inversion Hn0; subst ch0.
  destruct (HC _ _ Hn) as (K1 & K2 & K3 & K4 & K5 & K6).
  destruct (rwk ch) as [rl|] eqn:Hr; [|exfalso; apply Hns; tauto].
  destruct (data ch) as [q|] eqn:Hd; [|congruence].
  assert (Hq : q <> []).
  { intro. subst q. assert (Hoe : open_empty ch = true) by (unfold open_empty; rewrite Hd, Hr; auto).
    destruct (open_empty_gate _ _ _ _ HI Hn Hoe). congruence. }
  exists q. split; auto. split; auto. intros ws Hlen.
  destruct (drain q s rtr c ch rl l HI Hn Hd Hq Hr Hl ws Hlen) as (s' & rtr' & R1 & R2 & R3 & R4 & R5 & R6).
  exists s', rtr'. repeat split; auto.
  intros w x. simpl. unfold send_poll. rewrite R6. simpl.
  destruct (nsend ch =? 0)%nat eqn:E; [apply Nat.eqb_eq in E; contradiction|].
  assert (E0 : (empty s' =? 0) = false) by (apply Z.eqb_neq; lia). rewrite E0. simpl.
  eexists. eexists. reflexivity.
Qed.

Lemma count_pos_exists : forall l, 0 < count_oe l -> exists c ch, nth_error l c = Some ch /\ open_empty ch = true.
Proof.
  induction l as [|a l IH]; simpl; intros H; [lia|].
  destruct (open_empty a) eqn:E.
  - exists 0%nat, a. auto.
  - destruct IH as (c & ch & Hn & Ho); [lia|]. exists (S c), ch. auto.
Qed.

(* the gate does block: a send completes only while some open channel of the gate is empty *)
Theorem send_ok_only_if_gate_open : forall n ops s rtr, run n ops = Some (s, rtr) ->
  forall c w x s' wk, step s (SendPoll c w x) = Some (s', (ROk, wk)) ->
  exists c' ch', nth_error (chans s) c' = Some ch' /\ open_empty ch' = true.
Proof.
  intros n ops s rtr H c w x s' wk Hs.
  pose proof (run_inv _ _ _ _ H) as (HC & (G1 & G2 & G3 & G4 & G5) & HP).
  apply count_pos_exists. rewrite <- G1. pose proof (count_nonneg (chans s)) as Hnn. rewrite <- G1 in Hnn.
  destruct (Z.eq_dec (empty s) 0) as [E|E]; [|lia]. exfalso.
  simpl in Hs. unfold send_poll in Hs.
  destruct (nth_error (chans s) c) as [ch|] eqn:Hn; [|discriminate].
  destruct (G3 E) as [Hsw|Hnil]; [|rewrite Hnil in Hn; destruct c; discriminate].
  destruct (nsend ch =? 0)%nat; [discriminate|].
  destruct (data ch); [|discriminate].
  rewrite E in Hs. simpl in Hs. destruct (swk s); [discriminate|congruence].
Qed.

Theorem never_panics : forall n ops s rtr, run n ops = Some (s, rtr) ->
  forall e, In e rtr -> fst (snd e) <> RPanic.
Proof.
  intros n ops s rtr H e He. pose proof (run_inv _ _ _ _ H) as (_ & _ & HP).
  unfold no_panic in HP. rewrite Forall_forall in HP. auto.
Qed.
