(* C51 -- proofs about Model/CliSplit.v *)
From Coq Require Import Lia.
From DF Require Import Base.Prelude Model.CliSplit.
Open Scope Z_scope.

(* ------------------------------------------------------------------------------------------ *)
(* trimming                                                                                    *)
(* ------------------------------------------------------------------------------------------ *)
Lemma trim_start_ws_app : forall w x, forallb is_ws w = true -> trim_start (w ++ x) = trim_start x.
Proof.
  induction w as [|c w IH]; intros x H; [reflexivity|].
  cbn [forallb] in H. apply andb_true_iff in H as [Hc Hw].
  cbn [app trim_start]. rewrite Hc. auto.
Qed.

Lemma trim_ws_app : forall w x, forallb is_ws w = true -> trim (w ++ x) = trim x.
Proof. intros. unfold trim. rewrite trim_start_ws_app by assumption. reflexivity. Qed.

Lemma trim_start_nil_iff : forall s, trim_start s = [] <-> forallb is_ws s = true.
Proof.
  induction s as [|c s IH]; cbn [trim_start forallb]; [tauto|].
  destruct (is_ws c); cbn [andb]; [exact IH|]. split; discriminate.
Qed.

Lemma trim_start_head : forall s c r, trim_start s = c :: r -> is_ws c = false.
Proof.
  induction s as [|a s IH]; cbn [trim_start]; intros c r H; [discriminate|].
  destruct (is_ws a) eqn:E; [eauto|]. inversion H; subst; assumption.
Qed.

Lemma forallb_rev : forall (f : Z -> bool) l, forallb f (rev l) = forallb f l.
Proof.
  intros f l. induction l as [|a l IH]; [reflexivity|].
  cbn [rev forallb]. rewrite forallb_app, IH. cbn [forallb]. rewrite andb_true_r. apply andb_comm.
Qed.

Lemma blank_iff : forall s, blank s = true <-> forallb is_ws s = true.
Proof.
  intros s. unfold blank, trim.
  destruct (trim_start s) as [|c r] eqn:E.
  - cbn. split; [intros _; apply trim_start_nil_iff; assumption | reflexivity].
  - assert (Hc : is_ws c = false) by (eapply trim_start_head; eassumption).
    split.
    + intros H. exfalso.
      destruct (rev (trim_start (rev (c :: r)))) eqn:E2; [|discriminate].
      apply (f_equal (@rev Z)) in E2. rewrite rev_involutive in E2. change (@rev Z []) with (@nil Z) in E2.
      apply trim_start_nil_iff in E2. rewrite forallb_rev in E2. cbn [forallb] in E2.
      rewrite Hc in E2. discriminate.
    + intros H. apply trim_start_nil_iff in H. rewrite H in E. discriminate.
Qed.

Lemma blank_ws_app : forall w x, blank w = true -> blank (w ++ x) = blank x.
Proof. intros w x H. apply blank_iff in H. unfold blank. rewrite trim_ws_app by assumption. reflexivity. Qed.

Lemma piece_ws_app : forall w x, blank w = true -> piece (w ++ x) = piece x.
Proof. intros w x H. apply blank_iff in H. unfold piece. rewrite trim_ws_app by assumption. reflexivity. Qed.

(* ------------------------------------------------------------------------------------------ *)
(* the toggle loop is the reference lexer                                                      *)
(* ------------------------------------------------------------------------------------------ *)
Definition sq_of (st : lstate) : bool := match st with InSingle => true | _ => false end.
Definition dq_of (st : lstate) : bool := match st with InDouble => true | _ => false end.

Definition hd_app (cur : list Z) (segs : list (list Z)) : list (list Z) :=
  match segs with x :: xs => (cur ++ x) :: xs | [] => [cur] end.

Lemma cut_nonempty : forall s m, cut s m <> [].
Proof.
  intros s m. destruct s as [|c r]; [discriminate|].
  destruct m as [|b m']; [discriminate|]. cbn [cut].
  destruct b; [discriminate|]. destruct (cut r m'); discriminate.
Qed.

Lemma render_cons : forall x xs, render (x :: xs) = (if blank x then [] else [piece x]) ++ render xs.
Proof. intros. unfold render. cbn [filter]. destruct (blank x); reflexivity. Qed.

Lemma render_hd_app_blank : forall cur segs, segs <> [] -> blank cur = true ->
  render (hd_app cur segs) = render segs.
Proof.
  intros cur [|x xs] Hne Hb; [congruence|]. cbn [hd_app].
  rewrite !render_cons, blank_ws_app, piece_ws_app by assumption. reflexivity.
Qed.

Lemma hd_app_nil : forall segs, segs <> [] -> hd_app [] segs = segs.
Proof. intros [|x xs] H; [congruence|reflexivity]. Qed.

(* the two flags always encode one of the three lexer states, and one loop step is one lexer step *)
Lemma loop_step : forall c r st cur out,
  split_loop (c :: r) (sq_of st) (dq_of st) cur out =
    let st' := lex_step st c in
    if (c =? 59) && is_normal st then
      if blank cur then split_loop r (sq_of st') (dq_of st') cur out
      else split_loop r (sq_of st') (dq_of st') [] (out ++ [piece cur])
    else split_loop r (sq_of st') (dq_of st') (cur ++ [c]) out.
Proof.
  intros c r st cur out.
  destruct st; cbn [split_loop lex_step sq_of dq_of is_normal];
    (destruct (Z.eqb_spec c 39) as [E1|E1]; [subst c; reflexivity|]);
    (destruct (Z.eqb_spec c 34) as [E2|E2]; [subst c; reflexivity|]);
    destruct (Z.eqb_spec c 59) as [E3|E3]; reflexivity.
Qed.

Lemma loop_inv : forall s st cur out,
  split_loop s (sq_of st) (dq_of st) cur out = out ++ render (hd_app cur (cut s (seps st s))).
Proof.
  induction s as [|c r IH]; intros st cur out.
  - cbn [split_loop seps cut hd_app]. rewrite app_nil_r, render_cons.
    destruct (blank cur); cbn [render filter map app]; [rewrite app_nil_r|]; reflexivity.
  - rewrite loop_step. cbn zeta. cbn [seps cut].
    pose proof (cut_nonempty r (seps (lex_step st c) r)) as Hne.
    destruct ((c =? 59) && is_normal st) eqn:Esep.
    + cbn [hd_app]. rewrite app_nil_r, render_cons.
      destruct (blank cur) eqn:Eb.
      * rewrite IH. cbn [app]. f_equal. apply render_hd_app_blank; assumption.
      * rewrite IH, hd_app_nil by assumption. rewrite <- app_assoc. reflexivity.
    + rewrite IH. destruct (cut r (seps (lex_step st c) r)) as [|x xs]; [congruence|].
      cbn [hd_app]. rewrite <- app_assoc. reflexivity.
Qed.

Theorem toggle_eq_lexer : forall s, split_model s = ref_split s.
Proof.
  intros s. unfold split_model, ref_split, segments.
  change false with (sq_of Normal) at 1. change false with (dq_of Normal).
  rewrite loop_inv. cbn [app]. rewrite hd_app_nil by apply cut_nonempty. reflexivity.
Qed.

(* ------------------------------------------------------------------------------------------ *)
(* corollaries                                                                                 *)
(* ------------------------------------------------------------------------------------------ *)
Lemma join59_cons_hd : forall c x xs, join59 ((c :: x) :: xs) = c :: join59 (x :: xs).
Proof. intros c x [|y ys]; reflexivity. Qed.

(* cutting is lossless: the segments joined with ';' are the input, character for character *)
Lemma join_cut : forall s st, join59 (cut s (seps st s)) = s.
Proof.
  induction s as [|c r IH]; intros st; [reflexivity|].
  cbn [seps cut]. specialize (IH (lex_step st c)).
  pose proof (cut_nonempty r (seps (lex_step st c) r)) as Hne.
  destruct (cut r (seps (lex_step st c) r)) as [|x xs]; [congruence|].
  destruct ((c =? 59) && is_normal st) eqn:E.
  - apply andb_true_iff in E as [E _]. apply Z.eqb_eq in E. subst c.
    change (join59 ([] :: x :: xs)) with (59 :: join59 (x :: xs)). rewrite IH. reflexivity.
  - rewrite join59_cons_hd, IH. reflexivity.
Qed.

Theorem concat_preserves_text : forall s,
  join59 (segments s) = s /\ split_model s = render (segments s).
Proof. intros s. split; [apply join_cut | apply toggle_eq_lexer]. Qed.

(* every cut is at a ';' that the reference lexer reads outside quotes, and none is missed *)
Lemma seps_spec : forall s st i,
  nth i (seps st s) false = true <->
  nth i s 0 = 59 /\ (Z.of_nat i < Z.of_nat (length s)) /\ lex_run st (firstn i s) = Normal.
Proof.
  induction s as [|c r IH]; intros st i.
  - destruct i; cbn; split; try discriminate; intros (_ & H & _); lia.
  - destruct i as [|i].
    + cbn [seps nth firstn lex_run fold_left length]. rewrite andb_true_iff, Z.eqb_eq.
      destruct st; cbn [is_normal]; split; intros H; try (destruct H as (? & ?); try discriminate);
        repeat split; try assumption; try lia; try reflexivity.
      destruct H0; discriminate. destruct H0; discriminate.
    + cbn [seps nth firstn length]. rewrite IH. unfold lex_run. cbn [fold_left].
      rewrite Nat2Z.inj_succ. split; intros (A & B & C); repeat split; try assumption; lia.
Qed.

Lemma seps_app : forall a b st, seps st (a ++ b) = seps st a ++ seps (lex_run st a) b.
Proof.
  induction a as [|c a IH]; intros b st; [reflexivity|].
  cbn [app seps]. rewrite IH. reflexivity.
Qed.

Lemma lex_run_app : forall a b st, lex_run st (a ++ b) = lex_run (lex_run st a) b.
Proof. intros. unfold lex_run. apply fold_left_app. Qed.

(* text that leaves the lexer state unchanged and holds no separator *)
Definition quiet (st : lstate) (s : list Z) : Prop :=
  lex_run st s = st /\ forallb negb (seps st s) = true.

Lemma quiet_app : forall st a b, quiet st a -> quiet st b -> quiet st (a ++ b).
Proof.
  intros st a b [A1 A2] [B1 B2]. split.
  - rewrite lex_run_app, A1. assumption.
  - rewrite seps_app, forallb_app, A1, A2, B2. reflexivity.
Qed.

Lemma quiet_dbl : forall (q : Z) (st : lstate) b,
  (q = 39 /\ st = InSingle) \/ (q = 34 /\ st = InDouble) -> quiet st (dbl_q q b).
Proof.
  intros q st b H. induction b as [|c b [I1 I2]]; [split; reflexivity|].
  cbn [dbl_q]. destruct (Z.eqb_spec c q) as [E|E].
  - subst c. destruct H as [[-> ->]|[-> ->]]; split; cbn; assumption.
  - destruct H as [[-> ->]|[-> ->]]; (split;
      [ unfold lex_run in *; cbn [fold_left lex_step]; destruct (Z.eqb_spec c 39); destruct (Z.eqb_spec c 34); try congruence
      | cbn [seps forallb is_normal lex_step]; rewrite andb_false_r; cbn [negb andb];
        destruct (Z.eqb_spec c 39); destruct (Z.eqb_spec c 34); try congruence ]).
Qed.

Lemma quiet_tok : forall t, tok_ok t = true -> quiet Normal (tok_text t).
Proof.
  intros [c|b|b] H; cbn [tok_text].
  - cbn [tok_ok] in H. apply negb_true_iff in H. apply orb_false_iff in H as [H H59].
    apply orb_false_iff in H as [H39 H34].
    split; [unfold lex_run; cbn [fold_left lex_step]|cbn [seps forallb]]; rewrite ?H39, ?H34, ?H59; reflexivity.
  - destruct (quiet_dbl 39 InSingle b) as [Q1 Q2]; [left; split; reflexivity|].
    split.
    + change (39 :: dbl_q 39 b ++ [39]) with ([39] ++ dbl_q 39 b ++ [39]).
      rewrite !lex_run_app. change (lex_run Normal [39]) with InSingle. rewrite Q1. reflexivity.
    + change (39 :: dbl_q 39 b ++ [39]) with ([39] ++ dbl_q 39 b ++ [39]).
      rewrite !seps_app, !forallb_app. change (lex_run Normal [39]) with InSingle. rewrite Q1, Q2. reflexivity.
  - destruct (quiet_dbl 34 InDouble b) as [Q1 Q2]; [right; split; reflexivity|].
    split.
    + change (34 :: dbl_q 34 b ++ [34]) with ([34] ++ dbl_q 34 b ++ [34]).
      rewrite !lex_run_app. change (lex_run Normal [34]) with InDouble. rewrite Q1. reflexivity.
    + change (34 :: dbl_q 34 b ++ [34]) with ([34] ++ dbl_q 34 b ++ [34]).
      rewrite !seps_app, !forallb_app. change (lex_run Normal [34]) with InDouble. rewrite Q1, Q2. reflexivity.
Qed.

Lemma quiet_stmt : forall ts, forallb tok_ok ts = true -> quiet Normal (stmt_text ts).
Proof.
  induction ts as [|t ts IH]; intros H; [split; reflexivity|].
  cbn [forallb] in H. apply andb_true_iff in H as [H1 H2].
  unfold stmt_text. cbn [flat_map]. apply quiet_app; [apply quiet_tok; assumption | apply IH; assumption].
Qed.

Lemma cut_quiet_app : forall a t m st, forallb negb (seps st a) = true ->
  cut (a ++ t) (seps st a ++ m) = hd_app a (cut t m).
Proof.
  induction a as [|c a IH]; intros t m st H.
  - cbn [app seps]. symmetry. apply hd_app_nil, cut_nonempty.
  - cbn [seps forallb] in H. apply andb_true_iff in H as [H1 H2]. apply negb_true_iff in H1.
    cbn [app seps cut]. rewrite H1, IH by assumption.
    pose proof (cut_nonempty t m). destruct (cut t m); [congruence|reflexivity].
Qed.

Lemma segments_join : forall ss, ss <> [] -> Forall (quiet Normal) ss ->
  cut (join59 ss) (seps Normal (join59 ss)) = ss.
Proof.
  induction ss as [|x ss IH]; intros Hne H; [congruence|].
  inversion H as [|? ? [Hx1 Hx2] Hss]; subst.
  destruct ss as [|y ss].
  - cbn [join59]. rewrite <- (app_nil_r x) at 1. rewrite <- (app_nil_r (seps Normal x)).
    rewrite cut_quiet_app by assumption. cbn [cut hd_app]. rewrite app_nil_r. reflexivity.
  - change (join59 (x :: y :: ss)) with (x ++ 59 :: join59 (y :: ss)).
    rewrite seps_app, Hx1. cbn [seps]. change ((59 =? 59) && is_normal Normal) with true.
    rewrite cut_quiet_app by assumption. cbn [cut lex_step]. change (59 =? 39) with false. change (59 =? 34) with false.
    cbn iota. rewrite IH by (try discriminate; assumption). cbn [hd_app]. rewrite app_nil_r. reflexivity.
Qed.

(* scripts built from statements containing quotes, doubled quotes and semicolons inside literals
   and quoted identifiers come back statement by statement *)
Theorem no_split_inside_quotes : forall script : list (list tok),
  Forall (fun ts => forallb tok_ok ts = true) script ->
  split_model (join59 (map stmt_text script)) = render (map stmt_text script).
Proof.
  intros script H. rewrite toggle_eq_lexer. unfold ref_split, segments.
  destruct script as [|ts script]; [reflexivity|].
  rewrite segments_join; [reflexivity|discriminate|].
  apply Forall_forall. intros x Hx. apply in_map_iff in Hx as (ts' & <- & Hin).
  apply quiet_stmt. rewrite Forall_forall in H. apply H. assumption.
Qed.

(* the loop does not know backtick-quoted identifiers (accepted by the client's default dialect):
   select 1 as `a;b`  is cut inside the identifier *)
Lemma backtick_refuted : exists s, split_model s <> ref_split_bt s /\ length (split_model s) = 2%nat /\ length (ref_split_bt s) = 1%nat.
Proof.
  exists [115;101;108;101;99;116;32;49;32;97;115;32;96;97;59;98;96].
  vm_compute. repeat split. discriminate.
Qed.

(* ------------------------------------------------------------------------------------------ *)
(* CSV / TSV                                                                                   *)
(* ------------------------------------------------------------------------------------------ *)
Section Csv.
Variable d : Z.
Hypothesis d34 : d <> 34.
Hypothesis d10 : d <> 10.
Hypothesis d13 : d <> 13.

Ltac eqbs :=
  repeat match goal with
         | |- context [Z.eqb ?a ?b] => destruct (Z.eqb_spec a b); try congruence; try lia
         end.

Definition after_field (c : Z) (t f : list Z) (rc : list (list Z)) (acc : list (list (list Z))) :=
  if c =? d then parse_csv_from d t FS [] (f :: rc) acc
  else parse_csv_from d t RS [] [] (rev (f :: rc) :: acc).

Lemma special_false : forall c, special d c = false -> c <> d /\ c <> 34 /\ c <> 13 /\ c <> 10.
Proof.
  intros c H. unfold special in H. repeat (apply orb_false_iff in H as [H ?]).
  repeat split; apply Z.eqb_neq; assumption.
Qed.

Lemma quoted_body : forall f t fld rc acc,
  parse_csv_from d (dbl_q 34 f ++ 34 :: t) QT fld rc acc = parse_csv_from d t QQ (rev f ++ fld) rc acc.
Proof.
  induction f as [|c f IH]; intros t fld rc acc.
  - cbn [dbl_q app parse_csv_from rev]. reflexivity.
  - cbn [dbl_q]. destruct (Z.eqb_spec c 34) as [E|E].
    + subst c. cbn [app parse_csv_from]. change (34 =? 34) with true. cbn iota.
      rewrite IH. cbn [rev]. rewrite <- app_assoc. reflexivity.
    + cbn [app parse_csv_from]. apply Z.eqb_neq in E. rewrite E.
      rewrite IH. cbn [rev]. rewrite <- app_assoc. reflexivity.
Qed.

Lemma qq_end : forall c t fld rc acc, c = d \/ c = 10 ->
  parse_csv_from d (c :: t) QQ fld rc acc = after_field c t (rev fld) rc acc.
Proof. intros c t fld rc acc [->| ->]; unfold after_field; cbn [parse_csv_from]; eqbs; try reflexivity. Qed.

Lemma uq_end : forall c t fld rc acc, c = d \/ c = 10 ->
  parse_csv_from d (c :: t) UQ fld rc acc = after_field c t (rev fld) rc acc.
Proof. intros c t fld rc acc [->| ->]; unfold after_field; cbn [parse_csv_from]; eqbs; try reflexivity. Qed.

Lemma unquoted_body : forall f t fld rc acc, needs_quotes d f = false ->
  parse_csv_from d (f ++ t) UQ fld rc acc = parse_csv_from d t UQ (rev f ++ fld) rc acc.
Proof.
  induction f as [|c f IH]; intros t fld rc acc H; [reflexivity|].
  unfold needs_quotes in H. cbn [existsb] in H. apply orb_false_iff in H as [Hc Hf].
  apply special_false in Hc as (A & B & C & D).
  cbn [app parse_csv_from]. eqbs. rewrite IH by assumption. cbn [rev]. rewrite <- app_assoc. reflexivity.
Qed.

Lemma field_from_start : forall st f c t rc acc,
  st = RS \/ st = FS -> c = d \/ c = 10 -> (f <> [] \/ c = d \/ st = FS) ->
  parse_csv_from d (enc_field d f ++ c :: t) st [] rc acc = after_field c t f rc acc.
Proof.
  intros st f c t rc acc Hst Hc Hne. unfold enc_field.
  destruct (needs_quotes d f) eqn:Eq.
  - change ((34 :: dbl_q 34 f ++ [34]) ++ c :: t) with (34 :: (dbl_q 34 f ++ [34]) ++ c :: t).
    rewrite <- app_assoc. cbn [app].
    transitivity (parse_csv_from d (dbl_q 34 f ++ 34 :: c :: t) QT [] rc acc).
    { destruct Hst as [-> | ->]; cbn [parse_csv_from]; reflexivity. }
    rewrite quoted_body, qq_end by assumption. rewrite app_nil_r, rev_involutive. reflexivity.
  - destruct f as [|x f].
    + cbn [app]. destruct Hc as [-> | ->].
      * unfold after_field. destruct Hst as [-> | ->]; cbn [parse_csv_from]; eqbs; try reflexivity.
      * destruct Hne as [H|[H| ->]]; [congruence|congruence|].
        unfold after_field. cbn [parse_csv_from]. eqbs; try reflexivity.
    + unfold needs_quotes in Eq. cbn [existsb] in Eq. apply orb_false_iff in Eq as [Hx Hf].
      apply special_false in Hx as (A & B & C & D).
      transitivity (parse_csv_from d (f ++ c :: t) UQ [x] rc acc).
      { destruct Hst as [-> | ->]; cbn [app parse_csv_from]; eqbs; try reflexivity. }
      rewrite unquoted_body, uq_end by assumption.
      rewrite rev_app_distr, rev_involutive. reflexivity.
Qed.

Lemma enc_nil : forall f, enc_field d f = [] -> f = [].
Proof. intros f. unfold enc_field. destruct (needs_quotes d f); [discriminate|auto]. Qed.

Lemma fields_lemma : forall fs st rc acc t,
  fs <> [] -> st = RS \/ st = FS -> (st = FS \/ join_fields d (map (enc_field d) fs) <> []) ->
  parse_csv_from d (join_fields d (map (enc_field d) fs) ++ 10 :: t) st [] rc acc
  = parse_csv_from d t RS [] [] ((rev rc ++ fs) :: acc).
Proof.
  induction fs as [|f fs IH]; intros st rc acc t Hne Hst Hb; [congruence|].
  destruct fs as [|g fs].
  - cbn [map join_fields] in *. rewrite field_from_start; try assumption; [|right; reflexivity|].
    + unfold after_field. eqbs; try reflexivity.
    + destruct Hb as [Hb|Hb]; [right; right; assumption|left; intros ->; apply Hb; reflexivity].
  - change (join_fields d (map (enc_field d) (f :: g :: fs)))
      with (enc_field d f ++ d :: join_fields d (map (enc_field d) (g :: fs))).
    rewrite <- app_assoc. cbn [app].
    rewrite field_from_start; try assumption; [|left; reflexivity|right; left; reflexivity].
    unfold after_field. rewrite Z.eqb_refl.
    rewrite IH; [|discriminate|right; reflexivity|left; reflexivity].
    cbn [rev]. rewrite <- app_assoc. reflexivity.
Qed.

Lemma record_lemma : forall r t acc, r <> [] ->
  parse_csv_from d (write_record d r ++ t) RS [] [] acc = parse_csv_from d t RS [] [] (r :: acc).
Proof.
  intros r t acc Hne. unfold write_record.
  destruct (join_fields d (map (enc_field d) r)) as [|b body] eqn:E.
  - (* only a single empty field produces no bytes *)
    assert (r = [[]]) as ->.
    { destruct r as [|f [|g r]]; [congruence| |].
      - cbn [map join_fields] in E. apply enc_nil in E. subst. reflexivity.
      - cbn [map join_fields] in E. destruct (enc_field d f); discriminate. }
    cbn [app parse_csv_from]. eqbs; try reflexivity.
  - rewrite <- E, <- app_assoc. cbn [app].
    rewrite fields_lemma; [reflexivity|assumption|left; reflexivity|right; rewrite E; discriminate].
Qed.

Lemma rows_lemma : forall rows t acc, Forall (fun r => r <> []) rows ->
  parse_csv_from d (write_csv d rows ++ t) RS [] [] acc = parse_csv_from d t RS [] [] (rev rows ++ acc).
Proof.
  induction rows as [|r rows IH]; intros t acc H; [reflexivity|].
  inversion H; subst. unfold write_csv in *. cbn [flat_map]. rewrite <- app_assoc.
  rewrite record_lemma by assumption. rewrite IH by assumption. cbn [rev]. rewrite <- app_assoc. reflexivity.
Qed.

Theorem csv_roundtrip_d : forall rows, Forall (fun r => r <> []) rows ->
  parse_csv d (write_csv d rows) = Some rows.
Proof.
  intros rows H. unfold parse_csv. rewrite <- (app_nil_r (write_csv d rows)).
  rewrite rows_lemma by assumption. cbn [parse_csv_from]. rewrite app_nil_r, rev_involutive. reflexivity.
Qed.
End Csv.

(* for every delimiter other than the quote, CR and LF -- in particular ',' (CSV) and TAB (TSV) *)
Theorem csv_roundtrip : forall d rows, d <> 34 -> d <> 10 -> d <> 13 ->
  Forall (fun r => r <> []) rows -> parse_csv d (write_csv d rows) = Some rows.
Proof. intros. apply csv_roundtrip_d; assumption. Qed.

(* ------------------------------------------------------------------------------------------ *)
(* JSON strings                                                                                *)
(* ------------------------------------------------------------------------------------------ *)
Lemma esc_step : forall b t acc, json_read_body (json_esc_byte b ++ t) acc = json_read_body t (b :: acc).
Proof.
  intros b t acc. unfold json_esc_byte.
  destruct (Z.eqb_spec b 34); [subst; reflexivity|].
  destruct (Z.eqb_spec b 92); [subst; reflexivity|].
  destruct (Z.eqb_spec b 8); [subst; reflexivity|].
  destruct (Z.eqb_spec b 9); [subst; reflexivity|].
  destruct (Z.eqb_spec b 10); [subst; reflexivity|].
  destruct (Z.eqb_spec b 12); [subst; reflexivity|].
  destruct (Z.eqb_spec b 13); [subst; reflexivity|].
  destruct ((0 <=? b) && (b <? 32)) eqn:E.
  - apply andb_true_iff in E as [E1 E2]. apply Z.leb_le in E1. apply Z.ltb_lt in E2.
    assert (Hb : b = 0 \/ b = 1 \/ b = 2 \/ b = 3 \/ b = 4 \/ b = 5 \/ b = 6 \/ b = 7 \/ b = 8 \/ b = 9
                 \/ b = 10 \/ b = 11 \/ b = 12 \/ b = 13 \/ b = 14 \/ b = 15 \/ b = 16 \/ b = 17 \/ b = 18
                 \/ b = 19 \/ b = 20 \/ b = 21 \/ b = 22 \/ b = 23 \/ b = 24 \/ b = 25 \/ b = 26 \/ b = 27
                 \/ b = 28 \/ b = 29 \/ b = 30 \/ b = 31) by lia.
    repeat (destruct Hb as [Hb|Hb]; [subst b; reflexivity|]). subst b. reflexivity.
  - cbn [app json_read_body].
    apply Z.eqb_neq in n, n0. rewrite n, n0, E. reflexivity.
Qed.

Lemma json_body_roundtrip : forall s rest acc,
  json_read_body (flat_map json_esc_byte s ++ 34 :: rest) acc = Some (rev acc ++ s, rest).
Proof.
  induction s as [|b s IH]; intros rest acc.
  - cbn [flat_map app json_read_body]. change (34 =? 34) with true. cbn iota. rewrite app_nil_r. reflexivity.
  - cbn [flat_map]. rewrite <- app_assoc, esc_step, IH. cbn [rev]. rewrite <- app_assoc. reflexivity.
Qed.

(* reading a written string token gives back the value and stops exactly behind the token *)
Theorem json_string_roundtrip : forall s rest,
  json_read_string (json_write_string s ++ rest) = Some (s, rest).
Proof.
  intros s rest. unfold json_write_string, json_read_string.
  cbn [app]. change (34 =? 34) with true. cbn iota.
  rewrite <- app_assoc. cbn [app]. apply json_body_roundtrip.
Qed.
