(* C36 -- the per-table obligations over the GENERATED tables of Gen/ProtoEnumsPhys.v (translators/rs_enummap2coq.py --set physical).
   The scripts are generic (`destruct v; reflexivity`): they keep working when the source gains variants and fail when the
   source maps two variants to one tag, forgets a decode arm or swaps two arms -- that failure is a violation of C36 and
   the driver then reports the offending variants from bad_variants_X. *)
From Coq Require Import List ZArith String Bool.
From DF Require Import Model.ProtoCodec Proofs.ProtoCodecProofs Gen.ProtoEnumsPhys.
Import ListNotations.
Open Scope Z_scope.

Ltac all_in := repeat (first [left; reflexivity | right]).

Lemma dec_enc_TimeUnit : forall v : TimeUnit, dec_TimeUnit (enc_TimeUnit v) = Some v.
Proof. destruct v; reflexivity. Qed.
Lemma enc_injective_TimeUnit : forall a b : TimeUnit, enc_TimeUnit a = enc_TimeUnit b -> a = b.
Proof. exact (dec_enc_injective enc_TimeUnit dec_TimeUnit dec_enc_TimeUnit). Qed.
Lemma all_TimeUnit_complete : forall v : TimeUnit, In v all_TimeUnit.
Proof. destruct v; unfold all_TimeUnit; all_in. Qed.
Lemma table_ok_TimeUnit_true : table_ok_TimeUnit = true.
Proof. vm_compute. reflexivity. Qed.

Lemma dec_enc_IntervalUnit : forall v : IntervalUnit, dec_IntervalUnit (enc_IntervalUnit v) = Some v.
Proof. destruct v; reflexivity. Qed.
Lemma enc_injective_IntervalUnit : forall a b : IntervalUnit, enc_IntervalUnit a = enc_IntervalUnit b -> a = b.
Proof. exact (dec_enc_injective enc_IntervalUnit dec_IntervalUnit dec_enc_IntervalUnit). Qed.
Lemma all_IntervalUnit_complete : forall v : IntervalUnit, In v all_IntervalUnit.
Proof. destruct v; unfold all_IntervalUnit; all_in. Qed.
Lemma table_ok_IntervalUnit_true : table_ok_IntervalUnit = true.
Proof. vm_compute. reflexivity. Qed.

Lemma dec_enc_UnionMode : forall v : UnionMode, dec_UnionMode (enc_UnionMode v) = Some v.
Proof. destruct v; reflexivity. Qed.
Lemma enc_injective_UnionMode : forall a b : UnionMode, enc_UnionMode a = enc_UnionMode b -> a = b.
Proof. exact (dec_enc_injective enc_UnionMode dec_UnionMode dec_enc_UnionMode). Qed.
Lemma all_UnionMode_complete : forall v : UnionMode, In v all_UnionMode.
Proof. destruct v; unfold all_UnionMode; all_in. Qed.
Lemma table_ok_UnionMode_true : table_ok_UnionMode = true.
Proof. vm_compute. reflexivity. Qed.

Lemma dec_enc_JoinSide : forall v : JoinSide, dec_JoinSide (enc_JoinSide v) = Some v.
Proof. destruct v; reflexivity. Qed.
Lemma enc_injective_JoinSide : forall a b : JoinSide, enc_JoinSide a = enc_JoinSide b -> a = b.
Proof. exact (dec_enc_injective enc_JoinSide dec_JoinSide dec_enc_JoinSide). Qed.
Lemma all_JoinSide_complete : forall v : JoinSide, In v all_JoinSide.
Proof. destruct v; unfold all_JoinSide; all_in. Qed.
Lemma table_ok_JoinSide_true : table_ok_JoinSide = true.
Proof. vm_compute. reflexivity. Qed.

Lemma dec_enc_CompressionTypeVariant : forall v : CompressionTypeVariant, dec_CompressionTypeVariant (enc_CompressionTypeVariant v) = Some v.
Proof. destruct v; reflexivity. Qed.
Lemma enc_injective_CompressionTypeVariant : forall a b : CompressionTypeVariant, enc_CompressionTypeVariant a = enc_CompressionTypeVariant b -> a = b.
Proof. exact (dec_enc_injective enc_CompressionTypeVariant dec_CompressionTypeVariant dec_enc_CompressionTypeVariant). Qed.
Lemma all_CompressionTypeVariant_complete : forall v : CompressionTypeVariant, In v all_CompressionTypeVariant.
Proof. destruct v; unfold all_CompressionTypeVariant; all_in. Qed.
Lemma table_ok_CompressionTypeVariant_true : table_ok_CompressionTypeVariant = true.
Proof. vm_compute. reflexivity. Qed.

Lemma dec_enc_CsvQuoteStyle : forall v : CsvQuoteStyle, dec_CsvQuoteStyle (enc_CsvQuoteStyle v) = Some v.
Proof. destruct v; reflexivity. Qed.
Lemma enc_injective_CsvQuoteStyle : forall a b : CsvQuoteStyle, enc_CsvQuoteStyle a = enc_CsvQuoteStyle b -> a = b.
Proof. exact (dec_enc_injective enc_CsvQuoteStyle dec_CsvQuoteStyle dec_enc_CsvQuoteStyle). Qed.
Lemma all_CsvQuoteStyle_complete : forall v : CsvQuoteStyle, In v all_CsvQuoteStyle.
Proof. destruct v; unfold all_CsvQuoteStyle; all_in. Qed.
Lemma table_ok_CsvQuoteStyle_true : table_ok_CsvQuoteStyle = true.
Proof. vm_compute. reflexivity. Qed.

Lemma dec_enc_DataType : forall v : DataType, dec_DataType (enc_DataType v) = Some v.
Proof. destruct v; reflexivity. Qed.
Lemma enc_injective_DataType : forall a b : DataType, enc_DataType a = enc_DataType b -> a = b.
Proof. exact (dec_enc_injective enc_DataType dec_DataType dec_enc_DataType). Qed.
Lemma all_DataType_complete : forall v : DataType, In v all_DataType.
Proof. destruct v; unfold all_DataType; all_in. Qed.
Lemma table_ok_DataType_true : table_ok_DataType = true.
Proof. vm_compute. reflexivity. Qed.

(* Operator: the listed variants (known findings) have no decode arm; every other variant round-trips *)
Lemma dec_enc_Operator : forall v : Operator, good_Operator v = true -> dec_Operator (enc_Operator v) = Some v.
Proof. destruct v; intros H; first [reflexivity | discriminate H]. Qed.
Lemma dec_enc_Operator_refuted : exists v : Operator, dec_Operator (enc_Operator v) = None.
Proof. exists Operator_Arrow. reflexivity. Qed.
Lemma known_bad_Operator_undecodable : forall v : Operator, good_Operator v = false -> dec_Operator (enc_Operator v) = None.
Proof. destruct v; intros H; first [reflexivity | discriminate H]. Qed.
Lemma eqb_Operator_true : forall a b : Operator, eqb_Operator a b = true -> a = b.
Proof. destruct a; destruct b; intros H; first [reflexivity | discriminate H]. Qed.
Lemma enc_injective_Operator : forall a b : Operator, enc_Operator a = enc_Operator b -> a = b.
Proof. destruct a; destruct b; intros H; first [reflexivity | discriminate H]. Qed.
Lemma all_Operator_complete : forall v : Operator, In v all_Operator.
Proof. destruct v; unfold all_Operator; all_in. Qed.
Lemma table_ok_Operator_true : table_ok_Operator = true.
Proof. vm_compute. reflexivity. Qed.

Lemma dec_enc_PJoinType : forall v : PJoinType, dec_PJoinType (enc_PJoinType v) = Some v.
Proof. destruct v; reflexivity. Qed.
Lemma enc_injective_PJoinType : forall a b : PJoinType, enc_PJoinType a = enc_PJoinType b -> a = b.
Proof. exact (dec_enc_injective enc_PJoinType dec_PJoinType dec_enc_PJoinType). Qed.
Lemma all_PJoinType_complete : forall v : PJoinType, In v all_PJoinType.
Proof. destruct v; unfold all_PJoinType; all_in. Qed.
Lemma table_ok_PJoinType_true : table_ok_PJoinType = true.
Proof. vm_compute. reflexivity. Qed.

Lemma dec_enc_PJoinSide : forall v : PJoinSide, dec_PJoinSide (enc_PJoinSide v) = Some v.
Proof. destruct v; reflexivity. Qed.
Lemma enc_injective_PJoinSide : forall a b : PJoinSide, enc_PJoinSide a = enc_PJoinSide b -> a = b.
Proof. exact (dec_enc_injective enc_PJoinSide dec_PJoinSide dec_enc_PJoinSide). Qed.
Lemma all_PJoinSide_complete : forall v : PJoinSide, In v all_PJoinSide.
Proof. destruct v; unfold all_PJoinSide; all_in. Qed.
Lemma table_ok_PJoinSide_true : table_ok_PJoinSide = true.
Proof. vm_compute. reflexivity. Qed.

Lemma dec_enc_PNullEquality : forall v : PNullEquality, dec_PNullEquality (enc_PNullEquality v) = Some v.
Proof. destruct v; reflexivity. Qed.
Lemma enc_injective_PNullEquality : forall a b : PNullEquality, enc_PNullEquality a = enc_PNullEquality b -> a = b.
Proof. exact (dec_enc_injective enc_PNullEquality dec_PNullEquality dec_enc_PNullEquality). Qed.
Lemma all_PNullEquality_complete : forall v : PNullEquality, In v all_PNullEquality.
Proof. destruct v; unfold all_PNullEquality; all_in. Qed.
Lemma table_ok_PNullEquality_true : table_ok_PNullEquality = true.
Proof. vm_compute. reflexivity. Qed.

Lemma dec_enc_PartitionMode : forall v : PartitionMode, dec_PartitionMode (enc_PartitionMode v) = Some v.
Proof. destruct v; reflexivity. Qed.
Lemma enc_injective_PartitionMode : forall a b : PartitionMode, enc_PartitionMode a = enc_PartitionMode b -> a = b.
Proof. exact (dec_enc_injective enc_PartitionMode dec_PartitionMode dec_enc_PartitionMode). Qed.
Lemma all_PartitionMode_complete : forall v : PartitionMode, In v all_PartitionMode.
Proof. destruct v; unfold all_PartitionMode; all_in. Qed.
Lemma table_ok_PartitionMode_true : table_ok_PartitionMode = true.
Proof. vm_compute. reflexivity. Qed.

Lemma dec_enc_SymJoinType : forall v : SymJoinType, dec_SymJoinType (enc_SymJoinType v) = Some v.
Proof. destruct v; reflexivity. Qed.
Lemma enc_injective_SymJoinType : forall a b : SymJoinType, enc_SymJoinType a = enc_SymJoinType b -> a = b.
Proof. exact (dec_enc_injective enc_SymJoinType dec_SymJoinType dec_enc_SymJoinType). Qed.
Lemma all_SymJoinType_complete : forall v : SymJoinType, In v all_SymJoinType.
Proof. destruct v; unfold all_SymJoinType; all_in. Qed.
Lemma table_ok_SymJoinType_true : table_ok_SymJoinType = true.
Proof. vm_compute. reflexivity. Qed.

Lemma dec_enc_SymNullEquality : forall v : SymNullEquality, dec_SymNullEquality (enc_SymNullEquality v) = Some v.
Proof. destruct v; reflexivity. Qed.
Lemma enc_injective_SymNullEquality : forall a b : SymNullEquality, enc_SymNullEquality a = enc_SymNullEquality b -> a = b.
Proof. exact (dec_enc_injective enc_SymNullEquality dec_SymNullEquality dec_enc_SymNullEquality). Qed.
Lemma all_SymNullEquality_complete : forall v : SymNullEquality, In v all_SymNullEquality.
Proof. destruct v; unfold all_SymNullEquality; all_in. Qed.
Lemma table_ok_SymNullEquality_true : table_ok_SymNullEquality = true.
Proof. vm_compute. reflexivity. Qed.

Lemma dec_enc_SymJoinSide : forall v : SymJoinSide, dec_SymJoinSide (enc_SymJoinSide v) = Some v.
Proof. destruct v; reflexivity. Qed.
Lemma enc_injective_SymJoinSide : forall a b : SymJoinSide, enc_SymJoinSide a = enc_SymJoinSide b -> a = b.
Proof. exact (dec_enc_injective enc_SymJoinSide dec_SymJoinSide dec_enc_SymJoinSide). Qed.
Lemma all_SymJoinSide_complete : forall v : SymJoinSide, In v all_SymJoinSide.
Proof. destruct v; unfold all_SymJoinSide; all_in. Qed.
Lemma table_ok_SymJoinSide_true : table_ok_SymJoinSide = true.
Proof. vm_compute. reflexivity. Qed.

Lemma dec_enc_StreamJoinPartitionMode : forall v : StreamJoinPartitionMode, dec_StreamJoinPartitionMode (enc_StreamJoinPartitionMode v) = Some v.
Proof. destruct v; reflexivity. Qed.
Lemma enc_injective_StreamJoinPartitionMode : forall a b : StreamJoinPartitionMode, enc_StreamJoinPartitionMode a = enc_StreamJoinPartitionMode b -> a = b.
Proof. exact (dec_enc_injective enc_StreamJoinPartitionMode dec_StreamJoinPartitionMode dec_enc_StreamJoinPartitionMode). Qed.
Lemma all_StreamJoinPartitionMode_complete : forall v : StreamJoinPartitionMode, In v all_StreamJoinPartitionMode.
Proof. destruct v; unfold all_StreamJoinPartitionMode; all_in. Qed.
Lemma table_ok_StreamJoinPartitionMode_true : table_ok_StreamJoinPartitionMode = true.
Proof. vm_compute. reflexivity. Qed.

Lemma dec_enc_AggregateMode : forall v : AggregateMode, dec_AggregateMode (enc_AggregateMode v) = Some v.
Proof. destruct v; reflexivity. Qed.
Lemma enc_injective_AggregateMode : forall a b : AggregateMode, enc_AggregateMode a = enc_AggregateMode b -> a = b.
Proof. exact (dec_enc_injective enc_AggregateMode dec_AggregateMode dec_enc_AggregateMode). Qed.
Lemma all_AggregateMode_complete : forall v : AggregateMode, In v all_AggregateMode.
Proof. destruct v; unfold all_AggregateMode; all_in. Qed.
Lemma table_ok_AggregateMode_true : table_ok_AggregateMode = true.
Proof. vm_compute. reflexivity. Qed.

Lemma dec_enc_PWindowFrameUnits : forall v : PWindowFrameUnits, dec_PWindowFrameUnits (enc_PWindowFrameUnits v) = Some v.
Proof. destruct v; reflexivity. Qed.
Lemma enc_injective_PWindowFrameUnits : forall a b : PWindowFrameUnits, enc_PWindowFrameUnits a = enc_PWindowFrameUnits b -> a = b.
Proof. exact (dec_enc_injective enc_PWindowFrameUnits dec_PWindowFrameUnits dec_enc_PWindowFrameUnits). Qed.
Lemma all_PWindowFrameUnits_complete : forall v : PWindowFrameUnits, In v all_PWindowFrameUnits.
Proof. destruct v; unfold all_PWindowFrameUnits; all_in. Qed.
Lemma table_ok_PWindowFrameUnits_true : table_ok_PWindowFrameUnits = true.
Proof. vm_compute. reflexivity. Qed.

Lemma dec_enc_PWindowFrameBound : forall v : PWindowFrameBound, dec_PWindowFrameBound (enc_PWindowFrameBound v) = Some v.
Proof. destruct v; reflexivity. Qed.
Lemma enc_injective_PWindowFrameBound : forall a b : PWindowFrameBound, enc_PWindowFrameBound a = enc_PWindowFrameBound b -> a = b.
Proof. exact (dec_enc_injective enc_PWindowFrameBound dec_PWindowFrameBound dec_enc_PWindowFrameBound). Qed.
Lemma all_PWindowFrameBound_complete : forall v : PWindowFrameBound, In v all_PWindowFrameBound.
Proof. destruct v; unfold all_PWindowFrameBound; all_in. Qed.
Lemma table_ok_PWindowFrameBound_true : table_ok_PWindowFrameBound = true.
Proof. vm_compute. reflexivity. Qed.

Lemma dec_enc_PExplainFormat : forall v : PExplainFormat, dec_PExplainFormat (enc_PExplainFormat v) = Some v.
Proof. destruct v; reflexivity. Qed.
Lemma enc_injective_PExplainFormat : forall a b : PExplainFormat, enc_PExplainFormat a = enc_PExplainFormat b -> a = b.
Proof. exact (dec_enc_injective enc_PExplainFormat dec_PExplainFormat dec_enc_PExplainFormat). Qed.
Lemma all_PExplainFormat_complete : forall v : PExplainFormat, In v all_PExplainFormat.
Proof. destruct v; unfold all_PExplainFormat; all_in. Qed.
Lemma table_ok_PExplainFormat_true : table_ok_PExplainFormat = true.
Proof. vm_compute. reflexivity. Qed.

Lemma dec_enc_InsertOp : forall v : InsertOp, dec_InsertOp (enc_InsertOp v) = Some v.
Proof. destruct v; reflexivity. Qed.
Lemma enc_injective_InsertOp : forall a b : InsertOp, enc_InsertOp a = enc_InsertOp b -> a = b.
Proof. exact (dec_enc_injective enc_InsertOp dec_InsertOp dec_enc_InsertOp). Qed.
Lemma all_InsertOp_complete : forall v : InsertOp, In v all_InsertOp.
Proof. destruct v; unfold all_InsertOp; all_in. Qed.
Lemma table_ok_InsertOp_true : table_ok_InsertOp = true.
Proof. vm_compute. reflexivity. Qed.

Lemma dec_enc_FileOutputMode : forall v : FileOutputMode, dec_FileOutputMode (enc_FileOutputMode v) = Some v.
Proof. destruct v; reflexivity. Qed.
Lemma enc_injective_FileOutputMode : forall a b : FileOutputMode, enc_FileOutputMode a = enc_FileOutputMode b -> a = b.
Proof. exact (dec_enc_injective enc_FileOutputMode dec_FileOutputMode dec_enc_FileOutputMode). Qed.
Lemma all_FileOutputMode_complete : forall v : FileOutputMode, In v all_FileOutputMode.
Proof. destruct v; unfold all_FileOutputMode; all_in. Qed.
Lemma table_ok_FileOutputMode_true : table_ok_FileOutputMode = true.
Proof. vm_compute. reflexivity. Qed.

