(* C35 -- the Expr round trip instantiated with the generated Operator / DataType tables *)
From Coq Require Import List ZArith String Bool.
From DF Require Import Model.ProtoCodec Gen.ProtoEnums Model.C35Corr Proofs.ProtoCodecProofs Proofs.ProtoEnumsProofs.
Import ListNotations.
Open Scope Z_scope.

Lemma generated_tables_logical_checked :
  forallb (fun r => snd (fst (fst r))) generated_tables_logical = true /\
  forallb (fun r => match snd r with [] => true | _ => false end) generated_tables_logical = true.
Proof. split; vm_compute; reflexivity. Qed.

Lemma c35_decode_encode_id : forall e : c35_expr, c35_plain e = true -> c35_decode (c35_encode e) = Some e.
Proof.
  exact (decode_encode_id Operator eqb_Operator enc_Operator dec_Operator good_Operator DataType enc_DataType dec_DataType
           eqb_Operator_true dec_enc_Operator dec_enc_DataType).
Qed.

Lemma c35_encode_injective : forall a b : c35_expr,
  c35_plain a = true -> c35_plain b = true -> c35_encode a = c35_encode b -> a = b.
Proof.
  intros a b Ha Hb E. pose proof (c35_decode_encode_id a Ha) as A. rewrite E, (c35_decode_encode_id b Hb) in A. now inversion A.
Qed.

Lemma c35_unknown_operator : forall (op : Operator) (a b : c35_expr),
  good_Operator op = false -> c35_decode (c35_encode (EBinary a op b)) = None.
Proof.
  intros op a b H. apply unknown_operator_rejected. now apply known_bad_Operator_undecodable.
Qed.

Lemma c35_literal_metadata : forall (l : lit) (m : meta), c35_decode (c35_encode (ELit l (Some m))) = Some (ELit l None).
Proof. reflexivity. Qed.

Lemma c35_alias_metadata : forall (rel : option string) (name : string) (m : meta) (l : lit),
  c35_decode (c35_encode (EAlias (ELit l None) rel name (Some m))) = Some (EAlias (ELit l None) rel name None).
Proof. intros. apply alias_metadata_dropped. Qed.

Lemma c35_cast_metadata : forall (l : lit) (ty : DataType) (nb : bool) (m : meta),
  c35_decode (c35_encode (ECast (ELit l None) ty nb m)) = Some (ECast (ELit l None) ty nb []).
Proof. intros. apply (cast_metadata_dropped Operator eqb_Operator enc_Operator dec_Operator DataType enc_DataType dec_DataType dec_enc_DataType). Qed.

Lemma c35_multibyte_escape : forall (n : bool) (l : lit) (s : string),
  (2 <= String.length s)%nat -> c35_decode (c35_encode (ELike n (ELit l None) (ELit l None) (Some s) false)) = None.
Proof. intros. now apply multibyte_escape_rejected. Qed.
