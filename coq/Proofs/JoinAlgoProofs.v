(* C05 -- proofs about Model/JoinAlgo.v: the hash join (any hash function, any probe batching, any paging of the
   candidate lists) and the sort-merge join (key-sorted inputs) compute the join type's nested-loop definition,
   as bags (Permutation). *)
From Coq Require Import List ZArith Bool Arith Lia Permutation Sorted.
From DF Require Import Base.Prelude Model.RefSQL Proofs.RefSQLLaws Model.JoinAlgo.
Import ListNotations.
Open Scope Z_scope.

(* ------------------------------------------------------------------ generic list facts *)
Lemma flat_map_ext_in : forall {A B} (f g : A -> list B) l,
  (forall x, In x l -> f x = g x) -> flat_map f l = flat_map g l.
Proof.
  induction l as [|a l IH]; intros H; [reflexivity|]. cbn [flat_map].
  rewrite (H a (or_introl eq_refl)), IH; auto. intros; apply H; right; auto.
Qed.
Lemma perm_flat_map : forall {A B} (f g : A -> list B) l,
  (forall x, In x l -> Permutation (f x) (g x)) -> Permutation (flat_map f l) (flat_map g l).
Proof.
  induction l as [|a l IH]; intros H; [constructor|]. cbn [flat_map].
  apply Permutation_app; [apply H; left; auto | apply IH; intros; apply H; right; auto].
Qed.
Lemma filter_flat_map : forall {A B} (p : B -> bool) (f : A -> list B) l,
  filter p (flat_map f l) = flat_map (fun x => filter p (f x)) l.
Proof. induction l as [|a l IH]; [reflexivity|]. cbn [flat_map]. rewrite filter_app, IH. reflexivity. Qed.
Lemma map_flat_map : forall {A B C} (h : B -> C) (f : A -> list B) l,
  map h (flat_map f l) = flat_map (fun x => map h (f x)) l.
Proof. induction l as [|a l IH]; [reflexivity|]. cbn [flat_map]. rewrite map_app, IH. reflexivity. Qed.
Lemma map_filter_flat_map : forall {A B} (F : A -> B) (g : A -> bool) l,
  map F (filter g l) = flat_map (fun q => if g q then [F q] else []) l.
Proof. induction l as [|a l IH]; [reflexivity|]. cbn [filter flat_map]. destruct (g a); cbn; rewrite IH; reflexivity. Qed.
Lemma filter_all_true : forall {A} (f : A -> bool) l, (forall x, In x l -> f x = true) -> filter f l = l.
Proof.
  induction l as [|a l IH]; intros H; [reflexivity|]. cbn [filter]. rewrite (H a (or_introl eq_refl)), IH; auto.
  intros; apply H; right; auto.
Qed.
Lemma filter_all_false : forall {A} (f : A -> bool) l, (forall x, In x l -> f x = false) -> filter f l = [].
Proof.
  induction l as [|a l IH]; intros H; [reflexivity|]. cbn [filter]. rewrite (H a (or_introl eq_refl)), IH; auto.
  intros; apply H; right; auto.
Qed.
Lemma filter_filter : forall {A} (f g : A -> bool) l, filter f (filter g l) = filter (fun x => g x && f x) l.
Proof. induction l as [|a l IH]; [reflexivity|]. cbn [filter]. destruct (g a); cbn; [destruct (f a)|]; rewrite IH; reflexivity. Qed.
Lemma filter_rev : forall {A} (f : A -> bool) l, filter f (rev l) = rev (filter f l).
Proof.
  induction l as [|a l IH]; [reflexivity|]. cbn [rev filter]. rewrite filter_app, IH. cbn [filter].
  destruct (f a); cbn [rev]; [reflexivity | rewrite app_nil_r; reflexivity].
Qed.
Lemma seq_split : forall a b c, (a <= b)%nat -> (b <= c)%nat -> seq a (c - a) = seq a (b - a) ++ seq b (c - b).
Proof.
  intros. replace (c - a)%nat with ((b - a) + (c - b))%nat by lia. rewrite seq_app. do 2 f_equal. lia.
Qed.
(* a list seen through its indices *)
Lemma seq_nth_gen : forall {A B} (d : A) (F : nat -> B) (G : A -> B) (g : nat -> bool) (f : A -> bool) l s,
  (forall i, (i < length l)%nat -> F (s + i)%nat = G (nth i l d) /\ g (s + i)%nat = f (nth i l d)) ->
  map F (filter g (seq s (length l))) = map G (filter f l).
Proof.
  induction l as [|a l IH]; intros s H; [reflexivity|].
  cbn [length seq filter]. destruct (H 0%nat) as [H1 H2]; [cbn; lia|]. rewrite Nat.add_0_r in H1, H2. cbn [nth] in H1, H2.
  assert (IH' : map F (filter g (seq (S s) (length l))) = map G (filter f l)).
  { apply IH. intros i Hi. destruct (H (S i)) as [X Y]; [cbn; lia|]. cbn [nth] in X, Y.
    replace (S s + i)%nat with (s + S i)%nat by lia. auto. }
  rewrite H2. destruct (f a); cbn [map]; rewrite IH'; [rewrite H1|]; reflexivity.
Qed.
Lemma seq_nth_filter : forall {A B} (d : A) (F : nat -> B) (G : A -> B) (g : nat -> bool) (f : A -> bool) l,
  (forall i, (i < length l)%nat -> F i = G (nth i l d) /\ g i = f (nth i l d)) ->
  map F (filter g (seq 0 (length l))) = map G (filter f l).
Proof. intros. apply seq_nth_gen with (d := d). intros i Hi. cbn. auto. Qed.
Lemma seq_nth_map : forall {A B} (d : A) (F : nat -> B) (G : A -> B) l,
  (forall i, (i < length l)%nat -> F i = G (nth i l d)) -> map F (seq 0 (length l)) = map G l.
Proof.
  intros. rewrite <- (filter_all_true (fun _ => true) (seq 0 (length l))) by auto.
  rewrite <- (filter_all_true (fun _ => true) l) at 2 by auto.
  apply seq_nth_filter with (d := d). intros; split; auto.
Qed.
Lemma seq_nth_flat_map : forall {A B} (d : A) (F : nat -> list B) (G : A -> list B) l,
  (forall i, (i < length l)%nat -> F i = G (nth i l d)) -> flat_map F (seq 0 (length l)) = flat_map G l.
Proof. intros. rewrite !flat_map_concat_map. f_equal. apply seq_nth_map with (d := d). auto. Qed.

Lemma memn_In : forall q l, memn q l = true <-> In q l.
Proof.
  unfold memn; intros. rewrite existsb_exists. split.
  - intros [x [Hx E]]. apply Nat.eqb_eq in E. subst; auto.
  - intros H. exists q. split; auto. apply Nat.eqb_refl.
Qed.
Lemma memn_false : forall q l, memn q l = false <-> ~ In q l.
Proof. intros. rewrite <- memn_In. destruct (memn q l); split; congruence. Qed.

(* ------------------------------------------------------------------ get_anti_indices / get_semi_indices *)
Lemma ss_le_inv : forall i l, StronglySorted le (i :: l) -> StronglySorted le l /\ forall x, In x l -> (i <= x)%nat.
Proof. intros i l H. inversion H; subst. split; auto. rewrite Forall_forall in *. auto. Qed.

Lemma anti_indices_spec : forall inp s e next,
  StronglySorted le inp -> (s <= next)%nat -> (forall i, In i inp -> (s <= i)%nat -> (next <= S i)%nat) ->
  anti_indices s e next inp = filter (fun q => negb (memn q inp)) (seq next (e - next)).
Proof.
  induction inp as [|i inp IH]; intros s e next Hs Hn Hb.
  - cbn [anti_indices]. symmetry. apply filter_all_true. auto.
  - apply ss_le_inv in Hs. destruct Hs as [Hs Hle]. cbn [anti_indices].
    destruct (i <? s)%nat eqn:E1.
    + apply Nat.ltb_lt in E1. rewrite (IH s e next Hs Hn); [|intros; apply Hb; auto; right; auto].
      apply filter_ext_in. intros q Hq. apply in_seq in Hq. unfold memn. cbn [existsb].
      replace (q =? i)%nat with false; [reflexivity|]. symmetry. apply Nat.eqb_neq. lia.
    + apply Nat.ltb_ge in E1. destruct (e <=? i)%nat eqn:E2.
      * apply Nat.leb_le in E2. symmetry. apply filter_all_true. intros q Hq. apply in_seq in Hq.
        apply negb_true_iff. apply memn_false. intros [X|X]; [lia|]. apply Hle in X. lia.
      * apply Nat.leb_gt in E2. assert (Hni : (next <= S i)%nat) by (apply Hb; [left|]; auto).
        rewrite (IH s e (S i) Hs); [|lia|intros x Hx _; apply Hle in Hx; lia].
        assert (Ext : filter (fun q => negb (memn q inp)) (seq (S i) (e - S i))
                      = filter (fun q => negb (memn q (i :: inp))) (seq (S i) (e - S i))).
        { apply filter_ext_in. intros q Hq. apply in_seq in Hq. unfold memn. cbn [existsb].
          replace (q =? i)%nat with false; [reflexivity|]. symmetry. apply Nat.eqb_neq. lia. }
        rewrite Ext. destruct (Nat.eq_dec next (S i)) as [->|Hne].
        { replace (i - S i)%nat with 0%nat by lia. reflexivity. }
        rewrite (seq_split next i e) by lia. rewrite filter_app.
        rewrite (filter_all_true _ (seq next (i - next))).
        2:{ intros q Hq. apply in_seq in Hq. apply negb_true_iff. apply memn_false.
            intros [X|X]; [lia|]. apply Hle in X. lia. }
        f_equal. replace (e - i)%nat with (S (e - S i)) by lia. cbn [seq filter].
        replace (memn i (i :: inp)) with true; [reflexivity|]. symmetry. apply memn_In. left; auto.
Qed.

Lemma semi_indices_spec : forall inp s e prev,
  StronglySorted le inp ->
  let lo := match prev with Some p => S p | None => s end in
  (s <= lo)%nat -> (forall i, In i inp -> (s <= i)%nat -> (lo <= S i)%nat) ->
  semi_indices s e prev inp = filter (fun q => memn q inp) (seq lo (e - lo)).
Proof.
  induction inp as [|i inp IH]; intros s e prev Hs lo Hn Hb.
  - cbn [semi_indices]. symmetry. apply filter_all_false. auto.
  - apply ss_le_inv in Hs. destruct Hs as [Hs Hle]. cbn [semi_indices].
    destruct (i <? s)%nat eqn:E1.
    + apply Nat.ltb_lt in E1. rewrite (IH s e prev Hs Hn); [|intros; apply Hb; auto; right; auto]. fold lo.
      apply filter_ext_in. intros q Hq. apply in_seq in Hq. unfold memn. cbn [existsb].
      replace (q =? i)%nat with false; [reflexivity|]. symmetry. apply Nat.eqb_neq. lia.
    + apply Nat.ltb_ge in E1. destruct (e <=? i)%nat eqn:E2.
      * apply Nat.leb_le in E2. symmetry. apply filter_all_false. intros q Hq. apply in_seq in Hq.
        apply memn_false. intros [X|X]; [lia|]. apply Hle in X. lia.
      * apply Nat.leb_gt in E2. assert (Hni : (lo <= S i)%nat) by (apply Hb; [left|]; auto).
        assert (Ext : filter (fun q => memn q inp) (seq (S i) (e - S i))
                      = filter (fun q => memn q (i :: inp)) (seq (S i) (e - S i))).
        { apply filter_ext_in. intros q Hq. apply in_seq in Hq. unfold memn. cbn [existsb].
          replace (q =? i)%nat with false; [reflexivity|]. symmetry. apply Nat.eqb_neq. lia. }
        assert (IH' : semi_indices s e (Some i) inp = filter (fun q => memn q inp) (seq (S i) (e - S i))).
        { apply (IH s e (Some i) Hs); [lia|]. intros x Hx _. apply Hle in Hx. lia. }
        destruct (match prev with Some p => Nat.eqb p i | None => false end) eqn:E3.
        { destruct prev as [p|]; [|discriminate]. apply Nat.eqb_eq in E3. subst p.
          rewrite IH', Ext. reflexivity. }
        assert (Hlt : (lo <= i)%nat).
        { destruct prev as [p|]; unfold lo in *; [apply Nat.eqb_neq in E3; lia | lia]. }
        rewrite IH', Ext. rewrite (seq_split lo i e) by lia. rewrite filter_app.
        rewrite (filter_all_false _ (seq lo (i - lo))).
        2:{ intros q Hq. apply in_seq in Hq. apply memn_false. intros [X|X]; [lia|]. apply Hle in X. lia. }
        replace (e - i)%nat with (S (e - S i)) by lia. cbn [seq filter app].
        replace (memn i (i :: inp)) with true; [reflexivity|]. symmetry. apply memn_In. left; auto.
Qed.
(* ------------------------------------------------------------------ keys *)
Lemma oeq_true : forall ne x y, oeq ne x y = true -> x = y /\ (ne = true \/ x <> None).
Proof.
  intros ne [a|] [b|]; cbn; intros H; try discriminate.
  - apply Z.eqb_eq in H. subst. split; auto. right; discriminate.
  - split; auto.
Qed.
Lemma keys_eq_true : forall ne a b, keys_eq ne a b = true -> a = b /\ key_valid ne a = true.
Proof.
  unfold key_valid. induction a as [|x a IH]; intros [|y b]; cbn; intros H; try discriminate.
  - split; auto. apply orb_true_r.
  - apply andb_true_iff in H. destruct H as [H1 H2]. apply oeq_true in H1. destruct H1 as [-> H1].
    apply IH in H2. destruct H2 as [-> H2]. split; auto.
    destruct ne; [reflexivity|]. cbn in *. destruct H1 as [H1|H1]; [discriminate|].
    destruct y; [exact H2 | congruence].
Qed.
Lemma keys_eq_refl : forall ne a, key_valid ne a = true -> keys_eq ne a a = true.
Proof.
  unfold key_valid. induction a as [|x a IH]; cbn; intros H; [reflexivity|].
  destruct ne; cbn in *.
  - rewrite IH by reflexivity. destruct x; cbn; [rewrite Z.eqb_refl|]; reflexivity.
  - destruct x; [|discriminate]. cbn. rewrite Z.eqb_refl. cbn. apply IH. exact H.
Qed.

Lemma filter_map_comm : forall {A B} (f : B -> bool) (g : A -> B) l,
  filter f (map g l) = map g (filter (fun x => f (g x)) l).
Proof. induction l as [|a l IH]; [reflexivity|]. cbn. destruct (f (g a)); cbn; rewrite IH; reflexivity. Qed.
Lemma flat_map_singleton : forall {A B} (f : A -> B) l, flat_map (fun x => [f x]) l = map f l.
Proof. induction l as [|a l IH]; [reflexivity|]. cbn. rewrite IH. reflexivity. Qed.
Lemma flat_map_nil_f : forall {A B} (l : list A), flat_map (fun _ => @nil B) l = [].
Proof. induction l; auto. Qed.
Lemma perm_shuffle4 : forall {A} (a b c d : list A), Permutation ((a ++ b) ++ (c ++ d)) ((a ++ c) ++ (b ++ d)).
Proof.
  intros. rewrite <- !app_assoc. apply Permutation_app_head. rewrite !app_assoc. apply Permutation_app_tail.
  apply Permutation_app_comm.
Qed.

(* sortedness of (probe, build) pair lists by probe index *)
Definition ple (a b : nat * nat) : Prop := (fst a <= fst b)%nat.
Lemma ss_app : forall {A} (R : A -> A -> Prop) a b,
  StronglySorted R a -> StronglySorted R b -> (forall x y, In x a -> In y b -> R x y) -> StronglySorted R (a ++ b).
Proof.
  induction a as [|x a IH]; intros b Ha Hb H; [exact Hb|]. inversion Ha; subst. cbn. constructor.
  - apply IH; auto. intros; apply H; auto. right; auto.
  - apply Forall_app. split; auto. apply Forall_forall. intros y Hy. apply H; auto. left; auto.
Qed.
Lemma ss_app_inv : forall {A} (R : A -> A -> Prop) a b,
  StronglySorted R (a ++ b) -> StronglySorted R a /\ StronglySorted R b /\ (forall x y, In x a -> In y b -> R x y).
Proof.
  induction a as [|x a IH]; intros b H.
  - split; [constructor|]. split; auto. intros ? ? [].
  - cbn in H. inversion H; subst. apply IH in H2. destruct H2 as [Ha [Hb Hc]]. apply Forall_app in H3. destruct H3 as [F1 F2].
    split; [constructor; auto|]. split; auto. intros u v [<-|Hu] Hv; [|auto]. rewrite Forall_forall in F2. auto.
Qed.
Lemma ss_filter : forall {A} (R : A -> A -> Prop) f l, StronglySorted R l -> StronglySorted R (filter f l).
Proof.
  induction l as [|a l IH]; intros H; [constructor|]. inversion H; subst. cbn. destruct (f a); auto.
  constructor; auto. rewrite Forall_forall in *. intros x Hx. apply filter_In in Hx. apply H3. tauto.
Qed.
Lemma ss_map_fst : forall l, StronglySorted ple l -> StronglySorted le (map fst l).
Proof.
  induction l as [|a l IH]; intros H; [constructor|]. inversion H; subst. cbn. constructor; auto.
  rewrite Forall_forall in *. intros x Hx. apply in_map_iff in Hx. destruct Hx as [y [<- Hy]]. apply H3. auto.
Qed.
Lemma last_fst_none : forall l, last_fst l = None -> l = [].
Proof.
  unfold last_fst. intros l H. destruct (rev l) eqn:E; [|discriminate].
  apply (f_equal (@rev _)) in E. rewrite rev_involutive in E. exact E.
Qed.
Lemma last_fst_some : forall l p, last_fst l = Some p -> exists pre b, l = pre ++ [(p, b)].
Proof.
  unfold last_fst. intros l p H. destruct (rev l) as [|[p' b] tl] eqn:E; [discriminate|]. cbn in H. inversion H; subst.
  apply (f_equal (@rev _)) in E. rewrite rev_involutive in E. cbn in E. exists (rev tl), b. exact E.
Qed.
Lemma split_pages_concat : forall {A} sizes (l : list A), concat (split_pages sizes l) = l.
Proof.
  induction sizes as [|k sizes IH]; intros l; cbn; [apply app_nil_r|]. rewrite IH. apply firstn_skipn.
Qed.
Lemma split_pages_nonnil : forall {A} sizes (l : list A), split_pages sizes l <> [].
Proof. destruct sizes; cbn; discriminate. Qed.

(* the visited bitmap *)
Lemma set_bit_length : forall bm i, length (set_bit bm i) = length bm.
Proof. induction bm as [|b bm IH]; intros [|i]; cbn; auto. Qed.
Lemma get_set_bit : forall bm i j, (j < length bm)%nat -> get_bit (set_bit bm i) j = get_bit bm j || Nat.eqb j i.
Proof.
  unfold get_bit. induction bm as [|b bm IH]; intros i j H; [cbn in H; lia|].
  destruct i, j; cbn; auto.
  - symmetry. apply orb_true_r.
  - symmetry. apply orb_false_r.
  - symmetry. apply orb_false_r.
  - apply IH. cbn in H. lia.
Qed.
Lemma fold_set_bit : forall (prs : list (nat * nat)) bm,
  length (fold_left (fun bm pr => set_bit bm (snd pr)) prs bm) = length bm /\
  forall j, (j < length bm)%nat ->
    get_bit (fold_left (fun bm pr => set_bit bm (snd pr)) prs bm) j = get_bit bm j || memn j (map snd prs).
Proof.
  induction prs as [|pr prs IH]; intros bm; cbn [fold_left map].
  - split; auto. intros. cbn. symmetry. apply orb_false_r.
  - destruct (IH (set_bit bm (snd pr))) as [L G]. rewrite set_bit_length in L. split; auto.
    intros j Hj. rewrite G by (rewrite set_bit_length; auto). rewrite get_set_bit by auto.
    unfold memn. cbn [existsb]. rewrite orb_assoc. reflexivity.
Qed.
(* ------------------------------------------------------------------ (a) the hash join *)
Definition pair_type (t : jtype) : bool := match t with TInner | TLeft | TRight | TFull => true | _ => false end.
(* what a probe row contributes besides its matched pairs, given whether it matched *)
Definition phi (t : jtype) (wl : Z) (r : row) (m : bool) : rel :=
  match t with
  | TRight | TFull => if m then [] else [nulls wl ++ r]
  | TRightSemi => if m then [r] else []
  | TRightAnti => if m then [] else [r]
  | TRightMark => [r ++ [VBool m]]
  | _ => []
  end.

Section HJProofs.
  Variable hash : okey -> Z.
  Variable t : jtype.
  Variable nulleq : bool.
  Variables kb kp : row -> okey.
  Variable filt : row -> row -> bool.
  Variables wl wr : Z.
  Let on := on_of nulleq kb kp filt.
  Let keepf := keep nulleq kb kp filt.
  Let setb := fun (bm : list bool) (pr : nat * nat) => set_bit bm (snd pr).

  Definition cand_p (B : rel) (r : row) : list nat :=
    if key_valid nulleq (kp r) then bucket hash nulleq kb B (hash (kp r)) else [].
  Definition jp (B : rel) (r : row) : list nat := filter (fun b => on (brow B b) r) (cand_p B r).

  Lemma on_valid : forall l r, on l r = true ->
    kb l = kp r /\ key_valid nulleq (kb l) = true /\ key_valid nulleq (kp r) = true.
  Proof.
    unfold on, on_of. intros l r H. apply andb_true_iff in H. destruct H as [H _].
    apply keys_eq_true in H. destruct H as [E V]. rewrite <- E. auto.
  Qed.

  Lemma in_jp : forall B r b, In b (jp B r) <-> (b < length B)%nat /\ on (brow B b) r = true.
  Proof.
    unfold jp, cand_p, bucket, build_index. intros B r b. rewrite filter_In. split.
    - intros [H1 H2]. split; auto. destruct (key_valid nulleq (kp r)); [|destruct H1].
      apply filter_In in H1. destruct H1 as [H1 _]. apply in_rev in H1. apply filter_In in H1.
      destruct H1 as [H1 _]. apply in_seq in H1. lia.
    - intros [H1 H2]. split; auto. destruct (on_valid _ _ H2) as [E [V1 V2]]. rewrite V2.
      apply filter_In. split; [|rewrite E; apply Z.eqb_refl]. apply in_rev. rewrite rev_involutive.
      apply filter_In. split; auto. apply in_seq. lia.
  Qed.

  Lemma jp_perm : forall B r, Permutation (map (brow B) (jp B r)) (filter (fun l => on l r) B).
  Proof.
    intros B r. unfold jp, cand_p. destruct (key_valid nulleq (kp r)) eqn:V.
    - unfold bucket, build_index. rewrite filter_rev, filter_filter, filter_rev, filter_filter.
      rewrite map_rev. etransitivity; [symmetry; apply Permutation_rev|].
      rewrite (filter_ext _ (fun b => on (brow B b) r)).
      + rewrite <- (map_id (filter (fun l => on l r) B)). unfold brow.
        rewrite (seq_nth_filter (@nil value) (fun i => nth i B []) (fun x => x) (fun b => on (nth b B []) r) (fun l => on l r)); auto.
      + intros b. destruct (on (brow B b) r) eqn:E; [|apply andb_false_r].
        destruct (on_valid _ _ E) as [E1 [V1 V2]]. rewrite V1, E1, Z.eqb_refl. reflexivity.
    - cbn. rewrite filter_all_false; [constructor|]. intros l _. destruct (on l r) eqn:E; auto.
      destruct (on_valid _ _ E) as [_ [_ V2]]. congruence.
  Qed.

  Lemma candidates_form : forall B pb,
    candidates hash nulleq kb kp B pb
    = flat_map (fun p => map (fun b => (p, b)) (cand_p B (nth p pb []))) (seq 0 (length pb)).
  Proof.
    intros. unfold candidates, cand_p. apply flat_map_ext. intros p. destruct (key_valid nulleq (kp (nth p pb []))); reflexivity.
  Qed.
  Lemma joined_form : forall B pb,
    filter (keepf B pb) (candidates hash nulleq kb kp B pb)
    = flat_map (fun p => map (fun b => (p, b)) (jp B (nth p pb []))) (seq 0 (length pb)).
  Proof.
    intros. rewrite candidates_form, filter_flat_map. apply flat_map_ext. intros p.
    rewrite filter_map_comm. reflexivity.
  Qed.
  Lemma in_joined : forall B pb p b,
    In (p, b) (filter (keepf B pb) (candidates hash nulleq kb kp B pb))
    <-> (p < length pb)%nat /\ (b < length B)%nat /\ on (brow B b) (nth p pb []) = true.
  Proof.
    intros. rewrite joined_form, in_flat_map. split.
    - intros [p' [H1 H2]]. apply in_map_iff in H2. destruct H2 as [b' [E H2]]. inversion E; subst.
      apply in_seq in H1. apply in_jp in H2. split; [lia|exact H2].
    - intros [H1 H2]. exists p. split; [apply in_seq; lia|]. apply in_map. apply in_jp. exact H2.
  Qed.

  Lemma pairs_part_batch : forall B pb,
    Permutation (map (fun pr : nat * nat => brow B (snd pr) ++ nth (fst pr) pb [])
                     (filter (keepf B pb) (candidates hash nulleq kb kp B pb)))
                (inner_join_r on B pb).
  Proof.
    intros. rewrite joined_form, map_flat_map. unfold inner_join_r.
    rewrite <- (seq_nth_flat_map (@nil value)
                  (fun p => map (fun l => l ++ nth p pb []) (filter (fun l => on l (nth p pb [])) B))
                  (fun r => map (fun l => l ++ r) (filter (fun l => on l r) B)) pb) by auto.
    apply perm_flat_map. intros p _. rewrite map_map. cbn [fst snd].
    rewrite <- (map_map (brow B) (fun l => l ++ nth p pb [])). apply Permutation_map. apply jp_perm.
  Qed.

  Lemma memn_fst_joined : forall B pb p, (p < length pb)%nat ->
    memn p (map fst (filter (keepf B pb) (candidates hash nulleq kb kp B pb)))
    = existsb (fun l => on l (nth p pb [])) B.
  Proof.
    intros B pb p Hp. apply eq_iff_eq_true. rewrite memn_In, existsb_exists, in_map_iff. split.
    - intros [[p' b] [E H]]. cbn in E. subst p'. apply in_joined in H. destruct H as [_ [H1 H2]].
      exists (brow B b). split; auto. apply nth_In. auto.
    - intros [l [H1 H2]]. destruct (In_nth _ _ [] H1) as [b [Hb E]]. exists (p, b). split; auto.
      apply in_joined. subst l. unfold brow. auto.
  Qed.
  Lemma memn_snd_joined : forall B pb b, (b < length B)%nat ->
    memn b (map snd (filter (keepf B pb) (candidates hash nulleq kb kp B pb)))
    = existsb (on (brow B b)) pb.
  Proof.
    intros B pb b Hb. apply eq_iff_eq_true. rewrite memn_In, existsb_exists, in_map_iff. split.
    - intros [[p b'] [E H]]. cbn in E. subst b'. apply in_joined in H. destruct H as [H0 [H1 H2]].
      exists (nth p pb []). split; auto. apply nth_In. auto.
    - intros [r [H1 H2]]. destruct (In_nth _ _ [] H1) as [p [Hp E]]. exists (p, b). split; auto.
      apply in_joined. subst r. auto.
  Qed.

  Lemma candidates_sorted_gen : forall (c : nat -> list nat) n s,
    StronglySorted ple (flat_map (fun p => map (fun b => (p, b)) (c p)) (seq s n)) /\
    forall pr, In pr (flat_map (fun p => map (fun b => (p, b)) (c p)) (seq s n)) -> (s <= fst pr < s + n)%nat.
  Proof.
    induction n as [|n IH]; intros s; cbn [seq flat_map]; [split; [constructor | intros ? []]|].
    destruct (IH (S s)) as [S1 S2]. split.
    - apply ss_app; auto.
      + induction (c s) as [|b l IHl]; cbn; constructor; auto. apply Forall_forall. intros x Hx.
        apply in_map_iff in Hx. destruct Hx as [b' [<- _]]. unfold ple. cbn. lia.
      + intros x y Hx Hy. apply in_map_iff in Hx. destruct Hx as [b' [<- _]]. apply S2 in Hy. unfold ple. cbn. lia.
    - intros pr Hpr. apply in_app_iff in Hpr. destruct Hpr as [Hpr|Hpr].
      + apply in_map_iff in Hpr. destruct Hpr as [b' [<- _]]. cbn. lia.
      + apply S2 in Hpr. lia.
  Qed.
  Lemma candidates_sorted : forall B pb,
    StronglySorted ple (candidates hash nulleq kb kp B pb) /\
    forall pr, In pr (candidates hash nulleq kb kp B pb) -> (fst pr < length pb)%nat.
  Proof.
    intros. rewrite candidates_form.
    destruct (candidates_sorted_gen (fun p => cand_p B (nth p pb [])) (length pb) 0) as [H1 H2].
    split; auto. intros pr Hpr. apply H2 in Hpr. lia.
  Qed.

  (* one page in set form *)
  Definition emit_set (B pb : rel) (prs : list (nat * nat)) (s e : nat) : rel :=
    (if pair_type t then map (fun pr : nat * nat => brow B (snd pr) ++ nth (fst pr) pb []) prs else [])
    ++ flat_map (fun q => phi t wl (nth q pb []) (memn q (map fst prs))) (seq s (e - s)).

  Lemma emit_page_set : forall B pb prs s e, StronglySorted ple prs ->
    emit_page t wl B pb prs s e = emit_set B pb prs s e.
  Proof.
    intros B pb prs s e Hs. apply ss_map_fst in Hs. unfold emit_page, emit_set.
    assert (A : anti_indices s e s (map fst prs) = filter (fun q => negb (memn q (map fst prs))) (seq s (e - s))).
    { apply anti_indices_spec; auto. }
    assert (S' : semi_indices s e None (map fst prs) = filter (fun q => memn q (map fst prs)) (seq s (e - s))).
    { apply (semi_indices_spec (map fst prs) s e None); auto. }
    destruct t; cbn [pair_type phi]; try rewrite A; try rewrite S'; try rewrite flat_map_nil_f; try rewrite app_nil_r; try reflexivity.
    - f_equal. rewrite map_filter_flat_map. apply flat_map_ext. intros q. destruct (memn q (map fst prs)); reflexivity.
    - f_equal. rewrite map_filter_flat_map. apply flat_map_ext. intros q. destruct (memn q (map fst prs)); reflexivity.
    - cbn [app]. rewrite map_filter_flat_map. reflexivity.
    - cbn [app]. rewrite map_filter_flat_map. apply flat_map_ext. intros q. destruct (memn q (map fst prs)); reflexivity.
    - cbn [app]. unfold mark_indices. rewrite map_map. cbn [fst snd]. rewrite flat_map_singleton. reflexivity.
  Qed.

  Lemma emit_set_split : forall B pb prs1 prs2 s pl n,
    last_fst prs1 = Some pl -> StronglySorted ple (prs1 ++ prs2) -> (s <= S pl)%nat -> (S pl <= n)%nat ->
    Permutation (emit_set B pb prs1 s (S pl) ++ emit_set B pb prs2 (S pl) n) (emit_set B pb (prs1 ++ prs2) s n).
  Proof.
    intros B pb prs1 prs2 s pl n Hl Hs H1 H2. unfold emit_set.
    etransitivity; [apply perm_shuffle4|]. apply Permutation_app.
    - destruct (pair_type t); [rewrite map_app|]; reflexivity.
    - rewrite (seq_split s (S pl) n) by lia. rewrite flat_map_app.
      destruct (last_fst_some _ _ Hl) as [pre [b E]].
      apply ss_app_inv in Hs. destruct Hs as [Hs1 [Hs2 Hc]].
      assert (Hlast : In (pl, b) prs1) by (rewrite E; apply in_app_iff; right; left; auto).
      assert (Hmax : forall x, In x prs1 -> (fst x <= pl)%nat).
      { rewrite E in Hs1. apply ss_app_inv in Hs1. destruct Hs1 as [_ [_ Hp]].
        intros x Hx. rewrite E in Hx. apply in_app_iff in Hx. destruct Hx as [Hx|[<-|[]]]; [|cbn; lia].
        apply (Hp x (pl, b)); [auto|left; auto]. }
      assert (Hmin : forall y, In y prs2 -> (pl <= fst y)%nat).
      { intros y Hy. apply (Hc (pl, b) y); auto. }
      apply Permutation_app; apply Permutation_refl'; apply flat_map_ext_in; intros q Hq; apply in_seq in Hq; f_equal;
        apply eq_iff_eq_true; rewrite !memn_In, map_app, in_app_iff.
      + split; [intros X; left; exact X|]. intros [X|X]; [exact X|].
        apply in_map_iff in X. destruct X as [y [E' Hy]]. apply Hmin in Hy. subst q.
        assert (E2 : fst y = pl) by lia. apply in_map_iff. exists (pl, b). split; auto.
      + split; [intros X; right; exact X|]. intros [X|X]; [|exact X].
        apply in_map_iff in X. destruct X as [y [E' Hy]]. apply Hmax in Hy. lia.
  Qed.

  Lemma match_nonnil : forall {A C} (l : list A) (a b : C), l <> [] -> match l with [] => a | _ :: _ => b end = b.
  Proof. destruct l; congruence. Qed.
  Definition start (joined : option nat) : nat := match joined with Some j => S j | None => O end.

  Lemma run_pages_spec : forall B pb pgs joined vis,
    pgs <> [] -> StronglySorted ple (concat pgs) ->
    (forall pr, In pr (concat pgs) -> (start joined <= S (fst pr))%nat /\ (fst pr < length pb)%nat) ->
    fst (run_pages t nulleq kb kp filt wl B pb pgs joined vis)
    = (if need_final t then fold_left setb (filter (keepf B pb) (concat pgs)) vis else vis) /\
    Permutation (snd (run_pages t nulleq kb kp filt wl B pb pgs joined vis))
                (emit_set B pb (filter (keepf B pb) (concat pgs)) (start joined) (length pb)).
  Proof.
    intros B pb pgs. induction pgs as [|pg rest IH]; intros joined vis Hne Hs Hb; [congruence|].
    destruct rest as [|pg2 rest'].
    - cbn [run_pages concat]. fold keepf. fold (start joined). rewrite app_nil_r. cbn [fst snd]. rewrite app_nil_r. split.
      + unfold setb. reflexivity.
      + rewrite emit_page_set; [reflexivity|]. apply ss_filter. cbn [concat] in Hs. rewrite app_nil_r in Hs. exact Hs.
    - remember (pg2 :: rest') as rest eqn:Er.
      assert (Hne' : rest <> []) by (subst; discriminate).
      cbn [run_pages]. rewrite (match_nonnil rest _ _ Hne'). fold keepf. fold (start joined).
      set (prs := filter (keepf B pb) pg) in *.
      set (vis' := if need_final t then fold_left (fun bm pr => set_bit bm (snd pr)) prs vis else vis).
      cbn [concat] in Hs, Hb. cbn [concat]. rewrite filter_app. fold prs.
      destruct (ss_app_inv _ _ _ Hs) as [Hs1 [Hs2 Hc]].
      destruct (last_fst prs) as [pl|] eqn:El.
      + destruct (last_fst_some _ _ El) as [pre [b Epre]].
        assert (Hin : In (pl, b) pg).
        { assert (X : In (pl, b) prs) by (rewrite Epre; apply in_app_iff; right; left; auto).
          apply filter_In in X. tauto. }
        destruct (Hb (pl, b)) as [Hb1 Hb2]; [apply in_app_iff; left; auto|]. cbn [fst] in Hb1, Hb2.
        destruct (IH (Some pl) vis' Hne' Hs2) as [IH1 IH2].
        { intros pr Hpr. split; [|apply Hb; apply in_app_iff; right; auto]. cbn [start].
          specialize (Hc (pl, b) pr Hin Hpr). unfold ple in Hc. cbn in Hc. lia. }
        destruct (run_pages t nulleq kb kp filt wl B pb rest (Some pl) vis') as [v2 o2]. cbn [fst snd] in *. split.
        * rewrite IH1. unfold vis', setb. destruct (need_final t); [rewrite fold_left_app|]; reflexivity.
        * rewrite emit_page_set by (apply ss_filter; auto).
          etransitivity; [apply Permutation_app_head; exact IH2|]. cbn [start].
          apply emit_set_split; [exact El | | exact Hb1 | lia].
          unfold prs. rewrite <- filter_app. apply ss_filter. exact Hs.
      + apply last_fst_none in El. destruct (IH joined vis' Hne' Hs2) as [IH1 IH2].
        { intros pr Hpr. apply Hb. apply in_app_iff. right; auto. }
        destruct (run_pages t nulleq kb kp filt wl B pb rest joined vis') as [v2 o2]. cbn [fst snd] in *.
        rewrite El in *. cbn [app]. split.
        * rewrite IH1. unfold vis'. rewrite El. destruct (need_final t); reflexivity.
        * rewrite emit_page_set by constructor. unfold emit_set at 1. cbn [map]. rewrite Nat.sub_0_l. cbn [seq flat_map].
          destruct (pair_type t); cbn [app]; exact IH2.
  Qed.

  (* what one probe batch contributes *)
  Definition batch_rows (B pb : rel) : rel :=
    (if pair_type t then inner_join_r on B pb else [])
    ++ flat_map (fun r => phi t wl r (existsb (fun l => on l r) B)) pb.

  Lemma empty_map_no_match : forall B, map_is_empty nulleq kb B = true ->
    forall i r, (i < length B)%nat -> on (brow B i) r = false.
  Proof.
    unfold map_is_empty, build_index. intros B H i r Hi. destruct (on (brow B i) r) eqn:E; auto.
    destruct (on_valid _ _ E) as [_ [V _]].
    assert (X : In i (filter (fun i => key_valid nulleq (kb (brow B i))) (seq 0 (length B)))).
    { apply filter_In. split; auto. apply in_seq. lia. }
    destruct (filter _ (seq 0 (length B))); [destruct X | discriminate].
  Qed.

  Lemma probe_batch_spec : forall B sizes pb vis, length vis = length B ->
    length (fst (probe_batch hash t nulleq kb kp filt wl B sizes pb vis)) = length B /\
    (forall i, (i < length B)%nat ->
       get_bit (fst (probe_batch hash t nulleq kb kp filt wl B sizes pb vis)) i
       = get_bit vis i || (need_final t && existsb (on (brow B i)) pb)) /\
    Permutation (snd (probe_batch hash t nulleq kb kp filt wl B sizes pb vis)) (batch_rows B pb).
  Proof.
    intros B sizes pb vis Hlen. unfold probe_batch. destruct (map_is_empty nulleq kb B) eqn:Em.
    - pose proof (empty_map_no_match B Em) as Hno. cbn [fst snd]. split; auto. split.
      + intros i Hi. replace (existsb (on (brow B i)) pb) with false; [rewrite andb_false_r, orb_false_r; reflexivity|].
        symmetry. destruct (existsb (on (brow B i)) pb) eqn:E; auto. apply existsb_exists in E.
        destruct E as [r [_ E]]. rewrite (Hno i r Hi) in E. discriminate.
      + assert (Hex : forall r, existsb (fun l => on l r) B = false).
        { intros r. destruct (existsb (fun l => on l r) B) eqn:E; auto. apply existsb_exists in E.
          destruct E as [l [H1 H2]]. destruct (In_nth _ _ [] H1) as [i [Hi E]]. subst l.
          exfalso. exact (eq_true_false_abs _ H2 (Hno i r Hi)). }
        unfold batch_rows. rewrite (flat_map_ext _ (fun r => phi t wl r false)) by (intros; rewrite Hex; reflexivity).
        assert (Hij : inner_join_r on B pb = []).
        { unfold inner_join_r. rewrite (flat_map_ext _ (fun _ => [])); [apply flat_map_nil_f|].
          intros r. rewrite filter_all_false; [reflexivity|]. intros l Hl.
          destruct (In_nth _ _ [] Hl) as [i [Hi E]]. subst l. apply (Hno i r Hi). }
        rewrite Hij. unfold empty_map_batch.
        destruct t; cbn [empty_build_empty_result pair_type phi app]; try rewrite flat_map_nil_f; try rewrite flat_map_singleton;
          try reflexivity.
        rewrite map_id. reflexivity.
    - destruct (candidates_sorted B pb) as [Cs Cb].
      destruct (run_pages_spec B pb (split_pages sizes (candidates hash nulleq kb kp B pb)) None vis) as [R1 R2].
      + apply split_pages_nonnil.
      + rewrite split_pages_concat. exact Cs.
      + rewrite split_pages_concat. intros pr Hpr. split; [cbn; lia | auto].
      + rewrite split_pages_concat in R1, R2. split; [|split].
        * rewrite R1. destruct (need_final t); auto. unfold setb. rewrite (proj1 (fold_set_bit _ _)). auto.
        * intros i Hi. rewrite R1. destruct (need_final t); [|rewrite orb_false_r; reflexivity].
          unfold setb. rewrite (proj2 (fold_set_bit _ _)) by lia. cbn [andb]. f_equal. apply memn_snd_joined. auto.
        * etransitivity; [exact R2|]. unfold emit_set, batch_rows, start. rewrite Nat.sub_0_r. apply Permutation_app.
          -- destruct (pair_type t); [apply pairs_part_batch | constructor].
          -- apply Permutation_refl'.
             etransitivity; [|apply (seq_nth_flat_map (@nil value)
                           (fun q => phi t wl (nth q pb []) (existsb (fun l => on l (nth q pb [])) B))); auto].
             apply flat_map_ext_in. intros q Hq. apply in_seq in Hq. rewrite memn_fst_joined; [reflexivity|].
             destruct Hq as [_ Hq]. cbn in Hq. exact Hq.
  Qed.

  Lemma batch_rows_app : forall B R1 R2,
    Permutation (batch_rows B R1 ++ batch_rows B R2) (batch_rows B (R1 ++ R2)).
  Proof.
    intros. unfold batch_rows, inner_join_r. etransitivity; [apply perm_shuffle4|].
    rewrite !flat_map_app. destruct (pair_type t); reflexivity.
  Qed.

  Lemma probe_all_spec : forall B pbs paging vis, length vis = length B ->
    length (fst (probe_all hash t nulleq kb kp filt wl B paging pbs vis)) = length B /\
    (forall i, (i < length B)%nat ->
       get_bit (fst (probe_all hash t nulleq kb kp filt wl B paging pbs vis)) i
       = get_bit vis i || (need_final t && existsb (on (brow B i)) (concat pbs))) /\
    Permutation (snd (probe_all hash t nulleq kb kp filt wl B paging pbs vis)) (batch_rows B (concat pbs)).
  Proof.
    intros B pbs. induction pbs as [|pb pbs IH]; intros paging vis Hlen; cbn [probe_all concat].
    - cbn [fst snd existsb]. split; auto. split.
      + intros. rewrite andb_false_r, orb_false_r. reflexivity.
      + unfold batch_rows, inner_join_r. cbn. destruct (pair_type t); constructor.
    - destruct (probe_batch_spec B (hd [] paging) pb vis Hlen) as [P1 [P2 P3]].
      destruct (probe_batch hash t nulleq kb kp filt wl B (hd [] paging) pb vis) as [v1 o1]. cbn [fst snd] in *.
      destruct (IH (tl paging) v1 P1) as [Q1 [Q2 Q3]].
      destruct (probe_all hash t nulleq kb kp filt wl B (tl paging) pbs v1) as [v2 o2]. cbn [fst snd] in *.
      split; auto. split.
      + intros i Hi. rewrite Q2, P2 by auto. rewrite existsb_app. rewrite <- orb_assoc. f_equal.
        destruct (need_final t); reflexivity.
      + etransitivity; [apply Permutation_app; eassumption|]. apply batch_rows_app.
  Qed.
End HJProofs.
Lemma get_bit_repeat_false : forall n i, get_bit (repeat false n) i = false.
Proof. unfold get_bit. induction n; intros [|i]; cbn; auto. Qed.

Lemma filter_as_flat_map : forall {A} (g : A -> bool) l, filter g l = flat_map (fun q => if g q then [q] else []) l.
Proof. induction l as [|a l IH]; [reflexivity|]. cbn. destruct (g a); cbn; rewrite IH; reflexivity. Qed.
Lemma final_map_filter : forall {C} (B : rel) (g : nat -> bool) (f : row -> bool) (G : row -> C),
  (forall i, (i < length B)%nat -> g i = f (brow B i)) ->
  map (fun i => G (brow B i)) (filter g (seq 0 (length B))) = map G (filter f B).
Proof.
  intros. apply (seq_nth_filter (@nil value) (fun i => G (brow B i)) G g f B). intros i Hi. split; [reflexivity|]. apply H. exact Hi.
Qed.
Lemma final_map_all : forall {C} (B : rel) (F : nat -> C) (G : row -> C),
  (forall i, (i < length B)%nat -> F i = G (brow B i)) -> map F (seq 0 (length B)) = map G B.
Proof. intros. apply (seq_nth_map (@nil value) F G B). exact H. Qed.

Theorem hash_join_correct : forall hash t nulleq kb kp filt wl wr B paging pbs,
  Permutation (hash_join hash t nulleq kb kp filt wl wr B paging pbs)
              (join_def t (on_of nulleq kb kp filt) wl wr B (concat pbs)).
Proof.
  intros. unfold hash_join.
  destruct (probe_all_spec hash t nulleq kb kp filt wl B pbs paging (repeat false (length B)) (repeat_length _ _))
    as [Hlen [Hbit Hout]].
  destruct (probe_all hash t nulleq kb kp filt wl B paging pbs (repeat false (length B))) as [vis out].
  cbn [fst snd] in *. set (R := concat pbs) in *. set (on := on_of nulleq kb kp filt) in *.
  assert (Hb : forall i, (i < length B)%nat -> get_bit vis i = need_final t && existsb (on (brow B i)) R).
  { intros i Hi. rewrite Hbit by auto. rewrite get_bit_repeat_false. reflexivity. }
  clear Hbit. unfold final_rows. rewrite Hlen. unfold batch_rows in Hout. fold on in Hout.
  destruct t; cbn [join_def pair_type phi need_final andb] in *;
    try rewrite flat_map_nil_f in Hout; try rewrite app_nil_r in Hout; try rewrite app_nil_r.
  - (* Inner *) etransitivity; [exact Hout|]. symmetry. apply inner_join_swap.
  - (* Left *)
    rewrite (final_map_filter B _ (fun l => negb (existsb (on l) R)) (fun l => l ++ nulls wr))
      by (intros i Hi; rewrite Hb by auto; reflexivity).
    etransitivity; [apply Permutation_app_tail; exact Hout|].
    etransitivity; [apply Permutation_app_tail; symmetry; apply inner_join_swap|].
    symmetry. apply left_join_decomp.
  - (* Right *)
    etransitivity; [exact Hout|]. symmetry. etransitivity; [apply right_join_decomp_r|].
    apply Permutation_app_head. unfold unmatched_right. rewrite map_filter_flat_map. apply Permutation_refl'.
    apply flat_map_ext. intros r. destruct (existsb (fun l => on l r) B); reflexivity.
  - (* Full *)
    rewrite (final_map_filter B _ (fun l => negb (existsb (on l) R)) (fun l => l ++ nulls wr))
      by (intros i Hi; rewrite Hb by auto; reflexivity).
    etransitivity; [apply Permutation_app_tail; exact Hout|].
    symmetry. etransitivity; [apply full_join_decomp|].
    etransitivity; [apply Permutation_app_tail; apply inner_join_swap|].
    rewrite <- app_assoc. apply Permutation_app_head. etransitivity; [apply Permutation_app_comm|].
    apply Permutation_app_tail. unfold unmatched_right. rewrite map_filter_flat_map. apply Permutation_refl'.
    apply flat_map_ext. intros r. destruct (existsb (fun l => on l r) B); reflexivity.
  - (* LeftSemi *)
    apply Permutation_sym, Permutation_nil in Hout. subst out. cbn [app]. apply Permutation_refl'. unfold semi_join.
    etransitivity; [|apply map_id].
    apply (final_map_filter B _ (fun l => existsb (on l) R) (fun l => l)). intros i Hi. rewrite Hb by auto. reflexivity.
  - (* RightSemi *)
    etransitivity; [exact Hout|]. apply Permutation_refl'. unfold semi_join, flip_on.
    symmetry. apply filter_as_flat_map.
  - (* LeftAnti *)
    apply Permutation_sym, Permutation_nil in Hout. subst out. cbn [app]. apply Permutation_refl'. unfold anti_join.
    etransitivity; [|apply map_id].
    apply (final_map_filter B _ (fun l => negb (existsb (on l) R)) (fun l => l)). intros i Hi. rewrite Hb by auto. reflexivity.
  - (* RightAnti *)
    etransitivity; [exact Hout|]. apply Permutation_refl'. unfold anti_join, flip_on.
    symmetry. etransitivity; [apply filter_as_flat_map|]. apply flat_map_ext. intros r.
    destruct (existsb (fun l => on l r) B); reflexivity.
  - (* LeftMark *)
    apply Permutation_sym, Permutation_nil in Hout. subst out. cbn [app]. apply Permutation_refl'.
    apply (final_map_all B _ (fun l => l ++ [VBool (existsb (on l) R)])). intros i Hi. rewrite Hb by auto. reflexivity.
  - (* RightMark *)
    etransitivity; [exact Hout|]. apply Permutation_refl'. apply flat_map_singleton.
Qed.

(* the result does not depend on how the probe side is cut into batches, on the paging, or on the hash function *)
Corollary probe_batching_irrelevant : forall hash hash' t nulleq kb kp filt wl wr B paging paging' pbs pbs',
  concat pbs = concat pbs' ->
  Permutation (hash_join hash t nulleq kb kp filt wl wr B paging pbs)
              (hash_join hash' t nulleq kb kp filt wl wr B paging' pbs').
Proof.
  intros. etransitivity; [apply hash_join_correct|]. rewrite H. symmetry. apply hash_join_correct.
Qed.

(* NullEqualsNothing: a NULL key matches nothing -- in the definition, and in the algorithm such rows never even
   become candidates (NULL build keys are not indexed, NULL probe keys are not looked up) *)
Theorem null_keys_never_match : forall hash kb kp filt B pb,
  (forall l r, no_null (kb l) = false \/ no_null (kp r) = false -> on_of false kb kp filt l r = false) /\
  (forall p b, In (p, b) (candidates hash false kb kp B pb) ->
     no_null (kp (nth p pb [])) = true /\ no_null (kb (brow B b)) = true).
Proof.
  intros. split.
  - intros l r H. destruct (on_of false kb kp filt l r) eqn:E; auto.
    destruct (on_valid false kb kp filt l r E) as [_ [V1 V2]]. unfold key_valid in *. cbn in *. destruct H; congruence.
  - intros p b H. unfold candidates in H. apply in_flat_map in H. destruct H as [p' [_ H]].
    unfold key_valid in H. cbn [orb] in H. destruct (no_null (kp (nth p' pb []))) eqn:V; [|destruct H].
    apply in_map_iff in H. destruct H as [b' [E H]]. inversion E; subst. split; auto.
    unfold bucket, build_index in H. apply filter_In in H. destruct H as [H _]. apply in_rev in H.
    apply filter_In in H. destruct H as [_ H]. exact H.
Qed.
(* ------------------------------------------------------------------ (b) the sort-merge join *)
Lemma perm_of_eq : forall {A} (l l' : list A), l = l' -> Permutation l l'.
Proof. intros; subst; reflexivity. Qed.
Lemma existsb_ext_in : forall {A} (f g : A -> bool) l, (forall x, In x l -> f x = g x) -> existsb f l = existsb g l.
Proof.
  induction l as [|a l IH]; intros H; [reflexivity|]. cbn. rewrite (H a (or_introl eq_refl)), IH; auto.
  intros; apply H; right; auto.
Qed.
Lemma existsb_all_false : forall {A} (f : A -> bool) l, (forall x, In x l -> f x = false) -> existsb f l = false.
Proof.
  induction l as [|a l IH]; intros H; [reflexivity|]. cbn. rewrite (H a (or_introl eq_refl)), IH; auto.
  intros; apply H; right; auto.
Qed.
Lemma filter_app_l : forall {A} (f : A -> bool) a b, (forall x, In x b -> f x = false) -> filter f (a ++ b) = filter f a.
Proof. intros. rewrite filter_app, (filter_all_false f b) by auto. apply app_nil_r. Qed.
Lemma filter_app_r : forall {A} (f : A -> bool) a b, (forall x, In x a -> f x = false) -> filter f (a ++ b) = filter f b.
Proof. intros. rewrite filter_app, (filter_all_false f a) by auto. reflexivity. Qed.
Lemma existsb_app_l : forall {A} (f : A -> bool) a b, (forall x, In x b -> f x = false) -> existsb f (a ++ b) = existsb f a.
Proof. intros. rewrite existsb_app, (existsb_all_false f b) by auto. apply orb_false_r. Qed.
Lemma existsb_app_r : forall {A} (f : A -> bool) a b, (forall x, In x a -> f x = false) -> existsb f (a ++ b) = existsb f b.
Proof. intros. rewrite existsb_app, (existsb_all_false f a) by auto. reflexivity. Qed.

(* the definition only looks at the join condition on pairs of rows of the two inputs *)
Lemma join_def_ext_in : forall t on on' wl wr L R,
  (forall l r, In l L -> In r R -> on l r = on' l r) ->
  join_def t on wl wr L R = join_def t on' wl wr L R.
Proof.
  intros t on on' wl wr L R H.
  assert (F1 : forall l, In l L -> filter (on l) R = filter (on' l) R) by (intros; apply filter_ext_in; auto).
  assert (F2 : forall r, In r R -> filter (fun l => on l r) L = filter (fun l => on' l r) L) by (intros; apply filter_ext_in; auto).
  assert (E1 : forall l, In l L -> existsb (on l) R = existsb (on' l) R) by (intros; apply existsb_ext_in; auto).
  assert (E2 : forall r, In r R -> existsb (fun l => on l r) L = existsb (fun l => on' l r) L) by (intros; apply existsb_ext_in; auto).
  destruct t; cbn [join_def]; unfold inner_join, left_join, right_join, full_join, left_join, unmatched_right, semi_join, anti_join, flip_on.
  - apply flat_map_ext_in. intros l Hl. rewrite F1; auto.
  - apply flat_map_ext_in. intros l Hl. rewrite F1; auto.
  - apply flat_map_ext_in. intros r Hr. rewrite F2; auto.
  - f_equal; [apply flat_map_ext_in; intros l Hl; rewrite F1; auto|]. f_equal. apply filter_ext_in. intros r Hr. rewrite E2; auto.
  - apply filter_ext_in. intros l Hl. apply E1; auto.
  - apply filter_ext_in. intros r Hr. apply E2; auto.
  - apply filter_ext_in. intros l Hl. rewrite E1; auto.
  - apply filter_ext_in. intros r Hr. rewrite E2; auto.
  - apply map_ext_in. intros l Hl. rewrite E1; auto.
  - apply map_ext_in. intros r Hr. rewrite E2; auto.
Qed.

(* block decomposition: if no row of L1 matches a row of R2 and no row of L2 matches a row of R1 *)
Lemma join_def_blocks : forall t on wl wr L1 L2 R1 R2,
  (forall l r, In l L1 -> In r R2 -> on l r = false) ->
  (forall l r, In l L2 -> In r R1 -> on l r = false) ->
  Permutation (join_def t on wl wr (L1 ++ L2) (R1 ++ R2))
              (join_def t on wl wr L1 R1 ++ join_def t on wl wr L2 R2).
Proof.
  intros t on wl wr L1 L2 R1 R2 H12 H21.
  assert (FL1 : forall l, In l L1 -> filter (on l) (R1 ++ R2) = filter (on l) R1) by (intros; apply filter_app_l; auto).
  assert (FL2 : forall l, In l L2 -> filter (on l) (R1 ++ R2) = filter (on l) R2) by (intros; apply filter_app_r; auto).
  assert (FR1 : forall r, In r R1 -> filter (fun l => on l r) (L1 ++ L2) = filter (fun l => on l r) L1)
    by (intros; apply filter_app_l; auto).
  assert (FR2 : forall r, In r R2 -> filter (fun l => on l r) (L1 ++ L2) = filter (fun l => on l r) L2)
    by (intros; apply filter_app_r; auto).
  assert (EL1 : forall l, In l L1 -> existsb (on l) (R1 ++ R2) = existsb (on l) R1) by (intros; apply existsb_app_l; auto).
  assert (EL2 : forall l, In l L2 -> existsb (on l) (R1 ++ R2) = existsb (on l) R2) by (intros; apply existsb_app_r; auto).
  assert (ER1 : forall r, In r R1 -> existsb (fun l => on l r) (L1 ++ L2) = existsb (fun l => on l r) L1)
    by (intros; apply existsb_app_l; auto).
  assert (ER2 : forall r, In r R2 -> existsb (fun l => on l r) (L1 ++ L2) = existsb (fun l => on l r) L2)
    by (intros; apply existsb_app_r; auto).
  assert (LJ : forall wr', left_join on wr' (L1 ++ L2) (R1 ++ R2) = left_join on wr' L1 R1 ++ left_join on wr' L2 R2).
  { intros. unfold left_join. etransitivity; [apply flat_map_app|]. f_equal; apply flat_map_ext_in; intros l Hl; [rewrite FL1|rewrite FL2]; auto. }
  assert (UR : unmatched_right on (L1 ++ L2) (R1 ++ R2) = unmatched_right on L1 R1 ++ unmatched_right on L2 R2).
  { unfold unmatched_right. etransitivity; [apply filter_app|]. f_equal; apply filter_ext_in; intros r Hr; [rewrite ER1|rewrite ER2]; auto. }
  destruct t; unfold join_def, flip_on.
  - apply perm_of_eq. unfold inner_join. etransitivity; [apply flat_map_app|].
    f_equal; apply flat_map_ext_in; intros l Hl; [rewrite FL1|rewrite FL2]; auto.
  - apply perm_of_eq. apply LJ.
  - apply perm_of_eq. unfold right_join. etransitivity; [apply flat_map_app|].
    f_equal; apply flat_map_ext_in; intros r Hr; [rewrite FR1|rewrite FR2]; auto.
  - unfold full_join. rewrite LJ, UR, map_app. apply perm_shuffle4.
  - apply perm_of_eq. unfold semi_join. etransitivity; [apply filter_app|].
    f_equal; apply filter_ext_in; intros l Hl; [rewrite EL1|rewrite EL2]; auto.
  - apply perm_of_eq. unfold semi_join. etransitivity; [apply filter_app|].
    f_equal; apply filter_ext_in; intros r Hr; [rewrite ER1|rewrite ER2]; auto.
  - apply perm_of_eq. unfold anti_join. etransitivity; [apply filter_app|].
    f_equal; apply filter_ext_in; intros l Hl; [rewrite EL1|rewrite EL2]; auto.
  - apply perm_of_eq. unfold anti_join. etransitivity; [apply filter_app|].
    f_equal; apply filter_ext_in; intros r Hr; [rewrite ER1|rewrite ER2]; auto.
  - apply perm_of_eq. etransitivity; [apply map_app|]. f_equal; apply map_ext_in; intros l Hl; [rewrite EL1|rewrite EL2]; auto.
  - apply perm_of_eq. etransitivity; [apply map_app|]. f_equal; apply map_ext_in; intros r Hr; [rewrite ER1|rewrite ER2]; auto.
Qed.

(* ---- the comparators *)
Lemma ocmp_antisym : forall o a b, ocmp o b a = CompOpp (ocmp o a b).
Proof.
  intros [d nf] [x|] [y|]; cbn; try (destruct nf; reflexivity).
  destruct d; apply Z.compare_antisym.
Qed.
Lemma ocmp_eq : forall o a b, ocmp o a b = Eq -> a = b.
Proof.
  intros [d nf] [x|] [y|]; cbn; intros H; auto; try (destruct nf; discriminate).
  destruct d; apply Z.compare_eq in H; congruence.
Qed.
Lemma ocmp_refl : forall o a, ocmp o a a = Eq.
Proof. intros [d nf] [x|]; cbn; auto. destruct d; apply Z.compare_refl. Qed.
Lemma scmp_antisym : forall a so b, scmp so b a = CompOpp (scmp so a b).
Proof.
  induction a as [|x a IH]; intros so [|y b]; cbn; auto.
  rewrite (ocmp_antisym _ x y). destruct (ocmp (hd (false, false) so) x y); cbn; auto.
Qed.
Lemma scmp_eq : forall a so b, scmp so a b = Eq -> a = b.
Proof.
  induction a as [|x a IH]; intros so [|y b]; cbn; intros H; auto; try discriminate.
  destruct (ocmp (hd (false, false) so) x y) eqn:E; try discriminate.
  apply ocmp_eq in E. apply IH in H. congruence.
Qed.
Lemma scmp_refl : forall a so, scmp so a a = Eq.
Proof. induction a as [|x a IH]; intros so; cbn; auto. rewrite ocmp_refl. apply IH. Qed.

Lemma kcmp_eq_iff : forall ne a so b, kcmp ne so a b = Eq <-> keys_eq ne a b = true.
Proof.
  induction a as [|x a IH]; intros so [|y b]; cbn; try (split; [discriminate|discriminate]); [tauto|].
  destruct x as [x|], y as [y|]; cbn [oeq andb].
  - destruct (ocmp (hd (false, false) so) (Some x) (Some y)) eqn:E.
    + apply ocmp_eq in E. inversion E; subst. rewrite Z.eqb_refl. cbn. apply IH.
    + assert (x <> y) by (intros ->; rewrite ocmp_refl in E; discriminate).
      apply Z.eqb_neq in H. rewrite H. cbn. split; discriminate.
    + assert (x <> y) by (intros ->; rewrite ocmp_refl in E; discriminate).
      apply Z.eqb_neq in H. rewrite H. cbn. split; discriminate.
  - cbn. destruct (snd (hd (false, false) so)); split; discriminate.
  - cbn. destruct (snd (hd (false, false) so)); split; discriminate.
  - destruct ne; cbn; [apply IH | split; discriminate].
Qed.
Lemma key_valid_tl : forall ne x a, key_valid ne (x :: a) = true -> key_valid ne a = true.
Proof.
  unfold key_valid. intros ne x a H. destruct ne; auto. cbn in *. apply andb_true_iff in H. tauto.
Qed.
Lemma kcmp_scmp : forall ne a so b,
  key_valid ne a = true \/ key_valid ne b = true -> kcmp ne so a b = scmp so a b.
Proof.
  induction a as [|x a IH]; intros so [|y b] H; cbn; auto.
  assert (H' : key_valid ne a = true \/ key_valid ne b = true) by (destruct H as [H|H]; apply key_valid_tl in H; auto).
  destruct x as [x|], y as [y|]; try (rewrite IH by auto; reflexivity).
  destruct ne.
  - cbn. apply IH. auto.
  - unfold key_valid in H. cbn in H. destruct H; discriminate.
Qed.

(* Less: the left head row matches nothing at or after the right head row *)
Lemma lt_no_match : forall ne so a b b',
  kcmp ne so a b = Lt -> scmp so b b' <> Gt -> keys_eq ne a b' = false.
Proof.
  intros ne so a b b' H1 H2. destruct (keys_eq ne a b') eqn:E; auto. apply keys_eq_true in E. destruct E as [<- V].
  rewrite kcmp_scmp in H1 by auto. rewrite (scmp_antisym a so b), H1 in H2. cbn in H2. congruence.
Qed.
Lemma gt_no_match : forall ne so a a' b,
  kcmp ne so a b = Gt -> scmp so a a' <> Gt -> keys_eq ne a' b = false.
Proof.
  intros ne so a a' b H1 H2. destruct (keys_eq ne a' b) eqn:E; auto. apply keys_eq_true in E. destruct E as [-> V].
  rewrite kcmp_scmp in H1 by auto. congruence.
Qed.

(* ---- runs *)
Lemma take_drop_while : forall {A} (f : A -> bool) l, take_while f l ++ drop_while f l = l.
Proof. induction l as [|a l IH]; [reflexivity|]. cbn. destruct (f a); cbn; [rewrite IH|]; reflexivity. Qed.
Lemma take_while_all : forall {A} (f : A -> bool) l x, In x (take_while f l) -> f x = true.
Proof.
  induction l as [|a l IH]; intros x H; [destruct H|]. cbn in H. destruct (f a) eqn:E; [|destruct H].
  destruct H as [<-|H]; auto.
Qed.
Lemma drop_while_length : forall {A} (f : A -> bool) l, (length (drop_while f l) <= length l)%nat.
Proof. induction l as [|a l IH]; cbn; [lia|]. destruct (f a); cbn; lia. Qed.
Lemma drop_while_sorted : forall {A} (R : A -> A -> Prop) f l, StronglySorted R l -> StronglySorted R (drop_while f l).
Proof.
  induction l as [|a l IH]; intros H; [constructor|]. cbn. destruct (f a); auto. inversion H; auto.
Qed.
Lemma drop_no_key : forall so (k : row -> okey) (f : row -> bool) K l L,
  key_sorted so k (l :: L) -> k l = K -> (forall x, f x = true <-> k x = K) ->
  forall y, In y (drop_while f (l :: L)) -> k y <> K.
Proof.
  intros so k f K l L Hs Hl Hf. cbn [drop_while]. rewrite (proj2 (Hf l) Hl).
  unfold key_sorted in Hs. inversion Hs as [|? ? HsL Hall]; subst. clear Hs. rewrite Forall_forall in Hall.
  induction L as [|x L IH]; intros y Hy; [destruct Hy|].
  inversion HsL as [|? ? HsL' Hx]; subst. rewrite Forall_forall in Hx. cbn [drop_while] in Hy.
  destruct (f x) eqn:Ex.
  - apply IH; auto. intros z Hz. apply Hall. right; auto.
  - destruct Hy as [<-|Hy].
    + intros E. apply Hf in E. congruence.
    + intros E. specialize (Hall x (or_introl eq_refl)). specialize (Hx y Hy). rewrite E in Hx.
      rewrite (scmp_antisym (k l) so (k x)) in Hx.
      destruct (scmp so (k l) (k x)) eqn:C; cbn in Hx; try congruence.
      apply scmp_eq in C. assert (f x = true) by (apply Hf; congruence). congruence.
Qed.

Section SMJProofs.
  Variable t : jtype.
  Variable nulleq : bool.
  Variable so : list (bool * bool).
  Variables kl kr : row -> okey.
  Variable filt : row -> row -> bool.
  Variables wl wr : Z.
  Let on := on_of nulleq kl kr filt.

  Lemma smj_fuel_correct : forall fuel L R,
    (length L + length R < fuel)%nat -> key_sorted so kl L -> key_sorted so kr R ->
    Permutation (smj t nulleq so kl kr filt wl wr fuel L R) (join_def t on wl wr L R).
  Proof.
    induction fuel as [|f IH]; intros L R Hf HL HR; [lia|]. cbn [smj].
    destruct L as [|l L'].
    { apply perm_of_eq. apply join_def_ext_in. intros ? ? []. }
    destruct R as [|r R'].
    { apply perm_of_eq. apply join_def_ext_in. intros ? ? _ []. }
    pose proof HL as HL0. pose proof HR as HR0. unfold key_sorted in HL, HR.
    inversion HL as [|? ? HL' HLall]; subst. inversion HR as [|? ? HR' HRall]; subst.
    rewrite Forall_forall in HLall, HRall. cbn [length] in Hf.
    destruct (kcmp nulleq so (kl l) (kr r)) eqn:C.
    - (* Equal: the two runs *)
      set (inl := fun x => is_eq (kcmp nulleq so (kl x) (kr r))).
      set (inr := fun y => is_eq (kcmp nulleq so (kl l) (kr y))).
      pose proof (proj1 (kcmp_eq_iff _ _ _ _) C) as KE. apply keys_eq_true in KE. destruct KE as [EK VK].
      set (K := kl l) in *.
      assert (Hinl : forall x, inl x = true <-> kl x = K).
      { intros x. unfold inl. rewrite <- EK. split.
        - intros H. destruct (kcmp nulleq so (kl x) K) eqn:E; try discriminate.
          apply kcmp_eq_iff, keys_eq_true in E. tauto.
        - intros ->. rewrite (proj2 (kcmp_eq_iff _ _ _ _) (keys_eq_refl _ _ VK)). reflexivity. }
      assert (Hinr : forall y, inr y = true <-> kr y = K).
      { intros y. unfold inr. fold K. split.
        - intros H. destruct (kcmp nulleq so K (kr y)) eqn:E; try discriminate.
          apply kcmp_eq_iff, keys_eq_true in E. destruct E; auto.
        - intros ->. rewrite (proj2 (kcmp_eq_iff _ _ _ _) (keys_eq_refl _ _ VK)). reflexivity. }
      assert (Il : inl l = true) by (apply Hinl; reflexivity).
      assert (Ir : inr r = true) by (apply Hinr; auto).
      etransitivity.
      + apply Permutation_app_head. apply IH.
        * pose proof (drop_while_length inl (l :: L')) as X1. pose proof (drop_while_length inr (r :: R')) as X2.
          cbn [drop_while] in X1, X2 |- *. rewrite Il in X1 |- *. rewrite Ir in X2 |- *.
          pose proof (drop_while_length inl L'). pose proof (drop_while_length inr R'). lia.
        * apply drop_while_sorted. exact HL0.
        * apply drop_while_sorted. exact HR0.
      + rewrite <- (take_drop_while inl (l :: L')) at 3. rewrite <- (take_drop_while inr (r :: R')) at 3.
        symmetry. etransitivity; [apply join_def_blocks|].
        * intros x y Hx Hy. apply take_while_all in Hx. apply Hinl in Hx.
          apply (drop_no_key so kr inr K r R' HR0 (eq_sym EK) Hinr) in Hy.
          unfold on, on_of. destruct (keys_eq nulleq (kl x) (kr y)) eqn:E; auto. apply keys_eq_true in E. destruct E. congruence.
        * intros x y Hx Hy. apply take_while_all in Hy. apply Hinr in Hy.
          apply (drop_no_key so kl inl K l L' HL0 eq_refl Hinl) in Hx.
          unfold on, on_of. destruct (keys_eq nulleq (kl x) (kr y)) eqn:E; auto. apply keys_eq_true in E. destruct E. congruence.
        * apply Permutation_app_tail. apply perm_of_eq. apply join_def_ext_in.
          intros x y Hx Hy. apply take_while_all in Hx. apply Hinl in Hx. apply take_while_all in Hy. apply Hinr in Hy.
          unfold on, on_of. rewrite Hx, Hy, (keys_eq_refl _ _ VK). reflexivity.
    - (* Less: l is unmatched *)
      etransitivity; [apply Permutation_app_head; apply IH; [cbn [length]; lia | exact HL' | exact HR0]|].
      symmetry. change (l :: L') with ([l] ++ L'). change (r :: R') with ([] ++ (r :: R')).
      etransitivity; [apply join_def_blocks|].
      + intros x y [<-|[]] Hy. unfold on, on_of. rewrite (lt_no_match nulleq so (kl l) (kr r) (kr y) C); auto.
        destruct Hy as [<-|Hy]; [rewrite scmp_refl; discriminate | apply HRall; auto].
      + intros ? ? _ [].
      + apply Permutation_app_tail. apply perm_of_eq. apply join_def_ext_in. intros ? ? _ [].
    - (* Greater: r is unmatched *)
      etransitivity; [apply Permutation_app_head; apply IH; [cbn [length]; lia | exact HL0 | exact HR']|].
      symmetry. change (r :: R') with ([r] ++ R'). change (l :: L') with ([] ++ (l :: L')).
      etransitivity; [apply join_def_blocks|].
      + intros ? ? [].
      + intros x y Hx [<-|[]]. unfold on, on_of. rewrite (gt_no_match nulleq so (kl l) (kl x) (kr r) C); auto.
        destruct Hx as [<-|Hx]; [rewrite scmp_refl; discriminate | apply HLall; auto].
      + apply Permutation_app_tail. apply perm_of_eq. apply join_def_ext_in. intros ? ? [].
  Qed.
End SMJProofs.

Theorem smj_correct : forall t nulleq so kl kr filt wl wr L R,
  key_sorted so kl L -> key_sorted so kr R ->
  Permutation (smj_run t nulleq so kl kr filt wl wr L R) (join_def t (on_of nulleq kl kr filt) wl wr L R).
Proof. intros. unfold smj_run. apply smj_fuel_correct; auto. Qed.

Lemma key_sortedb_iff : forall so k X, key_sortedb so k X = true <-> key_sorted so k X.
Proof.
  unfold key_sorted. induction X as [|a X IH]; cbn [key_sortedb]; [split; [intros; constructor | reflexivity]|].
  rewrite andb_true_iff, forallb_forall, IH. split.
  - intros [H1 H2]. constructor; auto. apply Forall_forall. intros b Hb. specialize (H1 b Hb).
    destruct (scmp so (k a) (k b)); try discriminate; cbn in H1; congruence.
  - intros H. inversion H; subst. rewrite Forall_forall in H3. split; auto. intros b Hb. specialize (H3 b Hb).
    destruct (scmp so (k a) (k b)); auto; congruence.
Qed.
Definition is_some {A} (x : option A) : bool := match x with Some _ => true | None => false end.

(* C01's law, specialised to nullable Int64 keys: x NOT IN vs is TRUE iff vs is empty, or x is not NULL, vs holds
   no NULL and no element equal to x *)
Lemma not_in_TT_keys : forall (x : option Z) (ks : list (option Z)),
  is_TT (not_in3 (inj x) (map inj ks)) =
  match ks with
  | [] => true
  | _ => is_some x && forallb is_some ks && negb (existsb (fun k => oeq false x k) ks)
  end.
Proof.
  intros x ks. apply eq_iff_eq_true.
  assert (T : is_TT (not_in3 (inj x) (map inj ks)) = true <-> not_in3 (inj x) (map inj ks) = TT).
  { destruct (not_in3 (inj x) (map inj ks)); cbn; split; congruence. }
  rewrite T, not_in_null_aware. destruct ks as [|k0 ks']; [split; auto|]. set (ks := k0 :: ks').
  rewrite !andb_true_iff, forallb_forall, negb_true_iff. split.
  - intros [H|[H1 [H2 H3]]]; [discriminate|]. split; [split|].
    + destruct x; auto; exfalso; apply H1; reflexivity.
    + intros k Hk. destruct k; auto; exfalso; apply H2; apply in_map_iff; exists None; auto.
    + apply existsb_all_false. intros k Hk. destruct x as [a|], k as [b|]; cbn; auto.
      destruct (a =? b) eqn:E; auto. apply Z.eqb_eq in E. subst. exfalso.
      apply (H3 (VInt b)); [apply in_map_iff; exists (Some b); auto|]. cbn. rewrite Z.compare_refl. reflexivity.
  - intros [[H1 H2] H3]. right. split; [|split].
    + destruct x; [discriminate | discriminate H1].
    + intros H. apply in_map_iff in H. destruct H as [k [E Hk]]. apply H2 in Hk. destruct k; discriminate.
    + intros v Hv. apply in_map_iff in Hv. destruct Hv as [k [<- Hk]]. pose proof (H2 k Hk) as Sk.
      destruct x as [a|]; [|discriminate]. destruct k as [b|]; [|discriminate]. cbn. intros C. inversion C as [C'].
      apply Z.compare_eq in C'. subst.
      assert (X : existsb (fun k => oeq false (Some b) k) ks = true).
      { apply existsb_exists. exists (Some b). split; auto. cbn. apply Z.eqb_refl. }
      congruence.
Qed.

Lemma forallb_some_map : forall {A} (k : A -> option Z) R,
  forallb is_some (map k R) = negb (existsb (fun r => match k r with None => true | _ => false end) R).
Proof. induction R as [|r R IH]; [reflexivity|]. cbn. rewrite IH. destruct (k r); reflexivity. Qed.
Lemma existsb_map_comp : forall {A B} (f : B -> bool) (g : A -> B) l, existsb f (map g l) = existsb (fun x => f (g x)) l.
Proof. induction l as [|a l IH]; [reflexivity|]. cbn. rewrite IH. reflexivity. Qed.

Section NAProofs.
  Variable hash : okey -> Z.
  Variables kb1 kp1 : row -> option Z.
  Variables wl : Z.
  Let kb := fun r : row => [kb1 r].
  Let kp := fun r : row => [kp1 r].
  Let tt2 := fun _ _ : row => true.
  Let on := on_of false kb kp tt2.

  Lemma on_oeq : forall l r, on l r = oeq false (kb1 l) (kp1 r).
  Proof. intros. unfold on, on_of, kb, kp, tt2. cbn. rewrite !andb_true_r. reflexivity. Qed.

  Lemma na_left_probe_spec : forall B pbs paging hn ne vis, length vis = length B ->
    let res := na_left_probe hash kb1 kp1 tt2 wl B paging pbs hn ne vis in
    fst (fst res) = hn || has_null_key kp1 (concat pbs) /\
    snd (fst res) = ne || negb (Nat.eqb (length (concat pbs)) 0) /\
    (fst (fst res) = false ->
       length (snd res) = length B /\
       forall i, (i < length B)%nat -> get_bit (snd res) i = get_bit vis i || existsb (on (brow B i)) (concat pbs)).
  Proof.
    intros B pbs. induction pbs as [|pb pbs IH]; intros paging hn ne vis Hlen; cbn [na_left_probe concat].
    - cbn. rewrite !orb_false_r. split; auto. split; auto. intros _. split; auto. intros. rewrite orb_false_r. reflexivity.
    - assert (HN : has_null_key kp1 (pb ++ concat pbs) = has_null_key kp1 pb || has_null_key kp1 (concat pbs))
        by (unfold has_null_key; apply existsb_app).
      assert (NE : negb (Nat.eqb (length (pb ++ concat pbs)) 0)
                   = negb (Nat.eqb (length pb) 0) || negb (Nat.eqb (length (concat pbs)) 0))
        by (destruct pb; cbn; auto).
      destruct (hn || has_null_key kp1 pb) eqn:Ehn.
      + specialize (IH (tl paging) true (ne || negb (Nat.eqb (length pb) 0)) vis Hlen). cbv zeta in IH.
        destruct IH as [I1 [I2 I3]]. cbv zeta. rewrite I1, I2, HN, NE. cbn [orb].
        split; [rewrite orb_assoc, Ehn; reflexivity|]. split; [rewrite orb_assoc; reflexivity|]. intros C. discriminate.
      + apply orb_false_iff in Ehn. destruct Ehn as [-> Epb]. fold kb kp.
        destruct (probe_batch_spec hash TLeftAnti false kb kp tt2 wl B (hd [] paging) pb vis Hlen) as [P1 [P2 _]].
        destruct (probe_batch hash TLeftAnti false kb kp tt2 wl B (hd [] paging) pb vis) as [v1 o1]. cbn [fst snd] in *.
        specialize (IH (tl paging) false (ne || negb (Nat.eqb (length pb) 0)) v1 P1). cbv zeta in IH.
        destruct IH as [I1 [I2 I3]]. cbv beta iota zeta. rewrite I1, I2, HN, NE, Epb. cbn [orb].
        split; auto. split; [rewrite orb_assoc; reflexivity|]. intros C. destruct I3 as [J1 J2]; [rewrite I1; exact C|].
        split; auto. intros i Hi. rewrite J2, P2 by auto. cbn [need_final andb].
        rewrite existsb_app, orb_assoc. reflexivity.
  Qed.

  Theorem na_left_anti_correct : forall B paging pbs,
    na_left_anti hash kb1 kp1 tt2 wl B paging pbs = not_in_def kb1 kp1 B (concat pbs).
  Proof.
    intros. unfold na_left_anti, not_in_def.
    pose proof (na_left_probe_spec B pbs paging false false (repeat false (length B)) (repeat_length _ _)) as S.
    cbv zeta in S. destruct S as [S1 [S2 S3]].
    destruct (na_left_probe hash kb1 kp1 tt2 wl B paging pbs false false (repeat false (length B))) as [[hn ne] vis].
    cbn [fst snd orb] in *. set (R := concat pbs) in *.
    assert (Def : forall x, is_TT (not_in3 (inj (kb1 x)) (map (fun y => inj (kp1 y)) R))
                  = match R with [] => true
                    | _ => is_some (kb1 x) && negb (has_null_key kp1 R) && negb (existsb (on x) R) end).
    { intros x. rewrite <- (map_map kp1 inj), not_in_TT_keys. destruct R as [|r0 R']; [reflexivity|].
      set (R0 := r0 :: R'). change (map kp1 R0) with (kp1 r0 :: map kp1 R') at 1. cbv iota.
      rewrite forallb_some_map, existsb_map_comp. f_equal. f_equal. apply existsb_ext_in. intros r _. rewrite on_oeq. reflexivity. }
    rewrite (filter_ext _ _ Def). subst hn ne. destruct (has_null_key kp1 R) eqn:HN.
    - symmetry. apply filter_all_false. intros x _. destruct R; [discriminate HN|]. rewrite andb_false_r. reflexivity.
    - destruct (S3 eq_refl) as [L1 L2]. rewrite L1.
      assert (Hb : forall i, (i < length B)%nat -> get_bit vis i = existsb (on (brow B i)) R).
      { intros i Hi. rewrite L2 by auto. rewrite get_bit_repeat_false. reflexivity. }
      destruct R as [|r0 R'] eqn:ER.
      + cbn [length Nat.eqb negb]. rewrite (filter_all_true (fun _ => true) B) by auto.
        rewrite filter_all_true; [etransitivity; [|apply map_id]; apply (final_map_all B (brow B) (fun l => l)); auto|].
        intros i Hi. apply in_seq in Hi. rewrite Hb by lia. reflexivity.
      + cbn [length Nat.eqb negb]. rewrite filter_filter.
        etransitivity; [|apply map_id].
        apply (final_map_filter B _ (fun x => is_some (kb1 x) && true && negb (existsb (on x) (r0 :: R'))) (fun l => l)).
        intros i Hi. rewrite Hb by auto. rewrite andb_true_r. destruct (kb1 (brow B i)); cbn; [rewrite andb_true_r|rewrite andb_false_r]; reflexivity.
  Qed.
End NAProofs.

Lemma perm_filter : forall {A} (f : A -> bool) l l', Permutation l l' -> Permutation (filter f l) (filter f l').
Proof.
  intros A f l l' H. induction H; cbn; auto.
  - destruct (f x); auto.
  - destruct (f y), (f x); auto. constructor.
  - etransitivity; eauto.
Qed.
Lemma oeq_sym : forall ne a b, oeq ne a b = oeq ne b a.
Proof. intros ne [a|] [b|]; cbn; auto. apply Z.eqb_sym. Qed.

Lemma filter_flat_map_anti : forall {A} (e nn : A -> bool) l,
  filter nn (flat_map (fun r => if e r then [] else [r]) l) = filter (fun r => nn r && negb (e r)) l.
Proof.
  induction l as [|a l IH]; [reflexivity|]. cbn [flat_map filter]. rewrite filter_app, IH.
  destruct (e a); cbn [filter app negb]; [rewrite andb_false_r; reflexivity|].
  rewrite andb_true_r. destruct (nn a); reflexivity.
Qed.

Section NAProofs2.
  Variable hash : okey -> Z.
  Variables kb1 kp1 : row -> option Z.
  Variables wl : Z.
  Let kb := fun r : row => [kb1 r].
  Let kp := fun r : row => [kp1 r].
  Let tt2 := fun _ _ : row => true.
  Let on := on_of false kb kp tt2.

  Theorem na_right_anti_correct : forall B paging pbs,
    Permutation (na_right_probe hash kb1 kp1 wl B paging pbs) (not_in_def kp1 kb1 (concat pbs) B).
  Proof.
    intros B paging pbs. revert paging. unfold not_in_def.
    assert (Def : forall r, is_TT (not_in3 (inj (kp1 r)) (map (fun y => inj (kb1 y)) B))
                  = match B with [] => true
                    | _ => is_some (kp1 r) && negb (has_null_key kb1 B) && negb (existsb (fun l => on l r) B) end).
    { intros r. rewrite <- (map_map kb1 inj), not_in_TT_keys. destruct B as [|l0 B']; [reflexivity|].
      set (B0 := l0 :: B'). change (map kb1 B0) with (kb1 l0 :: map kb1 B') at 1. cbv iota.
      rewrite forallb_some_map, existsb_map_comp. f_equal. f_equal. apply existsb_ext_in. intros l _.
      rewrite (on_oeq kb1 kp1). apply oeq_sym. }
    induction pbs as [|pb pbs IH]; intros paging; cbn [na_right_probe concat]; [constructor|].
    rewrite filter_app. apply Permutation_app; [|apply IH]. rewrite (filter_ext _ _ Def).
    destruct (has_null_key kb1 B) eqn:HN.
    - rewrite filter_all_false; [constructor|]. intros r _. destruct B; [discriminate HN|]. rewrite andb_false_r. reflexivity.
    - fold kb. destruct (map_is_empty false kb B) eqn:Em.
      + assert (B = []).
        { destruct B as [|l0 B']; auto. exfalso. unfold map_is_empty, build_index in Em.
          assert (X : In 0%nat (filter (fun i => key_valid false (kb (brow (l0 :: B') i))) (seq 0 (length (l0 :: B'))))).
          { apply filter_In. split; [cbn; auto|]. unfold key_valid, kb, brow. cbn.
            unfold has_null_key in HN. cbn in HN. destruct (kb1 l0); [reflexivity | discriminate HN]. }
          destruct (filter _ (seq 0 (length (l0 :: B')))); [destruct X | discriminate]. }
        subst B. rewrite filter_all_true by auto. reflexivity.
      + fold kp. fold tt2.
        destruct (probe_batch_spec hash TRightAnti false kb kp tt2 wl B (hd [] paging) pb (repeat false (length B))
                    (repeat_length _ _)) as [_ [_ P3]].
        etransitivity; [apply perm_filter; exact P3|]. unfold batch_rows. cbn [pair_type phi app].
        fold on. apply perm_of_eq.
        assert (Bne : B <> []) by (intros ->; discriminate Em).
        etransitivity; [apply (filter_flat_map_anti (fun r => existsb (fun l => on l r) B))|]. apply filter_ext. intros r. destruct B as [|l0 B']; [congruence|].
        cbn [negb]. rewrite andb_true_r. destruct (kp1 r); reflexivity.
  Qed.
End NAProofs2.

(* the NOT IN definition, read through C01's null-aware anti join law *)
Lemma not_in_def_as_anti : forall k ki X Inner,
  not_in_def k ki X Inner
  = filter (fun x => negb (existsb (fun v => match eq3 (inj (k x)) v with TF => false | _ => true end)
                                   (map (fun y => inj (ki y)) Inner))) X.
Proof.
  intros. unfold not_in_def. apply filter_ext. intros x. apply eq_iff_eq_true.
  rewrite negb_true_iff. rewrite <- not_in_null_aware_anti.
  destruct (not_in3 (inj (k x)) (map (fun y => inj (ki y)) Inner)); cbn; split; congruence.
Qed.
