(* C05 -- proofs about Model/JoinAlgo.v: the hash join (any hash function, any probe batching, any paging of the
   candidate lists) and the sort-merge join (key-sorted inputs) compute the join type's nested-loop definition,
   as bags (Permutation). *)
From Coq Require Import List ZArith Bool Arith Lia Permutation Sorted.
From DF Require Import Base.Prelude Model.RefSQL Proofs.RefSQLLaws Model.JoinAlgo.
Import ListNotations.
Open Scope Z_scope.

(* ------------------------------------------------------------------ generic list facts *)
Lemma flat_map_ext_in : forall {A B} (f g : A -> list B) l,
  (forall x, In x l -> f x = g x) -> flat_map f l = flat_map g l.
Proof.
  induction l as [|a l IH]; intros H; [reflexivity|]. cbn [flat_map].
  rewrite (H a (or_introl eq_refl)), IH; auto. intros; apply H; right; auto.
Qed.
Lemma perm_flat_map : forall {A B} (f g : A -> list B) l,
  (forall x, In x l -> Permutation (f x) (g x)) -> Permutation (flat_map f l) (flat_map g l).
Proof.
  induction l as [|a l IH]; intros H; [constructor|]. cbn [flat_map].
  apply Permutation_app; [apply H; left; auto | apply IH; intros; apply H; right; auto].
Qed.
Lemma filter_flat_map : forall {A B} (p : B -> bool) (f : A -> list B) l,
  filter p (flat_map f l) = flat_map (fun x => filter p (f x)) l.
Proof. induction l as [|a l IH]; [reflexivity|]. cbn [flat_map]. rewrite filter_app, IH. reflexivity. Qed.
Lemma map_flat_map : forall {A B C} (h : B -> C) (f : A -> list B) l,
  map h (flat_map f l) = flat_map (fun x => map h (f x)) l.
Proof. induction l as [|a l IH]; [reflexivity|]. cbn [flat_map]. rewrite map_app, IH. reflexivity. Qed.
Lemma map_filter_flat_map : forall {A B} (F : A -> B) (g : A -> bool) l,
  map F (filter g l) = flat_map (fun q => if g q then [F q] else []) l.
Proof. induction l as [|a l IH]; [reflexivity|]. cbn [filter flat_map]. destruct (g a); cbn; rewrite IH; reflexivity. Qed.
Lemma filter_all_true : forall {A} (f : A -> bool) l, (forall x, In x l -> f x = true) -> filter f l = l.
Proof.
  induction l as [|a l IH]; intros H; [reflexivity|]. cbn [filter]. rewrite (H a (or_introl eq_refl)), IH; auto.
  intros; apply H; right; auto.
Qed.
Lemma filter_all_false : forall {A} (f : A -> bool) l, (forall x, In x l -> f x = false) -> filter f l = [].
Proof.
  induction l as [|a l IH]; intros H; [reflexivity|]. cbn [filter]. rewrite (H a (or_introl eq_refl)), IH; auto.
  intros; apply H; right; auto.
Qed.
Lemma filter_filter : forall {A} (f g : A -> bool) l, filter f (filter g l) = filter (fun x => g x && f x) l.
Proof. induction l as [|a l IH]; [reflexivity|]. cbn [filter]. destruct (g a); cbn; [destruct (f a)|]; rewrite IH; reflexivity. Qed.
Lemma filter_rev : forall {A} (f : A -> bool) l, filter f (rev l) = rev (filter f l).
Proof.
  induction l as [|a l IH]; [reflexivity|]. cbn [rev filter]. rewrite filter_app, IH. cbn [filter].
  destruct (f a); cbn [rev]; [reflexivity | rewrite app_nil_r; reflexivity].
Qed.
Lemma seq_split : forall a b c, (a <= b)%nat -> (b <= c)%nat -> seq a (c - a) = seq a (b - a) ++ seq b (c - b).
Proof.
  intros. replace (c - a)%nat with ((b - a) + (c - b))%nat by lia. rewrite seq_app. do 2 f_equal. lia.
Qed.
(* a list seen through its indices *)
Lemma seq_nth_gen : forall {A B} (d : A) (F : nat -> B) (G : A -> B) (g : nat -> bool) (f : A -> bool) l s,
  (forall i, (i < length l)%nat -> F (s + i)%nat = G (nth i l d) /\ g (s + i)%nat = f (nth i l d)) ->
  map F (filter g (seq s (length l))) = map G (filter f l).
Proof.
  induction l as [|a l IH]; intros s H; [reflexivity|].
  cbn [length seq filter]. destruct (H 0%nat) as [H1 H2]; [cbn; lia|]. rewrite Nat.add_0_r in H1, H2. cbn [nth] in H1, H2.
  assert (IH' : map F (filter g (seq (S s) (length l))) = map G (filter f l)).
  { apply IH. intros i Hi. destruct (H (S i)) as [X Y]; [cbn; lia|]. cbn [nth] in X, Y.
    replace (S s + i)%nat with (s + S i)%nat by lia. auto. }
  rewrite H2. destruct (f a); cbn [map]; rewrite IH'; [rewrite H1|]; reflexivity.
Qed.
Lemma seq_nth_filter : forall {A B} (d : A) (F : nat -> B) (G : A -> B) (g : nat -> bool) (f : A -> bool) l,
  (forall i, (i < length l)%nat -> F i = G (nth i l d) /\ g i = f (nth i l d)) ->
  map F (filter g (seq 0 (length l))) = map G (filter f l).
Proof. intros. apply seq_nth_gen with (d := d). intros i Hi. cbn. auto. Qed.
Lemma seq_nth_map : forall {A B} (d : A) (F : nat -> B) (G : A -> B) l,
  (forall i, (i < length l)%nat -> F i = G (nth i l d)) -> map F (seq 0 (length l)) = map G l.
Proof.
  intros. rewrite <- (filter_all_true (fun _ => true) (seq 0 (length l))) by auto.
  rewrite <- (filter_all_true (fun _ => true) l) at 2 by auto.
  apply seq_nth_filter with (d := d). intros; split; auto.
Qed.
Lemma seq_nth_flat_map : forall {A B} (d : A) (F : nat -> list B) (G : A -> list B) l,
  (forall i, (i < length l)%nat -> F i = G (nth i l d)) -> flat_map F (seq 0 (length l)) = flat_map G l.
Proof. intros. rewrite !flat_map_concat_map. f_equal. apply seq_nth_map with (d := d). auto. Qed.

Lemma memn_In : forall q l, memn q l = true <-> In q l.
Proof.
  unfold memn; intros. rewrite existsb_exists. split.
  - intros [x [Hx E]]. apply Nat.eqb_eq in E. subst; auto.
  - intros H. exists q. split; auto. apply Nat.eqb_refl.
Qed.
Lemma memn_false : forall q l, memn q l = false <-> ~ In q l.
Proof. intros. rewrite <- memn_In. destruct (memn q l); split; congruence. Qed.

(* ------------------------------------------------------------------ get_anti_indices / get_semi_indices *)
Lemma ss_le_inv : forall i l, StronglySorted le (i :: l) -> StronglySorted le l /\ forall x, In x l -> (i <= x)%nat.
Proof. intros i l H. inversion H; subst. split; auto. rewrite Forall_forall in *. auto. Qed.

Lemma anti_indices_spec : forall inp s e next,
  StronglySorted le inp -> (s <= next)%nat -> (forall i, In i inp -> (s <= i)%nat -> (next <= S i)%nat) ->
  anti_indices s e next inp = filter (fun q => negb (memn q inp)) (seq next (e - next)).
Proof.
  induction inp as [|i inp IH]; intros s e next Hs Hn Hb.
  - cbn [anti_indices]. symmetry. apply filter_all_true. auto.
  - apply ss_le_inv in Hs. destruct Hs as [Hs Hle]. cbn [anti_indices].
    destruct (i <? s)%nat eqn:E1.
    + apply Nat.ltb_lt in E1. rewrite (IH s e next Hs Hn); [|intros; apply Hb; auto; right; auto].
      apply filter_ext_in. intros q Hq. apply in_seq in Hq. unfold memn. cbn [existsb].
      replace (q =? i)%nat with false; [reflexivity|]. symmetry. apply Nat.eqb_neq. lia.
    + apply Nat.ltb_ge in E1. destruct (e <=? i)%nat eqn:E2.
      * apply Nat.leb_le in E2. symmetry. apply filter_all_true. intros q Hq. apply in_seq in Hq.
        apply negb_true_iff. apply memn_false. intros [X|X]; [lia|]. apply Hle in X. lia.
      * apply Nat.leb_gt in E2. assert (Hni : (next <= S i)%nat) by (apply Hb; [left|]; auto).
        rewrite (IH s e (S i) Hs); [|lia|intros x Hx _; apply Hle in Hx; lia].
        assert (Ext : filter (fun q => negb (memn q inp)) (seq (S i) (e - S i))
                      = filter (fun q => negb (memn q (i :: inp))) (seq (S i) (e - S i))).
        { apply filter_ext_in. intros q Hq. apply in_seq in Hq. unfold memn. cbn [existsb].
          replace (q =? i)%nat with false; [reflexivity|]. symmetry. apply Nat.eqb_neq. lia. }
        rewrite Ext. destruct (Nat.eq_dec next (S i)) as [->|Hne].
        { replace (i - S i)%nat with 0%nat by lia. reflexivity. }
        rewrite (seq_split next i e) by lia. rewrite filter_app.
        rewrite (filter_all_true _ (seq next (i - next))).
        2:{ intros q Hq. apply in_seq in Hq. apply negb_true_iff. apply memn_false.
            intros [X|X]; [lia|]. apply Hle in X. lia. }
        f_equal. replace (e - i)%nat with (S (e - S i)) by lia. cbn [seq filter].
        replace (memn i (i :: inp)) with true; [reflexivity|]. symmetry. apply memn_In. left; auto.
Qed.

Lemma semi_indices_spec : forall inp s e prev,
  StronglySorted le inp ->
  let lo := match prev with Some p => S p | None => s end in
  (s <= lo)%nat -> (forall i, In i inp -> (s <= i)%nat -> (lo <= S i)%nat) ->
  semi_indices s e prev inp = filter (fun q => memn q inp) (seq lo (e - lo)).
Proof.
  induction inp as [|i inp IH]; intros s e prev Hs lo Hn Hb.
  - cbn [semi_indices]. symmetry. apply filter_all_false. auto.
  - apply ss_le_inv in Hs. destruct Hs as [Hs Hle]. cbn [semi_indices].
    destruct (i <? s)%nat eqn:E1.
    + apply Nat.ltb_lt in E1. rewrite (IH s e prev Hs Hn); [|intros; apply Hb; auto; right; auto]. fold lo.
      apply filter_ext_in. intros q Hq. apply in_seq in Hq. unfold memn. cbn [existsb].
      replace (q =? i)%nat with false; [reflexivity|]. symmetry. apply Nat.eqb_neq. lia.
    + apply Nat.ltb_ge in E1. destruct (e <=? i)%nat eqn:E2.
      * apply Nat.leb_le in E2. symmetry. apply filter_all_false. intros q Hq. apply in_seq in Hq.
        apply memn_false. intros [X|X]; [lia|]. apply Hle in X. lia.
      * apply Nat.leb_gt in E2. assert (Hni : (lo <= S i)%nat) by (apply Hb; [left|]; auto).
        assert (Ext : filter (fun q => memn q inp) (seq (S i) (e - S i))
                      = filter (fun q => memn q (i :: inp)) (seq (S i) (e - S i))).
        { apply filter_ext_in. intros q Hq. apply in_seq in Hq. unfold memn. cbn [existsb].
          replace (q =? i)%nat with false; [reflexivity|]. symmetry. apply Nat.eqb_neq. lia. }
        assert (IH' : semi_indices s e (Some i) inp = filter (fun q => memn q inp) (seq (S i) (e - S i))).
        { apply (IH s e (Some i) Hs); [lia|]. intros x Hx _. apply Hle in Hx. lia. }
        destruct (match prev with Some p => Nat.eqb p i | None => false end) eqn:E3.
        { destruct prev as [p|]; [|discriminate]. apply Nat.eqb_eq in E3. subst p.
          rewrite IH', Ext. reflexivity. }
        assert (Hlt : (lo <= i)%nat).
        { destruct prev as [p|]; unfold lo in *; [apply Nat.eqb_neq in E3; lia | lia]. }
        rewrite IH', Ext. rewrite (seq_split lo i e) by lia. rewrite filter_app.
        rewrite (filter_all_false _ (seq lo (i - lo))).
        2:{ intros q Hq. apply in_seq in Hq. apply memn_false. intros [X|X]; [lia|]. apply Hle in X. lia. }
        replace (e - i)%nat with (S (e - S i)) by lia. cbn [seq filter app].
        replace (memn i (i :: inp)) with true; [reflexivity|]. symmetry. apply memn_In. left; auto.
Qed.
(* ------------------------------------------------------------------ keys *)
Lemma oeq_true : forall ne x y, oeq ne x y = true -> x = y /\ (ne = true \/ x <> None).
Proof.
  intros ne [a|] [b|]; cbn; intros H; try discriminate.
  - apply Z.eqb_eq in H. subst. split; auto. right; discriminate.
  - split; auto.
Qed.
Lemma keys_eq_true : forall ne a b, keys_eq ne a b = true -> a = b /\ key_valid ne a = true.
Proof.
  unfold key_valid. induction a as [|x a IH]; intros [|y b]; cbn; intros H; try discriminate.
  - split; auto. apply orb_true_r.
  - apply andb_true_iff in H. destruct H as [H1 H2]. apply oeq_true in H1. destruct H1 as [-> H1].
    apply IH in H2. destruct H2 as [-> H2]. split; auto.
    destruct ne; [reflexivity|]. cbn in *. destruct H1 as [H1|H1]; [discriminate|].
    destruct y; [exact H2 | congruence].
Qed.
Lemma keys_eq_refl : forall ne a, key_valid ne a = true -> keys_eq ne a a = true.
Proof.
  unfold key_valid. induction a as [|x a IH]; cbn; intros H; [reflexivity|].
  destruct ne; cbn in *.
  - rewrite IH by reflexivity. destruct x; cbn; [rewrite Z.eqb_refl|]; reflexivity.
  - destruct x; [|discriminate]. cbn. rewrite Z.eqb_refl. cbn. apply IH. exact H.
Qed.

Lemma filter_map_comm : forall {A B} (f : B -> bool) (g : A -> B) l,
  filter f (map g l) = map g (filter (fun x => f (g x)) l).
Proof. induction l as [|a l IH]; [reflexivity|]. cbn. destruct (f (g a)); cbn; rewrite IH; reflexivity. Qed.
Lemma flat_map_singleton : forall {A B} (f : A -> B) l, flat_map (fun x => [f x]) l = map f l.
Proof. induction l as [|a l IH]; [reflexivity|]. cbn. rewrite IH. reflexivity. Qed.
Lemma flat_map_nil_f : forall {A B} (l : list A), flat_map (fun _ => @nil B) l = [].
Proof. induction l; auto. Qed.
Lemma perm_shuffle4 : forall {A} (a b c d : list A), Permutation ((a ++ b) ++ (c ++ d)) ((a ++ c) ++ (b ++ d)).
Proof.
  intros. rewrite <- !app_assoc. apply Permutation_app_head. rewrite !app_assoc. apply Permutation_app_tail.
  apply Permutation_app_comm.
Qed.

(* sortedness of (probe, build) pair lists by probe index *)
Definition ple (a b : nat * nat) : Prop := (fst a <= fst b)%nat.
Lemma ss_app : forall {A} (R : A -> A -> Prop) a b,
  StronglySorted R a -> StronglySorted R b -> (forall x y, In x a -> In y b -> R x y) -> StronglySorted R (a ++ b).
Proof.
  induction a as [|x a IH]; intros b Ha Hb H; [exact Hb|]. inversion Ha; subst. cbn. constructor.
  - apply IH; auto. intros; apply H; auto. right; auto.
  - apply Forall_app. split; auto. apply Forall_forall. intros y Hy. apply H; auto. left; auto.
Qed.
Lemma ss_app_inv : forall {A} (R : A -> A -> Prop) a b,
  StronglySorted R (a ++ b) -> StronglySorted R a /\ StronglySorted R b /\ (forall x y, In x a -> In y b -> R x y).
Proof.
  induction a as [|x a IH]; intros b H.
  - split; [constructor|]. split; auto. intros ? ? [].
  - cbn in H. inversion H; subst. apply IH in H2. destruct H2 as [Ha [Hb Hc]]. apply Forall_app in H3. destruct H3 as [F1 F2].
    split; [constructor; auto|]. split; auto. intros u v [<-|Hu] Hv; [|auto]. rewrite Forall_forall in F2. auto.
Qed.
Lemma ss_filter : forall {A} (R : A -> A -> Prop) f l, StronglySorted R l -> StronglySorted R (filter f l).
Proof.
  induction l as [|a l IH]; intros H; [constructor|]. inversion H; subst. cbn. destruct (f a); auto.
  constructor; auto. rewrite Forall_forall in *. intros x Hx. apply filter_In in Hx. apply H3. tauto.
Qed.
Lemma ss_map_fst : forall l, StronglySorted ple l -> StronglySorted le (map fst l).
Proof.
  induction l as [|a l IH]; intros H; [constructor|]. inversion H; subst. cbn. constructor; auto.
  rewrite Forall_forall in *. intros x Hx. apply in_map_iff in Hx. destruct Hx as [y [<- Hy]]. apply H3. auto.
Qed.
Lemma last_fst_none : forall l, last_fst l = None -> l = [].
Proof.
  unfold last_fst. intros l H. destruct (rev l) eqn:E; [|discriminate].
  apply (f_equal (@rev _)) in E. rewrite rev_involutive in E. exact E.
Qed.
Lemma last_fst_some : forall l p, last_fst l = Some p -> exists pre b, l = pre ++ [(p, b)].
Proof.
  unfold last_fst. intros l p H. destruct (rev l) as [|[p' b] tl] eqn:E; [discriminate|]. cbn in H. inversion H; subst.
  apply (f_equal (@rev _)) in E. rewrite rev_involutive in E. cbn in E. exists (rev tl), b. exact E.
Qed.
Lemma split_pages_concat : forall {A} sizes (l : list A), concat (split_pages sizes l) = l.
Proof.
  induction sizes as [|k sizes IH]; intros l; cbn; [apply app_nil_r|]. rewrite IH. apply firstn_skipn.
Qed.
Lemma split_pages_nonnil : forall {A} sizes (l : list A), split_pages sizes l <> [].
Proof. destruct sizes; cbn; discriminate. Qed.

(* the visited bitmap *)
Lemma set_bit_length : forall bm i, length (set_bit bm i) = length bm.
Proof. induction bm as [|b bm IH]; intros [|i]; cbn; auto. Qed.
Lemma get_set_bit : forall bm i j, (j < length bm)%nat -> get_bit (set_bit bm i) j = get_bit bm j || Nat.eqb j i.
Proof.
  unfold get_bit. induction bm as [|b bm IH]; intros i j H; [cbn in H; lia|].
  destruct i, j; cbn; auto.
  - symmetry. apply orb_true_r.
  - symmetry. apply orb_false_r.
  - symmetry. apply orb_false_r.
  - apply IH. cbn in H. lia.
Qed.
Lemma fold_set_bit : forall (prs : list (nat * nat)) bm,
  length (fold_left (fun bm pr => set_bit bm (snd pr)) prs bm) = length bm /\
  forall j, (j < length bm)%nat ->
    get_bit (fold_left (fun bm pr => set_bit bm (snd pr)) prs bm) j = get_bit bm j || memn j (map snd prs).
Proof.
  induction prs as [|pr prs IH]; intros bm; cbn [fold_left map].
  - split; auto. intros. cbn. symmetry. apply orb_false_r.
  - destruct (IH (set_bit bm (snd pr))) as [L G]. rewrite set_bit_length in L. split; auto.
    intros j Hj. rewrite G by (rewrite set_bit_length; auto). rewrite get_set_bit by auto.
    unfold memn. cbn [existsb]. rewrite orb_assoc. reflexivity.
Qed.
