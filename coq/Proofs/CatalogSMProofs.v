(* C49 -- proofs about the catalog state machine (Model/CatalogSM.v). *)
From DF Require Import Base.Prelude Model.CatalogSM.
From Coq Require Import String Ascii Lia.
Open Scope Z_scope.

(* ------------------------------------------------------------------ keys *)
Lemma teqb_eq : forall a b, teqb a b = true <-> a = b.
Proof. intros; unfold teqb; apply String.eqb_eq. Qed.
Lemma teqb_refl : forall a, teqb a a = true.
Proof. intros; apply teqb_eq; reflexivity. Qed.
Lemma teqb_neq : forall a b, teqb a b = false <-> a <> b.
Proof. intros; unfold teqb; apply String.eqb_neq. Qed.
Lemma teqb_sym : forall a b, teqb a b = teqb b a.
Proof. intros; unfold teqb; apply String.eqb_sym. Qed.

(* ------------------------------------------------------------------ association maps *)
Section AMapFacts.
  Context {V : Type}.
  Implicit Types (m : amap V) (k : txt) (v : V).

  Lemma aget_aremove_eq : forall m k, aget k (aremove k m) = None.
  Proof.
    induction m as [|[k' v'] m IH]; intros k; cbn; [reflexivity|].
    destruct (teqb k k') eqn:E; [apply IH|]. cbn. rewrite E. apply IH.
  Qed.

  Lemma aget_aremove_neq : forall m k k', k <> k' -> aget k (aremove k' m) = aget k m.
  Proof.
    induction m as [|[k0 v0] m IH]; intros k k' Hn; cbn; [reflexivity|].
    destruct (teqb k' k0) eqn:E.
    - apply teqb_eq in E; subst k0. assert (teqb k k' = false) as -> by (apply teqb_neq; exact Hn). apply IH; exact Hn.
    - cbn. destruct (teqb k k0); [reflexivity|]. apply IH; exact Hn.
  Qed.

  Lemma aget_aset_eq : forall m k v, aget k (aset k v m) = Some v.
  Proof. intros; unfold aset; cbn. rewrite teqb_refl. reflexivity. Qed.

  Lemma aget_aset_neq : forall m k k' v, k <> k' -> aget k (aset k' v m) = aget k m.
  Proof.
    intros; unfold aset; cbn. assert (teqb k k' = false) as -> by (apply teqb_neq; assumption).
    apply aget_aremove_neq; assumption.
  Qed.

  Lemma aget_In : forall m k v, aget k m = Some v -> In (k, v) m.
  Proof.
    induction m as [|[k0 v0] m IH]; intros k v; cbn; [discriminate|].
    destruct (teqb k k0) eqn:E.
    - intros H; inversion H; subst. apply teqb_eq in E; subst. left; reflexivity.
    - intros H; right; apply IH; exact H.
  Qed.

  Lemma aget_None_notin : forall m k, aget k m = None -> ~ In k (akeys m).
  Proof.
    induction m as [|[k0 v0] m IH]; intros k; cbn; [tauto|].
    destruct (teqb k k0) eqn:E; [discriminate|].
    intros H [H1|H1].
    - subst. rewrite teqb_refl in E; discriminate.
    - eapply IH; eauto.
  Qed.

  Lemma In_aget : forall m k v, NoDup (akeys m) -> In (k, v) m -> aget k m = Some v.
  Proof.
    induction m as [|[k0 v0] m IH]; intros k v Hnd Hin; cbn in *; [tauto|].
    inversion Hnd as [|? ? Hnotin Hnd']; subst.
    destruct Hin as [Hin|Hin].
    - inversion Hin; subst. rewrite teqb_refl; reflexivity.
    - destruct (teqb k k0) eqn:E.
      + apply teqb_eq in E; subst. exfalso; apply Hnotin. unfold akeys. change k0 with (fst (k0, v)). apply in_map; exact Hin.
      + apply IH; assumption.
  Qed.

  Lemma In_aget_iff : forall m k v, NoDup (akeys m) -> (In (k, v) m <-> aget k m = Some v).
  Proof. intros; split; [apply In_aget; assumption | apply aget_In]. Qed.

  Lemma In_aremove : forall m k k' v, In (k, v) (aremove k' m) -> In (k, v) m /\ k <> k'.
  Proof.
    induction m as [|[k0 v0] m IH]; intros k k' v; cbn; [tauto|].
    destruct (teqb k' k0) eqn:E.
    - intros H; apply IH in H; tauto.
    - cbn. intros [H|H].
      + inversion H; subst. split; [left; reflexivity|]. apply teqb_neq in E. congruence.
      + apply IH in H; tauto.
  Qed.

  Lemma akeys_aremove_incl : forall m k k', In k (akeys (aremove k' m)) -> In k (akeys m) /\ k <> k'.
  Proof.
    intros m k k' H. unfold akeys in H. apply in_map_iff in H. destruct H as [[k1 v1] [H1 H2]]; cbn in H1; subst.
    apply In_aremove in H2. destruct H2 as [H2 H3]. split; [|exact H3].
    unfold akeys. change k with (fst (k, v1)). apply in_map; exact H2.
  Qed.

  Lemma NoDup_aremove : forall m k, NoDup (akeys m) -> NoDup (akeys (aremove k m)).
  Proof.
    induction m as [|[k0 v0] m IH]; intros k Hnd; cbn in *; [constructor|].
    inversion Hnd; subst.
    destruct (teqb k k0); [apply IH; assumption|].
    cbn. constructor; [|apply IH; assumption].
    intros Hin. apply akeys_aremove_incl in Hin. tauto.
  Qed.

  Lemma NoDup_aset : forall m k v, NoDup (akeys m) -> NoDup (akeys (aset k v m)).
  Proof.
    intros; unfold aset; cbn. constructor; [|apply NoDup_aremove; assumption].
    intros Hin. apply akeys_aremove_incl in Hin. tauto.
  Qed.

  Lemma Forall_aremove : forall (P : txt * V -> Prop) m k, Forall P m -> Forall P (aremove k m).
  Proof.
    induction m as [|[k0 v0] m IH]; intros k H; cbn; [constructor|].
    inversion H; subst. destruct (teqb k k0); [apply IH; assumption|]. constructor; [assumption|apply IH; assumption].
  Qed.

  Lemma Forall_aset : forall (P : txt * V -> Prop) m k v, P (k, v) -> Forall P m -> Forall P (aset k v m).
  Proof. intros; unfold aset; constructor; [assumption|apply Forall_aremove; assumption]. Qed.
End AMapFacts.

(* ------------------------------------------------------------------ lookups after an update *)
Lemma lookup_put_schema_same : forall (st : state) c (cat : catalog_t) s (X : schema_t) n,
  table_lookup (put_schema st c cat s X) c s n = aget n X.
Proof. intros; unfold table_lookup, put_schema. rewrite aget_aset_eq, aget_aset_eq. reflexivity. Qed.

Lemma lookup_put_schema_other : forall (st : state) c (cat : catalog_t) s (X : schema_t) c' s' n',
  aget c st = Some cat -> (c', s') <> (c, s) ->
  table_lookup (put_schema st c cat s X) c' s' n' = table_lookup st c' s' n'.
Proof.
  intros st c cat s X c' s' n' Hc Hne. unfold table_lookup, put_schema.
  destruct (teqb c' c) eqn:Ec.
  - apply teqb_eq in Ec; subst c'. rewrite aget_aset_eq, Hc.
    assert (s' <> s) by congruence. rewrite aget_aset_neq by assumption. reflexivity.
  - apply teqb_neq in Ec. rewrite aget_aset_neq by assumption. reflexivity.
Qed.

Lemma schema_lookup_put_schema_same : forall (st : state) c (cat : catalog_t) s (X : schema_t), schema_lookup (put_schema st c cat s X) c s = Some X.
Proof. intros; unfold schema_lookup, put_schema. rewrite aget_aset_eq, aget_aset_eq. reflexivity. Qed.

Lemma target_put_schema_same : forall (st : state) c (cat : catalog_t) s (X : schema_t), target_outcome (put_schema st c cat s X) c s = Ok.
Proof. intros; unfold target_outcome, put_schema. rewrite aget_aset_eq, aget_aset_eq. reflexivity. Qed.

(* ------------------------------------------------------------------ register / deregister *)
Lemma register_after_deregister : forall (st : state) c s n o (cat : catalog_t) (sc : schema_t),
  aget c st = Some cat -> aget s cat = Some sc ->
  register_table (deregister_table st c s n) c s n o
  = (put_schema (put_schema st c cat s (aremove n sc)) c (aset s (aremove n sc) cat) s (aset n o (aremove n sc)), Ok).
Proof.
  intros st c s n o cat sc Hc Hs. unfold deregister_table, register_table. rewrite Hc, Hs.
  unfold put_schema at 1 2 3. rewrite !aget_aset_eq, aget_aremove_eq. reflexivity.
Qed.

Lemma table_lookup_some : forall (st : state) c s n o, table_lookup st c s n = Some o ->
  exists (cat : catalog_t) (sc : schema_t), aget c st = Some cat /\ aget s cat = Some sc /\ aget n sc = Some o.
Proof.
  intros st c s n o H. unfold table_lookup in H.
  destruct (aget c st) as [cat|] eqn:Hc; [|discriminate].
  destruct (aget s cat) as [sc|] eqn:Hs; [|discriminate].
  exists cat, sc; auto.
Qed.

(* ------------------------------------------------------------------ the create handlers *)
(* outcome and effect of create_memory_table / create_view in one statement *)
Lemma create_memory_table_spec : forall st r o ine orr,
  let '(c, s, n) := resolve r in
  let res := create_memory_table st r o ine orr in
  match target_outcome st c s with
  | Ok =>
    snd res = create_rule (is_some (table_lookup st c s n)) ine orr
    /\ (snd res = Ok ->
        (table_lookup (fst res) c s n = Some o \/ (fst res = st /\ ine = true /\ orr = false /\ is_some (table_lookup st c s n) = true))
        /\ (forall c' s' n', (c', s', n') <> (c, s, n) -> table_lookup (fst res) c' s' n' = table_lookup st c' s' n'))
    /\ (snd res <> Ok -> fst res = st)
  | e => res = (st, e)
  end.
Proof.
  intros st r o ine orr. unfold create_memory_table. destruct (resolve r) as [[c s] n].
  unfold target_outcome, table_lookup.
  destruct (aget c st) as [cat|] eqn:Hc.
  2:{ unfold register_table; rewrite Hc. reflexivity. }
  destruct (aget s cat) as [sc|] eqn:Hs.
  2:{ unfold register_table; rewrite Hc, Hs. reflexivity. }
  destruct (aget n sc) as [old|] eqn:Hn; cbn [is_some create_rule].
  - destruct ine, orr; cbn [fst snd].
    + split; [reflexivity|]. split; [discriminate|reflexivity].
    + split; [reflexivity|]. split; [|congruence]. intros _. split; [right; auto|reflexivity].
    + rewrite (register_after_deregister st c s n o cat sc Hc Hs). cbn [fst snd].
      split; [reflexivity|]. split; [|congruence]. intros _. split.
      * left. fold (table_lookup (put_schema (put_schema st c cat s (aremove n sc)) c (aset s (aremove n sc) cat) s (aset n o (aremove n sc))) c s n).
        rewrite lookup_put_schema_same. apply aget_aset_eq.
      * intros c' s' n' Hne.
        fold (table_lookup (put_schema (put_schema st c cat s (aremove n sc)) c (aset s (aremove n sc) cat) s (aset n o (aremove n sc))) c' s' n').
        fold (table_lookup st c' s' n').
        destruct (teqb c' c) eqn:Ec; [destruct (teqb s' s) eqn:Es|].
        -- apply teqb_eq in Ec, Es; subst c' s'. rewrite lookup_put_schema_same.
           assert (n' <> n) by congruence. rewrite aget_aset_neq, aget_aremove_neq by assumption.
           unfold table_lookup; rewrite Hc, Hs; reflexivity.
        -- apply teqb_neq in Es. rewrite lookup_put_schema_other.
           ++ apply lookup_put_schema_other; [assumption|congruence].
           ++ unfold put_schema; apply aget_aset_eq.
           ++ congruence.
        -- apply teqb_neq in Ec. rewrite lookup_put_schema_other.
           ++ apply lookup_put_schema_other; [assumption|congruence].
           ++ unfold put_schema; apply teqb_neq in Ec. apply aget_aset_eq.
           ++ congruence.
    + split; [reflexivity|]. split; [discriminate|reflexivity].
  - assert (register_table st c s n o = (put_schema st c cat s (aset n o sc), Ok)) as Hreg
      by (unfold register_table; rewrite Hc, Hs, Hn; reflexivity).
    match goal with |- context [snd ?X] => replace X with (put_schema st c cat s (aset n o sc), Ok) by (destruct ine, orr; symmetry; exact Hreg) end.
    cbn [fst snd]. split; [reflexivity|]. split; [|congruence]. intros _. split.
    + left. fold (table_lookup (put_schema st c cat s (aset n o sc)) c s n). rewrite lookup_put_schema_same. apply aget_aset_eq.
    + intros c' s' n' Hne.
      fold (table_lookup (put_schema st c cat s (aset n o sc)) c' s' n'). fold (table_lookup st c' s' n').
      destruct (teqb c' c) eqn:Ec; [destruct (teqb s' s) eqn:Es|].
      * apply teqb_eq in Ec, Es; subst c' s'. rewrite lookup_put_schema_same.
        assert (n' <> n) by congruence. rewrite aget_aset_neq by assumption.
        unfold table_lookup; rewrite Hc, Hs; reflexivity.
      * apply teqb_neq in Es. apply lookup_put_schema_other; [assumption|congruence].
      * apply teqb_neq in Ec. apply lookup_put_schema_other; [assumption|congruence].
Qed.

Lemma create_view_as_table : forall st r o orr, create_view st r o orr = create_memory_table st r o false orr.
Proof.
  intros. unfold create_view, create_memory_table. destruct (resolve r) as [[c s] n].
  destruct (table_lookup st c s n), orr; reflexivity.
Qed.

(* ------------------------------------------------------------------ drop table / view *)
Lemma drop_object_spec : forall st r k ife,
  let '(c, s, n) := resolve r in
  let res := drop_object st r k ife in
  snd res = (if has_kind st r k || ife then Ok else NotFound)
  /\ (snd res <> Ok -> fst res = st)
  /\ (has_kind st r k = true -> table_lookup (fst res) c s n = None)
  /\ (has_kind st r k = false -> fst res = st)
  /\ (forall c' s' n', (c', s', n') <> (c, s, n) -> table_lookup (fst res) c' s' n' = table_lookup st c' s' n')
  /\ (forall c' s', target_outcome (fst res) c' s' = target_outcome st c' s').
Proof.
  intros st r k ife. unfold drop_object, find_and_deregister, has_kind. destruct (resolve r) as [[c s] n].
  destruct (aget c st) as [cat|] eqn:Hc.
  2:{ assert (table_lookup st c s n = None) as Hl by (unfold table_lookup; rewrite Hc; reflexivity). rewrite !Hl.
      cbn. destruct ife; cbn; repeat split; auto; try discriminate; congruence. }
  destruct (aget s cat) as [sc|] eqn:Hs.
  2:{ assert (table_lookup st c s n = None) as Hl by (unfold table_lookup; rewrite Hc, Hs; reflexivity). rewrite !Hl.
      cbn. destruct ife; cbn; repeat split; auto; try discriminate; congruence. }
  destruct (aget n sc) as [o|] eqn:Hn.
  2:{ assert (table_lookup st c s n = None) as Hl by (unfold table_lookup; rewrite Hc, Hs; exact Hn). rewrite !Hl.
      cbn. destruct ife; cbn; repeat split; auto; try discriminate; congruence. }
  assert (table_lookup st c s n = Some o) as Hl by (unfold table_lookup; rewrite Hc, Hs; exact Hn). rewrite !Hl.
  destruct (kind_eqb (okind o) k) eqn:Hk.
  2:{ cbn. destruct ife; cbn; repeat split; auto; try discriminate; congruence. }
  cbn [fst snd orb]. split; [reflexivity|]. split; [congruence|]. split; [|split; [discriminate|split]].
  - intros _. rewrite lookup_put_schema_same. apply aget_aremove_eq.
  - intros c' s' n' Hne.
    destruct (teqb c' c) eqn:Ec; [destruct (teqb s' s) eqn:Es|].
    + apply teqb_eq in Ec, Es; subst c' s'. rewrite lookup_put_schema_same.
      assert (n' <> n) by congruence. rewrite aget_aremove_neq by assumption.
      unfold table_lookup; rewrite Hc, Hs; reflexivity.
    + apply teqb_neq in Es. apply lookup_put_schema_other; [assumption|congruence].
    + apply teqb_neq in Ec. apply lookup_put_schema_other; [assumption|congruence].
  - intros c' s'. unfold target_outcome, put_schema.
    destruct (teqb c' c) eqn:Ec.
    + apply teqb_eq in Ec; subst c'. rewrite aget_aset_eq, Hc.
      destruct (teqb s' s) eqn:Es.
      * apply teqb_eq in Es; subst s'. rewrite aget_aset_eq, Hs. reflexivity.
      * apply teqb_neq in Es. rewrite aget_aset_neq by assumption. reflexivity.
    + apply teqb_neq in Ec. rewrite aget_aset_neq by assumption. reflexivity.
Qed.

(* ------------------------------------------------------------------ schemas and catalogs *)
Lemma schema_lookup_put_schema_other : forall (st : state) c (cat : catalog_t) s (X : schema_t) c' s',
  aget c st = Some cat -> (c', s') <> (c, s) ->
  schema_lookup (put_schema st c cat s X) c' s' = schema_lookup st c' s'.
Proof.
  intros st c cat s X c' s' Hc Hne. unfold schema_lookup, put_schema.
  destruct (teqb c' c) eqn:Ec.
  - apply teqb_eq in Ec; subst c'. rewrite aget_aset_eq, Hc.
    assert (s' <> s) by congruence. rewrite aget_aset_neq by assumption. reflexivity.
  - apply teqb_neq in Ec. rewrite aget_aset_neq by assumption. reflexivity.
Qed.

Lemma create_schema_spec : forall st r ine,
  let '(c, s) := sresolve r in
  let res := create_schema st r ine in
  snd res = match aget c st with
            | None => NoCatalog
            | Some _ => if is_some (schema_lookup st c s) then (if ine then Ok else AlreadyExists) else Ok
            end
  /\ (snd res <> Ok -> fst res = st)
  /\ (snd res = Ok -> (schema_lookup st c s = None /\ schema_lookup (fst res) c s = Some []) \/ (schema_lookup st c s <> None /\ fst res = st))
  /\ (forall c' s', (c', s') <> (c, s) -> schema_lookup (fst res) c' s' = schema_lookup st c' s').
Proof.
  intros st r ine. unfold create_schema. destruct (sresolve r) as [c s].
  destruct (aget c st) as [cat|] eqn:Hc.
  2:{ cbn. repeat split; auto; discriminate. }
  destruct (aget s cat) as [sc|] eqn:Hs.
  - assert (schema_lookup st c s = Some sc) as Hl by (unfold schema_lookup; rewrite Hc; exact Hs). rewrite !Hl. cbn [is_some].
    destruct ine; cbn; (split; [reflexivity|]); (split; [auto|]); split; auto; intros _; right; split; auto; discriminate.
  - assert (schema_lookup st c s = None) as Hl by (unfold schema_lookup; rewrite Hc; exact Hs). rewrite !Hl. cbn [is_some].
    assert ((match ine with true => (put_schema st c cat s [], Ok) | false => (put_schema st c cat s [], Ok) end)
            = (put_schema st c cat s [], Ok)) as -> by (destruct ine; reflexivity).
    cbn [fst snd]. split; [reflexivity|]. split; [congruence|]. split.
    + intros _. left. split; [reflexivity|]. apply schema_lookup_put_schema_same.
    + intros c' s' Hne. apply schema_lookup_put_schema_other; assumption.
Qed.

Lemma drop_schema_spec : forall st r ife cascade,
  let '(c, s) := sresolve r in
  let res := drop_schema st r ife cascade in
  snd res = match schema_lookup st c s with
            | None => if ife then Ok else NotFound
            | Some sc => match sc, cascade with [], _ | _ :: _, true => Ok | _ :: _, false => NotEmpty end
            end
  /\ (snd res <> Ok -> fst res = st)
  /\ (snd res = Ok -> schema_lookup (fst res) c s = None)
  /\ (forall c' s', (c', s') <> (c, s) -> schema_lookup (fst res) c' s' = schema_lookup st c' s').
Proof.
  intros st r ife cascade. unfold drop_schema. destruct (sresolve r) as [c s].
  destruct (aget c st) as [cat|] eqn:Hc.
  2:{ assert (schema_lookup st c s = None) as Hl by (unfold schema_lookup; rewrite Hc; reflexivity). rewrite !Hl.
      destruct ife; cbn; repeat split; auto; discriminate. }
  destruct (aget s cat) as [sc|] eqn:Hs.
  2:{ assert (schema_lookup st c s = None) as Hl by (unfold schema_lookup; rewrite Hc; exact Hs). rewrite !Hl.
      destruct ife; cbn; repeat split; auto; discriminate. }
  assert (schema_lookup st c s = Some sc) as Hl by (unfold schema_lookup; rewrite Hc; exact Hs). rewrite !Hl.
  assert (Hgo : forall c' s', (c', s') <> (c, s) -> schema_lookup (aset c (aremove s cat) st) c' s' = schema_lookup st c' s').
  { intros c' s' Hne. unfold schema_lookup.
    destruct (teqb c' c) eqn:Ec.
    - apply teqb_eq in Ec; subst c'. rewrite aget_aset_eq, Hc. assert (s' <> s) by congruence.
      apply aget_aremove_neq; assumption.
    - apply teqb_neq in Ec. rewrite aget_aset_neq by assumption. reflexivity. }
  assert (Hgone : schema_lookup (aset c (aremove s cat) st) c s = None).
  { unfold schema_lookup. rewrite aget_aset_eq. apply aget_aremove_eq. }
  destruct sc as [|x sc]; [|destruct cascade]; cbn [fst snd]; repeat split; auto; try congruence; discriminate.
Qed.

Lemma create_catalog_spec : forall st i ine,
  let res := create_catalog st i ine in
  snd res = (if is_some (aget (norm i) st) then (if ine then Ok else AlreadyExists) else Ok)
  /\ (snd res <> Ok -> fst res = st)
  /\ (snd res = Ok -> (aget (norm i) st = None /\ aget (norm i) (fst res) = Some []) \/ (aget (norm i) st <> None /\ fst res = st))
  /\ (forall c', c' <> norm i -> aget c' (fst res) = aget c' st).
Proof.
  intros st i ine. unfold create_catalog.
  destruct (aget (norm i) st) as [cat|] eqn:Hc; cbn [is_some].
  - destruct ine; cbn; (split; [reflexivity|]); (split; [auto|]); split; auto; intros _; right; split; auto; discriminate.
  - destruct ine; cbn [fst snd]; (split; [reflexivity|]); (split; [congruence|]); (split;
      [intros _; left; split; [reflexivity|apply aget_aset_eq] | intros c' Hne; apply aget_aset_neq; assumption]).
Qed.

(* ================================================================== property theorems *)
Lemma step_unsupported : forall st op, names_info op = true -> step st op = (st, Unsupported).
Proof. intros st op H; unfold step; rewrite H; reflexivity. Qed.

Theorem ddl_outcome_by_state_thm : forall st op, snd (step st op) = spec_outcome st op.
Proof.
  intros st op. unfold step, spec_outcome. destruct (names_info op); [reflexivity|].
  destruct op as [r cols ine orr|r c0 k ine orr|r c0 k orr text|r ife|r ife|r ine|r ife cascade|i ine].
  - pose proof (create_memory_table_spec st r (table_obj cols) ine orr) as H. destruct (resolve r) as [[c s] n].
    destruct (target_outcome st c s); try (rewrite H; reflexivity). apply H.
  - pose proof (create_memory_table_spec st r (ctas_obj c0 k) ine orr) as H. destruct (resolve r) as [[c s] n].
    destruct (target_outcome st c s); try (rewrite H; reflexivity). apply H.
  - rewrite create_view_as_table.
    pose proof (create_memory_table_spec st r (view_obj c0 k text) false orr) as H. destruct (resolve r) as [[c s] n].
    destruct (target_outcome st c s); try (rewrite H; reflexivity). apply H.
  - pose proof (drop_object_spec st r KTable ife) as H. destruct (resolve r) as [[c s] n]. apply H.
  - pose proof (drop_object_spec st r KView ife) as H. destruct (resolve r) as [[c s] n]. apply H.
  - pose proof (create_schema_spec st r ine) as H. destruct (sresolve r) as [c s]. apply H.
  - pose proof (drop_schema_spec st r ife cascade) as H. destruct (sresolve r) as [c s]. apply H.
  - apply (create_catalog_spec st i ine).
Qed.

Theorem failed_ddl_unchanged_thm : forall st op, snd (step st op) <> Ok -> fst (step st op) = st.
Proof.
  intros st op. unfold step. destruct (names_info op); [reflexivity|].
  destruct op as [r cols ine orr|r c0 k ine orr|r c0 k orr text|r ife|r ife|r ine|r ife cascade|i ine].
  - pose proof (create_memory_table_spec st r (table_obj cols) ine orr) as H. destruct (resolve r) as [[c s] n].
    destruct (target_outcome st c s); try (rewrite H; reflexivity). apply H.
  - pose proof (create_memory_table_spec st r (ctas_obj c0 k) ine orr) as H. destruct (resolve r) as [[c s] n].
    destruct (target_outcome st c s); try (rewrite H; reflexivity). apply H.
  - rewrite create_view_as_table.
    pose proof (create_memory_table_spec st r (view_obj c0 k text) false orr) as H. destruct (resolve r) as [[c s] n].
    destruct (target_outcome st c s); try (rewrite H; reflexivity). apply H.
  - pose proof (drop_object_spec st r KTable ife) as H. destruct (resolve r) as [[c s] n]. apply H.
  - pose proof (drop_object_spec st r KView ife) as H. destruct (resolve r) as [[c s] n]. apply H.
  - pose proof (create_schema_spec st r ine) as H. destruct (sresolve r) as [c s]. apply H.
  - pose proof (drop_schema_spec st r ife cascade) as H. destruct (sresolve r) as [c s]. apply H.
  - apply (create_catalog_spec st i ine).
Qed.

(* a CREATE of an object is create_memory_table on its ddl_object *)
Lemma step_create : forall st op r o ine orr,
  ddl_object op = Some (r, o, ine, orr) -> names_info op = false ->
  step st op = create_memory_table st r o ine orr.
Proof.
  intros st op r o ine orr Hobj Hni. unfold step. rewrite Hni.
  destruct op; cbn in Hobj; inversion Hobj; subst; try reflexivity. apply create_view_as_table.
Qed.

Theorem create_effect_thm : forall st op r o ine orr,
  ddl_object op = Some (r, o, ine, orr) -> names_info op = false -> snd (step st op) = Ok ->
  let '(c, s, n) := resolve r in
  (table_lookup (fst (step st op)) c s n = Some o
   \/ (fst (step st op) = st /\ ine = true /\ orr = false /\ is_some (table_lookup st c s n) = true))
  /\ (forall c' s' n', (c', s', n') <> (c, s, n) -> table_lookup (fst (step st op)) c' s' n' = table_lookup st c' s' n').
Proof.
  intros st op r o ine orr Hobj Hni. rewrite (step_create st op r o ine orr Hobj Hni).
  pose proof (create_memory_table_spec st r o ine orr) as H. destruct (resolve r) as [[c s] n].
  destruct (target_outcome st c s); try (rewrite H; cbn; discriminate).
  intros Hok. apply H. exact Hok.
Qed.

Theorem if_not_exists_noop_thm : forall st,
  (forall op r o, ddl_object op = Some (r, o, true, false) -> names_info op = false ->
     let '(c, s, n) := resolve r in table_lookup st c s n <> None -> step st op = (st, Ok))
  /\ (forall r, names_info (CreateSchema r true) = false ->
     let '(c, s) := sresolve r in schema_lookup st c s <> None -> step st (CreateSchema r true) = (st, Ok))
  /\ (forall i, aget (norm i) st <> None -> step st (CreateCatalog i true) = (st, Ok)).
Proof.
  intros st. split; [|split].
  - intros op r o Hobj Hni. rewrite (step_create st op r o true false Hobj Hni).
    unfold create_memory_table. destruct (resolve r) as [[c s] n].
    destruct (table_lookup st c s n); [reflexivity|congruence].
  - intros r Hni. unfold step. rewrite Hni. unfold create_schema, schema_lookup. destruct (sresolve r) as [c s].
    destruct (aget c st) as [cat|]; [|congruence]. destruct (aget s cat); [reflexivity|congruence].
  - intros i H. unfold step. cbn [names_info]. unfold create_catalog.
    destruct (aget (norm i) st); [reflexivity|congruence].
Qed.

Theorem if_exists_noop_thm : forall st k r,
  names_info (drop_op k r true) = false -> has_kind st r k = false -> step st (drop_op k r true) = (st, Ok).
Proof.
  intros st k r Hni Hk.
  assert (step st (drop_op k r true) = drop_object st r k true) as ->.
  { unfold step. rewrite Hni. destruct k; reflexivity. }
  pose proof (drop_object_spec st r k true) as H. destruct (resolve r) as [[c s] n].
  destruct H as (H1 & _ & _ & H4 & _). rewrite Bool.orb_true_r in H1.
  destruct (drop_object st r k true) as [st' out]; cbn in *. rewrite H1, (H4 Hk). reflexivity.
Qed.

Theorem or_replace_replaces_thm : forall st op r o,
  ddl_object op = Some (r, o, false, true) -> names_info op = false ->
  let '(c, s, n) := resolve r in
  target_outcome st c s = Ok ->
  snd (step st op) = Ok
  /\ table_lookup (fst (step st op)) c s n = Some o
  /\ (forall c' s' n', (c', s', n') <> (c, s, n) -> table_lookup (fst (step st op)) c' s' n' = table_lookup st c' s' n').
Proof.
  intros st op r o Hobj Hni. rewrite (step_create st op r o false true Hobj Hni).
  pose proof (create_memory_table_spec st r o false true) as H. destruct (resolve r) as [[c s] n].
  intros Ht. rewrite Ht in H. destruct H as (H1 & H2 & _).
  assert (snd (create_memory_table st r o false true) = Ok) as Hok.
  { rewrite H1. destruct (is_some (table_lookup st c s n)); reflexivity. }
  split; [exact Hok|]. destruct (H2 Hok) as [[Hl | (_ & Hf & _)] Hframe]; [|discriminate]. split; assumption.
Qed.

Theorem drop_then_absent_thm : forall st k r ife,
  names_info (drop_op k r ife) = false -> snd (step st (drop_op k r ife)) = Ok ->
  let '(c, s, n) := resolve r in
  has_kind (fst (step st (drop_op k r ife))) r k = false
  /\ (has_kind st r k = true -> table_lookup (fst (step st (drop_op k r ife))) c s n = None)
  /\ (forall c' s' n', (c', s', n') <> (c, s, n) ->
        table_lookup (fst (step st (drop_op k r ife))) c' s' n' = table_lookup st c' s' n').
Proof.
  intros st k r ife Hni.
  assert (step st (drop_op k r ife) = drop_object st r k ife) as ->.
  { unfold step. rewrite Hni. destruct k; reflexivity. }
  pose proof (drop_object_spec st r k ife) as H. unfold has_kind at 1. destruct (resolve r) as [[c s] n] eqn:Hr.
  destruct H as (_ & _ & H3 & H4 & H5 & _). intros _. split; [|split; assumption].
  destruct (has_kind st r k) eqn:Hk.
  - rewrite (H3 eq_refl). reflexivity.
  - rewrite (H4 eq_refl). unfold has_kind in Hk. rewrite Hr in Hk. exact Hk.
Qed.

Lemma lookup_target_ok : forall (st : state) c s n o, table_lookup st c s n = Some o -> target_outcome st c s = Ok.
Proof.
  intros st c s n o H. apply table_lookup_some in H. destruct H as (cat & sc & Hc & Hs & _).
  unfold target_outcome. rewrite Hc, Hs. reflexivity.
Qed.

Theorem create_drop_create_thm : forall st op1 op2 r o1 o2,
  ddl_object op1 = Some (r, o1, false, false) -> ddl_object op2 = Some (r, o2, false, false) ->
  names_info op1 = false -> names_info op2 = false -> names_info (drop_op (okind o1) r false) = false ->
  let '(c, s, n) := resolve r in
  target_outcome st c s = Ok -> table_lookup st c s n = None ->
  let s1 := step st op1 in
  let s2 := step (fst s1) (drop_op (okind o1) r false) in
  let s3 := step (fst s2) op2 in
  snd s1 = Ok /\ snd s2 = Ok /\ snd s3 = Ok
  /\ table_lookup (fst s3) c s n = Some o2
  /\ (forall c' s' n', (c', s', n') <> (c, s, n) -> table_lookup (fst s3) c' s' n' = table_lookup st c' s' n').
Proof.
  intros st op1 op2 r o1 o2 Hob1 Hob2 Hn1 Hn2 Hn3.
  pose proof (create_effect_thm st op1 r o1 false false Hob1 Hn1) as E1.
  pose proof (ddl_outcome_by_state_thm st op1) as O1.
  remember (step st op1) as s1 eqn:Hs1.
  pose proof (drop_then_absent_thm (fst s1) (okind o1) r false Hn3) as E2.
  pose proof (ddl_outcome_by_state_thm (fst s1) (drop_op (okind o1) r false)) as O2.
  assert (step (fst s1) (drop_op (okind o1) r false) = drop_object (fst s1) r (okind o1) false) as Hd.
  { unfold step. rewrite Hn3. destruct (okind o1); reflexivity. }
  pose proof (drop_object_spec (fst s1) r (okind o1) false) as D2. rewrite <- Hd in D2.
  remember (step (fst s1) (drop_op (okind o1) r false)) as s2 eqn:Hs2.
  pose proof (create_effect_thm (fst s2) op2 r o2 false false Hob2 Hn2) as E3.
  pose proof (create_memory_table_spec (fst s2) r o2 false false) as C3.
  rewrite <- (step_create (fst s2) op2 r o2 false false Hob2 Hn2) in C3.
  pose proof (create_memory_table_spec st r o1 false false) as C1.
  rewrite <- (step_create st op1 r o1 false false Hob1 Hn1), <- Hs1 in C1.
  remember (step (fst s2) op2) as s3 eqn:Hs3.
  unfold has_kind in E2, D2.
  destruct (resolve r) as [[c s] n]. intros Ht Hfree. cbn zeta. rewrite <- Hs2. rewrite <- Hs3.
  rewrite Ht, Hfree in C1. cbn [is_some create_rule] in C1. destruct C1 as (C1a & _ & _).
  specialize (E1 C1a). destruct E1 as [[E1l | (_ & Hf & _)] E1f]; [|discriminate].
  rewrite E1l in D2. assert (kind_eqb (okind o1) (okind o1) = true) as Hkk by (destruct (okind o1); reflexivity).
  rewrite Hkk in D2. destruct D2 as (D2a & _ & D2c & _ & D2f & D2t). cbn [orb] in D2a.
  specialize (E2 D2a). destruct E2 as (_ & _ & E2f).
  specialize (D2c eq_refl).
  rewrite (D2t c s), (lookup_target_ok _ _ _ _ _ E1l), D2c in C3. cbn [is_some create_rule] in C3.
  destruct C3 as (C3a & _ & _).
  specialize (E3 C3a). destruct E3 as [[E3l | (_ & Hf & _)] E3f]; [|discriminate].
  repeat split; auto.
  intros c' s' n' Hne. rewrite (E3f _ _ _ Hne), (E2f _ _ _ Hne). apply E1f; exact Hne.
Qed.

(* ------------------------------------------------------------------ well-formedness is invariant *)
Lemma wf_init : wf init_state.
Proof.
  unfold wf, init_state; cbn. split.
  - constructor; [intros []|constructor].
  - constructor; [|constructor]. cbn. unfold wf_catalog; cbn. split.
    + constructor; [intros []|constructor].
    + constructor; [|constructor]. cbn. constructor.
Qed.

Lemma wf_get_catalog : forall (st : state) c (cat : catalog_t), wf st -> aget c st = Some cat -> wf_catalog cat.
Proof.
  intros st c cat [_ Hf] Hc. apply aget_In in Hc. rewrite Forall_forall in Hf. apply (Hf _ Hc).
Qed.
Lemma wf_get_schema : forall (cat : catalog_t) s (sc : schema_t), wf_catalog cat -> aget s cat = Some sc -> wf_schema sc.
Proof.
  intros cat s sc [_ Hf] Hs. apply aget_In in Hs. rewrite Forall_forall in Hf. apply (Hf _ Hs).
Qed.

Lemma wf_set_catalog : forall (st : state) c (cat : catalog_t), wf st -> wf_catalog cat -> wf (aset c cat st).
Proof.
  intros st c cat [Hnd Hf] Hcat. split; [apply NoDup_aset; exact Hnd|]. apply Forall_aset; assumption.
Qed.
Lemma wf_put_schema : forall (st : state) c (cat : catalog_t) s (X : schema_t),
  wf st -> aget c st = Some cat -> wf_schema X -> wf (put_schema st c cat s X).
Proof.
  intros st c cat s X Hwf Hc HX. unfold put_schema. apply wf_set_catalog; [exact Hwf|].
  destruct (wf_get_catalog st c cat Hwf Hc) as [Hnd Hf]. split; [apply NoDup_aset; exact Hnd|].
  apply Forall_aset; assumption.
Qed.

Lemma wf_register : forall st c s n o, wf st -> wf (fst (register_table st c s n o)).
Proof.
  intros st c s n o Hwf. unfold register_table.
  destruct (aget c st) as [cat|] eqn:Hc; [|exact Hwf].
  destruct (aget s cat) as [sc|] eqn:Hs; [|exact Hwf].
  destruct (aget n sc); [exact Hwf|]. cbn [fst].
  apply wf_put_schema; [assumption|assumption|].
  apply NoDup_aset. exact (wf_get_schema cat s sc (wf_get_catalog st c cat Hwf Hc) Hs).
Qed.
Lemma wf_deregister : forall st c s n, wf st -> wf (deregister_table st c s n).
Proof.
  intros st c s n Hwf. unfold deregister_table.
  destruct (aget c st) as [cat|] eqn:Hc; [|exact Hwf].
  destruct (aget s cat) as [sc|] eqn:Hs; [|exact Hwf].
  apply wf_put_schema; [assumption|assumption|].
  apply NoDup_aremove. exact (wf_get_schema cat s sc (wf_get_catalog st c cat Hwf Hc) Hs).
Qed.
Lemma wf_create_memory_table : forall st r o ine orr, wf st -> wf (fst (create_memory_table st r o ine orr)).
Proof.
  intros st r o ine orr Hwf. unfold create_memory_table. destruct (resolve r) as [[c s] n].
  destruct (table_lookup st c s n), ine, orr; cbn [fst]; auto using wf_register, wf_deregister.
Qed.
Lemma wf_drop_object : forall st r k ife, wf st -> wf (fst (drop_object st r k ife)).
Proof.
  intros st r k ife Hwf. unfold drop_object, find_and_deregister. destruct (resolve r) as [[c s] n].
  destruct (aget c st) as [cat|] eqn:Hc; [|destruct ife; exact Hwf].
  destruct (aget s cat) as [sc|] eqn:Hs; [|destruct ife; exact Hwf].
  destruct (aget n sc) as [o|]; [|destruct ife; exact Hwf].
  destruct (kind_eqb (okind o) k); [|destruct ife; exact Hwf]. cbn [fst].
  apply wf_put_schema; [assumption|assumption|].
  apply NoDup_aremove. exact (wf_get_schema cat s sc (wf_get_catalog st c cat Hwf Hc) Hs).
Qed.
Lemma wf_create_schema : forall st r ine, wf st -> wf (fst (create_schema st r ine)).
Proof.
  intros st r ine Hwf. unfold create_schema. destruct (sresolve r) as [c s].
  destruct (aget c st) as [cat|] eqn:Hc; [|exact Hwf].
  destruct ine, (aget s cat); cbn [fst]; try exact Hwf; (apply wf_put_schema; [assumption|assumption|constructor]).
Qed.
Lemma wf_drop_schema : forall st r ife cascade, wf st -> wf (fst (drop_schema st r ife cascade)).
Proof.
  intros st r ife cascade Hwf. unfold drop_schema. destruct (sresolve r) as [c s].
  destruct (aget c st) as [cat|] eqn:Hc; [|destruct ife; exact Hwf].
  destruct (aget s cat) as [sc|] eqn:Hs; [|destruct ife; exact Hwf].
  assert (wf (aset c (aremove s cat) st)) as Hgo.
  { apply wf_set_catalog; [exact Hwf|]. destruct (wf_get_catalog st c cat Hwf Hc) as [Hnd Hf].
    split; [apply NoDup_aremove; exact Hnd|apply Forall_aremove; exact Hf]. }
  destruct sc; [|destruct cascade]; cbn [fst]; assumption.
Qed.
Lemma wf_create_catalog : forall st i ine, wf st -> wf (fst (create_catalog st i ine)).
Proof.
  intros st i ine Hwf. unfold create_catalog.
  destruct ine, (aget (norm i) st); cbn [fst]; try exact Hwf;
    (apply wf_set_catalog; [exact Hwf|split; [constructor|constructor]]).
Qed.

Lemma wf_step : forall st op, wf st -> wf (fst (step st op)).
Proof.
  intros st op Hwf. unfold step. destruct (names_info op); [exact Hwf|].
  destruct op; auto using wf_create_memory_table, wf_drop_object, wf_create_schema, wf_drop_schema, wf_create_catalog.
  rewrite create_view_as_table. apply wf_create_memory_table; exact Hwf.
Qed.

Lemma wf_run_from : forall h st, wf st -> wf (run st h).
Proof.
  induction h as [|op h IH]; intros st Hwf; cbn; [exact Hwf|]. apply IH. apply wf_step; exact Hwf.
Qed.
Theorem wf_run : forall h, wf (run init_state h).
Proof. intros; apply wf_run_from, wf_init. Qed.

(* ------------------------------------------------------------------ information_schema lists exactly the state *)
Lemma wf_in_lookup : forall (st : state), wf st -> forall c (cat : catalog_t) s (sc : schema_t) n o,
  In (c, cat) st -> In (s, sc) cat -> In (n, o) sc -> table_lookup st c s n = Some o.
Proof.
  intros st Hwf c cat s sc n o Hc Hs Hn. unfold table_lookup.
  assert (aget c st = Some cat) as Hc' by (apply In_aget; [apply Hwf|exact Hc]). rewrite Hc'.
  pose proof (wf_get_catalog st c cat Hwf Hc') as Hcat.
  assert (aget s cat = Some sc) as Hs' by (apply In_aget; [apply Hcat|exact Hs]). rewrite Hs'.
  apply In_aget; [exact (wf_get_schema cat s sc Hcat Hs')|exact Hn].
Qed.
Lemma lookup_in : forall (st : state) c s n o, table_lookup st c s n = Some o ->
  exists (cat : catalog_t) (sc : schema_t), In (c, cat) st /\ In (s, sc) cat /\ In (n, o) sc.
Proof.
  intros st c s n o H. apply table_lookup_some in H. destruct H as (cat & sc & Hc & Hs & Hn).
  exists cat, sc. repeat split; apply aget_In; assumption.
Qed.
Lemma is_info_false : forall s, is_info s = false <-> s <> info_schema.
Proof. intros; unfold is_info; apply teqb_neq. Qed.

Theorem info_tables_exact : forall st, wf st -> forall c s n k,
  In (c, s, n, k) (info_tables st) <->
  ((exists o, table_lookup st c s n = Some o /\ okind o = k) /\ s <> info_schema)
  \/ (catalog_exists st c /\ s = info_schema /\ In n info_table_names /\ k = KView).
Proof.
  intros st Hwf c s n k. unfold info_tables. rewrite in_flat_map. split.
  - intros [[c0 cat] [Hin H]]. cbn [fst snd] in H. apply in_app_iff in H. destruct H as [H|H].
    + apply in_flat_map in H. destruct H as [[s0 sc] [Hs H]]. cbn [fst snd] in H.
      destruct (is_info s0) eqn:Ei; [destruct H|]. apply in_map_iff in H. destruct H as [[n0 o] [Heq Ho]].
      cbn in Heq. inversion Heq; subst. left. split; [|apply is_info_false; exact Ei].
      exists o. split; [|reflexivity]. eapply wf_in_lookup; eauto.
    + apply in_map_iff in H. destruct H as [t [Heq Ht]]. inversion Heq; subst. right.
      repeat split; auto. unfold catalog_exists. rewrite (In_aget st c cat); [discriminate|apply Hwf|exact Hin].
  - intros [[(o & Hl & Hk) Hs] | (Hc & Hs & Hn & Hk)].
    + apply lookup_in in Hl. destruct Hl as (cat & sc & Hc & Hsc & Ho).
      exists (c, cat). split; [exact Hc|]. cbn [fst snd]. apply in_app_iff; left. apply in_flat_map.
      exists (s, sc). split; [exact Hsc|]. cbn [fst snd]. apply is_info_false in Hs. rewrite Hs.
      apply in_map_iff. exists (n, o). cbn. subst; auto.
    + unfold catalog_exists in Hc. destruct (aget c st) as [cat|] eqn:Hg; [|congruence]. apply aget_In in Hg.
      exists (c, cat). split; [exact Hg|]. cbn [fst snd]. apply in_app_iff; right. apply in_map_iff. exists n. subst; auto.
Qed.

Theorem info_schemata_exact : forall st, wf st -> forall c s,
  In (c, s) (info_schemata st) <-> schema_exists st c s /\ s <> info_schema.
Proof.
  intros st Hwf c s. unfold info_schemata, schema_exists, schema_lookup. rewrite in_flat_map. split.
  - intros [[c0 cat] [Hin H]]. cbn [fst snd] in H. apply in_flat_map in H. destruct H as [[s0 sc] [Hs H]].
    cbn [fst snd] in H. destruct (is_info s0) eqn:Ei; [destruct H|]. destruct H as [H|[]]. inversion H; subst.
    split; [|apply is_info_false; exact Ei].
    assert (aget c st = Some cat) as Hc' by (apply In_aget; [apply Hwf|exact Hin]). rewrite Hc'.
    rewrite (In_aget cat s sc); [discriminate|apply (wf_get_catalog st c cat Hwf Hc')|exact Hs].
  - intros [He Hs]. destruct (aget c st) as [cat|] eqn:Hc; [|congruence].
    destruct (aget s cat) as [sc|] eqn:Hsc; [|congruence].
    exists (c, cat). split; [apply aget_In; exact Hc|]. cbn [fst snd]. apply in_flat_map.
    exists (s, sc). split; [apply aget_In; exact Hsc|]. cbn [fst snd]. apply is_info_false in Hs. rewrite Hs. left; reflexivity.
Qed.

Theorem info_views_exact : forall st, wf st -> forall c s n d,
  In (c, s, n, d) (info_views st) <-> (exists o, table_lookup st c s n = Some o /\ odef o = d) /\ s <> info_schema.
Proof.
  intros st Hwf c s n d. unfold info_views. rewrite in_flat_map. split.
  - intros [[c0 cat] [Hin H]]. cbn [fst snd] in H.
    apply in_flat_map in H. destruct H as [[s0 sc] [Hs H]]. cbn [fst snd] in H.
    destruct (is_info s0) eqn:Ei; [destruct H|]. apply in_map_iff in H. destruct H as [[n0 o] [Heq Ho]].
    cbn in Heq. inversion Heq; subst. split; [|apply is_info_false; exact Ei].
    exists o. split; [|reflexivity]. eapply wf_in_lookup; eauto.
  - intros [(o & Hl & Hk) Hs].
    apply lookup_in in Hl. destruct Hl as (cat & sc & Hc & Hsc & Ho).
    exists (c, cat). split; [exact Hc|]. cbn [fst snd]. apply in_flat_map.
    exists (s, sc). split; [exact Hsc|]. cbn [fst snd]. apply is_info_false in Hs. rewrite Hs.
    apply in_map_iff. exists (n, o). cbn. subst; auto.
Qed.

Theorem info_columns_exact : forall st, wf st -> forall c s n ci,
  In (c, s, n, ci) (info_columns st) <->
  (exists o, table_lookup st c s n = Some o /\ In ci (number_cols 0 (ocols o))) /\ s <> info_schema.
Proof.
  intros st Hwf c s n ci. unfold info_columns. rewrite in_flat_map. split.
  - intros [[c0 cat] [Hin H]]. cbn [fst snd] in H.
    apply in_flat_map in H. destruct H as [[s0 sc] [Hs H]]. cbn [fst snd] in H.
    destruct (is_info s0) eqn:Ei; [destruct H|]. apply in_flat_map in H. destruct H as [[n0 o] [Ho H]].
    cbn [fst snd] in H. apply in_map_iff in H. destruct H as [ci0 [Heq Hci]]. inversion Heq; subst.
    split; [|apply is_info_false; exact Ei].
    exists o. split; [|exact Hci]. eapply wf_in_lookup; eauto.
  - intros [(o & Hl & Hci) Hs].
    apply lookup_in in Hl. destruct Hl as (cat & sc & Hc & Hsc & Ho).
    exists (c, cat). split; [exact Hc|]. cbn [fst snd]. apply in_flat_map.
    exists (s, sc). split; [exact Hsc|]. cbn [fst snd]. apply is_info_false in Hs. rewrite Hs.
    apply in_flat_map. exists (n, o). split; [exact Ho|]. cbn [fst snd]. apply in_map_iff. exists ci. auto.
Qed.

(* ordinal positions are 0,1,2,... in schema order *)
Lemma number_cols_spec : forall cs i x, In x (number_cols i cs) <->
  exists j c, nth_error cs j = Some c /\ x = (cname c, i + Z.of_nat j, cnull c, ctype c).
Proof.
  induction cs as [|c0 cs IH]; intros i x; cbn [number_cols].
  - split; [intros []|]. intros (j & c & H & _). destruct j; discriminate.
  - split.
    + intros [H|H].
      * exists 0%nat, c0. cbn. split; [reflexivity|]. rewrite Z.add_0_r. auto.
      * apply IH in H. destruct H as (j & c & Hj & Hx). exists (S j), c. cbn [nth_error]. split; [exact Hj|].
        rewrite Hx. replace (i + 1 + Z.of_nat j) with (i + Z.of_nat (S j)) by lia. reflexivity.
    + intros (j & c & Hj & Hx). destruct j as [|j]; cbn [nth_error] in Hj.
      * inversion Hj; subst. left. rewrite Z.add_0_r. reflexivity.
      * right. apply IH. exists j, c. split; [exact Hj|]. rewrite Hx. replace (i + 1 + Z.of_nat j) with (i + Z.of_nat (S j)) by lia. reflexivity.
Qed.

(* over arbitrary DDL histories *)
Theorem info_schema_lists_exactly_thm : forall h c s n k,
  let st := run init_state h in
  In (c, s, n, k) (info_tables st) <->
  ((exists o, table_lookup st c s n = Some o /\ okind o = k) /\ s <> info_schema)
  \/ (catalog_exists st c /\ s = info_schema /\ In n info_table_names /\ k = KView).
Proof. intros h c s n k st. apply info_tables_exact. apply wf_run. Qed.

Theorem info_schema_details_exact_thm : forall h,
  let st := run init_state h in
  (forall c s, In (c, s) (info_schemata st) <-> schema_exists st c s /\ s <> info_schema)
  /\ (forall c s n d, In (c, s, n, d) (info_views st) <-> (exists o, table_lookup st c s n = Some o /\ odef o = d) /\ s <> info_schema)
  /\ (forall c s n ci, In (c, s, n, ci) (info_columns st) <->
        (exists o, table_lookup st c s n = Some o /\ In ci (number_cols 0 (ocols o))) /\ s <> info_schema).
Proof.
  intros h st. pose proof (wf_run h) as Hwf. split; [|split].
  - apply info_schemata_exact; exact Hwf.
  - apply info_views_exact; exact Hwf.
  - apply info_columns_exact; exact Hwf.
Qed.

(* the faithful model violates "views lists exactly the views": a base table is listed (with no definition) *)
Theorem info_views_lists_base_table_refuted_thm :
  exists h c s n o, let st := run init_state h in
    In (c, s, n, None) (info_views st) /\ table_lookup st c s n = Some o /\ okind o = KTable.
Proof.
  exists [CreateTable (Bare (Id false "t"%string)) [(Id false "a"%string, TyInt)] false false].
  exists default_catalog, default_schema, "t"%string, (table_obj [(Id false "a"%string, TyInt)]).
  vm_compute. repeat split; auto.
Qed.
