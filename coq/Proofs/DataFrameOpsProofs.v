(* C48 proofs: the translation of the name-based DataFrame operations into the reference algebra means what the
   DataFrame API documents (by-name alignment with NULL fill, replace-or-append, drop by reference, first row per key). *)
From Coq Require Import List ZArith Bool Lia Permutation.
From DF Require Import Base.Prelude Model.RefSQL Proofs.RefSQLLaws Model.DataFrameOps.
Import ListNotations.
Open Scope Z_scope.

(* ------------------------------------------------------------------ helpers *)
Lemma mapM_all_ok : forall {A B} (f : A -> res B) (g : A -> B) l,
  (forall x, In x l -> f x = Ok (g x)) -> mapM f l = Ok (map g l).
Proof.
  intros A B f g l H. induction l as [|x l IH]; [reflexivity|]. cbn [mapM map].
  rewrite (H x (or_introl eq_refl)). cbn [bind]. rewrite IH; [reflexivity|]. intros y Hy. apply H. right. exact Hy.
Qed.

Lemma index_of_lt : forall c l i, index_of c l = Some i -> (i < length l)%nat.
Proof.
  intros c l. induction l as [|x l IH]; intros i H; cbn [index_of] in H; [discriminate|].
  destruct (x =? c); [inversion H; cbn; lia|]. destruct (index_of c l) as [j|]; [|discriminate].
  inversion H; subst. specialize (IH j eq_refl). cbn [length]. lia.
Qed.
Lemma index_of_nth : forall c l i d, index_of c l = Some i -> nth i l d = c.
Proof.
  intros c l. induction l as [|x l IH]; intros i d H; cbn [index_of] in H; [discriminate|].
  destruct (x =? c) eqn:E; [inversion H; subst; apply Z.eqb_eq in E; exact E|].
  destruct (index_of c l) as [j|]; [|discriminate]. inversion H; subst. cbn [nth]. apply IH. reflexivity.
Qed.
Lemma index_of_none : forall c l, index_of c l = None <-> ~ In c l.
Proof.
  intros c l. induction l as [|x l IH]; cbn [index_of In]; [tauto|].
  destruct (x =? c) eqn:E.
  - apply Z.eqb_eq in E. split; [discriminate | intros H; exfalso; apply H; left; exact E].
  - apply Z.eqb_neq in E. destruct (index_of c l) as [j|].
    + split; [discriminate|]. intros H. exfalso. apply H. right.
      destruct (in_dec Z.eq_dec c l) as [Hi|Hn]; [exact Hi|]. apply IH in Hn. discriminate.
    + split; [|reflexivity]. intros _ [Hx|Hi]; [exact (E Hx)|]. exact (proj1 IH eq_refl Hi).
Qed.

Lemma eval_col : forall f d en (r : row) i, (i < length r)%nat ->
  eval_expr (S f) d (r :: en) (col i) = Ok (nth i r VNull).
Proof.
  intros f d en r i H. unfold col. cbn [eval_expr]. unfold lookup. cbn [Z.to_nat nth_error].
  rewrite Nat2Z.id. rewrite (nth_error_nth' r VNull H). reflexivity.
Qed.

(* ------------------------------------------------------------------ union_by_name *)
Lemma eval_ubn_exprs : forall f d en out s (r : row), length r = length s ->
  mapM (eval_expr (S f) d (r :: en)) (ubn_exprs out s) = Ok (align out s r).
Proof.
  intros f d en out s r Hl. unfold ubn_exprs, align. induction out as [|c out IH]; [reflexivity|].
  cbn [map mapM]. rewrite IH. destruct (index_of c s) as [i|] eqn:E.
  - rewrite eval_col by (rewrite Hl; eapply index_of_lt; eauto). reflexivity.
  - reflexivity.
Qed.

Lemma eval_setop_step : forall f d en op all l r,
  eval_query (S f) d en (QSetOp op all l r) = (L <- eval_query f d en l;; R <- eval_query f d en r;; Ok (set_op op all L R)).
Proof. reflexivity. Qed.
Lemma eval_project_step : forall f d en es q,
  eval_query (S f) d en (QProject es q) = (R <- eval_query f d en q;; mapM (fun r => mapM (eval_expr f d (r :: en)) es) R).
Proof. reflexivity. Qed.

(* the translation of union_by_name evaluates to: both inputs re-arranged BY NAME onto the output columns (a missing
   column is NULL), then UNION [ALL] *)
Theorem union_by_name_spec : forall f d en all sl sr ql qr L R,
  eval_query (S f) d en ql = Ok L -> eval_query (S f) d en qr = Ok R ->
  (forall r, In r L -> length r = length sl) -> (forall r, In r R -> length r = length sr) ->
  eval_query (S (S (S f))) d en (ubn_query all sl sr ql qr)
  = Ok (set_op SUnion all (map (align (ubn_names sl sr) sl) L) (map (align (ubn_names sl sr) sr) R)).
Proof.
  intros f d en all sl sr ql qr L R HL HR HlL HlR. unfold ubn_query.
  rewrite eval_setop_step, !eval_project_step, HL, HR. cbn [bind].
  rewrite (mapM_all_ok _ (align (ubn_names sl sr) sl) L) by (intros r Hr; apply eval_ubn_exprs; apply HlL; exact Hr).
  cbn [bind].
  rewrite (mapM_all_ok _ (align (ubn_names sl sr) sr) R) by (intros r Hr; apply eval_ubn_exprs; apply HlR; exact Hr).
  reflexivity.
Qed.

(* the output column named c carries the input's column named c -- NULL when the input has no such column *)
Theorem align_by_name : forall out s r c, In c out ->
  get_named out (align out s r) c = get_named s r c.
Proof.
  intros out s r c. unfold get_named at 1, align. induction out as [|x out IH]; intros Hin; [destruct Hin|].
  cbn [index_of map]. destruct (x =? c) eqn:E.
  - apply Z.eqb_eq in E. subst x. reflexivity.
  - apply Z.eqb_neq in E. destruct Hin as [Hx|Hin]; [contradiction|]. specialize (IH Hin).
    destruct (index_of c out) as [i|] eqn:Ei; [exact IH|].
    exfalso. apply (proj1 (index_of_none c out) Ei). exact Hin.
Qed.
Theorem align_missing_is_null : forall s r c, ~ In c s -> get_named s r c = VNull.
Proof. intros s r c H. unfold get_named. rewrite (proj2 (index_of_none c s) H). reflexivity. Qed.

Lemma zmem_In : forall c l, zmem c l = true <-> In c l.
Proof.
  intros c l. unfold zmem. rewrite existsb_exists. split.
  - intros [x [Hx E]]. apply Z.eqb_eq in E. subst. exact Hx.
  - intros H. exists c. split; [exact H | apply Z.eqb_refl].
Qed.
Lemma new_names_In : forall l seen c, In c (new_names seen l) <-> In c l /\ ~ In c seen.
Proof.
  induction l as [|x l IH]; intros seen c; cbn [new_names In]; [tauto|].
  destruct (zmem x seen) eqn:E.
  - apply zmem_In in E. rewrite IH. split; [tauto|]. intros [[Hx|Hl] Hn]; [subst; contradiction | tauto].
  - assert (Hx : ~ In x seen) by (intros H; apply zmem_In in H; congruence).
    cbn [In]. rewrite IH. cbn [In]. split.
    + intros [H|[H1 H2]]; [subst; tauto | tauto].
    + intros [[H|H] Hn]; [tauto|]. destruct (Z.eq_dec x c); [tauto|]. right. tauto.
Qed.
Lemma new_names_NoDup : forall l seen, NoDup (new_names seen l).
Proof.
  induction l as [|x l IH]; intros seen; cbn [new_names]; [constructor|].
  destruct (zmem x seen); [apply IH|]. constructor; [|apply IH].
  rewrite new_names_In. cbn [In]. tauto.
Qed.
(* the output columns: every name of either input, once *)
Theorem ubn_names_spec : forall sl sr,
  NoDup (ubn_names sl sr) /\ (forall c, In c (ubn_names sl sr) <-> In c sl \/ In c sr).
Proof.
  intros sl sr. unfold ubn_names. split; [apply new_names_NoDup|]. intros c. rewrite new_names_In, in_app_iff. cbn [In]. tauto.
Qed.
(* ... the left input's columns first, in their order *)
Lemma new_names_prefix : forall a b seen, NoDup a -> (forall c, In c a -> ~ In c seen) ->
  exists seen', new_names seen (a ++ b) = a ++ new_names seen' b.
Proof.
  induction a as [|x a IH]; intros b seen Hnd Hdis; [exists seen; reflexivity|].
  cbn [app new_names]. destruct (zmem x seen) eqn:E.
  - apply zmem_In in E. exfalso. exact (Hdis x (or_introl eq_refl) E).
  - inversion Hnd as [|? ? Hx Hnd']; subst.
    destruct (IH b (x :: seen) Hnd') as [seen' Hs].
    + intros c Hc [Hcx|Hcs]; [subst; contradiction | exact (Hdis c (or_intror Hc) Hcs)].
    + exists seen'. rewrite Hs. reflexivity.
Qed.
Theorem ubn_names_left_first : forall sl sr, NoDup sl -> exists rest, ubn_names sl sr = sl ++ rest.
Proof.
  intros sl sr H. unfold ubn_names. destruct (new_names_prefix sl sr [] H) as [seen' Hs]; [intros c _ []|].
  exists (new_names seen' sr). exact Hs.
Qed.

(* ------------------------------------------------------------------ with_column *)
Lemma wc_eval_from : forall f d en s nm e v (p r : row),
  length r = length s -> eval_expr (S f) d ((p ++ r) :: en) e = Ok v ->
  mapM (eval_expr (S f) d ((p ++ r) :: en)) (wc_exprs_from (length p) s nm e) = Ok (wc_row s nm v r).
Proof.
  intros f d en s nm e v. induction s as [|c s IH]; intros p r Hl He.
  - destruct r; [reflexivity | discriminate].
  - destruct r as [|x r]; [discriminate|]. cbn [wc_exprs_from wc_row mapM].
    assert (Hx : eval_expr (S f) d ((p ++ x :: r) :: en) (if wc_hit nm c then e else col (length p))
                 = Ok (if wc_hit nm c then v else x)).
    { destruct (wc_hit nm c); [exact He|]. rewrite eval_col by (rewrite app_length; cbn [length]; lia).
      rewrite app_nth2 by lia. rewrite Nat.sub_diag. reflexivity. }
    rewrite Hx. cbn [bind].
    replace (p ++ x :: r) with ((p ++ [x]) ++ r) in * by (rewrite <- app_assoc; reflexivity).
    replace (S (length p)) with (length (p ++ [x])) by (rewrite app_length; cbn [length]; lia).
    rewrite (IH (p ++ [x]) r) by (try (cbn [length] in Hl; lia); exact He). reflexivity.
Qed.

(* the projection built for with_column(nm, e) evaluates, on a row laid out by s, to the row in which the value of e
   replaces every column named nm, or is appended when there is none *)
Theorem with_column_eval : forall f d en s nm e v (r : row),
  length r = length s -> eval_expr (S f) d (r :: en) e = Ok v ->
  mapM (eval_expr (S f) d (r :: en)) (wc_exprs s nm e) = Ok (wc_row_full s nm v r).
Proof.
  intros f d en s nm e v r Hl He. unfold wc_exprs, wc_row_full.
  pose proof (wc_eval_from f d en s nm e v [] r Hl He) as H. cbn [app length] in H.
  assert (Happ : forall (a b : list expr) x y, mapM (eval_expr (S f) d (r :: en)) a = Ok x ->
                   mapM (eval_expr (S f) d (r :: en)) b = Ok y -> mapM (eval_expr (S f) d (r :: en)) (a ++ b) = Ok (x ++ y)).
  { induction a as [|a0 a IH]; intros b x y Ha Hb; cbn [mapM app] in *.
    - inversion Ha; subst. exact Hb.
    - destruct (eval_expr (S f) d (r :: en) a0); [|discriminate]. cbn [bind] in *.
      destruct (mapM (eval_expr (S f) d (r :: en)) a) as [xs|] eqn:E; [|discriminate]. cbn [bind] in *.
      inversion Ha; subst. rewrite (IH b xs y eq_refl Hb). reflexivity. }
  apply Happ; [exact H|]. destruct (existsb (wc_hit nm) s); [reflexivity|]. cbn [mapM]. rewrite He. reflexivity.
Qed.

Lemma wc_row_id : forall s nm v r, existsb (wc_hit nm) s = false -> length r = length s -> wc_row s nm v r = r.
Proof.
  induction s as [|c s IH]; intros nm v r H Hl; destruct r as [|x r]; try discriminate; [reflexivity|].
  cbn [existsb] in H. apply orb_false_iff in H. destruct H as [H1 H2]. cbn [wc_row]. rewrite H1.
  rewrite IH; [reflexivity | exact H2 | cbn [length] in Hl; lia].
Qed.
Theorem with_column_appends : forall s nm v r, existsb (wc_hit nm) s = false -> length r = length s ->
  wc_row_full s nm v r = r ++ [v] /\ wc_schema s nm = s ++ [(None, nm)].
Proof.
  intros s nm v r H Hl. unfold wc_row_full, wc_schema. rewrite H. split.
  - rewrite wc_row_id by assumption. reflexivity.
  - f_equal. clear Hl. induction s as [|c s IH]; [reflexivity|]. cbn [existsb] in H. apply orb_false_iff in H.
    destruct H as [H1 H2]. cbn [map]. rewrite H1, IH by exact H2. reflexivity.
Qed.
Theorem with_column_replaces : forall s nm v r, existsb (wc_hit nm) s = true -> length r = length s ->
  length (wc_row_full s nm v r) = length r /\ length (wc_schema s nm) = length s /\
  forall i c x, nth_error s i = Some c -> nth_error r i = Some x ->
    nth_error (wc_row_full s nm v r) i = Some (if snd c =? nm then v else x) /\
    nth_error (wc_schema s nm) i = Some (if snd c =? nm then (None, nm) else c).
Proof.
  intros s nm v r H Hl. unfold wc_row_full, wc_schema. rewrite H, !app_nil_r. clear H.
  split; [|split].
  - revert r Hl. induction s as [|c s IH]; intros [|x r] Hl; try discriminate; [reflexivity|].
    cbn [wc_row length]. rewrite IH by (cbn [length] in Hl; lia). reflexivity.
  - apply map_length.
  - revert r Hl. induction s as [|c s IH]; intros [|x r] Hl i c0 x0 Hs Hr; try discriminate; destruct i; try discriminate.
    + cbn [nth_error] in *. inversion Hs; inversion Hr; subst. cbn [wc_row map nth_error]. unfold wc_hit. split; reflexivity.
    + cbn [nth_error wc_row map] in *. apply IH; [cbn [length] in Hl; lia | exact Hs | exact Hr].
Qed.

(* ------------------------------------------------------------------ drop_columns *)
Lemma drop_eval_from : forall f d en s cs (p r : row), length r = length s ->
  mapM (eval_expr (S f) d ((p ++ r) :: en)) (map col (positions_from (length p) (fun c => negb (dropped cs c)) s))
  = Ok (drop_row s cs r).
Proof.
  intros f d en s cs. induction s as [|c s IH]; intros p r Hl.
  - destruct r; [reflexivity | discriminate].
  - destruct r as [|x r]; [discriminate|]. cbn [positions_from drop_row].
    assert (Hrest : mapM (eval_expr (S f) d ((p ++ x :: r) :: en))
                      (map col (positions_from (S (length p)) (fun c0 => negb (dropped cs c0)) s)) = Ok (drop_row s cs r)).
    { replace (p ++ x :: r) with ((p ++ [x]) ++ r) by (rewrite <- app_assoc; reflexivity).
      replace (S (length p)) with (length (p ++ [x])) by (rewrite app_length; cbn [length]; lia).
      apply IH. cbn [length] in Hl. lia. }
    destruct (dropped cs c); cbn [negb app map mapM].
    + exact Hrest.
    + rewrite eval_col by (rewrite app_length; cbn [length]; lia).
      rewrite app_nth2 by lia. rewrite Nat.sub_diag. cbn [nth bind]. rewrite Hrest. reflexivity.
Qed.
(* the projection built for drop_columns evaluates to the row without the dropped columns ... *)
Theorem drop_columns_eval : forall f d en s cs (r : row), length r = length s ->
  mapM (eval_expr (S f) d (r :: en)) (drop_exprs s cs) = Ok (drop_row s cs r).
Proof. intros f d en s cs r Hl. exact (drop_eval_from f d en s cs [] r Hl). Qed.
(* ... a column survives iff no reference matches it (an unqualified reference matches every column of that name) *)
Theorem drop_columns_spec : forall s cs c,
  In c (drop_schema s cs) <-> In c s /\ forall x, In x cs -> ref_matches x c = false.
Proof.
  intros s cs c. unfold drop_schema. rewrite filter_In. unfold dropped. split; intros [H1 H2]; split; try exact H1.
  - intros x Hx. apply negb_true_iff in H2. destruct (ref_matches x c) eqn:E; [|reflexivity].
    assert (existsb (fun x0 => ref_matches x0 c) cs = true) by (apply existsb_exists; exists x; tauto). congruence.
  - apply negb_true_iff. destruct (existsb (fun x => ref_matches x c) cs) eqn:E; [|reflexivity].
    apply existsb_exists in E. destruct E as [x [Hx E]]. rewrite (H2 x Hx) in E. discriminate.
Qed.
Theorem drop_columns_aligned : forall s cs r, length r = length s -> length (drop_row s cs r) = length (drop_schema s cs).
Proof.
  induction s as [|c s IH]; intros cs [|x r] Hl; try discriminate; [reflexivity|].
  cbn [drop_row drop_schema filter]. fold (drop_schema s cs).
  destruct (dropped cs c); cbn [negb length]; rewrite IH by (cbn [length] in Hl; lia); reflexivity.
Qed.
Theorem unqualified_drop_removes_every_column_of_that_name : forall s nm c,
  In c (drop_schema s [(None, nm)]) <-> In c s /\ snd c <> nm.
Proof.
  intros s nm c. rewrite drop_columns_spec. split; intros [H1 H2]; split; try exact H1.
  - specialize (H2 (None, nm) (or_introl eq_refl)). unfold ref_matches in H2. cbn [fst snd] in H2.
    rewrite andb_true_r in H2. apply Z.eqb_neq in H2. congruence.
  - intros x [Hx|[]]. subst x. unfold ref_matches. cbn [fst snd]. rewrite andb_true_r. apply Z.eqb_neq. congruence.
Qed.

(* ------------------------------------------------------------------ distinct_on *)
Section DistinctOnSpec.
  Context (keyf : row -> row) (leb : row -> row -> bool).
  Hypothesis leb_trans : forall a b c, leb a b = true -> leb b c = true -> leb a c = true.
  Hypothesis leb_total : forall a b, leb a b = false -> leb b a = true.

  Lemma leb_refl : forall a, leb a a = true.
  Proof. intros a. destruct (leb a a) eqn:E; [reflexivity|]. pose proof (leb_total a a E) as H. congruence. Qed.

  Lemma least_in : forall l x, In (least leb x l) (x :: l).
  Proof.
    induction l as [|y l IH]; intros x; cbn [least fold_left]; [left; reflexivity|].
    fold (least leb (if leb x y then x else y) l).
    destruct (IH (if leb x y then x else y)) as [H|H]; [|right; right; exact H].
    rewrite <- H. destruct (leb x y); [left | right; left]; reflexivity.
  Qed.
  Lemma least_le : forall l x r, In r (x :: l) -> leb (least leb x l) r = true.
  Proof.
    induction l as [|y l IH]; intros x r Hr; cbn [least fold_left].
    - destruct Hr as [->|[]]. apply leb_refl.
    - fold (least leb (if leb x y then x else y) l). set (m := if leb x y then x else y).
      assert (Hmx : leb m x = true) by (unfold m; destruct (leb x y) eqn:E; [apply leb_refl | apply leb_total; exact E]).
      assert (Hmy : leb m y = true) by (unfold m; destruct (leb x y) eqn:E; [exact E | apply leb_refl]).
      assert (Hm : leb (least leb m l) m = true) by (apply IH; left; reflexivity).
      destruct Hr as [->|[->|Hr]].
      + exact (leb_trans _ _ _ Hm Hmx).
      + exact (leb_trans _ _ _ Hm Hmy).
      + apply IH. right. exact Hr.
  Qed.

  (* DISTINCT ON: every output row is a row of the input; every input row is represented by an output row with the
     same key that is not after it in the order (the FIRST row of its key); there is exactly one output row per key *)
  Theorem distinct_on_spec : forall R,
    (forall o, In o (distinct_on_rel keyf leb R) -> In o R) /\
    (forall r, In r R -> exists o, In o (distinct_on_rel keyf leb R) /\ keyf o = keyf r /\ leb o r = true) /\
    NoDup (map keyf (distinct_on_rel keyf leb R)).
  Proof.
    intros R. unfold distinct_on_rel. set (l := map (fun r => (keyf r, r)) R).
    assert (Hmem : forall g x, In g (group_pairs l) -> In x (snd g) -> In x R /\ keyf x = fst g).
    { intros g x Hg Hx. pose proof (group_member_key l g x Hg Hx) as H. unfold l in H. apply in_map_iff in H.
      destruct H as [r [E Hr]]. inversion E; subst. split; [exact Hr | reflexivity]. }
    assert (Hne : forall g, In g (group_pairs l) -> snd g <> []).
    { intros g Hg. pose proof (group_nonempty l) as H. rewrite Forall_forall in H. exact (H g Hg). }
    split; [|split].
    - intros o Ho. apply in_map_iff in Ho. destruct Ho as [g [Eo Hg]]. subst o.
      destruct g as [k [|x xs]]; [exfalso; exact (Hne _ Hg eq_refl)|]. cbn [fst snd].
      apply (Hmem _ _ Hg). cbn [snd]. apply least_in.
    - intros r Hr. assert (Hin : In (keyf r, r) l) by (unfold l; apply in_map_iff; exists r; tauto).
      destruct (group_complete l (keyf r) r Hin) as [g [Hg [Hk Hx]]].
      destruct g as [k [|x xs]]; [destruct Hx|]. cbn [fst snd] in *.
      exists (least leb x xs). split; [|split].
      + apply in_map_iff. exists (k, x :: xs). split; [reflexivity | exact Hg].
      + destruct (Hmem _ (least leb x xs) Hg) as [_ Hkk]; [cbn [snd]; apply least_in|]. cbn [fst] in Hkk. rewrite Hkk. exact Hk.
      + apply least_le. exact Hx.
    - assert (Hkeys : map keyf (map (fun g : row * rel => match snd g with [] => fst g | x :: l0 => least leb x l0 end) (group_pairs l))
                      = map fst (group_pairs l)).
      { rewrite map_map. apply map_ext_in. intros g Hg.
        destruct g as [k [|x xs]]; [exfalso; exact (Hne _ Hg eq_refl)|]. cbn [fst snd].
        apply (Hmem _ _ Hg). cbn [snd]. apply least_in. }
      rewrite Hkeys. apply group_keys_nodup.
  Qed.
End DistinctOnSpec.

(* ------------------------------------------------------------------ limit(skip, fetch) *)
Lemma skipn_add : forall {A} a c (l : list A), skipn c (skipn a l) = skipn (a + c) l.
Proof.
  induction a as [|a IH]; intros c l; [reflexivity|]. destruct l as [|x l]; [rewrite !skipn_nil; reflexivity|].
  cbn [skipn Nat.add]. apply IH.
Qed.
(* two consecutive limits compose like one: skip adds up, fetch is the smaller of what is left *)
Theorem limit_skip_fetch_compose : forall s1 f1 s2 f2 (R : rel), 0 <= s1 -> 0 <= f1 -> 0 <= s2 -> 0 <= f2 ->
  limit_offset s2 (Some f2) (limit_offset s1 (Some f1) R)
  = limit_offset (s1 + s2) (Some (Z.min f2 (Z.max 0 (f1 - s2)))) R.
Proof.
  intros s1 f1 s2 f2 R H1 H2 H3 H4. unfold limit_offset.
  rewrite Z2Nat.inj_add by lia.
  set (a := Z.to_nat s1). set (b := Z.to_nat f1). set (c := Z.to_nat s2). set (e := Z.to_nat f2).
  replace (Z.to_nat (Z.min f2 (Z.max 0 (f1 - s2)))) with (Nat.min e (b - c)) by (unfold e, b, c; lia).
  rewrite skipn_firstn_comm, firstn_firstn, skipn_add. reflexivity.
Qed.
Theorem limit_translation : forall f d en skip fetch q R, eval_query f d en q = Ok R ->
  eval_query (S f) d en (QLimit skip fetch q) = Ok (limit_offset skip fetch R).
Proof. intros f d en skip fetch q R H. cbn [eval_query]. rewrite H. reflexivity. Qed.

(* ------------------------------------------------------------------ schemas of the translation *)
Theorem tr_with_column_schema : forall nm e d s q, tr d = Some (s, q) ->
  (length (positions (wc_hit nm) s) < 2)%nat ->
  tr (DWithColumn nm e d) = Some (wc_schema s nm, QProject (wc_exprs s nm e) q).
Proof.
  intros nm e d s q H Hp. cbn [tr]. rewrite H. cbn [obind fst snd].
  destruct (2 <=? length (positions (wc_hit nm) s))%nat eqn:E; [apply Nat.leb_le in E; lia | reflexivity].
Qed.
Theorem tr_union_by_name : forall all l r sl ql sr qr, tr l = Some (sl, ql) -> tr r = Some (sr, qr) ->
  nodup_names sl = true -> nodup_names sr = true ->
  tr (DUnionByName all l r) = Some (map (fun c => (None, c)) (ubn_names (names sl) (names sr)),
                                    ubn_query all (names sl) (names sr) ql qr).
Proof. intros all l r sl ql sr qr Hl Hr H1 H2. cbn [tr]. rewrite Hl, Hr. cbn [obind fst snd]. rewrite H1, H2. reflexivity. Qed.
