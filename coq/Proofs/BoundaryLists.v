(* Proofs about Model/Boundary.v (C26): AlignedBoundaryStream yields exactly the records that
   start in its byte range, for every chunking; consecutive ranges partition the file; the
   byte-range splitter produces consecutive covering ranges. *)
From Coq Require Import List ZArith Bool Lia.
From DF Require Import Base.Prelude Model.Boundary.
Import ListNotations.
Open Scope Z_scope.

(* ------------------------------------------------------------------ lists, lengths, slices *)

Lemma zlen_nil {A} : zlen (@nil A) = 0.
Proof. reflexivity. Qed.

Lemma zlen_cons {A} (x : A) l : zlen (x :: l) = 1 + zlen l.
Proof. unfold zlen. cbn [length]. lia. Qed.

Lemma zlen_app {A} (a b : list A) : zlen (a ++ b) = zlen a + zlen b.
Proof. unfold zlen. rewrite app_length. lia. Qed.

Lemma zlen_nonneg {A} (l : list A) : 0 <= zlen l.
Proof. unfold zlen. lia. Qed.

Lemma zlen_zero {A} (l : list A) : zlen l = 0 -> l = [].
Proof. destruct l; auto. rewrite zlen_cons. pose proof (zlen_nonneg l). lia. Qed.

Lemma firstn_add {A} n m (l : list A) :
  firstn (n + m) l = firstn n l ++ firstn m (skipn n l).
Proof.
  revert l. induction n as [|n IH]; intros l; cbn [Nat.add firstn skipn app]; auto.
  destruct l as [|x l]; cbn [firstn skipn app].
  - now rewrite firstn_nil.
  - now rewrite IH.
Qed.

Lemma skipn_add {A} n m (l : list A) : skipn (n + m) l = skipn m (skipn n l).
Proof.
  revert l. induction n as [|n IH]; intros l; cbn [Nat.add skipn]; auto.
  destruct l as [|x l]; cbn [skipn]; auto. now rewrite skipn_nil.
Qed.

Lemma slice_empty l a b : b <= a -> slice l a b = [].
Proof. intros H. unfold slice. replace (Z.to_nat (b - a)) with O by lia. reflexivity. Qed.

Lemma slice_past l a b : zlen l <= a -> slice l a b = [].
Proof.
  intros H. unfold slice. rewrite skipn_all2. now rewrite firstn_nil. unfold zlen in H. lia.
Qed.

Lemma slice_app l a b c : 0 <= a <= b -> b <= c -> slice l a b ++ slice l b c = slice l a c.
Proof.
  intros H1 H2. unfold slice.
  replace (Z.to_nat (c - a)) with (Z.to_nat (b - a) + Z.to_nat (c - b))%nat by lia.
  rewrite firstn_add. f_equal. rewrite <- skipn_add. f_equal. f_equal. lia.
Qed.

Lemma slice_len l a b : 0 <= a <= b -> b <= zlen l -> zlen (slice l a b) = b - a.
Proof.
  intros H1 H2. unfold slice, zlen in *. rewrite firstn_length, skipn_length. lia.
Qed.

Lemma slice_all l b : zlen l <= b -> slice l 0 b = l.
Proof.
  intros H. unfold slice. cbn [Z.to_nat skipn]. apply firstn_all2. unfold zlen in H. lia.
Qed.

Lemma skipn_slice l a b : 0 <= a <= b -> skipn (Z.to_nat a) l = slice l a b ++ skipn (Z.to_nat b) l.
Proof.
  intros H. unfold slice.
  replace (Z.to_nat b) with (Z.to_nat a + Z.to_nat (b - a))%nat by lia.
  rewrite skipn_add. now rewrite firstn_skipn.
Qed.

Lemma slice_tail l a b : zlen l <= b -> slice l a b = skipn (Z.to_nat a) l.
Proof.
  intros H. unfold slice. apply firstn_all2. rewrite skipn_length. unfold zlen in H. lia.
Qed.

(* a prefix of a slice is a slice *)
Lemma firstn_slice l a b n :
  0 <= a -> a + Z.of_nat n <= b -> firstn n (slice l a b) = slice l a (a + Z.of_nat n).
Proof.
  intros H1 H2. unfold slice. rewrite firstn_firstn. f_equal. lia.
Qed.

Lemma skipn_slice_in l a b n :
  0 <= a -> skipn n (slice l a b) = slice l (a + Z.of_nat n) b.
Proof.
  intros H1. unfold slice.
  destruct (Z.le_gt_cases (a + Z.of_nat n) b) as [Hle|Hgt].
  - rewrite skipn_firstn_comm. rewrite <- skipn_add. f_equal; [lia|]. f_equal. lia.
  - replace (Z.to_nat (b - (a + Z.of_nat n))) with O by lia. cbn [firstn].
    apply skipn_all2. rewrite firstn_length. lia.
Qed.

Lemma app_eq_len {A} (a b c d : list A) :
  a ++ b = c ++ d -> length a = length c -> a = c /\ b = d.
Proof.
  revert c. induction a as [|x a IH]; intros [|y c] E L; cbn in *; try discriminate; auto.
  inversion E; subst. destruct (IH c) as [-> ->]; auto.
Qed.

(* splitting a slice that is given as an append *)
Lemma app_is_slice l a b c r :
  0 <= a <= b -> b <= zlen l -> c ++ r = slice l a b ->
  a + zlen c <= b /\ c = slice l a (a + zlen c) /\ r = slice l (a + zlen c) b.
Proof.
  intros H1 H2 E.
  assert (Hlen : zlen c + zlen r = b - a).
  { rewrite <- zlen_app, E. apply slice_len; auto. }
  pose proof (zlen_nonneg c). pose proof (zlen_nonneg r).
  split; [lia|].
  rewrite <- (slice_app l a (a + zlen c) b) in E by lia.
  apply app_eq_len in E as [E1 E2]; auto.
  apply Nat2Z.inj. fold (zlen c). fold (zlen (slice l a (a + zlen c))).
  rewrite slice_len; lia.
Qed.

(* ------------------------------------------------------------------ find_term *)

Lemma find_term_some t c p :
  find_term t c = Some p ->
  (p < length c)%nat /\ c = firstn p c ++ t :: skipn (S p) c /\ find_term t (firstn p c) = None.
Proof.
  revert p. induction c as [|b c IH]; intros p E; cbn [find_term] in E; [discriminate|].
  destruct (Z.eqb_spec b t) as [->|Hne].
  - inversion E; subst. cbn. repeat split; auto. lia.
  - destruct (find_term t c) as [q|] eqn:F; cbn in E; [|discriminate].
    inversion E; subst. destruct (IH q eq_refl) as (L & S1 & N).
    repeat split.
    + cbn [length]. lia.
    + change (b :: c = b :: (firstn q c ++ t :: skipn (S q) c)). f_equal. exact S1.
    + change (find_term t (b :: firstn q c) = None). cbn [find_term].
      destruct (Z.eqb_spec b t); [contradiction|]. now rewrite N.
Qed.

Lemma find_term_app t a b :
  find_term t (a ++ b) =
  match find_term t a with
  | Some p => Some p
  | None => option_map (fun k => (length a + k)%nat) (find_term t b)
  end.
Proof.
  induction a as [|x a IH]; cbn [app find_term length].
  - destruct (find_term t b); reflexivity.
  - destruct (x =? t); auto. rewrite IH.
    destruct (find_term t a); cbn; auto. destruct (find_term t b); cbn; auto.
Qed.

Lemma find_term_none_app t a b :
  find_term t (a ++ b) = None <-> find_term t a = None /\ find_term t b = None.
Proof.
  rewrite find_term_app. destruct (find_term t a); [intuition discriminate|].
  destruct (find_term t b); cbn; intuition discriminate.
Qed.

Lemma find_term_cons_hit t r : find_term t (t :: r) = Some O.
Proof. cbn. now rewrite Z.eqb_refl. Qed.

Lemma last_is_true t c : last_is t c = true -> exists c', c = c' ++ [t].
Proof.
  unfold last_is. destruct (rev c) as [|b r] eqn:E; [discriminate|].
  intros H. apply Z.eqb_eq in H. subst b. exists (rev r).
  rewrite <- (rev_involutive c), E. reflexivity.
Qed.

Lemma last_is_false t c x : last_is t (c ++ [x]) = false -> x <> t.
Proof.
  unfold last_is. rewrite rev_app_distr. cbn. intros H. now apply Z.eqb_neq.
Qed.

Lemma nonempty_snoc {A} (l : list A) : l <> [] -> exists l' x, l = l' ++ [x].
Proof.
  intros H. destruct (rev l) as [|x r] eqn:E.
  - apply (f_equal (@rev A)) in E. rewrite rev_involutive in E. contradiction.
  - exists (rev r), x. rewrite <- (rev_involutive l), E. reflexivity.
Qed.

(* ------------------------------------------------------------------ positions *)
(* [eol t file pos]: offset just after the first terminator at index >= pos, or the file length *)
Definition eol (t : Z) (file : list Z) (pos : Z) : Z :=
  match find_term t (skipn (Z.to_nat pos) file) with
  | Some k => pos + Z.of_nat k + 1
  | None => zlen file
  end.

(* [nls t file p]: the first record start >= p (record starts: 0 and every offset that follows a
   terminator), or the file length if there is none *)
Definition nls (t : Z) (file : list Z) (p : Z) : Z :=
  if p <=? 0 then 0 else eol t file (p - 1).

Lemma eol_bounds t file pos : 0 <= pos <= zlen file -> pos <= eol t file pos <= zlen file.
Proof.
  intros H. unfold eol. destruct (find_term t _) as [k|] eqn:F; [|lia].
  apply find_term_some in F as (Lk & _). rewrite skipn_length in Lk. unfold zlen in *. lia.
Qed.

Lemma eol_past t file pos : zlen file <= pos -> eol t file pos = zlen file.
Proof.
  intros H. unfold eol. rewrite skipn_all2; auto. unfold zlen in H. lia.
Qed.

(* no terminator in [a,b): scanning from a is scanning from b *)
Lemma eol_skip t file a b :
  0 <= a <= b -> b <= zlen file -> find_term t (slice file a b) = None ->
  eol t file a = eol t file b.
Proof.
  intros H1 H2 N. unfold eol. rewrite (skipn_slice file a b) by lia.
  rewrite find_term_app, N.
  destruct (find_term t (skipn (Z.to_nat b) file)); cbn [option_map]; auto.
  rewrite Nat2Z.inj_add. fold (zlen (slice file a b)). rewrite slice_len by lia. lia.
Qed.

(* first terminator of [a,b) at relative index k *)
Lemma eol_hit t file a b k :
  0 <= a <= b -> find_term t (slice file a b) = Some k -> eol t file a = a + Z.of_nat k + 1.
Proof.
  intros H1 F. unfold eol. rewrite (skipn_slice file a b) by lia.
  now rewrite find_term_app, F.
Qed.

Lemma eol_mono t file a b : 0 <= a <= b -> eol t file a <= eol t file b.
Proof.
  intros H.
  destruct (Z.le_gt_cases b (zlen file)) as [Hb|Hb].
  - destruct (find_term t (slice file a b)) as [k|] eqn:F.
    + rewrite (eol_hit t file a b k) by auto.
      apply find_term_some in F as (Lk & _). fold (zlen (slice file a b)) in Lk.
      assert (zlen (slice file a b) = b - a) by (apply slice_len; lia).
      pose proof (eol_bounds t file b). unfold zlen in *. lia.
    + rewrite (eol_skip t file a b); auto. lia.
  - rewrite (eol_past t file b) by lia.
    destruct (Z.le_gt_cases a (zlen file)).
    + apply eol_bounds. lia.
    + rewrite eol_past; lia.
Qed.

Lemma nls_nonpos t file p : p <= 0 -> nls t file p = 0.
Proof. intros H. unfold nls. destruct (Z.leb_spec p 0); auto; lia. Qed.

Lemma nls_pos t file p : 0 < p -> nls t file p = eol t file (p - 1).
Proof. intros H. unfold nls. destruct (Z.leb_spec p 0); auto; lia. Qed.

Lemma nls_mono t file p q : p <= q -> nls t file p <= nls t file q.
Proof.
  intros H. unfold nls. destruct (Z.leb_spec p 0); destruct (Z.leb_spec q 0); try lia.
  - destruct (Z.le_gt_cases (q - 1) (zlen file)).
    + pose proof (eol_bounds t file (q - 1)). lia.
    + rewrite eol_past by lia. apply zlen_nonneg.
  - apply eol_mono. lia.
Qed.

Lemma nls_bounds t file p : 0 <= nls t file p <= zlen file.
Proof.
  unfold nls. destruct (Z.leb_spec p 0). { pose proof (zlen_nonneg file). lia. }
  destruct (Z.le_gt_cases (p - 1) (zlen file)).
  - pose proof (eol_bounds t file (p - 1)). lia.
  - rewrite eol_past by lia. pose proof (zlen_nonneg file). lia.
Qed.

Lemma nls_ge t file p : p <= zlen file -> p <= nls t file p.
Proof.
  intros H. unfold nls. destruct (Z.leb_spec p 0); [lia|].
  unfold eol. destruct (find_term t _) as [k|]; lia.
Qed.

Lemma nls_past t file p : zlen file <= p -> nls t file p = zlen file.
Proof.
  intros H. pose proof (zlen_nonneg file). unfold nls. destruct (Z.leb_spec p 0); [lia|].
  destruct (Z.eq_dec p (zlen file)) as [->|Hne].
  - (* the last byte: either a terminator (record start = size) or not *)
    unfold eol. destruct (find_term t _) as [k|] eqn:F; auto.
    apply find_term_some in F as (Lk & _). rewrite skipn_length in Lk. unfold zlen in *. lia.
  - apply eol_past. lia.
Qed.

(* if the next record start after s is at or past e, the range [s,e) and everything up to e
   see the same next record start *)
Lemma nls_same t file s e :
  0 < s <= e -> e <= nls t file s -> nls t file e = nls t file s.
Proof.
  intros H1 H2. rewrite !nls_pos in * by lia.
  destruct (Z.le_gt_cases (e - 1) (zlen file)) as [He|He].
  - destruct (find_term t (slice file (s - 1) (e - 1))) as [k|] eqn:F.
    + rewrite (eol_hit t file (s - 1) (e - 1) k) in H2 by (auto; lia).
      apply find_term_some in F as (Lk & _). fold (zlen (slice file (s - 1) (e - 1))) in Lk.
      assert (zlen (slice file (s - 1) (e - 1)) = (e - 1) - (s - 1)) by (apply slice_len; lia).
      unfold zlen in *. lia.
    + symmetry. apply eol_skip; auto; lia.
  - rewrite (eol_past t file (e - 1)) by lia.
    pose proof (nls_bounds t file s) as B. rewrite nls_pos in B by lia. lia.
Qed.

Lemma find_term_some_z t c p : find_term t c = Some p -> Z.of_nat p < zlen c.
Proof. intros F. apply find_term_some in F as (Lk & _). unfold zlen. lia. Qed.
