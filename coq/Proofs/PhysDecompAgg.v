(* C02 -- partial -> final aggregation over arbitrary partitions equals the reference aggregate
   (Model/PhysDecomp.v: agg_partial / agg_merge / agg_final vs. RefSQL's agg_apply), for every aggregate of RefSQL. *)
From Coq Require Import List ZArith Bool Lia Permutation.
From DF Require Import Base.Prelude Model.RefSQL Proofs.RefSQLLaws Model.PhysDecomp Proofs.PhysDecompProofs.
Import ListNotations.
Open Scope Z_scope.

(* ------------------------------------------------------------------ vcmp_nn is a linear order on plain values *)
Lemma str_cmp_eq : forall a b, str_cmp a b = Eq -> a = b.
Proof.
  induction a as [|x a IH]; destruct b as [|y b]; simpl; try discriminate; auto.
  destruct (Z.compare_spec x y); try discriminate. intros; subst; f_equal; auto.
Qed.
Lemma str_cmp_trans : forall a b c, str_cmp a b <> Gt -> str_cmp b c <> Gt -> str_cmp a c <> Gt.
Proof.
  induction a as [|x a IH]; intros [|y b] [|z c]; simpl; try congruence.
  destruct (Z.compare_spec x y), (Z.compare_spec y z), (Z.compare_spec x z); subst; try lia; try congruence.
  apply IH.
Qed.

Definition vkey (v : value) : list Z :=
  match v with
  | VNull => [0]
  | VBool b => [1; if b then 1 else 0]
  | VInt z => [2; z]
  | VStr s => 3 :: s
  | VRat _ _ => []
  end.
Lemma vcmp_key : forall a b, plain a -> plain b -> vcmp_nn a b = str_cmp (vkey a) (vkey b).
Proof.
  intros a b Ha Hb. destruct a as [|x|x|x|x1 x2], b as [|y|y|y|y1 y2]; try contradiction; try reflexivity.
  - cbn [vcmp_nn vkey str_cmp]. change (2 ?= 2) with Eq. cbv iota. destruct (x ?= y); reflexivity.
  - destruct x, y; reflexivity.
Qed.
Lemma vkey_inj : forall a b, plain a -> plain b -> vkey a = vkey b -> a = b.
Proof.
  intros a b Ha Hb. destruct a as [|x|x|x|x1 x2], b as [|y|y|y|y1 y2]; try contradiction; simpl; intros E;
    try discriminate; try reflexivity; inversion E; subst; auto.
  destruct x, y; try discriminate; reflexivity.
Qed.
Lemma vcmp_plain_eq : forall a b, plain a -> plain b -> vcmp_nn a b = Eq -> a = b.
Proof. intros a b Ha Hb E. rewrite vcmp_key in E; auto. apply vkey_inj; auto. apply str_cmp_eq; auto. Qed.
Lemma vcmp_plain_trans : forall a b c, plain a -> plain b -> plain c ->
  vcmp_nn a b <> Gt -> vcmp_nn b c <> Gt -> vcmp_nn a c <> Gt.
Proof. intros a b c Ha Hb Hc. rewrite !vcmp_key; auto. apply str_cmp_trans. Qed.

(* ------------------------------------------------------------------ min-like operators of a linear order *)
Section MinOrder.
  Context (cmp : value -> value -> comparison) (D : value -> Prop).
  Hypothesis Hanti : forall a b, cmp b a = CompOpp (cmp a b).
  Hypothesis Heq : forall a b, D a -> D b -> cmp a b = Eq -> a = b.
  Hypothesis Htrans : forall a b c, D a -> D b -> D c -> cmp a b <> Gt -> cmp b c <> Gt -> cmp a c <> Gt.

  Definition pick (a b : value) : value := match cmp a b with Gt => b | _ => a end.
  Let le (a b : value) : Prop := cmp a b <> Gt.

  Lemma le_refl : forall a, le a a.
  Proof. intros a. unfold le. pose proof (Hanti a a) as H. destruct (cmp a a); simpl in H; congruence. Qed.
  Lemma pick_in : forall a b, pick a b = a \/ pick a b = b.
  Proof. intros; unfold pick; destruct (cmp a b); auto. Qed.
  Lemma pick_D : forall a b, D a -> D b -> D (pick a b).
  Proof. intros a b; destruct (pick_in a b) as [-> | ->]; auto. Qed.
  Lemma pick_le_l : forall a b, le (pick a b) a.
  Proof.
    intros a b. unfold pick. destruct (cmp a b) eqn:E; try apply le_refl.
    unfold le. rewrite Hanti, E. simpl; congruence.
  Qed.
  Lemma pick_le_r : forall a b, le (pick a b) b.
  Proof. intros a b. unfold pick. destruct (cmp a b) eqn:E; try apply le_refl; unfold le; congruence. Qed.
  Lemma pick_glb : forall m a b, le m a -> le m b -> le m (pick a b).
  Proof. intros m a b; destruct (pick_in a b) as [-> | ->]; auto. Qed.
  Lemma le_antisym : forall a b, D a -> D b -> le a b -> le b a -> a = b.
  Proof.
    intros a b Da Db H1 H2. unfold le in *. destruct (cmp a b) eqn:E; [apply Heq; auto | | congruence].
    rewrite Hanti, E in H2. simpl in H2. congruence.
  Qed.
  Lemma le_trans : forall a b c, D a -> D b -> D c -> le a b -> le b c -> le a c.
  Proof. exact Htrans. Qed.
  Lemma pick_comm : forall a b, D a -> D b -> pick a b = pick b a.
  Proof.
    intros. apply le_antisym; try (apply pick_D; auto); apply pick_glb; [apply pick_le_r | apply pick_le_l | apply pick_le_r | apply pick_le_l].
  Qed.
  Lemma pick_assoc : forall a b c, D a -> D b -> D c -> pick (pick a b) c = pick a (pick b c).
  Proof.
    intros a b c Da Db Dc.
    assert (Dab : D (pick a b)) by (apply pick_D; auto). assert (Dbc : D (pick b c)) by (apply pick_D; auto).
    assert (Dl : D (pick (pick a b) c)) by (apply pick_D; auto).
    assert (Dr : D (pick a (pick b c))) by (apply pick_D; auto).
    apply le_antisym; auto.
    - apply pick_glb; [|apply pick_glb].
      + apply (le_trans _ (pick a b)); auto; apply pick_le_l.
      + apply (le_trans _ (pick a b)); auto; [apply pick_le_l | apply pick_le_r].
      + apply pick_le_r.
    - apply pick_glb; [apply pick_glb|].
      + apply pick_le_l.
      + apply (le_trans _ (pick b c)); auto; [apply pick_le_r | apply pick_le_l].
      + apply (le_trans _ (pick b c)); auto; apply pick_le_r.
  Qed.

  Definition Dopt (m : option value) : Prop := match m with Some v => D v | None => True end.
  Lemma oext_D : forall m x, Dopt m -> D x -> Dopt (oext pick m x).
  Proof. intros [m|] x Hm Hx; simpl; auto. apply pick_D; auto. Qed.
  Lemma fold_oext_D : forall ys m, Forall D ys -> Dopt m -> Dopt (fold_left (oext pick) ys m).
  Proof. induction ys; intros m F Hm; simpl; auto. inversion F; subst. apply IHys; auto. apply oext_D; auto. Qed.

  Lemma fold_oext_merge : forall ys m, Forall D ys -> Dopt m ->
    fold_left (oext pick) ys m = omerge pick m (fold_left (oext pick) ys None).
  Proof.
    induction ys as [|y ys IH]; intros m F Hm; simpl.
    - destruct m; reflexivity.
    - inversion F as [|? ? Dy F']; subst.
      rewrite (IH (oext pick m y)); auto using oext_D. rewrite (IH (Some y)); auto.
      pose proof (fold_oext_D ys None F' I) as De.
      destruct m as [m0|]; simpl; [|reflexivity].
      destruct (fold_left (oext pick) ys None) as [e|]; simpl; [|reflexivity].
      f_equal. apply pick_assoc; auto.
  Qed.
  Lemma ext_app : forall xs ys, Forall D xs -> Forall D ys ->
    ext pick (xs ++ ys) = omerge pick (ext pick xs) (ext pick ys).
  Proof.
    intros. unfold ext. rewrite fold_left_app. apply fold_oext_merge; auto. apply fold_oext_D; simpl; auto.
  Qed.
  Lemma fold_oext_perm : forall xs ys, Permutation xs ys -> Forall D xs ->
    forall m, Dopt m -> fold_left (oext pick) xs m = fold_left (oext pick) ys m.
  Proof.
    induction 1; intros F m Hm; simpl; auto.
    - inversion F; subst. apply IHPermutation; auto using oext_D.
    - inversion F as [|? ? Dy F']; inversion F' as [|? ? Dx F'']; subst. f_equal.
      destruct m as [m0|]; simpl; f_equal.
      + simpl in Hm. rewrite !pick_assoc; auto. f_equal. apply pick_comm; auto.
      + apply pick_comm; auto.
    - rewrite IHPermutation1; auto. apply IHPermutation2; auto. eapply Permutation_Forall; eauto.
  Qed.
  Lemma ext_perm : forall xs ys, Permutation xs ys -> Forall D xs -> ext pick xs = ext pick ys.
  Proof. intros. unfold ext. apply fold_oext_perm; simpl; auto. Qed.
End MinOrder.

Definition cmp_opp (a b : value) : comparison := CompOpp (vcmp_nn a b).
Lemma vmin_pick : forall a b, vmin a b = pick vcmp_nn a b.
Proof. reflexivity. Qed.
Lemma vmax_pick : forall a b, vmax a b = pick cmp_opp a b.
Proof. intros; unfold vmax, pick, cmp_opp. destruct (vcmp_nn a b); reflexivity. Qed.

Lemma opp_anti : forall a b, cmp_opp b a = CompOpp (cmp_opp a b).
Proof. intros; unfold cmp_opp. rewrite (vcmp_nn_antisym a b). reflexivity. Qed.
Lemma opp_eq : forall a b, plain a -> plain b -> cmp_opp a b = Eq -> a = b.
Proof. intros a b Ha Hb E. unfold cmp_opp in E. apply vcmp_plain_eq; auto. destruct (vcmp_nn a b); simpl in E; congruence. Qed.
Lemma opp_trans : forall a b c, plain a -> plain b -> plain c ->
  cmp_opp a b <> Gt -> cmp_opp b c <> Gt -> cmp_opp a c <> Gt.
Proof.
  intros a b c Ha Hb Hc H1 H2. unfold cmp_opp in *.
  assert (G1 : vcmp_nn b a <> Gt) by (rewrite vcmp_nn_antisym; destruct (vcmp_nn a b); simpl in *; congruence).
  assert (G2 : vcmp_nn c b <> Gt) by (rewrite vcmp_nn_antisym; destruct (vcmp_nn b c); simpl in *; congruence).
  pose proof (vcmp_plain_trans c b a Hc Hb Ha G2 G1) as G. rewrite vcmp_nn_antisym in G.
  destruct (vcmp_nn a c); simpl in *; congruence.
Qed.

Lemma ext_ext : forall f g xs, (forall a b, f a b = g a b) -> ext f xs = ext g xs.
Proof.
  intros f g xs H. unfold ext. generalize (@None value). induction xs; intros m; simpl; auto.
  rewrite IHxs. f_equal. destruct m; simpl; auto. f_equal; auto.
Qed.

Lemma ext_vmin_app : forall xs ys, Forall plain xs -> Forall plain ys ->
  ext vmin (xs ++ ys) = omerge vmin (ext vmin xs) (ext vmin ys).
Proof. intros. apply (ext_app vcmp_nn plain vcmp_nn_antisym vcmp_plain_eq vcmp_plain_trans); auto. Qed.
Lemma ext_vmax_app : forall xs ys, Forall plain xs -> Forall plain ys ->
  ext vmax (xs ++ ys) = omerge vmax (ext vmax xs) (ext vmax ys).
Proof.
  intros xs ys Hx Hy. rewrite !(ext_ext vmax (pick cmp_opp)) by apply vmax_pick.
  rewrite (ext_app cmp_opp plain opp_anti opp_eq opp_trans); auto.
  destruct (ext (pick cmp_opp) xs), (ext (pick cmp_opp) ys); simpl; auto. f_equal. symmetry; apply vmax_pick.
Qed.
Lemma ext_vmin_perm : forall xs ys, Permutation xs ys -> Forall plain xs -> ext vmin xs = ext vmin ys.
Proof. intros. apply (ext_perm vcmp_nn plain vcmp_nn_antisym vcmp_plain_eq vcmp_plain_trans); auto. Qed.
Lemma ext_vmax_perm : forall xs ys, Permutation xs ys -> Forall plain xs -> ext vmax xs = ext vmax ys.
Proof.
  intros. rewrite !(ext_ext vmax (pick cmp_opp)) by apply vmax_pick.
  apply (ext_perm cmp_opp plain opp_anti opp_eq opp_trans); auto.
Qed.

(* ------------------------------------------------------------------ small facts about the aggregate building blocks *)
Lemma len_app : forall {A} (a b : list A), len (a ++ b) = len a + len b.
Proof. intros; unfold len. rewrite app_length. lia. Qed.
Lemma nonnull_app : forall a b, nonnull (a ++ b) = nonnull a ++ nonnull b.
Proof. intros; unfold nonnull. apply filter_app. Qed.
Lemma nonnull_Forall : forall (P : value -> Prop) vs, Forall P vs -> Forall P (nonnull vs).
Proof. intros P vs H. unfold nonnull. apply Forall_forall. intros x Hx. apply filter_In in Hx. eapply Forall_forall in H; [eauto | tauto]. Qed.

Lemma sum_ints_app : forall a b, sum_ints (a ++ b) = (s <- sum_ints a;; t <- sum_ints b;; Ok (s + t)).
Proof.
  induction a as [|x a IH]; intros b; simpl.
  - destruct (sum_ints b); reflexivity.
  - destruct x; try reflexivity. rewrite IH. destruct (sum_ints a); simpl; auto. destruct (sum_ints b); simpl; auto.
    f_equal; lia.
Qed.
Lemma sum_ints_perm : forall a b, Permutation a b -> sum_ints a = sum_ints b.
Proof.
  induction 1; simpl; auto.
  - destruct x; auto. rewrite IHPermutation; auto.
  - destruct x, y; auto; destruct (sum_ints l); simpl; auto. f_equal; lia.
  - congruence.
Qed.

Lemma existsb_dv : forall v l, existsb (value_eqb v) (distinct_vals l) = existsb (value_eqb v) l.
Proof.
  induction l as [|u l IH]; simpl; auto.
  destruct (existsb (value_eqb u) l) eqn:E; simpl; rewrite IH; auto.
  destruct (value_eqb v u) eqn:V; simpl; auto. apply value_eqb_eq in V; subst. auto.
Qed.
Lemma dv_idem : forall l, distinct_vals (distinct_vals l) = distinct_vals l.
Proof.
  induction l as [|u l IH]; simpl; auto.
  destruct (existsb (value_eqb u) l) eqn:E; simpl; auto. rewrite existsb_dv, E, IH. reflexivity.
Qed.
Lemma dv_app : forall a b,
  distinct_vals (a ++ b) = filter (fun v => negb (existsb (value_eqb v) b)) (distinct_vals a) ++ distinct_vals b.
Proof.
  induction a as [|v a IH]; intros b; simpl; auto.
  rewrite existsb_app. destruct (existsb (value_eqb v) a) eqn:Ea; simpl; auto.
  destruct (existsb (value_eqb v) b) eqn:Eb; simpl; rewrite IH; auto.
Qed.
Lemma dv_merge : forall a b, distinct_vals (a ++ b) = distinct_vals (distinct_vals a ++ distinct_vals b).
Proof.
  intros. rewrite (dv_app (distinct_vals a)), !dv_idem, dv_app. f_equal.
  apply filter_ext. intros v. rewrite existsb_dv. reflexivity.
Qed.
Lemma In_existsb : forall v l, In v l <-> existsb (value_eqb v) l = true.
Proof.
  intros. rewrite existsb_exists. split.
  - intros H; exists v; split; auto. apply value_eqb_eq; auto.
  - intros [x [Hx E]]. apply value_eqb_eq in E; subst; auto.
Qed.
Lemma dv_In : forall v l, In v (distinct_vals l) <-> In v l.
Proof. intros. rewrite !In_existsb, existsb_dv. tauto. Qed.
Lemma dv_NoDup : forall l, NoDup (distinct_vals l).
Proof.
  induction l as [|u l IH]; simpl; [constructor|].
  destruct (existsb (value_eqb u) l) eqn:E; auto. constructor; auto.
  rewrite dv_In, In_existsb, E. discriminate.
Qed.
Lemma dv_perm_len : forall a b, Permutation a b -> len (distinct_vals a) = len (distinct_vals b).
Proof.
  intros a b P. unfold len. f_equal. apply Permutation_length. apply NoDup_Permutation; auto using dv_NoDup.
  intros v. rewrite !dv_In. split; apply Permutation_in; auto. symmetry; auto.
Qed.

Lemma ext_Some : forall f l a, fold_left (oext f) l (Some a) = Some (fold_left f l a).
Proof. induction l; intros; simpl; auto. Qed.
Lemma len_cons_nz : forall {A} (x : A) l, (len (x :: l) =? 0) = false.
Proof. intros. unfold len. apply Z.eqb_neq. simpl length. lia. Qed.

(* ------------------------------------------------------------------ one aggregate, one group *)
(* H1: the partial state of a concatenation is the merge of the partial states (errors included) *)
Lemma agg_partial_app : forall fn a b, agg_dom fn (a ++ b) ->
  agg_partial fn (a ++ b) = (x <- agg_partial fn a;; y <- agg_partial fn b;; Ok (agg_merge fn x y)).
Proof.
  intros fn a b Hd. unfold agg_partial. rewrite nonnull_app.
  destruct fn; simpl bind; cbn [agg_merge]; try (rewrite !len_app; reflexivity).
  - rewrite dv_merge. reflexivity.
  - rewrite sum_ints_app. destruct (sum_ints (nonnull a)); simpl; auto. destruct (sum_ints (nonnull b)); simpl; auto.
    rewrite len_app; reflexivity.
  - simpl in Hd. apply Forall_app in Hd. destruct Hd. rewrite ext_vmin_app; auto using nonnull_Forall.
  - simpl in Hd. apply Forall_app in Hd. destruct Hd. rewrite ext_vmax_app; auto using nonnull_Forall.
  - rewrite sum_ints_app. destruct (sum_ints (nonnull a)); simpl; auto. destruct (sum_ints (nonnull b)); simpl; auto.
    rewrite len_app; reflexivity.
Qed.

Lemma agg_partial_nil : forall fn, agg_partial fn [] = Ok (agg_init fn).
Proof. destruct fn; reflexivity. Qed.

(* H3: evaluating the state of a list of values is the reference aggregate of that list *)
Lemma agg_final_partial : forall fn vs, (st <- agg_partial fn vs;; agg_final fn st) = agg_apply fn vs.
Proof.
  intros fn vs. unfold agg_partial, agg_apply. destruct fn; simpl bind; cbn [agg_final]; try reflexivity.
  - destruct (nonnull vs) as [|x xs]; [reflexivity|]. destruct (sum_ints (x :: xs)); simpl; auto; try (rewrite len_cons_nz; reflexivity).
  - destruct (nonnull vs) as [|x xs]; [reflexivity|]. unfold ext. simpl. rewrite ext_Some. reflexivity.
  - destruct (nonnull vs) as [|x xs]; [reflexivity|]. unfold ext. simpl. rewrite ext_Some. reflexivity.
  - destruct (nonnull vs) as [|x xs]; [reflexivity|]. destruct (sum_ints (x :: xs)); simpl; auto; try (rewrite len_cons_nz; reflexivity).
Qed.

Lemma agg_dom_app : forall fn a b, agg_dom fn (a ++ b) <-> agg_dom fn a /\ agg_dom fn b.
Proof. intros; destruct fn; simpl; try tauto; apply Forall_app. Qed.

Lemma two_phase_gen : forall fn parts pre, agg_dom fn (pre ++ concat parts) ->
  (acc <- agg_partial fn pre;; sts <- mapM (agg_partial fn) parts;; Ok (fold_left (agg_merge fn) sts acc))
  = agg_partial fn (pre ++ concat parts).
Proof.
  induction parts as [|p ps IH]; intros pre Hd.
  - simpl. rewrite app_nil_r. destruct (agg_partial fn pre); reflexivity.
  - cbn [concat] in *. rewrite app_assoc in *. rewrite <- IH; auto.
    rewrite agg_partial_app; [|apply agg_dom_app in Hd; tauto].
    cbn [mapM]. destruct (agg_partial fn pre); simpl; auto. destruct (agg_partial fn p); simpl; auto.
    destruct (mapM (agg_partial fn) ps); reflexivity.
Qed.

(* partial per partition + one final merge = the reference aggregate of the concatenation, errors included *)
Theorem agg_two_phase_concat : forall fn parts, agg_dom fn (concat parts) ->
  agg_two_phase fn parts = agg_apply fn (concat parts).
Proof.
  intros fn parts Hd. unfold agg_two_phase, agg_merge_all.
  rewrite <- agg_final_partial. pose proof (two_phase_gen fn parts [] Hd) as G.
  rewrite agg_partial_nil in G. simpl in G. rewrite <- G.
  destruct (mapM (agg_partial fn) parts); reflexivity.
Qed.

(* the reference aggregates do not depend on the order of their input *)
Theorem agg_apply_perm : forall fn vs vs', Permutation vs vs' -> agg_dom fn vs -> agg_apply fn vs = agg_apply fn vs'.
Proof.
  intros fn vs vs' P Hd.
  assert (Pn : Permutation (nonnull vs) (nonnull vs')) by (apply perm_filter; auto).
  assert (Ln : len (nonnull vs) = len (nonnull vs')) by (unfold len; f_equal; apply Permutation_length; auto).
  rewrite <- !agg_final_partial. unfold agg_partial.
  destruct fn; simpl bind; cbn [agg_final].
  - unfold len. rewrite (Permutation_length P). reflexivity.
  - rewrite Ln; reflexivity.
  - rewrite (dv_perm_len _ _ Pn). reflexivity.
  - rewrite (sum_ints_perm _ _ Pn), Ln. reflexivity.
  - simpl in Hd. rewrite (ext_vmin_perm _ _ Pn); auto using nonnull_Forall.
  - simpl in Hd. rewrite (ext_vmax_perm _ _ Pn); auto using nonnull_Forall.
  - rewrite (sum_ints_perm _ _ Pn), Ln. reflexivity.
Qed.

Lemma agg_dom_perm : forall fn vs vs', Permutation vs vs' -> agg_dom fn vs -> agg_dom fn vs'.
Proof. intros fn vs vs' P; destruct fn; simpl; auto; apply Permutation_Forall; auto. Qed.

(* ... hence for ANY split of the group's values into partitions, in any arrival order *)
Theorem agg_two_phase_split : forall fn parts vs, is_split vs parts -> agg_dom fn vs ->
  agg_two_phase fn parts = agg_apply fn vs.
Proof.
  intros fn parts vs S Hd. unfold is_split in S.
  assert (Hd' : agg_dom fn (concat parts)) by (eapply agg_dom_perm; [symmetry; eauto | auto]).
  rewrite agg_two_phase_concat; auto. apply agg_apply_perm; auto.
Qed.
