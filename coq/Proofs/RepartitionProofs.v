(* C10 -- proofs about Model/Repartition.v *)
From Coq Require Import List ZArith Bool Arith Lia Sorted Permutation.
From DF Require Import Base.Prelude Base.Bits Gen.StrengthReduced Proofs.StrengthReducedProofs Model.Repartition.
Import ListNotations.
Close Scope Z_scope.
Open Scope nat_scope.

(* ================================================================== A. the comparator *)
Lemma lexZ_antisym : forall a b, lexZ b a = CompOpp (lexZ a b).
Proof.
  induction a as [|x a IH]; destruct b as [|y b]; simpl; auto.
  rewrite (Z.compare_antisym x y). destruct (Z.compare x y); simpl; auto.
Qed.

Lemma lexZ_eq : forall a b, lexZ a b = Eq <-> a = b.
Proof.
  induction a as [|x a IH]; destruct b as [|y b]; simpl; split; intros H; try congruence; try discriminate; auto.
  - destruct (Z.compare x y) eqn:E; try discriminate. apply Z.compare_eq_iff in E. apply IH in H. congruence.
  - inversion H; subst. rewrite Z.compare_refl. apply IH. reflexivity.
Qed.

Lemma lexZ_trans : forall a b c, lexZ a b = Lt -> lexZ b c = Lt -> lexZ a c = Lt.
Proof.
  induction a as [|x a IH]; destruct b as [|y b]; destruct c as [|z c]; simpl; intros H1 H2; try discriminate; auto.
  destruct (Z.compare_spec x y), (Z.compare_spec y z); try discriminate; subst.
  - rewrite Z.compare_refl. eauto.
  - apply Z.compare_lt_iff in H0. now rewrite H0.
  - apply Z.compare_lt_iff in H. now rewrite H.
  - assert (x < z)%Z as L by lia. apply Z.compare_lt_iff in L. now rewrite L.
Qed.

(* value comparison under one column's options *)
Definition vc (o : sopt) (u v : val) : comparison := if s_desc o then lexZ v u else lexZ u v.
Lemma vc_antisym o u v : vc o v u = CompOpp (vc o u v).
Proof. unfold vc. destruct (s_desc o); apply lexZ_antisym. Qed.
Lemma vc_eq o u v : vc o u v = Eq <-> u = v.
Proof. unfold vc. destruct (s_desc o); rewrite lexZ_eq; split; congruence. Qed.
Lemma vc_trans o u v w : vc o u v = Lt -> vc o v w = Lt -> vc o u w = Lt.
Proof. unfold vc. destruct (s_desc o); intros; eapply lexZ_trans; eauto. Qed.

Lemma compare_rows_cons a x b y o os :
  compare_rows (a :: x) (b :: y) (o :: os) =
  match a, b with
  | None, None => compare_rows x y os
  | None, Some _ => if s_nulls_first o then Lt else Gt
  | Some _, None => if s_nulls_first o then Gt else Lt
  | Some u, Some v => match vc o u v with Eq => compare_rows x y os | c => c end
  end.
Proof. reflexivity. Qed.

Lemma compare_rows_antisym : forall os x y, compare_rows y x os = CompOpp (compare_rows x y os).
Proof.
  induction os as [|o os IH]; intros x y.
  - destruct x, y; reflexivity.
  - destruct x as [|a x], y as [|b y]; try reflexivity.
    rewrite !compare_rows_cons. destruct a as [u|], b as [v|]; auto.
    + rewrite (vc_antisym o u v). destruct (vc o u v); simpl; auto.
    + destruct (s_nulls_first o); reflexivity.
    + destruct (s_nulls_first o); reflexivity.
Qed.

Lemma compare_rows_lt_trans : forall os x y z,
  compare_rows x y os = Lt -> compare_rows y z os = Lt -> compare_rows x z os = Lt.
Proof.
  induction os as [|o os IH]; intros x y z.
  - destruct x, y; simpl; discriminate.
  - destruct x as [|a x], y as [|b y]; try (simpl; discriminate).
    destruct z as [|c z]; [simpl; discriminate|].
    rewrite !compare_rows_cons.
    destruct a as [u|], b as [v|], c as [w|]; try (destruct (s_nulls_first o); congruence); eauto.
    + destruct (vc o u v) eqn:E1; try discriminate; destruct (vc o v w) eqn:E2; try discriminate; intros H1 H2.
      * apply vc_eq in E1; apply vc_eq in E2; subst.
        assert (vc o w w = Eq) as -> by (apply vc_eq; reflexivity). eauto.
      * apply vc_eq in E1; subst. now rewrite E2.
      * apply vc_eq in E2; subst. now rewrite E1.
      * now rewrite (vc_trans o u v w E1 E2).
Qed.

(* Equal is a congruence among rows of the same width *)
Lemma compare_rows_eq_compat : forall os x y z, length x = length y ->
  compare_rows x y os = Eq -> compare_rows x z os = compare_rows y z os.
Proof.
  induction os as [|o os IH]; intros x y z L.
  - destruct x, y, z; reflexivity.
  - destruct x as [|a x], y as [|b y]; try discriminate; [reflexivity|].
    destruct z as [|c z]; [reflexivity|].
    rewrite !compare_rows_cons. injection L as L.
    destruct a as [u|], b as [v|]; try (destruct (s_nulls_first o); discriminate).
    + destruct (vc o u v) eqn:E; try discriminate. apply vc_eq in E; subst. intros H.
      destruct c as [w|]; auto. destruct (vc o v w); auto.
    + intros H. destruct c; auto.
Qed.

Lemma compare_rows_refl os x : compare_rows x x os = Eq.
Proof.
  pose proof (compare_rows_antisym os x x) as H. destruct (compare_rows x x os); simpl in H; congruence.
Qed.

Lemma compare_rows_le_trans os x y z : length x = length y -> length y = length z ->
  compare_rows x y os <> Gt -> compare_rows y z os <> Gt -> compare_rows x z os <> Gt.
Proof.
  intros L1 L2 H1 H2.
  destruct (compare_rows x y os) eqn:E1; try congruence.
  - rewrite (compare_rows_eq_compat os x y z L1 E1). exact H2.
  - destruct (compare_rows y z os) eqn:E2; try congruence.
    + assert (compare_rows z y os = Eq) as E3 by (rewrite compare_rows_antisym, E2; reflexivity).
      rewrite (compare_rows_antisym os z x), (compare_rows_eq_compat os z y x (eq_sym L2) E3).
      rewrite (compare_rows_antisym os x y), E1. simpl. discriminate.
    + rewrite (compare_rows_lt_trans os x y z E1 E2). discriminate.
Qed.

(* ================================================================== B. range_partition_id *)
Lemma mid_bounds low high : low < high -> low <= low + (high - low) / 2 < high.
Proof.
  intros H. split; [lia|].
  assert ((high - low) / 2 < high - low) by (apply Nat.div_lt; lia). lia.
Qed.

Lemma bsearch_S f k sps os low high :
  bsearch (S f) k sps os low high =
  if low <? high then
    match compare_rows k (nth (low + (high - low) / 2) sps []) os with
    | Lt => bsearch f k sps os low (low + (high - low) / 2)
    | _ => bsearch f k sps os (low + (high - low) / 2 + 1) high
    end
  else low.
Proof. reflexivity. Qed.
Lemma bsearch_O k sps os low high : bsearch 0 k sps os low high = low.
Proof. reflexivity. Qed.

(* the loop needs at most high - low iterations: more fuel changes nothing *)
Lemma bsearch_fuel_irrelevant k sps os : forall f1 f2 low high,
  high - low <= f1 -> high - low <= f2 -> bsearch f1 k sps os low high = bsearch f2 k sps os low high.
Proof.
  induction f1 as [|f1 IH]; intros f2 low high H1 H2.
  - destruct f2; rewrite ?bsearch_S, ?bsearch_O; auto. destruct (Nat.ltb_spec low high); auto. lia.
  - destruct f2; rewrite ?bsearch_S, ?bsearch_O.
    + destruct (Nat.ltb_spec low high); auto. lia.
    + destruct (Nat.ltb_spec low high) as [L|L]; auto.
      pose proof (mid_bounds low high L).
      destruct (compare_rows k (nth (low + (high - low) / 2) sps []) os); apply IH; lia.
Qed.

Lemma bsearch_range k sps os : forall fuel low high, low <= high ->
  low <= bsearch fuel k sps os low high <= high.
Proof.
  induction fuel as [|f IH]; intros low high H; rewrite ?bsearch_S, ?bsearch_O; [lia|].
  destruct (Nat.ltb_spec low high) as [L|L]; [|lia].
  pose proof (mid_bounds low high L) as M.
  destruct (compare_rows k (nth (low + (high - low) / 2) sps []) os).
  - specialize (IH (low + (high - low) / 2 + 1) high). lia.
  - specialize (IH low (low + (high - low) / 2)). lia.
  - specialize (IH (low + (high - low) / 2 + 1) high). lia.
Qed.

Lemma range_partition_id_bound k sps os : range_partition_id k sps os <= length sps.
Proof. unfold range_partition_id. pose proof (bsearch_range k sps os (length sps) 0 (length sps)). lia. Qed.

(* binary search finds the threshold of any predicate that is true below t and false from t on *)
Lemma bsearch_threshold (k : key) (sps : list key) (os : list sopt) t : t <= length sps ->
  (forall i, i < t -> sp_le_key os k (nth i sps []) = true) ->
  (forall i, t <= i < length sps -> sp_le_key os k (nth i sps []) = false) ->
  forall fuel low high, low <= t <= high -> high <= length sps -> high - low <= fuel ->
    bsearch fuel k sps os low high = t.
Proof.
  intros Ht Hlo Hhi. induction fuel as [|f IH]; intros low high B Hh F; rewrite ?bsearch_S, ?bsearch_O; [lia|].
  destruct (Nat.ltb_spec low high) as [L|L]; [|lia].
  pose proof (mid_bounds low high L) as M. set (mid := low + (high - low) / 2) in *.
  destruct (le_lt_dec t mid) as [C|C].
  - assert (sp_le_key os k (nth mid sps []) = false) as E by (apply Hhi; lia).
    unfold sp_le_key in E. destruct (compare_rows k (nth mid sps []) os); try discriminate.
    apply IH; lia.
  - assert (sp_le_key os k (nth mid sps []) = true) as E by (apply Hlo; lia).
    unfold sp_le_key in E. destruct (compare_rows k (nth mid sps []) os); try discriminate; apply IH; lia.
Qed.

(* strictly increasing adjacent split points are pairwise strictly increasing *)
Lemma adjacent_lt_pairwise os : forall sps, adjacent_lt sps os = true ->
  StronglySorted (fun a b => compare_rows a b os = Lt) sps.
Proof.
  induction sps as [|a r IH]; intros H; [constructor|].
  destruct r as [|b r']; [constructor; constructor|].
  simpl in H. destruct (compare_rows a b os) eqn:E; try discriminate.
  specialize (IH H). constructor; auto.
  inversion IH as [|? ? SS FA]; subst. constructor; auto.
  eapply Forall_impl; [|exact FA]. intros c Hc. eapply compare_rows_lt_trans; eauto.
Qed.

(* on sorted split points "split point <= key" is true on a prefix and false after it *)
Lemma sorted_threshold (os : list sopt) (k : key) : forall sps : list key, StronglySorted (fun a b => compare_rows a b os = Lt) sps ->
  forall i, i < length sps -> sp_le_key os k (nth i sps []) = (i <? count_le k sps os).
Proof.
  induction sps as [|s r IH]; intros SS i Hi; [simpl in Hi; lia|].
  inversion SS as [|? ? SS' FA]; subst. unfold count_le. simpl filter.
  destruct (sp_le_key os k s) eqn:E.
  - destruct i as [|i]; [simpl; exact E|]. simpl. apply IH; auto. simpl in Hi. lia.
  - assert (filter (sp_le_key os k) r = []) as Z.
    { unfold sp_le_key in E. destruct (compare_rows k s os) eqn:E1; try discriminate.
      clear IH SS SS' Hi. induction r as [|c r IHr]; auto. inversion FA; subst. simpl.
      unfold sp_le_key at 1. rewrite (compare_rows_lt_trans os k s c E1 H1). auto. }
    rewrite Z. simpl length. destruct i as [|i]; [exact E|]. simpl nth.
    simpl in Hi. assert (In (nth i r []) r) as I by (apply nth_In; lia).
    assert (In (nth i r []) (filter (sp_le_key os k) r) -> False) as N by (rewrite Z; auto).
    destruct (sp_le_key os k (nth i r [])) eqn:E2; auto. exfalso. apply N. apply filter_In. auto.
Qed.

Lemma count_le_bound k sps os : count_le k sps os <= length sps.
Proof.
  unfold count_le. induction sps as [|s r IH]; simpl; auto. destruct (sp_le_key os k s); simpl; lia.
Qed.

Theorem range_id_count : forall os sps k, adjacent_lt sps os = true ->
  range_partition_id k sps os = count_le k sps os.
Proof.
  intros os sps k H. unfold range_partition_id.
  pose proof (sorted_threshold os k sps (adjacent_lt_pairwise os sps H)) as T.
  apply bsearch_threshold; try lia; try apply count_le_bound.
  - intros i Hi. pose proof (count_le_bound k sps os). rewrite T by lia. apply Nat.ltb_lt. lia.
  - intros i Hi. rewrite T by lia. apply Nat.ltb_ge. lia.
  - pose proof (count_le_bound k sps os). lia.
Qed.

Lemma valid_splits_inv sps os : valid_splits sps os = true ->
  Forall (fun s => length s = length os) sps /\ adjacent_lt sps os = true.
Proof.
  unfold valid_splits. intros H. apply andb_prop in H as [H1 H2]. split; auto.
  apply Forall_forall. intros s Hs. rewrite forallb_forall in H1. apply Nat.eqb_eq. auto.
Qed.

(* keys that compare Equal are routed alike (needs no sortedness) *)
Lemma range_id_equal_keys os sps k1 k2 : length k1 = length k2 -> compare_rows k1 k2 os = Eq ->
  range_partition_id k1 sps os = range_partition_id k2 sps os.
Proof.
  intros L E. unfold range_partition_id. generalize (length sps) at 1 3 as fuel. generalize 0 as low.
  generalize (length sps) as high. intros high low fuel. revert low high.
  induction fuel as [|f IH]; intros low high; rewrite ?bsearch_S, ?bsearch_O; auto.
  destruct (low <? high); auto.
  rewrite (compare_rows_eq_compat os k1 k2 _ L E).
  destruct (compare_rows k2 (nth (low + (high - low) / 2) sps []) os); apply IH.
Qed.

(* the partition id is monotone in the key *)
Lemma range_id_monotone os sps k1 k2 : valid_splits sps os = true ->
  length k1 = length os -> length k2 = length os -> compare_rows k1 k2 os <> Gt ->
  range_partition_id k1 sps os <= range_partition_id k2 sps os.
Proof.
  intros V L1 L2 H. apply valid_splits_inv in V as [W A].
  rewrite !range_id_count by assumption. unfold count_le.
  clear A. induction sps as [|s r IH]; simpl; auto.
  inversion W; subst. specialize (IH H3).
  assert (sp_le_key os k1 s = true -> sp_le_key os k2 s = true) as M.
  { unfold sp_le_key. intros P.
    assert (compare_rows s k1 os <> Gt) as Q.
    { rewrite compare_rows_antisym. destruct (compare_rows k1 s os); simpl; congruence. }
    assert (compare_rows s k2 os <> Gt) as Q2 by (apply (compare_rows_le_trans os s k1 k2); congruence).
    rewrite compare_rows_antisym. destruct (compare_rows s k2 os); simpl; congruence. }
  destruct (sp_le_key os k1 s); destruct (sp_le_key os k2 s); simpl; try lia.
Qed.
