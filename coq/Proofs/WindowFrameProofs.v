(* C09 -- proofs about window frames: the incremental computations of window_state.rs equal the declarative
   frame definition; frames move forward; sliding evaluation equals recomputation. *)
From DF Require Import Base.Prelude Model.WindowFrame.
From Coq Require Import Lia.
Open Scope Z_scope.

(* ------------------------------------------------------------------ lists *)
Lemma filter_none {A} (p : A -> bool) l : (forall x, In x l -> p x = false) -> filter p l = [].
Proof.
  induction l as [|a l IH]; intros H; cbn [filter]; [reflexivity|].
  rewrite (H a (or_introl eq_refl)). apply IH. intros x Hx. apply H. right; exact Hx.
Qed.

Lemma filter_all {A} (p : A -> bool) l : (forall x, In x l -> p x = true) -> filter p l = l.
Proof.
  induction l as [|a l IH]; intros H; cbn [filter]; [reflexivity|].
  rewrite (H a (or_introl eq_refl)). f_equal. apply IH. intros x Hx. apply H. right; exact Hx.
Qed.

(* a predicate that holds exactly on [s, e) selects seq s (e - s) *)
Lemma filter_interval (p : nat -> bool) (n s e : nat) :
  (s <= e <= n)%nat ->
  (forall j, (j < n)%nat -> (p j = true <-> (s <= j < e)%nat)) ->
  filter p (seq 0 n) = seq s (e - s).
Proof.
  intros Hse Hp.
  replace n with (s + ((e - s) + (n - e)))%nat by lia.
  rewrite seq_app, (seq_app (e - s)). rewrite !filter_app. cbn [plus].
  rewrite (filter_none p (seq 0 s)), (filter_all p (seq s (e - s))), (filter_none p (seq (s + (e - s)) (n - e))).
  - rewrite app_nil_r. reflexivity.
  - intros x Hx. apply in_seq in Hx. destruct (p x) eqn:E; [|reflexivity]. apply Hp in E; lia.
  - intros x Hx. apply in_seq in Hx. apply Hp; lia.
  - intros x Hx. apply in_seq in Hx. destruct (p x) eqn:E; [|reflexivity]. apply Hp in E; lia.
Qed.

Lemma nth_map_seq {A} (g : nat -> A) n j d : (j < n)%nat -> nth j (map g (seq 0 n)) d = g j.
Proof.
  intros H. rewrite (nth_indep _ d (g O)) by (rewrite map_length, seq_length; exact H).
  rewrite map_nth. rewrite seq_nth by exact H. reflexivity.
Qed.

(* ------------------------------------------------------------------ extended order *)
Lemma ext_le_refl a : ext_le a a = true.
Proof. destruct a; cbn; auto. apply Z.leb_refl. Qed.

Lemma ext_le_trans a b c : ext_le a b = true -> ext_le b c = true -> ext_le a c = true.
Proof.
  destruct a, b, c; cbn; intros H1 H2; try reflexivity; try discriminate.
  apply Z.leb_le in H1, H2. apply Z.leb_le. lia.
Qed.

Lemma ext_le_total a b : ext_le a b = false -> ext_le b a = true.
Proof.
  destruct a, b; cbn; intros H; try reflexivity; try discriminate.
  apply Z.leb_gt in H. apply Z.leb_le. lia.
Qed.

Lemma ext_lt_le_trans a b c : ext_lt a b = true -> ext_le b c = true -> ext_lt a c = true.
Proof.
  unfold ext_lt. intros H1 H2. destruct (ext_le c a) eqn:E; [|reflexivity].
  rewrite (ext_le_trans _ _ _ H2 E) in H1. discriminate.
Qed.

Lemma ext_le_lt_trans a b c : ext_le a b = true -> ext_lt b c = true -> ext_lt a c = true.
Proof.
  unfold ext_lt. intros H1 H2. destruct (ext_le c a) eqn:E; [|reflexivity].
  rewrite (ext_le_trans _ _ _ E H1) in H2. discriminate.
Qed.

Lemma shift_mono a b d d' : ext_le a b = true -> d <= d' -> ext_le (shift a d) (shift b d') = true.
Proof.
  destruct a, b; cbn; intros H Hd; try reflexivity; try discriminate.
  apply Z.leb_le in H. apply Z.leb_le. lia.
Qed.

(* the bounds of a frame move forward with the position of the current row *)
Lemma lo_of_mono b p q : ext_le p q = true -> ext_le (lo_of b p) (lo_of b q) = true.
Proof.
  intros H. destruct b; cbn [lo_of]; try reflexivity; try exact H; apply shift_mono; try exact H; lia.
Qed.

Lemma shift_0_le p d : 0 <= d -> ext_le (shift p (- d)) p = true /\ ext_le p (shift p d) = true.
Proof. destruct p; cbn; intros; split; try reflexivity; apply Z.leb_le; lia. Qed.

(* a valid frame has its lower bound at or below its upper bound *)
Lemma valid_lo_le_hi f p : frame_valid f = true -> ext_le (lo_of (fstart f) p) (hi_of (fend f) p) = true.
Proof.
  unfold frame_valid, hi_of. intros H. apply andb_true_iff in H. destruct H as [Hn H].
  apply andb_true_iff in Hn. destruct Hn as [Hn1 Hn2].
  destruct (fstart f) as [|a| |a|], (fend f) as [|b| |b|]; cbn [lo_of bound_nonneg] in *; try discriminate;
    try reflexivity; try apply ext_le_refl;
    try apply Z.leb_le in Hn1; try apply Z.leb_le in Hn2; try apply Z.leb_le in H.
  all: try (destruct p; cbn; try reflexivity; apply Z.leb_le; lia).
  all: try (destruct p; cbn; reflexivity).
Qed.

(* ------------------------------------------------------------------ sortedness *)
Definition sorted_pos (ps : list ext) : Prop :=
  forall a b, (a <= b < length ps)%nat -> ext_le (nth a ps PInf) (nth b ps PInf) = true.

Lemma sortedb_ext_sound ps : sortedb_ext ps = true -> sorted_pos ps.
Proof.
  unfold sortedb_ext, sorted_pos. intros H. rewrite forallb_forall in H.
  intros a b Hab. remember (b - a)%nat as d eqn:Hd. revert b Hab Hd.
  induction d as [|d IH]; intros b Hab Hd.
  - replace b with a by lia. apply ext_le_refl.
  - destruct b as [|b]; [lia|].
    apply ext_le_trans with (nth b ps PInf).
    + apply IH; lia.
    + apply H. apply in_seq. lia.
Qed.

(* ------------------------------------------------------------------ the declarative frame is an interval *)
(* s and e "delimit" the frame of row i: rows from s on satisfy the lower bound, rows before e the upper bound *)
Definition delimits (f : frame) (ps : list ext) (i s e : nat) : Prop :=
  (s <= length ps)%nat /\ (e <= length ps)%nat /\
  forall j, (j < length ps)%nat ->
    ((s <= j)%nat <-> ext_le (lo_of (fstart f) (nth i ps PInf)) (nth j ps PInf) = true) /\
    ((j < e)%nat <-> ext_le (nth j ps PInf) (hi_of (fend f) (nth i ps PInf)) = true).

Lemma delimits_le f ps i s e : frame_valid f = true -> delimits f ps i s e -> (s <= e)%nat.
Proof.
  intros Hv (Hs & He & H).
  destruct (Nat.le_gt_cases s e) as [|Hlt]; [assumption|exfalso].
  assert (He' : (e < length ps)%nat) by lia.
  destruct (H e He') as [H1 H2].
  assert (Hlo : ext_le (lo_of (fstart f) (nth i ps PInf)) (nth e ps PInf) = false).
  { apply Bool.not_true_is_false. intro E. apply H1 in E. lia. }
  apply ext_le_total in Hlo.
  assert (ext_le (nth e ps PInf) (hi_of (fend f) (nth i ps PInf)) = true).
  { eapply ext_le_trans; [exact Hlo|]. apply valid_lo_le_hi; exact Hv. }
  apply H2 in H0. lia.
Qed.

Lemma delimits_filter f ps i s e :
  frame_valid f = true -> delimits f ps i s e ->
  filter (in_frame_pos f ps i) (seq 0 (length ps)) = seq s (e - s).
Proof.
  intros Hv Hd. pose proof (delimits_le _ _ _ _ _ Hv Hd) as Hse.
  destruct Hd as (Hs & He & H).
  apply filter_interval; [lia|].
  intros j Hj. unfold in_frame_pos. rewrite andb_true_iff.
  destruct (H j Hj) as [H1 H2]. rewrite <- H1, <- H2. lia.
Qed.

(* frames move forward: this is what makes resuming the search from the previous frame correct *)
Lemma delimits_monotone f ps i i' s e s' e' :
  sorted_pos ps -> (i <= i' < length ps)%nat ->
  delimits f ps i s e -> delimits f ps i' s' e' -> (s <= s')%nat /\ (e <= e')%nat.
Proof.
  intros Hsrt Hi (Hs & He & H) (Hs' & He' & H').
  pose proof (Hsrt i i' Hi) as Hp.
  split.
  - destruct (Nat.le_gt_cases s s') as [|Hlt]; [assumption|exfalso].
    assert (Hj : (s' < length ps)%nat) by lia.
    destruct (H' s' Hj) as [A _]. destruct (H s' Hj) as [B _].
    assert (ext_le (lo_of (fstart f) (nth i ps PInf)) (nth s' ps PInf) = true).
    { eapply ext_le_trans; [apply lo_of_mono; exact Hp|]. apply A. lia. }
    apply B in H0. lia.
  - destruct (Nat.le_gt_cases e e') as [|Hlt]; [assumption|exfalso].
    assert (Hj : (e' < length ps)%nat) by lia.
    destruct (H' e' Hj) as [_ A]. destruct (H e' Hj) as [_ B].
    assert (ext_le (nth e' ps PInf) (hi_of (fend f) (nth i' ps PInf)) = true).
    { eapply ext_le_trans; [apply B; lia|]. apply lo_of_mono; exact Hp. }
    apply A in H0. lia.
Qed.

(* ------------------------------------------------------------------ positions *)
Lemma gnums_from_length prev g ks : length (gnums_from prev g ks) = length ks.
Proof. revert prev g. induction ks as [|k r IH]; intros; cbn [gnums_from length]; [reflexivity|]. rewrite IH. reflexivity. Qed.

Lemma gnums_length ks : length (gnums ks) = length ks.
Proof. destruct ks; cbn [gnums length]; [reflexivity|]. rewrite gnums_from_length. reflexivity. Qed.

Lemma positions_length so u ks : length (positions so u ks) = length ks.
Proof.
  destruct u; cbn [positions]; rewrite !map_length.
  - apply seq_length.
  - reflexivity.
  - apply gnums_length.
Qed.

Lemma delimits_decl so f ks i s e :
  frame_valid f = true -> delimits f (positions so (funits f) ks) i s e ->
  decl_frame so f ks i = seq s (e - s).
Proof.
  intros Hv Hd. unfold decl_frame, in_frame.
  rewrite <- (positions_length so (funits f) ks). apply delimits_filter; assumption.
Qed.

(* ================================================================== ROWS *)
Ltac zb :=
  repeat match goal with
  | H : (_ <=? _) = true |- _ => apply Z.leb_le in H
  | H : (_ <=? _) = false |- _ => apply Z.leb_gt in H
  | |- context [?a <=? ?b] => destruct (Z.leb_spec a b)
  end.

Theorem rows_delimits so f ks i :
  funits f = Rows -> frame_valid f = true -> (i < length ks)%nat ->
  (forall n, fstart f = Foll n \/ fend f = Foll n -> Z.of_nat i + n + 1 <= usize_max) ->
  exists s e, rows_range f (zlen ks) (Z.of_nat i) = ORange (Z.of_nat s) (Z.of_nat e) /\
              delimits f (positions so Rows ks) i s e.
Proof.
  intros Hu Hv Hi Hfit.
  assert (Hv' := Hv). unfold frame_valid in Hv'.
  apply andb_true_iff in Hv'. destruct Hv' as [Hn Hv']. apply andb_true_iff in Hn. destruct Hn as [Hn1 Hn2].
  set (n := length ks) in *.
  assert (Hpos : forall j, (j < n)%nat -> nth j (positions so Rows ks) PInf = Fin (Z.of_nat j)).
  { intros j Hj. cbn [positions]. exact (nth_map_seq (fun i => Fin (Z.of_nat i)) _ j PInf Hj). }
  assert (Hlen : length (positions so Rows ks) = n) by apply positions_length.
  unfold rows_range, zlen. fold n.
  (* start *)
  assert (Hs : exists s, rows_start (fstart f) (Z.of_nat n) (Z.of_nat i) = inr (Z.of_nat s) /\ (s <= n)%nat /\
             forall j, (j < n)%nat -> ((s <= j)%nat <-> ext_le (lo_of (fstart f) (Fin (Z.of_nat i))) (Fin (Z.of_nat j)) = true)).
  { destruct (fstart f) as [|a| |a|] eqn:Es; cbn [rows_start lo_of shift ext_le bound_nonneg] in *.
    - exists O. split; [reflexivity|]. split; [lia|]. intros; split; intros; [reflexivity|lia].
    - apply Z.leb_le in Hn1. exists (Z.to_nat (Z.max 0 (Z.of_nat i - a))). split; [f_equal; lia|]. split; [lia|].
      intros j Hj. rewrite Z.leb_le. lia.
    - exists i. split; [reflexivity|]. split; [lia|]. intros j Hj. rewrite Z.leb_le. lia.
    - apply Z.leb_le in Hn1. pose proof (Hfit a (or_introl eq_refl)).
      destruct (Z.leb_spec (Z.of_nat i + a) usize_max); [|lia].
      exists (Z.to_nat (Z.min (Z.of_nat i + a) (Z.of_nat n))). split; [f_equal; lia|]. split; [lia|].
      intros j Hj. rewrite Z.leb_le. lia.
    - discriminate. }
  assert (He : exists e, rows_end (fend f) (Z.of_nat n) (Z.of_nat i) = inr (Z.of_nat e) /\ (e <= n)%nat /\
             forall j, (j < n)%nat -> ((j < e)%nat <-> ext_le (Fin (Z.of_nat j)) (hi_of (fend f) (Fin (Z.of_nat i))) = true)).
  { unfold hi_of. destruct (fend f) as [|b| |b|] eqn:Ee; cbn [rows_end lo_of shift ext_le bound_nonneg] in *.
    - destruct (fstart f); discriminate.
    - apply Z.leb_le in Hn2. destruct (Z.leb_spec b (Z.of_nat i)).
      + exists (Z.to_nat (Z.of_nat i - b + 1)). split; [f_equal; lia|]. split; [lia|].
        intros j Hj. rewrite Z.leb_le. lia.
      + exists O. split; [reflexivity|]. split; [lia|]. intros j Hj. rewrite Z.leb_le. lia.
    - exists (S i). split; [f_equal; lia|]. split; [lia|]. intros j Hj. rewrite Z.leb_le. lia.
    - apply Z.leb_le in Hn2. pose proof (Hfit b (or_intror eq_refl)).
      destruct (Z.leb_spec (Z.of_nat i + b + 1) usize_max); [|lia].
      exists (Z.to_nat (Z.min (Z.of_nat i + b + 1) (Z.of_nat n))). split; [f_equal; lia|]. split; [lia|].
      intros j Hj. rewrite Z.leb_le. lia.
    - exists n. split; [reflexivity|]. split; [lia|]. intros; split; intros; [reflexivity|lia]. }
  destruct Hs as (s & Hs1 & Hs2 & Hs3). destruct He as (e & He1 & He2 & He3).
  exists s, e. rewrite Hs1, He1. split; [reflexivity|].
  unfold delimits. rewrite Hlen. split; [exact Hs2|]. split; [exact He2|].
  intros j Hj. rewrite (Hpos i Hi), (Hpos j Hj). split; [apply Hs3|apply He3]; exact Hj.
Qed.

Theorem rows_range_eq_def_lemma so f ks i :
  funits f = Rows -> frame_valid f = true -> (i < length ks)%nat ->
  (forall n, fstart f = Foll n \/ fend f = Foll n -> Z.of_nat i + n + 1 <= usize_max) ->
  exists s e, rows_range f (zlen ks) (Z.of_nat i) = ORange (Z.of_nat s) (Z.of_nat e) /\
              (s <= e <= length ks)%nat /\ decl_frame so f ks i = seq s (e - s).
Proof.
  intros Hu Hv Hi Hfit. destruct (rows_delimits so f ks i Hu Hv Hi Hfit) as (s & e & Hr & Hd).
  exists s, e. split; [exact Hr|]. rewrite <- Hu in Hd. split.
  - pose proof (delimits_le _ _ _ _ _ Hv Hd). destruct Hd as (_ & He & _). rewrite positions_length in He. lia.
  - apply delimits_decl; assumption.
Qed.

(* ================================================================== RANGE *)
Lemma is_lt_cmp so a b : is_lt (cmp_key so a b) = ext_lt (ord so a) (ord so b).
Proof.
  unfold ext_lt, cmp_key, ord. destruct a as [x|], b as [y|]; destruct (so_nf so), (so_desc so); cbn; try reflexivity.
  all: match goal with |- context [?u ?= ?v] => destruct (Z.compare_spec u v) end; cbn;
       match goal with |- context [?u <=? ?v] => destruct (Z.leb_spec u v) end; try reflexivity; lia.
Qed.

Lemma is_le_cmp so a b : is_le (cmp_key so a b) = ext_le (ord so a) (ord so b).
Proof.
  unfold cmp_key, ord. destruct a as [x|], b as [y|]; destruct (so_nf so), (so_desc so); cbn; try reflexivity.
  all: match goal with |- context [?u ?= ?v] => destruct (Z.compare_spec u v) end; cbn;
       match goal with |- context [?u <=? ?v] => destruct (Z.leb_spec u v) end; try reflexivity; lia.
Qed.

Lemma search_spec p ks fuel : forall low,
  (low <= search p ks low fuel <= low + fuel)%nat /\
  (forall j, (low <= j < search p ks low fuel)%nat -> p (nth j ks None) = true) /\
  ((search p ks low fuel < low + fuel)%nat -> p (nth (search p ks low fuel) ks None) = false).
Proof.
  induction fuel as [|fuel IH]; intros low; cbn [search].
  - split; [lia|]. split; intros; lia.
  - destruct (p (nth low ks None)) eqn:E.
    + destruct (IH (S low)) as (A & B & C). split; [lia|]. split.
      * intros j Hj. destruct (Nat.eq_dec j low) as [->|]; [exact E|apply B; lia].
      * intros H. apply C. lia.
    + split; [lia|]. split; [intros; lia|intros; exact E].
Qed.

(* a linear search resumed from [start] finds the boundary of a downward closed predicate, provided the
   predicate holds on every row before [start] *)
Lemma search_sorted (pr : nat -> bool) (p : key -> bool) ks start len :
  (forall j, (j < len)%nat -> p (nth j ks None) = pr j) ->
  (forall a b, (a <= b < len)%nat -> pr b = true -> pr a = true) ->
  (start <= len)%nat -> (forall j, (j < start)%nat -> pr j = true) ->
  (search_in_slice p ks start len <= len)%nat /\
  forall j, (j < len)%nat -> ((j < search_in_slice p ks start len)%nat <-> pr j = true).
Proof.
  intros Hp Hdown Hs Hbefore. unfold search_in_slice.
  destruct (search_spec p ks (len - start) start) as (A & B & C).
  set (r := search p ks start (len - start)) in *.
  split; [lia|]. intros j Hj. split.
  - intros Hjr. destruct (Nat.lt_ge_cases j start) as [Hlt|Hge]; [apply Hbefore; exact Hlt|].
    rewrite <- Hp by exact Hj. apply B. lia.
  - intros Hpj. destruct (Nat.lt_ge_cases j r) as [|Hge]; [assumption|exfalso].
    assert (Hr : (r < start + (len - start))%nat) by lia.
    apply C in Hr. rewrite Hp in Hr by lia.
    rewrite (Hdown r j) in Hr; [discriminate|lia|exact Hpj].
Qed.

Definition kpos (so : sortopt) (ks : list key) (j : nat) : ext := ord so (nth j ks None).

Lemma pos_range so ks j : (j < length ks)%nat -> nth j (positions so Range ks) PInf = kpos so ks j.
Proof.
  intros H. cbn [positions]. unfold kpos.
  rewrite (nth_indep _ PInf (ord so None)) by (rewrite map_length; exact H). apply map_nth.
Qed.

Definition sorted_k (so : sortopt) (ks : list key) : Prop :=
  forall a b, (a <= b < length ks)%nat -> ext_le (kpos so ks a) (kpos so ks b) = true.

Lemma sorted_keys_sound so ks : sorted_keys so ks = true -> sorted_k so ks.
Proof.
  intros H a b Hab. apply sortedb_ext_sound in H.
  specialize (H a b). rewrite map_length in H. specialize (H Hab).
  change (map (ord so) ks) with (positions so Range ks) in H. rewrite !pos_range in H by lia. exact H.
Qed.

Definition side_pred (side : bool) (p t : ext) : bool := if side then ext_lt p t else ext_le p t.

Lemma side_pred_down side a b t : ext_le a b = true -> side_pred side b t = true -> side_pred side a t = true.
Proof.
  destruct side; cbn [side_pred]; intros H1 H2.
  - eapply ext_le_lt_trans; eassumption.
  - eapply ext_le_trans; eassumption.
Qed.

(* the search of calculate_index_of_row for a target key whose position is t *)
Lemma range_go_spec so side ks start (target : key) t :
  sorted_k so ks -> ord so target = t ->
  (start <= length ks)%nat -> (forall j, (j < start)%nat -> side_pred side (kpos so ks j) t = true) ->
  let r := search_in_slice (fun k => if side then is_lt (cmp_key so k target) else is_le (cmp_key so k target))
                           ks start (length ks) in
  (r <= length ks)%nat /\ forall j, (j < length ks)%nat -> ((j < r)%nat <-> side_pred side (kpos so ks j) t = true).
Proof.
  intros Hsrt Ht Hs Hb. cbv zeta.
  apply (search_sorted (fun j => side_pred side (kpos so ks j) t)).
  - intros j Hj. unfold kpos, side_pred. subst t. destruct side; [apply is_lt_cmp|apply is_le_cmp].
  - intros a b Hab Hpb. eapply side_pred_down; [apply Hsrt; exact Hab|exact Hpb].
  - exact Hs.
  - exact Hb.
Qed.

Definition delta_fits (so : sortopt) (search_side : bool) (delta : option Z) (k : key) : Prop :=
  match delta, k with
  | Some d, Some v => i64_min <= (if Bool.eqb search_side (so_desc so) then v + d else v - d) <= i64_max
  | _, _ => True
  end.

Definition delta_target (search_side : bool) (delta : option Z) (p : ext) : ext :=
  match delta with None => p | Some d => shift p (if search_side then - d else d) end.

Lemma range_index_spec so (side search_side : bool) ks (ls le idx : nat) delta :
  sorted_k so ks -> (idx < length ks)%nat ->
  delta_fits so search_side delta (nth idx ks None) ->
  let t := delta_target search_side delta (kpos so ks idx) in
  let start := if side then ls else le in
  (start <= length ks)%nat -> (forall j, (j < start)%nat -> side_pred side (kpos so ks j) t = true) ->
  let r := range_index so side search_side ks ls le idx delta (length ks) in
  (r <= length ks)%nat /\ forall j, (j < length ks)%nat -> ((j < r)%nat <-> side_pred side (kpos so ks j) t = true).
Proof.
  intros Hsrt Hi Hfit t start Hs Hb. unfold range_index. fold start.
  unfold t, delta_target, kpos in *. unfold delta_fits in Hfit.
  destruct delta as [d|].
  - destruct (nth idx ks None) as [v|] eqn:Ek.
    + destruct (Z.leb_spec i64_min (if Bool.eqb search_side (so_desc so) then v + d else v - d)); [|lia].
      destruct (Z.leb_spec (if Bool.eqb search_side (so_desc so) then v + d else v - d) i64_max); [|lia].
      cbn [andb]. apply range_go_spec; try assumption.
      unfold ord, shift. destruct search_side, (so_desc so); cbn [Bool.eqb]; f_equal; lia.
    + apply range_go_spec; try assumption.
      unfold ord, shift. destruct (so_nf so); reflexivity.
  - apply range_go_spec; try assumption. reflexivity.
Qed.

Definition range_fits (so : sortopt) (b : bound) (k : key) : Prop :=
  match b with
  | Prec d => delta_fits so true (Some d) k
  | Foll d => delta_fits so false (Some d) k
  | _ => True
  end.

Lemma ext_lt_false_le a b : ext_lt a b = true <-> ext_le b a <> true.
Proof. unfold ext_lt. destruct (ext_le b a); cbn; split; intros; try discriminate; try reflexivity; congruence. Qed.

(* one call of WindowFrameStateRange::calculate_range: correct for every resume point that lies before the frame *)
Theorem range_step so f ks (ls le idx : nat) :
  funits f = Range -> frame_valid f = true -> sorted_keys so ks = true -> (idx < length ks)%nat ->
  range_fits so (fstart f) (nth idx ks None) -> range_fits so (fend f) (nth idx ks None) ->
  (ls <= length ks)%nat -> (le <= length ks)%nat ->
  (forall j, (j < ls)%nat -> ext_lt (kpos so ks j) (lo_of (fstart f) (kpos so ks idx)) = true) ->
  (forall j, (j < le)%nat -> ext_le (kpos so ks j) (hi_of (fend f) (kpos so ks idx)) = true) ->
  exists s e, range_range so f ks ls le (length ks) idx = Some (s, e) /\
              delimits f (positions so Range ks) idx s e.
Proof.
  intros Hu Hv Hsrt Hi Hf1 Hf2 Hls Hle Hrs Hre.
  apply sorted_keys_sound in Hsrt.
  assert (Hv' := Hv). unfold frame_valid in Hv'.
  apply andb_true_iff in Hv'. destruct Hv' as [_ Hv'].
  (* start *)
  assert (Hs : exists s, match fstart f with
             | UnbPrec => Some O
             | Prec n => Some (range_index so true true ks ls le idx (Some n) (length ks))
             | Cur => Some (range_index so true true ks ls le idx None (length ks))
             | Foll n => Some (range_index so true false ks ls le idx (Some n) (length ks))
             | UnbFoll => None end = Some s /\ (s <= length ks)%nat /\
             forall j, (j < length ks)%nat ->
               ((s <= j)%nat <-> ext_le (lo_of (fstart f) (kpos so ks idx)) (kpos so ks j) = true)).
  { assert (G : forall side_s dl, delta_fits so side_s dl (nth idx ks None) ->
               lo_of (fstart f) (kpos so ks idx) = delta_target side_s dl (kpos so ks idx) ->
               let r := range_index so true side_s ks ls le idx dl (length ks) in
               (r <= length ks)%nat /\ forall j, (j < length ks)%nat ->
                 ((r <= j)%nat <-> ext_le (lo_of (fstart f) (kpos so ks idx)) (kpos so ks j) = true)).
    { intros side_s dl Hfit Heq.
      destruct (range_index_spec so true side_s ks ls le idx dl Hsrt Hi Hfit Hls) as (A & B).
      - intros j Hj. cbn [side_pred]. rewrite <- Heq. apply Hrs; exact Hj.
      - cbv zeta. split; [exact A|]. intros j Hj. specialize (B j Hj). cbn [side_pred] in B.
        rewrite <- Heq in B. rewrite ext_lt_false_le in B.
        set (r := range_index so true side_s ks ls le idx dl (length ks)) in *.
        split.
        + intros Hrj. destruct (ext_le (lo_of (fstart f) (kpos so ks idx)) (kpos so ks j)) eqn:E; [reflexivity|].
          exfalso. assert (j < r)%nat by (apply B; discriminate). lia.
        + intros E. destruct (Nat.le_gt_cases r j) as [|Hlt]; [assumption|].
          apply B in Hlt. congruence. }
    destruct (fstart f) as [|a| |a|] eqn:Es; cbn [range_fits] in Hf1.
    - exists O. split; [reflexivity|]. split; [lia|]. intros; cbn [lo_of ext_le]. split; intros; [reflexivity|lia].
    - eexists. split; [reflexivity|]. apply (G true (Some a)); [exact Hf1|reflexivity].
    - eexists. split; [reflexivity|]. apply (G true None); [exact I|reflexivity].
    - eexists. split; [reflexivity|]. apply (G false (Some a)); [exact Hf1|reflexivity].
    - discriminate. }
  assert (He : exists e, match fend f with
             | UnbPrec => None
             | Prec n => Some (range_index so false true ks ls le idx (Some n) (length ks))
             | Cur => Some (range_index so false false ks ls le idx None (length ks))
             | Foll n => Some (range_index so false false ks ls le idx (Some n) (length ks))
             | UnbFoll => Some (length ks) end = Some e /\ (e <= length ks)%nat /\
             forall j, (j < length ks)%nat ->
               ((j < e)%nat <-> ext_le (kpos so ks j) (hi_of (fend f) (kpos so ks idx)) = true)).
  { assert (G : forall side_s dl, delta_fits so side_s dl (nth idx ks None) ->
               hi_of (fend f) (kpos so ks idx) = delta_target side_s dl (kpos so ks idx) ->
               let r := range_index so false side_s ks ls le idx dl (length ks) in
               (r <= length ks)%nat /\ forall j, (j < length ks)%nat ->
                 ((j < r)%nat <-> ext_le (kpos so ks j) (hi_of (fend f) (kpos so ks idx)) = true)).
    { intros side_s dl Hfit Heq.
      destruct (range_index_spec so false side_s ks ls le idx dl Hsrt Hi Hfit Hle) as (A & B).
      - intros j Hj. cbn [side_pred]. rewrite <- Heq. apply Hre; exact Hj.
      - cbv zeta. split; [exact A|]. intros j Hj. specialize (B j Hj). cbn [side_pred] in B.
        rewrite <- Heq in B. exact B. }
    unfold hi_of in *. destruct (fend f) as [|b| |b|] eqn:Ee; cbn [range_fits] in Hf2.
    - destruct (fstart f); discriminate.
    - eexists. split; [reflexivity|]. apply (G true (Some b)); [exact Hf2|reflexivity].
    - eexists. split; [reflexivity|]. apply (G false None); [exact I|reflexivity].
    - eexists. split; [reflexivity|]. apply (G false (Some b)); [exact Hf2|reflexivity].
    - exists (length ks). split; [reflexivity|]. split; [lia|]. intros j Hj. cbn [lo_of].
      split; intros; [|exact Hj]. destruct (kpos so ks j); reflexivity. }
  destruct Hs as (s & Hs1 & Hs2 & Hs3). destruct He as (e & He1 & He2 & He3).
  exists s, e. unfold range_range. rewrite Hs1, He1. split; [reflexivity|].
  unfold delimits. rewrite positions_length. split; [exact Hs2|]. split; [exact He2|].
  intros j Hj. rewrite !pos_range by assumption. split; [apply Hs3|apply He3]; exact Hj.
Qed.

(* the frame of an earlier row is a valid point to resume the search from *)
Lemma delimits_resume f ps i' i s e :
  sorted_pos ps -> (i' <= i < length ps)%nat -> delimits f ps i' s e ->
  (forall j, (j < s)%nat -> ext_lt (nth j ps PInf) (lo_of (fstart f) (nth i ps PInf)) = true) /\
  (forall j, (j < e)%nat -> ext_le (nth j ps PInf) (hi_of (fend f) (nth i ps PInf)) = true).
Proof.
  intros Hsrt Hi (Hs & He & H). pose proof (Hsrt i' i Hi) as Hp. split; intros j Hj.
  - assert (Hjl : (j < length ps)%nat) by lia. destruct (H j Hjl) as [A _].
    eapply ext_lt_le_trans; [|apply lo_of_mono; exact Hp].
    apply ext_lt_false_le. intros E. apply A in E. lia.
  - assert (Hjl : (j < length ps)%nat) by lia. destruct (H j Hjl) as [_ B].
    eapply ext_le_trans; [apply B; exact Hj|]. apply lo_of_mono; exact Hp.
Qed.

Definition all_fit (so : sortopt) (f : frame) (ks : list key) : Prop :=
  forall i, (i < length ks)%nat -> range_fits so (fstart f) (nth i ks None) /\ range_fits so (fend f) (nth i ks None).

Lemma sorted_k_pos so ks : sorted_k so ks -> sorted_pos (positions so Range ks).
Proof.
  intros H a b Hab. rewrite positions_length in Hab. rewrite !pos_range by lia. apply H; exact Hab.
Qed.

Lemma range_run_correct so f ks :
  funits f = Range -> frame_valid f = true -> sorted_keys so ks = true -> all_fit so f ks ->
  forall fuel i0 ls le,
    (i0 + fuel = length ks)%nat -> (ls <= length ks)%nat -> (le <= length ks)%nat ->
    (forall i, (i0 <= i < length ks)%nat ->
       (forall j, (j < ls)%nat -> ext_lt (kpos so ks j) (lo_of (fstart f) (kpos so ks i)) = true) /\
       (forall j, (j < le)%nat -> ext_le (kpos so ks j) (hi_of (fend f) (kpos so ks i)) = true)) ->
    forall i, (i0 <= i < length ks)%nat ->
      exists s e, nth (i - i0) (range_run so f ks ls le i0 fuel) None = Some (s, e) /\
                  delimits f (positions so Range ks) i s e.
Proof.
  intros Hu Hv Hsrt Hfit. induction fuel as [|fuel IH]; intros i0 ls le Hlen Hls Hle Hres i Hi; [lia|].
  cbn [range_run].
  assert (Hi0 : (i0 < length ks)%nat) by lia.
  destruct (Hfit i0 Hi0) as [Hf1 Hf2].
  destruct (Hres i0 (conj (le_n i0) Hi0)) as [Hr1 Hr2].
  destruct (range_step so f ks ls le i0 Hu Hv Hsrt Hi0 Hf1 Hf2 Hls Hle Hr1 Hr2) as (s & e & Hrr & Hd).
  rewrite Hrr.
  destruct (Nat.eq_dec i i0) as [->|Hne].
  - rewrite Nat.sub_diag. cbn [nth]. exists s, e. split; [reflexivity|exact Hd].
  - replace (i - i0)%nat with (S (i - S i0)) by lia. cbn [nth].
    apply IH; try lia.
    + destruct Hd as (A & _). rewrite positions_length in A. exact A.
    + destruct Hd as (_ & A & _). rewrite positions_length in A. exact A.
    + intros i1 Hi1.
      pose proof (sorted_k_pos so ks (sorted_keys_sound so ks Hsrt)) as Hsp.
      assert (Hii : (i0 <= i1 < length (positions so Range ks))%nat) by (rewrite positions_length; lia).
      destruct (delimits_resume f _ i0 i1 s e Hsp Hii Hd) as [R1 R2].
      pose proof Hd as (A1 & A2 & _). rewrite positions_length in A1, A2.
      split; intros j Hj.
      * specialize (R1 j Hj). rewrite !pos_range in R1 by lia. exact R1.
      * specialize (R2 j Hj). rewrite !pos_range in R2 by lia. exact R2.
Qed.

Theorem range_range_eq_def_lemma so f ks i :
  funits f = Range -> frame_valid f = true -> sorted_keys so ks = true -> all_fit so f ks ->
  (i < length ks)%nat ->
  exists s e, nth i (range_run so f ks 0 0 0 (length ks)) None = Some (s, e) /\
              (s <= e <= length ks)%nat /\ decl_frame so f ks i = seq s (e - s).
Proof.
  intros Hu Hv Hsrt Hfit Hi.
  destruct (range_run_correct so f ks Hu Hv Hsrt Hfit (length ks) 0 0 0) with (i := i) as (s & e & Hn & Hd); try lia.
  - intros i1 Hi1. split; intros; lia.
  - rewrite Nat.sub_0_r in Hn. exists s, e. split; [exact Hn|]. rewrite <- Hu in Hd. split.
    + pose proof (delimits_le _ _ _ _ _ Hv Hd). destruct Hd as (_ & He & _). rewrite positions_length in He. lia.
    + apply delimits_decl; assumption.
Qed.

(* frames move forward (all three units; positions sorted) *)
Theorem frame_monotone_lemma so f ks i i' s e s' e' :
  sorted_pos (positions so (funits f) ks) -> (i <= i' < length ks)%nat ->
  delimits f (positions so (funits f) ks) i s e -> delimits f (positions so (funits f) ks) i' s' e' ->
  (s <= s')%nat /\ (e <= e')%nat.
Proof.
  intros Hs Hi. apply delimits_monotone; [exact Hs|rewrite positions_length; exact Hi].
Qed.

Lemma rows_positions_sorted so ks : sorted_pos (positions so Rows ks).
Proof.
  intros a b Hab. rewrite positions_length in Hab. cbn [positions].
  rewrite (nth_map_seq (fun i => Fin (Z.of_nat i)) _ a PInf) by lia.
  rewrite (nth_map_seq (fun i => Fin (Z.of_nat i)) _ b PInf) by lia.
  cbn. apply Z.leb_le. lia.
Qed.

Lemma gnums_from_sorted prev g ks :
  forall a b, (a <= b < length ks)%nat ->
    g <= nth a (gnums_from prev g ks) 0 <= nth b (gnums_from prev g ks) 0.
Proof.
  revert prev g. induction ks as [|k r IH]; intros prev g a b Hab; cbn [length] in Hab; [lia|].
  cbn [gnums_from]. set (g' := if key_eqb k prev then g else g + 1).
  assert (Hg : g <= g') by (unfold g'; destruct (key_eqb k prev); lia).
  destruct a as [|a], b as [|b]; cbn [nth]; try lia.
  - destruct (IH k g' 0%nat b) as [A B]; [lia|]. lia.
  - destruct (IH k g' a b) as [A B]; [lia|]. lia.
Qed.

Lemma groups_positions_sorted so ks : sorted_pos (positions so Groups ks).
Proof.
  intros a b Hab. rewrite positions_length in Hab. cbn [positions].
  rewrite (nth_indep _ PInf (Fin 0)) by (rewrite map_length, gnums_length; lia).
  rewrite (nth_indep (map Fin (gnums ks)) PInf (Fin 0)) by (rewrite map_length, gnums_length; lia).
  rewrite !map_nth. cbn [ext_le]. apply Z.leb_le.
  destruct ks as [|k r]; cbn [length] in Hab; [lia|]. cbn [gnums].
  destruct a as [|a], b as [|b]; cbn [nth]; try lia.
  - destruct (gnums_from_sorted k 0 r 0%nat b); lia.
  - destruct (gnums_from_sorted k 0 r a b); lia.
Qed.

Theorem positions_sorted so u ks : (u = Range -> sorted_keys so ks = true) -> sorted_pos (positions so u ks).
Proof.
  destruct u; intros H.
  - apply rows_positions_sorted.
  - apply sorted_k_pos, sorted_keys_sound, H. reflexivity.
  - apply groups_positions_sorted.
Qed.

(* ================================================================== sliding evaluation *)
Lemma firstn_add {A} (n m : nat) (l : list A) : firstn (n + m) l = firstn n l ++ firstn m (skipn n l).
Proof.
  revert l. induction n as [|n IH]; intros l; [reflexivity|].
  destruct l as [|x l]; cbn [plus firstn skipn app]; [rewrite firstn_nil; reflexivity|]. rewrite IH. reflexivity.
Qed.

Lemma skipn_add {A} (a b : nat) (l : list A) : skipn (a + b) l = skipn b (skipn a l).
Proof.
  revert l. induction a as [|a IH]; intros l; [reflexivity|].
  destruct l as [|x l]; cbn [plus skipn]; [rewrite skipn_nil; reflexivity|]. apply IH.
Qed.

Lemma slice_split {A} (l : list A) (a b c : nat) : (a <= b <= c)%nat -> slice l a c = slice l a b ++ slice l b c.
Proof.
  intros H. unfold slice. replace (c - a)%nat with ((b - a) + (c - b))%nat by lia.
  rewrite firstn_add. f_equal. f_equal. rewrite <- skipn_add. f_equal. lia.
Qed.

Lemma slice_empty {A} (l : list A) a : slice l a a = [].
Proof. unfold slice. rewrite Nat.sub_diag. reflexivity. Qed.

Lemma zsum_app a b : zsum (a ++ b) = zsum a + zsum b.
Proof. unfold zsum. induction a as [|x a IH]; cbn [app fold_right]; [lia|]. rewrite IH. lia. Qed.

Lemma nonnull_app a b : nonnull (a ++ b) = nonnull a ++ nonnull b.
Proof. apply flat_map_app. Qed.

Definition vsum (xs : list (option Z)) (a b : nat) : Z := zsum (nonnull (slice xs a b)).
Definition vcnt (xs : list (option Z)) (a b : nat) : Z := zlen (nonnull (slice xs a b)).

Lemma vsum_split xs a b c : (a <= b <= c)%nat -> vsum xs a c = vsum xs a b + vsum xs b c.
Proof. intros H. unfold vsum. rewrite (slice_split xs a b c H), nonnull_app, zsum_app. reflexivity. Qed.

Lemma vcnt_split xs a b c : (a <= b <= c)%nat -> vcnt xs a c = vcnt xs a b + vcnt xs b c.
Proof.
  intros H. unfold vcnt, zlen. rewrite (slice_split xs a b c H), nonnull_app, app_length. lia.
Qed.

Lemma vsum_empty xs a : vsum xs a a = 0.
Proof. unfold vsum. rewrite slice_empty. reflexivity. Qed.
Lemma vcnt_empty xs a : vcnt xs a a = 0.
Proof. unfold vcnt. rewrite slice_empty. reflexivity. Qed.

Lemma acc_of_eq xs s e : acc_of xs (s, e) = {| a_sum := vsum xs s e; a_cnt := vcnt xs s e |}.
Proof. unfold acc_of, acc_update, acc0, vsum, vcnt. cbn [fst snd a_sum a_cnt]. f_equal; lia. Qed.

Lemma upd_if xs (A : acc) a b : (a <= b)%nat ->
  (if (0 <? b - a)%nat then acc_update A (slice xs a b) else A) =
  {| a_sum := a_sum A + vsum xs a b; a_cnt := a_cnt A + vcnt xs a b |}.
Proof.
  intros H. destruct (Nat.ltb_spec 0 (b - a)) as [|Hz]; [reflexivity|].
  replace b with a by lia. rewrite vsum_empty, vcnt_empty. destruct A; cbn. f_equal; lia.
Qed.

Lemma retr_if xs (A : acc) a b : (a <= b)%nat ->
  (if (0 <? b - a)%nat then acc_retract A (slice xs a b) else A) =
  {| a_sum := a_sum A - vsum xs a b; a_cnt := a_cnt A - vcnt xs a b |}.
Proof.
  intros H. destruct (Nat.ltb_spec 0 (b - a)) as [|Hz]; [reflexivity|].
  replace b with a by lia. rewrite vsum_empty, vcnt_empty. destruct A; cbn. f_equal; lia.
Qed.

(* one step of the sliding evaluation: the accumulator of the last frame becomes the accumulator of the new one *)
Lemma slide_step xs s e s' e' :
  (s <= e)%nat -> (s' <= e')%nat -> (s <= s')%nat -> (e <= e')%nat ->
  slide xs (acc_of xs (s, e)) (s, e) (s', e') = acc_of xs (s', e').
Proof.
  intros H1 H2 H3 H4. unfold slide. cbn [fst snd]. rewrite !acc_of_eq.
  destruct (Nat.eqb_spec s' e') as [->|Hne].
  - rewrite retr_if by exact H1. cbn [a_sum a_cnt]. rewrite vsum_empty, vcnt_empty. f_equal; lia.
  - rewrite upd_if by exact H4. rewrite retr_if by exact H3. cbn [a_sum a_cnt].
    pose proof (vsum_split xs s e e' (conj H1 H4)). pose proof (vcnt_split xs s e e' (conj H1 H4)).
    pose proof (vsum_split xs s s' e' (conj H3 H2)). pose proof (vcnt_split xs s s' e' (conj H3 H2)).
    f_equal; lia.
Qed.

(* frames that move forward *)
Fixpoint forward_frames (last : nat * nat) (frames : list (nat * nat)) : Prop :=
  match frames with
  | [] => True
  | c :: r => ((fst last <= fst c)%nat /\ (snd last <= snd c)%nat /\ (fst c <= snd c)%nat) /\ forward_frames c r
  end.

Theorem sliding_eq_recompute_lemma xs : forall frames last,
  (fst last <= snd last)%nat -> forward_frames last frames ->
  slide_run xs (acc_of xs last) last frames = map (acc_of xs) frames.
Proof.
  induction frames as [|c r IH]; intros last Hl Hf; [reflexivity|].
  destruct Hf as [(A & B & C) Hr]. destruct last as [s e], c as [s' e']. cbn [fst snd] in *.
  cbn [slide_run map]. rewrite slide_step by assumption. f_equal. apply IH; assumption.
Qed.

(* the values read from the accumulator are the SQL aggregates over the frame's rows *)
Lemma skipn_nth_cons {A} (l : list A) (s : nat) d : (s < length l)%nat -> skipn s l = nth s l d :: skipn (S s) l.
Proof.
  revert s. induction l as [|x l IH]; intros s H; cbn [length] in H; [lia|].
  destruct s as [|s]; [reflexivity|]. cbn [skipn nth]. apply IH. lia.
Qed.

Lemma frame_values_slice {A} (l : list A) d : forall n s, (s + n <= length l)%nat ->
  map (fun j => nth j l d) (seq s n) = slice l s (s + n).
Proof.
  unfold slice. induction n as [|n IH]; intros s H.
  - rewrite Nat.add_0_r, Nat.sub_diag. reflexivity.
  - cbn [seq map]. replace (s + S n - s)%nat with (S n) by lia.
    rewrite (skipn_nth_cons l s d) by lia. cbn [firstn]. f_equal.
    rewrite IH by lia. f_equal. lia.
Qed.

Lemma nonnull_nil_len l : zlen (nonnull l) = 0 <-> nonnull l = [].
Proof. unfold zlen. destruct (nonnull l); cbn [length]; split; intros; try reflexivity; try discriminate; lia. Qed.

Theorem acc_values xs s e :
  acc_sum (acc_of xs (s, e)) = eval_over FSum (slice xs s e) /\
  acc_count (acc_of xs (s, e)) = eval_over FCount (slice xs s e).
Proof.
  rewrite acc_of_eq. unfold acc_sum, acc_count, eval_over, vsum, vcnt. cbn [a_sum a_cnt]. split; [|reflexivity].
  destruct (Z.eqb_spec (zlen (nonnull (slice xs s e))) 0) as [E|E].
  - apply nonnull_nil_len in E. rewrite E. reflexivity.
  - destruct (nonnull (slice xs s e)) eqn:En; [exfalso; apply E; reflexivity|reflexivity].
Qed.

(* the frame computed earlier on a SHORTER buffer (BoundedWindowAggExec: fewer rows had arrived) is also a valid
   resume point *)
Lemma nth_firstn_lt {A} (l : list A) d : forall m j, (j < m)%nat -> nth j (firstn m l) d = nth j l d.
Proof.
  induction l as [|x l IH]; intros m j H; [rewrite firstn_nil; reflexivity|].
  destruct m as [|m]; [lia|]. destruct j as [|j]; [reflexivity|]. cbn [firstn nth]. apply IH. lia.
Qed.

Lemma delimits_resume_prefix f ps m i' i s e :
  sorted_pos ps -> (i' < m <= length ps)%nat -> (i' <= i < length ps)%nat -> delimits f (firstn m ps) i' s e ->
  (forall j, (j < s)%nat -> ext_lt (nth j ps PInf) (lo_of (fstart f) (nth i ps PInf)) = true) /\
  (forall j, (j < e)%nat -> ext_le (nth j ps PInf) (hi_of (fend f) (nth i ps PInf)) = true).
Proof.
  intros Hsrt Hm Hi (Hs & He & H). rewrite firstn_length_le in Hs, He, H by lia.
  assert (Hp : ext_le (nth i' ps PInf) (nth i ps PInf) = true) by (apply Hsrt; lia).
  rewrite (nth_firstn_lt ps PInf m i') in H by lia.
  split; intros j Hj.
  - assert (Hjm : (j < m)%nat) by lia. destruct (H j Hjm) as [A _]. rewrite nth_firstn_lt in A by exact Hjm.
    eapply ext_lt_le_trans; [|apply lo_of_mono; exact Hp].
    apply ext_lt_false_le. intros E. apply A in E. lia.
  - assert (Hjm : (j < m)%nat) by lia. destruct (H j Hjm) as [_ B]. rewrite nth_firstn_lt in B by exact Hjm.
    eapply ext_le_trans; [apply B; exact Hj|]. apply lo_of_mono; exact Hp.
Qed.
