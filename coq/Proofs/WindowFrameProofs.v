(* C09 -- proofs about window frames: the incremental computations of window_state.rs equal the declarative
   frame definition; frames move forward; sliding evaluation equals recomputation. *)
From DF Require Import Base.Prelude Model.WindowFrame.
From Coq Require Import Lia.
Open Scope Z_scope.

(* ------------------------------------------------------------------ lists *)
Lemma filter_none {A} (p : A -> bool) l : (forall x, In x l -> p x = false) -> filter p l = [].
Proof.
  induction l as [|a l IH]; intros H; cbn [filter]; [reflexivity|].
  rewrite (H a (or_introl eq_refl)). apply IH. intros x Hx. apply H. right; exact Hx.
Qed.

Lemma filter_all {A} (p : A -> bool) l : (forall x, In x l -> p x = true) -> filter p l = l.
Proof.
  induction l as [|a l IH]; intros H; cbn [filter]; [reflexivity|].
  rewrite (H a (or_introl eq_refl)). f_equal. apply IH. intros x Hx. apply H. right; exact Hx.
Qed.

(* a predicate that holds exactly on [s, e) selects seq s (e - s) *)
Lemma filter_interval (p : nat -> bool) (n s e : nat) :
  (s <= e <= n)%nat ->
  (forall j, (j < n)%nat -> (p j = true <-> (s <= j < e)%nat)) ->
  filter p (seq 0 n) = seq s (e - s).
Proof.
  intros Hse Hp.
  replace n with (s + ((e - s) + (n - e)))%nat by lia.
  rewrite seq_app, (seq_app (e - s)). rewrite !filter_app. cbn [plus].
  rewrite (filter_none p (seq 0 s)), (filter_all p (seq s (e - s))), (filter_none p (seq (s + (e - s)) (n - e))).
  - rewrite app_nil_r. reflexivity.
  - intros x Hx. apply in_seq in Hx. destruct (p x) eqn:E; [|reflexivity]. apply Hp in E; lia.
  - intros x Hx. apply in_seq in Hx. apply Hp; lia.
  - intros x Hx. apply in_seq in Hx. destruct (p x) eqn:E; [|reflexivity]. apply Hp in E; lia.
Qed.

Lemma nth_map_seq {A} (g : nat -> A) n j d : (j < n)%nat -> nth j (map g (seq 0 n)) d = g j.
Proof.
  intros H. rewrite (nth_indep _ d (g O)) by (rewrite map_length, seq_length; exact H).
  rewrite map_nth. rewrite seq_nth by exact H. reflexivity.
Qed.

(* ------------------------------------------------------------------ extended order *)
Lemma ext_le_refl a : ext_le a a = true.
Proof. destruct a; cbn; auto. apply Z.leb_refl. Qed.

Lemma ext_le_trans a b c : ext_le a b = true -> ext_le b c = true -> ext_le a c = true.
Proof.
  destruct a, b, c; cbn; intros H1 H2; try reflexivity; try discriminate.
  apply Z.leb_le in H1, H2. apply Z.leb_le. lia.
Qed.

Lemma ext_le_total a b : ext_le a b = false -> ext_le b a = true.
Proof.
  destruct a, b; cbn; intros H; try reflexivity; try discriminate.
  apply Z.leb_gt in H. apply Z.leb_le. lia.
Qed.

Lemma ext_lt_le_trans a b c : ext_lt a b = true -> ext_le b c = true -> ext_lt a c = true.
Proof.
  unfold ext_lt. intros H1 H2. destruct (ext_le c a) eqn:E; [|reflexivity].
  rewrite (ext_le_trans _ _ _ H2 E) in H1. discriminate.
Qed.

Lemma ext_le_lt_trans a b c : ext_le a b = true -> ext_lt b c = true -> ext_lt a c = true.
Proof.
  unfold ext_lt. intros H1 H2. destruct (ext_le c a) eqn:E; [|reflexivity].
  rewrite (ext_le_trans _ _ _ E H1) in H2. discriminate.
Qed.

Lemma shift_mono a b d d' : ext_le a b = true -> d <= d' -> ext_le (shift a d) (shift b d') = true.
Proof.
  destruct a, b; cbn; intros H Hd; try reflexivity; try discriminate.
  apply Z.leb_le in H. apply Z.leb_le. lia.
Qed.

(* the bounds of a frame move forward with the position of the current row *)
Lemma lo_of_mono b p q : ext_le p q = true -> ext_le (lo_of b p) (lo_of b q) = true.
Proof.
  intros H. destruct b; cbn [lo_of]; try reflexivity; try exact H; apply shift_mono; try exact H; lia.
Qed.

Lemma shift_0_le p d : 0 <= d -> ext_le (shift p (- d)) p = true /\ ext_le p (shift p d) = true.
Proof. destruct p; cbn; intros; split; try reflexivity; apply Z.leb_le; lia. Qed.

(* a valid frame has its lower bound at or below its upper bound *)
Lemma valid_lo_le_hi f p : frame_valid f = true -> ext_le (lo_of (fstart f) p) (hi_of (fend f) p) = true.
Proof.
  unfold frame_valid, hi_of. intros H. apply andb_true_iff in H. destruct H as [Hn H].
  apply andb_true_iff in Hn. destruct Hn as [Hn1 Hn2].
  destruct (fstart f) as [|a| |a|], (fend f) as [|b| |b|]; cbn [lo_of bound_nonneg] in *; try discriminate;
    try reflexivity; try apply ext_le_refl;
    try apply Z.leb_le in Hn1; try apply Z.leb_le in Hn2; try apply Z.leb_le in H.
  all: try (destruct p; cbn; try reflexivity; apply Z.leb_le; lia).
  all: try (destruct p; cbn; reflexivity).
Qed.

(* ------------------------------------------------------------------ sortedness *)
Definition sorted_pos (ps : list ext) : Prop :=
  forall a b, (a <= b < length ps)%nat -> ext_le (nth a ps PInf) (nth b ps PInf) = true.

Lemma sortedb_ext_sound ps : sortedb_ext ps = true -> sorted_pos ps.
Proof.
  unfold sortedb_ext, sorted_pos. intros H. rewrite forallb_forall in H.
  intros a b Hab. remember (b - a)%nat as d eqn:Hd. revert b Hab Hd.
  induction d as [|d IH]; intros b Hab Hd.
  - replace b with a by lia. apply ext_le_refl.
  - destruct b as [|b]; [lia|].
    apply ext_le_trans with (nth b ps PInf).
    + apply IH; lia.
    + apply H. apply in_seq. lia.
Qed.

(* ------------------------------------------------------------------ the declarative frame is an interval *)
(* s and e "delimit" the frame of row i: rows from s on satisfy the lower bound, rows before e the upper bound *)
Definition delimits (f : frame) (ps : list ext) (i s e : nat) : Prop :=
  (s <= length ps)%nat /\ (e <= length ps)%nat /\
  forall j, (j < length ps)%nat ->
    ((s <= j)%nat <-> ext_le (lo_of (fstart f) (nth i ps PInf)) (nth j ps PInf) = true) /\
    ((j < e)%nat <-> ext_le (nth j ps PInf) (hi_of (fend f) (nth i ps PInf)) = true).

Lemma delimits_le f ps i s e : frame_valid f = true -> delimits f ps i s e -> (s <= e)%nat.
Proof.
  intros Hv (Hs & He & H).
  destruct (Nat.le_gt_cases s e) as [|Hlt]; [assumption|exfalso].
  assert (He' : (e < length ps)%nat) by lia.
  destruct (H e He') as [H1 H2].
  assert (Hlo : ext_le (lo_of (fstart f) (nth i ps PInf)) (nth e ps PInf) = false).
  { apply Bool.not_true_is_false. intro E. apply H1 in E. lia. }
  apply ext_le_total in Hlo.
  assert (ext_le (nth e ps PInf) (hi_of (fend f) (nth i ps PInf)) = true).
  { eapply ext_le_trans; [exact Hlo|]. apply valid_lo_le_hi; exact Hv. }
  apply H2 in H0. lia.
Qed.

Lemma delimits_filter f ps i s e :
  frame_valid f = true -> delimits f ps i s e ->
  filter (in_frame_pos f ps i) (seq 0 (length ps)) = seq s (e - s).
Proof.
  intros Hv Hd. pose proof (delimits_le _ _ _ _ _ Hv Hd) as Hse.
  destruct Hd as (Hs & He & H).
  apply filter_interval; [lia|].
  intros j Hj. unfold in_frame_pos. rewrite andb_true_iff.
  destruct (H j Hj) as [H1 H2]. rewrite <- H1, <- H2. lia.
Qed.

(* frames move forward: this is what makes resuming the search from the previous frame correct *)
Lemma delimits_monotone f ps i i' s e s' e' :
  sorted_pos ps -> (i <= i' < length ps)%nat ->
  delimits f ps i s e -> delimits f ps i' s' e' -> (s <= s')%nat /\ (e <= e')%nat.
Proof.
  intros Hsrt Hi (Hs & He & H) (Hs' & He' & H').
  pose proof (Hsrt i i' Hi) as Hp.
  split.
  - destruct (Nat.le_gt_cases s s') as [|Hlt]; [assumption|exfalso].
    assert (Hj : (s' < length ps)%nat) by lia.
    destruct (H' s' Hj) as [A _]. destruct (H s' Hj) as [B _].
    assert (ext_le (lo_of (fstart f) (nth i ps PInf)) (nth s' ps PInf) = true).
    { eapply ext_le_trans; [apply lo_of_mono; exact Hp|]. apply A. lia. }
    apply B in H0. lia.
  - destruct (Nat.le_gt_cases e e') as [|Hlt]; [assumption|exfalso].
    assert (Hj : (e' < length ps)%nat) by lia.
    destruct (H' e' Hj) as [_ A]. destruct (H e' Hj) as [_ B].
    assert (ext_le (nth e' ps PInf) (hi_of (fend f) (nth i' ps PInf)) = true).
    { eapply ext_le_trans; [apply B; lia|]. apply lo_of_mono; exact Hp. }
    apply A in H0. lia.
Qed.

(* ------------------------------------------------------------------ positions *)
Lemma gnums_from_length prev g ks : length (gnums_from prev g ks) = length ks.
Proof. revert prev g. induction ks as [|k r IH]; intros; cbn [gnums_from length]; [reflexivity|]. rewrite IH. reflexivity. Qed.

Lemma gnums_length ks : length (gnums ks) = length ks.
Proof. destruct ks; cbn [gnums length]; [reflexivity|]. rewrite gnums_from_length. reflexivity. Qed.

Lemma positions_length so u ks : length (positions so u ks) = length ks.
Proof.
  destruct u; cbn [positions]; rewrite !map_length.
  - apply seq_length.
  - reflexivity.
  - apply gnums_length.
Qed.

Lemma delimits_decl so f ks i s e :
  frame_valid f = true -> delimits f (positions so (funits f) ks) i s e ->
  decl_frame so f ks i = seq s (e - s).
Proof.
  intros Hv Hd. unfold decl_frame, in_frame.
  rewrite <- (positions_length so (funits f) ks). apply delimits_filter; assumption.
Qed.

(* ================================================================== ROWS *)
Ltac zb :=
  repeat match goal with
  | H : (_ <=? _) = true |- _ => apply Z.leb_le in H
  | H : (_ <=? _) = false |- _ => apply Z.leb_gt in H
  | |- context [?a <=? ?b] => destruct (Z.leb_spec a b)
  end.

Theorem rows_delimits so f ks i :
  funits f = Rows -> frame_valid f = true -> (i < length ks)%nat ->
  (forall n, fstart f = Foll n \/ fend f = Foll n -> Z.of_nat i + n + 1 <= usize_max) ->
  exists s e, rows_range f (zlen ks) (Z.of_nat i) = ORange (Z.of_nat s) (Z.of_nat e) /\
              delimits f (positions so Rows ks) i s e.
Proof.
  intros Hu Hv Hi Hfit.
  assert (Hv' := Hv). unfold frame_valid in Hv'.
  apply andb_true_iff in Hv'. destruct Hv' as [Hn Hv']. apply andb_true_iff in Hn. destruct Hn as [Hn1 Hn2].
  set (n := length ks) in *.
  assert (Hpos : forall j, (j < n)%nat -> nth j (positions so Rows ks) PInf = Fin (Z.of_nat j)).
  { intros j Hj. cbn [positions]. apply nth_map_seq. exact Hj. }
  assert (Hlen : length (positions so Rows ks) = n) by apply positions_length.
  unfold rows_range, zlen. fold n.
  (* start *)
  assert (Hs : exists s, rows_start (fstart f) (Z.of_nat n) (Z.of_nat i) = inr (Z.of_nat s) /\ (s <= n)%nat /\
             forall j, (j < n)%nat -> ((s <= j)%nat <-> ext_le (lo_of (fstart f) (Fin (Z.of_nat i))) (Fin (Z.of_nat j)) = true)).
  { destruct (fstart f) as [|a| |a|] eqn:Es; cbn [rows_start lo_of shift ext_le bound_nonneg] in *.
    - exists O. split; [reflexivity|]. split; [lia|]. intros; split; intros; [reflexivity|lia].
    - apply Z.leb_le in Hn1. exists (Z.to_nat (Z.max 0 (Z.of_nat i - a))). split; [f_equal; lia|]. split; [lia|].
      intros j Hj. rewrite Z.leb_le. lia.
    - exists i. split; [reflexivity|]. split; [lia|]. intros j Hj. rewrite Z.leb_le. lia.
    - apply Z.leb_le in Hn1. pose proof (Hfit a (or_introl eq_refl)).
      destruct (Z.leb_spec (Z.of_nat i + a) usize_max); [|lia].
      exists (Z.to_nat (Z.min (Z.of_nat i + a) (Z.of_nat n))). split; [f_equal; lia|]. split; [lia|].
      intros j Hj. rewrite Z.leb_le. lia.
    - discriminate. }
  assert (He : exists e, rows_end (fend f) (Z.of_nat n) (Z.of_nat i) = inr (Z.of_nat e) /\ (e <= n)%nat /\
             forall j, (j < n)%nat -> ((j < e)%nat <-> ext_le (Fin (Z.of_nat j)) (hi_of (fend f) (Fin (Z.of_nat i))) = true)).
  { unfold hi_of. destruct (fend f) as [|b| |b|] eqn:Ee; cbn [rows_end lo_of shift ext_le bound_nonneg] in *.
    - destruct (fstart f); discriminate.
    - apply Z.leb_le in Hn2. destruct (Z.leb_spec b (Z.of_nat i)).
      + exists (Z.to_nat (Z.of_nat i - b + 1)). split; [f_equal; lia|]. split; [lia|].
        intros j Hj. rewrite Z.leb_le. lia.
      + exists O. split; [reflexivity|]. split; [lia|]. intros j Hj. rewrite Z.leb_le. lia.
    - exists (S i). split; [f_equal; lia|]. split; [lia|]. intros j Hj. rewrite Z.leb_le. lia.
    - apply Z.leb_le in Hn2. pose proof (Hfit b (or_intror eq_refl)).
      destruct (Z.leb_spec (Z.of_nat i + b + 1) usize_max); [|lia].
      exists (Z.to_nat (Z.min (Z.of_nat i + b + 1) (Z.of_nat n))). split; [f_equal; lia|]. split; [lia|].
      intros j Hj. rewrite Z.leb_le. lia.
    - exists n. split; [reflexivity|]. split; [lia|]. intros; split; intros; [reflexivity|lia]. }
  destruct Hs as (s & Hs1 & Hs2 & Hs3). destruct He as (e & He1 & He2 & He3).
  exists s, e. rewrite Hs1, He1. split; [reflexivity|].
  unfold delimits. rewrite Hlen. split; [exact Hs2|]. split; [exact He2|].
  intros j Hj. rewrite (Hpos i Hi), (Hpos j Hj). split; [apply Hs3|apply He3]; exact Hj.
Qed.

Theorem rows_range_eq_def_lemma so f ks i :
  funits f = Rows -> frame_valid f = true -> (i < length ks)%nat ->
  (forall n, fstart f = Foll n \/ fend f = Foll n -> Z.of_nat i + n + 1 <= usize_max) ->
  exists s e, rows_range f (zlen ks) (Z.of_nat i) = ORange (Z.of_nat s) (Z.of_nat e) /\
              (s <= e <= length ks)%nat /\ decl_frame so f ks i = seq s (e - s).
Proof.
  intros Hu Hv Hi Hfit. destruct (rows_delimits so f ks i Hu Hv Hi Hfit) as (s & e & Hr & Hd).
  exists s, e. split; [exact Hr|]. rewrite <- Hu in Hd. split.
  - pose proof (delimits_le _ _ _ _ _ Hv Hd). destruct Hd as (_ & He & _). rewrite positions_length in He. lia.
  - apply delimits_decl; assumption.
Qed.
