(* Proofs about the GENERATED model Gen/StrengthReduced.v (C11). *)
From Coq Require Import ZArith Lia Bool.
From DF Require Import Base.Bits Gen.StrengthReduced.
Open Scope Z_scope.

Local Ltac Zify.zify_post_hook ::= Z.div_mod_to_equations.

(* ---------- checked-operation lemmas ---------- *)
Lemma chk_some w x : 0 <= x < 2 ^ w -> chk w x = Some x.
Proof.
  intros H. unfold chk, in_u.
  destruct (Z.leb_spec 0 x); destruct (Z.ltb_spec x (2 ^ w)); simpl; auto; lia.
Qed.

Lemma chk_inv w x y : chk w x = Some y -> y = x /\ 0 <= x < 2 ^ w.
Proof.
  unfold chk, in_u.
  destruct (Z.leb_spec 0 x); destruct (Z.ltb_spec x (2 ^ w)); simpl; intros E; inversion E; lia.
Qed.

Lemma cshr_some w a n : 0 <= n < w -> cshr w a n = Some (a / 2 ^ n).
Proof.
  intros H. unfold cshr.
  destruct (Z.leb_spec 0 n); destruct (Z.ltb_spec n w); simpl; try lia.
  now rewrite Z.shiftr_div_pow2 by lia.
Qed.

Lemma land_u64_max a : 0 <= a -> Z.land a u64_max = a mod 2 ^ 64.
Proof.
  intros _. change u64_max with (Z.ones 64). now rewrite Z.land_ones by lia.
Qed.

(* ---------- is_power_of_two ---------- *)
Lemma is_pow2_pos_spec p : is_pow2_pos p = true -> exists k, 0 <= k /\ Zpos p = 2 ^ k.
Proof.
  induction p as [p IH|p IH|]; simpl; intros H.
  - discriminate.
  - destruct (IH H) as [k [Hk E]]. exists (k + 1). split; [lia|].
    rewrite Z.pow_add_r by lia. rewrite <- E. lia.
  - exists 0. split; [lia|reflexivity].
Qed.

Lemma is_pow2_spec d : is_pow2 d = true -> exists k, 0 <= k /\ d = 2 ^ k.
Proof. destruct d; simpl; try discriminate. apply is_pow2_pos_spec. Qed.

Lemma is_pow2_complete k : 0 <= k -> is_pow2 (2 ^ k) = true.
Proof.
  intros Hk. pattern k. apply natlike_ind; [reflexivity| |exact Hk].
  intros x Hx IH. replace (Z.succ x) with (x + 1) by lia.
  rewrite Z.pow_add_r by lia. change (2 ^ 1) with 2.
  assert (0 < 2 ^ x) by (apply Z.pow_pos_nonneg; lia).
  destruct (2 ^ x) eqn:E; try lia. simpl in *. rewrite Pos.mul_comm. simpl. exact IH.
Qed.

Lemma not_pow2_ne_1 d : is_pow2 d = false -> d <> 1.
Proof. intros H E. subst d. discriminate. Qed.

(* ---------- the 64 x 128 -> high 64 multiply ---------- *)
Lemma split_mul_high v m :
  0 <= v < 2 ^ 64 -> 0 <= m < 2 ^ 128 ->
  let ml := m mod 2 ^ 64 in
  let mh := m / 2 ^ 64 in
  let lp := v * ml in
  let hp := v * mh in
  (hp / 2 ^ 64) + ((hp mod 2 ^ 64 + lp / 2 ^ 64) / 2 ^ 64) = (v * m) / 2 ^ 128.
Proof.
  intros Hv Hm ml mh lp hp.
  assert (E128 : 2 ^ 128 = 2 ^ 64 * 2 ^ 64) by reflexivity.
  assert (Hml : 0 <= ml < 2 ^ 64) by (apply Z.mod_pos_bound; lia).
  assert (Hmh : 0 <= mh < 2 ^ 64).
  { unfold mh. split; [apply Z.div_pos; lia|]. apply Z.div_lt_upper_bound; lia. }
  assert (Em : m = mh * 2 ^ 64 + ml).
  { unfold mh, ml. rewrite Z.mul_comm. apply Z.div_mod. lia. }
  set (hh := hp / 2 ^ 64). set (hl := hp mod 2 ^ 64).
  assert (Ehp : hp = hh * 2 ^ 64 + hl).
  { unfold hh, hl. rewrite Z.mul_comm. apply Z.div_mod. lia. }
  assert (Hhl : 0 <= hl < 2 ^ 64) by (apply Z.mod_pos_bound; lia).
  set (ll := lp / 2 ^ 64). set (lr := lp mod 2 ^ 64).
  assert (Elp : lp = ll * 2 ^ 64 + lr).
  { unfold ll, lr. rewrite Z.mul_comm. apply Z.div_mod. lia. }
  assert (Hlr : 0 <= lr < 2 ^ 64) by (apply Z.mod_pos_bound; lia).
  set (c := (hl + ll) / 2 ^ 64). set (cr := (hl + ll) mod 2 ^ 64).
  assert (Ec : hl + ll = c * 2 ^ 64 + cr).
  { unfold c, cr. rewrite Z.mul_comm. apply Z.div_mod. lia. }
  assert (Hcr : 0 <= cr < 2 ^ 64) by (apply Z.mod_pos_bound; lia).
  apply Z.div_unique with (r := cr * 2 ^ 64 + lr).
  - left. rewrite E128. nia.
  - assert (Evm : v * m = hp * 2 ^ 64 + lp).
    { unfold hp, lp. clearbody ml mh. rewrite Em. ring. }
    rewrite Evm.
    rewrite Ehp, Elp, E128.
    replace ((hh * 2 ^ 64 + hl) * 2 ^ 64 + (ll * 2 ^ 64 + lr))
      with (hh * 2 ^ 64 * 2 ^ 64 + (hl + ll) * 2 ^ 64 + lr) by ring.
    rewrite Ec. ring.
Qed.

Lemma sr_quotient_spec v m :
  0 <= v < 2 ^ 64 -> 0 <= m < 2 ^ 128 ->
  sr_quotient v m = Some ((v * m) / 2 ^ 128).
Proof.
  intros Hv Hm.
  assert (E128 : 2 ^ 128 = 2 ^ 64 * 2 ^ 64) by reflexivity.
  pose proof (split_mul_high v m Hv Hm) as HS. cbv zeta in HS.
  assert (Hml : 0 <= m mod 2 ^ 64 < 2 ^ 64) by (apply Z.mod_pos_bound; lia).
  assert (Hmh : 0 <= m / 2 ^ 64 < 2 ^ 64).
  { split; [apply Z.div_pos; lia|]. apply Z.div_lt_upper_bound; lia. }
  assert (Hq : 0 <= (v * m) / 2 ^ 128 < 2 ^ 64).
  { split; [apply Z.div_pos; nia|]. apply Z.div_lt_upper_bound; [lia|]. rewrite E128. nia. }
  unfold sr_quotient, cast, widen, cand, cmul, cadd, bind.
  rewrite !cshr_some by lia.
  rewrite (Z.mod_small (m / 2 ^ 64)) by lia.
  rewrite chk_some by (rewrite E128; nia).
  rewrite chk_some by (rewrite E128; nia).
  rewrite land_u64_max by nia.
  set (hp := v * (m / 2 ^ 64)) in *. set (lp := v * (m mod 2 ^ 64)) in *.
  assert (Hhl : 0 <= hp mod 2 ^ 64 < 2 ^ 64) by (apply Z.mod_pos_bound; lia).
  assert (Hll : 0 <= lp / 2 ^ 64 < 2 ^ 64).
  { split; [apply Z.div_pos; unfold lp; nia|]. apply Z.div_lt_upper_bound; [lia|]. unfold lp. nia. }
  rewrite cshr_some by lia.
  rewrite chk_some by (rewrite E128; lia).
  rewrite !cshr_some by lia.
  assert (Hc : 0 <= (hp mod 2 ^ 64 + lp / 2 ^ 64) / 2 ^ 64 <= 1).
  { split; [apply Z.div_pos; lia|]. apply Z.lt_succ_r. apply Z.div_lt_upper_bound; lia. }
  assert (Hhh : 0 <= hp / 2 ^ 64 < 2 ^ 64).
  { split; [apply Z.div_pos; unfold hp; nia|]. apply Z.div_lt_upper_bound; [lia|]. unfold hp. nia. }
  rewrite chk_some by (rewrite E128; lia).
  rewrite HS. rewrite Z.mod_small by lia. reflexivity.
Qed.

(* ---------- the reciprocal ---------- *)
Lemma reciprocal_spec d :
  2 <= d < 2 ^ 64 ->
  let m := u128_max / d + 1 in
  0 <= m < 2 ^ 128 /\ exists e, 0 <= e < d /\ m * d = 2 ^ 128 + e.
Proof.
  intros Hd m. unfold m, u128_max.
  assert (P : 0 < 2 ^ 128) by reflexivity.
  set (q := (2 ^ 128 - 1) / d). set (r := (2 ^ 128 - 1) mod d).
  assert (E : 2 ^ 128 - 1 = d * q + r) by (apply Z.div_mod; lia).
  assert (Hr : 0 <= r < d) by (apply Z.mod_pos_bound; lia).
  assert (Hq : 0 <= q) by (apply Z.div_pos; lia).
  split.
  - split; [lia|]. nia.
  - exists (d - 1 - r). split; [lia|]. nia.
Qed.

Lemma reciprocal_quotient v d m e :
  0 <= v < 2 ^ 64 -> 2 <= d < 2 ^ 64 -> 0 <= e < d -> m * d = 2 ^ 128 + e ->
  (v * m) / 2 ^ 128 = v / d.
Proof.
  intros Hv Hd He Em.
  assert (E128 : 2 ^ 128 = 2 ^ 64 * 2 ^ 64) by reflexivity.
  set (q := v / d). set (r := v mod d).
  assert (Ev : v = d * q + r) by (apply Z.div_mod; lia).
  assert (Hr : 0 <= r < d) by (apply Z.mod_pos_bound; lia).
  assert (Hq : 0 <= q) by (apply Z.div_pos; lia).
  (* v*m*d = v*2^128 + v*e *)
  assert (Hve : 0 <= v * e < 2 ^ 128) by (rewrite E128; nia).
  (* v*m = q*2^128 + s with s*d = r*2^128 + v*e, 0 <= s < 2^128 *)
  symmetry. apply Z.div_unique with (r := v * m - q * 2 ^ 128).
  - left. split.
    + (* q*2^128 <= v*m  <->  q*2^128*d <= v*m*d = v*2^128 + v*e *)
      assert (q * 2 ^ 128 * d <= v * m * d).
      { replace (v * m * d) with (v * (m * d)) by ring. rewrite Em. nia. }
      nia.
    + assert ((v * m - q * 2 ^ 128) * d < 2 ^ 128 * d).
      { replace ((v * m - q * 2 ^ 128) * d) with (v * (m * d) - q * d * 2 ^ 128) by ring.
        rewrite Em. replace (v * (2 ^ 128 + e) - q * d * 2 ^ 128) with (r * 2 ^ 128 + v * e) by (clearbody q r; subst v; ring).
        nia. }
      nia.
  - ring.
Qed.

(* ---------- the two arms ---------- *)
Lemma pow2_arm v d :
  0 <= v < 2 ^ 64 -> 1 <= d < 2 ^ 64 -> is_pow2 d = true ->
  partition_of d v = Some (v mod d).
Proof.
  intros Hv Hd Hp. unfold partition_of, sr_new. rewrite Hp.
  unfold csub, bind. rewrite chk_some by lia. simpl. unfold cand.
  destruct (is_pow2_spec d Hp) as [k [Hk E]]. subst d.
  replace (2 ^ k - 1) with (Z.ones k) by (rewrite Z.ones_equiv; lia).
  rewrite Z.land_ones by lia. reflexivity.
Qed.

Lemma reciprocal_arm v d :
  0 <= v < 2 ^ 64 -> 1 <= d < 2 ^ 64 -> is_pow2 d = false ->
  partition_of d v = Some (v mod d).
Proof.
  intros Hv Hd Hp. pose proof (not_pow2_ne_1 d Hp) as H1.
  assert (Hd2 : 2 <= d < 2 ^ 64) by lia.
  destruct (reciprocal_spec d Hd2) as [Hm [e [He Em]]].
  unfold partition_of, sr_new. rewrite Hp.
  unfold widen, cdiv, cadd, bind.
  destruct (Z.eqb_spec d 0) as [->|_]; [lia|].
  rewrite chk_some by exact Hm.
  simpl sr_partition. unfold bind.
  rewrite sr_quotient_spec by assumption.
  rewrite (reciprocal_quotient v d _ e Hv Hd2 He Em).
  set (q := v / d). set (r := v mod d).
  assert (Ev : v = d * q + r) by (apply Z.div_mod; lia).
  assert (Hr : 0 <= r < d) by (apply Z.mod_pos_bound; lia).
  assert (Hq : 0 <= q) by (apply Z.div_pos; lia).
  unfold cmul, csub.
  rewrite chk_some by nia. rewrite chk_some by nia.
  f_equal. lia.
Qed.

Theorem remainder_exact v d :
  0 <= v < 2 ^ 64 -> 1 <= d < 2 ^ 64 -> partition_of d v = Some (v mod d).
Proof.
  intros Hv Hd. destruct (is_pow2 d) eqn:Hp; [apply pow2_arm|apply reciprocal_arm]; assumption.
Qed.

(* The result is a valid index into the `divisor` output vectors. *)
Corollary partition_in_range v d p :
  0 <= v < 2 ^ 64 -> 1 <= d < 2 ^ 64 -> partition_of d v = Some p -> 0 <= p < d.
Proof.
  intros Hv Hd H. rewrite remainder_exact in H by assumption. inversion H. apply Z.mod_pos_bound. lia.
Qed.

(* Equal hashes go to the same partition; the image is all of [0,d) (every partition is
   reachable) -- both immediate from exactness. *)
Corollary partition_surjective d p :
  1 <= d < 2 ^ 64 -> 0 <= p < d -> partition_of d p = Some p.
Proof.
  intros Hd Hp. rewrite remainder_exact by lia. now rewrite Z.mod_small by lia.
Qed.
