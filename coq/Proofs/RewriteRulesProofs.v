(* Soundness of the rewrite patterns of DataFusion's logical optimizer rules, over the reference algebra
   (Model/RefSQL.v).  Every lemma is quantified over ALL relations / predicates satisfying the side condition
   that the Rust rule checks; [Permutation] is bag equality ([=] on lists is stronger).  Predicates are the
   boolean functions "the SQL predicate evaluated to TRUE on this row" ([holds] of a three-valued result). *)
From Coq Require Import List ZArith Bool Lia Permutation.
From DF Require Import Base.Prelude Model.RefSQL Proofs.RefSQLLaws Model.RewriteRules.
Import ListNotations.
Open Scope Z_scope.

(* ================================================================== small list facts *)
Lemma filter_filter : forall {A} (f g : A -> bool) l, filter f (filter g l) = filter (fun x => g x && f x) l.
Proof.
  induction l as [|a l IH]; simpl; auto. destruct (g a); simpl; [destruct (f a); simpl; rewrite IH; auto | auto].
Qed.
Lemma filter_ext_in' : forall {A} (f g : A -> bool) l, (forall x, In x l -> f x = g x) -> filter f l = filter g l.
Proof.
  induction l as [|a l IH]; simpl; intros H; auto. rewrite (H a (or_introl eq_refl)), IH; auto.
Qed.
Lemma filter_map_comm : forall {A B} (f : A -> B) (p : B -> bool) l, filter p (map f l) = map f (filter (fun x => p (f x)) l).
Proof. induction l as [|a l IH]; simpl; auto. destruct (p (f a)); simpl; rewrite IH; auto. Qed.
Lemma filter_flat_map : forall {A B} (g : A -> list B) (p : B -> bool) l,
  filter p (flat_map g l) = flat_map (fun x => filter p (g x)) l.
Proof. induction l as [|a l IH]; simpl; auto. rewrite filter_app, IH; auto. Qed.
Lemma flat_map_filter : forall {A B} (g : A -> list B) (p : A -> bool) l,
  flat_map g (filter p l) = flat_map (fun x => if p x then g x else []) l.
Proof. induction l as [|a l IH]; simpl; auto. destruct (p a); simpl; rewrite IH; auto. Qed.
Lemma flat_map_ext_in : forall {A B} (f g : A -> list B) l, (forall x, In x l -> f x = g x) -> flat_map f l = flat_map g l.
Proof. induction l as [|a l IH]; simpl; intros H; auto. rewrite (H a (or_introl eq_refl)), IH; auto. Qed.
Lemma filter_false : forall {A} (l : list A), filter (fun _ => false) l = [].
Proof. induction l; simpl; auto. Qed.
Lemma filter_true : forall {A} (l : list A), filter (fun _ => true) l = l.
Proof. induction l; simpl; auto. f_equal; auto. Qed.
Lemma filter_all_false : forall {A} (f : A -> bool) l, (forall x, In x l -> f x = false) -> filter f l = [].
Proof. intros. rewrite (filter_ext_in' f (fun _ => false)); auto. apply filter_false. Qed.

(* ================================================================== 3VL: only TRUE survives *)
Lemma holds_and3 : forall a b, holds (and3 a b) = holds a && holds b.
Proof. destruct a, b; reflexivity. Qed.
Lemma holds_or3 : forall a b, holds (or3 a b) = holds a || holds b.
Proof. destruct a, b; reflexivity. Qed.
Lemma holds_not3_TU : holds (not3 TU) = false.
Proof. reflexivity. Qed.

(* ================================================================== push_down_filter *)
(* Filter p (Projection f R) = Projection f (Filter (p o f) R): the rule rewrites the predicate by substituting
   the projection's expressions for its output columns, i.e. it evaluates p on the projected row *)
Theorem filter_through_projection_sound : forall (f : row -> row) (p : row -> bool) R,
  filter p (map f R) = map f (filter (fun r => p (f r)) R).
Proof. intros; apply filter_map_comm. Qed.

(* Filter p (Filter q R) = Filter (q AND p) R, with Kleene AND: a row survives iff both are TRUE *)
Theorem filter_merge_sound : forall (p q : row -> tv) R,
  filter (fun r => holds (p r)) (filter (fun r => holds (q r)) R) = filter (fun r => holds (and3 (q r) (p r))) R.
Proof.
  intros. rewrite filter_filter. apply filter_ext_in'. intros; rewrite holds_and3; reflexivity.
Qed.
(* the conjuncts of a filter can be split and handled one by one (split_conjunction) *)
Theorem filter_split_conjunction_sound : forall (p q : row -> tv) R,
  filter (fun r => holds (and3 (p r) (q r))) R = filter (fun r => holds (q r)) (filter (fun r => holds (p r)) R).
Proof. intros. symmetry. apply filter_merge_sound. Qed.

(* ---- inner join: a predicate that only references one side goes to that side *)
Theorem filter_into_inner_join_left_sound : forall on (p : row -> bool) (pl : row -> bool) L R,
  (forall l r, In l L -> In r R -> p (l ++ r) = pl l) ->
  filter p (inner_join on L R) = inner_join on (filter pl L) R.
Proof.
  intros on p pl L R H. unfold inner_join. rewrite filter_flat_map, flat_map_filter.
  apply flat_map_ext_in. intros l Hl. rewrite filter_map_comm.
  destruct (pl l) eqn:E.
  - f_equal. rewrite filter_filter. apply filter_ext_in'. intros r Hr. rewrite (H l r Hl Hr), E. apply andb_true_r.
  - rewrite (filter_all_false (fun r => p (l ++ r))); auto.
    intros r Hr. apply filter_In in Hr. rewrite (H l r Hl (proj1 Hr)). exact E.
Qed.
Theorem filter_into_inner_join_right_sound : forall on (p : row -> bool) (pr : row -> bool) L R,
  (forall l r, In l L -> In r R -> p (l ++ r) = pr r) ->
  filter p (inner_join on L R) = inner_join on L (filter pr R).
Proof.
  intros on p pr L R H. unfold inner_join. rewrite filter_flat_map.
  apply flat_map_ext_in. intros l Hl. rewrite filter_map_comm. f_equal.
  rewrite !filter_filter. apply filter_ext_in'. intros r Hr. rewrite (H l r Hl Hr). apply andb_comm.
Qed.
(* a predicate IMPLIED by the filter and referencing one side only may be added below an inner join while the
   filter stays (extract_or_clauses_for_join, inferred join predicates) *)
Theorem implied_filter_into_inner_join_left_sound : forall on (p pl : row -> bool) L R,
  (forall l r, In l L -> In r R -> p (l ++ r) = true -> pl l = true) ->
  filter p (inner_join on L R) = filter p (inner_join on (filter pl L) R).
Proof.
  intros on p pl L R H. unfold inner_join. rewrite !filter_flat_map, flat_map_filter.
  apply flat_map_ext_in. intros l Hl. destruct (pl l) eqn:E; auto.
  rewrite filter_map_comm. simpl. rewrite (filter_all_false (fun r => p (l ++ r))); auto.
  intros r Hr. apply filter_In in Hr. destruct (p (l ++ r)) eqn:P; auto.
  rewrite (H l r Hl (proj1 Hr) P) in E. discriminate.
Qed.

(* ---- left join: the LEFT side is preserved -- a predicate on left columns goes below the join *)
Theorem filter_into_left_join_preserved_sound : forall on wr (p pl : row -> bool) L R,
  (forall l x, In l L -> p (l ++ x) = pl l) ->
  filter p (left_join on wr L R) = left_join on wr (filter pl L) R.
Proof.
  intros on wr p pl L R H. unfold left_join. rewrite filter_flat_map, flat_map_filter.
  apply flat_map_ext_in. intros l Hl.
  destruct (filter (on l) R) as [|m ms].
  - simpl. rewrite (H l _ Hl). destruct (pl l); reflexivity.
  - rewrite filter_map_comm. destruct (pl l) eqn:E.
    + f_equal. rewrite (filter_ext_in' _ (fun _ => true)); [apply filter_true|]. intros; rewrite (H l _ Hl); auto.
    + rewrite (filter_all_false (fun r => p (l ++ r))); auto. intros; rewrite (H l _ Hl); auto.
Qed.
Theorem filter_into_right_join_preserved_sound : forall on wl (p pr : row -> bool) L R,
  (forall x r, In r R -> p (x ++ r) = pr r) ->
  filter p (right_join on wl L R) = right_join on wl L (filter pr R).
Proof.
  intros on wl p pr L R H. unfold right_join. rewrite filter_flat_map, flat_map_filter.
  apply flat_map_ext_in. intros r Hr.
  destruct (filter (fun l => on l r) L) as [|m ms].
  - simpl. rewrite (H _ r Hr). destruct (pr r); reflexivity.
  - rewrite filter_map_comm. destruct (pr r) eqn:E.
    + f_equal. rewrite (filter_ext_in' _ (fun _ => true)); [apply filter_true|]. intros; rewrite (H _ r Hr); auto.
    + rewrite (filter_all_false (fun l => p (l ++ r))); auto. intros; rewrite (H _ r Hr); auto.
Qed.

(* ---- ... and NOT below the null-supplying side (the property's own example): a predicate on RIGHT columns
   pushed below a LEFT join resurrects, NULL-padded, the left rows whose matches it removed *)
Definition col_is (i : nat) (v : value) : row -> bool :=
  fun r => match nth_error r i with Some x => value_eqb x v | None => false end.
Definition eq_cols (i j : nat) : row -> row -> bool :=
  fun l r => match nth_error l i, nth_error r j with Some x, Some y => holds (eq3 x y) | _, _ => false end.
Theorem filter_into_left_join_null_side_refuted :
  exists on wr (p pr : row -> bool) L R,
    (forall l r, length l = 1%nat -> p (l ++ r) = pr r) /\
    ~ Permutation (filter p (left_join on wr L R)) (left_join on wr L (filter pr R)).
Proof.
  exists (eq_cols 0 0), 1, (col_is 1 (VInt 5)), (col_is 0 (VInt 5)), [[VInt 1]], [[VInt 1]].
  split.
  - intros l r Hl. destruct l as [|a [|b l]]; try discriminate. reflexivity.
  - intros P. apply Permutation_length in P. vm_compute in P. discriminate.
Qed.
(* the same for a FULL join (neither side is preserved) *)
Theorem filter_into_full_join_side_refuted :
  exists on wl wr (p pl : row -> bool) L R,
    (forall l r, length l = 1%nat -> p (l ++ r) = pl l) /\
    ~ Permutation (filter p (full_join on wl wr L R)) (full_join on wl wr (filter pl L) R).
Proof.
  exists (eq_cols 0 0), 1, 1, (col_is 0 (VInt 5)), (col_is 0 (VInt 5)), [[VInt 1]], [[VInt 1]].
  split.
  - intros l r Hl. destruct l as [|a [|b l]]; try discriminate. reflexivity.
  - intros P. apply Permutation_length in P. vm_compute in P. discriminate.
Qed.

(* ---- conjuncts of the ON clause *)
(* inner join: an ON conjunct over one side is a filter of that side *)
Theorem on_conjunct_into_inner_join_left_sound : forall (on : row -> row -> bool) (pl : row -> bool) L R,
  inner_join (fun l r => on l r && pl l) L R = inner_join on (filter pl L) R.
Proof.
  intros. unfold inner_join. rewrite flat_map_filter. apply flat_map_ext_in. intros l _.
  destruct (pl l).
  - f_equal. apply filter_ext_in'. intros; apply andb_true_r.
  - rewrite (filter_all_false (fun r => on l r && false)); auto. intros; apply andb_false_r.
Qed.
Theorem on_conjunct_into_inner_join_right_sound : forall (on : row -> row -> bool) (pr : row -> bool) L R,
  inner_join (fun l r => on l r && pr r) L R = inner_join on L (filter pr R).
Proof.
  intros. unfold inner_join. apply flat_map_ext_in. intros l _. f_equal.
  rewrite filter_filter. apply filter_ext_in'. intros; apply andb_comm.
Qed.
(* LEFT join: for the ON clause it is the RIGHT (null-supplying) side that is "preserved": an ON conjunct over
   right columns is a filter of the right input ... *)
Theorem on_conjunct_into_left_join_right_sound : forall (on : row -> row -> bool) wr (pr : row -> bool) L R,
  left_join (fun l r => on l r && pr r) wr L R = left_join on wr L (filter pr R).
Proof.
  intros. unfold left_join. apply flat_map_ext_in. intros l _.
  rewrite filter_filter. rewrite (filter_ext_in' (fun r => on l r && pr r) (fun x => pr x && on l x)); auto.
  intros; apply andb_comm.
Qed.
Theorem on_conjunct_into_right_join_left_sound : forall (on : row -> row -> bool) wl (pl : row -> bool) L R,
  right_join (fun l r => on l r && pl l) wl L R = right_join on wl (filter pl L) R.
Proof.
  intros. unfold right_join. apply flat_map_ext_in. intros r _.
  rewrite filter_filter. rewrite (filter_ext_in' (fun l => on l r && pl l) (fun x => pl x && on x r)); auto.
  intros; apply andb_comm.
Qed.
(* ... while an ON conjunct over LEFT columns must stay in the ON clause of a LEFT join *)
Theorem on_conjunct_into_left_join_left_refuted :
  exists (on : row -> row -> bool) wr (pl : row -> bool) L R,
    ~ Permutation (left_join (fun l r => on l r && pl l) wr L R) (left_join on wr (filter pl L) R).
Proof.
  exists (eq_cols 0 0), 1, (col_is 0 (VInt 5)), [[VInt 1]], [[VInt 1]].
  intros P. apply Permutation_length in P. vm_compute in P. discriminate.
Qed.

(* ---- UNION ALL, DISTINCT *)
Theorem filter_through_union_all_sound : forall (p : row -> bool) L R,
  filter p (set_op SUnion true L R) = set_op SUnion true (filter p L) (filter p R).
Proof. intros; apply filter_app. Qed.

Lemma mem_filter : forall (p : row -> bool) x R, p x = true -> mem x (filter p R) = mem x R.
Proof.
  unfold mem. induction R as [|a R IH]; simpl; intros Hx; auto.
  destruct (p a) eqn:Pa; simpl; rewrite IH; auto.
  destruct (row_eqb x a) eqn:E; auto. apply row_eqb_eq in E; subst. congruence.
Qed.
Theorem filter_through_distinct_sound : forall (p : row -> bool) R,
  filter p (distinct R) = distinct (filter p R).
Proof.
  induction R as [|a R IH]; simpl; auto.
  destruct (p a) eqn:Pa; simpl.
  - rewrite (mem_filter p a R Pa). destruct (mem a R); simpl; [auto | rewrite Pa, IH; auto].
  - destruct (mem a R); simpl; [auto | rewrite Pa; auto].
Qed.

(* ---- GROUP BY: a predicate that only references grouping keys goes below the aggregate (non-empty key list) *)
Section GroupFilter.
  Context {A : Type}.
  Lemma filter_insert_group : forall (pk : row -> bool) k (x : A) gs,
    filter (fun g => pk (fst g)) (insert_group k x gs) =
    if pk k then insert_group k x (filter (fun g => pk (fst g)) gs) else filter (fun g => pk (fst g)) gs.
  Proof.
    induction gs as [|[k' xs] gs IH]; cbn [insert_group filter fst].
    - destruct (pk k); reflexivity.
    - destruct (row_eqb k k') eqn:E.
      + apply row_eqb_eq in E; subst k'. cbn [filter fst]. destruct (pk k) eqn:P; auto.
        cbn [insert_group]. rewrite row_eqb_refl. reflexivity.
      + cbn [filter fst]. rewrite IH. destruct (pk k'), (pk k); auto.
        cbn [insert_group]. rewrite E. reflexivity.
  Qed.
  Lemma group_pairs_filter : forall (pk : row -> bool) (l : list (row * A)),
    group_pairs (filter (fun kx => pk (fst kx)) l) = filter (fun g => pk (fst g)) (group_pairs l).
  Proof.
    induction l as [|[k x] l IH]; auto. cbn [filter fst group_pairs].
    rewrite filter_insert_group. destruct (pk k); cbn [group_pairs]; rewrite IH; reflexivity.
  Qed.
End GroupFilter.
Theorem filter_through_group_by_sound : forall (keyf : row -> row) (aggf : rel -> row) (p pk : row -> bool) R,
  (forall k a, p (k ++ a) = pk k) ->
  filter p (group_rows keyf aggf R) = group_rows keyf aggf (filter (fun r => pk (keyf r)) R).
Proof.
  intros keyf aggf p pk R H. unfold group_rows.
  rewrite filter_map_comm.
  rewrite (filter_ext_in' (fun g : row * rel => p (fst g ++ aggf (snd g))) (fun g => pk (fst g))) by (intros; apply H).
  f_equal. etransitivity; [symmetry; exact (group_pairs_filter pk (map (fun r : row => (keyf r, r)) R))|].
  f_equal. rewrite filter_map_comm. reflexivity.
Qed.
(* ... but NOT below an aggregate without grouping keys: such an aggregate returns one row over an empty input.
   A column-free predicate (e.g. HAVING FALSE) "only references grouping keys" vacuously. *)
Theorem filter_through_global_aggregate_refuted :
  exists (aggf : rel -> row) (p : row -> bool) (pin : row -> bool) R,
    (forall r, p r = false) /\ (forall r, pin r = false) /\
    ~ Permutation (filter p (global_agg aggf R)) (global_agg aggf (filter pin R)).
Proof.
  exists (fun G => [VInt (len G)]), (fun _ => false), (fun _ => false), [[VInt 1]].
  repeat split; auto. intros P. apply Permutation_length in P. vm_compute in P. discriminate.
Qed.

(* ---- Filter over a cross join becomes the join condition (eliminate_cross_join / push_down_filter for inner joins) *)
Theorem filter_into_join_condition_sound : forall (on : row -> row -> bool) (p : row -> bool) (pj : row -> row -> bool) L R,
  (forall l r, In l L -> In r R -> p (l ++ r) = pj l r) ->
  filter p (inner_join on L R) = inner_join (fun l r => on l r && pj l r) L R.
Proof.
  intros on p pj L R H. unfold inner_join. rewrite filter_flat_map. apply flat_map_ext_in. intros l Hl.
  rewrite filter_map_comm. f_equal. rewrite filter_filter. apply filter_ext_in'. intros r Hr. rewrite (H l r Hl Hr). reflexivity.
Qed.
Corollary eliminate_cross_join_sound : forall (p : row -> bool) (pj : row -> row -> bool) L R,
  (forall l r, In l L -> In r R -> p (l ++ r) = pj l r) ->
  filter p (inner_join (fun _ _ => true) L R) = inner_join pj L R.
Proof.
  intros. rewrite (filter_into_join_condition_sound (fun _ _ => true) p pj L R H). reflexivity.
Qed.

(* ================================================================== eliminate_outer_join *)
Lemma tv_of_value_facts : forall va x, tv_of_value va = Ok x ->
  (va = VNull -> x = TU) /\ (va <> VBool true -> x <> TT).
Proof.
  intros va x H. destruct va as [| z | [|] | s | n m]; simpl in H; inversion H; subst; split; congruence.
Qed.
Lemma value_of_tv_true : forall x, value_of_tv x = VBool true -> x = TT.
Proof. destruct x; simpl; congruence. Qed.
Lemma cmp3_null_l : forall op y, cmp3 op VNull y = TU.
Proof. reflexivity. Qed.
Lemma cmp3_null_r : forall op x, cmp3 op x VNull = TU.
Proof. intros op x; destruct x; reflexivity. Qed.
Lemma arith_null : forall op x y v, arith op x y = Ok v -> x = VNull \/ y = VNull -> v = VNull.
Proof.
  intros op x y v H [->| ->].
  - destruct y; simpl in H; inversion H; reflexivity.
  - destruct x; simpl in H; inversion H; reflexivity.
Qed.
Lemma in3_null : forall vs, vs <> [] -> in3 VNull vs = TU.
Proof.
  unfold in3. induction vs as [|v vs IH]; [congruence|]. intros _. cbn [map any3 fold_right].
  change (eq3 VNull v) with TU. destruct vs as [|w vs]; [reflexivity|].
  fold (any3 (map (eq3 VNull) (w :: vs))). rewrite IH by discriminate. reflexivity.
Qed.

(* the syntactic null-rejection test of eliminate_outer_join.rs is sound for the reference semantics: on a row
   whose S-columns are all NULL, a nested null-rejecting expression evaluates to NULL, and a null-rejecting WHERE
   predicate (top level) does not evaluate to TRUE -- whatever the fuel, database and outer scopes *)
Theorem null_rejecting_sound : forall S f d en r e v,
  null_on S r -> eval_expr f d (r :: en) e = Ok v ->
  (null_rejecting S false e = true -> v = VNull) /\
  (null_rejecting S true e = true -> v <> VBool true).
Proof.
  intros S f d en r. induction f as [|f IH]; intros e v Hn H; [discriminate|].
  assert (IHp : forall a x, (va <- eval_expr f d (r :: en) a;; tv_of_value va) = Ok x ->
            (null_rejecting S false a = true -> x = TU) /\ (null_rejecting S true a = true -> x <> TT)).
  { intros a x Hx. destruct (eval_expr f d (r :: en) a) as [va|] eqn:E; [|discriminate]. cbn [bind] in Hx.
    destruct (IH a va Hn E) as [I1 I2]. destruct (tv_of_value_facts va x Hx) as [T1 T2]. split; auto. }
  destruct e; cbn [eval_expr] in H; cbn [null_rejecting];
    try (split; intros N; discriminate N).
  - (* ECol *)
    assert (X : (depth =? 0) && S idx = true -> v = VNull).
    { intros N. apply andb_true_iff in N. destruct N as [N1 N2]. apply Z.eqb_eq in N1. subst depth.
      unfold lookup in H. cbn [Z.to_nat nth_error] in H.
      destruct (nth_error r (Z.to_nat idx)) as [x|] eqn:E; [|discriminate]. inversion H; subst. eapply Hn; eauto. }
    split; intros N; rewrite (X N); congruence.
  - (* EArith *)
    destruct (eval_expr f d (r :: en) e1) as [x|] eqn:E1; [|discriminate]. cbn [bind] in H.
    destruct (eval_expr f d (r :: en) e2) as [y|] eqn:E2; [|discriminate]. cbn [bind] in H.
    assert (X : null_rejecting S false e1 || null_rejecting S false e2 = true -> v = VNull).
    { intros N. apply (arith_null op x y v H). apply orb_true_iff in N. destruct N as [N|N].
      - left. exact (proj1 (IH e1 x Hn E1) N).
      - right. exact (proj1 (IH e2 y Hn E2) N). }
    split; intros N; rewrite (X N); congruence.
  - (* ECmp *)
    destruct (eval_expr f d (r :: en) e1) as [x|] eqn:E1; [|discriminate]. cbn [bind] in H.
    destruct (eval_expr f d (r :: en) e2) as [y|] eqn:E2; [|discriminate]. cbn [bind] in H.
    assert (X : null_rejecting S false e1 || null_rejecting S false e2 = true -> v = VNull).
    { intros N. inversion H; subst. apply orb_true_iff in N. destruct N as [N|N].
      - rewrite (proj1 (IH e1 x Hn E1) N). reflexivity.
      - rewrite (proj1 (IH e2 y Hn E2) N), cmp3_null_r. reflexivity. }
    split; intros N; rewrite (X N); congruence.
  - (* EAnd *)
    match type of H with bind ?m _ = _ => destruct m as [x|] eqn:E1 end; [|discriminate]. cbn [bind] in H.
    match type of H with bind ?m _ = _ => destruct m as [y|] eqn:E2 end; [|discriminate]. cbn [bind] in H.
    inversion H; subst. destruct (IHp e1 x E1) as [A1 A2]. destruct (IHp e2 y E2) as [B1 B2]. split; intros N.
    + apply andb_true_iff in N. destruct N as [N1 N2]. rewrite (A1 N1), (B1 N2). reflexivity.
    + intros V. apply value_of_tv_true in V. apply and3_TT_iff in V. destruct V as [V1 V2].
      apply orb_true_iff in N. destruct N as [N|N]; [exact (A2 N V1) | exact (B2 N V2)].
  - (* EOr *)
    match type of H with bind ?m _ = _ => destruct m as [x|] eqn:E1 end; [|discriminate]. cbn [bind] in H.
    match type of H with bind ?m _ = _ => destruct m as [y|] eqn:E2 end; [|discriminate]. cbn [bind] in H.
    inversion H; subst. destruct (IHp e1 x E1) as [A1 A2]. destruct (IHp e2 y E2) as [B1 B2]. split; intros N.
    + apply andb_true_iff in N. destruct N as [N1 N2]. rewrite (A1 N1), (B1 N2). reflexivity.
    + intros V. apply value_of_tv_true in V. apply or3_TT_iff in V.
      apply andb_true_iff in N. destruct N as [N1 N2]. destruct V as [V|V]; [exact (A2 N1 V) | exact (B2 N2 V)].
  - (* ENot *)
    match type of H with bind ?m _ = _ => destruct m as [x|] eqn:E1 end; [|discriminate]. cbn [bind] in H.
    inversion H; subst. destruct (IHp e x E1) as [A1 _].
    split; intros N; rewrite (A1 N); simpl; congruence.
  - (* EIsNull *)
    destruct (eval_expr f d (r :: en) e) as [x|] eqn:E1; [|discriminate]. cbn [bind] in H. inversion H; subst.
    destruct neg; split; intros N; try discriminate N.
    rewrite (proj1 (IH e x Hn E1) N). simpl. congruence.
  - (* EBetween *)
    destruct (eval_expr f d (r :: en) e1) as [x|] eqn:E1; [|discriminate]. cbn [bind] in H.
    destruct (eval_expr f d (r :: en) e2) as [lo|] eqn:E2; [|discriminate]. cbn [bind] in H.
    destruct (eval_expr f d (r :: en) e3) as [hi|] eqn:E3; [|discriminate]. cbn [bind] in H.
    inversion H; subst.
    assert (X : null_rejecting S false e1 = true ->
                value_of_tv (if neg then not3 (and3 (cmp3 CGe x lo) (cmp3 CLe x hi)) else and3 (cmp3 CGe x lo) (cmp3 CLe x hi)) = VNull).
    { intros N. rewrite (proj1 (IH e1 x Hn E1) N). rewrite !cmp3_null_l. destruct neg; reflexivity. }
    split; intros N; rewrite (X N); congruence.
  - (* EInList *)
    destruct (eval_expr f d (r :: en) e) as [x|] eqn:E1; [|discriminate]. cbn [bind] in H.
    match type of H with bind ?m _ = _ => destruct m as [vs|] eqn:E2 end; [|discriminate]. cbn [bind] in H.
    inversion H; subst.
    assert (X : match l with [] => false | _ :: _ => null_rejecting S false e end = true ->
                value_of_tv (if neg then not_in3 x vs else in3 x vs) = VNull).
    { intros N. destruct l as [|e0 l]; [discriminate|].
      assert (vs <> []). { apply mapM_length in E2. destruct vs; [discriminate | congruence]. }
      rewrite (proj1 (IH e x Hn E1) N). unfold not_in3. rewrite in3_null by auto. destruct neg; reflexivity. }
    split; intros N; rewrite (X N); congruence.
Qed.

(* Filter p over a LEFT join whose predicate is never TRUE on NULL-padded rows = the same filter over the INNER join *)
Theorem eliminate_outer_join_left_sound : forall on wr (p : row -> bool) L R,
  (forall l, In l L -> p (l ++ nulls wr) = false) ->
  Permutation (filter p (left_join on wr L R)) (filter p (inner_join on L R)).
Proof.
  intros on wr p L R H.
  assert (P : Permutation (filter p (left_join on wr L R))
                (filter p (inner_join on L R ++ map (fun l => l ++ nulls wr) (unmatched_left on L R)))).
  { generalize (left_join_decomp on wr L R). generalize (left_join on wr L R).
    generalize (inner_join on L R ++ map (fun l => l ++ nulls wr) (unmatched_left on L R)).
    intros b a Pab. induction Pab; simpl; auto.
    - destruct (p x); auto.
    - destruct (p x), (p y); auto. apply perm_swap.
    - etransitivity; eauto. }
  etransitivity; [exact P|]. rewrite filter_app.
  rewrite (filter_all_false p (map _ _)); [rewrite app_nil_r; reflexivity|].
  intros x Hx. apply in_map_iff in Hx. destruct Hx as [l [<- Hl]]. apply H.
  unfold unmatched_left in Hl. apply filter_In in Hl. tauto.
Qed.
Lemma filter_perm : forall (p : row -> bool) a b, Permutation a b -> Permutation (filter p a) (filter p b).
Proof.
  intros p a b Pab. induction Pab; simpl; auto.
  - destruct (p x); auto.
  - destruct (p x), (p y); auto. apply perm_swap.
  - etransitivity; eauto.
Qed.
Theorem eliminate_outer_join_right_sound : forall on wl (p : row -> bool) L R,
  (forall r, In r R -> p (nulls wl ++ r) = false) ->
  Permutation (filter p (right_join on wl L R)) (filter p (inner_join on L R)).
Proof.
  intros on wl p L R H.
  etransitivity; [apply filter_perm; apply right_join_decomp|]. rewrite filter_app.
  rewrite (filter_all_false p (map _ _)); [rewrite app_nil_r; reflexivity|].
  intros x Hx. apply in_map_iff in Hx. destruct Hx as [r [<- Hr]]. apply H.
  unfold unmatched_right in Hr. apply filter_In in Hr. tauto.
Qed.
(* FULL join: rejecting NULL-padded-right rows makes it a RIGHT... careful: rows padded on the RIGHT are the
   unmatched LEFT rows; dropping them leaves the RIGHT join; dropping the rows padded on the left leaves the LEFT join *)
Theorem eliminate_outer_join_full_to_right_sound : forall on wl wr (p : row -> bool) L R,
  (forall l, In l L -> p (l ++ nulls wr) = false) ->
  Permutation (filter p (full_join on wl wr L R)) (filter p (right_join on wl L R)).
Proof.
  intros on wl wr p L R H.
  etransitivity; [apply filter_perm; apply full_join_decomp|].
  etransitivity; [|apply filter_perm; symmetry; apply right_join_decomp].
  rewrite !filter_app. rewrite (filter_all_false p (map (fun l => l ++ nulls wr) _)); [reflexivity|].
  intros x Hx. apply in_map_iff in Hx. destruct Hx as [l [<- Hl]]. apply H.
  unfold unmatched_left in Hl. apply filter_In in Hl. tauto.
Qed.
Theorem eliminate_outer_join_full_to_left_sound : forall on wl wr (p : row -> bool) L R,
  (forall r, In r R -> p (nulls wl ++ r) = false) ->
  Permutation (filter p (full_join on wl wr L R)) (filter p (left_join on wr L R)).
Proof.
  intros on wl wr p L R H. unfold full_join. rewrite filter_app.
  rewrite (filter_all_false p (map _ _)); [rewrite app_nil_r; reflexivity|].
  intros x Hx. apply in_map_iff in Hx. destruct Hx as [r [<- Hr]]. apply H.
  unfold unmatched_right in Hr. apply filter_In in Hr. tauto.
Qed.
Theorem eliminate_outer_join_full_to_inner_sound : forall on wl wr (p : row -> bool) L R,
  (forall l, In l L -> p (l ++ nulls wr) = false) ->
  (forall r, In r R -> p (nulls wl ++ r) = false) ->
  Permutation (filter p (full_join on wl wr L R)) (filter p (inner_join on L R)).
Proof.
  intros. etransitivity; [apply eliminate_outer_join_full_to_left_sound; auto|].
  apply eliminate_outer_join_left_sound; auto.
Qed.

(* the rule as a whole, for the reference evaluator: if the WHERE predicate [e] passes the syntactic test for the
   right side of a LEFT join (columns wl ..), then it is not TRUE on any left row padded with NULLs *)
Lemma nulls_null_on_right : forall l wr, null_on (right_side (len l)) (l ++ nulls wr).
Proof.
  intros l wr i v Hi Hv. unfold right_side in Hi. apply Z.leb_le in Hi. unfold len in Hi.
  rewrite nth_error_app2 in Hv by lia. unfold nulls in Hv.
  apply nth_error_In in Hv. apply repeat_spec in Hv. exact Hv.
Qed.
Lemma nulls_null_on_left : forall r wl, 0 <= wl -> null_on (left_side wl) (nulls wl ++ r).
Proof.
  intros r wl Hw i v Hi Hv. unfold left_side in Hi. apply andb_true_iff in Hi. destruct Hi as [H0 H1].
  apply Z.leb_le in H0. apply Z.ltb_lt in H1.
  rewrite nth_error_app1 in Hv by (unfold nulls; rewrite repeat_length; lia).
  apply nth_error_In in Hv. apply repeat_spec in Hv. exact Hv.
Qed.
Theorem null_rejecting_filter_drops_padded_right : forall f d en e l wr,
  null_rejecting (right_side (len l)) true e = true ->
  is_tt (v <- eval_expr f d ((l ++ nulls wr) :: en) e;; tv_of_value v) = false.
Proof.
  intros f d en e l wr N. destruct (eval_expr f d ((l ++ nulls wr) :: en) e) as [v|] eqn:E; [|reflexivity].
  cbn [bind]. pose proof (proj2 (null_rejecting_sound _ f d en _ e v (nulls_null_on_right l wr) E) N) as X.
  destruct v as [| z | [|] | s | n m]; simpl; congruence.
Qed.
Theorem null_rejecting_filter_drops_padded_left : forall f d en e r wl, 0 <= wl ->
  null_rejecting (left_side wl) true e = true ->
  is_tt (v <- eval_expr f d ((nulls wl ++ r) :: en) e;; tv_of_value v) = false.
Proof.
  intros f d en e r wl Hw N. destruct (eval_expr f d ((nulls wl ++ r) :: en) e) as [v|] eqn:E; [|reflexivity].
  cbn [bind]. pose proof (proj2 (null_rejecting_sound _ f d en _ e v (nulls_null_on_left r wl Hw) E) N) as X.
  destruct v as [| z | [|] | s | n m]; simpl; congruence.
Qed.
(* ... hence WHERE e over LEFT JOIN = WHERE e over INNER JOIN, with the filter predicate being the reference's
   evaluation of the expression e (is_tt (evpr ..) is exactly what eval_query's QFilter uses) *)
Theorem eliminate_outer_join_sound : forall f d en e on wl wr L R,
  (forall l, In l L -> len l = wl) ->
  null_rejecting (right_side wl) true e = true ->
  let p := fun r => is_tt (v <- eval_expr f d (r :: en) e;; tv_of_value v) in
  Permutation (filter p (join JLeft on wl wr L R)) (filter p (join (eliminate_outer JLeft false true) on wl wr L R)).
Proof.
  intros f d en e on wl wr L R HL N p. cbn [eliminate_outer join].
  apply eliminate_outer_join_left_sound. intros l Hl. unfold p.
  apply null_rejecting_filter_drops_padded_right. rewrite (HL l Hl). exact N.
Qed.
(* IS NULL is not null-rejecting: treating it so would turn the anti-join idiom into an empty result *)
Theorem is_null_not_null_rejecting : forall S top a, null_rejecting S top (EIsNull false a) = false.
Proof. reflexivity. Qed.
Theorem is_null_as_null_rejecting_refuted :
  exists on wr (p : row -> bool) L R,
    (* p = "right column IS NULL" *)
    ~ Permutation (filter p (left_join on wr L R)) (filter p (inner_join on L R)).
Proof.
  exists (eq_cols 0 0), 1, (col_is 1 VNull), [[VInt 1]], [[VInt 2]].
  intros P. apply Permutation_length in P. vm_compute in P. discriminate.
Qed.

(* ================================================================== push_down_limit *)
Lemma limit_offset_map : forall (f : row -> row) off lim R,
  limit_offset off lim (map f R) = map f (limit_offset off lim R).
Proof. intros. unfold limit_offset. rewrite skipn_map. destruct lim; [apply firstn_map | reflexivity]. Qed.
(* Limit over Projection = Projection over Limit *)
Theorem limit_through_projection_sound : forall (f : row -> row) off lim R,
  limit_offset off lim (map f R) = map f (limit_offset off lim R).
Proof. exact limit_offset_map. Qed.

Lemma firstn_firstn_app : forall {A} n m (a b : list A), (n <= m)%nat ->
  firstn n (firstn m a ++ firstn m b) = firstn n (a ++ b).
Proof.
  intros A n m a b H. rewrite !firstn_app, firstn_firstn, firstn_firstn, firstn_length.
  rewrite (Nat.min_l n m H).
  destruct (Nat.le_gt_cases m (length a)) as [L|L].
  - rewrite (Nat.min_l m (length a) L).
    replace (n - m)%nat with 0%nat by lia. replace (n - length a)%nat with 0%nat by lia. reflexivity.
  - rewrite (Nat.min_r m (length a)) by lia. f_equal. f_equal. lia.
Qed.
(* Limit (skip, fetch) over UNION ALL: every branch gets Limit (0, skip + fetch) and the outer limit STAYS *)
Theorem limit_into_union_all_sound : forall off n L R, 0 <= off -> 0 <= n ->
  limit_offset off (Some n) (set_op SUnion true L R) =
  limit_offset off (Some n) (set_op SUnion true (limit_offset 0 (Some (off + n)) L) (limit_offset 0 (Some (off + n)) R)).
Proof.
  intros off n L R Ho Hn. unfold limit_offset, set_op. cbn [Z.to_nat skipn].
  rewrite !firstn_skipn_comm. f_equal. rewrite Z2Nat.inj_add by lia.
  symmetry. apply firstn_firstn_app. lia.
Qed.
(* dropping the outer limit is wrong *)
Theorem limit_into_union_all_without_outer_limit_refuted :
  exists off n L R,
    ~ Permutation (limit_offset off (Some n) (set_op SUnion true L R))
                  (set_op SUnion true (limit_offset 0 (Some (off + n)) L) (limit_offset 0 (Some (off + n)) R)).
Proof.
  exists 0, 1, [[VInt 1]], [[VInt 2]]. intros P. apply Permutation_length in P. vm_compute in P. discriminate.
Qed.

Lemma skipn_skipn' : forall {A} a b (l : list A), skipn a (skipn b l) = skipn (b + a) l.
Proof.
  intros A a b. revert a. induction b as [|b IH]; intros a l; [reflexivity|].
  destruct l as [|x l]; cbn [skipn Nat.add]; [apply skipn_nil | apply IH].
Qed.
(* Limit over Limit = one Limit with combine_limit's skip and fetch *)
Theorem limit_over_limit_sound : forall ps pf cs cf R,
  0 <= ps -> 0 <= cs -> (forall p, pf = Some p -> 0 <= p) -> (forall c, cf = Some c -> 0 <= c) ->
  limit_offset ps pf (limit_offset cs cf R) =
  limit_offset (fst (combine_limit ps pf cs cf)) (snd (combine_limit ps pf cs cf)) R.
Proof.
  intros ps pf cs cf R Hps Hcs Hpf Hcf. unfold combine_limit, limit_offset. cbn [fst snd].
  rewrite Z2Nat.inj_add by lia.
  destruct pf as [p|], cf as [c|].
  - specialize (Hpf p eq_refl). specialize (Hcf c eq_refl).
    rewrite skipn_firstn_comm, firstn_firstn, skipn_skipn'. f_equal.
    rewrite Z2Nat.inj_min, Z2Nat.inj_max. cbn [Z.to_nat]. rewrite Z2Nat.inj_sub by lia. lia.
  - rewrite skipn_skipn'. reflexivity.
  - specialize (Hcf c eq_refl). rewrite skipn_firstn_comm, skipn_skipn'. f_equal.
    rewrite Z2Nat.inj_max. cbn [Z.to_nat]. rewrite Z2Nat.inj_sub by lia. lia.
  - rewrite skipn_skipn'. reflexivity.
Qed.

(* Limit (skip, fetch) over Sort: the sort gets fetch = skip + fetch (min with an existing fetch), the limit stays *)
Theorem limit_into_sort_fetch_sound : forall ds off n (l : list (row * row)), 0 <= off -> 0 <= n ->
  limit_offset off (Some n) (map snd (sort_fetch ds None l)) =
  limit_offset off (Some n) (map snd (sort_fetch ds (Some (off + n)) l)).
Proof.
  intros ds off n l Ho Hn. unfold limit_offset, sort_fetch.
  rewrite <- !firstn_map. rewrite !firstn_skipn_comm. f_equal.
  rewrite firstn_firstn. rewrite Z2Nat.inj_add by lia. rewrite Nat.min_id. reflexivity.
Qed.
Theorem limit_into_sort_existing_fetch_sound : forall ds off n k (l : list (row * row)), 0 <= off -> 0 <= n -> 0 <= k ->
  limit_offset off (Some n) (map snd (sort_fetch ds (Some k) l)) =
  limit_offset off (Some n) (map snd (sort_fetch ds (Some (Z.min k (off + n))) l)).
Proof.
  intros ds off n k l Ho Hn Hk. unfold limit_offset, sort_fetch.
  rewrite <- !firstn_map. rewrite !firstn_skipn_comm. f_equal.
  rewrite !firstn_firstn. f_equal. rewrite Z2Nat.inj_min, Z2Nat.inj_add by lia. lia.
Qed.

(* Limit over a LEFT join: the preserved (left) input gets Limit (0, skip + fetch); every left row yields at least
   one output row, so the first k output rows only need the first k left rows (nested-loop order of the reference) *)
Lemma firstn_flat_map_nonempty : forall {A B} (g : A -> list B) k l,
  (forall x, In x l -> g x <> []) ->
  firstn k (flat_map g l) = firstn k (flat_map g (firstn k l)).
Proof.
  intros A B g k. induction k as [|k IH]; intros l H; [reflexivity|].
  destruct l as [|a l]; [reflexivity|]. cbn [firstn flat_map].
  destruct (g a) as [|b bs] eqn:E; [exfalso; apply (H a); simpl; auto|].
  cbn [app firstn]. f_equal. rewrite !firstn_app. f_equal.
  destruct (Nat.le_gt_cases k (length bs)) as [L|L].
  - replace (k - length bs)%nat with 0%nat by lia. reflexivity.
  - assert (X : forall m, (m <= k)%nat -> firstn m (flat_map g l) = firstn m (flat_map g (firstn k l))).
    { intros m Hm. rewrite <- (Nat.min_l m k Hm), <- !firstn_firstn. f_equal. apply IH. intros; apply H; simpl; auto. }
    apply X. lia.
Qed.
Theorem limit_into_left_join_sound : forall on wr off n L R, 0 <= off -> 0 <= n ->
  limit_offset off (Some n) (left_join on wr L R) =
  limit_offset off (Some n) (left_join on wr (limit_offset 0 (Some (off + n)) L) R).
Proof.
  intros on wr off n L R Ho Hn. unfold limit_offset. cbn [Z.to_nat skipn].
  rewrite !firstn_skipn_comm. f_equal. rewrite Z2Nat.inj_add by lia. unfold left_join.
  apply firstn_flat_map_nonempty. intros l _. destruct (filter (on l) R); simpl; discriminate.
Qed.
Theorem limit_into_right_join_sound : forall on wl off n L R, 0 <= off -> 0 <= n ->
  limit_offset off (Some n) (right_join on wl L R) =
  limit_offset off (Some n) (right_join on wl L (limit_offset 0 (Some (off + n)) R)).
Proof.
  intros on wl off n L R Ho Hn. unfold limit_offset. cbn [Z.to_nat skipn].
  rewrite !firstn_skipn_comm. f_equal. rewrite Z2Nat.inj_add by lia. unfold right_join.
  apply firstn_flat_map_nonempty. intros r _. destruct (filter (fun l => on l r) L); simpl; discriminate.
Qed.

(* ================================================================== eliminate_filter / eliminate_limit *)
Theorem eliminate_filter_true_sound : forall R : rel, filter (fun _ => holds TT) R = R.
Proof. intros; apply filter_true. Qed.
Theorem eliminate_filter_false_or_null_sound : forall (t : tv) (R : rel), t <> TT -> filter (fun _ => holds t) R = [].
Proof. intros t R H. destruct t; try congruence; apply filter_false. Qed.
Theorem eliminate_limit_noop_sound : forall R : rel, limit_offset 0 None R = R.
Proof. reflexivity. Qed.
Theorem eliminate_limit_fetch_zero_sound : forall off (R : rel), limit_offset off (Some 0) R = [].
Proof. reflexivity. Qed.

(* ================================================================== propagate_empty_relation *)
Lemma inner_join_nil_r : forall on L, inner_join on L [] = [].
Proof. unfold inner_join. induction L; simpl; auto. Qed.
Lemma right_join_nil_l_gen : forall on wl R, right_join on wl [] R = map (fun r => nulls wl ++ r) R.
Proof. unfold right_join. induction R; simpl; auto; try (f_equal; auto). Qed.
Lemma left_join_nil_r_gen : forall on wr L, left_join on wr L [] = map (fun l => l ++ nulls wr) L.
Proof. unfold left_join. induction L; simpl; auto; try (f_equal; auto). Qed.
Theorem propagate_empty_join_sound : forall on wl wr (L R : rel),
  (* INNER: either side empty; LEFT: left side empty; RIGHT: right side empty; FULL: both empty  => empty *)
  join JInner on wl wr [] R = [] /\ join JInner on wl wr L [] = [] /\
  join JLeft on wl wr [] R = [] /\ join JRight on wl wr L [] = [] /\ join JFull on wl wr [] [] = [] /\
  (* outer join whose NULL-SUPPLYING side is empty => the other side padded with NULLs (a projection), NOT empty *)
  join JLeft on wl wr L [] = map (fun l => l ++ nulls wr) L /\
  join JRight on wl wr [] R = map (fun r => nulls wl ++ r) R /\
  join JFull on wl wr L [] = map (fun l => l ++ nulls wr) L /\
  join JFull on wl wr [] R = map (fun r => nulls wl ++ r) R.
Proof.
  intros. cbn [join]. repeat split;
    try reflexivity; try apply inner_join_nil_r; try apply left_join_nil_r_gen; try apply right_join_nil_l_gen.
  - unfold full_join, unmatched_right. cbn [filter map]. rewrite app_nil_r. apply left_join_nil_r_gen.
  - unfold full_join, unmatched_right. cbn [left_join flat_map app existsb negb]. rewrite filter_true. reflexivity.
Qed.
Theorem propagate_empty_left_join_right_refuted :
  exists on wl wr L, join JLeft on wl wr L [] <> [].
Proof. exists (fun _ _ => true), 1, 1, [[VInt 1]]. discriminate. Qed.
Theorem propagate_empty_semi_anti_sound : forall on (L R : rel),
  semi_join on [] R = [] /\ semi_join on L [] = [] /\ anti_join on [] R = [] /\ anti_join on L [] = L.
Proof.
  intros. unfold semi_join, anti_join. repeat split; cbn [filter existsb]; auto.
  - apply filter_false.
  - apply filter_true.
Qed.
Theorem propagate_empty_unary_sound : forall (p : row -> bool) (f : row -> row) off lim ds keyf aggf,
  filter p [] = [] /\ map f [] = [] /\ limit_offset off lim [] = [] /\ distinct [] = [] /\
  map snd (sort_pairs ds []) = [] /\ group_rows keyf aggf [] = [].
Proof.
  intros. repeat split; try reflexivity. unfold limit_offset. rewrite skipn_nil. destruct lim; [apply firstn_nil | reflexivity].
Qed.
(* an aggregate WITHOUT grouping keys over an empty input is not empty (the rule requires group_expr non-empty) *)
Theorem propagate_empty_global_aggregate_refuted : forall aggf, global_agg aggf [] <> [].
Proof. intros aggf; discriminate. Qed.
Theorem propagate_empty_union_sound : forall L R : rel,
  set_op SUnion true [] R = R /\ set_op SUnion true L [] = L /\ set_op SUnion true [] [] = [].
Proof. intros; cbn [set_op]; repeat split; auto. apply app_nil_r. Qed.

(* ================================================================== replace_distinct_aggregate *)
Lemma distinct_NoDup : forall R, NoDup (distinct R).
Proof.
  induction R as [|a R IH]; cbn [distinct]; [constructor|].
  destruct (mem a R) eqn:M; auto. constructor; auto.
  rewrite distinct_In. intros Hin. apply count_pos_In in Hin. apply mem_count in Hin. congruence.
Qed.
(* SELECT DISTINCT * = GROUP BY all columns with no aggregates *)
Theorem distinct_as_group_by_sound : forall R,
  Permutation (distinct R) (group_rows (fun r => r) (fun _ => []) R).
Proof.
  intros R. unfold group_rows.
  rewrite (map_ext (fun g : row * rel => fst g ++ []) fst) by (intros; apply app_nil_r).
  apply NoDup_Permutation.
  - apply distinct_NoDup.
  - apply group_keys_nodup.
  - intros x. rewrite distinct_In. split.
    + intros Hx. destruct (group_complete (map (fun r => (r, r)) R) x x) as [g [Hg [Hk _]]].
      { apply in_map_iff. exists x; auto. }
      apply in_map_iff. exists g; auto.
    + intros Hx. apply in_map_iff in Hx. destruct Hx as [g [<- Hg]].
      pose proof (group_nonempty (map (fun r : row => (r, r)) R)) as NE.
      rewrite Forall_forall in NE. specialize (NE g Hg). destruct g as [k ms0]. cbn [fst snd] in *.
      destruct ms0 as [|m ms]; [congruence|].
      assert (Hm : In (k, m) (map (fun r : row => (r, r)) R)).
      { apply (group_member_key _ (k, m :: ms) m Hg). simpl; auto. }
      apply in_map_iff in Hm. destruct Hm as [r [Er Hr]]. inversion Er; subst. exact Hr.
Qed.

(* ================================================================== filter_null_join_keys *)
(* an equi-join key that is NULL never matches (NULL = x is UNKNOWN): IS NOT NULL filters on the key expressions
   of both inputs of an INNER join do not change the result *)
Theorem filter_null_join_keys_sound : forall (kl kr : row -> value) (rest : row -> row -> bool) L R,
  let on := fun l r => holds (eq3 (kl l) (kr r)) && rest l r in
  inner_join on L R =
  inner_join on (filter (fun l => negb (is_null (kl l))) L) (filter (fun r => negb (is_null (kr r))) R).
Proof.
  intros kl kr rest L R on. unfold inner_join. rewrite flat_map_filter. apply flat_map_ext_in. intros l _.
  destruct (kl l) eqn:E; cbn [is_null negb];
    try (f_equal; rewrite filter_filter; apply filter_ext_in'; intros r _; unfold on; rewrite E;
         destruct (kr r); reflexivity).
  rewrite (filter_all_false (on l)); auto. intros r _. unfold on. rewrite E. reflexivity.
Qed.
(* for a LEFT join only the null-supplying (right) input may be filtered *)
Theorem filter_null_join_keys_left_join_sound : forall (kl kr : row -> value) (rest : row -> row -> bool) wr L R,
  let on := fun l r => holds (eq3 (kl l) (kr r)) && rest l r in
  left_join on wr L R = left_join on wr L (filter (fun r => negb (is_null (kr r))) R).
Proof.
  intros kl kr rest wr L R on. unfold left_join. apply flat_map_ext_in. intros l _.
  rewrite filter_filter. rewrite (filter_ext_in' (on l) (fun x => negb (is_null (kr x)) && on l x)); auto.
  intros r _. unfold on. destruct (kr r); cbn [is_null negb andb]; auto.
  unfold eq3. rewrite cmp3_null_r. reflexivity.
Qed.

(* ================================================================== decorrelate_predicate_subquery *)
(* WHERE EXISTS (subquery correlated by [on]) = LEFT SEMI join; WHERE NOT EXISTS = LEFT ANTI join.
   [filter (on l) R] is the subquery's result for the outer row l (its WHERE clause is the correlation) *)
Theorem exists_to_semi_join_sound : forall on (L R : rel),
  filter (fun l => negb (Nat.eqb (length (filter (on l) R)) 0)) L = semi_join on L R.
Proof.
  intros. unfold semi_join. apply filter_ext_in'. intros l _.
  destruct (filter (on l) R) eqn:E.
  - apply filter_nil_existsb in E. rewrite E. reflexivity.
  - destruct (existsb (on l) R) eqn:X; auto. apply filter_nil_existsb in X. congruence.
Qed.
Theorem not_exists_to_anti_join_sound : forall on (L R : rel),
  filter (fun l => Nat.eqb (length (filter (on l) R)) 0) L = anti_join on L R.
Proof.
  intros. unfold anti_join. apply filter_ext_in'. intros l _.
  destruct (filter (on l) R) eqn:E.
  - apply filter_nil_existsb in E. rewrite E. reflexivity.
  - destruct (existsb (on l) R) eqn:X; auto. apply filter_nil_existsb in X. congruence.
Qed.
(* x IN (subquery) as a top-level WHERE conjunct = LEFT SEMI join on x = column *)
Theorem in_subquery_to_semi_join_sound : forall (x : row -> value) (vs : list value) (L : rel),
  filter (fun l => holds (in3 (x l) vs)) L = semi_join (fun l r => holds (eq3 (x l) (hd VNull r))) L (map (fun v => [v]) vs).
Proof.
  intros. unfold semi_join. apply filter_ext_in'. intros l _.
  induction vs as [|v vs IH]; [reflexivity|].
  unfold in3 in *. cbn [map any3 fold_right existsb hd]. fold (any3 (map (eq3 (x l)) vs)).
  rewrite holds_or3, IH. reflexivity.
Qed.

(* ================================================================== the syntactic "only references one side" test *)
Lemma mapM_ext_in : forall {A B} (f g : A -> res B) l, (forall x, In x l -> f x = g x) -> mapM f l = mapM g l.
Proof.
  induction l as [|a l IH]; intros H; [reflexivity|]. cbn [mapM].
  rewrite (H a (or_introl eq_refl)), IH; auto. intros; apply H; simpl; auto.
Qed.
Lemma lookup_left : forall l x en dp i,
  (if dp <=? 0 then (0 <=? i) && (i <? len l) else true) = true ->
  lookup ((l ++ x) :: en) dp i = lookup (l :: en) dp i.
Proof.
  intros l x en dp i H. unfold lookup. destruct (dp <=? 0) eqn:D.
  - apply Z.leb_le in D. replace (Z.to_nat dp) with 0%nat by lia. cbn [nth_error].
    apply andb_true_iff in H. destruct H as [H0 H1]. apply Z.leb_le in H0. apply Z.ltb_lt in H1. unfold len in H1.
    rewrite nth_error_app1 by lia. reflexivity.
  - apply Z.leb_gt in D. destruct (Z.to_nat dp) as [|k] eqn:K; [lia|]. reflexivity.
Qed.
(* has_all_column_refs(predicate, left columns): the predicate evaluates on the joined row l ++ x exactly as on l,
   whatever x is (a matching right row or the NULL padding) *)
Theorem cols_all_left_sound : forall f d (en : env) (l x : row) e,
  cols_all (fun i => (0 <=? i) && (i <? len l)) e = true ->
  eval_expr f d ((l ++ x) :: en) e = eval_expr f d (l :: en) e.
Proof.
  intros f d en l x. induction f as [|f IH]; intros e H; [reflexivity|].
  destruct e; cbn [cols_all] in H; cbn [eval_expr]; try discriminate H;
    repeat match goal with
           | H : _ && _ = true |- _ => apply andb_true_iff in H; destruct H
           end;
    repeat match goal with
           | H : cols_all _ ?a = true |- _ => rewrite (IH a H); clear H
           end; try reflexivity.
  - apply lookup_left; auto.
  - (* EInList *)
    rewrite (mapM_ext_in (eval_expr f d ((l ++ x) :: en)) (eval_expr f d (l :: en)) l0); [reflexivity|].
    intros y Hy. apply IH. rewrite forallb_forall in H0. auto.
  - (* ECase *)
    assert (E : match els with Some e => eval_expr f d ((l ++ x) :: en) e | None => Ok VNull end =
                match els with Some e => eval_expr f d (l :: en) e | None => Ok VNull end).
    { destruct els; auto. }
    clear H0. induction ws as [|[w t] ws IHws]; [exact E|].
    cbn [forallb] in H. apply andb_true_iff in H. destruct H as [Hwt Hws]. apply andb_true_iff in Hwt. destruct Hwt as [Hw Ht].
    rewrite (IH w Hw), (IH t Ht), (IHws Hws). reflexivity.
  - (* ECoalesce *)
    induction l0 as [|a l0 IHl]; [reflexivity|].
    cbn [forallb] in H. apply andb_true_iff in H. destruct H as [Ha Hl].
    rewrite (IH a Ha), (IHl Hl). reflexivity.
Qed.
(* hence the side condition of filter_into_left_join_preserved_sound / filter_into_inner_join_left_sound holds for
   the reference's evaluation of a predicate that passes the syntactic test *)
Corollary cols_all_left_filter_side_condition : forall f d (en : env) e (L : rel),
  (forall l : row, In l L -> cols_all (fun i => (0 <=? i) && (i <? len l)) e = true) ->
  let p := fun r : row => is_tt (v <- eval_expr f d (r :: en) e;; tv_of_value v) in
  forall l x : row, In l L -> p (l ++ x) = p l.
Proof.
  intros f d en e L H p l x Hl. subst p. cbv beta. f_equal. f_equal. apply cols_all_left_sound. apply H; exact Hl.
Qed.

(* ================================================================== eliminate_duplicated_expr (ORDER BY a, b, a) *)
Lemma dir_cmp_eq_dir_indep : forall d d' x y, dir_cmp d x y = Eq -> dir_cmp d' x y = Eq.
Proof.
  intros [desc nf] [desc' nf'] x y. unfold dir_cmp.
  destruct x, y; try (destruct nf, nf'; congruence); try reflexivity;
    match goal with |- context [vcmp_nn ?a ?b] => generalize (vcmp_nn a b) end;
    intros c; destruct c, desc, desc'; simpl; congruence.
Qed.
Lemma keys_cmp_app : forall ds1 ds2 a1 a2 b1 b2, length a1 = length ds1 -> length b1 = length ds1 ->
  keys_cmp (ds1 ++ ds2) (a1 ++ a2) (b1 ++ b2) =
  match keys_cmp ds1 a1 b1 with Eq => keys_cmp ds2 a2 b2 | c => c end.
Proof.
  induction ds1 as [|d ds1 IH]; intros ds2 a1 a2 b1 b2 Ha Hb.
  - destruct a1, b1; try discriminate. reflexivity.
  - destruct a1 as [|x a1], b1 as [|y b1]; try discriminate. cbn [app keys_cmp].
    destruct (dir_cmp d x y); auto; try (apply IH; simpl in *; lia).
Qed.
Lemma keys_cmp_eq_nth : forall ds a b, keys_cmp ds a b = Eq -> length a = length ds -> length b = length ds ->
  forall i x y, nth_error a i = Some x -> nth_error b i = Some y -> forall d, dir_cmp d x y = Eq.
Proof.
  induction ds as [|d0 ds IH]; intros a b E Ha Hb i x y Hx Hy d.
  - destruct a; [destruct i; discriminate | discriminate].
  - destruct a as [|x0 a], b as [|y0 b]; try discriminate. cbn [keys_cmp] in E.
    destruct (dir_cmp d0 x0 y0) eqn:D; try discriminate.
    destruct i as [|i]; cbn [nth_error] in Hx, Hy.
    + inversion Hx; inversion Hy; subst. eapply dir_cmp_eq_dir_indep; eauto.
    + eapply (IH a b E); simpl in *; try lia; eauto.
Qed.
(* a sort key that repeats an earlier key (whatever its direction / NULL placement) never decides a comparison *)
Theorem duplicated_sort_key_comparator_sound : forall ds1 d ds2 a1 a2 b1 b2 x y i,
  length a1 = length ds1 -> length b1 = length ds1 -> nth_error a1 i = Some x -> nth_error b1 i = Some y ->
  keys_cmp (ds1 ++ d :: ds2) (a1 ++ x :: a2) (b1 ++ y :: b2) = keys_cmp (ds1 ++ ds2) (a1 ++ a2) (b1 ++ b2).
Proof.
  intros ds1 d ds2 a1 a2 b1 b2 x y i Ha Hb Hx Hy. rewrite !keys_cmp_app by auto.
  destruct (keys_cmp ds1 a1 b1) eqn:E; auto. cbn [keys_cmp].
  rewrite (keys_cmp_eq_nth ds1 a1 b1 E Ha Hb i x y Hx Hy d). reflexivity.
Qed.
Lemma isort_map_key : forall {A B} (f : A -> B) (leA : A -> A -> bool) (leB : B -> B -> bool),
  (forall x y, leA x y = leB (f x) (f y)) -> forall l, map f (isort leA l) = isort leB (map f l).
Proof.
  intros A B f leA leB H. induction l as [|a l IH]; [reflexivity|]. cbn [isort map]. rewrite <- IH.
  generalize (isort leA l). induction l0 as [|b l0 IH0]; [reflexivity|]. cbn [insert_sorted map].
  rewrite <- H. destruct (leA a b); cbn [map]; [reflexivity | rewrite IH0; reflexivity].
Qed.
Lemma isort_ext : forall {A} (le1 le2 : A -> A -> bool), (forall x y, le1 x y = le2 x y) -> forall l, isort le1 l = isort le2 l.
Proof.
  intros A le1 le2 H. induction l as [|a l IH]; [reflexivity|]. cbn [isort]. rewrite IH.
  generalize (isort le2 l). induction l0 as [|b l0 IH0]; [reflexivity|]. cbn [insert_sorted]. rewrite H, IH0. reflexivity.
Qed.
Lemma sort_by_keys : forall ds (kf : row -> row) (R : rel),
  map snd (sort_pairs ds (map (fun r => (kf r, r)) R)) = isort (fun r r' => keys_leb ds (kf r) (kf r')) R.
Proof.
  intros. unfold sort_pairs.
  rewrite <- (isort_map_key (fun r => (kf r, r)) (fun r r' => keys_leb ds (kf r) (kf r'))
                (fun p q : row * row => keys_leb ds (fst p) (fst q)) (fun _ _ => eq_refl) R).
  rewrite map_map. cbn [snd]. apply map_id.
Qed.
(* ORDER BY k1..kn, k_i', kn+1.. (k_i' the same expression as an earlier key) = ORDER BY without the repeated key:
   the very same output sequence (the reference sort is stable) *)
Theorem eliminate_duplicated_sort_key_sound : forall ds1 d ds2 (ks1 ks2 : list (row -> value)) k i (R : rel),
  length ks1 = length ds1 -> nth_error ks1 i = Some k ->
  let keys := fun (ks : list (row -> value)) (r : row) => map (fun kf => kf r) ks in
  map snd (sort_pairs (ds1 ++ d :: ds2) (map (fun r => (keys (ks1 ++ k :: ks2) r, r)) R)) =
  map snd (sort_pairs (ds1 ++ ds2) (map (fun r => (keys (ks1 ++ ks2) r, r)) R)).
Proof.
  intros ds1 d ds2 ks1 ks2 k i R Hl Hk keys. rewrite !sort_by_keys. apply isort_ext. intros r r'.
  unfold keys_leb, keys. rewrite !map_app. cbn [map].
  rewrite (duplicated_sort_key_comparator_sound ds1 d ds2 _ _ _ _ (k r) (k r') i); auto;
    try (rewrite map_length; exact Hl); rewrite nth_error_map, Hk; reflexivity.
Qed.
