(* C15 -- every operation of Model/DistChan.v preserves the invariant [Inv] (Proofs/DistChanProofs.v). *)
From DF Require Import Base.Prelude Model.DistChan Proofs.DistChanProofs.
From Coq Require Import Lia.
Open Scope Z_scope.

Lemma decr_none : forall e, decr_empty e None = (e - 1, if e =? 1 then Some [] else None).
Proof.
  intros. unfold decr_empty. destruct (e =? 1) eqn:E; auto.
  apply Z.eqb_eq in E. subst. reflexivity.
Qed.

Lemma no_panic_cons : forall rtr o ou, no_panic rtr -> fst ou <> RPanic -> no_panic ((o, ou) :: rtr).
Proof. intros. constructor; auto. Qed.

Ltac simp_tr := simpl; unfold on_chan, sent_ev, recv_ev; simpl; rewrite ?Nat.eqb_refl; simpl; rewrite ?app_nil_r, ?Nat.add_0_r.

Lemma filter_true_id : forall A (l : list A), filter (fun _ => true) l = l.
Proof. induction l; simpl; congruence. Qed.

Ltac unwoken H :=
  first [ rewrite filter_true_id in H
        | apply In_unwoken_nil with (f := fun w => w) in H
        | apply In_unwoken_nil with (f := fst) in H ].

(* when some channel is open and empty the gate is open *)
Lemma open_empty_gate : forall s rtr c ch, Inv s rtr -> nth_error (chans s) c = Some ch -> open_empty ch = true ->
  1 <= empty s /\ swk s = None.
Proof.
  intros s rtr c ch (HC & (G1 & G2 & G3 & G4 & G5) & HP) Hn Ho.
  pose proof (count_ge_1 _ _ _ Hn Ho). split; [lia|].
  destruct (swk s) eqn:E; auto. specialize (G2 _ eq_refl). lia.
Qed.

Lemma send_inv : forall s rtr c w x s' ou,
  Inv s rtr -> send_poll c w x s = Some (s', ou) -> Inv s' ((SendPoll c w x, ou) :: rtr).
Proof.
  intros s rtr c w x s' ou HI H.
  pose proof HI as (HC & (G1 & G2 & G3 & G4 & G5) & HP).
  unfold send_poll in H.
  destruct (nth_error (chans s) c) as [ch|] eqn:Hn; [|discriminate].
  destruct (nsend ch =? 0)%nat eqn:Hns; [discriminate|]. apply Nat.eqb_neq in Hns.
  pose proof (HC _ _ Hn) as (K1 & K2 & K3 & K4 & K5 & K6).
  destruct (data ch) as [q|] eqn:Hd.
  2:{ (* receiver gone: Err *)
    inversion H; subst; clear H. split; [|split].
    - apply chans_keep with (c := c); auto. intros ch0 Hn0. rewrite Hn in Hn0. inversion Hn0; subst ch0.
      unfold chan_ok. rewrite Hd. simp_tr. repeat split; try tauto.
      intros w0 Hw0. apply In_unwoken_nil with (f := fun w => w) in Hw0. auto.
    - unfold gate_ok. simp_tr. repeat split; auto.
      intros w0 c0 Hw0. apply In_unwoken_nil with (f := fst) in Hw0. auto.
    - apply no_panic_cons; auto. simpl. discriminate. }
  destruct (if empty s =? 0 then swk s else None) as [l|] eqn:Hg.
  { (* gate closed: Pending *)
    destruct (empty s =? 0) eqn:He; [|discriminate]. apply Z.eqb_eq in He.
    inversion H; subst; clear H. split; [|split].
    - simpl. apply chans_keep with (c := c); auto. intros ch0 Hn0. rewrite Hn in Hn0. inversion Hn0; subst ch0.
      unfold chan_ok. rewrite Hd. simp_tr. repeat split; try tauto.
      intros w0 Hw0. apply In_unwoken_nil with (f := fun w => w) in Hw0. auto.
    - unfold gate_ok. simpl. repeat split; auto.
      + intros _. left. discriminate.
      + intros l0 w0 c0 E Hi. inversion E; subst l0. apply in_app_or in Hi. destruct Hi as [Hi|Hi].
        * eapply G4; eauto.
        * destruct Hi as [Hi|[]]. inversion Hi; subst. exists ch. rewrite Hd. split; auto. discriminate.
      + intros w0 c0 [Hi|Hi].
        * inversion Hi; subst. eexists. split; eauto. apply in_or_app. right. left. auto.
        * apply In_unwoken_nil with (f := fst) in Hi. destruct (G5 _ _ Hi) as (l0 & E0 & Hi0).
          rewrite Hg in E0. inversion E0; subst l0. eexists. split; eauto. apply in_or_app. left. auto.
    - apply no_panic_cons; auto. simpl. discriminate. }
  assert (Hsw : forall w0 c0, ~ In (w0, c0) (parked_send rtr) \/ (empty s <> 0 /\ swk s = None) \/ swk s = None).
  { intros. destruct (swk s) eqn:E; auto. specialize (G2 _ eq_refl). rewrite G2 in Hg. simpl in Hg. discriminate. }
  assert (Hswk : swk s = None).
  { destruct (swk s) eqn:E; auto. specialize (G2 _ eq_refl). rewrite G2 in Hg. simpl in Hg. discriminate. }
  clear Hsw.
  assert (Hpk : parked_send rtr = []).
  { destruct (parked_send rtr) as [|[w0 c0] t] eqn:E; auto.
    exfalso. destruct (G5 w0 c0) as (l0 & E0 & _); [try rewrite E; left; auto|]. congruence. }
  destruct q as [|y q]; simpl in H.
  - (* queue was empty *)
    assert (Hrw : exists rl, rwk ch = Some rl).
    { destruct (rwk ch) eqn:E; eauto. exfalso. apply Hns. apply K1. auto. }
    destruct Hrw as [rl Hrw]. rewrite Hrw in H.
    assert (Hoe : open_empty ch = true) by (unfold open_empty; rewrite Hd, Hrw; auto).
    destruct (open_empty_gate _ _ _ _ HI Hn Hoe) as [He1 _].
    rewrite Hswk, decr_none in H. simpl in H. inversion H; subst; clear H.
    split; [|split].
    + simpl. eapply chans_update; eauto.
      unfold chan_ok. simp_tr. repeat split; try tauto; try lia; try discriminate.
      * intros rl0 w0 E Hi. inversion E; subst. contradiction.
      * rewrite <- K3. rewrite app_nil_r. reflexivity.
      * intros Hr. exfalso. apply K5 in Hr. discriminate.
      * intros w0 H. exfalso. apply In_unwoken with (f := fun w => w) in H. destruct H as [Ha Hb].
        destruct (K6 _ Ha) as (rl0 & E0 & Hi0). rewrite Hrw in E0. inversion E0; subst. auto.
    + unfold gate_ok. simpl. rewrite Hpk. simpl.
      rewrite (count_set _ _ _ _ Hn). rewrite Hoe. unfold open_empty at 1. simpl.
      repeat split; try (unfold b2z; lia).
      * intros l0 E. destruct (empty s =? 1) eqn:E1; [|discriminate]. apply Z.eqb_eq in E1. lia.
      * intros E. left. assert (E1 : empty s =? 1 = true) by (apply Z.eqb_eq; lia). rewrite E1. discriminate.
      * intros l0 w0 c0 E Hi. destruct (empty s =? 1); inversion E; subst. contradiction.
    + apply no_panic_cons; auto. simpl. discriminate.
  - (* queue was not empty *)
    inversion H; subst; clear H. split; [|split].
    + simpl. eapply chans_update; eauto.
      unfold chan_ok. simp_tr. repeat split; try tauto; try lia; try discriminate.
      * intros rl w0 E Hi. destruct (K2 _ _ E Hi); discriminate.
      * rewrite <- K3. rewrite <- app_assoc. reflexivity.
      * intros Hr. exfalso. apply K5 in Hr. discriminate.
      * intros w0 Hw0. unwoken Hw0. auto.
    + unfold gate_ok. simpl. rewrite Hpk. simpl.
      rewrite (count_set _ _ _ _ Hn). unfold open_empty. rewrite Hd. simpl.
      repeat split; auto; try (unfold b2z; lia).
      * intros E. destruct (G3 E); auto. right. rewrite H in Hn. destruct c; discriminate.
      * intros l0 w0 c0 E. rewrite Hswk in E. discriminate.
    + apply no_panic_cons; auto. simpl. discriminate.
Qed.

(* ------------------------------------------------------------------ helpers for the gate part *)
Lemma parked_send_sub : forall o r wk rtr p,
  (forall c w x, o = SendPoll c w x -> r <> RPending) ->
  In p (parked_send ((o, (r, wk)) :: rtr)) -> In p (parked_send rtr) /\ ~ In (fst p) wk.
Proof.
  intros o r wk rtr p Hnp H. simpl in H.
  assert (E : match o, r with SendPoll c w _, RPending => [(w, c)] | _, _ => [] end = []).
  { destruct o; auto. destruct r; auto. exfalso. eapply Hnp; eauto. }
  rewrite E in H. simpl in H. apply In_unwoken with (f := fst) in H. auto.
Qed.

Lemma filter_true_In : forall A (l : list A) p, In p (filter (fun _ => true) l) -> In p l /\ True.
Proof. intros. rewrite filter_true_id in H. auto. Qed.
Ltac psub H := first [ apply parked_send_sub in H; [|intros; discriminate] | apply In_unwoken with (f := fst) in H
                     | apply filter_true_In in H ].

Lemma gate_keep : forall s rtr rtr' c ch ch',
  gate_ok s rtr -> nth_error (chans s) c = Some ch ->
  open_empty ch' = open_empty ch -> (data ch <> None -> data ch' <> None) ->
  (forall p, In p (parked_send rtr') -> In p (parked_send rtr)) ->
  gate_ok (mkState (set_nth c ch' (chans s)) (empty s) (swk s)) rtr'.
Proof.
  intros s rtr rtr' c ch ch' (G1 & G2 & G3 & G4 & G5) Hn Ho Hd Hp.
  unfold gate_ok. simpl. rewrite (count_set _ _ _ _ Hn), Ho.
  split; [lia|]. split; [auto|]. split; [|split].
  - intros E. destruct (G3 E); auto. rewrite H in Hn. destruct c; discriminate.
  - intros l w c0 E Hi. destruct (G4 _ _ _ E Hi) as (ch0 & Hn0 & Hd0).
    destruct (Nat.eq_dec c c0).
    + subst c0. rewrite Hn in Hn0. inversion Hn0; subst ch0.
      exists ch'. split; auto. eapply nth_error_set_eq; eauto.
    + exists ch0. split; auto. rewrite nth_error_set_neq; auto.
  - intros w c0 Hi. apply G5. apply Hp. auto.
Qed.

Lemma swk_none_parked : forall s rtr, gate_ok s rtr -> swk s = None -> parked_send rtr = [].
Proof.
  intros s rtr (G1 & G2 & G3 & G4 & G5) E.
  destruct (parked_send rtr) as [|[w0 c0] t] eqn:E1; auto.
  exfalso. destruct (G5 w0 c0) as (l0 & E0 & _); [try rewrite E1; left; auto|]. congruence.
Qed.

Lemma recv_inv : forall s rtr c w s' ou,
  Inv s rtr -> recv_poll c w s = Some (s', ou) -> Inv s' ((RecvPoll c w, ou) :: rtr).
Proof.
  intros s rtr c w s' ou HI H.
  pose proof HI as (HC & HG & HP).
  pose proof HG as (G1 & G2 & G3 & G4 & G5).
  unfold recv_poll in H.
  destruct (nth_error (chans s) c) as [ch|] eqn:Hn; [|discriminate].
  pose proof (HC _ _ Hn) as (K1 & K2 & K3 & K4 & K5 & K6).
  destruct (data ch) as [q|] eqn:Hd; [|discriminate].
  destruct q as [|x q'].
  - destruct (rwk ch) as [rl|] eqn:Hrw.
    + (* Pending *)
      inversion H; subst; clear H. split; [|split].
      * simpl. eapply chans_update; eauto.
        unfold chan_ok. simp_tr. repeat split; try tauto; try lia; try discriminate.
        -- intros Hr. apply K1 in Hr. congruence.
        -- rewrite app_nil_r in K3. auto.
        -- intros w0 [Hw0|Hw0]; [subst; eexists; split; eauto; apply in_or_app; right; left; auto|].
           unwoken Hw0. destruct (K6 _ Hw0) as (rl0 & E0 & Hi0). inversion E0; subst.
           eexists; split; eauto. apply in_or_app; auto.
      * eapply gate_keep; eauto.
        -- unfold open_empty. simpl. rewrite Hd, Hrw. auto.
        -- simpl. discriminate.
        -- intros p Hp. apply parked_send_sub in Hp; [tauto|]. intros; discriminate.
      * apply no_panic_cons; auto. simpl. discriminate.
    + (* end of stream *)
      inversion H; subst; clear H. split; [|split].
      * apply chans_keep with (c := c); auto. intros ch0 Hn0. rewrite Hn in Hn0. inversion Hn0; subst ch0.
        unfold chan_ok. rewrite Hd. simp_tr. repeat split; try tauto.
        -- rewrite app_nil_r in K3. auto.
        -- intros w0 Hw0. unwoken Hw0. destruct (K6 _ Hw0) as (rl0 & E0 & _). discriminate.
      * unfold gate_ok. repeat split; auto.
        intros w0 c0 Hw0. apply parked_send_sub in Hw0; [apply G5; tauto|]. intros; discriminate.
      * apply no_panic_cons; auto. simpl. discriminate.
  - assert (HK : forall wk, chan_ok ((RecvPoll c w, (RSome x, wk)) :: rtr) c (mkChan (Some q') (nsend ch) (rwk ch))).
    { intros wk. unfold chan_ok. simp_tr. repeat split; try tauto; try lia; try discriminate.
      - intros rl w0 E Hi. destruct (K2 _ _ E Hi); discriminate.
      - rewrite <- app_assoc. simpl. auto.
      - intros Hr. exfalso. apply K5 in Hr. discriminate.
      - intros w0 Hw0. apply In_unwoken with (f := fun w => w) in Hw0. apply K6. tauto. }
    assert (Hoe : open_empty ch = false) by (unfold open_empty; rewrite Hd; auto).
    destruct (is_nil q' && is_some (rwk ch)) eqn:Hc.
    + apply andb_prop in Hc. destruct Hc as [Hq Hr]. destruct q'; [|discriminate].
      destruct (rwk ch) as [rl|] eqn:Hrw; [|discriminate].
      assert (Hoe' : open_empty (mkChan (Some []) (nsend ch) (Some rl)) = true) by reflexivity.
      pose proof (count_nonneg (chans s)) as Hnn.
      destruct (empty s =? 0) eqn:He.
      * apply Z.eqb_eq in He. rewrite He in H. simpl in H. inversion H; subst; clear H.
        split; [|split].
        -- simpl. eapply chans_update; eauto.
        -- unfold gate_ok. simpl. rewrite (count_set _ _ _ _ Hn), Hoe, Hoe'. unfold b2z.
           split; [lia|]. split; [discriminate|]. split; [lia|]. split; [discriminate|].
           intros w0 c0 Hw0. exfalso. psub Hw0.
           destruct Hw0 as [Ha Hb]. destruct (G5 _ _ Ha) as (l0 & E0 & Hi0). rewrite E0 in Hb.
           apply Hb. simpl. apply (in_map fst) in Hi0. auto.
        -- apply no_panic_cons; auto. simpl. discriminate.
      * apply Z.eqb_neq in He.
        assert (Hsw : swk s = None).
        { destruct (swk s) eqn:E; auto. specialize (G2 _ eq_refl). lia. }
        inversion H; subst; clear H. split; [|split].
        -- simpl. eapply chans_update; eauto.
        -- unfold gate_ok. simpl. rewrite (count_set _ _ _ _ Hn), Hoe, Hoe'. unfold b2z. rewrite Hsw.
           split; [lia|]. split; [discriminate|]. split; [lia|]. split; [discriminate|].
           intros w0 c0 Hw0. exfalso. psub Hw0.
           destruct Hw0 as [Ha Hb]. destruct (G5 _ _ Ha) as (l0 & E0 & Hi0). congruence.
        -- apply no_panic_cons; auto. simpl. discriminate.
    + inversion H; subst; clear H. split; [|split].
      * simpl. eapply chans_update; eauto.
      * eapply gate_keep; eauto.
        -- rewrite Hoe. unfold open_empty. simpl. destruct q'; auto.
        -- simpl. discriminate.
        -- intros p Hp. apply parked_send_sub in Hp; [tauto|]. intros; discriminate.
      * apply no_panic_cons; auto. simpl. discriminate.
Qed.

Lemma clone_inv : forall s rtr c s' ou,
  Inv s rtr -> clone_s c s = Some (s', ou) -> Inv s' ((CloneS c, ou) :: rtr).
Proof.
  intros s rtr c s' ou HI H.
  pose proof HI as (HC & HG & HP).
  unfold clone_s in H.
  destruct (nth_error (chans s) c) as [ch|] eqn:Hn; [|discriminate].
  destruct (nsend ch =? 0)%nat eqn:Hns; [discriminate|]. apply Nat.eqb_neq in Hns.
  pose proof (HC _ _ Hn) as (K1 & K2 & K3 & K4 & K5 & K6).
  inversion H; subst; clear H. split; [|split].
  - simpl. eapply chans_update; eauto.
    unfold chan_ok. simp_tr. repeat split; try tauto; try lia; try discriminate.
    intros w0 Hw0. unwoken Hw0. auto.
  - eapply gate_keep; eauto.
    intros p Hp. apply parked_send_sub in Hp; [tauto|]. intros; discriminate.
  - apply no_panic_cons; auto. simpl. discriminate.
Qed.

Lemma drop_s_inv : forall s rtr c s' ou,
  Inv s rtr -> drop_s c s = Some (s', ou) -> Inv s' ((DropS c, ou) :: rtr).
Proof.
  intros s rtr c s' ou HI H.
  pose proof HI as (HC & HG & HP).
  pose proof HG as (G1 & G2 & G3 & G4 & G5).
  unfold drop_s in H.
  destruct (nth_error (chans s) c) as [ch|] eqn:Hn; [|discriminate].
  pose proof (HC _ _ Hn) as (K1 & K2 & K3 & K4 & K5 & K6).
  destruct (nsend ch) as [|[|k]] eqn:Hns; [discriminate| |].
  - (* last sender *)
    destruct (rwk ch) as [rl|] eqn:Hrw; [|exfalso; assert (1 = 0)%nat by tauto; discriminate].
    assert (HK : chan_ok ((DropS c, (RUnit, rl)) :: rtr) c (mkChan (data ch) 0 None)).
    { unfold chan_ok. simp_tr. repeat split; try tauto; try lia; try discriminate.
      intros w0 Hw0. exfalso. apply In_unwoken with (f := fun w => w) in Hw0. destruct Hw0 as [Ha Hb].
      destruct (K6 _ Ha) as (rl0 & E0 & Hi0). inversion E0; subst. auto. }
    destruct (data ch) as [[|y q]|] eqn:Hd.
    + (* empty queue: the channel stops counting as empty *)
      assert (Hoe : open_empty ch = true) by (unfold open_empty; rewrite Hd, Hrw; auto).
      destruct (open_empty_gate _ _ _ _ HI Hn Hoe) as [He1 Hsw].
      rewrite Hsw, decr_none in H. simpl in H. inversion H; subst; clear H.
      split; [|split].
      * simpl. eapply chans_update; eauto.
      * pose proof (swk_none_parked _ _ HG Hsw) as Hpk.
        unfold gate_ok. simpl. rewrite Hpk. simpl.
        rewrite (count_set _ _ _ _ Hn), Hoe. unfold open_empty at 1. simpl. unfold b2z.
        split; [lia|]. split; [|split; [|split]].
        -- intros l0 E. destruct (empty s =? 1) eqn:E1; [|discriminate]. apply Z.eqb_eq in E1. lia.
        -- intros E. left. assert (E1 : empty s =? 1 = true) by (apply Z.eqb_eq; lia). rewrite E1. discriminate.
        -- intros l0 w0 c0 E Hi. destruct (empty s =? 1); inversion E; subst. contradiction.
        -- intros; contradiction.
      * apply no_panic_cons; auto. simpl. discriminate.
    + inversion H; subst; clear H. split; [|split].
      * simpl. eapply chans_update; eauto.
      * simpl. eapply gate_keep; eauto.
        -- unfold open_empty. simpl. rewrite Hd. auto.
        -- simpl. discriminate.
        -- intros p Hp. apply parked_send_sub in Hp; [tauto|]. intros; discriminate.
      * apply no_panic_cons; auto. simpl. discriminate.
    + inversion H; subst; clear H. split; [|split].
      * simpl. eapply chans_update; eauto.
      * simpl. eapply gate_keep; eauto.
        -- unfold open_empty. simpl. rewrite Hd. auto.
        -- intros p Hp. apply parked_send_sub in Hp; [tauto|]. intros; discriminate.
      * apply no_panic_cons; auto. simpl. discriminate.
  - (* other sender handles remain *)
    inversion H; subst; clear H. split; [|split].
    + simpl. eapply chans_update; eauto.
      unfold chan_ok. simp_tr. repeat split; try tauto; try lia; try discriminate.
      * intros Hr. apply K1 in Hr. discriminate.
      * intros w0 Hw0. unwoken Hw0. auto.
    + eapply gate_keep; eauto.
      intros p Hp. apply parked_send_sub in Hp; [tauto|]. intros; discriminate.
    + apply no_panic_cons; auto. simpl. discriminate.
Qed.

Lemma drop_r_inv : forall s rtr c s' ou,
  Inv s rtr -> drop_r c s = Some (s', ou) -> Inv s' ((DropR c, ou) :: rtr).
Proof.
  intros s rtr c s' ou HI H.
  pose proof HI as (HC & HG & HP).
  pose proof HG as (G1 & G2 & G3 & G4 & G5).
  unfold drop_r in H.
  destruct (nth_error (chans s) c) as [ch|] eqn:Hn; [|discriminate].
  pose proof (HC _ _ Hn) as (K1 & K2 & K3 & K4 & K5 & K6).
  destruct (data ch) as [q|] eqn:Hd; [|discriminate].
  assert (HK : forall wk, chan_ok ((DropR c, (RUnit, wk)) :: rtr) c (mkChan None (nsend ch) (rwk ch))).
  { intros wk. unfold chan_ok. simp_tr. repeat split; try tauto; try lia; try discriminate.
    - eauto.
    - intros w0 Hw0. apply In_unwoken with (f := fun w => w) in Hw0. apply K6. tauto. }
  assert (Hoe' : open_empty (mkChan None (nsend ch) (rwk ch)) = false) by reflexivity.
  destruct (is_nil q && negb (nsend ch =? 0)%nat) eqn:Hdec.
  - apply andb_prop in Hdec. destruct Hdec as [Hq Hns]. destruct q; [|discriminate].
    apply Bool.negb_true_iff in Hns. apply Nat.eqb_neq in Hns.
    assert (Hrw : exists rl, rwk ch = Some rl).
    { destruct (rwk ch) eqn:E; eauto. exfalso. apply Hns. apply K1. auto. }
    destruct Hrw as [rl Hrw].
    assert (Hoe : open_empty ch = true) by (unfold open_empty; rewrite Hd, Hrw; auto).
    destruct (open_empty_gate _ _ _ _ HI Hn Hoe) as [He1 Hsw].
    pose proof (swk_none_parked _ _ HG Hsw) as Hpk.
    rewrite Hsw, decr_none in H. simpl in H.
    destruct (empty s =? 1) eqn:E1.
    + apply Z.eqb_eq in E1. simpl in H. inversion H; subst; clear H. split; [|split].
      * simpl. eapply chans_update; eauto.
      * unfold gate_ok. simpl. rewrite Hpk. simpl.
        rewrite (count_set _ _ _ _ Hn), Hoe, Hoe'. unfold b2z.
        split; [lia|]. split; [intros; lia|]. split; [intros; left; discriminate|]. split.
        -- intros l0 w0 c0 E Hi. inversion E; subst. contradiction.
        -- intros; contradiction.
      * apply no_panic_cons; auto. simpl. discriminate.
    + apply Z.eqb_neq in E1. inversion H; subst; clear H. split; [|split].
      * simpl. eapply chans_update; eauto.
      * unfold gate_ok. simpl. rewrite Hpk. simpl.
        rewrite (count_set _ _ _ _ Hn), Hoe, Hoe'. unfold b2z.
        split; [lia|]. split; [discriminate|]. split; [intros; lia|]. split.
        -- discriminate.
        -- intros; contradiction.
      * apply no_panic_cons; auto. simpl. discriminate.
  - assert (Hoe : open_empty ch = false).
    { unfold open_empty. rewrite Hd. destruct q; auto. simpl in Hdec.
      apply Bool.negb_false_iff in Hdec. apply Nat.eqb_eq in Hdec. apply K1 in Hdec. rewrite Hdec. auto. }
    simpl in H. destruct (swk s) as [l|] eqn:Hsw.
    + inversion H; subst; clear H. split; [|split].
      * simpl. eapply chans_update; eauto.
      * unfold gate_ok. simpl.
        rewrite (count_set _ _ _ _ Hn), Hoe, Hoe'. unfold b2z.
        split; [lia|]. split; [intros; eapply G2; eauto|]. split; [intros; left; discriminate|]. split.
        -- intros l0 w0 c0 E Hi. inversion E; subst l0. apply filter_In in Hi. destruct Hi as [Hi Hne].
           simpl in Hne. apply Bool.negb_true_iff in Hne. apply Nat.eqb_neq in Hne.
           destruct (G4 _ _ _ eq_refl Hi) as (ch0 & Hn0 & Hd0). exists ch0. split; auto.
           rewrite nth_error_set_neq; auto.
        -- intros w0 c0 Hw0. psub Hw0. destruct Hw0 as [Ha Hb].
           destruct (G5 _ _ Ha) as (l0 & E0 & Hi0). inversion E0; subst l0.
           eexists. split; eauto. apply filter_In. split; auto. simpl.
           destruct (c0 =? c)%nat eqn:Ec; auto. exfalso. apply Hb. simpl.
           change w0 with (fst (w0, c0)). apply in_map. apply filter_In. split; auto.
      * apply no_panic_cons; auto. simpl. discriminate.
    + inversion H; subst; clear H. split; [|split].
      * simpl. eapply chans_update; eauto.
      * pose proof (swk_none_parked _ _ HG Hsw) as Hpk.
        unfold gate_ok. simpl. rewrite Hpk. simpl.
        rewrite (count_set _ _ _ _ Hn), Hoe, Hoe'. unfold b2z.
        split; [lia|]. split; [discriminate|]. split; [|split].
        -- intros E. destruct (G3 E) as [Hc|Hc]; [congruence|]. rewrite Hc in Hn. destruct c; discriminate.
        -- discriminate.
        -- intros; contradiction.
      * apply no_panic_cons; auto. simpl. discriminate.
Qed.

Theorem step_inv : forall s rtr o s' ou, Inv s rtr -> step s o = Some (s', ou) -> Inv s' ((o, ou) :: rtr).
Proof.
  intros s rtr o s' ou HI H. destruct o; simpl in H.
  - eapply send_inv; eauto.
  - eapply recv_inv; eauto.
  - eapply clone_inv; eauto.
  - eapply drop_s_inv; eauto.
  - eapply drop_r_inv; eauto.
Qed.

Lemma count_repeat : forall n, count_oe (repeat new_chan n) = Z.of_nat n.
Proof. induction n; [reflexivity|]. cbn [repeat count_oe]. rewrite IHn. cbn [new_chan open_empty data rwk is_some]. lia. Qed.

Lemma init_inv : forall n, Inv (init n) [].
Proof.
  intros n. split; [|split].
  - intros c ch Hn. apply nth_error_In in Hn. apply repeat_spec in Hn. subst ch.
    unfold chan_ok, new_chan. simpl. repeat split; try tauto; try discriminate; try lia.
  - unfold gate_ok, init. simpl. rewrite count_repeat. repeat split; try discriminate; try tauto.
    intros E. right. destruct n; auto. lia.
  - constructor.
Qed.

Theorem run_from_inv : forall ops s rtr s' rtr', Inv s rtr -> run_from s rtr ops = Some (s', rtr') -> Inv s' rtr'.
Proof.
  induction ops as [|o ops IH]; simpl; intros s rtr s' rtr' HI H.
  - inversion H; subst; auto.
  - destruct (step s o) as [[s1 ou]|] eqn:E; [|discriminate].
    eapply IH; [|eauto]. eapply step_inv; eauto.
Qed.

Theorem run_inv : forall n ops s rtr, run n ops = Some (s, rtr) -> Inv s rtr.
Proof. intros. eapply run_from_inv; [apply init_inv|]; eauto. Qed.
