(* Laws of the reference SQL semantics Model/RefSQL.v (engine E1).  They make the reference trustworthy as
   "what SQL defines": every statement is universally quantified over relations / predicates / values and
   proved by induction.  Nothing here talks about DataFusion's code. *)
From Coq Require Import List ZArith Bool Lia Permutation Sorting.Sorted.
From DF Require Import Base.Prelude Model.RefSQL.
Import ListNotations.
Open Scope Z_scope.

(* ------------------------------------------------------------------ three-valued logic *)
Lemma and3_table :
  and3 TT TT = TT /\ and3 TT TF = TF /\ and3 TT TU = TU /\
  and3 TF TT = TF /\ and3 TF TF = TF /\ and3 TF TU = TF /\
  and3 TU TT = TU /\ and3 TU TF = TF /\ and3 TU TU = TU.
Proof. repeat split; reflexivity. Qed.
Lemma or3_table :
  or3 TT TT = TT /\ or3 TT TF = TT /\ or3 TT TU = TT /\
  or3 TF TT = TT /\ or3 TF TF = TF /\ or3 TF TU = TU /\
  or3 TU TT = TT /\ or3 TU TF = TU /\ or3 TU TU = TU.
Proof. repeat split; reflexivity. Qed.
Lemma not3_table : not3 TT = TF /\ not3 TF = TT /\ not3 TU = TU.
Proof. repeat split; reflexivity. Qed.
Lemma de_morgan_and : forall a b, not3 (and3 a b) = or3 (not3 a) (not3 b).
Proof. destruct a, b; reflexivity. Qed.
Lemma de_morgan_or : forall a b, not3 (or3 a b) = and3 (not3 a) (not3 b).
Proof. destruct a, b; reflexivity. Qed.
Lemma not3_involutive : forall a, not3 (not3 a) = a.
Proof. destruct a; reflexivity. Qed.
Lemma and3_comm : forall a b, and3 a b = and3 b a.
Proof. destruct a, b; reflexivity. Qed.
Lemma or3_comm : forall a b, or3 a b = or3 b a.
Proof. destruct a, b; reflexivity. Qed.
Lemma and3_assoc : forall a b c, and3 a (and3 b c) = and3 (and3 a b) c.
Proof. destruct a, b, c; reflexivity. Qed.
Lemma or3_assoc : forall a b c, or3 a (or3 b c) = or3 (or3 a b) c.
Proof. destruct a, b, c; reflexivity. Qed.
Lemma and3_or3_distr : forall a b c, and3 a (or3 b c) = or3 (and3 a b) (and3 a c).
Proof. destruct a, b, c; reflexivity. Qed.
Lemma or3_and3_distr : forall a b c, or3 a (and3 b c) = and3 (or3 a b) (or3 a c).
Proof. destruct a, b, c; reflexivity. Qed.
Lemma and3_TT_iff : forall a b, and3 a b = TT <-> a = TT /\ b = TT.
Proof. destruct a, b; simpl; intuition congruence. Qed.
Lemma and3_TF_iff : forall a b, and3 a b = TF <-> a = TF \/ b = TF.
Proof. destruct a, b; simpl; intuition congruence. Qed.
Lemma or3_TT_iff : forall a b, or3 a b = TT <-> a = TT \/ b = TT.
Proof. destruct a, b; simpl; intuition congruence. Qed.
Lemma or3_TF_iff : forall a b, or3 a b = TF <-> a = TF /\ b = TF.
Proof. destruct a, b; simpl; intuition congruence. Qed.

(* ------------------------------------------------------------------ structural equality, multiplicities *)
Lemma list_eqb_eq : forall {A} (eqb : A -> A -> bool),
  (forall x y, eqb x y = true <-> x = y) -> forall a b, list_eqb eqb a b = true <-> a = b.
Proof.
  intros A eqb H. induction a as [|x a IH]; destruct b as [|y b]; simpl; try (split; [discriminate|discriminate]); try tauto.
  rewrite andb_true_iff, H, IH. split; [intros [-> ->]; reflexivity | intros E; inversion E; auto].
Qed.
Lemma value_eqb_eq : forall a b, value_eqb a b = true <-> a = b.
Proof.
  intros a b; split.
  - destruct a, b; simpl; intros H; try discriminate; try reflexivity.
    + apply Z.eqb_eq in H; subst; reflexivity.
    + apply eqb_prop in H; subst; reflexivity.
    + apply (list_eqb_eq Z.eqb Z.eqb_eq) in H; subst; reflexivity.
    + apply andb_true_iff in H; destruct H as [H1 H2]; apply Z.eqb_eq in H1; apply Z.eqb_eq in H2; subst; reflexivity.
  - intros <-. destruct a; simpl; auto.
    + apply Z.eqb_refl.
    + apply eqb_reflx.
    + apply (list_eqb_eq Z.eqb Z.eqb_eq); reflexivity.
    + rewrite !Z.eqb_refl; reflexivity.
Qed.
Lemma row_eqb_eq : forall a b, row_eqb a b = true <-> a = b.
Proof. exact (list_eqb_eq value_eqb value_eqb_eq). Qed.
Lemma row_eqb_refl : forall a, row_eqb a a = true.
Proof. intros; apply row_eqb_eq; reflexivity. Qed.
Lemma row_eqb_sym : forall a b, row_eqb a b = row_eqb b a.
Proof.
  intros. destruct (row_eqb a b) eqn:E.
  - apply row_eqb_eq in E; subst; symmetry; apply row_eqb_refl.
  - destruct (row_eqb b a) eqn:E'; auto. apply row_eqb_eq in E'; subst. rewrite row_eqb_refl in E; discriminate.
Qed.

(* multiplicity of a row in a bag *)
Fixpoint count (x : row) (R : rel) : nat :=
  match R with
  | [] => 0
  | y :: R' => ((if row_eqb x y then 1 else 0) + count x R')%nat
  end.
Lemma count_app : forall x a b, count x (a ++ b) = (count x a + count x b)%nat.
Proof. induction a; simpl; intros; auto. rewrite IHa; lia. Qed.
Lemma count_perm : forall a b, Permutation a b -> forall x, count x a = count x b.
Proof. induction 1; simpl; intros; auto; try lia. rewrite IHPermutation1; auto. Qed.
Lemma count_pos_In : forall x R, (0 < count x R)%nat <-> In x R.
Proof.
  induction R; simpl; [split; [lia | tauto]|].
  destruct (row_eqb x a) eqn:E.
  - apply row_eqb_eq in E; subst. split; auto; lia.
  - rewrite <- IHR. split; [intros; right; lia | intros [->|]; [rewrite row_eqb_refl in E; discriminate | lia]].
Qed.
Lemma mem_count : forall x R, mem x R = true <-> (0 < count x R)%nat.
Proof.
  unfold mem. induction R; simpl; [split; [discriminate | lia]|].
  rewrite orb_true_iff, IHR. destruct (row_eqb x a); split; intros; try lia; auto.
Qed.

(* ------------------------------------------------------------------ the res monad *)
Lemma mapM_ok_all : forall {A B} (f : A -> res B) l ys, mapM f l = Ok ys -> forall x, In x l -> exists y, f x = Ok y.
Proof.
  induction l; simpl; intros ys H x Hin; [tauto|].
  destruct (f a) eqn:Fa; simpl in H; [|discriminate].
  destruct (mapM f l) eqn:M; simpl in H; [|discriminate].
  destruct Hin as [<-|Hin]; eauto.
Qed.
Lemma mapM_length : forall {A B} (f : A -> res B) l ys, mapM f l = Ok ys -> length ys = length l.
Proof.
  induction l; simpl; intros ys H; [inversion H; reflexivity|].
  destruct (f a); simpl in H; [|discriminate]. destruct (mapM f l) eqn:M; simpl in H; [|discriminate].
  inversion H; subst; simpl; f_equal; eauto.
Qed.
Lemma is_tt_iff : forall x, is_tt x = true <-> x = Ok TT.
Proof. destruct x as [[]|]; simpl; split; congruence. Qed.

(* ------------------------------------------------------------------ WHERE keeps exactly the rows whose predicate is TRUE *)
Lemma filter_count : forall (f : row -> bool) R x, count x (filter f R) = if f x then count x R else 0%nat.
Proof.
  induction R; simpl; intros; [destruct (f x); reflexivity|].
  destruct (f a) eqn:Fa; simpl; rewrite IHR; destruct (row_eqb x a) eqn:E; try (destruct (f x); lia).
  - apply row_eqb_eq in E; subst; rewrite Fa; lia.
  - apply row_eqb_eq in E; subst; rewrite Fa; lia.
Qed.
Theorem filter_keeps_exactly_true : forall (p : row -> res tv) R R',
  filter_m p R = Ok R' ->
  forall r, (In r R' <-> In r R /\ p r = Ok TT) /\
            count r R' = (if is_tt (p r) then count r R else 0%nat).
Proof.
  unfold filter_m; intros p R R' H r. destruct (mapM p R); simpl in H; [|discriminate]. inversion H; subst.
  split; [rewrite filter_In, is_tt_iff; tauto | apply filter_count].
Qed.
(* a predicate that evaluates to FALSE or UNKNOWN (NULL) drops the row; an evaluation error is never swallowed *)
Theorem filter_errors_propagate : forall (p : row -> res tv) R R',
  filter_m p R = Ok R' -> forall r, In r R -> exists t, p r = Ok t.
Proof.
  unfold filter_m; intros p R R' H r Hin. destruct (mapM p R) eqn:M; simpl in H; [|discriminate]. eapply mapM_ok_all; eauto.
Qed.
Theorem eval_filter_keeps_exactly_true : forall f d en p q R',
  eval_query (S f) d en (QFilter p q) = Ok R' ->
  exists R, eval_query f d en q = Ok R /\
    forall r, count r R' =
      (if is_tt (v <- eval_expr f d (r :: en) p;; tv_of_value v) then count r R else 0%nat).
Proof.
  intros f d en p q R' H. cbn [eval_query] in H. destruct (eval_query f d en q) as [R|] eqn:E; simpl in H; [|discriminate].
  exists R; split; auto. intros r. exact (proj2 (filter_keeps_exactly_true _ _ _ H r)).
Qed.

(* ------------------------------------------------------------------ joins *)
Lemma filter_nil_existsb : forall {A} (f : A -> bool) l, filter f l = [] <-> existsb f l = false.
Proof.
  induction l; simpl; [tauto|]. destruct (f a); simpl; [split; discriminate | exact IHl].
Qed.
Theorem inner_join_spec : forall on L R x,
  In x (inner_join on L R) <-> exists l r, In l L /\ In r R /\ on l r = true /\ x = l ++ r.
Proof.
  unfold inner_join; intros. rewrite in_flat_map. split.
  - intros [l [Hl Hx]]. apply in_map_iff in Hx. destruct Hx as [r [<- Hr]]. apply filter_In in Hr. exists l, r; tauto.
  - intros [l [r [Hl [Hr [Ho ->]]]]]. exists l; split; auto. apply in_map_iff. exists r; split; auto. apply filter_In; auto.
Qed.
(* LEFT JOIN = INNER JOIN rows  (+)  the unmatched left rows padded with NULLs *)
Theorem left_join_decomp : forall on wr L R,
  Permutation (left_join on wr L R)
              (inner_join on L R ++ map (fun l => l ++ nulls wr) (unmatched_left on L R)).
Proof.
  intros on wr L R. induction L as [|a L IH]; [constructor|].
  change (left_join on wr (a :: L) R) with
    ((match filter (on a) R with [] => [a ++ nulls wr] | ms => map (fun r => a ++ r) ms end) ++ left_join on wr L R).
  change (inner_join on (a :: L) R) with (map (fun r => a ++ r) (filter (on a) R) ++ inner_join on L R).
  unfold unmatched_left in *. cbn [filter].
  destruct (filter (on a) R) as [|r0 ms] eqn:E.
  - apply filter_nil_existsb in E. rewrite E. cbn [negb map app].
    apply Permutation_cons_app. exact IH.
  - assert (X : existsb (on a) R = true).
    { destruct (existsb (on a) R) eqn:X; auto. apply filter_nil_existsb in X. congruence. }
    rewrite X. cbn [negb]. rewrite <- app_assoc. apply Permutation_app_head. exact IH.
Qed.
Definition inner_join_r (on : row -> row -> bool) (L R : rel) : rel :=
  flat_map (fun r => map (fun l => l ++ r) (filter (fun l => on l r) L)) R.
Lemma right_join_decomp_r : forall on wl L R,
  Permutation (right_join on wl L R)
              (inner_join_r on L R ++ map (fun r => nulls wl ++ r) (unmatched_right on L R)).
Proof.
  intros on wl L R. induction R as [|a R IH]; [constructor|].
  change (right_join on wl L (a :: R)) with
    ((match filter (fun l => on l a) L with [] => [nulls wl ++ a] | ms => map (fun l => l ++ a) ms end) ++ right_join on wl L R).
  change (inner_join_r on L (a :: R)) with (map (fun l => l ++ a) (filter (fun l => on l a) L) ++ inner_join_r on L R).
  unfold unmatched_right in *. cbn [filter].
  destruct (filter (fun l => on l a) L) as [|r0 ms] eqn:E.
  - apply filter_nil_existsb in E. rewrite E. cbn [negb map app].
    apply Permutation_cons_app. exact IH.
  - assert (X : existsb (fun l => on l a) L = true).
    { destruct (existsb (fun l => on l a) L) eqn:X; auto. apply filter_nil_existsb in X. congruence. }
    rewrite X. cbn [negb]. rewrite <- app_assoc. apply Permutation_app_head. exact IH.
Qed.
Lemma inner_join_r_nil : forall on R, inner_join_r on [] R = [].
Proof. unfold inner_join_r; induction R; simpl; auto. Qed.
Lemma perm_swap_app : forall {A} (x m y : list A), Permutation (x ++ m ++ y) (m ++ x ++ y).
Proof.
  intros. rewrite !app_assoc. apply Permutation_app_tail. apply Permutation_app_comm.
Qed.
Lemma inner_join_r_cons : forall on a L R,
  Permutation (inner_join_r on (a :: L) R) (map (fun r => a ++ r) (filter (on a) R) ++ inner_join_r on L R).
Proof.
  intros on a L R. induction R as [|r R IH]; [constructor|].
  change (inner_join_r on (a :: L) (r :: R)) with
    (map (fun l => l ++ r) (filter (fun l => on l r) (a :: L)) ++ inner_join_r on (a :: L) R).
  change (inner_join_r on L (r :: R)) with (map (fun l => l ++ r) (filter (fun l => on l r) L) ++ inner_join_r on L R).
  cbn [filter]. destruct (on a r); cbn [map app].
  - constructor. etransitivity; [apply Permutation_app_head; exact IH|]. apply perm_swap_app.
  - etransitivity; [apply Permutation_app_head; exact IH|]. apply perm_swap_app.
Qed.
(* the nested loop may run over either side *)
Lemma inner_join_swap : forall on L R, Permutation (inner_join on L R) (inner_join_r on L R).
Proof.
  intros on L R. induction L as [|a L IH]; [rewrite inner_join_r_nil; constructor|].
  change (inner_join on (a :: L) R) with (map (fun r => a ++ r) (filter (on a) R) ++ inner_join on L R).
  etransitivity; [apply Permutation_app_head; exact IH|]. symmetry. apply inner_join_r_cons.
Qed.
Theorem right_join_decomp : forall on wl L R,
  Permutation (right_join on wl L R)
              (inner_join on L R ++ map (fun r => nulls wl ++ r) (unmatched_right on L R)).
Proof.
  intros. etransitivity; [apply right_join_decomp_r|]. apply Permutation_app_tail. symmetry. apply inner_join_swap.
Qed.
Theorem full_join_decomp : forall on wl wr L R,
  Permutation (full_join on wl wr L R)
              (inner_join on L R ++ map (fun l => l ++ nulls wr) (unmatched_left on L R)
                                 ++ map (fun r => nulls wl ++ r) (unmatched_right on L R)).
Proof.
  intros. unfold full_join. rewrite app_assoc. apply Permutation_app_tail. apply left_join_decomp.
Qed.
Theorem unmatched_left_spec : forall on L R l,
  In l (unmatched_left on L R) <-> In l L /\ forall r, In r R -> on l r = false.
Proof.
  unfold unmatched_left; intros. rewrite filter_In, negb_true_iff. split; intros [H1 H2]; split; auto.
  - intros r Hr. destruct (on l r) eqn:E; auto. assert (existsb (on l) R = true) by (apply existsb_exists; eauto). congruence.
  - destruct (existsb (on l) R) eqn:E; auto. apply existsb_exists in E. destruct E as [r [Hr E]]. rewrite H2 in E; auto.
Qed.

(* ------------------------------------------------------------------ semi / anti join *)
Lemma filter_partition_perm : forall {A} (f : A -> bool) l,
  Permutation (filter f l ++ filter (fun x => negb (f x)) l) l.
Proof.
  induction l; simpl; [constructor|]. destruct (f a); simpl.
  - constructor; auto.
  - symmetry. apply Permutation_cons_app. symmetry; auto.
Qed.
Theorem semi_anti_partition : forall on L R, Permutation (semi_join on L R ++ anti_join on L R) L.
Proof. intros; unfold semi_join, anti_join. apply filter_partition_perm. Qed.
Theorem semi_join_exists : forall on L R l,
  In l (semi_join on L R) <-> In l L /\ exists r, In r R /\ on l r = true.
Proof. unfold semi_join; intros. rewrite filter_In, existsb_exists. tauto. Qed.
Theorem anti_join_not_exists : forall on L R l,
  In l (anti_join on L R) <-> In l L /\ forall r, In r R -> on l r = false.
Proof. exact unmatched_left_spec. Qed.
Theorem semi_join_count : forall on L R l,
  count l (semi_join on L R) = if existsb (on l) R then count l L else 0%nat.
Proof. intros; unfold semi_join; apply filter_count. Qed.

(* ------------------------------------------------------------------ IN / NOT IN *)
Lemma eq3_TT_iff : forall x v, eq3 x v = TT <-> vcompare x v = Some Eq.
Proof.
  intros; unfold eq3, cmp3. destruct (vcompare x v) as [[]|]; simpl; split; congruence.
Qed.
Lemma eq3_TU_iff : forall x v, eq3 x v = TU <-> x = VNull \/ v = VNull.
Proof.
  intros; unfold eq3, cmp3, vcompare.
  destruct x, v; cbv beta iota; try (split; [solve [auto] | intros; reflexivity]);
    (destruct (vcmp_nn _ _); simpl; (split; [discriminate | intros [H|H]; discriminate])).
Qed.
Lemma eq3_TF_iff : forall x v, eq3 x v = TF <-> x <> VNull /\ v <> VNull /\ vcompare x v <> Some Eq.
Proof.
  intros. pose proof (eq3_TT_iff x v) as HT. pose proof (eq3_TU_iff x v) as HU.
  destruct (eq3 x v) eqn:E.
  - split; [discriminate|]. intros [_ [_ H]]. exfalso; apply H; apply HT; reflexivity.
  - split; [intros _|reflexivity]. repeat split; intro X.
    + assert (TF = TU) by (apply HU; auto). discriminate.
    + assert (TF = TU) by (apply HU; auto). discriminate.
    + assert (TF = TT) by (apply HT; auto). discriminate.
  - split; [discriminate|]. intros [H1 [H2 _]]. destruct HU as [HU _]. destruct (HU eq_refl); contradiction.
Qed.
Lemma not3_eq3 : forall x v, not3 (eq3 x v) = ne3 x v.
Proof. intros; unfold eq3, ne3, cmp3. destruct (vcompare x v) as [[]|]; reflexivity. Qed.

(* x IN (v1..vn) is the OR chain  x = v1 OR ... OR x = vn  (FALSE for the empty list) *)
Theorem in_as_or_chain : forall x,
  in3 x [] = TF /\ forall v vs, in3 x (v :: vs) = or3 (eq3 x v) (in3 x vs).
Proof. intros; split; reflexivity. Qed.
Theorem in3_TT : forall x vs, in3 x vs = TT <-> exists v, In v vs /\ vcompare x v = Some Eq.
Proof.
  intros x vs; unfold in3. induction vs as [|v vs IH]; cbn [map any3 fold_right].
  - split; [discriminate | intros [v [[] _]]].
  - fold (any3 (map (eq3 x) vs)). rewrite or3_TT_iff, IH, eq3_TT_iff. split.
    + intros [H | [w [Hw E]]]; [exists v; simpl; auto | exists w; simpl; auto].
    + intros [w [[<-|Hw] E]]; [left; auto | right; eauto].
Qed.
Theorem in3_TF : forall x vs, in3 x vs = TF <-> forall v, In v vs -> eq3 x v = TF.
Proof.
  intros x vs; unfold in3. induction vs as [|v vs IH]; cbn [map any3 fold_right].
  - split; [intros _ v [] | reflexivity].
  - fold (any3 (map (eq3 x) vs)). rewrite or3_TF_iff, IH. split.
    + intros [H1 H2] w [<-|Hw]; auto.
    + intros H; split; [apply H; simpl; auto | intros w Hw; apply H; simpl; auto].
Qed.
(* x NOT IN S is TRUE iff S is empty, or x is not NULL, S has no NULL, and no member of S equals x *)
Theorem not_in_null_aware : forall x vs,
  not_in3 x vs = TT <->
  (vs = [] \/ (x <> VNull /\ ~ In VNull vs /\ forall v, In v vs -> vcompare x v <> Some Eq)).
Proof.
  intros x vs. unfold not_in3.
  assert (N : forall t, not3 t = TT <-> t = TF) by (destruct t; simpl; split; congruence).
  rewrite N, in3_TF. split.
  - intros H. destruct vs as [|v0 vs]; [left; reflexivity | right].
    pose proof (H v0 (or_introl eq_refl)) as H0. apply eq3_TF_iff in H0. destruct H0 as [Hx _].
    split; [exact Hx|]. split.
    + intros Hn. apply H in Hn. apply eq3_TF_iff in Hn. destruct Hn as [_ [Hn _]]. apply Hn; reflexivity.
    + intros v Hv. apply H in Hv. apply eq3_TF_iff in Hv. tauto.
  - intros [-> | [Hx [Hn Hc]]] v Hv; [destruct Hv|].
    apply eq3_TF_iff. repeat split; auto. intros ->; auto.
Qed.
(* ... it is FALSE iff some member equals x, and UNKNOWN in all remaining cases *)
Theorem not_in_false : forall x vs,
  not_in3 x vs = TF <-> exists v, In v vs /\ vcompare x v = Some Eq.
Proof.
  intros. unfold not_in3. rewrite <- in3_TT. destruct (in3 x vs); simpl; split; congruence.
Qed.
(* x NOT IN S  =  x <> ALL S  (conjunction of x <> v over the members) *)
Theorem not_in_as_ne_all : forall x vs, not_in3 x vs = all3 (map (ne3 x) vs).
Proof.
  intros x vs; unfold not_in3, in3. induction vs as [|v vs IH]; cbn [map any3 all3 fold_right]; [reflexivity|].
  fold (any3 (map (eq3 x) vs)). fold (all3 (map (ne3 x) vs)). rewrite de_morgan_or, IH, not3_eq3. reflexivity.
Qed.
(* null-aware anti join formulation: the row survives NOT IN exactly when the filter below keeps it *)
Theorem not_in_null_aware_anti : forall x vs,
  not_in3 x vs = TT <->
  (existsb (fun v => match eq3 x v with TF => false | _ => true end) vs = false).
Proof.
  intros x vs. unfold not_in3.
  assert (N : forall t, not3 t = TT <-> t = TF) by (destruct t; simpl; split; congruence).
  rewrite N, in3_TF. split.
  - intros H. destruct (existsb _ vs) eqn:E; auto. apply existsb_exists in E. destruct E as [v [Hv E]].
    rewrite (H v Hv) in E. discriminate.
  - intros H v Hv. destruct (eq3 x v) eqn:E; auto;
      assert (X : existsb (fun v => match eq3 x v with TF => false | _ => true end) vs = true)
        by (apply existsb_exists; exists v; rewrite E; auto); congruence.
Qed.

(* ------------------------------------------------------------------ set operations by multiplicities *)
Lemma remove_one_some : forall x R R', remove_one x R = Some R' ->
  forall y, count y R = (count y R' + if row_eqb y x then 1 else 0)%nat.
Proof.
  induction R; simpl; intros R' H y; [discriminate|].
  destruct (row_eqb x a) eqn:E.
  - inversion H; subst. apply row_eqb_eq in E; subst. lia.
  - destruct (remove_one x R) eqn:RO; [|discriminate]. inversion H; subst. simpl.
    rewrite (IHR _ eq_refl y). lia.
Qed.
Lemma remove_one_none : forall x R, remove_one x R = None -> count x R = 0%nat.
Proof.
  induction R; simpl; intros H; auto. destruct (row_eqb x a); [discriminate|].
  destruct (remove_one x R); [discriminate|]. rewrite IHR; auto.
Qed.
Lemma remove_one_pos : forall x R, (0 < count x R)%nat -> exists R', remove_one x R = Some R'.
Proof.
  intros. destruct (remove_one x R) eqn:E; eauto. apply remove_one_none in E. lia.
Qed.
Lemma remove_one_perm : forall x R R', remove_one x R = Some R' -> Permutation R (x :: R').
Proof.
  induction R; simpl; intros R' H; [discriminate|].
  destruct (row_eqb x a) eqn:E.
  - inversion H; subst. apply row_eqb_eq in E; subst. reflexivity.
  - destruct (remove_one x R) eqn:RO; [|discriminate]. inversion H; subst.
    etransitivity; [apply perm_skip; apply IHR; reflexivity | apply perm_swap].
Qed.
Theorem intersect_all_count : forall L R x,
  count x (intersect_all L R) = Nat.min (count x L) (count x R).
Proof.
  induction L as [|a L IH]; intros R x; [reflexivity|]. cbn [intersect_all count].
  destruct (remove_one a R) as [R'|] eqn:E.
  - cbn [count]. rewrite IH, (remove_one_some _ _ _ E x). destruct (row_eqb x a); lia.
  - rewrite IH. destruct (row_eqb x a) eqn:X; [|lia].
    apply row_eqb_eq in X; subst. rewrite (remove_one_none _ _ E). lia.
Qed.
Theorem except_all_count : forall L R x,
  count x (except_all L R) = (count x L - count x R)%nat.
Proof.
  induction L as [|a L IH]; intros R x; [reflexivity|]. cbn [except_all count].
  destruct (remove_one a R) as [R'|] eqn:E.
  - rewrite IH, (remove_one_some _ _ _ E x). destruct (row_eqb x a); lia.
  - cbn [count]. rewrite IH. destruct (row_eqb x a) eqn:X; [|lia].
    apply row_eqb_eq in X; subst. rewrite (remove_one_none _ _ E). lia.
Qed.
Theorem distinct_count : forall R x, count x (distinct R) = Nat.min 1 (count x R).
Proof.
  induction R as [|a R IH]; intros x; [reflexivity|]. cbn [distinct count].
  destruct (mem a R) eqn:M.
  - rewrite IH. destruct (row_eqb x a) eqn:X; [|lia].
    apply row_eqb_eq in X; subst. apply mem_count in M. lia.
  - cbn [count]. rewrite IH. destruct (row_eqb x a) eqn:X; [|lia].
    apply row_eqb_eq in X; subst.
    assert (count a R = 0%nat). { destruct (count a R) eqn:C; auto. assert (mem a R = true) by (apply mem_count; lia). congruence. }
    lia.
Qed.
Theorem distinct_In : forall R x, In x (distinct R) <-> In x R.
Proof. intros. rewrite <- !count_pos_In, distinct_count. lia. Qed.
Lemma mem_distinct : forall x R, mem x (distinct R) = mem x R.
Proof.
  intros. destruct (mem x R) eqn:M.
  - apply mem_count. rewrite distinct_count. apply mem_count in M. lia.
  - destruct (mem x (distinct R)) eqn:M'; auto. apply mem_count in M'. rewrite distinct_count in M'.
    assert (mem x R = true) by (apply mem_count; lia). congruence.
Qed.
Theorem distinct_idempotent : forall R, distinct (distinct R) = distinct R.
Proof.
  induction R as [|a R IH]; [reflexivity|]. cbn [distinct]. destruct (mem a R) eqn:M; auto.
  cbn [distinct]. rewrite mem_distinct, M, IH. reflexivity.
Qed.
Theorem set_ops_multiplicities : forall L R x,
  count x (set_op SUnion true L R) = (count x L + count x R)%nat /\
  count x (set_op SUnion false L R) = Nat.min 1 (count x L + count x R) /\
  count x (set_op SIntersect true L R) = Nat.min (count x L) (count x R) /\
  count x (set_op SIntersect false L R) = Nat.min 1 (Nat.min (count x L) (count x R)) /\
  count x (set_op SExcept true L R) = (count x L - count x R)%nat /\
  count x (set_op SExcept false L R) = (Nat.min 1 (count x L) - Nat.min 1 (count x R))%nat.
Proof.
  intros; cbn [set_op].
  rewrite count_app, distinct_count, count_app, !intersect_all_count, !except_all_count, !distinct_count.
  repeat split; lia.
Qed.

(* ------------------------------------------------------------------ ORDER BY *)
Section SortLaws.
  Context {A : Type} (leb : A -> A -> bool).
  Hypothesis leb_total : forall a b, leb a b = false -> leb b a = true.
  Let le := fun a b => leb a b = true.

  Lemma insert_sorted_perm : forall a l, Permutation (insert_sorted leb a l) (a :: l).
  Proof.
    induction l; simpl; [reflexivity|]. destruct (leb a a0); [reflexivity|].
    etransitivity; [apply perm_skip; exact IHl | apply perm_swap].
  Qed.
  Lemma isort_perm : forall l, Permutation (isort leb l) l.
  Proof.
    induction l; simpl; [constructor|]. etransitivity; [apply insert_sorted_perm | constructor; auto].
  Qed.
  Lemma insert_sorted_Sorted : forall a l, Sorted le l -> Sorted le (insert_sorted leb a l).
  Proof.
    induction l as [|b l IH]; simpl; intros H; [repeat constructor|].
    destruct (leb a b) eqn:E.
    - constructor; [exact H | constructor; exact E].
    - inversion H as [|? ? Hs Hh]; subst. constructor; [apply IH; auto|].
      destruct l as [|c l]; simpl.
      + constructor. apply leb_total; auto.
      + destruct (leb a c); constructor; [apply leb_total; auto | inversion Hh; auto].
  Qed.
  Lemma isort_Sorted : forall l, Sorted le (isort leb l).
  Proof. induction l; simpl; [constructor | apply insert_sorted_Sorted; auto]. Qed.
End SortLaws.

Lemma str_cmp_antisym : forall a b, str_cmp b a = CompOpp (str_cmp a b).
Proof.
  induction a; destruct b; simpl; auto. rewrite (Z.compare_antisym a z). destruct (a ?= z); simpl; auto.
Qed.
Lemma vcmp_nn_antisym : forall a b, vcmp_nn b a = CompOpp (vcmp_nn a b).
Proof.
  intros a b. destruct a as [|x|x|x|n d], b as [|y|y|y|n' d']; simpl;
    try reflexivity; try apply Z.compare_antisym; try apply str_cmp_antisym.
  destruct x, y; reflexivity.
Qed.
Lemma dir_cmp_antisym : forall d a b, dir_cmp d b a = CompOpp (dir_cmp d a b).
Proof.
  intros [desc nf] a b. unfold dir_cmp.
  destruct a, b; try reflexivity; try (destruct nf; reflexivity);
    (destruct desc; [rewrite (vcmp_nn_antisym _ _); reflexivity | apply vcmp_nn_antisym]).
Qed.
Lemma keys_cmp_antisym : forall ds a b, keys_cmp ds b a = CompOpp (keys_cmp ds a b).
Proof.
  induction ds as [|d ds IH]; intros a b; [destruct a, b; reflexivity|].
  destruct a as [|x a], b as [|y b]; try reflexivity. cbn [keys_cmp].
  rewrite (dir_cmp_antisym d x y). destruct (dir_cmp d x y); simpl; auto.
Qed.
Lemma keys_leb_total : forall ds a b, keys_leb ds a b = false -> keys_leb ds b a = true.
Proof.
  unfold keys_leb; intros ds a b H. rewrite (keys_cmp_antisym ds a b). destruct (keys_cmp ds a b); simpl; auto; discriminate.
Qed.
(* NULL placement does not depend on the direction; non-NULL values compare by the (reversed) value order *)
Theorem null_placement : forall desc v, v <> VNull ->
  dir_cmp (desc, true) VNull v = Lt /\ dir_cmp (desc, true) v VNull = Gt /\
  dir_cmp (desc, false) VNull v = Gt /\ dir_cmp (desc, false) v VNull = Lt /\
  dir_cmp (desc, true) VNull VNull = Eq /\ dir_cmp (desc, false) VNull VNull = Eq.
Proof. intros desc v H. destruct v; try congruence; repeat split; reflexivity. Qed.
Theorem dir_cmp_nonnull : forall nf a b, a <> VNull -> b <> VNull ->
  dir_cmp (false, nf) a b = vcmp_nn a b /\ dir_cmp (true, nf) a b = CompOpp (vcmp_nn a b).
Proof. intros nf a b Ha Hb. destruct a, b; try congruence; split; reflexivity. Qed.

Theorem order_by_sorted_perm : forall ds (l : list (row * row)),
  Permutation (sort_pairs ds l) l /\
  Sorted (fun p q => keys_leb ds (fst p) (fst q) = true) (sort_pairs ds l).
Proof.
  intros; unfold sort_pairs; split.
  - apply isort_perm.
  - apply (isort_Sorted (fun p q => keys_leb ds (fst p) (fst q))). intros a b; apply keys_leb_total.
Qed.
Lemma map_snd_combine : forall {A B} (ks : list A) (R : list B), length ks = length R -> map snd (combine ks R) = R.
Proof.
  induction ks; destruct R; simpl; intros; try discriminate; auto. f_equal; auto.
Qed.
(* ORDER BY returns a permutation of its input *)
Theorem eval_sort_perm : forall f d en keys q S0,
  eval_query (S f) d en (QSort keys q) = Ok S0 ->
  exists R, eval_query f d en q = Ok R /\ Permutation S0 R.
Proof.
  intros f d en keys q S0 H. cbn [eval_query] in H.
  destruct (eval_query f d en q) as [R|] eqn:E; simpl in H; [|discriminate].
  match type of H with bind ?m _ = _ => destruct m as [ks|] eqn:K end; simpl in H; [|discriminate].
  inversion H; subst. exists R; split; auto.
  apply mapM_length in K.
  etransitivity; [apply Permutation_map; apply (proj1 (order_by_sorted_perm _ _))|].
  rewrite map_snd_combine; auto.
Qed.

(* ------------------------------------------------------------------ LIMIT / OFFSET *)
Lemma nth_error_skipn_plus : forall {A} k (l : list A) i, nth_error (skipn k l) i = nth_error l (k + i).
Proof.
  induction k; simpl; intros; auto. destruct l; simpl; auto. destruct i; reflexivity.
Qed.
Lemma nth_error_firstn_lt : forall {A} n (l : list A) i,
  nth_error (firstn n l) i = if (i <? n)%nat then nth_error l i else None.
Proof.
  induction n; simpl; intros.
  - destruct i; reflexivity.
  - destruct l; simpl.
    + destruct i; [reflexivity|]. cbn [nth_error]. destruct (S i <? S n)%nat; reflexivity.
    + destruct i; simpl; [reflexivity|]. rewrite IHn. reflexivity.
Qed.
Theorem limit_offset_is_firstn_skipn : forall off lim R,
  limit_offset off lim R =
    match lim with
    | Some n => firstn (Z.to_nat n) (skipn (Z.to_nat off) R)
    | None => skipn (Z.to_nat off) R
    end.
Proof. reflexivity. Qed.
(* output position i holds input position off + i, for i < limit *)
Theorem limit_offset_nth : forall off n R i,
  nth_error (limit_offset off (Some n) R) i =
    if (i <? Z.to_nat n)%nat then nth_error R (Z.to_nat off + i) else None.
Proof.
  intros; unfold limit_offset. rewrite nth_error_firstn_lt, nth_error_skipn_plus. reflexivity.
Qed.
Theorem limit_offset_length : forall off n R,
  length (limit_offset off (Some n) R) = Nat.min (Z.to_nat n) (length R - Z.to_nat off).
Proof. intros; unfold limit_offset. rewrite firstn_length, skipn_length. reflexivity. Qed.

(* ------------------------------------------------------------------ GROUP BY *)
Section GroupLaws.
  Context {A : Type}.
  Definition flat_groups (gs : list (row * list A)) : list (row * A) :=
    flat_map (fun g => map (pair (fst g)) (snd g)) gs.

  Lemma insert_group_flat : forall k (x : A) gs,
    Permutation (flat_groups (insert_group k x gs)) ((k, x) :: flat_groups gs).
  Proof.
    induction gs as [|[k' xs] gs IH]; [reflexivity|]. cbn [insert_group].
    destruct (row_eqb k k') eqn:E.
    - apply row_eqb_eq in E; subst. reflexivity.
    - unfold flat_groups in *. cbn [flat_map fst snd].
      etransitivity; [apply Permutation_app_head; exact IH|]. symmetry. apply Permutation_middle.
  Qed.
  Lemma insert_group_keys : forall k (x : A) gs k0,
    In k0 (map fst (insert_group k x gs)) <-> k0 = k \/ In k0 (map fst gs).
  Proof.
    induction gs as [|[k' xs] gs IH]; intros k0; cbn [insert_group map fst].
    - simpl; intuition.
    - destruct (row_eqb k k') eqn:E; cbn [map fst In].
      + apply row_eqb_eq in E; subst. intuition.
      + rewrite IH. intuition.
  Qed.
  Lemma insert_group_nodup : forall k (x : A) gs,
    NoDup (map fst gs) -> NoDup (map fst (insert_group k x gs)).
  Proof.
    induction gs as [|[k' xs] gs IH]; intros H; cbn [insert_group map fst].
    - constructor; [intros []|constructor].
    - destruct (row_eqb k k') eqn:E; cbn [map fst]; [exact H|].
      inversion H as [|? ? Hn Hd]; subst. constructor; [|apply IH; auto].
      rewrite insert_group_keys. intros [->|X]; [rewrite row_eqb_refl in E; discriminate | auto].
  Qed.
  Lemma insert_group_nonempty : forall k (x : A) gs,
    Forall (fun g => snd g <> []) gs -> Forall (fun g => snd g <> []) (insert_group k x gs).
  Proof.
    induction gs as [|[k' xs] gs IH]; intros H; cbn [insert_group].
    - repeat constructor. discriminate.
    - inversion H; subst. destruct (row_eqb k k'); constructor; auto. simpl; discriminate.
  Qed.

  (* every (key, member) pair of the input lies in exactly one group, the one labelled with its key: the
     groups, flattened with their labels, are a permutation of the input (multiplicities preserved) ... *)
  Theorem group_by_partitions : forall l : list (row * A),
    Permutation (flat_groups (group_pairs l)) l.
  Proof.
    induction l as [|[k x] l IH]; [constructor|]. cbn [group_pairs].
    etransitivity; [apply insert_group_flat | constructor; auto].
  Qed.
  (* ... there is exactly one group per distinct key (keys compare structurally: NULL = NULL, NULL <> non-NULL) ... *)
  Theorem group_keys_nodup : forall l : list (row * A), NoDup (map fst (group_pairs l)).
  Proof.
    induction l as [|[k x] l IH]; [constructor|]. cbn [group_pairs]. apply insert_group_nodup; auto.
  Qed.
  (* ... and no group is empty *)
  Theorem group_nonempty : forall l : list (row * A), Forall (fun g => snd g <> []) (group_pairs l).
  Proof.
    induction l as [|[k x] l IH]; [constructor|]. cbn [group_pairs]. apply insert_group_nonempty; auto.
  Qed.
  Theorem group_member_key : forall (l : list (row * A)) g x,
    In g (group_pairs l) -> In x (snd g) -> In (fst g, x) l.
  Proof.
    intros l g x Hg Hx. eapply Permutation_in; [apply group_by_partitions|].
    unfold flat_groups. apply in_flat_map. exists g; split; auto. apply in_map; auto.
  Qed.
  Theorem group_complete : forall (l : list (row * A)) k x,
    In (k, x) l -> exists g, In g (group_pairs l) /\ fst g = k /\ In x (snd g).
  Proof.
    intros l k x H. eapply Permutation_in in H; [|symmetry; apply group_by_partitions].
    unfold flat_groups in H. apply in_flat_map in H. destruct H as [g [Hg Hx]].
    apply in_map_iff in Hx. destruct Hx as [y [E Hy]]. inversion E; subst. eauto.
  Qed.
End GroupLaws.
(* a NULL key is a group of its own: it equals the NULL key and no other *)
Theorem null_key_own_group :
  row_eqb [VNull] [VNull] = true /\ forall v, v <> VNull -> row_eqb [VNull] [v] = false /\ row_eqb [v] [VNull] = false.
Proof. split; [reflexivity|]. intros v H; destruct v; try congruence; split; reflexivity. Qed.

(* ------------------------------------------------------------------ aggregates *)
Theorem agg_empty :
  agg_apply FCountStar [] = Ok (VInt 0) /\ agg_apply FCount [] = Ok (VInt 0) /\
  agg_apply FCountDistinct [] = Ok (VInt 0) /\ agg_apply FSum [] = Ok VNull /\
  agg_apply FMin [] = Ok VNull /\ agg_apply FMax [] = Ok VNull /\ agg_apply FAvg [] = Ok VNull.
Proof. repeat split; reflexivity. Qed.
Lemma nonnull_idem : forall vs, nonnull (nonnull vs) = nonnull vs.
Proof.
  unfold nonnull. induction vs; simpl; auto. destruct (is_null a) eqn:E; simpl; auto. rewrite E; simpl. f_equal; auto.
Qed.
(* every aggregate except count( * ) ignores NULL arguments *)
Theorem agg_ignores_nulls : forall fn vs, fn <> FCountStar -> agg_apply fn vs = agg_apply fn (nonnull vs).
Proof. intros fn vs H. destruct fn; try congruence; unfold agg_apply; rewrite nonnull_idem; reflexivity. Qed.
Theorem agg_cons_null : forall fn vs, fn <> FCountStar -> agg_apply fn (VNull :: vs) = agg_apply fn vs.
Proof. intros fn vs H. rewrite (agg_ignores_nulls fn (VNull :: vs) H), (agg_ignores_nulls fn vs H). reflexivity. Qed.
Lemma nonnull_all_null : forall vs, Forall (fun v => v = VNull) vs -> nonnull vs = [].
Proof. induction 1; simpl; auto. subst; simpl; auto. Qed.
(* over a group whose arguments are all NULL: count = 0, the others are NULL; count( * ) counts rows *)
Theorem agg_all_null : forall vs, Forall (fun v => v = VNull) vs ->
  agg_apply FCountStar vs = Ok (VInt (len vs)) /\ agg_apply FCount vs = Ok (VInt 0) /\
  agg_apply FCountDistinct vs = Ok (VInt 0) /\ agg_apply FSum vs = Ok VNull /\
  agg_apply FMin vs = Ok VNull /\ agg_apply FMax vs = Ok VNull /\ agg_apply FAvg vs = Ok VNull.
Proof. intros vs H. unfold agg_apply. rewrite (nonnull_all_null vs H). repeat split; reflexivity. Qed.
Lemma nonnull_ints : forall zs, nonnull (map VInt zs) = map VInt zs.
Proof. unfold nonnull; induction zs; simpl; auto. f_equal; auto. Qed.
Lemma sum_ints_map : forall zs, sum_ints (map VInt zs) = Ok (fold_right Z.add 0 zs).
Proof. induction zs; simpl; auto. rewrite IHzs; reflexivity. Qed.
Theorem sum_avg_spec : forall z zs,
  let s := fold_right Z.add 0 (z :: zs) in
  agg_apply FSum (map VInt (z :: zs)) = chk64 s /\
  agg_apply FAvg (map VInt (z :: zs)) = Ok (mk_rat s (len (z :: zs))) /\
  agg_apply FCount (map VInt (z :: zs)) = Ok (VInt (len (z :: zs))).
Proof.
  intros z zs s. unfold agg_apply. rewrite nonnull_ints.
  change (map VInt (z :: zs)) with (VInt z :: map VInt zs).
  cbn [sum_ints]. rewrite sum_ints_map. unfold len. cbn [length bind]. rewrite !map_length. repeat split; reflexivity.
Qed.
(* the rational returned by avg denotes n/d exactly, in lowest terms *)
Theorem mk_rat_exact : forall n d n' d', d > 0 -> mk_rat n d = VRat n' d' ->
  n' * d = n * d' /\ d' > 0 /\ Z.gcd n' d' = 1.
Proof.
  intros n d n' d' Hd H. unfold mk_rat in H. inversion H; subst; clear H.
  set (g := Z.gcd n d).
  assert (Hg : g > 0). { pose proof (Z.gcd_nonneg n d). assert (g <> 0) by (unfold g; intros X; apply Z.gcd_eq_0_r in X; lia). unfold g in *; lia. }
  destruct (Z.gcd_divide_l n d) as [a Ha]. destruct (Z.gcd_divide_r n d) as [b Hb]. fold g in Ha, Hb.
  assert (En : n / g = a) by (rewrite Ha; apply Z.div_mul; lia).
  assert (Ed : d / g = b) by (rewrite Hb; apply Z.div_mul; lia).
  split; [|split].
  - rewrite En, Ed. nia.
  - rewrite Ed. nia.
  - apply Z.gcd_div_gcd; [lia | reflexivity].
Qed.

(* ------------------------------------------------------------------ the checker's bag comparison is bag equality *)
Lemma subbag_count : forall a b, subbag a b = true <-> forall x, (count x a <= count x b)%nat.
Proof.
  induction a as [|y a IH]; intros b; cbn [subbag count].
  - split; [intros; lia | reflexivity].
  - destruct (remove_one y b) as [b'|] eqn:E.
    + rewrite IH. split; intros H x.
      * rewrite (remove_one_some _ _ _ E x). specialize (H x). destruct (row_eqb x y); lia.
      * specialize (H x). rewrite (remove_one_some _ _ _ E x) in H. destruct (row_eqb x y); lia.
    + split; [discriminate|]. intros H. specialize (H y). rewrite row_eqb_refl, (remove_one_none _ _ E) in H. lia.
Qed.
Lemma subbag_perm : forall a b, subbag a b = true -> exists c, Permutation b (a ++ c).
Proof.
  induction a as [|y a IH]; intros b H; cbn [subbag] in H; [exists b; reflexivity|].
  destruct (remove_one y b) as [b'|] eqn:E; [|discriminate].
  destruct (IH _ H) as [c Hc]. exists c. etransitivity; [apply remove_one_perm; eauto|]. simpl. constructor; auto.
Qed.
Theorem bag_eqb_iff : forall a b, bag_eqb a b = true <-> Permutation a b.
Proof.
  intros a b; unfold bag_eqb. rewrite andb_true_iff, Nat.eqb_eq. split.
  - intros [Hl Hs]. destruct (subbag_perm _ _ Hs) as [c Hc].
    pose proof (Permutation_length Hc) as L. rewrite app_length in L.
    destruct c; [|simpl in L; lia]. rewrite app_nil_r in Hc. symmetry; auto.
  - intros P. split; [apply Permutation_length; auto|]. apply subbag_count. intros x. rewrite (count_perm _ _ P x). lia.
Qed.
